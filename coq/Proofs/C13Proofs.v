(* C13 - the undo protocol of the session model restores the state on every failing call that does not pass through
   one of the code sites that mutate without (correct) undo. *)
From Coq Require Import ZArith NArith List Bool Lia.
Import ListNotations.
Require Import PonyV.Model.C13Heap PonyV.Model.C13Session PonyV.Proofs.C13HeapLemmas.

(* ------------------------------------------------------------------------------------------------ small facts *)
Lemma opt_eqb_eq : forall A (f : A -> A -> bool), (forall a b, f a b = true -> a = b) -> forall x y, opt_eqb f x y = true -> x = y.
Proof. intros A f Hf [x|] [y|]; cbn; intro H; try discriminate; [f_equal; now apply Hf | reflexivity]. Qed.

Lemma status_eqb_eq : forall a b, status_eqb a b = true -> a = b.
Proof. intros [] []; cbn; intro H; try discriminate; reflexivity. Qed.

Lemma cell_eqb_eq : forall a b, cell_eqb a b = true -> a = b.
Proof.
  intros [] []; cbn; intro H; try discriminate; try reflexivity; f_equal.
  - now apply Nat.eqb_eq.
  - now apply status_eqb_eq.
  - revert H; apply opt_eqb_eq; intros; now apply N.eqb_eq.
  - revert H; apply opt_eqb_eq; intros; now apply Nat.eqb_eq.
  - now apply value_eqb_eq.
  - now apply Bool.eqb_prop.
  - revert H; apply opt_eqb_eq; intros; now apply Nat.eqb_eq.
  - apply (list_eqb_eq _ (opt_eqb Nat.eqb)); [|assumption].
    intros a b; split; [apply opt_eqb_eq; intros; now apply Nat.eqb_eq | intros ->; destruct b; cbn; [apply Nat.eqb_refl | reflexivity]].
Qed.

Lemma existsb_false : forall A (f : A -> bool) l, existsb f l = false -> forall x, In x l -> f x = false.
Proof.
  intros A f l H x Hin. destruct (f x) eqn:E; [|reflexivity].
  assert (existsb f l = true) by (apply existsb_exists; eauto). congruence.
Qed.

Lemma last_write_app : forall a b l,
  last_write (a ++ b) l = match last_write b l with Some c => Some c | None => last_write a l end.
Proof.
  induction a as [|[l' c] a IH]; intros b l; cbn; [destruct (last_write b l); reflexivity|].
  rewrite IH. destruct (last_write b l); reflexivity.
Qed.

Lemma set_nth_length : forall A (l : list A) i x, length (set_nth l i x) = length l.
Proof. induction l as [|h t IH]; intros [|i] x; cbn; auto. Qed.

Lemma nth_error_set_nth : forall A (l : list A) i x y, nth_error l i = Some y -> nth_error (set_nth l i x) i = Some x.
Proof. induction l as [|h t IH]; intros [|i] x y H; cbn in *; try discriminate; [reflexivity | eapply IH; eassumption]. Qed.

Lemma set_nth_set_nth : forall A (l : list A) i x y, nth_error l i = Some y -> set_nth (set_nth l i x) i y = l.
Proof.
  induction l as [|h t IH]; intros [|i] x y H; cbn in *; try discriminate.
  - now injection H as ->.
  - f_equal. now apply IH.
Qed.

Lemma amend_at_app : forall a c b extra, amend_at (a ++ c :: b) (length a) extra = a ++ (c ++ extra) :: b.
Proof. induction a as [|x a IH]; intros; cbn; [reflexivity | f_equal; apply IH]. Qed.

Ltac in_cases H :=
  cbn in H;
  repeat (destruct H as [H|H]; [inversion H; subst; clear H | ]); try contradiction.

(* ------------------------------------------------------------------------------------------------ unlogged writes *)
Lemma restoring_unlogged : forall t w, restoring (unlogged_writes t w).
Proof.
  intros t w c. unfold unlogged_writes. destruct (changes (c_st c) w) eqn:E.
  - apply post_tainted; cbn; [discriminate | exists []; reflexivity].
  - exists []. cbn. split; [reflexivity|]. intro Ht. split; [exact Ht|].
    exists (apply_writes w (c_st c)). split; [reflexivity|].
    apply apply_writes_noop. intros l x Hin.
    unfold changes in E. pose proof (existsb_false _ _ _ E (l, x) Hin) as H. cbn in H.
    apply negb_false_iff in H. apply cell_eqb_eq in H. now symmetry.
Qed.

Lemma post_taint_block : forall c b t w cl, (b = false -> post c (block w cl c)) -> post c ((taint_if b t ;;; block w cl) c).
Proof.
  intros c [|] t w cl H; cbn.
  - apply post_tainted; cbn; [discriminate | exists [cl]; reflexivity].
  - now apply H.
Qed.

Lemma restoring_taint_writes : forall t w, restoring (add_taint t ;;; writes w).
Proof. intros t w c. apply post_tainted; cbn; [discriminate | exists []; reflexivity]. Qed.

Lemma restoring_taint_writes_fail : forall A t w e, restoring (add_taint t ;;; writes w ;;; @fail A e).
Proof. intros A t w e c. apply post_tainted; cbn; [discriminate | exists []; reflexivity]. Qed.

Lemma restoring_taint_fail : forall A t e, restoring (add_taint t ;;; @fail A e).
Proof. intros A t e c. apply post_tainted; cbn; [discriminate | exists []; reflexivity]. Qed.

(* blocks whose closure is made of plain restoring writes *)
Lemma post_block_uw : forall c w r,
  (forall l x, In (l, x) r -> norm l x = view (c_st c) l) ->
  (forall l x, In (l, x) w -> In l (map fst r) \/ norm l x = view (c_st c) l) ->
  post c (block w (uw_list r) c).
Proof.
  intros c w r Hr Hw. apply post_block. rewrite undo_uw_list. eexists; split; [reflexivity|].
  now apply restore_writes.
Qed.

(* ... with one objects_to_save.pop() in the middle *)
Lemma undo_pop : forall S o q,
  view S LQueue = CQueue (q ++ [Some o]) -> view S (LSavePos o) = CPos (Some (length q)) ->
  undo_uact (UQPop o) S = (upd S LQueue (CQueue q), true).
Proof.
  intros S o q Hq Hp. cbn in Hq, Hp. injection Hq as Hq. injection Hp as Hp.
  cbn. rewrite Hq, rev_app_distr. cbn. rewrite rev_involutive, Hp. cbn. now rewrite !Nat.eqb_refl.
Qed.

Lemma post_block_uw_pop : forall c w r1 r2 o q,
  view (apply_writes r1 (apply_writes w (c_st c))) LQueue = CQueue (q ++ [Some o]) ->
  view (apply_writes r1 (apply_writes w (c_st c))) (LSavePos o) = CPos (Some (length q)) ->
  (forall l x, In (l, x) (r1 ++ (LQueue, CQueue q) :: r2) -> norm l x = view (c_st c) l) ->
  (forall l x, In (l, x) w -> In l (map fst (r1 ++ (LQueue, CQueue q) :: r2)) \/ norm l x = view (c_st c) l) ->
  post c (block w (uw_list r1 ++ UQPop o :: uw_list r2) c).
Proof.
  intros c w r1 r2 o q Hq Hp Hr Hw. apply post_block.
  rewrite undo_closure_app, undo_uw_list. cbn [undo_closure].
  rewrite (undo_pop _ o q Hq Hp). rewrite undo_uw_list.
  eexists; split; [reflexivity|].
  replace (apply_writes r2 (upd (apply_writes r1 (apply_writes w (c_st c))) LQueue (CQueue q)))
    with (apply_writes (r1 ++ (LQueue, CQueue q) :: r2) (apply_writes w (c_st c))) by (rewrite apply_writes_app; reflexivity).
  now apply restore_writes.
Qed.

Section Proofs.
Variable sch : schema.
Variable flt : option (nat * nat).

(* ------------------------------------------------------------------------------------------------ index updates *)
Lemma restoring_update_index : forall o e spec prev new, restoring (update_index flt o e spec prev new).
Proof.
  intros o e spec prev new. unfold update_index.
  apply restoring_bind; [apply restoring_tick_idx | intros _].
  destruct ((has_none prev && has_none new) || key_eqb prev new); [apply restoring_ret|].
  apply restoring_bind_gets. intros c. set (s := c_st c).
  destruct (if has_none new then None else g_idx s e spec new) as [o2|] eqn:En.
  - destruct (Nat.eqb o2 o).
    + apply (restoring_bind _ _ _ _ (restoring_add_taint _)). intros _; apply restoring_fail.
    + apply restoring_fail.
  - assert (Hnew : forall l x, In (l, x) (if has_none new then [] else [(LIdx e spec new, CObj (@None oid))]) -> norm l x = view s l).
    { intros l x Hin. destruct (has_none new); [contradiction|]. in_cases Hin. change (CObj (@None oid) = CObj (g_idx s e spec new)). now rewrite En. }
    destruct (has_none prev) eqn:Ep.
      replace (if has_none new then [] else [UW (LIdx e spec new) (CObj None)])
        with (uw_list (if has_none new then [] else [(LIdx e spec new, CObj (@None oid))])) by (destruct (has_none new); reflexivity).
      apply post_block_uw; [exact Hnew|].
      intros l x Hin. left. destruct (has_none new); [contradiction|]. in_cases Hin. cbn. now left.
    + destruct (g_idx s e spec prev) as [o3|] eqn:Eprev.
      * destruct (Nat.eqb o3 o) eqn:Eo.
        -- apply Nat.eqb_eq in Eo; subst o3.
           replace ((if has_none new then [] else [UW (LIdx e spec new) (CObj None)]) ++ [UW (LIdx e spec prev) (CObj (Some o))])
             with (uw_list ((if has_none new then [] else [(LIdx e spec new, CObj (@None oid))]) ++ [(LIdx e spec prev, CObj (Some o))]))
             by (destruct (has_none new); reflexivity).
           apply post_block_uw.
           ++ intros l x Hin. apply in_app_or in Hin as [Hin|Hin]; [now apply Hnew|]. in_cases Hin. change (CObj (Some o) = CObj (g_idx s e spec prev)). now rewrite Eprev.
           ++ intros l x Hin. left. rewrite map_app. apply in_or_app.
              apply in_app_or in Hin as [Hin|Hin].
              ** left. destruct (has_none new); [contradiction|]. in_cases Hin. cbn. now left.
              ** right. in_cases Hin. cbn. now left.
        -- apply restoring_taint_writes.
      * apply restoring_taint_writes_fail.
Qed.

Lemma restoring_attr_index_updates : forall o e a old new, restoring (attr_index_updates sch flt o e a old new).
Proof.
  intros. unfold attr_index_updates.
  apply restoring_bind.
  - destruct (a_unique _); [apply restoring_update_index | apply restoring_ret].
  - intros _. apply restoring_iterM. intros ck. destruct (in_ckey a ck); [|apply restoring_ret].
    apply restoring_bind; [apply restoring_gets | intros s; apply restoring_update_index].
Qed.

(* ------------------------------------------------------------------------------------------------ Attribute.__set__, first half *)
Lemma restoring_touch : forall o a newv, restoring (touch sch o a newv).
Proof.
  intros o a newv. unfold touch. apply restoring_bind_gets. intros c. set (s := c_st c).
  destruct (g_wbits s o) as [w|] eqn:Ew; [destruct (a_hasbit (get_attr sch (g_cls s o) a)) eqn:Eb|].
  - destruct (status_eqb (g_status s o) SModified) eqn:Em.
    + apply (post_block_uw c _ [(LStatus o, CStatus (g_status s o)); (LWbits o, CBits (Some w)); (LVal o a, CVal (g_val s o a))]).
      * intros l x Hin. in_cases Hin; cbn; fold s; try reflexivity. now rewrite Ew.
      * intros l x Hin. left. in_cases Hin; cbn; tauto.
    + destruct (g_status s o) eqn:Est; try apply restoring_taint_fail;
        (destruct (g_savepos s o) eqn:Esp; [apply restoring_taint_fail|]).
      all: match goal with |- context [UW (LStatus _) (CStatus ?st)] =>
             apply (post_block_uw_pop c _ [(LStatus o, CStatus st); (LWbits o, CBits (Some w))]
                      [(LSavePos o, CPos None); (LVal o a, CVal (g_val s o a))] o (g_queue s)) end.
      all: try (rewrite !view_apply_writes; cbn; rewrite ?Nat.eqb_refl; cbn; reflexivity).
      all: try (intros l x Hin; in_cases Hin; cbn; fold s; rewrite ?Est, ?Ew, ?Esp; reflexivity).
      all: intros l x Hin; left; in_cases Hin; cbn; tauto.
  - apply (post_block_uw c _ [(LStatus o, CStatus (g_status s o)); (LWbits o, CBits (Some w)); (LVal o a, CVal (g_val s o a))]).
    + intros l x Hin. in_cases Hin; cbn; fold s; try reflexivity. now rewrite Ew.
    + intros l x Hin. left. in_cases Hin; cbn; tauto.
  - apply (post_block_uw c _ [(LStatus o, CStatus (g_status s o)); (LWbits o, CBits None); (LVal o a, CVal (g_val s o a))]).
    + intros l x Hin. in_cases Hin; cbn; fold s; try reflexivity. now rewrite Ew.
    + intros l x Hin. left. in_cases Hin; cbn; tauto.
Qed.

(* the status / _wbits_ / objects_to_save part of Entity.set and its undo_func *)
Lemma restoring_set_touch : forall o mask b, restoring (set_touch o mask b).
Proof.
  intros o mask b. unfold set_touch. apply restoring_bind_gets. intros c. set (s := c_st c).
  destruct (g_wbits s o) as [w|] eqn:Ew; [destruct b|].
  - destruct (status_eqb (g_status s o) SModified) eqn:Em.
    + apply (post_block_uw c _ [(LStatus o, CStatus (g_status s o)); (LWbits o, CBits (Some w))]).
      * intros l x Hin. in_cases Hin; cbn; fold s; try reflexivity. now rewrite Ew.
      * intros l x Hin. left. in_cases Hin; cbn; tauto.
    + destruct (g_status s o) eqn:Est; try apply restoring_taint_fail;
        (destruct (g_savepos s o) eqn:Esp; [apply restoring_taint_fail|]).
      all: match goal with |- context [UW (LStatus _) (CStatus ?st)] =>
             apply (post_block_uw_pop c _ [(LStatus o, CStatus st); (LWbits o, CBits (Some w))]
                      [(LSavePos o, CPos None)] o (g_queue s)) end.
      all: try (rewrite !view_apply_writes; cbn; rewrite ?Nat.eqb_refl; cbn; reflexivity).
      all: try (intros l x Hin; in_cases Hin; cbn; fold s; rewrite ?Est, ?Ew, ?Esp; reflexivity).
      all: intros l x Hin; left; in_cases Hin; cbn; tauto.
  - apply (post_block_uw c _ [(LStatus o, CStatus (g_status s o)); (LWbits o, CBits (Some w))]).
    + intros l x Hin. in_cases Hin; cbn; fold s; try reflexivity. now rewrite Ew.
    + intros l x Hin. contradiction.
  - apply (post_block_uw c _ [(LStatus o, CStatus (g_status s o)); (LWbits o, CBits None)]).
    + intros l x Hin. in_cases Hin; cbn; fold s; try reflexivity. now rewrite Ew.
    + intros l x Hin. contradiction.
Qed.

(* ------------------------------------------------------------------------------------------------ reverse_add / reverse_remove *)
Lemma uw_list_app : forall a b, uw_list (a ++ b) = uw_list a ++ uw_list b.
Proof. intros; apply map_app. Qed.

Lemma uw_list_flat_map : forall A (R : A -> list (loc * cell)) xs, uw_list (flat_map R xs) = flat_map (fun x => uw_list (R x)) xs.
Proof. intros A R xs; induction xs as [|x xs IH]; cbn; [reflexivity|]. now rewrite uw_list_app, IH. Qed.

Lemma view_bool : forall s l, (match l with LItem _ _ _ | LAdded _ _ _ | LRemoved _ _ _ | LMod _ _ _ => True | _ => False end) ->
  view s l = CBool (g_bool s l).
Proof. intros s l H; destruct l; try contradiction; reflexivity. Qed.

Lemma in_fst_flat_map : forall A (R : A -> list (loc * cell)) xs x l c, In x xs -> In (l, c) (R x) -> In l (map fst (flat_map R xs)).
Proof.
  intros A R xs x l c Hx Hin. apply in_map_iff. exists (l, c). split; [reflexivity|]. apply in_flat_map. eauto.
Qed.

Lemma restoring_reverse_add : forall re ra objs item, restoring (reverse_add flt re ra objs item).
Proof.
  intros re ra objs item. unfold reverse_add.
  apply restoring_bind; [apply restoring_tick_radd | intros _].
  apply restoring_bind_gets. intros c. set (s := c_st c).
  destruct (existsb (fun ob => is_del (g_status s ob)) objs); [apply restoring_fail|].
  destruct (existsb _ objs) eqn:Echk; [apply restoring_taint_fail|].
  set (R := fun ob => [(LItem ob ra item, CBool false);
                       (if g_bool s (LRemoved ob ra item) then (LRemoved ob ra item, CBool true) else (LAdded ob ra item, CBool false))]
                      ++ (if g_bool s (LMod re ra ob) then [] else [(LMod re ra ob, CBool false)])).
  match goal with |- post c (block ?w ?u c) => replace u with (uw_list (flat_map R objs)) end.
  2:{ rewrite uw_list_flat_map. apply flat_map_ext. intros ob. unfold R.
      destruct (g_bool s (LRemoved ob ra item)), (g_bool s (LMod re ra ob)); reflexivity. }
  apply post_block_uw.
  - intros l x Hin. apply in_flat_map in Hin as [ob [Hob Hin]].
    pose proof (existsb_false _ _ _ Echk ob Hob) as Hc. cbn in Hc. apply orb_false_iff in Hc as [Hi Ha].
    unfold R in Hin. apply in_app_or in Hin as [Hin|Hin].
    + destruct (g_bool s (LRemoved ob ra item)) eqn:Er; in_cases Hin; rewrite view_bool by exact I; cbn; fold s; congruence.
    + destruct (g_bool s (LMod re ra ob)) eqn:Em; in_cases Hin. rewrite view_bool by exact I. cbn; fold s; congruence.
  - intros l x Hin. apply in_flat_map in Hin as [ob [Hob Hin]].
    destruct (g_bool s (LRemoved ob ra item)) eqn:Er; destruct (g_bool s (LMod re ra ob)) eqn:Em; in_cases Hin;
      try (left; eapply (in_fst_flat_map _ R objs ob); [exact Hob | unfold R; rewrite ?Er, ?Em; cbn; eauto]; fail);
      right; rewrite view_bool by exact I; cbn; fold s; congruence.
Qed.

Lemma restoring_reverse_remove : forall re ra objs item, restoring (reverse_remove re ra objs item).
Proof.
  intros re ra objs item. unfold reverse_remove.
  apply restoring_bind_gets. intros c. set (s := c_st c).
  destruct (existsb _ objs) eqn:Echk; [apply restoring_taint_fail|].
  set (R := fun ob => [(LItem ob ra item, CBool true);
                       (if g_bool s (LAdded ob ra item) then (LAdded ob ra item, CBool true) else (LRemoved ob ra item, CBool false))]
                      ++ (if g_bool s (LMod re ra ob) then [] else [(LMod re ra ob, CBool false)])).
  match goal with |- post c (block ?w ?u c) => replace u with (uw_list (flat_map R objs)) end.
  2:{ rewrite uw_list_flat_map. apply flat_map_ext. intros ob. unfold R.
      destruct (g_bool s (LAdded ob ra item)), (g_bool s (LMod re ra ob)); reflexivity. }
  apply post_block_uw.
  - intros l x Hin. apply in_flat_map in Hin as [ob [Hob Hin]].
    pose proof (existsb_false _ _ _ Echk ob Hob) as Hc. cbn in Hc. apply orb_false_iff in Hc as [Hi Hr].
    apply negb_false_iff in Hi.
    unfold R in Hin. apply in_app_or in Hin as [Hin|Hin].
    + destruct (g_bool s (LAdded ob ra item)) eqn:Ea; in_cases Hin; rewrite view_bool by exact I; cbn; fold s; congruence.
    + destruct (g_bool s (LMod re ra ob)) eqn:Em; in_cases Hin. rewrite view_bool by exact I. cbn; fold s; congruence.
  - intros l x Hin. apply in_flat_map in Hin as [ob [Hob Hin]].
    destruct (g_bool s (LAdded ob ra item)) eqn:Ea; destruct (g_bool s (LMod re ra ob)) eqn:Em; in_cases Hin;
      try (left; eapply (in_fst_flat_map _ R objs ob); [exact Hob | unfold R; rewrite ?Ea, ?Em; cbn; eauto]; fail);
      right; rewrite view_bool by exact I; cbn; fold s; congruence.
Qed.

Lemma restoring_logged_writes : forall w, restoring (logged_writes w).
Proof.
  intros w. unfold logged_writes. apply restoring_bind_gets. intros c.
  replace (map (fun lx => UW (fst lx) (c_st c (fst lx))) w) with (uw_list (map (fun lx => (fst lx, c_st c (fst lx))) w))
    by (unfold uw_list; rewrite map_map; reflexivity).
  apply post_block_uw.
  - intros l x Hin. apply in_map_iff in Hin as [lx [Heq _]]. injection Heq as <- <-. symmetry; apply view_norm.
  - intros l x Hin. left. rewrite map_map. cbn. apply in_map_iff. exists (l, x). split; [reflexivity | assumption].
Qed.

Lemma restoring_own : forall l x, restoring (own l x).
Proof.
  intros l x. unfold own. apply restoring_bind_gets. intros c.
  apply (post_block_uw c [(l, x)] [(l, c_st c l)]).
  - intros l' x' Hin. in_cases Hin. symmetry; apply view_norm.
  - intros l' x' Hin. left. in_cases Hin. cbn; tauto.
Qed.

(* ------------------------------------------------------------------------------------------------ compositional parts *)
Lemma restoring_attr_set_rev_gen : forall inner x r newv,
  (forall y a, restoring (inner y a)) -> restoring (attr_set_rev_gen sch flt inner x r newv).
Proof.
  intros inner x r newv Hin. unfold attr_set_rev_gen.
  apply restoring_bind; [apply restoring_gets | intros s].
  apply restoring_bind; [apply restoring_guard | intros _].
  apply restoring_bind; [apply restoring_guard | intros _].
  apply restoring_bind; [apply restoring_touch | intros _].
  destruct (value_eqb _ _); [apply restoring_ret|].
  apply restoring_bind; [apply restoring_attr_index_updates | intros _].
  destruct (g_val s x r); try apply restoring_ret.
  destruct (a_kind _); try apply restoring_reverse_remove;
    (destruct (is_none newv); [apply restoring_ret|]; destruct (a_required _); [apply restoring_fail | apply Hin]).
Qed.

Lemma restoring_attr_set_rev0 : forall x r newv, restoring (attr_set_rev0 sch flt x r newv).
Proof. intros. apply restoring_attr_set_rev_gen. intros; apply restoring_fail. Qed.

Lemma restoring_attr_set_rev : forall x r newv, restoring (attr_set_rev sch flt x r newv).
Proof. intros. apply restoring_attr_set_rev_gen. intros; apply restoring_attr_set_rev0. Qed.

Lemma restoring_update_reverse : forall del o e a old new,
  (forall x, restoring (del x)) -> restoring (update_reverse sch flt del o e a old new).
Proof.
  intros del o e a old new Hdel. unfold update_reverse.
  destruct (a_kind (get_attr sch (a_target (get_attr sch e a)) (a_reverse (get_attr sch e a)))).
  4:{ apply restoring_bind; [destruct old; try apply restoring_ret; apply restoring_reverse_remove | intros _].
      destruct new; try apply restoring_ret; apply restoring_reverse_add. }
  all: apply restoring_bind;
    [ destruct old; try apply restoring_ret;
      destruct (a_cascade _); [apply Hdel|]; destruct (a_required _); [apply restoring_fail | apply restoring_attr_set_rev]
    | intros _; destruct new; try apply restoring_ret; apply restoring_attr_set_rev ].
Qed.

Lemma restoring_set_tail_rev : forall m o e a newl to_add to_remove, restoring (set_tail false m o e a newl to_add to_remove).
Proof.
  intros. unfold set_tail. apply restoring_bind; [apply restoring_gets | intros s]. apply restoring_logged_writes.
Qed.

Lemma restoring_err_set_tail : forall d m o e a newl to_add to_remove, restoring_err (set_tail d m o e a newl to_add to_remove).
Proof.
  intros. destruct d; [|apply restoring_err_of, restoring_set_tail_rev].
  unfold set_tail. intros c. cbn. exact I.
Qed.

(* everything of Set.__set__ before the bookkeeping tail *)
Lemma restoring_set_set_main : forall del (k : M unit) o e a newl,
  (forall x, restoring (del x)) ->
  forall s, restoring
    (match a_kind (get_attr sch (a_target (get_attr sch e a)) (a_reverse (get_attr sch e a))) with
     | KSet => reverse_remove (a_target (get_attr sch e a)) (a_reverse (get_attr sch e a)) (minus (members s (LItem o a)) newl) o ;;;
               reverse_add flt (a_target (get_attr sch e a)) (a_reverse (get_attr sch e a)) (minus newl (members s (LItem o a))) o
     | _ => (if a_cascade (get_attr sch e a) then iterM del (minus (members s (LItem o a)) newl)
             else iterM (fun x => attr_set_rev sch flt x (a_reverse (get_attr sch e a)) VNone) (minus (members s (LItem o a)) newl)) ;;;
            iterM (fun x => attr_set_rev sch flt x (a_reverse (get_attr sch e a)) (VRef o)) (minus newl (members s (LItem o a)))
     end).
Proof.
  intros del k o e a newl Hdel s.
  destruct (a_kind _).
  4:{ apply restoring_bind; [apply restoring_reverse_remove | intros _; apply restoring_reverse_add]. }
  all: apply restoring_bind;
    [ destruct (a_cascade _); apply restoring_iterM; [apply Hdel | intros; apply restoring_attr_set_rev]
    | intros _; apply restoring_iterM; intros; apply restoring_attr_set_rev ].
Qed.

Lemma restoring_set_set_rev : forall del o e a newl,
  (forall x, restoring (del x)) -> restoring (set_set sch flt del false o e a newl).
Proof.
  intros del o e a newl Hdel. unfold set_set.
  apply restoring_bind; [apply restoring_gets | intros s].
  destruct (is_empty _ && is_empty _); [apply restoring_ret|].
  apply restoring_bind; [apply (restoring_set_set_main del (ret tt)); assumption | intros _; apply restoring_set_tail_rev].
Qed.

Lemma restoring_err_set_set : forall del d o e a newl,
  (forall x, restoring (del x)) -> restoring_err (set_set sch flt del d o e a newl).
Proof.
  intros del d o e a newl Hdel. unfold set_set.
  apply restoring_err_bind; [apply restoring_gets | intros s].
  destruct (is_empty _ && is_empty _); [apply restoring_err_of, restoring_ret|].
  apply restoring_err_bind; [apply (restoring_set_set_main del (ret tt)); assumption | intros _; apply restoring_err_set_tail].
Qed.

Lemma restoring_del_coll : forall del o e a, (forall x, restoring (del x)) -> restoring (del_coll sch flt del o e a).
Proof.
  intros del o e a Hdel. unfold del_coll. apply restoring_bind; [apply restoring_gets | intros s].
  destruct (is_empty _); [apply restoring_ret|].
  destruct (a_cascade _); [apply restoring_iterM; apply Hdel|].
  destruct (negb _); [now apply restoring_set_set_rev | apply restoring_fail].
Qed.

Lemma restoring_del_ref : forall del o e a, (forall x, restoring (del x)) -> restoring (del_ref sch flt del o e a).
Proof.
  intros del o e a Hdel. unfold del_ref. apply restoring_bind; [apply restoring_gets | intros s].
  destruct (g_val s o a); try apply restoring_ret.
  destruct (a_kind _); try apply restoring_reverse_remove;
    (destruct (a_cascade _); [apply Hdel|]; destruct (negb _); [apply restoring_attr_set_rev | apply restoring_fail]).
Qed.

(* ------------------------------------------------------------------------------------------------ _delete_ *)
Lemma apply_writes_commute : forall R w s,
  (forall l, In l (map fst R) -> ~ In l (map fst w)) ->
  veq (apply_writes R (apply_writes w s)) (apply_writes w (apply_writes R s)).
Proof.
  intros R w s Hd l. rewrite !view_apply_writes.
  destruct (last_write R l) eqn:ER, (last_write w l) eqn:Ew; try reflexivity.
  exfalso. apply last_write_in in ER, Ew. apply (Hd l); apply in_map_iff; [exists (l, c) | exists (l, c0)]; auto.
Qed.

Lemma apply_writes_preserve : forall R s l, ~ In l (map fst R) -> view (apply_writes R s) l = view s l.
Proof. intros. rewrite view_apply_writes, last_write_none; auto. Qed.

Lemma undo_delqueue : forall S o vac psp q1,
  g_status S o = SMarked -> g_queue S = q1 ++ [Some o] ->
  match vac with None => True | Some i => nth_error q1 i = Some None end ->
  undo_uact (UDelQueue o vac psp) S =
  (match vac with
   | Some i => upd (upd S LQueue (CQueue (set_nth q1 i (Some o)))) (LSavePos o) (CPos psp)
   | None => upd (upd S LQueue (CQueue q1)) (LSavePos o) (CPos psp) end, true).
Proof.
  intros S o vac psp q1 Hs Hq Hv. cbn. rewrite Hs, Hq. cbn. rewrite rev_app_distr. cbn. rewrite rev_involutive, Nat.eqb_refl.
  unfold del_slot. destruct vac as [i|]; [now rewrite Hv | reflexivity].
Qed.

Lemma del_closure_exact : forall s o e vac q q1 (keys : list (list nat * list value)),
  g_queue s = q ->
  (forall sk, In sk keys -> g_idx s e (fst sk) (snd sk) = Some o) ->
  ((vac = None /\ q1 = q) \/ (exists i, vac = Some i /\ nth_error q i = Some (Some o) /\ q1 = set_nth q i None)) ->
  exists s0,
    undo_closure ([UDelQueue o vac (g_savepos s o); UW (LStatus o) (CStatus (g_status s o))]
                  ++ map (fun sk => UW (LIdx e (fst sk) (snd sk)) (CObj (Some o))) keys)
      (apply_writes (map (fun sk => (LIdx e (fst sk) (snd sk), CObj (@None oid))) keys
                     ++ [(LQueue, CQueue (q1 ++ [Some o])); (LSavePos o, CPos (Some (length q1))); (LStatus o, CStatus SMarked)]) s)
    = (s0, true) /\ veq s0 s.
Proof.
  intros s o e vac q q1 keys Hq Hk Hhole.
  set (idxw := map (fun sk => (LIdx e (fst sk) (snd sk), CObj (@None oid))) keys).
  set (w := idxw ++ [(LQueue, CQueue (q1 ++ [Some o])); (LSavePos o, CPos (Some (length q1))); (LStatus o, CStatus SMarked)]).
  set (idxr := map (fun sk => (LIdx e (fst sk) (snd sk), CObj (Some o))) keys).
  replace (map (fun sk => UW (LIdx e (fst sk) (snd sk)) (CObj (Some o))) keys) with (uw_list idxr)
    by (unfold uw_list, idxr; rewrite map_map; reflexivity).
  set (S := apply_writes w s).
  assert (HS1 : g_status S o = SMarked).
  { assert (H : view S (LStatus o) = CStatus SMarked).
    { unfold S, w. rewrite view_apply_writes, last_write_app. cbn. now rewrite Nat.eqb_refl. }
    cbn in H. now injection H. }
  assert (HS2 : g_queue S = q1 ++ [Some o]).
  { assert (H : view S LQueue = CQueue (q1 ++ [Some o])).
    { unfold S, w. rewrite view_apply_writes, last_write_app. reflexivity. }
    cbn in H. now injection H. }
  assert (HS3 : match vac with None => True | Some i => nth_error q1 i = Some None end).
  { destruct Hhole as [[-> _] | [i [-> [Hn ->]]]]; [exact I | eapply nth_error_set_nth; eassumption]. }
  cbn [app undo_closure]. rewrite (undo_delqueue S o vac (g_savepos s o) q1 HS1 HS2 HS3).
  set (qq := match vac with Some i => set_nth q1 i (Some o) | None => q1 end).
  assert (Hqq : qq = q).
  { unfold qq. destruct Hhole as [[-> ->] | [i [-> [Hn ->]]]]; [reflexivity | now apply set_nth_set_nth]. }
  replace (match vac with
           | Some i => upd (upd S LQueue (CQueue (set_nth q1 i (Some o)))) (LSavePos o) (CPos (g_savepos s o))
           | None => upd (upd S LQueue (CQueue q1)) (LSavePos o) (CPos (g_savepos s o)) end)
    with (upd (upd S LQueue (CQueue qq)) (LSavePos o) (CPos (g_savepos s o))) by (unfold qq; destruct vac; reflexivity).
  cbn [undo_uact]. rewrite undo_uw_list. eexists; split; [reflexivity|].
  change (apply_writes idxr (upd (upd (upd S LQueue (CQueue qq)) (LSavePos o) (CPos (g_savepos s o))) (LStatus o) (CStatus (g_status s o))))
    with (apply_writes ([(LQueue, CQueue qq); (LSavePos o, CPos (g_savepos s o)); (LStatus o, CStatus (g_status s o))] ++ idxr) S).
  unfold S. apply restore_writes.
  - intros l x Hin. apply in_app_or in Hin as [Hin|Hin].
    + in_cases Hin; cbn; congruence.
    + unfold idxr in Hin. apply in_map_iff in Hin as [sk [Heq Hin]]. injection Heq as <- <-.
      change (CObj (Some o) = CObj (g_idx s e (fst sk) (snd sk))). now rewrite Hk.
  - intros l x Hin. left. unfold w in Hin. apply in_app_or in Hin as [Hin|Hin].
    + unfold idxw in Hin. apply in_map_iff in Hin as [sk [Heq Hin]]. injection Heq as <- <-.
      rewrite map_app. apply in_or_app. right. unfold idxr. rewrite map_map. apply in_map_iff. exists sk. split; [reflexivity | assumption].
    + rewrite map_app. apply in_or_app. left. in_cases Hin; cbn; tauto.
Qed.

(* the 'created' branch: the object is cancelled, its queue slot vacated and its primary key unregistered; the closure gives all of it back *)
Lemma del_created_exact : forall s o e i pk q (keys : list (list nat * list value)),
  g_queue s = q -> nth_error q i = Some (Some o) -> g_idx s e [0] pk = Some o ->
  (forall sk, In sk keys -> g_idx s e (fst sk) (snd sk) = Some o) ->
  exists s0,
    undo_closure ([UDelQueue o (Some i) (g_savepos s o); UW (LStatus o) (CStatus (g_status s o))]
                  ++ map (fun sk => UW (LIdx e (fst sk) (snd sk)) (CObj (Some o))) keys ++ [UW (LIdx e [0] pk) (CObj (Some o))])
      (apply_writes (map (fun sk => (LIdx e (fst sk) (snd sk), CObj (@None oid))) keys
                     ++ [(LQueue, CQueue (set_nth q i None)); (LSavePos o, CPos None); (LStatus o, CStatus SCancelled); (LIdx e [0] pk, CObj None)]) s)
    = (s0, true) /\ veq s0 s.
Proof.
  intros s o e i pk q keys Hq Hn Hpk Hk.
  set (idxw := map (fun sk => (LIdx e (fst sk) (snd sk), CObj (@None oid))) keys).
  set (w := idxw ++ [(LQueue, CQueue (set_nth q i None)); (LSavePos o, CPos None); (LStatus o, CStatus SCancelled); (LIdx e [0] pk, CObj None)]).
  set (idxr := map (fun sk => (LIdx e (fst sk) (snd sk), CObj (Some o))) keys ++ [(LIdx e [0] pk, CObj (Some o))]).
  replace (map (fun sk => UW (LIdx e (fst sk) (snd sk)) (CObj (Some o))) keys ++ [UW (LIdx e [0] pk) (CObj (Some o))]) with (uw_list idxr)
    by (unfold uw_list, idxr; rewrite map_app, map_map; reflexivity).
  set (S := apply_writes w s).
  assert (HS1 : g_status S o = SCancelled).
  { assert (H : view S (LStatus o) = CStatus SCancelled).
    { unfold S, w. rewrite view_apply_writes, last_write_app. cbn. now rewrite Nat.eqb_refl. }
    cbn in H. now injection H. }
  assert (HS2 : g_queue S = set_nth q i None).
  { assert (H : view S LQueue = CQueue (set_nth q i None)).
    { unfold S, w. rewrite view_apply_writes, last_write_app. reflexivity. }
    cbn in H. now injection H. }
  cbn [app undo_closure]. cbn [undo_uact]. rewrite HS1. cbn [status_eqb]. unfold del_slot. rewrite HS2.
  rewrite (nth_error_set_nth _ q i None (Some o) Hn), (set_nth_set_nth _ q i None (Some o) Hn).
  cbn [undo_uact]. rewrite undo_uw_list. eexists; split; [reflexivity|].
  change (apply_writes idxr (upd (upd (upd S LQueue (CQueue q)) (LSavePos o) (CPos (g_savepos s o))) (LStatus o) (CStatus (g_status s o))))
    with (apply_writes ([(LQueue, CQueue q); (LSavePos o, CPos (g_savepos s o)); (LStatus o, CStatus (g_status s o))] ++ idxr) S).
  unfold S. apply restore_writes.
  - intros l x Hin. apply in_app_or in Hin as [Hin|Hin].
    + in_cases Hin; cbn; congruence.
    + unfold idxr in Hin. apply in_app_or in Hin as [Hin|Hin].
      * apply in_map_iff in Hin as [sk [Heq Hin]]. injection Heq as <- <-.
        change (CObj (Some o) = CObj (g_idx s e (fst sk) (snd sk))). now rewrite Hk.
      * in_cases Hin. change (CObj (Some o) = CObj (g_idx s e [0] pk)). now rewrite Hpk.
  - intros l x Hin. left. unfold w in Hin. apply in_app_or in Hin as [Hin|Hin].
    + unfold idxw in Hin. apply in_map_iff in Hin as [sk [Heq Hin]]. injection Heq as <- <-.
      rewrite map_app. apply in_or_app. right. unfold idxr. rewrite map_app, map_map. apply in_or_app. left.
      apply in_map_iff. exists sk. split; [reflexivity | assumption].
    + rewrite map_app. in_cases Hin; cbn; try tauto.
      right. right. right. unfold idxr. rewrite map_app. apply in_or_app. right. cbn. tauto.
Qed.

Lemma restoring_del_finish : forall o e st0 sp, restoring (del_finish sch o e st0 sp).
Proof.
  intros o e st0 sp. unfold del_finish. apply restoring_bind_gets. intros c. set (s := c_st c).
  set (keys := filter (fun sk => negb (has_none (snd sk))) (map (fun spec => (spec, key_of s o spec)) (key_specs (get_ent sch e)))).
  match goal with |- post c ((if ?b then _ else _) c) => destruct b eqn:Echk end; [apply restoring_taint_fail|].
  apply negb_false_iff in Echk.
  assert (HK : forall sk, In sk keys -> g_idx s e (fst sk) (snd sk) = Some o).
  { intros sk Hsk. rewrite forallb_forall in Echk. specialize (Echk sk Hsk).
    revert Echk. apply opt_eqb_eq. intros; now apply Nat.eqb_eq. }
  destruct st0.
  2:{ (* SCreated *)
      destruct sp as [i|]; [|apply restoring_taint_fail].
      match goal with |- post c ((if ?b then _ else _) c) => destruct b eqn:Eok end; [|apply restoring_taint_fail].
      apply andb_true_iff in Eok as [E1 E2].
      apply post_block. apply del_created_exact; try assumption; try reflexivity.
      - revert E1. apply opt_eqb_eq. intros a b. apply opt_eqb_eq. intros; now apply Nat.eqb_eq.
      - revert E2. apply opt_eqb_eq. intros; now apply Nat.eqb_eq. }
  all: match goal with |- post _ (match ?hole with Some _ => _ | None => _ end _) => destruct hole as [q1|] eqn:Ehole end;
    [|apply restoring_taint_fail].
  all: apply post_block; apply (del_closure_exact s o e sp (g_queue s) q1 keys eq_refl HK).
  all: try (destruct sp as [i|]; try discriminate Ehole;
            first [ left; injection Ehole as <-; split; reflexivity
                  | right; exists i; revert Ehole; match goal with |- context [if ?b then _ else _] => destruct b eqn:En end; intro Ehole; [|discriminate Ehole];
                    injection Ehole as <-; split; [reflexivity|]; split; [|reflexivity];
                    revert En; apply opt_eqb_eq; intros a b; apply opt_eqb_eq; intros; now apply Nat.eqb_eq ]; fail).
Qed.

Lemma restoring_delete : forall fuel o, restoring (delete sch flt fuel o).
Proof.
  induction fuel as [|f IH]; intros o; [apply restoring_fail|].
  cbn [delete]. apply restoring_bind_gets. intros c.
  destruct (is_del _); [apply restoring_ret|].
  apply restoring_bind; [apply restoring_iterM; intros; now apply restoring_del_coll | intros _].
  apply restoring_bind; [apply restoring_iterM; intros; now apply restoring_del_ref | intros _].
  apply restoring_del_finish.
Qed.

Lemma restoring_del_top : forall o, restoring (del_top sch flt o).
Proof. intros; apply restoring_delete. Qed.

(* ------------------------------------------------------------------------------------------------ the top-level calls *)
Lemma restoring_validate : forall at_ x, restoring (validate at_ x).
Proof.
  intros at_ x. unfold validate. destruct x; try apply restoring_fail;
    try (destruct (a_required at_); [apply restoring_fail | apply restoring_ret]);
    destruct (a_kind at_); try apply restoring_fail; apply restoring_ret.
Qed.

Lemma restoring_validate_set : forall x, restoring (validate_set x).
Proof. intros x. unfold validate_set. destruct x; try apply restoring_fail; apply restoring_ret. Qed.

Lemma restoring_validate_kw : forall e kw, restoring (validate_kw sch e kw).
Proof.
  intros e kw; induction kw as [|[a x] kw IH]; cbn [validate_kw]; [apply restoring_ret|].
  destruct (is_set_attr _).
  - apply restoring_bind; [apply restoring_validate_set | intros l].
    apply restoring_bind; [exact IH | intros r; apply restoring_ret].
  - apply restoring_bind; [apply restoring_validate | intros v].
    apply restoring_bind; [exact IH | intros r; apply restoring_ret].
Qed.

Lemma restoring_validate_all : forall e attrs j kw, restoring (validate_all e attrs j kw).
Proof.
  intros e attrs; induction attrs as [|at_ rest IH]; intros j kw; cbn [validate_all]; [apply restoring_ret|].
  destruct (a_kind at_).
  - apply IH.
  - apply restoring_bind; [apply restoring_validate | intros v]. apply restoring_bind; [apply IH | intros r; apply restoring_ret].
  - apply restoring_bind; [apply restoring_validate | intros v]. apply restoring_bind; [apply IH | intros r; apply restoring_ret].
  - apply restoring_bind; [apply restoring_validate_set | intros v]. apply restoring_bind; [apply IH | intros r; apply restoring_ret].
Qed.

Lemma restoring_err_get_writes : forall (f : state -> list (loc * cell)), restoring_err (s <- get ;; writes (f s)).
Proof. intros f c. cbn. exact I. Qed.

Lemma restoring_err_op_set : forall o a x, restoring_err (op_set sch flt o a x).
Proof.
  intros o a x. unfold op_set.
  apply restoring_err_bind; [apply restoring_gets | intros s].
  apply restoring_err_bind; [apply restoring_guard | intros _].
  destruct (is_set_attr _).
  - apply restoring_err_bind; [apply restoring_validate_set | intros newl].
    apply restoring_err_set_set. apply restoring_del_top.
  - apply restoring_err_bind; [apply restoring_validate | intros v].
    destruct (negb _ && negb _).
    + destruct (bits_writes _ _ _ _); [apply restoring_err_writes | apply restoring_err_of, restoring_taint_fail].
    + apply restoring_err_of.
      apply restoring_bind; [apply restoring_touch | intros _].
      destruct (value_eqb _ _); [apply restoring_ret|].
      apply restoring_bind; [apply restoring_attr_index_updates | intros _].
      destruct (has_reverse _); [apply restoring_update_reverse, restoring_del_top | apply restoring_ret].
Qed.

Lemma restoring_err_op_add : forall o a hs, restoring_err (op_add sch flt o a hs).
Proof.
  intros o a hs. unfold op_add.
  apply restoring_err_bind; [apply restoring_gets | intros s].
  apply restoring_err_bind; [apply restoring_guard | intros _].
  destruct (is_empty hs); [apply restoring_err_of, restoring_ret|].
  apply restoring_err_bind.
  - destruct (a_kind _); try (apply restoring_iterM; intros; apply restoring_attr_set_rev). apply restoring_reverse_add.
  - intros _. apply restoring_err_get_writes.
Qed.

Lemma restoring_err_op_remove : forall o a hs, restoring_err (op_remove sch flt o a hs).
Proof.
  intros o a hs. unfold op_remove.
  apply restoring_err_bind; [apply restoring_gets | intros s].
  apply restoring_err_bind; [apply restoring_guard | intros _].
  destruct (is_empty _); [apply restoring_err_of, restoring_ret|].
  destruct (a_kind _);
    try (apply restoring_err_bind; [apply restoring_reverse_remove | intros _; apply restoring_err_get_writes]);
    apply restoring_err_of; (destruct (a_cascade _); apply restoring_iterM; intros; [apply restoring_del_top | apply restoring_attr_set_rev]).
Qed.

Lemma restoring_err_op_setmany : forall o kw, restoring_err (op_setmany sch flt o kw).
Proof.
  intros o kw. unfold op_setmany.
  apply restoring_err_bind; [apply restoring_gets | intros s].
  apply restoring_err_bind; [apply restoring_guard | intros _].
  apply restoring_err_bind; [apply restoring_validate_kw | intros r].
  destruct (negb (is_empty (fst r)) && is_empty (snd r) && negb _).
  { destruct (bits_writes _ _ _ _); [apply restoring_err_writes | apply restoring_err_of, restoring_taint_fail]. }
  apply restoring_err_bind; [apply restoring_set_touch | intros _].
  apply restoring_err_bind.
  { apply restoring_iterM. intros a. destruct (lookup a _); [apply restoring_update_index | apply restoring_ret]. }
  intros _. apply restoring_err_bind.
  { apply restoring_iterM. intros ck. destruct (existsb _ _); [apply restoring_update_index | apply restoring_ret]. }
  intros _. apply restoring_err_bind.
  { apply restoring_iterM. intros p. destruct (has_reverse _); [apply restoring_update_reverse, restoring_del_top | apply restoring_ret]. }
  intros _. apply restoring_err_bind.
  { apply restoring_iterM. intros p. apply restoring_set_set_rev, restoring_del_top. }
  intros _. apply restoring_err_writes.
Qed.

Lemma restoring_err_op_new : forall e pk kw, restoring_err (op_new sch flt e pk kw).
Proof.
  intros e pk kw. unfold op_new.
  apply restoring_err_bind; [apply restoring_gets | intros s].
  apply restoring_err_bind; [apply restoring_validate_all | intros r].
  apply restoring_err_bind; [apply restoring_guard | intros _].
  apply restoring_err_bind; [apply restoring_guard | intros _].
  repeat (apply restoring_err_bind; [apply restoring_own | intros _]).
  apply restoring_err_bind.
  { apply restoring_iterM. intros j. destruct (a_kind _); try apply restoring_ret.
    - apply restoring_bind; [apply restoring_own | intros _].
      destruct (has_reverse _); [apply restoring_update_reverse, restoring_del_top | apply restoring_ret].
    - apply restoring_bind; [apply restoring_own | intros _].
      destruct (has_reverse _); [apply restoring_update_reverse, restoring_del_top | apply restoring_ret].
    - destruct (lookup j _); [apply restoring_set_set_rev, restoring_del_top | apply restoring_ret]. }
  intros _. apply restoring_err_get_writes.
Qed.

Lemma restoring_err_body : forall o, restoring_err (body sch flt o).
Proof.
  intros [e pk kw|h a x|h kw|h|h a hs|h a hs|]; cbn [body].
  - apply restoring_err_op_new.
  - apply restoring_err_op_set.
  - apply restoring_err_op_setmany.
  - apply restoring_err_of, restoring_del_top.
  - apply restoring_err_op_add.
  - apply restoring_err_op_remove.
  - intros c. exact I.
Qed.

(* A failing top-level call that did not pass through a forgetful code site leaves every location of the session as it was. *)
Theorem step_atomic : forall s o,
  o_err (step sch flt s o) <> None -> o_taints (step sch flt s o) = [] ->
  forall l, view (o_state (step sch flt s o)) l = view s l.
Proof.
  intros s o. unfold step.
  pose proof (restoring_err_body o (mkctx s [] [] 0 0)) as H.
  destruct (body sch flt o (mkctx s [] [] 0 0)) as [[] c|e c] eqn:Eb; cbn [o_err]; [intros Hn; contradiction|].
  cbn in H. destruct H as [new [Hl Hp]]. cbn in Hl, Hp. rewrite app_nil_r in Hl.
  intros _.
  destruct (replay (c_log c) (c_st c)) as [s' ok] eqn:Er. cbn [o_taints o_state].
  intros Htc.
  destruct (Hp Htc) as [_ [s0 [Hr Hv]]].
  rewrite Hl, Hr in Er. injection Er as <- <-. exact Hv.
Qed.

End Proofs.

Require Import PonyV.Model.C13Spec.

Lemma atomic_except_known : forall sch flt s o,
  raises sch flt s o -> known_bad sch flt s o = false ->
  forall l, observe (o_state (step sch flt s o)) l = observe s l.
Proof.
  intros sch flt s o Hr Hk l. unfold observe. apply step_atomic; [exact Hr|].
  unfold known_bad in Hk. apply negb_false_iff in Hk. destruct (o_taints (step sch flt s o)); [reflexivity | discriminate].
Qed.

Lemma atomic_in_histories : forall sch pre fo,
  raises sch (fst fo) (state_of_history sch pre) (snd fo) -> known_bad sch (fst fo) (state_of_history sch pre) (snd fo) = false ->
  forall l, observe (state_of_history sch (pre ++ [fo])) l = observe (state_of_history sch pre) l.
Proof.
  intros sch pre fo Hr Hk l. unfold state_of_history at 1. rewrite fold_left_app. cbn [fold_left].
  now apply atomic_except_known.
Qed.

(* a failing call leaves no trace in what a later call can read: two states with equal observations are indistinguishable
   for the undo machinery (replay) - used for "a later commit writes nothing on behalf of the failed call" *)
Lemma known_bad_sites : forall sch flt s o, known_bad sch flt s o = true ->
  exists t, In t (o_taints (step sch flt s o)).
Proof.
  intros sch flt s o H. unfold known_bad in H. destruct (o_taints (step sch flt s o)) as [|t r]; [discriminate | exists t; now left].
Qed.

(* the taints are exactly the nine named code sites *)
Definition all_sites : list taint := [TInconsistent].
Lemma sites_complete : forall sch flt s o, known_bad sch flt s o = true ->
  exists t, In t (o_taints (step sch flt s o)) /\ In t all_sites.
Proof.
  intros sch flt s o H. destruct (known_bad_sites _ _ _ _ H) as [t Ht]. exists t. split; [assumption|].
  destruct t; cbn; tauto.
Qed.
