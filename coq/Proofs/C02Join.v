(* C02 - queries with attribute paths: the FROM semantics is the same on every dialect, so the agreement of the modelled
   dialects on whole result lists carries over (select() and left_join()). *)
Require Import PonyV.Base.PyBase PonyV.Model.C01Expr PonyV.Model.C01Sql PonyV.Model.C01Translate PonyV.Model.C01Safe
               PonyV.Model.C01Eqb PonyV.Model.C01Query PonyV.Model.C01Join
               PonyV.Proofs.C01Rows PonyV.Proofs.C01Join PonyV.Proofs.C02Agree.

Theorem agree_join_rows : forall d1 d2, modelled d1 = true -> modelled d2 = true ->
  forall k db params filt tf proj vt c1 q1 c2 q2,
  ids_unique (tG db) -> ids_unique (tD db) ->
  ty_of filt = Some tf -> boolable tf = true -> ty_of proj = Some (TV vt) ->
  tr_filter d1 filt = Some c1 -> tr_project d1 proj = Some q1 ->
  tr_filter d2 filt = Some c2 -> tr_project d2 proj = Some q2 ->
  let depth := depth_of [filt; proj] in
  (* every P row is in the domain of both dialects - or is dropped by the inner join anyway *)
  Forall (fun p => (k = JInner /\ defined depth (flat db p) = false) \/ row_ok2 d1 d2 filt proj (qenv_of db params filt proj p)) (tP db) ->
  map (dec (TV vt)) (sql_join_rows d1 k depth false c1 q1 params db) = map (dec (TV vt)) (sql_join_rows d2 k depth false c2 q2 params db).
Proof.
  intros d1 d2 H1 H2 k db params filt tf proj vt c1 q1 c2 q2 UG UD Hf B Hp F1 P1 F2 P2 depth Hall.
  rewrite Forall_forall in Hall. destruct k.
  - assert (E : forall d c q, sql_join_rows d JInner depth false c q params db
                = sql_rows d false c q (map (qenv_of db params filt proj) (filter (fun p => defined depth (flat db p)) (tP db)))).
    { intros d c q. unfold sql_join_rows, sql_rows. rewrite (from_inner db UG UD). rewrite !filter_map_swap, !map_map. reflexivity. }
    rewrite !E. apply (agree_rows d1 d2 H1 H2 filt tf proj vt); try assumption.
    rewrite Forall_map. apply Forall_forall. intros p Hin. apply filter_In in Hin. destruct Hin as [Hin Hdef].
    destruct (Hall p Hin) as [[_ Hn]|Hok]; [|exact Hok]. rewrite Hn in Hdef. discriminate.
  - assert (E : forall d c q, sql_join_rows d JLeft depth false c q params db
                = sql_rows d false c q (map (qenv_of db params filt proj) (tP db))).
    { intros d c q. unfold sql_join_rows, sql_rows. rewrite (from_left db UG UD). rewrite !filter_map_swap, !map_map. reflexivity. }
    rewrite !E. apply (agree_rows d1 d2 H1 H2 filt tf proj vt); try assumption.
    rewrite Forall_map. apply Forall_forall. intros p Hin.
    destruct (Hall p Hin) as [[Hk _]|Hok]; [discriminate Hk|exact Hok].
Qed.
