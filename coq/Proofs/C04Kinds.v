(* C04 - the kind enumeration is complete; boolean equality of kinds is equality. *)
From Coq Require Import List Bool Arith Lia.
Import ListNotations.
Require Import PonyV.Model.C04Expr.

Lemma all_kinds_complete : forall k, In k all_kinds.
Proof. intros k. unfold all_kinds. destruct k; simpl; repeat (try (left; reflexivity); right). Qed.

Lemma kind_eqb_eq : forall a b, kind_eqb a b = true -> a = b.
Proof.
  intros a b H. unfold kind_eqb in H. apply Nat.eqb_eq in H.
  destruct a; destruct b; simpl in H; try reflexivity; discriminate H.
Qed.

Lemma kind_eqb_refl : forall a, kind_eqb a a = true.
Proof. intros a. unfold kind_eqb. apply Nat.eqb_refl. Qed.

(* a boolean fact checked on every pair of kinds holds for all kinds *)
Lemma all_kinds2 : forall (good : kind -> kind -> bool),
  forallb (fun k => forallb (fun c => good k c) all_kinds) all_kinds = true -> forall k c, good k c = true.
Proof.
  intros good H k c. rewrite forallb_forall in H. specialize (H k (all_kinds_complete k)).
  rewrite forallb_forall in H. exact (H c (all_kinds_complete c)).
Qed.

Lemma all_kinds1 : forall (good : kind -> bool), forallb good all_kinds = true -> forall k, good k = true.
Proof. intros good H k. rewrite forallb_forall in H. exact (H k (all_kinds_complete k)). Qed.
