(* C04 - the kind enumeration is complete; boolean equality of kinds is equality. *)
From Coq Require Import List Bool Arith Lia.
Import ListNotations.
Require Import PonyV.Model.C04Expr.

Lemma all_kinds_complete : forall k, In k all_kinds.
Proof. intros k. unfold all_kinds. destruct k; simpl; repeat (try (left; reflexivity); right). Qed.

Lemma kind_eqb_eq : forall a b, kind_eqb a b = true -> a = b.
Proof.
  intros a b H. unfold kind_eqb in H. apply Nat.eqb_eq in H.
  destruct a; destruct b; simpl in H; try reflexivity; discriminate H.
Qed.

Lemma kind_eqb_refl : forall a, kind_eqb a a = true.
Proof. intros a. unfold kind_eqb. apply Nat.eqb_refl. Qed.

(* a boolean fact checked on every pair of kinds holds for all kinds *)
Lemma all_kinds2 : forall (good : kind -> kind -> bool),
  forallb (fun k => forallb (fun c => good k c) all_kinds) all_kinds = true -> forall k c, good k c = true.
Proof.
  intros good H k c. rewrite forallb_forall in H. specialize (H k (all_kinds_complete k)).
  rewrite forallb_forall in H. exact (H c (all_kinds_complete c)).
Qed.

Lemma all_kinds1 : forall (good : kind -> bool), forallb good all_kinds = true -> forall k, good k = true.
Proof. intros good H k. rewrite forallb_forall in H. exact (H k (all_kinds_complete k)). Qed.

(* a boolean fact checked on every (parent, position class, child) triple of the enumerations *)
Definition table_ok (good : kind -> nat -> kind -> bool) : bool :=
  forallb (fun p => forallb (fun i => forallb (fun c => good p i c) all_kinds) all_pos) all_kinds.

Lemma table_ok_spec : forall good, table_ok good = true -> forall p i c, In i all_pos -> good p i c = true.
Proof.
  intros good H p i c Hi. unfold table_ok in H.
  rewrite forallb_forall in H. specialize (H p (all_kinds_complete p)).
  rewrite forallb_forall in H. specialize (H i Hi).
  rewrite forallb_forall in H. exact (H c (all_kinds_complete c)).
Qed.

Lemma npos_le_3 : forall p, npos p <= 3.
Proof. destruct p; simpl; lia. Qed.

Lemma allowed_pos : forall p i c, allowed p i c = true -> In i all_pos.
Proof.
  intros p i c H. unfold allowed in H. apply andb_prop in H. destruct H as [H _].
  apply Nat.ltb_lt in H. pose proof (npos_le_3 p). unfold all_pos. simpl.
  destruct i as [|[|[|i]]]; auto; lia.
Qed.

Lemma ref_needs_pos : forall p i c, ref_needs p i c = true -> In i all_pos.
Proof. intros p i c H. unfold ref_needs in H. apply andb_prop in H. destruct H as [H _]. eapply allowed_pos; eauto. Qed.


(* the reference rule never asks for parentheses around an item *)
Lemma ref_needs_item : forall p i c, expr_kindb c = false -> ref_needs p i c = false.
Proof.
  intros p i c H. destruct (ref_needs p i c) eqn:E; [|reflexivity].
  assert (T : table_ok (fun p i c => expr_kindb c || negb (ref_needs p i c)) = true) by (vm_compute; reflexivity).
  pose proof (table_ok_spec _ T p i c (ref_needs_pos _ _ _ E)) as H0. cbv beta in H0. rewrite H, E in H0. discriminate H0.
Qed.
