(* C26 - create_tables: whatever subset of the declared objects exists beforehand, afterwards all of them exist. *)
Require Import PonyV.Base.PyBase PonyV.Model.C26Schema PonyV.Model.C26Create PonyV.Proofs.C26Proofs.
Open Scope nat_scope.

Lemma nmem_false_not_In : forall n l, nmem n l = false -> ~ In n l.
Proof. intros n l H Hin. apply In_nmem in Hin. congruence. Qed.

Lemma create_objs_spec : forall oc objs db db',
  create_objs oc objs db = Some db' ->
  incl db db' /\ (forall o, In o objs -> In o db') /\ (forall o, In o db' -> In o db \/ In o objs).
Proof.
  induction objs as [|o r IH]; intros db db' H; cbn in H.
  - inversion H; subst. split; [apply incl_refl|]. split; [intros o []|auto].
  - destruct (nmem o db) eqn:E.
    + destruct (IH _ _ H) as (Hi & Ha & Ho). split; auto. split.
      * intros x [<-|Hx]; [apply Hi; apply nmem_In; auto | auto].
      * intros x Hx. destruct (Ho x Hx); auto. right; right; auto.
    + destruct (oc o); [discriminate|]. destruct (IH _ _ H) as (Hi & Ha & Ho). split.
      * intros x Hx. apply Hi. right; auto.
      * split.
        -- intros x [<-|Hx]; [apply Hi; left; auto | auto].
        -- intros x Hx. destruct (Ho x Hx) as [[<-|H1]|H1]; [right; left; auto | left; auto | right; right; auto].
Qed.

Lemma create_tables_spec : forall oc tables db db',
  create_tables oc tables db = Some db' ->
  incl db db' /\ (forall t o, In t tables -> In o t -> In o db') /\
  (forall o, In o db' -> In o db \/ exists t, In t tables /\ In o t).
Proof.
  induction tables as [|t r IH]; intros db db' H; cbn in H.
  - inversion H; subst. split; [apply incl_refl|]. split; [intros t o []|auto].
  - destruct (create_objs oc t db) as [db1|] eqn:E; [|discriminate].
    destruct (create_objs_spec _ _ _ _ E) as (Hi1 & Ha1 & Ho1). destruct (IH _ _ H) as (Hi & Ha & Ho). split.
    + intros x Hx. apply Hi, Hi1; auto.
    + split.
      * intros t' o [<-|Ht] Hin; [apply Hi, Ha1; auto | eapply Ha; eauto].
      * intros o Hin. destruct (Ho o Hin) as [H1|[t' [H1 H2]]].
        -- destruct (Ho1 o H1); [left; auto | right; exists t; split; [left|]; auto].
        -- right; exists t'; split; [right|]; auto.
Qed.

Lemma create_objs_total : forall oc objs db, (forall o, In o objs -> oc o = false) -> exists db', create_objs oc objs db = Some db'.
Proof.
  induction objs as [|o r IH]; intros db H; cbn; [eauto|].
  destruct (nmem o db); [apply IH; intros; apply H; right; auto|].
  rewrite (H o) by (left; auto). apply IH; intros; apply H; right; auto.
Qed.

Lemma create_tables_total : forall oc tables db,
  (forall t o, In t tables -> In o t -> oc o = false) -> exists db', create_tables oc tables db = Some db'.
Proof.
  induction tables as [|t r IH]; intros db H; cbn; [eauto|].
  destruct (create_objs_total oc t db) as [db1 E]; [intros; eapply H; [left; reflexivity | auto]|].
  rewrite E. apply IH. intros; eapply H; [right|]; eauto.
Qed.
