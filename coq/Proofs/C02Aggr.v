(* C02 - aggregates as whole-query results: the aggregate semantics of the model is the same on every dialect, so two modelled
   dialects return the same decoded value whenever every row is in the domain of both and the aggregate is safe on both. *)
Require Import PonyV.Base.PyBase PonyV.Model.C01Expr PonyV.Model.C01Sql PonyV.Model.C01Translate PonyV.Model.C01Safe
               PonyV.Model.C01Eqb PonyV.Model.C01Query PonyV.Model.C01Aggr
               PonyV.Proofs.C01Rows PonyV.Proofs.C01Aggr.

Theorem agree_aggr : forall d1 d2, modelled d1 = true -> modelled d2 = true ->
  forall table filt g c1 qa1 c2 qa2,
  filt_typed filt = true ->
  tr_where d1 filt = Some c1 -> tr_aggr d1 0%nat g = Some qa1 ->
  tr_where d2 filt = Some c2 -> tr_aggr d2 0%nat g = Some qa2 ->
  aggr_safe d1 g = true -> aggr_safe d2 g = true ->
  keys_ok (map (fun en => attr_val en 0%nat) table) = true ->
  Forall (fun en => arow_ok d1 filt g en /\ arow_ok d2 filt g en) table ->
  deca_g g (sql_aggr d1 qa1 c1 table) = deca_g g (sql_aggr d2 qa2 c2 table).
Proof.
  intros d1 d2 H1 H2 table filt g c1 qa1 c2 qa2 Tf W1 A1 W2 A2 S1 S2 K Hall. rewrite Forall_forall in Hall.
  destruct (aggr_sound d1 H1 table filt g c1 qa1 Tf W1 A1 S1 K) as [_ R1].
  { apply Forall_forall. intros en Hin. exact (proj1 (Hall en Hin)). }
  destruct (aggr_sound d2 H2 table filt g c2 qa2 Tf W2 A2 S2 K) as [_ R2].
  { apply Forall_forall. intros en Hin. exact (proj2 (Hall en Hin)). }
  rewrite R1, R2. reflexivity.
Qed.
