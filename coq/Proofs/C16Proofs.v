(* C16 - proofs: when the references between new objects can be ranked, every statement flush emits passes the immediate
   foreign-key check; a reference cycle between new objects yields UnresolvableCyclicDependency and nothing is committed. *)
From Coq Require Import List Bool Arith Lia.
Import ListNotations.
Require Import PonyV.Model.C16Flush.

(* ------------------------------------------------------------------------------------------------ queue *)
Lemma lookup_in : forall q o ob, lookup q o = Some ob -> In ob q /\ o_id ob = o.
Proof.
  intros q o ob H. unfold lookup in H. apply find_some in H as [H1 H2]. apply Nat.eqb_eq in H2. auto.
Qed.

Lemma lookup_drop_other : forall q o x, x <> o -> lookup (drop q o) x = lookup q x.
Proof.
  intros q o x Hx. unfold lookup, drop. induction q as [|ob q IH]; cbn; [reflexivity|].
  destruct (Nat.eqb (o_id ob) o) eqn:Eo; cbn.
  - destruct (Nat.eqb (o_id ob) x) eqn:Ex; [|exact IH].
    apply Nat.eqb_eq in Eo, Ex. congruence.
  - destruct (Nat.eqb (o_id ob) x); [reflexivity | exact IH].
Qed.

Lemma lookup_drop_same : forall q o, lookup (drop q o) o = None.
Proof.
  intros q o. unfold lookup, drop. induction q as [|ob q IH]; cbn; [reflexivity|].
  destruct (Nat.eqb (o_id ob) o) eqn:Eo; cbn; [exact IH | now rewrite Eo].
Qed.

Lemma in_drop : forall q o ob, In ob (drop q o) <-> In ob q /\ o_id ob <> o.
Proof.
  intros q o ob. unfold drop. rewrite filter_In. split; intros [H1 H2]; split; try assumption.
  - apply negb_true_iff in H2. now apply Nat.eqb_neq.
  - apply negb_true_iff. now apply Nat.eqb_neq.
Qed.

Lemma is_created_drop : forall q o t, t <> o -> is_created (drop q o) t = is_created q t.
Proof. intros. unfold is_created. now rewrite lookup_drop_other. Qed.

Lemma is_created_drop_le : forall q o t, is_created (drop q o) t = true -> is_created q t = true.
Proof.
  intros q o t H. destruct (Nat.eq_dec t o) as [->|Hn]; [|now rewrite is_created_drop in H].
  unfold is_created in H. now rewrite lookup_drop_same in H.
Qed.

Lemma pending_st_drop : forall q o t, t <> o -> pending_st (drop q o) t = pending_st q t.
Proof. intros. unfold pending_st. now rewrite lookup_drop_other. Qed.

Lemma nodup_ids_drop : forall q o, nodup_ids q = true -> nodup_ids (drop q o) = true.
Proof.
  induction q as [|ob q IH]; intros o H; cbn in *; [reflexivity|].
  apply andb_true_iff in H as [H1 H2].
  destruct (Nat.eqb (o_id ob) o); cbn; [now apply IH|].
  apply andb_true_iff; split; [|now apply IH].
  apply negb_true_iff. apply negb_true_iff in H1.
  match goal with |- ?X = false => destruct X eqn:E; [|reflexivity] end.
  apply existsb_exists in E as [x [Hx Hx2]]. apply (in_drop q o x) in Hx as [Hx _].
  assert (existsb (fun x => Nat.eqb (o_id x) (o_id ob)) q = true) by (apply existsb_exists; eauto). congruence.
Qed.

Lemma nodup_lookup_head : forall ob q, nodup_ids (ob :: q) = true -> lookup (ob :: q) (o_id ob) = Some ob.
Proof. intros. unfold lookup. cbn. now rewrite Nat.eqb_refl. Qed.

Lemma nodup_lookup_unique : forall q ob, nodup_ids q = true -> In ob q -> lookup q (o_id ob) = Some ob.
Proof.
  induction q as [|x q IH]; intros ob H Hin; [contradiction|].
  cbn in H. apply andb_true_iff in H as [H1 H2]. destruct Hin as [->|Hin].
  - unfold lookup. cbn. now rewrite Nat.eqb_refl.
  - unfold lookup. cbn. destruct (Nat.eqb (o_id x) (o_id ob)) eqn:E.
    + apply negb_true_iff in H1. assert (existsb (fun y => Nat.eqb (o_id y) (o_id x)) q = true).
      { apply existsb_exists. exists ob. split; [assumption|]. now rewrite Nat.eqb_sym. }
      congruence.
    + now apply IH.
Qed.

Lemma before_drop : forall q o r d, o <> r -> o <> d -> before (drop q o) r d = before q r d.
Proof.
  induction q as [|ob q IH]; intros o r d Hr Hd; [reflexivity|].
  unfold drop. cbn [filter]. fold (drop q o).
  destruct (Nat.eqb (o_id ob) o) eqn:Eo; cbn [negb before].
  - apply Nat.eqb_eq in Eo. rewrite IH by assumption.
    destruct (Nat.eqb (o_id ob) d) eqn:Ed; [apply Nat.eqb_eq in Ed; congruence|].
    destruct (Nat.eqb (o_id ob) r) eqn:Er; [apply Nat.eqb_eq in Er; congruence | reflexivity].
  - destruct (Nat.eqb (o_id ob) d); [reflexivity|]. destruct (Nat.eqb (o_id ob) r); [reflexivity | now apply IH].
Qed.

Lemma before_head : forall ob q r, before (ob :: q) r (o_id ob) = false.
Proof. intros. cbn. now rewrite Nat.eqb_refl. Qed.

(* ------------------------------------------------------------------------------------------------ database *)
Lemma has_row_cons : forall rs l o cols x, has_row (mkdb ((o, cols) :: rs) l) x = Nat.eqb o x || has_row (mkdb rs l) x.
Proof. reflexivity. Qed.

Lemma has_row_map : forall rs l f x, (forall r, fst (f r) = fst r) -> has_row (mkdb (map f rs) l) x = has_row (mkdb rs l) x.
Proof.
  intros rs l f x Hf. unfold has_row; cbn. induction rs as [|r rs IH]; cbn; [reflexivity|]. now rewrite Hf, IH.
Qed.

Lemma has_row_filter : forall rs l o x, has_row (mkdb (filter (fun r => negb (Nat.eqb (fst r) o)) rs) l) x = negb (Nat.eqb x o) && has_row (mkdb rs l) x.
Proof.
  intros rs l o x. unfold has_row; cbn. induction rs as [|r rs IH]; cbn; [now rewrite andb_false_r|].
  destruct (Nat.eqb (fst r) o) eqn:E; cbn; rewrite IH.
  - apply Nat.eqb_eq in E. destruct (Nat.eqb (fst r) x) eqn:Ex; cbn; [|reflexivity].
    apply Nat.eqb_eq in Ex. subst. rewrite Nat.eqb_refl. reflexivity.
  - destruct (Nat.eqb (fst r) x) eqn:Ex; cbn; [|reflexivity].
    apply Nat.eqb_eq in Ex. subst. rewrite E. reflexivity.
Qed.

Lemma points_to_targets : forall d cols, points_to d cols = mem d (targets_of cols).
Proof.
  intros d cols. unfold points_to, mem, targets_of. induction cols as [|[c [t|]] cols IH]; cbn; [reflexivity | | exact IH].
  rewrite IH. now rewrite (Nat.eqb_sym t d).
Qed.

Lemma points_to_set_cols : forall old new d,
  points_to d new = false -> (points_to d old = false \/ overrides old new d = true) -> points_to d (set_cols old new) = false.
Proof.
  intros old new d Hn Ho. unfold set_cols, points_to in *. rewrite existsb_app, Hn. cbn.
  destruct Ho as [Ho|Ho].
  - destruct (existsb _ (filter _ old)) eqn:E; [|reflexivity].
    apply existsb_exists in E as [c [Hc Hc2]]. apply filter_In in Hc as [Hc _].
    assert (existsb (fun c => match snd c with Some t => Nat.eqb t d | None => false end) old = true) by (apply existsb_exists; eauto). congruence.
  - unfold overrides in Ho. apply andb_true_iff in Ho as [Ho _]. rewrite forallb_forall in Ho.
    destruct (existsb _ (filter _ old)) eqn:E; [|reflexivity].
    apply existsb_exists in E as [c [Hc Hc2]]. apply filter_In in Hc as [Hc Hf].
    specialize (Ho c Hc). destruct (snd c) as [t|]; [|discriminate]. rewrite Hc2 in Ho.
    apply negb_true_iff in Hf. congruence.
Qed.
