(* C16 - proofs: when the references between new objects can be ranked, every statement flush emits passes the immediate
   foreign-key check; a reference cycle between new objects yields UnresolvableCyclicDependency and nothing is committed. *)
From Coq Require Import List Bool Arith Lia.
Import ListNotations.
Require Import PonyV.Model.C16Flush.

(* ------------------------------------------------------------------------------------------------ queue *)
Lemma lookup_in : forall q o ob, lookup q o = Some ob -> In ob q /\ o_id ob = o.
Proof.
  intros q o ob H. unfold lookup in H. apply find_some in H as [H1 H2]. apply Nat.eqb_eq in H2. auto.
Qed.

Lemma lookup_drop_other : forall q o x, x <> o -> lookup (drop q o) x = lookup q x.
Proof.
  intros q o x Hx. unfold lookup, drop. induction q as [|ob q IH]; cbn; [reflexivity|].
  destruct (Nat.eqb (o_id ob) o) eqn:Eo; cbn.
  - destruct (Nat.eqb (o_id ob) x) eqn:Ex; [|exact IH].
    apply Nat.eqb_eq in Eo, Ex. congruence.
  - destruct (Nat.eqb (o_id ob) x); [reflexivity | exact IH].
Qed.

Lemma lookup_drop_same : forall q o, lookup (drop q o) o = None.
Proof.
  intros q o. unfold lookup, drop. induction q as [|ob q IH]; cbn; [reflexivity|].
  destruct (Nat.eqb (o_id ob) o) eqn:Eo; cbn; [exact IH | now rewrite Eo].
Qed.

Lemma in_drop : forall q o ob, In ob (drop q o) <-> In ob q /\ o_id ob <> o.
Proof.
  intros q o ob. unfold drop. rewrite filter_In. split; intros [H1 H2]; split; try assumption.
  - apply negb_true_iff in H2. now apply Nat.eqb_neq.
  - apply negb_true_iff. now apply Nat.eqb_neq.
Qed.

Lemma is_created_drop : forall q o t, t <> o -> is_created (drop q o) t = is_created q t.
Proof. intros. unfold is_created. now rewrite lookup_drop_other. Qed.

Lemma is_created_drop_le : forall q o t, is_created (drop q o) t = true -> is_created q t = true.
Proof.
  intros q o t H. destruct (Nat.eq_dec t o) as [->|Hn]; [|now rewrite is_created_drop in H].
  unfold is_created in H. now rewrite lookup_drop_same in H.
Qed.

Lemma pending_st_drop : forall q o t, t <> o -> pending_st (drop q o) t = pending_st q t.
Proof. intros. unfold pending_st. now rewrite lookup_drop_other. Qed.

Lemma obj_eqb_eq : forall a b, obj_eqb a b = true -> a = b.
Proof.
  intros [i1 s1 c1] [i2 s2 c2] H. unfold obj_eqb in H; cbn in H.
  apply andb_true_iff in H as [H H3]. apply andb_true_iff in H as [H1 H2].
  apply Nat.eqb_eq in H1. subst i2.
  assert (s1 = s2) by (destruct s1, s2; try discriminate; reflexivity). subst s2.
  assert (c1 = c2).
  { clear H2. revert c2 H3. induction c1 as [|[n1 v1] c1 IH]; intros [|[n2 v2] c2] H; cbn in H; try discriminate; [reflexivity|].
    apply andb_true_iff in H as [H H']. unfold col_eqb in H; cbn in H. apply andb_true_iff in H as [Hn Hv]. apply Nat.eqb_eq in Hn. subst n2.
    f_equal; [|now apply IH]. f_equal. destruct v1, v2; try discriminate; [apply Nat.eqb_eq in Hv; now subst | reflexivity]. }
  now subst.
Qed.

Lemma coherent_ids_drop : forall q o, coherent_ids q = true -> coherent_ids (drop q o) = true.
Proof.
  induction q as [|ob q IH]; intros o H; [reflexivity|].
  cbn [coherent_ids] in H. apply andb_true_iff in H as [H1 H2].
  unfold drop. cbn [filter]. fold (drop q o). destruct (negb (Nat.eqb (o_id ob) o)); [|now apply IH].
  cbn [coherent_ids]. apply andb_true_iff; split; [|now apply IH].
  rewrite forallb_forall in *. intros x Hx. apply H1. apply (in_drop q o x) in Hx. tauto.
Qed.

Lemma nodup_lookup_head : forall ob q, lookup (ob :: q) (o_id ob) = Some ob.
Proof. intros. unfold lookup. cbn. now rewrite Nat.eqb_refl. Qed.

Lemma nodup_lookup_unique : forall q ob, coherent_ids q = true -> In ob q -> lookup q (o_id ob) = Some ob.
Proof.
  induction q as [|x q IH]; intros ob H Hin; [contradiction|].
  cbn [coherent_ids] in H. apply andb_true_iff in H as [H1 H2]. destruct Hin as [->|Hin].
  - unfold lookup. cbn. now rewrite Nat.eqb_refl.
  - unfold lookup. cbn [find]. destruct (Nat.eqb (o_id x) (o_id ob)) eqn:E.
    + rewrite forallb_forall in H1. specialize (H1 ob Hin). apply orb_true_iff in H1 as [H1|H1].
      * apply negb_true_iff in H1. rewrite Nat.eqb_sym in H1. congruence.
      * apply obj_eqb_eq in H1. now subst.
    + now apply IH.
Qed.

Lemma before_drop : forall q o r d, o <> r -> o <> d -> before (drop q o) r d = before q r d.
Proof.
  induction q as [|ob q IH]; intros o r d Hr Hd; [reflexivity|].
  unfold drop. cbn [filter]. fold (drop q o).
  destruct (Nat.eqb (o_id ob) o) eqn:Eo; cbn [negb before].
  - apply Nat.eqb_eq in Eo. rewrite IH by assumption.
    destruct (Nat.eqb (o_id ob) d) eqn:Ed; [apply Nat.eqb_eq in Ed; congruence|].
    destruct (Nat.eqb (o_id ob) r) eqn:Er; [apply Nat.eqb_eq in Er; congruence | reflexivity].
  - destruct (Nat.eqb (o_id ob) d); [reflexivity|]. destruct (Nat.eqb (o_id ob) r); [reflexivity | now apply IH].
Qed.

Lemma before_head : forall ob q r, before (ob :: q) r (o_id ob) = false.
Proof. intros. cbn. now rewrite Nat.eqb_refl. Qed.

(* ------------------------------------------------------------------------------------------------ database *)
Lemma has_row_cons : forall d o cols x, has_row (mkdb ((o, cols) :: rows d) (lnk d)) x = Nat.eqb o x || has_row d x.
Proof. intros [rs l]; reflexivity. Qed.

Lemma has_row_map : forall rs l f x, (forall r, fst (f r) = fst r) -> has_row (mkdb (map f rs) l) x = has_row (mkdb rs l) x.
Proof.
  intros rs l f x Hf. unfold has_row; cbn. induction rs as [|r rs IH]; cbn; [reflexivity|]. now rewrite Hf, IH.
Qed.

Lemma has_row_filter : forall d l' o x,
  has_row (mkdb (filter (fun r => negb (Nat.eqb (fst r) o)) (rows d)) l') x = negb (Nat.eqb x o) && has_row d x.
Proof.
  intros d l' o x. apply eq_true_iff_eq. unfold has_row; cbn [rows].
  rewrite andb_true_iff, negb_true_iff, Nat.eqb_neq, !existsb_exists. split.
  - intros [r [Hr Hx]]. apply filter_In in Hr as [Hr Hf]. apply negb_true_iff, Nat.eqb_neq in Hf. apply Nat.eqb_eq in Hx.
    split; [intro E; apply Hf; rewrite Hx; exact E|]. exists r; split; [assumption | now apply Nat.eqb_eq].
  - intros [Hn [r [Hr Hx]]]. exists r. split; [|assumption]. apply filter_In; split; [assumption|].
    apply negb_true_iff, Nat.eqb_neq. apply Nat.eqb_eq in Hx. intro E; apply Hn; rewrite <- Hx; exact E.
Qed.

Lemma points_to_targets : forall d cols, points_to d cols = mem d (targets_of cols).
Proof.
  intros d cols. unfold points_to, mem, targets_of. induction cols as [|[c [t|]] cols IH]; cbn; [reflexivity | | exact IH].
  rewrite IH. now rewrite (Nat.eqb_sym t d).
Qed.

Lemma points_to_set_cols : forall old new d,
  points_to d new = false -> (points_to d old = false \/ overrides old new d = true) -> points_to d (set_cols old new) = false.
Proof.
  intros old new d Hn Ho. destruct (points_to d (set_cols old new)) eqn:E; [|reflexivity]. exfalso.
  unfold points_to in E. apply existsb_exists in E as [c [Hc Hc2]]. unfold set_cols in Hc. apply in_app_or in Hc as [Hc|Hc].
  - assert (points_to d new = true) by (apply existsb_exists; eauto). congruence.
  - apply filter_In in Hc as [Hc Hf]. destruct Ho as [Ho|Ho].
    + assert (points_to d old = true) by (apply existsb_exists; eauto). congruence.
    + unfold overrides in Ho. apply andb_true_iff in Ho as [Ho _]. rewrite forallb_forall in Ho.
      specialize (Ho c Hc). destruct (snd c) as [t|]; [|discriminate]. rewrite Hc2 in Ho.
      apply negb_true_iff in Hf. exact (eq_true_false_abs _ Ho Hf).
Qed.

Lemma hard_false_of_points : forall d cols, points_to d cols = false -> hard_points_to d cols = false.
Proof.
  intros d cols H. destruct (hard_points_to d cols) eqn:E; [|reflexivity]. exfalso.
  unfold hard_points_to in E. apply existsb_exists in E as [c [Hc Hc2]]. apply andb_true_iff in Hc2 as [_ Hc2].
  assert (points_to d cols = true) by (apply existsb_exists; eauto). congruence.
Qed.

Lemma hard_set_cols : forall old new d,
  hard_points_to d new = false -> (hard_points_to d old = false \/ overrides old new d = true) -> hard_points_to d (set_cols old new) = false.
Proof.
  intros old new d Hn Ho. destruct (hard_points_to d (set_cols old new)) eqn:E; [|reflexivity]. exfalso.
  unfold hard_points_to in E. apply existsb_exists in E as [c [Hc Hc2]]. unfold set_cols in Hc. apply in_app_or in Hc as [Hc|Hc].
  - assert (hard_points_to d new = true) by (apply existsb_exists; eauto). congruence.
  - apply filter_In in Hc as [Hc Hf]. destruct Ho as [Ho|Ho].
    + assert (hard_points_to d old = true) by (apply existsb_exists; eauto). congruence.
    + unfold overrides in Ho. apply andb_true_iff in Ho as [Ho _]. rewrite forallb_forall in Ho.
      specialize (Ho c Hc). apply andb_true_iff in Hc2 as [_ Hc2]. destruct (snd c) as [t|]; [|discriminate]. rewrite Hc2 in Ho.
      apply negb_true_iff in Hf. exact (eq_true_false_abs _ Ho Hf).
Qed.

Lemma in_null_refs : forall o cols c', In c' (null_refs o cols) -> exists c, In c cols /\ fst c' = fst c /\ (snd c' = snd c \/ snd c' = None).
Proof.
  intros o cols c' H. unfold null_refs in H. apply in_map_iff in H as [c [E Hc]]. exists c. split; [assumption|].
  destruct (snd c) as [t|] eqn:Es.
  - destruct (Nat.eqb t o && setnull_col (fst c)); subst c'; cbn; [split; [reflexivity | now right] | split; [reflexivity | now left]].
  - subst c'. split; [reflexivity | now left].
Qed.

Lemma hard_null_refs : forall dd o cols, hard_points_to dd cols = false -> hard_points_to dd (null_refs o cols) = false.
Proof.
  intros dd o cols H. destruct (hard_points_to dd (null_refs o cols)) eqn:E; [|reflexivity]. exfalso.
  unfold hard_points_to in E. apply existsb_exists in E as [c' [Hc' H2]]. destruct (in_null_refs _ _ _ Hc') as [c [Hc [Ef Es]]].
  destruct Es as [Es|Es].
  - assert (hard_points_to dd cols = true).
    { apply existsb_exists. exists c. split; [assumption|]. destruct c as [n v], c' as [n' v']. cbn in *. subst. exact H2. }
    congruence.
  - apply andb_true_iff in H2 as [_ H3]. destruct c' as [n' v']. cbn in *. subst v'. discriminate H3.
Qed.

Lemma overrides_null_refs : forall dd o cols new, overrides cols new dd = true -> overrides (null_refs o cols) new dd = true.
Proof.
  intros dd o cols new H. unfold overrides in *. apply andb_true_iff in H as [H1 H2]. apply andb_true_iff; split; [|assumption].
  rewrite forallb_forall in *. intros c' Hc'. destruct (in_null_refs _ _ _ Hc') as [c [Hc [Ef Es]]].
  specialize (H1 c Hc). destruct c as [n v], c' as [n' v']. cbn in *. subst n'. destruct Es as [Es|Es]; subst v'; [exact H1 | reflexivity].
Qed.

(* ------------------------------------------------------------------------------------------------ the invariant *)
Definition not_deleted (q : list obj) (t : oid) : Prop := pending_st q t <> Some Deleted.
Definition ok_target (d : db) (q : list obj) (t : oid) : Prop := (has_row d t = true \/ is_created q t = true) /\ not_deleted q t.

(* why row r does not stand in the way of deleting dd: it is dd's own row, or does not point to it, or it is dealt with earlier in
   the queue (deleted itself, or updated so that every column that pointed to dd gets another value) *)
Definition justified (q : list obj) (r : oid * list (nat * option oid)) (dd : oid) : Prop :=
  fst r = dd \/ hard_points_to dd (snd r) = false \/
  (before q (fst r) dd = true /\ exists rb, lookup q (fst r) = Some rb /\
     (o_st rb = Deleted \/ (o_st rb = Modified /\ overrides (snd r) (o_cols rb) dd = true))).

Definition P_obj (d : db) (q : list obj) (ob : obj) : Prop :=
  match o_st ob with
  | Created => has_row d (o_id ob) = false /\ forall t, In t (targets ob) -> ok_target d q t /\ t <> o_id ob
  | Modified => has_row d (o_id ob) = true /\ forall t, In t (targets ob) -> ok_target d q t
  | Deleted => has_row d (o_id ob) = true /\ forall r, In r (rows d) -> justified q r (o_id ob)
  end.

Definition Inv (d : db) (q : list obj) : Prop := coherent_ids q = true /\ forall ob, In ob q -> P_obj d q ob.

Lemma not_deleted_drop : forall q o t, not_deleted q t -> not_deleted (drop q o) t.
Proof.
  intros q o t H. unfold not_deleted in *. destruct (Nat.eq_dec t o) as [->|Hn].
  - unfold pending_st. rewrite lookup_drop_same. discriminate.
  - now rewrite pending_st_drop.
Qed.

Lemma mem_in : forall o l, mem o l = true <-> In o l.
Proof.
  intros o l. unfold mem. rewrite existsb_exists. split.
  - intros [x [H1 H2]]. apply Nat.eqb_eq in H2. now subst.
  - intros H. exists o. split; [assumption | apply Nat.eqb_refl].
Qed.

Lemma status_of_lookup : forall q o ob, coherent_ids q = true -> In ob q -> o_id ob = o -> pending_st q o = Some (o_st ob).
Proof. intros q o ob N H E. unfold pending_st. subst o. now rewrite (nodup_lookup_unique q ob N H). Qed.

(* a justification survives the removal of an object that is neither the row's owner (as Deleted / Modified) nor dd *)
Lemma justified_drop : forall q o r dd ob, coherent_ids q = true -> lookup q o = Some ob -> o_st ob = Created -> o <> dd ->
  justified q r dd -> justified (drop q o) r dd.
Proof.
  intros q o r dd ob N Ho Hst Hd [H|[H|[Hb [rb [Hl Hs]]]]]; [now left | right; now left |].
  right; right.
  assert (Hr : o <> fst r).
  { intro E. rewrite <- E in Hl. rewrite Ho in Hl. injection Hl as <-. destruct Hs as [Hs|[Hs _]]; congruence. }
  split; [now rewrite before_drop|]. exists rb. split; [now rewrite lookup_drop_other by congruence | assumption].
Qed.

Ltac ne := solve [ assumption | congruence
                 | let X := fresh in intro X; match goal with H : _ <> _ |- _ => apply H; first [exact X | symmetry; exact X] end ].

(* ------------------------------------------------------------------------------------------------ the three kinds of statement *)
Lemma step_insert : forall d q o ob,
  Inv d q -> lookup q o = Some ob -> o_st ob = Created -> (forall t, In t (targets ob) -> has_row d t = true) ->
  exists d', exec d (SInsert o (o_cols ob)) = Some d' /\ Inv d' (drop q o) /\
             (forall x, has_row d' x = Nat.eqb o x || has_row d x).
Proof.
  intros d q o ob [N I] Ho Hst Ht. unfold oid in *. destruct (lookup_in _ _ _ Ho) as [Hin Hid]. subst o.
  pose proof (I ob Hin) as P. unfold P_obj in P. rewrite Hst in P. destruct P as [Hnr Htg].
  exists (mkdb ((o_id ob, o_cols ob) :: rows d) (lnk d)). split; [|split].
  - cbn [exec]. rewrite Hnr.
    assert (F : forallb (fun t => has_row d t || Nat.eqb t (o_id ob)) (targets_of (o_cols ob)) = true).
    { apply forallb_forall. intros t Hi. cbn beta. rewrite (Ht t Hi). reflexivity. }
    now rewrite F.
  - split; [now apply coherent_ids_drop|]. intros ob' Hin'. apply in_drop in Hin' as [Hin' Hne].
    pose proof (I ob' Hin') as P'. unfold P_obj in *.
    assert (Htarget : forall t, ok_target d q t -> ok_target (mkdb ((o_id ob, o_cols ob) :: rows d) (lnk d)) (drop q (o_id ob)) t).
    { intros t [[Hr|Hc] Hnd]; (split; [|now apply not_deleted_drop]).
      - left. rewrite has_row_cons, Hr. apply orb_true_r.
      - destruct (Nat.eq_dec t (o_id ob)) as [->|Hn].
        + left. rewrite has_row_cons, Nat.eqb_refl. reflexivity.
        + right. now rewrite is_created_drop. }
    destruct (o_st ob') eqn:Est'.
    + destruct P' as [Hnr' Htg']. split.
      * rewrite has_row_cons, Hnr'. destruct (Nat.eqb (o_id ob) (o_id ob')) eqn:E; [apply Nat.eqb_eq in E; congruence | reflexivity].
      * intros t Hi. destruct (Htg' t Hi) as [A B]. split; [now apply Htarget | assumption].
    + destruct P' as [Hr' Htg']. split; [rewrite has_row_cons, Hr'; apply orb_true_r|].
      intros t Hi. now apply Htarget, Htg'.
    + destruct P' as [Hr' Hj]. split; [rewrite has_row_cons, Hr'; apply orb_true_r|].
      intros r [<-|Hr].
      * (* the new row does not point to an object that is pending deletion *)
        right; left. cbn [snd]. apply hard_false_of_points. rewrite points_to_targets.
        destruct (mem (o_id ob') (targets_of (o_cols ob))) eqn:Em; [|reflexivity]. exfalso.
        apply mem_in in Em. destruct (Htg _ Em) as [[_ Hnd] _]. apply Hnd.
        rewrite (status_of_lookup q (o_id ob') ob' N Hin' eq_refl). now rewrite Est'.
      * apply (justified_drop q (o_id ob) r (o_id ob') ob N Ho Hst); [congruence | now apply Hj].
  - intros x. reflexivity.
Qed.

Lemma step_update : forall d q o ob,
  Inv d q -> lookup q o = Some ob -> o_st ob = Modified -> (forall t, In t (targets ob) -> has_row d t = true) ->
  exists d', exec d (SUpdate o (o_cols ob)) = Some d' /\ Inv d' (drop q o) /\ (forall x, has_row d' x = has_row d x).
Proof.
  intros d q o ob [N I] Ho Hst Ht. unfold oid in *. destruct (lookup_in _ _ _ Ho) as [Hin Hid]. subst o.
  pose proof (I ob Hin) as P. unfold P_obj in P. rewrite Hst in P. destruct P as [Hr Htg].
  set (d' := mkdb (map (fun r => if Nat.eqb (fst r) (o_id ob) then (o_id ob, set_cols (snd r) (o_cols ob)) else r) (rows d)) (lnk d)).
  assert (Hrows : forall x, has_row d' x = has_row d x).
  { intros x. unfold d'. destruct d as [rs l]. apply has_row_map. intros r. cbn.
    match goal with |- context [if ?b then _ else _] => destruct b eqn:E end; [apply Nat.eqb_eq in E; cbn; symmetry; exact E | reflexivity]. }
  exists d'. split; [|split; [|exact Hrows]].
  - cbn [exec]. rewrite Hr. cbn [negb].
    assert (F : forallb (has_row d) (targets_of (o_cols ob)) = true) by (apply forallb_forall; intros t Hi; now apply Ht).
    now rewrite F.
  - split; [now apply coherent_ids_drop|]. intros ob' Hin'. apply in_drop in Hin' as [Hin' Hne].
    pose proof (I ob' Hin') as P'. unfold P_obj in *.
    assert (Htarget : forall t, ok_target d q t -> ok_target d' (drop q (o_id ob)) t).
    { intros t [[Hrt|Hc] Hnd]; (split; [|now apply not_deleted_drop]).
      - left. now rewrite Hrows.
      - right. rewrite is_created_drop; [assumption|]. intro E. subst t. unfold is_created in Hc. rewrite Ho, Hst in Hc. discriminate. }
    destruct (o_st ob') eqn:Est'.
    + destruct P' as [Hnr' Htg']. split; [now rewrite Hrows|].
      intros t Hi. destruct (Htg' t Hi) as [A B]. split; [now apply Htarget | assumption].
    + destruct P' as [Hr' Htg']. split; [now rewrite Hrows|]. intros t Hi. now apply Htarget, Htg'.
    + destruct P' as [Hr' Hj]. split; [now rewrite Hrows|].
      intros r Hrin. unfold d' in Hrin. cbn [rows] in Hrin. apply in_map_iff in Hrin as [r0 [Er Hr0]].
      specialize (Hj r0 Hr0).
      destruct (Nat.eqb (fst r0) (o_id ob)) eqn:E.
      * (* the updated row: after the update it no longer points to dd *)
        apply Nat.eqb_eq in E. subst r. cbn [fst snd].
        right; left. apply hard_set_cols.
        -- apply hard_false_of_points. rewrite points_to_targets. destruct (mem (o_id ob') (targets_of (o_cols ob))) eqn:Em; [|reflexivity]. exfalso.
           apply mem_in in Em. destruct (Htg _ Em) as [_ Hnd]. apply Hnd.
           rewrite (status_of_lookup q (o_id ob') ob' N Hin' eq_refl). now rewrite Est'.
        -- destruct Hj as [Hj|[Hj|[Hb [rb [Hl Hs]]]]].
           ++ exfalso. apply Hne. transitivity (fst r0); [symmetry; exact Hj | exact E].
           ++ now left.
           ++ assert (Hl' : lookup q (o_id ob) = Some rb) by (rewrite <- E; exact Hl).
              rewrite Ho in Hl'. injection Hl' as <-. destruct Hs as [Hs|[_ Hs]]; [congruence | now right].
      * subst r. apply Nat.eqb_neq in E.
        destruct Hj as [Hj|[Hj|[Hb [rb [Hl Hs]]]]]; [now left | right; now left |].
        right; right. split.
        -- rewrite before_drop; [assumption | ne | ne].
        -- exists rb. split; [rewrite lookup_drop_other; [assumption | ne] | assumption].
Qed.

Lemma has_row_null : forall d l' o x,
  has_row (mkdb (map (fun r => (fst r, null_refs o (snd r))) (filter (fun r => negb (Nat.eqb (fst r) o)) (rows d))) l') x
  = negb (Nat.eqb x o) && has_row d x.
Proof.
  intros d l' o x. rewrite <- (has_row_filter d l' o x). unfold has_row. cbn [rows].
  induction (filter (fun r => negb (Nat.eqb (fst r) o)) (rows d)) as [|r rs IH]; cbn; [reflexivity | now rewrite IH].
Qed.

Lemma step_delete : forall d ob q,
  Inv d (ob :: q) -> o_st ob = Deleted ->
  exists d', exec d (SDelete (o_id ob)) = Some d' /\ Inv d' (drop (ob :: q) (o_id ob)) /\
             (forall x, has_row d' x = negb (Nat.eqb x (o_id ob)) && has_row d x).
Proof.
  intros d ob q [N I] Hst. unfold oid in *.
  pose proof (I ob (or_introl eq_refl)) as P. unfold P_obj in P. rewrite Hst in P. destruct P as [Hr Hj].
  assert (Hnoref : referenced d (o_id ob) = false).
  { unfold referenced. match goal with |- ?X = false => destruct X eqn:E; [|reflexivity] end. exfalso.
    apply existsb_exists in E as [r [Hrin Hc]]. apply andb_true_iff in Hc as [Hc1 Hc2]. apply negb_true_iff, Nat.eqb_neq in Hc1.
    destruct (Hj r Hrin) as [H|[H|[Hb _]]]; [exact (Hc1 H) | exact (eq_true_false_abs _ Hc2 H) |]. rewrite before_head in Hb. discriminate. }
  set (d' := mkdb (map (fun r => (fst r, null_refs (o_id ob) (snd r))) (filter (fun r => negb (Nat.eqb (fst r) (o_id ob))) (rows d)))
                  (filter (fun l => negb (Nat.eqb (fst l) (o_id ob) || Nat.eqb (snd l) (o_id ob))) (lnk d))).
  assert (Hrows : forall x, has_row d' x = negb (Nat.eqb x (o_id ob)) && has_row d x).
  { intros x. unfold d'. apply has_row_null. }
  exists d'. split; [|split; [|exact Hrows]].
  - cbn [exec]. now rewrite Hnoref.
  - split; [now apply coherent_ids_drop|]. intros ob' Hin'. apply in_drop in Hin' as [Hin' Hne].
    pose proof (I ob' Hin') as P'. unfold P_obj in *.
    assert (Hlk : lookup (ob :: q) (o_id ob) = Some ob) by apply nodup_lookup_head.
    assert (Htarget : forall t, ok_target d (ob :: q) t -> ok_target d' (drop (ob :: q) (o_id ob)) t).
    { intros t [Hor Hnd]. assert (Hto : t <> o_id ob).
      { intro E. subst t. apply Hnd. unfold pending_st. rewrite Hlk. cbn. now rewrite Hst. }
      split; [|now apply not_deleted_drop]. destruct Hor as [Hrt|Hc].
      - left. rewrite Hrows, Hrt. apply Nat.eqb_neq in Hto. now rewrite Hto.
      - right. now rewrite is_created_drop. }
    destruct (o_st ob') eqn:Est'.
    + destruct P' as [Hnr' Htg']. split; [rewrite Hrows, Hnr'; apply andb_false_r|].
      intros t Hi. destruct (Htg' t Hi) as [A B]. split; [now apply Htarget | assumption].
    + destruct P' as [Hr' Htg']. split.
      * rewrite Hrows, Hr'. apply Nat.eqb_neq in Hne. now rewrite Hne.
      * intros t Hi. now apply Htarget, Htg'.
    + destruct P' as [Hr' Hj']. split.
      * rewrite Hrows, Hr'. apply Nat.eqb_neq in Hne. now rewrite Hne.
      * intros r' Hrin. unfold d' in Hrin. cbn [rows] in Hrin. apply in_map_iff in Hrin as [r [Er Hrin]]. apply filter_In in Hrin as [Hrin Hf].
        apply negb_true_iff, Nat.eqb_neq in Hf. subst r'. unfold justified. cbn [fst snd].
        destruct (Hj' r Hrin) as [H|[H|[Hb [rb [Hl Hs]]]]]; [now left | right; left; now apply hard_null_refs |].
        right; right. split.
        -- rewrite before_drop; [assumption | ne | ne].
        -- exists rb. split; [rewrite lookup_drop_other; [assumption | ne] |].
           destruct Hs as [Hs|[Hs1 Hs2]]; [now left | right; split; [assumption | now apply overrides_null_refs]].
Qed.

(* ------------------------------------------------------------------------------------------------ sequences of statements *)
Lemma exec_all_app : forall ss1 ss2 d, exec_all d (ss1 ++ ss2) = match exec_all d ss1 with Some d' => exec_all d' ss2 | None => None end.
Proof. induction ss1 as [|s ss1 IH]; intros ss2 d; cbn; [reflexivity|]. destruct (exec d s); [apply IH | reflexivity]. Qed.

Lemma exec_all_snoc : forall ss s d d1 d2, exec_all d ss = Some d1 -> exec d1 s = Some d2 -> exec_all d (ss ++ [s]) = Some d2.
Proof. intros. rewrite exec_all_app, H. cbn. now rewrite H0. Qed.

Definition subq (q' q : list obj) : Prop := forall x, lookup q' x = lookup q x \/ lookup q' x = None.

Lemma subq_refl : forall q, subq q q. Proof. intros q x; now left. Qed.
Lemma subq_trans : forall a b c, subq a b -> subq b c -> subq a c.
Proof. intros a b c H1 H2 x. destruct (H1 x) as [E|E]; [rewrite E; apply H2 | now right]. Qed.
Lemma subq_drop : forall q o, subq (drop q o) q.
Proof. intros q o x. destruct (Nat.eq_dec x o) as [->|Hn]; [right; apply lookup_drop_same | left; now apply lookup_drop_other]. Qed.

Lemma subq_created : forall q' q t, subq q' q -> is_created q' t = true -> is_created q t = true.
Proof. intros q' q t H Hc. unfold is_created in *. destruct (H t) as [E|E]; rewrite E in Hc; [assumption | discriminate]. Qed.

Lemma subq_not_deleted : forall q' q t, subq q' q -> not_deleted q t -> not_deleted q' t.
Proof. intros q' q t H Hn. unfold not_deleted, pending_st in *. destruct (H t) as [E|E]; rewrite E; [assumption | discriminate]. Qed.

Lemma filter_length_le : forall A (f : A -> bool) l, length (filter f l) <= length l.
Proof. intros A f l; induction l as [|x l IH]; cbn; [lia|]. destruct (f x); cbn; lia. Qed.

Lemma length_drop : forall q o ob, lookup q o = Some ob -> length (drop q o) < length q.
Proof.
  induction q as [|x q IH]; intros o ob H; [discriminate|]. unfold lookup in H. cbn in H. unfold drop. cbn [filter].
  destruct (Nat.eqb (o_id x) o) eqn:E; cbn [negb length].
  - pose proof (filter_length_le _ (fun ob0 => negb (Nat.eqb (o_id ob0) o)) q). lia.
  - specialize (IH o ob H). unfold drop in IH. lia.
Qed.

Lemma subq_length : forall q o, length (drop q o) <= length q.
Proof. intros. unfold drop. apply filter_length_le. Qed.

Section Order.
Variable rank : oid -> nat.
Variable d0 : db.

Definition ranked_l (q : list obj) : Prop :=
  forall o ob t, lookup q o = Some ob -> o_st ob = Created -> In t (targets ob) -> is_created q t = true -> rank t < rank o.

Lemma ranked_l_sub : forall q' q, subq q' q -> ranked_l q -> ranked_l q'.
Proof.
  intros q' q S R o ob t Hl Hst Ht Hc. destruct (S o) as [E|E]; [|congruence].
  rewrite E in Hl. eapply R; try eassumption. eapply subq_created; eassumption.
Qed.

(* what is known about dependent_objects when object o is about to be saved: whoever is still pending in it is an ancestor *)
Definition deps_ok (q : list obj) (deps : list oid) (o : oid) (ob : obj) : Prop :=
  forall x, In x deps -> lookup q x = None \/
    (exists xb, lookup q x = Some xb /\ (o_st xb = Modified \/ (o_st xb = Created /\ o_st ob = Created /\ rank o < rank x))).

Record post (o : oid) (ob : obj) (q : list obj) (deps : list oid) (d : db) (q' : list obj) (out' : list stmt) (deps' : list oid) (d' : db) : Prop := mkpost {
  po_exec : exec_all d0 out' = Some d';
  po_inv : Inv d' q';
  po_sub : subq q' q;
  po_gone : lookup q' o = None;
  po_removed : forall x xb, lookup q x = Some xb -> lookup q' x = None -> x = o \/ (o_st xb = Created /\ (o_st ob = Created -> rank x < rank o));
  po_deps : exists extra, deps' = deps ++ extra /\ forall x, In x extra -> lookup q' x = None;
  po_rows1 : forall x, has_row d x = true -> not_deleted q x -> has_row d' x = true;
  po_rows2 : forall x, is_created q x = true -> lookup q' x = None -> has_row d' x = true;
  po_len : length q' < length q
}.

Definition save_spec (f : nat) : Prop :=
  forall o q out deps d ob,
    0 < f -> exec_all d0 out = Some d -> Inv d q -> ranked_l q -> lookup q o = Some ob ->
    (o_st ob = Created -> rank o < f /\ deps_ok q deps o ob) ->
    (o_st ob = Modified -> deps = [] /\ forall t, In t (targets ob) -> is_created q t = true -> S (rank t) < f) ->
    (o_st ob = Deleted -> exists q0, q = ob :: q0) ->
    exists q' out' deps' d', save f o q out deps = ROk q' out' deps' /\ post o ob q deps d q' out' deps' d'.

Lemma targets_ok_of_inv : forall d q o ob, Inv d q -> lookup q o = Some ob -> o_st ob <> Deleted ->
  forall t, In t (targets ob) -> ok_target d q t /\ (o_st ob = Created -> t <> o).
Proof.
  intros d q o ob [N I] Hl Hst t Ht. destruct (lookup_in _ _ _ Hl) as [Hin Hid]. subst o.
  pose proof (I ob Hin) as P. unfold P_obj in P. destruct (o_st ob); [| |congruence].
  - destruct P as [_ P]. destruct (P t Ht). split; auto.
  - destruct P as [_ P]. split; [now apply P | discriminate].
Qed.

(* the loop over the referenced objects *)
Lemma principals_ok : forall f, save_spec f ->
  forall o ob, o_st ob <> Deleted ->
  forall ts q1 out1 deps1 d1,
    exec_all d0 out1 = Some d1 -> Inv d1 q1 -> ranked_l q1 -> lookup q1 o = Some ob ->
    incl ts (targets ob) ->
    (forall t, In t ts -> is_created q1 t = true -> rank t < f /\ (o_st ob = Created -> rank t < rank o)) ->
    (forall x, In x deps1 -> lookup q1 x = None \/ x = o \/
               (exists xb, lookup q1 x = Some xb /\ (o_st xb = Modified \/ (o_st xb = Created /\ o_st ob = Created /\ rank o < rank x)))) ->
    exists q2 out2 deps2 d2,
      principals (save f) ts q1 out1 deps1 = ROk q2 out2 deps2 /\
      exec_all d0 out2 = Some d2 /\ Inv d2 q2 /\ subq q2 q1 /\ lookup q2 o = Some ob /\
      (forall t, In t ts -> has_row d2 t = true) /\
      (forall x xb, lookup q1 x = Some xb -> lookup q2 x = None -> o_st xb = Created /\ (o_st ob = Created -> rank x < rank o)) /\
      (exists extra, deps2 = deps1 ++ extra /\ forall x, In x extra -> lookup q2 x = None) /\
      (forall x, has_row d1 x = true -> not_deleted q1 x -> has_row d2 x = true) /\
      (forall x, is_created q1 x = true -> lookup q2 x = None -> has_row d2 x = true) /\
      length q2 <= length q1.
Proof.
  intros f IHf o ob Hnd ts. induction ts as [|t ts IH]; intros q1 out1 deps1 d1 Hex HI HR Hl Hincl Hrk Hdeps.
  - exists q1, out1, deps1, d1. cbn [principals].
    split; [reflexivity|]. split; [assumption|]. split; [assumption|]. split; [apply subq_refl|]. split; [assumption|].
    split; [intros t []|].
    split; [intros x xb H1 H2; congruence|].
    split; [exists []; rewrite app_nil_r; split; [reflexivity | intros x []]|].
    split; [intros x Hx _; exact Hx|].
    split; [|lia].
    intros x Hc Hn. unfold is_created in Hc. now rewrite Hn in Hc.
  - cbn [principals].
    assert (Htin : In t (targets ob)) by (apply Hincl; now left).
    destruct (targets_ok_of_inv _ _ _ _ HI Hl Hnd t Htin) as [[Hor Hndt] Hto].
    destruct (is_created q1 t) eqn:Ec.
    + (* still 'created': save it first *)
      destruct (Hrk t (or_introl eq_refl) Ec) as [Hrf Hro].
      unfold is_created in Ec. destruct (lookup q1 t) as [tb|] eqn:Elt; [|discriminate].
      destruct (o_st tb) eqn:Estb; try discriminate.
      assert (Hdt : deps_ok q1 deps1 t tb).
      { intros x Hx. destruct (Hdeps x Hx) as [H|[->|[xb [H1 [H2|[H2 [H3 H4]]]]]]]; [now left | | |].
        - right. exists ob. split; [assumption|]. destruct (o_st ob) eqn:Eob; [right | now left | congruence].
          repeat split; auto.
        - right. exists xb. split; [assumption | now left].
        - right. exists xb. split; [assumption|]. right. repeat split; auto. specialize (Hro H3). lia. }
      destruct (IHf t q1 out1 deps1 d1 tb ltac:(lia) Hex HI HR Elt) as [q' [out' [deps' [d' [Hsv P]]]]].
      { intros _. split; assumption. }
      { intros E. congruence. }
      { intros E. congruence. }
      rewrite Hsv. destruct P.
      assert (Hlo : lookup q' o = Some ob).
      { destruct (po_sub0 o) as [E|E]; [now rewrite E|]. exfalso.
        destruct (po_removed0 o ob Hl E) as [E2|[E2 E3]].
        - subst t. rewrite Hl in Elt. injection Elt as <-. destruct (o_st ob) eqn:Eob; try congruence. specialize (Hto eq_refl). congruence.
        - specialize (Hro E2). specialize (E3 Estb). lia. }
      destruct (IH q' out' deps' d' po_exec0 po_inv0 (ranked_l_sub _ _ po_sub0 HR) Hlo) as [q2 [out2 [deps2 [d2 [Hp [A1 [A2 [A3 [A4 [A5 [A6 [A7 [A8 [A9 A10]]]]]]]]]]]]]].
      { intros z Hz. apply Hincl. now right. }
      { intros z Hz Hcz. apply Hrk; [now right | eapply subq_created; eassumption]. }
      { destruct po_deps0 as [extra [-> Hextra]]. intros x Hx. apply in_app_or in Hx as [Hx|Hx]; [|left; now apply Hextra].
        destruct (Hdeps x Hx) as [H|[->|[xb [H1 H2]]]].
        - left. destruct (po_sub0 x) as [E|E]; congruence.
        - right; now left.
        - destruct (po_sub0 x) as [E|E]; [|now left]. right; right. exists xb. rewrite E. auto. }
      exists q2, out2, deps2, d2. split; [exact Hp|]. split; [exact A1|]. split; [exact A2|].
      split; [eapply subq_trans; eassumption|]. split; [exact A4|].
      split.
      { intros z [<-|Hz]; [|now apply A5].
        apply A8; [apply po_rows4; [unfold is_created; now rewrite Elt, Estb | exact po_gone0]|].
        unfold not_deleted, pending_st. rewrite po_gone0. discriminate. }
      split.
      { intros x xb H1 H2. destruct (po_sub0 x) as [E|E].
        - rewrite H1 in E. exact (A6 x xb E H2).
        - destruct (po_removed0 x xb H1 E) as [->|[E2 E3]].
          + rewrite Elt in H1. injection H1 as <-. split; [assumption | intros; now apply Hro].
          + split; [assumption|]. intros Eo. specialize (Hro Eo). specialize (E3 Estb). lia. }
      split.
      { destruct po_deps0 as [e1 [-> He1]]. destruct A7 as [e2 [-> He2]]. exists (e1 ++ e2). rewrite app_assoc. split; [reflexivity|].
        intros x Hx. apply in_app_or in Hx as [Hx|Hx]; [|now apply He2].
        destruct (A3 x) as [E|E]; [rewrite E; now apply He1 | assumption]. }
      split.
      { intros x Hx Hn. apply A8; [now apply po_rows3 | eapply subq_not_deleted; eassumption]. }
      split.
      { intros x Hc Hn. destruct (po_sub0 x) as [E|E].
        - apply A9; [|assumption]. unfold is_created in *. now rewrite E.
        - apply A8; [now apply po_rows4|]. unfold not_deleted, pending_st. rewrite E. discriminate. }
      lia.
    + (* not (or no longer) 'created': its row exists *)
      assert (Hrow : has_row d1 t = true) by (destruct Hor as [H|H]; [assumption | congruence]).
      destruct (IH q1 out1 deps1 d1 Hex HI HR Hl) as [q2 [out2 [deps2 [d2 [Hp [A1 [A2 [A3 [A4 [A5 [A6 [A7 [A8 [A9 A10]]]]]]]]]]]]]].
      { intros z Hz. apply Hincl. now right. }
      { intros z Hz Hcz. apply Hrk; [now right | assumption]. }
      { exact Hdeps. }
      exists q2, out2, deps2, d2. repeat (split; [assumption|]).
      split; [|repeat (split; try assumption)].
      intros z [<-|Hz]; [now apply A8 | now apply A5].
Qed.

Lemma deps_ok_notin : forall q deps o ob, lookup q o = Some ob -> o_st ob = Created -> deps_ok q deps o ob -> mem o deps = false.
Proof.
  intros q deps o ob Hl Hst Hd. destruct (mem o deps) eqn:E; [|reflexivity]. exfalso.
  apply mem_in in E. destruct (Hd o E) as [H|[xb [H1 [H2|[_ [_ H3]]]]]]; [congruence | | lia].
  rewrite Hl in H1. injection H1 as <-. congruence.
Qed.

Lemma save_ok : forall f, save_spec f.
Proof.
  induction f as [|f IHf]; intros o q out deps d ob Hf Hex HI HR Hl HC HM HD; [lia|].
  cbn [save]. rewrite Hl. destruct (lookup_in _ _ _ Hl) as [Hin Hid].
  destruct (o_st ob) eqn:Est.
  - (* created: principals first, then INSERT *)
    destruct (HC eq_refl) as [Hrk Hd]. rewrite (deps_ok_notin q deps o ob Hl Est Hd).
    destruct (principals_ok f IHf o ob ltac:(congruence) (targets ob) q out (deps ++ [o]) d Hex HI HR Hl (incl_refl _))
      as [q2 [out2 [deps2 [d2 [Hp [A1 [A2 [A3 [A4 [A5 [A6 [A7 [A8 [A9 A10]]]]]]]]]]]]]].
    { intros t Ht Hc. assert (rank t < rank o) by (eapply HR; eassumption). split; [lia | auto]. }
    { intros x Hx. apply in_app_or in Hx as [Hx|[<-|[]]]; [|right; now left].
      destruct (Hd x Hx) as [H|[xb [H1 H2]]]; [now left|]. right; right. exists xb. split; [assumption|].
      destruct H2 as [H2|[H2 [H3 H4]]]; [now left | right; auto]. }
    rewrite Hp.
    destruct (step_insert d2 q2 o ob A2 A4 Est A5) as [d3 [Hex3 [HI3 Hrows3]]].
    exists (drop q2 o), (out2 ++ [SInsert o (o_cols ob)]), deps2, d3. split; [reflexivity|].
    constructor.
    + eapply exec_all_snoc; eassumption.
    + assumption.
    + eapply subq_trans; [apply subq_drop | assumption].
    + apply lookup_drop_same.
    + intros x xb H1 H2. destruct (Nat.eq_dec x o) as [->|Hn]; [now left|]. right.
      rewrite lookup_drop_other in H2 by assumption. destruct (A6 x xb H1 H2) as [B1 B2]. split; [assumption | intros _; now apply B2].
    + destruct A7 as [extra [-> Hextra]]. exists ([o] ++ extra). rewrite app_assoc. split; [reflexivity|].
      intros x [<-|Hx]; [apply lookup_drop_same|]. destruct (subq_drop q2 o x) as [E|E]; [rewrite E; now apply Hextra | assumption].
    + intros x Hx Hn. rewrite Hrows3. rewrite (A8 x Hx Hn). apply orb_true_r.
    + intros x Hc Hn. rewrite Hrows3. destruct (Nat.eqb o x) eqn:E; [reflexivity|]. apply Nat.eqb_neq in E. cbn [orb].
      apply A9; [assumption|]. rewrite lookup_drop_other in Hn; [assumption | congruence].
    + pose proof (length_drop q2 o ob A4). lia.
  - (* modified: principals first, then UPDATE *)
    destruct (HM eq_refl) as [-> Hrk]. cbn [mem existsb].
    destruct (principals_ok f IHf o ob ltac:(congruence) (targets ob) q out ([] ++ [o]) d Hex HI HR Hl (incl_refl _))
      as [q2 [out2 [deps2 [d2 [Hp [A1 [A2 [A3 [A4 [A5 [A6 [A7 [A8 [A9 A10]]]]]]]]]]]]]].
    { intros t Ht Hc. specialize (Hrk t Ht Hc). split; [lia | congruence]. }
    { intros x [<-|[]]. right; now left. }
    rewrite Hp.
    destruct (step_update d2 q2 o ob A2 A4 Est A5) as [d3 [Hex3 [HI3 Hrows3]]].
    exists (drop q2 o), (out2 ++ [SUpdate o (o_cols ob)]), deps2, d3. split; [reflexivity|].
    constructor.
    + eapply exec_all_snoc; eassumption.
    + assumption.
    + eapply subq_trans; [apply subq_drop | assumption].
    + apply lookup_drop_same.
    + intros x xb H1 H2. destruct (Nat.eq_dec x o) as [->|Hn]; [now left|]. right.
      rewrite lookup_drop_other in H2 by assumption. destruct (A6 x xb H1 H2) as [B1 B2]. split; [assumption | congruence].
    + destruct A7 as [extra [-> Hextra]]. exists ([o] ++ extra). split; [reflexivity|].
      intros x [<-|Hx]; [apply lookup_drop_same|]. destruct (subq_drop q2 o x) as [E|E]; [rewrite E; now apply Hextra | assumption].
    + intros x Hx Hn. rewrite Hrows3. now apply A8.
    + intros x Hc Hn. rewrite Hrows3. assert (x <> o) by (intro E; subst x; unfold is_created in Hc; rewrite Hl, Est in Hc; discriminate).
      apply A9; [assumption|]. rewrite lookup_drop_other in Hn; assumption.
    + pose proof (length_drop q2 o ob A4). lia.
  - (* deleted: it is the head of the queue *)
    destruct (HD eq_refl) as [q0 ->]. subst o.
    destruct (step_delete d ob q0 HI Est) as [d3 [Hex3 [HI3 Hrows3]]].
    exists (drop (ob :: q0) (o_id ob)), (out ++ [SDelete (o_id ob)]), deps, d3. split; [reflexivity|].
    constructor.
    + eapply exec_all_snoc; eassumption.
    + assumption.
    + apply subq_drop.
    + apply lookup_drop_same.
    + intros x xb H1 H2. destruct (Nat.eq_dec x (o_id ob)) as [->|Hn]; [now left|].
      rewrite lookup_drop_other in H2 by assumption. congruence.
    + exists []. rewrite app_nil_r. split; [reflexivity | intros x []].
    + intros x Hx Hn. rewrite Hrows3, Hx. destruct (Nat.eqb x (o_id ob)) eqn:E; [|reflexivity].
      apply Nat.eqb_eq in E. subst x. exfalso. apply Hn. unfold pending_st. rewrite Hl. cbn. now rewrite Est.
    + intros x Hc Hn. exfalso. destruct (Nat.eq_dec x (o_id ob)) as [->|Hne].
      * unfold is_created in Hc. rewrite Hl, Est in Hc. discriminate.
      * rewrite lookup_drop_other in Hn by assumption. unfold is_created in Hc. now rewrite Hn in Hc.
    + exact (length_drop _ _ _ Hl).
Qed.

(* the loop over objects_to_save *)
Lemma save_all_ok : forall n fuel q out d,
  length q <= n -> exec_all d0 out = Some d -> Inv d q -> ranked_l q ->
  (forall x xb, lookup q x = Some xb -> o_st xb = Created -> S (rank x) < fuel) -> 0 < fuel ->
  exists out' d', save_all n fuel q out = ROk [] out' [] /\ exec_all d0 out' = Some d' /\
    (forall x, has_row d x = true -> not_deleted q x -> has_row d' x = true) /\
    (forall x, is_created q x = true -> has_row d' x = true).
Proof.
  induction n as [|n IH]; intros fuel q out d Hlen Hex HI HR Hrk Hf.
  - destruct q; [|cbn in Hlen; lia]. exists out, d. cbn. repeat split; auto. intros x Hc. discriminate.
  - destruct q as [|ob q0].
    + exists out, d. cbn. repeat split; auto. intros x Hc. discriminate.
    + cbn [save_all].
      assert (Hl : lookup (ob :: q0) (o_id ob) = Some ob) by apply nodup_lookup_head.
      destruct (save_ok fuel (o_id ob) (ob :: q0) out [] d ob Hf Hex HI HR Hl) as [q' [out' [deps' [d' [Hsv P]]]]].
      { intros Est. split; [specialize (Hrk _ _ Hl Est); lia | intros x []]. }
      { intros Est. split; [reflexivity|]. intros t Ht Hc. unfold is_created in Hc.
        destruct (lookup (ob :: q0) t) as [tb|] eqn:Et; [|discriminate]. destruct (o_st tb) eqn:Es; try discriminate.
        exact (Hrk t tb Et Es). }
      { intros _. now exists q0. }
      rewrite Hsv. destruct P.
      destruct (IH fuel q' out' d') as [out2 [d2 [Hs2 [Hex2 [R1 R2]]]]]; try assumption.
      { cbn [length] in *. lia. }
      { now apply (ranked_l_sub _ _ po_sub0). }
      { intros x xb Hx Hs. destruct (po_sub0 x) as [E|E]; [|congruence]. rewrite E in Hx. eapply Hrk; eassumption. }
      exists out2, d2. split; [exact Hs2|]. split; [exact Hex2|]. split.
      * intros x Hx Hn. apply R1; [now apply po_rows3 | eapply subq_not_deleted; eassumption].
      * intros x Hc. destruct (po_sub0 x) as [E|E].
        -- apply R2. unfold is_created in *. now rewrite E.
        -- apply R1; [now apply po_rows4|]. unfold not_deleted, pending_st. rewrite E. discriminate.
Qed.

End Order.

(* ------------------------------------------------------------------------------------------------ link rows *)
Lemma exec_linkdel_rows : forall ls d, exists d', exec_all d (map (fun l => SLinkDel (fst l) (snd l)) ls) = Some d' /\ rows d' = rows d.
Proof.
  induction ls as [|l ls IH]; intros d; cbn; [now exists d|].
  destruct (IH (mkdb (rows d) (filter (fun l0 => negb (Nat.eqb (fst l0) (fst l) && Nat.eqb (snd l0) (snd l))) (lnk d)))) as [d' [H1 H2]].
  exists d'. split; assumption.
Qed.

Lemma has_row_rows : forall d d', rows d' = rows d -> forall x, has_row d' x = has_row d x.
Proof. intros d d' H x. unfold has_row. now rewrite H. Qed.

Lemma Inv_rows : forall d d' q, rows d' = rows d -> Inv d q -> Inv d' q.
Proof.
  intros d d' q Hr [N I]. split; [assumption|]. intros ob Hin. specialize (I ob Hin). unfold P_obj in *.
  destruct (o_st ob).
  - destruct I as [A B]. split; [now rewrite (has_row_rows _ _ Hr)|]. intros t Ht. destruct (B t Ht) as [[C1 C2] C3].
    split; [split|]; try assumption. now rewrite (has_row_rows _ _ Hr).
  - destruct I as [A B]. split; [now rewrite (has_row_rows _ _ Hr)|]. intros t Ht. destruct (B t Ht) as [C1 C2].
    split; try assumption. now rewrite (has_row_rows _ _ Hr).
  - destruct I as [A B]. split; [now rewrite (has_row_rows _ _ Hr) | now rewrite Hr].
Qed.

Lemma exec_linkins : forall ls d, (forall l, In l ls -> has_row d (fst l) = true /\ has_row d (snd l) = true) ->
  exists d', exec_all d (map (fun l => SLinkIns (fst l) (snd l)) ls) = Some d'.
Proof.
  induction ls as [|l ls IH]; intros d H; cbn; [now exists d|].
  destruct (H l (or_introl eq_refl)) as [H1 H2]. rewrite H1, H2. cbn.
  apply IH. intros l0 Hl0. destruct (H l0 (or_intror Hl0)) as [A B]. split; assumption.
Qed.

(* ------------------------------------------------------------------------------------------------ from the boolean well-formedness to the invariant *)
Lemma wf_obj_P : forall d q ob, wf_obj d q ob = true -> P_obj d q ob.
Proof.
  intros d q ob H. unfold wf_obj in H. unfold P_obj. destruct (o_st ob).
  - apply andb_true_iff in H as [H1 H2]. apply negb_true_iff in H1. split; [assumption|].
    rewrite forallb_forall in H2. intros t Ht. specialize (H2 t Ht).
    apply andb_true_iff in H2 as [H2 H3]. apply andb_true_iff in H2 as [H2 H4].
    apply orb_true_iff in H2. apply negb_true_iff, Nat.eqb_neq in H4. apply negb_true_iff in H3.
    split; [split; [assumption|] | assumption].
    unfold not_deleted. intro E. rewrite E in H3. discriminate.
  - apply andb_true_iff in H as [H1 H2]. split; [assumption|].
    rewrite forallb_forall in H2. intros t Ht. specialize (H2 t Ht).
    apply andb_true_iff in H2 as [H2 H3]. apply orb_true_iff in H2. apply negb_true_iff in H3.
    split; [assumption|]. unfold not_deleted. intro E. rewrite E in H3. discriminate.
  - apply andb_true_iff in H as [H1 H2]. split; [assumption|].
    rewrite forallb_forall in H2. intros r Hr. specialize (H2 r Hr).
    apply orb_true_iff in H2 as [H2|H2].
    + apply negb_true_iff, andb_false_iff in H2 as [H2|H2]; [left | right; now left].
      apply negb_false_iff, Nat.eqb_eq in H2. assumption.
    + right; right. apply andb_true_iff in H2 as [H2 H3]. split; [assumption|].
      match type of H3 with context [match ?X with Some _ => _ | None => _ end] => destruct X as [rb|] eqn:El end; [|discriminate].
      exists rb. split; [exact El|].
      destruct (o_st rb); [discriminate | right; auto | now left].
Qed.

Lemma ranked_to_l : forall q rank, coherent_ids q = true -> ranked q rank -> ranked_l rank q.
Proof.
  intros q rank N R o ob t Hl Hst Ht Hc. destruct (lookup_in _ _ _ Hl) as [Hin <-]. eapply R; eassumption.
Qed.

(* C16_order *)
Theorem flush_order : forall d p rank,
  wf_pending d p = true -> ranked (p_queue p) rank ->
  (forall ob, In ob (p_queue p) -> o_st ob = Created -> S (rank (o_id ob)) <= length (p_queue p)) ->
  exists ss d', flush p = FOk ss /\ exec_all d ss = Some d' /\ commit d p = (d', true).
Proof.
  intros d p rank Hwf HR Hb. unfold wf_pending in Hwf.
  apply andb_true_iff in Hwf as [Hwf _]. apply andb_true_iff in Hwf as [Hwf Hlinks]. apply andb_true_iff in Hwf as [N Hobjs].
  rewrite forallb_forall in Hobjs.
  assert (HI : Inv d (p_queue p)) by (split; [assumption | intros ob Hin; apply wf_obj_P; now apply Hobjs]).
  destruct (exec_linkdel_rows (p_removed p) d) as [dA [HexA HrA]].
  assert (HIA : Inv dA (p_queue p)) by (eapply Inv_rows; eassumption).
  set (n := length (p_queue p)).
  destruct (save_all_ok rank d n (S n) (p_queue p) (map (fun l => SLinkDel (fst l) (snd l)) (p_removed p)) dA (le_n _) HexA HIA
              (ranked_to_l _ _ N HR)) as [out' [d' [Hs [Hex' [R1 R2]]]]].
  { intros x xb Hx Hs. destruct (lookup_in _ _ _ Hx) as [Hin <-]. specialize (Hb xb Hin Hs). unfold n. lia. }
  { lia. }
  destruct (exec_linkins (p_added p) d') as [d'' Hex''].
  { unfold wf_links in Hlinks. rewrite forallb_forall in Hlinks. intros l Hl. specialize (Hlinks l Hl).
    apply andb_true_iff in Hlinks as [Hlinks Hd2]. apply andb_true_iff in Hlinks as [Hlinks Hd1]. apply andb_true_iff in Hlinks as [Hx Hy].
    apply negb_true_iff in Hd1, Hd2.
    assert (Hend : forall z, has_row d z || is_created (p_queue p) z = true ->
                             (match pending_st (p_queue p) z with Some Deleted => true | _ => false end) = false -> has_row d' z = true).
    { intros z Hz Hnd. apply orb_true_iff in Hz as [Hz|Hz]; [|now apply R2].
      apply R1; [now rewrite (has_row_rows _ _ HrA)|]. unfold not_deleted. intro E. rewrite E in Hnd. discriminate. }
    split; [now apply Hend | now apply Hend]. }
  assert (Hflush : flush p = FOk (out' ++ map (fun l => SLinkIns (fst l) (snd l)) (p_added p))).
  { unfold flush. fold n. now rewrite Hs. }
  exists (out' ++ map (fun l => SLinkIns (fst l) (snd l)) (p_added p)), d''.
  assert (Hall : exec_all d (out' ++ map (fun l => SLinkIns (fst l) (snd l)) (p_added p)) = Some d'') by (rewrite exec_all_app, Hex'; exact Hex'').
  split; [exact Hflush|]. split; [exact Hall|].
  unfold commit. now rewrite Hflush, Hall.
Qed.

(* ------------------------------------------------------------------------------------------------ cycles *)
(* a cycle: every member is a pending 'created' object and references the next one *)
Definition on_cycle (q : list obj) (cyc : list oid) : Prop :=
  cyc <> [] /\ forall c, In c cyc -> exists cb nxt, lookup q c = Some cb /\ o_st cb = Created /\ In nxt cyc /\ In nxt (targets cb).

Lemma principals_keeps_cycle : forall sv cyc,
  (forall o q out deps q' out' deps', on_cycle q cyc -> sv o q out deps = ROk q' out' deps' ->
       on_cycle q' cyc /\ forall c, In c cyc -> lookup q' c = lookup q c) ->
  forall ts q out deps q' out' deps', on_cycle q cyc -> principals sv ts q out deps = ROk q' out' deps' ->
       on_cycle q' cyc /\ forall c, In c cyc -> lookup q' c = lookup q c.
Proof.
  intros sv cyc Hsv ts. induction ts as [|t ts IH]; intros q out deps q' out' deps' Hc Hp; cbn in Hp.
  - injection Hp as <- <- <-. split; [assumption | reflexivity].
  - destruct (is_created q t).
    + destruct (sv t q out deps) as [q1 out1 deps1| |] eqn:E; try discriminate.
      destruct (Hsv _ _ _ _ _ _ _ Hc E) as [Hc1 Hk1]. destruct (IH _ _ _ _ _ _ Hc1 Hp) as [Hc2 Hk2].
      split; [assumption|]. intros c Hin. rewrite Hk2, Hk1; auto.
    + eapply IH; eassumption.
Qed.

Lemma save_ok_gone : forall f o q out deps q' out' deps' ob, lookup q o = Some ob -> save f o q out deps = ROk q' out' deps' -> lookup q' o = None.
Proof.
  intros f o q out deps q' out' deps' ob Hl Hs. destruct f as [|f]; [discriminate|]. cbn [save] in Hs. rewrite Hl in Hs.
  destruct (o_st ob).
  - destruct (mem o deps); [discriminate|].
    destruct (principals (save f) (targets ob) q out (deps ++ [o])) as [q3 out3 deps3| |]; try discriminate.
    injection Hs as <- _ _. apply lookup_drop_same.
  - destruct (mem o deps); [discriminate|].
    destruct (principals (save f) (targets ob) q out (deps ++ [o])) as [q3 out3 deps3| |]; try discriminate.
    injection Hs as <- _ _. apply lookup_drop_same.
  - injection Hs as <- _ _. apply lookup_drop_same.
Qed.

(* the loop over the references of a cycle member cannot complete: it would have to save the next member *)
Lemma principals_blocks : forall f cyc,
  (forall o q out deps q' out' deps', on_cycle q cyc -> save f o q out deps = ROk q' out' deps' ->
       on_cycle q' cyc /\ forall c, In c cyc -> lookup q' c = lookup q c) ->
  forall ts q out dd q1 out1 deps1 nxt, on_cycle q cyc -> In nxt cyc -> In nxt ts ->
    principals (save f) ts q out dd = ROk q1 out1 deps1 -> False.
Proof.
  intros f cyc IHf ts. induction ts as [|t ts IHts]; intros q out dd q1 out1 deps1 nxt Hc Cn Dn Ep; [contradiction|].
  cbn [principals] in Ep. destruct Dn as [->|Dn].
  - destruct (proj2 Hc nxt Cn) as [nb [nn [A1 [A2 _]]]]. unfold is_created in Ep. rewrite A1, A2 in Ep.
    destruct (save f nxt q out dd) as [q2 out2 deps2| |] eqn:Es; try discriminate.
    destruct (IHf _ _ _ _ _ _ _ Hc Es) as [_ Hk]. specialize (Hk nxt Cn).
    rewrite (save_ok_gone _ _ _ _ _ _ _ _ _ A1 Es) in Hk. congruence.
  - destruct (is_created q t).
    + destruct (save f t q out dd) as [q2 out2 deps2| |] eqn:Es; try discriminate.
      destruct (IHf _ _ _ _ _ _ _ Hc Es) as [Hc2 _]. eapply IHts; eassumption.
    + eapply IHts; eassumption.
Qed.

(* no member of a cycle is ever saved: saving it would first have to save its successor, ... *)
Lemma save_keeps_cycle : forall f cyc o q out deps q' out' deps',
  on_cycle q cyc -> save f o q out deps = ROk q' out' deps' ->
  on_cycle q' cyc /\ forall c, In c cyc -> lookup q' c = lookup q c.
Proof.
  induction f as [|f IHf]; intros cyc o q out deps q' out' deps' Hc Hs; cbn [save] in Hs; [discriminate|].
  destruct (lookup q o) as [ob|] eqn:El.
  2:{ injection Hs as <- <- <-. split; [assumption | reflexivity]. }
  assert (Hkeep : forall q1, (forall c, In c cyc -> lookup q1 c = lookup q c) -> ~ In o cyc ->
                  on_cycle (drop q1 o) cyc /\ forall c, In c cyc -> lookup (drop q1 o) c = lookup q c).
  { intros q1 Hk Hno. assert (Hk' : forall c, In c cyc -> lookup (drop q1 o) c = lookup q c).
    { intros c Hin. rewrite lookup_drop_other; [now apply Hk | intro E; subst c; contradiction]. }
    split; [|exact Hk']. destruct Hc as [Hne Hc]. split; [assumption|]. intros c Hin.
    destruct (Hc c Hin) as [cb [nxt [A [B [C D]]]]]. exists cb, nxt. rewrite Hk' by assumption. auto. }
  destruct (o_st ob) eqn:Est.
  - (* created *)
    destruct (mem o deps); [discriminate|].
    destruct (principals (save f) (targets ob) q out (deps ++ [o])) as [q1 out1 deps1| |] eqn:Ep; try discriminate.
    injection Hs as <- <- <-.
    destruct (principals_keeps_cycle (save f) cyc (fun o0 q0 out0 deps0 q2 out2 deps2 => IHf cyc o0 q0 out0 deps0 q2 out2 deps2)
                _ _ _ _ _ _ _ Hc Ep) as [Hc1 Hk1].
    destruct (in_dec Nat.eq_dec o cyc) as [Hin|Hno]; [|now apply Hkeep].
    (* o is on the cycle: its successor is still 'created' when the loop reaches it, and cannot have been saved *)
    exfalso. destruct (proj2 Hc o Hin) as [cb [nxt [A [B [C D]]]]]. rewrite El in A. injection A as <-.
    exact (principals_blocks f cyc (fun o0 q0 out0 deps0 q2 out2 deps2 => IHf cyc o0 q0 out0 deps0 q2 out2 deps2)
             (targets ob) _ _ _ _ _ _ nxt Hc C D Ep).
  - (* modified: never on a cycle of created objects *)
    destruct (mem o deps); [discriminate|].
    destruct (principals (save f) (targets ob) q out (deps ++ [o])) as [q1 out1 deps1| |] eqn:Ep; try discriminate.
    injection Hs as <- <- <-.
    destruct (principals_keeps_cycle (save f) cyc (fun o0 q0 out0 deps0 q2 out2 deps2 => IHf cyc o0 q0 out0 deps0 q2 out2 deps2)
                _ _ _ _ _ _ _ Hc Ep) as [Hc1 Hk1].
    assert (Hno : ~ In o cyc).
    { intro Hin. destruct Hc as [_ Hc]. destruct (Hc o Hin) as [cb [nxt [A [B _]]]]. rewrite El in A. injection A as <-. congruence. }
    destruct (Hkeep q1 Hk1 Hno) as [K1 K2]. split; [exact K1 | exact K2].
  - injection Hs as <- <- <-.
    assert (Hno : ~ In o cyc).
    { intro Hin. destruct Hc as [_ Hc]. destruct (Hc o Hin) as [cb [nxt [A [B _]]]]. rewrite El in A. injection A as <-. congruence. }
    apply Hkeep; [reflexivity | assumption].
Qed.

Lemma save_all_cycle : forall n fuel cyc q out q' out' deps', on_cycle q cyc -> save_all n fuel q out <> ROk q' out' deps'.
Proof.
  induction n as [|n IH]; intros fuel cyc q out q' out' deps' Hc Hs; cbn [save_all] in Hs.
  - destruct q; [|discriminate]. destruct Hc as [Hne Hc]. destruct cyc as [|c cyc]; [congruence|].
    destruct (Hc c (or_introl eq_refl)) as [cb [_ [A _]]]. discriminate.
  - destruct q as [|ob q0].
    + destruct Hc as [Hne Hc]. destruct cyc as [|c cyc]; [congruence|].
      destruct (Hc c (or_introl eq_refl)) as [cb [_ [A _]]]. discriminate.
    + destruct (save fuel (o_id ob) (ob :: q0) out []) as [q1 out1 deps1| |] eqn:E; try discriminate.
      destruct (save_keeps_cycle _ _ _ _ _ _ _ _ _ Hc E) as [Hc1 _]. exact (IH _ _ _ _ _ _ _ Hc1 Hs).
Qed.

(* C16_cycle: with a reference cycle between new objects flush does not succeed, and commit leaves the database as it was *)
Theorem flush_cycle : forall d p cyc, on_cycle (p_queue p) cyc ->
  (forall ss, flush p <> FOk ss) /\ commit d p = (d, false).
Proof.
  intros d p cyc Hc.
  assert (H : forall ss, flush p <> FOk ss).
  { intros ss Hf. unfold flush in Hf.
    destruct (save_all (length (p_queue p)) (S (length (p_queue p))) (p_queue p) (map (fun l => SLinkDel (fst l) (snd l)) (p_removed p)))
      as [q1 out1 deps1| |] eqn:E; try discriminate.
    exact (save_all_cycle _ _ _ _ _ _ _ _ Hc E). }
  split; [exact H|]. unfold commit. destruct (flush p) as [ss| |] eqn:E; try reflexivity. exfalso. exact (H ss eq_refl).
Qed.

(* ------------------------------------------------------------------------------------------------ the fuel never runs out
   dependent_objects has no repetitions (the cycle test) and only holds objects of the queue, so its length - and with it the depth
   of the recursion - is bounded by the number of queued objects. *)
Definition ids (q : list obj) : list oid := map o_id q.

Lemma ids_drop_incl : forall q o, incl (ids (drop q o)) (ids q).
Proof. intros q o x H. unfold ids in *. apply in_map_iff in H as [ob [E Hin]]. apply in_drop in Hin as [Hin _]. apply in_map_iff. eauto. Qed.

Lemma lookup_ids : forall q o ob, lookup q o = Some ob -> In o (ids q).
Proof. intros q o ob H. destruct (lookup_in _ _ _ H) as [Hin <-]. unfold ids. now apply in_map. Qed.

Lemma mem_false_notin : forall o l, mem o l = false -> ~ In o l.
Proof. intros o l H Hin. apply mem_in in Hin. congruence. Qed.

Lemma lookup_none_ids : forall q o, lookup q o = None -> ~ In o (ids q).
Proof.
  intros q o H Hin. unfold ids in Hin. apply in_map_iff in Hin as [ob [E Hob]].
  unfold lookup in H. apply (find_none _ _ H) in Hob. rewrite E, Nat.eqb_refl in Hob. discriminate.
Qed.

Lemma ids_lookup : forall q o, In o (ids q) -> exists ob, lookup q o = Some ob.
Proof.
  intros q o H. destruct (lookup q o) as [ob|] eqn:E; [eauto|]. exfalso. exact (lookup_none_ids _ _ E H).
Qed.

Lemma NoDup_snoc : forall (l : list oid) x, NoDup l -> ~ In x l -> NoDup (l ++ [x]).
Proof.
  induction l as [|a l IH]; intros x Hn Hx; cbn; [constructor; [intros []|constructor]|].
  inversion Hn; subst. constructor.
  - intro Hin. apply in_app_or in Hin as [Hin|[<-|[]]]; [contradiction | apply Hx; now left].
  - apply IH; [assumption | intro; apply Hx; now right].
Qed.

(* what every successful (partial) run does to the queue and to dependent_objects *)
Definition shape (q : list obj) (deps : list oid) (q' : list obj) (deps' : list oid) (U : list oid) : Prop :=
  NoDup deps' /\ incl deps' U /\ (exists extra, deps' = deps ++ extra) /\ incl (ids q') (ids q) /\ length q' <= length q /\
  (forall x, In x (ids q) -> ~ In x (ids q') -> length q' < length q).

Lemma shape_refl : forall q deps U, NoDup deps -> incl deps U -> shape q deps q deps U.
Proof.
  intros. repeat split; auto; try apply incl_refl. exists []. now rewrite app_nil_r. intros x H1 H2. contradiction.
Qed.

Lemma shape_trans : forall q deps q1 deps1 q2 deps2 U, shape q deps q1 deps1 U -> shape q1 deps1 q2 deps2 U -> shape q deps q2 deps2 U.
Proof.
  intros q deps q1 deps1 q2 deps2 U [A1 [A2 [[e1 A3] [A4 [A5 A6]]]]] [B1 [B2 [[e2 B3] [B4 [B5 B6]]]]].
  repeat split; auto.
  - exists (e1 ++ e2). subst. now rewrite app_assoc.
  - eapply incl_tran; eassumption.
  - lia.
  - intros x Hx Hnx. destruct (in_dec Nat.eq_dec x (ids q1)) as [H1|H1].
    + specialize (B6 x H1 Hnx). lia.
    + specialize (A6 x Hx H1). lia.
Qed.

Lemma shape_drop : forall q deps U o, NoDup deps -> incl deps U -> shape q deps (drop q o) deps U.
Proof.
  intros q deps U o Hn Hi. repeat split; auto.
  - exists []. now rewrite app_nil_r.
  - apply ids_drop_incl.
  - apply subq_length.
  - intros x Hx Hnx. destruct (Nat.eq_dec x o) as [->|Hne].
    + destruct (ids_lookup _ _ Hx) as [ob Hl]. eapply length_drop; eassumption.
    + exfalso. apply Hnx. unfold ids in *. apply in_map_iff in Hx as [ob [E Hob]]. apply in_map_iff. exists ob. split; [assumption|].
      apply in_drop. split; [assumption | congruence].
Qed.

Lemma shape_principals : forall sv U,
  (forall t q out deps q' out' deps', sv t q out deps = ROk q' out' deps' -> NoDup deps -> incl deps U -> incl (ids q) U -> shape q deps q' deps' U) ->
  forall ts q out deps q' out' deps', principals sv ts q out deps = ROk q' out' deps' -> NoDup deps -> incl deps U -> incl (ids q) U ->
    shape q deps q' deps' U.
Proof.
  intros sv U Hsv ts. induction ts as [|t ts IH]; intros q out deps q' out' deps' Hp Hn Hi Hq; cbn in Hp.
  - injection Hp as <- <- <-. now apply shape_refl.
  - destruct (is_created q t); [|eapply IH; eassumption].
    destruct (sv t q out deps) as [q1 out1 deps1| |] eqn:E; try discriminate.
    pose proof (Hsv _ _ _ _ _ _ _ E Hn Hi Hq) as S1. destruct S1 as [A1 [A2 [A3 [A4 A5]]]].
    eapply shape_trans; [exact (conj A1 (conj A2 (conj A3 (conj A4 A5)))) | apply IH with (out := out1) (out' := out'); auto; eapply incl_tran; eassumption].
Qed.

Lemma shape_save : forall f U o q out deps q' out' deps',
  save f o q out deps = ROk q' out' deps' -> NoDup deps -> incl deps U -> incl (ids q) U -> shape q deps q' deps' U.
Proof.
  induction f as [|f IHf]; intros U o q out deps q' out' deps' Hs Hn Hi Hq; cbn [save] in Hs; [discriminate|].
  destruct (lookup q o) as [ob|] eqn:El.
  2:{ injection Hs as <- <- <-. now apply shape_refl. }
  assert (Hgen : forall q1 out1 deps1, principals (save f) (targets ob) q out (deps ++ [o]) = ROk q1 out1 deps1 -> mem o deps = false ->
                 shape q deps (drop q1 o) deps1 U).
  { intros q1 out1 deps1 Ep Hm.
    assert (Hn1 : NoDup (deps ++ [o])) by (apply NoDup_snoc; [assumption | now apply mem_false_notin]).
    assert (Hi1 : incl (deps ++ [o]) U).
    { intros x Hx. apply in_app_or in Hx as [Hx|[<-|[]]]; [now apply Hi | apply Hq; eapply lookup_ids; eassumption]. }
    pose proof (shape_principals (save f) U (fun t q0 out0 deps0 q2 out2 deps2 => IHf U t q0 out0 deps0 q2 out2 deps2)
                  _ _ _ _ _ _ _ Ep Hn1 Hi1 Hq) as S1.
    assert (S0 : shape q deps q (deps ++ [o]) U).
    { repeat split; auto; try apply incl_refl. exists [o]; reflexivity. intros x H1 H2; contradiction. }
    destruct S1 as [A1 [A2 A3]].
    eapply shape_trans; [exact S0|]. eapply shape_trans; [exact (conj A1 (conj A2 A3))|]. now apply shape_drop. }
  destruct (o_st ob).
  - destruct (mem o deps) eqn:Hm; [discriminate|].
    destruct (principals (save f) (targets ob) q out (deps ++ [o])) as [q1 out1 deps1| |] eqn:Ep; try discriminate.
    injection Hs as <- <- <-. exact (Hgen q1 out1 deps1 eq_refl eq_refl).
  - destruct (mem o deps) eqn:Hm; [discriminate|].
    destruct (principals (save f) (targets ob) q out (deps ++ [o])) as [q1 out1 deps1| |] eqn:Ep; try discriminate.
    injection Hs as <- <- <-. exact (Hgen q1 out1 deps1 eq_refl eq_refl).
  - injection Hs as <- <- <-. now apply shape_drop.
Qed.

Lemma principals_no_fuel : forall f U,
  (forall t q out deps, NoDup deps -> incl deps U -> incl (ids q) U -> length U < length deps + f -> save f t q out deps <> RFuel) ->
  forall ts q out deps, NoDup deps -> incl deps U -> incl (ids q) U -> length U < length deps + f ->
    principals (save f) ts q out deps <> RFuel.
Proof.
  intros f U Hsv ts. induction ts as [|t ts IH]; intros q out deps Hn Hi Hq Hl; cbn; [discriminate|].
  destruct (is_created q t); [|apply IH; assumption].
  destruct (save f t q out deps) as [q1 out1 deps1| |] eqn:E; [|discriminate|exfalso; eapply Hsv; eassumption].
  destruct (shape_save _ U _ _ _ _ _ _ _ E Hn Hi Hq) as [A1 [A2 [[e A3] [A4 A5]]]].
  apply IH; auto; [eapply incl_tran; eassumption|]. subst deps1. rewrite app_length. lia.
Qed.

Lemma save_no_fuel : forall f U t q out deps,
  NoDup deps -> incl deps U -> incl (ids q) U -> length U < length deps + f -> save f t q out deps <> RFuel.
Proof.
  induction f as [|f IHf]; intros U t q out deps Hn Hi Hq Hl.
  - exfalso. pose proof (NoDup_incl_length Hn Hi). lia.
  - cbn [save]. destruct (lookup q t) as [ob|] eqn:El; [|discriminate].
    assert (Hp : mem t deps = false -> principals (save f) (targets ob) q out (deps ++ [t]) <> RFuel).
    { intros Hm. apply (principals_no_fuel f U (IHf U)).
      - apply NoDup_snoc; [assumption | now apply mem_false_notin].
      - intros x Hx. apply in_app_or in Hx as [Hx|[<-|[]]]; [now apply Hi | apply Hq; eapply lookup_ids; eassumption].
      - assumption.
      - rewrite app_length. cbn. lia. }
    destruct (o_st ob); try discriminate;
      (destruct (mem t deps) eqn:Hm; [discriminate|]; specialize (Hp eq_refl);
       destruct (principals (save f) (targets ob) q out (deps ++ [t])) as [q1 out1 deps1| |]; [discriminate | discriminate | congruence]).
Qed.

Lemma save_all_no_fuel : forall n fuel U q out,
  length q <= n -> incl (ids q) U -> length U < fuel -> save_all n fuel q out <> RFuel.
Proof.
  induction n as [|n IH]; intros fuel U q out Hlen Hq Hf; cbn [save_all].
  - destruct q; [discriminate | cbn in Hlen; lia].
  - destruct q as [|ob q0]; [discriminate|].
    destruct (save fuel (o_id ob) (ob :: q0) out []) as [q1 out1 deps1| |] eqn:E; [|discriminate|].
    + pose proof (shape_save _ U _ _ _ _ _ _ _ E (NoDup_nil _) (incl_nil_l _) Hq) as [_ [_ [_ [A4 [A5 A6]]]]].
      apply (IH fuel U); [|eapply incl_tran; eassumption | assumption].
      assert (Hl : lookup (ob :: q0) (o_id ob) = Some ob) by (unfold lookup; cbn; now rewrite Nat.eqb_refl).
      pose proof (save_ok_gone _ _ _ _ _ _ _ _ _ Hl E) as Hg.
      specialize (A6 (o_id ob) (lookup_ids _ _ _ Hl) (lookup_none_ids _ _ Hg)). cbn [length] in *. lia.
    + exfalso. exact (save_no_fuel fuel U _ _ _ [] (NoDup_nil _) (incl_nil_l _) Hq ltac:(cbn; lia) E).
Qed.

(* flush never fails for lack of fuel: whatever the pending set, the result is a statement list or the cycle error *)
Theorem flush_no_fuel : forall p, flush p <> FFuel.
Proof.
  intros p H. unfold flush in H.
  destruct (save_all (length (p_queue p)) (S (length (p_queue p))) (p_queue p) (map (fun l => SLinkDel (fst l) (snd l)) (p_removed p)))
    as [q1 out1 deps1| |] eqn:E; try discriminate.
  eapply (save_all_no_fuel _ _ (ids (p_queue p))); [apply le_n | apply incl_refl | | exact E].
  unfold ids. rewrite map_length. lia.
Qed.

Theorem flush_cycle_error : forall d p cyc, on_cycle (p_queue p) cyc ->
  (exists chain, flush p = FCycle chain) /\ commit d p = (d, false).
Proof.
  intros d p cyc Hc. destruct (flush_cycle d p cyc Hc) as [H1 H2]. split; [|exact H2].
  destruct (flush p) as [ss|chain|] eqn:E; [exfalso; exact (H1 ss eq_refl) | eauto | exfalso; exact (flush_no_fuel p E)].
Qed.
