(* C17 - PostgreSQL autocommit switching under database errors: every successful write (and every COMMIT) runs with autocommit
   off; autocommit is never switched inside a transaction; a session always ends without a registered cache. *)
From Coq Require Import List Bool Arith.
Import ListNotations.
Require Import PonyV.Model.C19Txn PonyV.Model.C17Pg.

Definition pinv (sh : shape) (s : pst) : bool :=
  negb (g_bad s) &&
  (if g_dtx s then negb (g_ac s) && g_has s && g_pool s else true) &&
  (if g_intx s && g_reg s then negb (g_ac s) && g_has s && g_imm s else true) &&
  (if g_has s then g_pool s && g_reg s && (g_imm s || g_ac s) else true) &&
  (if g_reg s then (if shape_imm sh then g_imm s else true) else negb (g_has s)).
Definition PInv (sh : shape) (s : pst) : Prop := pinv sh s = true /\ pg_writes_ok (g_trace s) = true.

Section S.
Variable oracle : nat -> bool.

Ltac pnorm := cbv beta iota zeta delta [pg_op pg_exec pg_prepare pg_connect pg_stm pg_get_cache pg_commit pg_rollback pg_close pg_pool_release pg_drop
     pg_pool_drop pg_exit pbind pret pfail pcallf p_set_ac p_set_imm p_set_intx p_set_has p_set_reg pinv
     g_has g_pool g_ac g_dtx g_reg g_imm g_intx g_bad g_n g_trace snd fst negb andb orb shape_ddl shape_ser shape_imm].
Ltac kill_oracle := repeat match goal with |- context [oracle ?k] => destruct (oracle k); pnorm end.
Ltac pcrunch := intros [h p a d r i x b n tr] [Hi Hw]; unfold PInv, pinv in *; cbn in Hi, Hw;
                destruct h, p, a, d, r, i, x, b; cbn in Hi; try discriminate; clear Hi;
                pnorm; kill_oracle; cbn [pg_writes_ok forallb pe_call pe_ac negb andb]; unfold pg_writes_ok in Hw; rewrite ?Hw; auto.

Lemma pinv_op : forall sh o s, PInv sh s -> PInv sh (snd (pg_op oracle sh o s)).
Proof. intros sh o. destruct sh, o; pcrunch. Qed.

Lemma pinv_body : forall sh body s, PInv sh s -> PInv sh (snd (pg_body oracle sh body s)).
Proof.
  intros sh body. induction body as [|[o c] b IH]; intros s H; cbn [pg_body]; auto.
  pose proof (pinv_op sh o s H) as Ho. destruct (pg_op oracle sh o s) as [ok s1]. cbn [snd] in Ho.
  destruct ok; [apply IH; auto|]. destruct c; [apply IH; auto | exact Ho].
Qed.

(* after the session no cache is registered, so the invariant holds for whatever shape comes next *)
Lemma pinv_exit0 : forall sh (ok : bool) s, PInv sh s -> PInv sh (snd (pg_exit oracle sh (ok, s))) /\ g_reg (snd (pg_exit oracle sh (ok, s))) = false.
Proof. intros sh ok. destruct sh, ok; pcrunch. Qed.
Lemma pinv_idle : forall sh sh' s, g_reg s = false -> PInv sh s -> PInv sh' s.
Proof.
  intros sh sh' s Hr [Hi Hw]. split; auto. destruct s as [h p a d r i x b n tr]. cbn in Hr. subst r.
  unfold pinv in *. cbn in *. destruct sh, sh', h, p, a, d, i, x, b; cbn in *; auto.
Qed.
Lemma pinv_exit : forall sh sh' (ok : bool) s, PInv sh s -> PInv sh' (snd (pg_exit oracle sh (ok, s))) /\ g_reg (snd (pg_exit oracle sh (ok, s))) = false.
Proof. intros sh sh' ok s H. destruct (pinv_exit0 sh ok s H) as (H1 & H2). split; auto. eapply pinv_idle; eauto. Qed.

Lemma pinv_session : forall sh' x s, PInv (fst (fst x)) s -> PInv sh' (pg_session oracle s x) /\ g_reg (pg_session oracle s x) = false.
Proof.
  intros sh' [[sh body] raises] s H. unfold pg_session. cbn [fst] in H.
  pose proof (pinv_body sh body s H) as Hb. destruct (pg_body oracle sh body s) as [ok s1]. cbn [snd] in *.
  destruct raises; apply pinv_exit; exact Hb.
Qed.

Definition next_shape (l : list (shape * list (pop * bool) * bool)) : shape := match l with [] => ShOpt | x :: _ => fst (fst x) end.
Lemma pinv_run : forall l s, PInv (next_shape l) s -> exists sh, PInv sh (pg_run oracle l s).
Proof.
  induction l as [|x l IH]; intros s H; cbn.
  - exists ShOpt. exact H.
  - apply IH. apply pinv_session. exact H.
Qed.
End S.

Lemma pinv_init : forall sh ac, PInv sh (pg_init ac).
Proof. intros [] []; split; reflexivity. Qed.

Lemma pg_writes_lemma : forall oracle l ac,
  pg_writes_ok (g_trace (pg_run oracle l (pg_init ac))) = true /\ g_bad (pg_run oracle l (pg_init ac)) = false.
Proof.
  intros oracle l ac. destruct (pinv_run oracle l _ (pinv_init (next_shape l) ac)) as (sh & Hi & Hw). split; auto.
  unfold pinv in Hi. destruct (g_bad (pg_run oracle l (pg_init ac))); auto.
Qed.
Lemma pg_session_ends : forall oracle x s, PInv (fst (fst x)) s -> g_reg (pg_session oracle s x) = false.
Proof. intros oracle x s H. apply (pinv_session oracle ShOpt x s H). Qed.
