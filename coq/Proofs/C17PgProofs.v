(* C17 - PostgreSQL autocommit switching: every write runs with autocommit off; autocommit is never switched inside a transaction. *)
From Coq Require Import List Bool Arith.
Import ListNotations.
Require Import PonyV.Model.C19Txn PonyV.Model.C17Pg.

Definition pinv (s : pst) : bool :=
  negb (g_bad s) &&
  (if g_intx s then negb (g_ac s) && g_has s && g_imm s && g_reg s else true) &&
  (if g_dtx s then g_intx s else true) &&
  (if g_has s then g_reg s else negb (g_dtx s)) &&
  (if g_reg s then true else negb (g_has s) && negb (g_intx s)).
Definition PInv (s : pst) : Prop := pinv s = true /\ pg_writes_ok (g_trace s) = true.

Ltac pcrunch :=
  intros [h a d r i x b tr] [Hi Hw]; unfold PInv, pinv in *; cbn in *;
  destruct h, a, d, r, i, x, b; cbn in *; try discriminate; rewrite ?Hw; auto.

Lemma pinv_op : forall sh o s, PInv s -> PInv (pg_op sh o s).
Proof. intros sh o. destruct sh, o; pcrunch. Show. Qed.
Lemma pinv_body : forall sh body s, PInv s -> PInv (fold_left (fun a o => pg_op sh o a) body s).
Proof. intros sh body. induction body as [|o b IH]; intros s H; cbn; auto. apply IH. apply pinv_op. exact H. Qed.
Lemma pinv_exit : forall sh fail s, PInv s ->
  PInv (if fail then pg_rollback sh s else let s2 := pg_commit s in if g_reg s2 then pg_close sh false s2 else s2).
Proof. intros sh fail. destruct sh, fail; pcrunch. Qed.
Lemma pinv_session : forall x s, PInv s -> PInv (pg_session s x).
Proof. intros [[sh body] fail] s H. unfold pg_session. apply pinv_exit. apply pinv_body. exact H. Qed.
Lemma pinv_run : forall l s, PInv s -> PInv (pg_run l s).
Proof. induction l as [|x l IH]; intros s H; cbn; auto. apply IH. apply pinv_session. exact H. Qed.
Lemma pinv_init : forall ac, PInv (pg_init ac).
Proof. intros []; split; reflexivity. Qed.

Lemma pg_writes_lemma : forall l ac, pg_writes_ok (g_trace (pg_run l (pg_init ac))) = true /\ g_bad (pg_run l (pg_init ac)) = false.
Proof.
  intros l ac. destruct (pinv_run l _ (pinv_init ac)) as (Hi & Hw). split; auto.
  unfold pinv in Hi. destruct (g_bad (pg_run l (pg_init ac))); auto.
Qed.
