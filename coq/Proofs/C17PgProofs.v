(* C17 - PostgreSQL autocommit switching: every write runs with autocommit off; autocommit is never switched inside a transaction. *)
From Coq Require Import List Bool Arith.
Import ListNotations.
Require Import PonyV.Model.C19Txn PonyV.Model.C17Pg.

Definition pinv (sh : shape) (s : pst) : bool :=
  negb (g_bad s) &&
  (if g_intx s then negb (g_ac s) && g_has s && g_imm s && g_reg s else true) &&
  (if g_dtx s then g_intx s else true) &&
  (if g_has s then g_reg s && (g_imm s || g_ac s) else negb (g_dtx s)) &&
  (if g_reg s then (if shape_imm sh then g_imm s else true) else negb (g_has s) && negb (g_intx s)).
Definition PInv (sh : shape) (s : pst) : Prop := pinv sh s = true /\ pg_writes_ok (g_trace s) = true.

Ltac pcrunch :=
  intros [h a d r i x b tr] [Hi Hw]; unfold PInv, pinv in *; cbn in *;
  destruct h, a, d, r, i, x, b; cbn in *; try discriminate; rewrite ?Hw; auto.

Lemma pinv_op : forall sh o s, PInv sh s -> PInv sh (pg_op sh o s).
Proof. intros sh o. destruct sh, o; pcrunch. Qed.
Lemma pinv_body : forall sh body s, PInv sh s -> PInv sh (fold_left (fun a o => pg_op sh o a) body s).
Proof. intros sh body. induction body as [|o b IH]; intros s H; cbn; auto. apply IH. apply pinv_op. exact H. Qed.
(* after the session no cache is registered, so the invariant holds for whatever shape comes next *)
Lemma pinv_exit : forall sh sh' (fl : bool) s, PInv sh s ->
  PInv sh' (if fl then pg_rollback sh s else let s2 := pg_commit s in if g_reg s2 then pg_close sh false s2 else s2).
Proof. intros sh sh' fl. destruct sh, sh', fl; pcrunch. Qed.
Lemma pinv_idle : forall sh sh' s, g_reg s = false -> PInv sh s -> PInv sh' s.
Proof.
  intros sh sh' s Hr [Hi Hw]. split; auto. destruct s as [h a d r i x b tr]. cbn in Hr. subst r.
  unfold pinv in *. cbn in *. destruct sh, sh', h, a, d, i, x, b; cbn in *; auto.
Qed.
Lemma pinv_session : forall sh' x s, PInv (fst (fst x)) s -> PInv sh' (pg_session s x).
Proof. intros sh' [[sh body] fl] s H. unfold pg_session. apply pinv_exit. apply pinv_body. exact H. Qed.

Definition next_shape (l : list (shape * list pop * bool)) : shape := match l with [] => ShOpt | x :: _ => fst (fst x) end.
Lemma pinv_run : forall l s, PInv (next_shape l) s -> exists sh, PInv sh (pg_run l s).
Proof.
  induction l as [|x l IH]; intros s H; cbn.
  - exists ShOpt. exact H.
  - apply IH. apply pinv_session. exact H.
Qed.
Lemma pinv_init : forall sh ac, PInv sh (pg_init ac).
Proof. intros [] []; split; reflexivity. Qed.

Lemma pg_writes_lemma : forall l ac, pg_writes_ok (g_trace (pg_run l (pg_init ac))) = true /\ g_bad (pg_run l (pg_init ac)) = false.
Proof.
  intros l ac. destruct (pinv_run l _ (pinv_init (next_shape l) ac)) as (sh & Hi & Hw). split; auto.
  unfold pinv in Hi. destruct (g_bad (pg_run l (pg_init ac))); auto.
Qed.
