(* C11: the identity map and the unique-key indexes agree with the objects of the session, for every history.
   Inv_idx is the invariant; Pk s := "a dirty site was reached, or Inv_idx s" is what every model function preserves. *)
Require Import PonyV.Model.SessionBase PonyV.Model.SessionDb PonyV.Model.Session.
Require Import PonyV.Proofs.SessionLemmas PonyV.Proofs.SessionState.
From Coq Require Import Arith.

Definition is_key (sch : schema) (e k : nat) : bool := match k with O => true | S a => attr_uniq sch e a end.
Definition key_live (k : nat) (st : status) : bool := match k with O => negb (is_gone st) | S _ => negb (is_del st) end.
Definition okey (ob : obj) (k : nat) : option val :=
  match k with
  | O => match o_pk ob with Some z => Some (VInt z) | None => None end
  | S a => match oval ob a with Some v => if is_vnone v then None else Some v | None => None end
  end.
(* the value under which the object has to be found in index slot k, if any *)
Definition kview (sch : schema) (ob : obj) (k : nat) : option val :=
  if is_key sch (o_ent ob) k && key_live k (o_st ob) then okey ob k else None.

Definition Inv_idx (sch : schema) (s : sess) : Prop :=
  forall e k v o, idx_get s e k v = Some o <-> exists ob, get_obj s o = Some ob /\ o_ent ob = e /\ kview sch ob k = Some v.

Definition Pk (sch : schema) (s : sess) : Prop := s_dirty s <> O \/ Inv_idx sch s.

(* ---------------------------------------------------------------- frame: changes that no index can see *)

Definition kobj_eq (sch : schema) (a b : obj) : Prop :=
  o_ent a = o_ent b /\ o_pk a = o_pk b /\ is_del (o_st a) = is_del (o_st b) /\ is_gone (o_st a) = is_gone (o_st b) /\
  (status_eqb (o_st a) SCreated = status_eqb (o_st b) SCreated) /\
  forall x, attr_uniq sch (o_ent a) x = true -> oval a x = oval b x.

Definition kframe (sch : schema) (s s' : sess) : Prop :=
  s_idx s' = s_idx s /\ s_dirty s' = s_dirty s /\ length (s_objs s') = length (s_objs s) /\
  forall o a, get_obj s o = Some a -> exists b, get_obj s' o = Some b /\ kobj_eq sch a b.

Lemma kobj_eq_refl : forall sch a, kobj_eq sch a a.
Proof. unfold kobj_eq. intuition. Qed.

Lemma kobj_eq_trans : forall sch a b c, kobj_eq sch a b -> kobj_eq sch b c -> kobj_eq sch a c.
Proof.
  unfold kobj_eq. intros sch a b c (A1 & A2 & A3 & A4 & A5 & A6) (B1 & B2 & B3 & B4 & B5 & B6).
  repeat split; try congruence. intros x H. rewrite A6 by assumption. apply B6. rewrite <- A1. assumption.
Qed.

Lemma kobj_eq_kview : forall sch a b, kobj_eq sch a b -> forall k, kview sch a k = kview sch b k.
Proof.
  intros sch a b (A1 & A2 & A3 & A4 & A5 & A6) k. unfold kview. rewrite <- A1.
  destruct k as [|x]; simpl.
  - rewrite A4, A2. reflexivity.
  - rewrite A3. destruct (attr_uniq sch (o_ent a) x) eqn:U; simpl; auto. rewrite A6 by assumption. reflexivity.
Qed.

Lemma kframe_refl : forall sch s, kframe sch s s.
Proof. intros. repeat split; auto. intros o a H. exists a. split; auto. apply kobj_eq_refl. Qed.

Lemma kframe_trans : forall sch s1 s2 s3, kframe sch s1 s2 -> kframe sch s2 s3 -> kframe sch s1 s3.
Proof.
  intros sch s1 s2 s3 (A1 & A2 & A3 & A4) (B1 & B2 & B3 & B4). repeat split; try congruence.
  intros o a H. destruct (A4 o a H) as (b & Hb & E1). destruct (B4 o b Hb) as (c & Hc & E2).
  exists c. split; auto. eapply kobj_eq_trans; eauto.
Qed.

Lemma get_obj_None_len : forall s s' o, length (s_objs s') = length (s_objs s) -> get_obj s o = None -> get_obj s' o = None.
Proof.
  intros. apply get_obj_ge. rewrite H. unfold get_obj in H0. apply nth_error_None. assumption.
Qed.

Lemma kframe_back : forall sch s s' o b, kframe sch s s' -> get_obj s' o = Some b -> exists a, get_obj s o = Some a /\ kobj_eq sch a b.
Proof.
  intros sch s s' o b (A1 & A2 & A3 & A4) H. destruct (get_obj s o) as [a|] eqn:E.
  - destruct (A4 o a E) as (b' & Hb & K). exists a. split; auto. congruence.
  - rewrite (get_obj_None_len s s' o A3 E) in H. discriminate.
Qed.

Lemma kframe_Inv : forall sch s s', kframe sch s s' -> Inv_idx sch s -> Inv_idx sch s'.
Proof.
  intros sch s s' F I e k v o. pose proof F as (A1 & A2 & A3 & A4).
  unfold idx_get. rewrite A1. fold (idx_get s e k v). rewrite (I e k v o). split.
  - intros (a & Ha & He & Hk). destruct (A4 o a Ha) as (b & Hb & K). exists b. repeat split; auto.
    + destruct K as (K1 & _). congruence.
    + rewrite <- (kobj_eq_kview sch a b K). assumption.
  - intros (b & Hb & He & Hk). destruct (kframe_back sch s s' o b F Hb) as (a & Ha & K). exists a. repeat split; auto.
    + destruct K as (K1 & _). congruence.
    + rewrite (kobj_eq_kview sch a b K). assumption.
Qed.

Lemma kframe_Pk : forall sch s s', kframe sch s s' -> Pk sch s -> Pk sch s'.
Proof.
  intros sch s s' F [D|I]. left. destruct F as (_ & A2 & _). congruence. right. eapply kframe_Inv; eauto.
Qed.

(* only fields other than objects / indexes / dirty change *)
Lemma kframe_fields : forall sch s s', s_objs s' = s_objs s -> s_idx s' = s_idx s -> s_dirty s' = s_dirty s -> kframe sch s s'.
Proof.
  intros sch s s' H1 H2 H3. repeat split; auto. congruence.
  intros o a H. exists a. split. unfold get_obj in *. congruence. apply kobj_eq_refl.
Qed.

Lemma kframe_upd_obj : forall sch s o f,
  (forall ob, get_obj s o = Some ob -> kobj_eq sch ob (f ob)) -> kframe sch s (upd_obj s o f).
Proof.
  intros sch s o f H. repeat split.
  - apply upd_obj_idx.
  - apply upd_obj_dirty.
  - apply upd_obj_length.
  - intros o' a Ha. rewrite get_upd_obj. destruct (Nat.eqb o o') eqn:E.
    + apply Nat.eqb_eq in E. subst. rewrite Ha. simpl. exists (f a). split; auto.
    + exists a. split; auto. apply kobj_eq_refl.
Qed.

Lemma Pk_dirty : forall sch s site, site <> O -> Pk sch (mark_dirty s site).
Proof. intros. left. unfold mark_dirty. cbn [s_dirty]. destruct (s_dirty s); auto. Qed.

Lemma Pk_dirty_keep : forall sch s site, Pk sch s -> Pk sch (mark_dirty s site).
Proof.
  intros sch s site [D|I].
  - left. unfold mark_dirty. cbn [s_dirty]. destruct (s_dirty s); congruence.
  - destruct site. right. intros e k v o. apply (I e k v o). left. unfold mark_dirty. cbn [s_dirty]. destruct (s_dirty s); auto.
Qed.

(* ---------------------------------------------------------------- key-neutral functions *)

Ltac kf_fields := apply kframe_fields; reflexivity.

Lemma kframe_put_obj : forall sch s o ob ob', get_obj s o = Some ob -> kobj_eq sch ob ob' -> kframe sch s (put_obj s o ob').
Proof.
  intros sch s o ob ob' G K. repeat split.
  - unfold put_obj, set_objs. cbn [s_objs]. apply upd_nth_length.
  - intros o' a Ha. rewrite get_put_obj. destruct (Nat.eqb o o') eqn:E.
    + apply Nat.eqb_eq in E. subst. rewrite Ha. exists ob'. split; auto. congruence.
    + exists a. split; auto. apply kobj_eq_refl.
Qed.

Lemma kobj_eq_pos : forall sch ob x, kobj_eq sch ob (ob_set_pos ob x). Proof. intros. unfold kobj_eq. repeat split; auto. Qed.
Lemma kobj_eq_wbit : forall sch ob a b, kobj_eq sch ob (ob_put_wbit ob a b). Proof. intros. unfold kobj_eq. repeat split; auto. Qed.
Lemma kobj_eq_set : forall sch ob a x, kobj_eq sch ob (ob_put_set ob a x). Proof. intros. unfold kobj_eq. repeat split; auto. Qed.
Lemma kobj_eq_dbval : forall sch ob a x, kobj_eq sch ob (ob_put_dbval ob a x). Proof. intros. unfold kobj_eq. repeat split; auto. Qed.
Lemma kobj_eq_seed : forall sch ob x, kobj_eq sch ob (ob_set_seed ob x). Proof. intros. unfold kobj_eq. repeat split; auto. Qed.

Lemma oval_put_other : forall ob a v x, a <> x -> oval (ob_put_val ob a v) x = oval ob x.
Proof. intros. unfold oval, ob_put_val, ob_set_vals. cbn [o_vals]. apply nth_upd_nth_other. assumption. Qed.

Lemma kobj_eq_val : forall sch ob a v, attr_uniq sch (o_ent ob) a = false -> kobj_eq sch ob (ob_put_val ob a v).
Proof.
  intros sch ob a v U. unfold kobj_eq. repeat split; auto. intros x Hx.
  destruct (Nat.eq_dec a x). subst. congruence. symmetry. apply oval_put_other. assumption.
Qed.

Lemma kobj_eq_st : forall sch ob st, is_del (o_st ob) = is_del st -> is_gone (o_st ob) = is_gone st ->
  status_eqb (o_st ob) SCreated = status_eqb st SCreated -> kobj_eq sch ob (ob_set_st ob st).
Proof. intros. unfold kobj_eq. repeat split; auto. Qed.

Lemma kframe_queue : forall sch s o, kframe sch s (queue s o).
Proof.
  intros. unfold queue. eapply kframe_trans. apply (kframe_upd_obj sch s o (fun ob => ob_set_pos ob (Some (length (s_tosave s))))).
  intros. apply kobj_eq_pos. kf_fields.
Qed.

Lemma kframe_unqueue : forall sch s p, kframe sch s (unqueue_slot s p).
Proof. intros. unfold unqueue_slot. destruct p. kf_fields. apply kframe_refl. Qed.

Lemma obj_st_get : forall s o ob, get_obj s o = Some ob -> obj_st s o = o_st ob.
Proof. intros. unfold obj_st. rewrite H. reflexivity. Qed.

Lemma kframe_mark_written : forall sch s o a, is_del (obj_st s o) = false -> kframe sch s (mark_written s o a).
Proof.
  intros sch s o a D. unfold mark_written. destruct (get_obj s o) as [ob|] eqn:G; [|apply kframe_refl].
  rewrite (obj_st_get s o ob G) in D.
  destruct (status_eqb (o_st ob) SCreated) eqn:C; [apply kframe_refl|].
  assert (F1 : kframe sch s (put_obj s o (ob_put_wbit ob a true))) by (eapply kframe_put_obj; eauto; apply kobj_eq_wbit).
  destruct (status_eqb (o_st ob) SModified) eqn:M; auto.
  eapply kframe_trans. apply F1. eapply kframe_trans; [|apply kframe_queue].
  apply kframe_upd_obj. intros ob1 G1. rewrite get_put_obj in G1. rewrite Nat.eqb_refl, G in G1. inversion G1; subst.
  apply kobj_eq_st; cbn [o_st ob_put_wbit ob_set_wbits].
  - rewrite D. reflexivity.
  - destruct (o_st ob); simpl in *; congruence.
  - rewrite C. reflexivity.
Qed.

Lemma kframe_modcoll_add : forall sch s o a, kframe sch s (modcoll_add s o a).
Proof. intros. unfold modcoll_add. destruct (existsb _ _). apply kframe_refl. kf_fields. Qed.

Lemma kframe_rev_add : forall sch s w a i, kframe sch s (rev_add s w a i).
Proof.
  intros. unfold rev_add. eapply kframe_trans; [|apply kframe_modcoll_add].
  apply kframe_upd_obj. intros. apply kobj_eq_set.
Qed.

Lemma kframe_rev_remove : forall sch s w a i, kframe sch s (rev_remove s w a i).
Proof.
  intros. unfold rev_remove. eapply kframe_trans; [|apply kframe_modcoll_add].
  apply kframe_upd_obj. intros. destruct (oset ob a). apply kobj_eq_set. apply kobj_eq_refl.
Qed.

Lemma kframe_db_rev_add : forall sch s w a i, kframe sch s (out_state (db_rev_add s w a i)).
Proof.
  intros. unfold db_rev_add. destruct (get_obj s w) as [ob|] eqn:G; [|apply kframe_refl].
  destruct (oset ob a) as [sd|].
  - destruct (sd_full sd). apply kframe_refl. simpl. eapply kframe_put_obj; eauto. apply kobj_eq_set.
  - simpl. eapply kframe_put_obj; eauto. apply kobj_eq_set.
Qed.

Lemma kframe_db_rev_remove : forall sch s w a i, kframe sch s (db_rev_remove s w a i).
Proof.
  intros. unfold db_rev_remove. apply kframe_upd_obj. intros. destruct (oset ob a). apply kobj_eq_set. apply kobj_eq_refl.
Qed.

Lemma kframe_sd_add_item : forall sch s o a i, kframe sch s (sd_add_item s o a i).
Proof. intros. unfold sd_add_item. apply kframe_upd_obj. intros. destruct (oset ob a); apply kobj_eq_set. Qed.

Lemma kframe_put_sd : forall sch s o a sd, kframe sch s (put_sd s o a sd).
Proof. intros. unfold put_sd. apply kframe_upd_obj. intros. apply kobj_eq_set. Qed.

Lemma kframe_coll_ensure : forall sch s o a, kframe sch s (coll_ensure s o a).
Proof. intros. unfold coll_ensure. apply kframe_upd_obj. intros. destruct (oset ob a). apply kobj_eq_refl. apply kobj_eq_set. Qed.

Lemma kframe_coll_mark_full : forall sch s o a, kframe sch s (coll_mark_full s o a).
Proof. intros. unfold coll_mark_full. apply kframe_upd_obj. intros. apply kobj_eq_set. Qed.

Lemma kframe_fold : forall sch A (f : sess -> A -> sess) l s,
  (forall s x, kframe sch s (f s x)) -> kframe sch s (fold_left f l s).
Proof.
  intros sch A f l. induction l; intros s H; simpl. apply kframe_refl.
  eapply kframe_trans. apply H. apply IHl. assumption.
Qed.

Lemma kframe_calc_modcoll : forall sch s, kframe sch s (calc_modcoll s).
Proof.
  intros. unfold calc_modcoll. eapply kframe_trans; [|kf_fields].
  apply kframe_fold. intros s0 x. apply kframe_upd_obj. intros. destruct (oset ob (snd x)). apply kobj_eq_set. apply kobj_eq_refl.
Qed.

Lemma kframe_note_order : forall sch A s (l : list A), kframe sch s (note_order s l).
Proof. intros. unfold note_order. destruct l as [|? [|? ?]]; try apply kframe_refl. kf_fields. Qed.

Lemma kframe_is_del : forall sch s s' o, kframe sch s s' -> is_del (obj_st s' o) = is_del (obj_st s o).
Proof.
  intros sch s s' o F. unfold obj_st. destruct (get_obj s o) as [a|] eqn:G.
  - destruct F as (_ & _ & _ & F). destruct (F o a G) as (b & Hb & K). rewrite Hb. destruct K as (_ & _ & K & _). congruence.
  - destruct F as (_ & _ & L & _). rewrite (get_obj_None_len s s' o L G). reflexivity.
Qed.

Lemma kframe_obj_ent : forall sch s s' o, kframe sch s s' -> obj_ent s' o = obj_ent s o.
Proof.
  intros sch s s' o F. unfold obj_ent. destruct (get_obj s o) as [a|] eqn:G.
  - destruct F as (_ & _ & _ & F). destruct (F o a G) as (b & Hb & K). rewrite Hb. destruct K as (K & _). congruence.
  - destruct F as (_ & _ & L & _). rewrite (get_obj_None_len s s' o L G). reflexivity.
Qed.

Section WithSchema.
Variable sch : schema.
Hypothesis WF : wf_schema sch = true.

Lemma obj_ent_get : forall s o ob, get_obj s o = Some ob -> obj_ent s o = o_ent ob.
Proof. intros. unfold obj_ent. rewrite H. reflexivity. Qed.

Lemma kframe_put_ref_val : forall s o a p v, ref_info sch (obj_ent s o) a = Some p ->
  kframe sch s (upd_obj s o (fun ob => ob_put_val ob a v)).
Proof.
  intros. apply kframe_upd_obj. intros ob G. apply kobj_eq_val.
  rewrite <- (obj_ent_get s o ob G). eapply wf_ref_not_uniq; eauto.
Qed.

Lemma kframe_ref_set_rev : forall s item a v, is_del (obj_st s item) = false -> kframe sch s (ref_set_rev sch s item a v).
Proof.
  intros s item a v D. unfold ref_set_rev. destruct (ref_info sch (obj_ent s item) a) as [[t r]|] eqn:R; [|apply kframe_refl].
  pose proof (kframe_mark_written sch s item a D) as F1.
  destruct (oval_eqb (obj_val s item a) (Some v)); auto.
  assert (F2 : kframe sch s (upd_obj (mark_written s item a) item (fun ob => ob_put_val ob a (Some v)))).
  { eapply kframe_trans. apply F1. eapply kframe_put_ref_val. rewrite (kframe_obj_ent sch s _ item F1). eauto. }
  destruct (obj_val s item a) as [[| | |x]|]; auto.
  eapply kframe_trans. apply F2. apply kframe_rev_remove.
Qed.

Lemma kframe_ref_set_direct : forall s o a v, is_del (obj_st s o) = false -> kframe sch s (ref_set_direct sch s o a v).
Proof.
  intros s o a v D. unfold ref_set_direct. destruct (ref_info sch (obj_ent s o) a) as [[t r]|] eqn:R; [|apply kframe_refl].
  pose proof (kframe_mark_written sch s o a D) as F1.
  destruct (oval_eqb (obj_val s o a) (Some v)); auto.
  assert (F2 : kframe sch s (upd_obj (mark_written s o a) o (fun ob => ob_put_val ob a (Some v)))).
  { eapply kframe_trans. apply F1. eapply kframe_put_ref_val. rewrite (kframe_obj_ent sch s _ o F1). eauto. }
  set (s3 := match obj_val s o a with Some (VRef x) => rev_remove _ x r o | _ => _ end).
  assert (F3 : kframe sch s s3).
  { unfold s3. destruct (obj_val s o a) as [[| | |x]|]; auto. eapply kframe_trans. apply F2. apply kframe_rev_remove. }
  destruct v; auto. eapply kframe_trans. apply F3. apply kframe_rev_add.
Qed.

Lemma kframe_item_link : forall s o a r item, is_del (obj_st s item) = false -> kframe sch s (item_link sch s o a r item).
Proof.
  intros. unfold item_link. destruct (ref_info sch (obj_ent s item) r) as [[t a']|]; [|apply kframe_refl].
  destruct (Nat.eqb a' a); [|apply kframe_refl].
  eapply kframe_trans; [|apply kframe_sd_add_item]. apply kframe_ref_set_rev. assumption.
Qed.

(* folds over items that are all alive *)
Lemma kframe_fold_items : forall (f : sess -> oid -> sess) l s,
  (forall s i, is_del (obj_st s i) = false -> kframe sch s (f s i)) ->
  any_del s l = false -> kframe sch s (fold_left f l s).
Proof.
  intros f l. induction l as [|i l IH]; intros s H D; simpl. apply kframe_refl.
  unfold any_del in D. simpl in D. apply orb_false_iff in D. destruct D as [D1 D2].
  pose proof (H s i D1) as F. eapply kframe_trans. apply F. apply IH; auto.
  unfold any_del. rewrite <- D2. apply existsb_ext_eq. intros x. apply (kframe_is_del sch s (f s i) x F).
Qed.

End WithSchema.
