(* C11: the identity map and the unique-key indexes agree with the objects of the session, for every history.
   Inv_idx is the invariant; Pk s := "a dirty site was reached, or Inv_idx s" is what every model function preserves. *)
Require Import PonyV.Gen.SessionFlags PonyV.Model.SessionBase PonyV.Model.SessionDb PonyV.Model.Session.
Require Import PonyV.Proofs.SessionLemmas PonyV.Proofs.SessionState.
From Coq Require Import Arith.

Definition is_key (sch : schema) (e k : nat) : bool := match k with O => true | S a => attr_uniq sch e a end.
Definition key_live (k : nat) (st : status) : bool := match k with O => negb (is_gone st) | S _ => negb (is_del st) end.
Definition okey (ob : obj) (k : nat) : option val :=
  match k with
  | O => match o_pk ob with Some z => Some (VInt z) | None => None end
  | S a => match oval ob a with Some v => if is_vnone v then None else Some v | None => None end
  end.
(* the value under which the object has to be found in index slot k, if any *)
Definition kview (sch : schema) (ob : obj) (k : nat) : option val :=
  if is_key sch (o_ent ob) k && key_live k (o_st ob) then okey ob k else None.

Definition Inv_idx (sch : schema) (s : sess) : Prop :=
  forall e k v o, idx_get s e k v = Some o <-> exists ob, get_obj s o = Some ob /\ o_ent ob = e /\ kview sch ob k = Some v.

(* every object carries one value slot per attribute of its entity *)
Definition Inv_shape (sch : schema) (s : sess) : Prop :=
  forall o ob, get_obj s o = Some ob -> length (o_vals ob) = nattrs sch (o_ent ob).

Definition Pk (sch : schema) (s : sess) : Prop := s_dirty s <> O \/ (Inv_idx sch s /\ Inv_shape sch s).

(* ---------------------------------------------------------------- frame: changes that no index can see *)

Definition kobj_eq (sch : schema) (a b : obj) : Prop :=
  o_ent a = o_ent b /\ o_pk a = o_pk b /\ is_del (o_st a) = is_del (o_st b) /\ is_gone (o_st a) = is_gone (o_st b) /\
  (status_eqb (o_st a) SCreated = status_eqb (o_st b) SCreated) /\
  length (o_vals a) = length (o_vals b) /\
  forall x, attr_uniq sch (o_ent a) x = true -> oval a x = oval b x.

Definition kframe (sch : schema) (s s' : sess) : Prop :=
  s_idx s' = s_idx s /\ s_dirty s' = s_dirty s /\ length (s_objs s') = length (s_objs s) /\
  forall o a, get_obj s o = Some a -> exists b, get_obj s' o = Some b /\ kobj_eq sch a b.

Lemma kobj_eq_refl : forall sch a, kobj_eq sch a a.
Proof. unfold kobj_eq. intuition. Qed.

Lemma kobj_eq_trans : forall sch a b c, kobj_eq sch a b -> kobj_eq sch b c -> kobj_eq sch a c.
Proof.
  unfold kobj_eq. intros sch a b c (A1 & A2 & A3 & A4 & A5 & A7 & A6) (B1 & B2 & B3 & B4 & B5 & B7 & B6).
  repeat split; try congruence. intros x H. rewrite A6 by assumption. apply B6. rewrite <- A1. assumption.
Qed.

Lemma kobj_eq_kview : forall sch a b, kobj_eq sch a b -> forall k, kview sch a k = kview sch b k.
Proof.
  intros sch a b (A1 & A2 & A3 & A4 & A5 & A7 & A6) k. unfold kview. rewrite <- A1.
  destruct k as [|x]; simpl.
  - rewrite A4, A2. reflexivity.
  - rewrite A3. destruct (attr_uniq sch (o_ent a) x) eqn:U; simpl; auto. rewrite A6 by assumption. reflexivity.
Qed.

Lemma kframe_refl : forall sch s, kframe sch s s.
Proof. intros. repeat split; auto. intros o a H. exists a. split; auto. apply kobj_eq_refl. Qed.

Lemma kframe_trans : forall sch s1 s2 s3, kframe sch s1 s2 -> kframe sch s2 s3 -> kframe sch s1 s3.
Proof.
  intros sch s1 s2 s3 (A1 & A2 & A3 & A4) (B1 & B2 & B3 & B4). repeat split; try congruence.
  intros o a H. destruct (A4 o a H) as (b & Hb & E1). destruct (B4 o b Hb) as (c & Hc & E2).
  exists c. split; auto. eapply kobj_eq_trans; eauto.
Qed.

Lemma get_obj_None_len : forall s s' o, length (s_objs s') = length (s_objs s) -> get_obj s o = None -> get_obj s' o = None.
Proof.
  intros. apply get_obj_ge. rewrite H. unfold get_obj in H0. apply nth_error_None. assumption.
Qed.

Lemma kframe_back : forall sch s s' o b, kframe sch s s' -> get_obj s' o = Some b -> exists a, get_obj s o = Some a /\ kobj_eq sch a b.
Proof.
  intros sch s s' o b (A1 & A2 & A3 & A4) H. destruct (get_obj s o) as [a|] eqn:E.
  - destruct (A4 o a E) as (b' & Hb & K). exists a. split; auto. congruence.
  - rewrite (get_obj_None_len s s' o A3 E) in H. discriminate.
Qed.

Lemma kframe_Inv : forall sch s s', kframe sch s s' -> Inv_idx sch s -> Inv_idx sch s'.
Proof.
  intros sch s s' F I e k v o. pose proof F as (A1 & A2 & A3 & A4).
  unfold idx_get. rewrite A1. fold (idx_get s e k v). rewrite (I e k v o). split.
  - intros (a & Ha & He & Hk). destruct (A4 o a Ha) as (b & Hb & K). exists b. repeat split; auto.
    + destruct K as (K1 & _). congruence.
    + rewrite <- (kobj_eq_kview sch a b K). assumption.
  - intros (b & Hb & He & Hk). destruct (kframe_back sch s s' o b F Hb) as (a & Ha & K). exists a. repeat split; auto.
    + destruct K as (K1 & _). congruence.
    + rewrite (kobj_eq_kview sch a b K). assumption.
Qed.

Lemma kframe_shape : forall sch s s', kframe sch s s' -> Inv_shape sch s -> Inv_shape sch s'.
Proof.
  intros sch s s' F I o b Hb. destruct (kframe_back sch s s' o b F Hb) as (a & Ha & K).
  destruct K as (K1 & _ & _ & _ & _ & K6 & _). rewrite <- K6, <- K1. apply (I o a Ha).
Qed.

Lemma kframe_Pk : forall sch s s', kframe sch s s' -> Pk sch s -> Pk sch s'.
Proof.
  intros sch s s' F [D|[I S]]. left. destruct F as (_ & A2 & _). congruence.
  right. split. eapply kframe_Inv; eauto. eapply kframe_shape; eauto.
Qed.

(* only fields other than objects / indexes / dirty change *)
Lemma kframe_fields : forall sch s s', s_objs s' = s_objs s -> s_idx s' = s_idx s -> s_dirty s' = s_dirty s -> kframe sch s s'.
Proof.
  intros sch s s' H1 H2 H3. repeat split; auto. congruence.
  intros o a H. exists a. split. unfold get_obj in *. congruence. apply kobj_eq_refl.
Qed.

Lemma kframe_upd_obj : forall sch s o f,
  (forall ob, get_obj s o = Some ob -> kobj_eq sch ob (f ob)) -> kframe sch s (upd_obj s o f).
Proof.
  intros sch s o f H. repeat split.
  - apply upd_obj_idx.
  - apply upd_obj_dirty.
  - apply upd_obj_length.
  - intros o' a Ha. rewrite get_upd_obj. destruct (Nat.eqb o o') eqn:E.
    + apply Nat.eqb_eq in E. subst. rewrite Ha. simpl. exists (f a). split; auto.
    + exists a. split; auto. apply kobj_eq_refl.
Qed.

Lemma Pk_dirty : forall sch s site, site <> O -> Pk sch (mark_dirty s site).
Proof. intros. left. unfold mark_dirty. cbn [s_dirty]. destruct (s_dirty s); auto. Qed.

Lemma Pk_dirty_keep : forall sch s site, Pk sch s -> Pk sch (mark_dirty s site).
Proof.
  intros sch s site [D|I].
  - left. unfold mark_dirty. cbn [s_dirty]. destruct (s_dirty s); congruence.
  - destruct site. right. exact I. left. unfold mark_dirty. cbn [s_dirty]. destruct (s_dirty s); auto.
Qed.

(* ---------------------------------------------------------------- key-neutral functions *)

Ltac kf_fields := apply kframe_fields; reflexivity.

Lemma kframe_put_obj : forall sch s o ob ob', get_obj s o = Some ob -> kobj_eq sch ob ob' -> kframe sch s (put_obj s o ob').
Proof.
  intros sch s o ob ob' G K. repeat split.
  - unfold put_obj, set_objs. cbn [s_objs]. apply upd_nth_length.
  - intros o' a Ha. rewrite get_put_obj. destruct (Nat.eqb o o') eqn:E.
    + apply Nat.eqb_eq in E. subst. rewrite Ha. exists ob'. split; auto. congruence.
    + exists a. split; auto. apply kobj_eq_refl.
Qed.

Lemma kobj_eq_pos : forall sch ob x, kobj_eq sch ob (ob_set_pos ob x). Proof. intros. unfold kobj_eq. repeat split; auto. Qed.
Lemma kobj_eq_wbit : forall sch ob a b, kobj_eq sch ob (ob_put_wbit ob a b). Proof. intros. unfold kobj_eq. repeat split; auto. Qed.
Lemma kobj_eq_set : forall sch ob a x, kobj_eq sch ob (ob_put_set ob a x). Proof. intros. unfold kobj_eq. repeat split; auto. Qed.
Lemma kobj_eq_dbval : forall sch ob a x, kobj_eq sch ob (ob_put_dbval ob a x). Proof. intros. unfold kobj_eq. repeat split; auto. Qed.
Lemma kobj_eq_seed : forall sch ob x, kobj_eq sch ob (ob_set_seed ob x). Proof. intros. unfold kobj_eq. repeat split; auto. Qed.

Lemma oval_put_other : forall ob a v x, a <> x -> oval (ob_put_val ob a v) x = oval ob x.
Proof. intros. unfold oval, ob_put_val, ob_set_vals. cbn [o_vals]. apply nth_upd_nth_other. assumption. Qed.

Lemma kobj_eq_val : forall sch ob a v, attr_uniq sch (o_ent ob) a = false -> kobj_eq sch ob (ob_put_val ob a v).
Proof.
  intros sch ob a v U. unfold kobj_eq. repeat split; auto.
  - unfold ob_put_val, ob_set_vals. cbn [o_vals]. symmetry. apply upd_nth_length.
  - intros x Hx. destruct (Nat.eq_dec a x). subst. congruence. symmetry. apply oval_put_other. assumption.
Qed.

Lemma kobj_eq_st : forall sch ob st, is_del (o_st ob) = is_del st -> is_gone (o_st ob) = is_gone st ->
  status_eqb (o_st ob) SCreated = status_eqb st SCreated -> kobj_eq sch ob (ob_set_st ob st).
Proof. intros. unfold kobj_eq. repeat split; auto. Qed.

Lemma kframe_queue : forall sch s o, kframe sch s (queue s o).
Proof.
  intros. unfold queue. eapply kframe_trans. apply (kframe_upd_obj sch s o (fun ob => ob_set_pos ob (Some (length (s_tosave s))))).
  intros. apply kobj_eq_pos. kf_fields.
Qed.

Lemma kframe_unqueue : forall sch s p, kframe sch s (unqueue_slot s p).
Proof. intros. unfold unqueue_slot. destruct p. kf_fields. apply kframe_refl. Qed.

Lemma obj_st_get : forall s o ob, get_obj s o = Some ob -> obj_st s o = o_st ob.
Proof. intros. unfold obj_st. rewrite H. reflexivity. Qed.

Lemma kframe_mark_written : forall sch s o a, is_del (obj_st s o) = false -> kframe sch s (mark_written s o a).
Proof.
  intros sch s o a D. unfold mark_written. destruct (get_obj s o) as [ob|] eqn:G; [|apply kframe_refl].
  rewrite (obj_st_get s o ob G) in D.
  destruct (status_eqb (o_st ob) SCreated) eqn:C; [apply kframe_refl|].
  assert (F1 : kframe sch s (put_obj s o (ob_put_wbit ob a true))) by (eapply kframe_put_obj; eauto; apply kobj_eq_wbit).
  destruct (status_eqb (o_st ob) SModified) eqn:M; auto.
  eapply kframe_trans. apply F1. eapply kframe_trans; [|apply kframe_queue].
  apply kframe_upd_obj. intros ob1 G1. rewrite get_put_obj in G1. rewrite Nat.eqb_refl, G in G1. inversion G1; subst.
  apply kobj_eq_st; cbn [o_st ob_put_wbit ob_set_wbits].
  - rewrite D. reflexivity.
  - destruct (o_st ob); simpl in *; congruence.
  - rewrite C. reflexivity.
Qed.

Lemma kframe_modcoll_add : forall sch s o a, kframe sch s (modcoll_add s o a).
Proof. intros. unfold modcoll_add. destruct (existsb _ _). apply kframe_refl. kf_fields. Qed.

Lemma kframe_rev_add : forall sch s w a i, kframe sch s (rev_add s w a i).
Proof.
  intros. unfold rev_add. eapply kframe_trans; [|apply kframe_modcoll_add].
  apply kframe_upd_obj. intros. apply kobj_eq_set.
Qed.

Lemma kframe_rev_remove : forall sch s w a i, kframe sch s (rev_remove s w a i).
Proof.
  intros. unfold rev_remove. eapply kframe_trans; [|apply kframe_modcoll_add].
  apply kframe_upd_obj. intros. destruct (oset ob a). apply kobj_eq_set. apply kobj_eq_refl.
Qed.

Lemma kframe_db_rev_add : forall sch s w a i, kframe sch s (out_state (db_rev_add s w a i)).
Proof.
  intros. unfold db_rev_add. destruct (get_obj s w) as [ob|] eqn:G; [|apply kframe_refl].
  destruct (oset ob a) as [sd|].
  - destruct (sd_full sd). apply kframe_refl. simpl. eapply kframe_put_obj; eauto. apply kobj_eq_set.
  - simpl. eapply kframe_put_obj; eauto. apply kobj_eq_set.
Qed.

Lemma kframe_db_rev_remove : forall sch s w a i, kframe sch s (db_rev_remove s w a i).
Proof.
  intros. unfold db_rev_remove. apply kframe_upd_obj. intros. destruct (oset ob a). apply kobj_eq_set. apply kobj_eq_refl.
Qed.

Lemma kframe_sd_add_item : forall sch s o a i, kframe sch s (sd_add_item s o a i).
Proof. intros. unfold sd_add_item. apply kframe_upd_obj. intros. destruct (oset ob a); apply kobj_eq_set. Qed.

Lemma kframe_put_sd : forall sch s o a sd, kframe sch s (put_sd s o a sd).
Proof. intros. unfold put_sd. apply kframe_upd_obj. intros. apply kobj_eq_set. Qed.

Lemma kframe_coll_ensure : forall sch s o a, kframe sch s (coll_ensure s o a).
Proof. intros. unfold coll_ensure. apply kframe_upd_obj. intros. destruct (oset ob a). apply kobj_eq_refl. apply kobj_eq_set. Qed.

Lemma kframe_coll_mark_full : forall sch s o a, kframe sch s (coll_mark_full s o a).
Proof. intros. unfold coll_mark_full. apply kframe_upd_obj. intros. apply kobj_eq_set. Qed.

Lemma kframe_fold : forall sch A (f : sess -> A -> sess) l s,
  (forall s x, kframe sch s (f s x)) -> kframe sch s (fold_left f l s).
Proof.
  intros sch A f l. induction l; intros s H; simpl. apply kframe_refl.
  eapply kframe_trans. apply H. apply IHl. assumption.
Qed.

Lemma kframe_calc_modcoll : forall sch s, kframe sch s (calc_modcoll s).
Proof.
  intros. unfold calc_modcoll. eapply kframe_trans; [|kf_fields].
  apply kframe_fold. intros s0 x. apply kframe_upd_obj. intros. destruct (oset ob (snd x)). apply kobj_eq_set. apply kobj_eq_refl.
Qed.

Lemma kframe_note_order : forall sch A s (l : list A), kframe sch s (note_order s l).
Proof. intros. unfold note_order. destruct l as [|? [|? ?]]; try apply kframe_refl. kf_fields. Qed.

Lemma kframe_is_del : forall sch s s' o, kframe sch s s' -> is_del (obj_st s' o) = is_del (obj_st s o).
Proof.
  intros sch s s' o F. unfold obj_st. destruct (get_obj s o) as [a|] eqn:G.
  - destruct F as (_ & _ & _ & F). destruct (F o a G) as (b & Hb & K). rewrite Hb. destruct K as (_ & _ & K & _). congruence.
  - destruct F as (_ & _ & L & _). rewrite (get_obj_None_len s s' o L G). reflexivity.
Qed.

Lemma kframe_obj_ent : forall sch s s' o, kframe sch s s' -> obj_ent s' o = obj_ent s o.
Proof.
  intros sch s s' o F. unfold obj_ent. destruct (get_obj s o) as [a|] eqn:G.
  - destruct F as (_ & _ & _ & F). destruct (F o a G) as (b & Hb & K). rewrite Hb. destruct K as (K & _). congruence.
  - destruct F as (_ & _ & L & _). rewrite (get_obj_None_len s s' o L G). reflexivity.
Qed.

Section WithSchema.
Variable sch : schema.
Hypothesis WF : wf_schema sch = true.

Lemma obj_ent_get : forall s o ob, get_obj s o = Some ob -> obj_ent s o = o_ent ob.
Proof. intros. unfold obj_ent. rewrite H. reflexivity. Qed.

Lemma kframe_put_ref_val : forall s o a p v, ref_info sch (obj_ent s o) a = Some p ->
  kframe sch s (upd_obj s o (fun ob => ob_put_val ob a v)).
Proof.
  intros. apply kframe_upd_obj. intros ob G. apply kobj_eq_val.
  rewrite <- (obj_ent_get s o ob G). eapply wf_ref_not_uniq; eauto.
Qed.

Lemma kframe_ref_set_rev : forall s item a v, is_del (obj_st s item) = false -> kframe sch s (ref_set_rev sch s item a v).
Proof.
  intros s item a v D. unfold ref_set_rev. destruct (ref_info sch (obj_ent s item) a) as [[t r]|] eqn:R; [|apply kframe_refl].
  pose proof (kframe_mark_written sch s item a D) as F1.
  destruct (oval_eqb (obj_val s item a) (Some v)); auto.
  assert (F2 : kframe sch s (upd_obj (mark_written s item a) item (fun ob => ob_put_val ob a (Some v)))).
  { eapply kframe_trans. apply F1. eapply kframe_put_ref_val. rewrite (kframe_obj_ent sch s _ item F1). eauto. }
  destruct (obj_val s item a) as [[| | |x]|]; auto.
  eapply kframe_trans. apply F2. apply kframe_rev_remove.
Qed.

Lemma kframe_ref_set_direct : forall s o a v, is_del (obj_st s o) = false -> kframe sch s (ref_set_direct sch s o a v).
Proof.
  intros s o a v D. unfold ref_set_direct. destruct (ref_info sch (obj_ent s o) a) as [[t r]|] eqn:R; [|apply kframe_refl].
  match goal with |- context [if ?c then _ else _] => destruct c end. apply kframe_refl.
  pose proof (kframe_mark_written sch s o a D) as F1.
  destruct (oval_eqb (obj_val s o a) (Some v)); auto.
  assert (F2 : kframe sch s (upd_obj (mark_written s o a) o (fun ob => ob_put_val ob a (Some v)))).
  { eapply kframe_trans. apply F1. eapply kframe_put_ref_val. rewrite (kframe_obj_ent sch s _ o F1). eauto. }
  set (s3 := match obj_val s o a with Some (VRef x) => rev_remove _ x r o | _ => _ end).
  assert (F3 : kframe sch s s3).
  { unfold s3. destruct (obj_val s o a) as [[| | |x]|]; auto. eapply kframe_trans. apply F2. apply kframe_rev_remove. }
  destruct v; auto. eapply kframe_trans. apply F3. apply kframe_rev_add.
Qed.

Lemma kframe_item_link : forall s o a r item, is_del (obj_st s item) = false -> kframe sch s (item_link sch s o a r item).
Proof.
  intros. unfold item_link. destruct (ref_info sch (obj_ent s item) r) as [[t a']|]; [|apply kframe_refl].
  destruct (get_obj s o) as [obo|]; [|apply kframe_refl].
  destruct (Nat.eqb a' a && Nat.eqb t (o_ent obo)); [|apply kframe_refl].
  eapply kframe_trans; [|apply kframe_sd_add_item]. apply kframe_ref_set_rev. assumption.
Qed.

(* folds over items that are all alive *)
Lemma kframe_fold_items : forall (f : sess -> oid -> sess) l s,
  (forall s i, is_del (obj_st s i) = false -> kframe sch s (f s i)) ->
  any_del s l = false -> kframe sch s (fold_left f l s).
Proof.
  intros f l. induction l as [|i l IH]; intros s H D; simpl. apply kframe_refl.
  unfold any_del in D. simpl in D. apply orb_false_iff in D. destruct D as [D1 D2].
  pose proof (H s i D1) as F. eapply kframe_trans. apply F. apply IH; auto.
  unfold any_del. rewrite <- D2. apply existsb_ext_eq. intros x. apply (kframe_is_del sch s (f s i) x F).
Qed.

End WithSchema.

(* ---------------------------------------------------------------- re-keying one object *)

Lemma oval_dec : forall a b : option val, {a = b} + {a <> b}.
Proof.
  intros. destruct (oval_eqb a b) eqn:E. left. apply oval_eqb_eq. assumption.
  right. intro H. apply oval_eqb_eq in H. congruence.
Qed.

(* The object o changes from ob to ob' (same entity); the index is updated accordingly: entries for the new key views of o
   are added, entries for its old key views are dropped, everything else stays; and the new views do not collide. *)
Lemma Inv_rekey : forall sch s s' o ob ob',
  Inv_idx sch s ->
  get_obj s o = Some ob -> get_obj s' o = Some ob' -> o_ent ob' = o_ent ob ->
  (forall o', o' <> o -> get_obj s' o' = get_obj s o') ->
  (forall e k v, idx_get s' e k v =
     if Nat.eqb e (o_ent ob) && oval_eqb (kview sch ob' k) (Some v) then Some o
     else if Nat.eqb e (o_ent ob) && oval_eqb (kview sch ob k) (Some v) then None
     else idx_get s e k v) ->
  (forall k v, kview sch ob' k = Some v -> kview sch ob k <> Some v -> idx_get s (o_ent ob) k v = None) ->
  Inv_idx sch s'.
Proof.
  intros sch s s' o ob ob' I G G' E OTH IDX NC e k v o'. rewrite IDX.
  destruct (Nat.eqb e (o_ent ob) && oval_eqb (kview sch ob' k) (Some v)) eqn:C1.
  - apply andb_true_iff in C1. destruct C1 as [C1 C2]. apply Nat.eqb_eq in C1. apply oval_eqb_eq in C2. subst e. split.
    + intro H. inversion H; subst o'. exists ob'. repeat split; auto.
    + intros (b & Hb & He & Hk). destruct (Nat.eq_dec o' o) as [->|N]; auto.
      exfalso. rewrite (OTH o' N) in Hb.
      assert (HI : idx_get s (o_ent ob) k v = Some o') by (apply (I (o_ent ob) k v o'); exists b; auto).
      destruct (oval_dec (kview sch ob k) (Some v)) as [Q|Q].
      * assert (HI2 : idx_get s (o_ent ob) k v = Some o) by (apply (I (o_ent ob) k v o); exists ob; auto). congruence.
      * rewrite (NC k v C2 Q) in HI. discriminate.
  - destruct (Nat.eqb e (o_ent ob) && oval_eqb (kview sch ob k) (Some v)) eqn:C2.
    + apply andb_true_iff in C2. destruct C2 as [C2 C3]. apply Nat.eqb_eq in C2. apply oval_eqb_eq in C3. subst e. split.
      * discriminate.
      * intros (b & Hb & He & Hk). exfalso. destruct (Nat.eq_dec o' o) as [->|N].
        -- rewrite G' in Hb. inversion Hb; subst b. rewrite Nat.eqb_refl in C1. simpl in C1.
           assert (oval_eqb (kview sch ob' k) (Some v) = true) by (apply oval_eqb_eq; assumption). congruence.
        -- rewrite (OTH o' N) in Hb.
           assert (HI : idx_get s (o_ent ob) k v = Some o') by (apply (I (o_ent ob) k v o'); exists b; auto).
           assert (HI2 : idx_get s (o_ent ob) k v = Some o) by (apply (I (o_ent ob) k v o); exists ob; auto). congruence.
    + rewrite (I e k v o'). split.
      * intros (b & Hb & He & Hk). destruct (Nat.eq_dec o' o) as [->|N].
        -- exfalso. rewrite G in Hb. inversion Hb; subst b. subst e. rewrite Nat.eqb_refl in C2. simpl in C2.
           assert (oval_eqb (kview sch ob k) (Some v) = true) by (apply oval_eqb_eq; assumption). congruence.
        -- exists b. rewrite (OTH o' N). auto.
      * intros (b & Hb & He & Hk). destruct (Nat.eq_dec o' o) as [->|N].
        -- exfalso. rewrite G' in Hb. inversion Hb; subst b. rewrite E in He. subst e. rewrite Nat.eqb_refl in C1. simpl in C1.
           assert (oval_eqb (kview sch ob' k) (Some v) = true) by (apply oval_eqb_eq; assumption). congruence.
        -- exists b. rewrite <- (OTH o' N). auto.
Qed.

(* a new object is appended; the index receives exactly its key views, which were free *)
Lemma Inv_push : forall sch s s' ob,
  Inv_idx sch s ->
  (forall o', get_obj s' o' = if Nat.eqb o' (length (s_objs s)) then Some ob else get_obj s o') ->
  (forall e k v, idx_get s' e k v =
     if Nat.eqb e (o_ent ob) && oval_eqb (kview sch ob k) (Some v) then Some (length (s_objs s)) else idx_get s e k v) ->
  (forall k v, kview sch ob k = Some v -> idx_get s (o_ent ob) k v = None) ->
  Inv_idx sch s'.
Proof.
  intros sch s s' ob I G IDX NC e k v o'. rewrite IDX. rewrite G.
  destruct (Nat.eqb e (o_ent ob) && oval_eqb (kview sch ob k) (Some v)) eqn:C1.
  - apply andb_true_iff in C1. destruct C1 as [C1 C2]. apply Nat.eqb_eq in C1. apply oval_eqb_eq in C2. subst e. split.
    + intro H. inversion H; subst o'. rewrite Nat.eqb_refl. exists ob. auto.
    + intros (b & Hb & He & Hk). destruct (Nat.eqb o' (length (s_objs s))) eqn:N.
      * apply Nat.eqb_eq in N. subst o'. reflexivity.
      * exfalso. assert (HI : idx_get s (o_ent ob) k v = Some o') by (apply (I (o_ent ob) k v o'); exists b; auto).
        rewrite (NC k v C2) in HI. discriminate.
  - destruct (Nat.eqb o' (length (s_objs s))) eqn:N.
    + apply Nat.eqb_eq in N. subst o'. split.
      * intro H. apply (I e k v) in H. destruct H as (b & Hb & _). apply get_obj_lt in Hb. lia.
      * intros (b & Hb & He & Hk). exfalso. inversion Hb; subst b. subst e. rewrite Nat.eqb_refl in C1. simpl in C1.
        assert (oval_eqb (kview sch ob k) (Some v) = true) by (apply oval_eqb_eq; assumption). congruence.
    + apply (I e k v o').
Qed.

Lemma Inv_rekey_slot : forall sch s s' o ob ob' k0,
  Inv_idx sch s ->
  get_obj s o = Some ob -> get_obj s' o = Some ob' -> o_ent ob' = o_ent ob ->
  (forall o', o' <> o -> get_obj s' o' = get_obj s o') ->
  (forall k, k <> k0 -> kview sch ob' k = kview sch ob k) ->
  (forall e k v, idx_get s' e k v =
     if Nat.eqb e (o_ent ob) && Nat.eqb k k0 && oval_eqb (kview sch ob' k0) (Some v) then Some o
     else if Nat.eqb e (o_ent ob) && Nat.eqb k k0 && oval_eqb (kview sch ob k0) (Some v) then None
     else idx_get s e k v) ->
  (forall v, kview sch ob' k0 = Some v -> kview sch ob k0 <> Some v -> idx_get s (o_ent ob) k0 v = None) ->
  Inv_idx sch s'.
Proof.
  intros sch s s' o ob ob' k0 I G G' E OTH SAME IDX NC.
  eapply Inv_rekey; eauto.
  - intros e k v. rewrite IDX. destruct (Nat.eqb e (o_ent ob)) eqn:Ee; simpl; auto.
    destruct (Nat.eqb k k0) eqn:Ek; simpl.
    + apply Nat.eqb_eq in Ek. subst k. reflexivity.
    + apply Nat.eqb_neq in Ek. rewrite (SAME k Ek).
      destruct (oval_eqb (kview sch ob k) (Some v)) eqn:Q; auto.
      apply oval_eqb_eq in Q. apply Nat.eqb_eq in Ee. subst e. apply (I (o_ent ob) k v o). exists ob. auto.
  - intros k v H1 H2. destruct (Nat.eq_dec k k0) as [->|N]. auto. rewrite (SAME k N) in H1. contradiction.
Qed.

Lemma idx_put_char : forall s e k v o e' k' v',
  idx_get (idx_put s e k v o) e' k' v' = if Nat.eqb e' e && Nat.eqb k' k && val_eqb v' v then Some o else idx_get s e' k' v'.
Proof.
  intros. destruct (Nat.eqb e' e && Nat.eqb k' k && val_eqb v' v) eqn:C.
  - apply andb_true_iff in C. destruct C as [C C3]. apply andb_true_iff in C. destruct C as [C1 C2].
    apply Nat.eqb_eq in C1, C2. apply val_eqb_eq in C3. subst. apply idx_get_put_same.
  - apply idx_get_put_other. intro H. inversion H; subst. rewrite !Nat.eqb_refl, val_eqb_refl in C. discriminate.
Qed.

Lemma idx_del_char : forall s e k v e' k' v',
  idx_get (idx_del s e k v) e' k' v' = if Nat.eqb e' e && Nat.eqb k' k && val_eqb v' v then None else idx_get s e' k' v'.
Proof.
  intros. destruct (Nat.eqb e' e && Nat.eqb k' k && val_eqb v' v) eqn:C.
  - apply andb_true_iff in C. destruct C as [C C3]. apply andb_true_iff in C. destruct C as [C1 C2].
    apply Nat.eqb_eq in C1, C2. apply val_eqb_eq in C3. subst. apply idx_get_del_same.
  - apply idx_get_del_other. intro H. inversion H; subst. rewrite !Nat.eqb_refl, val_eqb_refl in C. discriminate.
Qed.

Lemma nth_repeat : forall A (x : A) n i d, nth i (repeat x n) d = x \/ nth i (repeat x n) d = d.
Proof. induction n; destruct i; simpl; auto. Qed.

Lemma nth_repeat_same : forall A (x : A) n i, nth i (repeat x n) x = x.
Proof. intros. destruct (nth_repeat A x n i x); auto. Qed.

Lemma kview_new_loaded : forall sch e pk k, kview sch (new_loaded sch e pk) k = match k with O => Some (VInt pk) | S _ => None end.
Proof.
  intros. unfold kview, new_loaded. cbn [o_ent o_st o_pk]. destruct k; simpl. reflexivity.
  unfold oval. cbn [o_vals]. rewrite nth_repeat_same. destruct (attr_uniq sch e k); reflexivity.
Qed.

Lemma get_or_seed_dirty : forall sch s e pk, s_dirty (fst (get_or_seed sch s e pk)) = s_dirty s.
Proof. intros. unfold get_or_seed. destruct (idx_get s e O (VInt pk)); reflexivity. Qed.

Lemma get_or_seed_none : forall sch s e pk, idx_get s e O (VInt pk) = None ->
  get_or_seed sch s e pk = (idx_put (fst (push_obj s (new_loaded sch e pk))) e O (VInt pk) (length (s_objs s)), length (s_objs s)).
Proof. intros. unfold get_or_seed. rewrite H. reflexivity. Qed.

Lemma get_obj_idx_put : forall s e k v o o', get_obj (idx_put s e k v o) o' = get_obj s o'. Proof. reflexivity. Qed.
Lemma get_obj_idx_del : forall s e k v o', get_obj (idx_del s e k v) o' = get_obj s o'. Proof. reflexivity. Qed.
Lemma idx_get_push : forall s ob e k v, idx_get (fst (push_obj s ob)) e k v = idx_get s e k v. Proof. reflexivity. Qed.
Lemma idx_get_upd_obj : forall s o f e k v, idx_get (upd_obj s o f) e k v = idx_get s e k v.
Proof. intros. unfold idx_get. rewrite upd_obj_idx. reflexivity. Qed.

Lemma Pk_get_or_seed : forall sch s e pk, Pk sch s -> Pk sch (fst (get_or_seed sch s e pk)).
Proof.
  intros sch s e pk [D|[I S]]. left. rewrite get_or_seed_dirty. assumption.
  right. destruct (idx_get s e O (VInt pk)) eqn:G.
  - unfold get_or_seed. rewrite G. auto.
  - rewrite (get_or_seed_none sch s e pk G). cbn [fst]. split.
    + eapply (Inv_push sch s _ (new_loaded sch e pk)); eauto.
      * intros o'. rewrite get_obj_idx_put. apply get_push_obj.
      * intros e' k v. rewrite idx_put_char, idx_get_push.
        rewrite kview_new_loaded. cbn [o_ent new_loaded]. destruct (Nat.eqb e' e); simpl; auto.
        destruct k; simpl; auto. destruct v; simpl; auto. rewrite Z.eqb_sym. reflexivity.
      * intros k v. rewrite kview_new_loaded. cbn [o_ent new_loaded]. destruct k; intro H; inversion H; subst. assumption.
    + intros o' ob'. rewrite get_obj_idx_put, get_push_obj. destruct (Nat.eqb o' (length (s_objs s))).
      * intro H. inversion H; subst. unfold new_loaded. cbn [o_vals o_ent]. apply repeat_length.
      * apply S.
Qed.

(* ---------------------------------------------------------------- entity and status of existing objects are kept *)

Definition est_same (s s' : sess) : Prop := forall o, obj_ent s' o = obj_ent s o /\ obj_st s' o = obj_st s o.

Lemma est_same_refl : forall s, est_same s s. Proof. intros s o. auto. Qed.
Lemma est_same_trans : forall s1 s2 s3, est_same s1 s2 -> est_same s2 s3 -> est_same s1 s3.
Proof. intros s1 s2 s3 A B o. destruct (A o), (B o). split; congruence. Qed.

Lemma est_same_objs : forall s s', s_objs s' = s_objs s -> est_same s s'.
Proof. intros s s' H o. unfold obj_ent, obj_st, get_obj. rewrite H. auto. Qed.

Lemma est_same_upd_obj : forall s o f, (forall ob, o_ent (f ob) = o_ent ob /\ o_st (f ob) = o_st ob) -> est_same s (upd_obj s o f).
Proof.
  intros s o f H o'. unfold obj_ent, obj_st. rewrite get_upd_obj. destruct (Nat.eqb o o'); auto.
  destruct (get_obj s o') as [ob|]; simpl; auto; try apply H.
Qed.

Lemma est_same_put_obj : forall s o ob ob', get_obj s o = Some ob -> o_ent ob' = o_ent ob -> o_st ob' = o_st ob -> est_same s (put_obj s o ob').
Proof.
  intros s o ob ob' G E S o'. unfold obj_ent, obj_st. rewrite get_put_obj. destruct (Nat.eqb o o') eqn:N; auto.
  apply Nat.eqb_eq in N. subst. rewrite G. auto.
Qed.

Lemma est_same_db_rev_add : forall s w a i, est_same s (out_state (db_rev_add s w a i)).
Proof.
  intros. unfold db_rev_add. destruct (get_obj s w) as [ob|] eqn:G; [|apply est_same_refl].
  destruct (oset ob a) as [sd|].
  - destruct (sd_full sd). apply est_same_refl. simpl. eapply est_same_put_obj; eauto.
  - simpl. eapply est_same_put_obj; eauto.
Qed.

Lemma est_same_dbset_index : forall sch s o e a v, est_same s (dbset_index sch s o e a v).
Proof.
  intros. unfold dbset_index. destruct (attr_uniq sch e a && negb (oval_eqb (obj_val s o a) (Some v))); [|apply est_same_refl].
  apply est_same_objs. destruct (is_vnone v); destruct (obj_val s o a) as [ov|]; try destruct (is_vnone ov); reflexivity.
Qed.

Lemma est_same_dbset_attr : forall sch s o e a v, est_same s (out_state (dbset_attr sch s o e a v)).
Proof.
  intros. unfold dbset_attr. destruct (get_obj s o) as [ob|] eqn:G; [|apply est_same_refl].
  destruct (get_attr sch e a) as [at_|]; [|apply est_same_refl].
  destruct (is_set_kind (a_kind at_)); [apply est_same_refl|].
  destruct (odbval ob a) as [old|].
  { destruct (val_eqb old v). apply est_same_refl. simpl. apply est_same_objs. reflexivity. }
  destruct (owbit ob a).
  { destruct (a_kind at_) as [| |t r|t r]; try (simpl; apply est_same_upd_obj; intros; auto).
    destruct v; try (simpl; apply est_same_upd_obj; intros; auto).
    pose proof (est_same_db_rev_add s o0 r o) as E1. destruct (db_rev_add s o0 r o) as [s1 u|s1 er]; simpl in *.
    - eapply est_same_trans. apply E1. eapply est_same_trans; [|apply est_same_objs; reflexivity].
      apply est_same_upd_obj. intros; auto.
    - eapply est_same_trans. apply E1. apply est_same_objs. reflexivity. }
  destruct (oval ob a). { simpl. apply est_same_objs. reflexivity. }
  match goal with |- context [if ?c then _ else _] => destruct c end. { simpl. apply est_same_objs. reflexivity. }
  assert (E1 : est_same s (out_state (match a_kind at_, v with KRef _ r, VRef y => db_rev_add s y r o | _, _ => Ok s tt end))).
  { destruct (a_kind at_); try apply est_same_refl. destruct v; try apply est_same_refl. apply est_same_db_rev_add. }
  destruct (match a_kind at_, v with KRef _ r, VRef y => db_rev_add s y r o | _, _ => Ok s tt end) as [s1 u|s1 er]; simpl in *.
  - eapply est_same_trans. apply E1. eapply est_same_trans. apply est_same_dbset_index. apply est_same_upd_obj. intros; auto.
  - eapply est_same_trans. apply E1. apply est_same_objs. reflexivity.
Qed.

(* ---------------------------------------------------------------- loading: _db_set_ for one attribute *)

Lemma oval_put_same : forall ob a x, (a < length (o_vals ob))%nat -> oval (ob_put_val ob a x) a = x.
Proof. intros. unfold oval, ob_put_val, ob_set_vals. cbn [o_vals]. apply nth_upd_nth_same. assumption. Qed.

Lemma kview_put_val_other : forall sch ob a x k, k <> S a -> kview sch (ob_put_val ob a x) k = kview sch ob k.
Proof.
  intros. unfold kview. cbn [o_ent o_st ob_put_val ob_set_vals]. destruct k as [|b]; auto.
  simpl. assert (b <> a) by congruence. rewrite oval_put_other by auto. reflexivity.
Qed.

Lemma get_attr_lt : forall sch e a at_, get_attr sch e a = Some at_ -> (a < nattrs sch e)%nat.
Proof.
  intros. unfold get_attr, nattrs in *. destruct (nth_error sch e); try discriminate. apply nth_error_Some. congruence.
Qed.

Lemma val_eqb_sym : forall a b, val_eqb a b = val_eqb b a.
Proof.
  intros. destruct (val_eqb a b) eqn:E. apply val_eqb_eq in E. subst. symmetry. apply val_eqb_refl.
  destruct (val_eqb b a) eqn:E2; auto. apply val_eqb_eq in E2. subst. rewrite val_eqb_refl in E. discriminate.
Qed.

Lemma is_vnone_false : forall v, is_vnone v = false -> v <> VNone.
Proof. intros. intro. subst. discriminate. Qed.

(* setting the value of an attribute that was not loaded; the index gets the new value if the attribute is a key *)
Lemma Inv_load_val : forall sch s o ob a v (f : obj -> obj),
  Inv_idx sch s -> Inv_shape sch s ->
  get_obj s o = Some ob -> is_del (o_st ob) = false -> oval ob a = None -> (a < nattrs sch (o_ent ob))%nat ->
  (forall ob2, o_ent (f ob2) = o_ent ob2 /\ o_st (f ob2) = o_st ob2 /\ o_pk (f ob2) = o_pk ob2 /\ o_vals (f ob2) = upd_nth (o_vals ob2) a (Some v)) ->
  (attr_uniq sch (o_ent ob) a = true -> is_vnone v = false -> idx_get s (o_ent ob) (S a) v = None) ->
  let s1 := if attr_uniq sch (o_ent ob) a && negb (is_vnone v) then idx_put s (o_ent ob) (S a) v o else s in
  Inv_idx sch (upd_obj s1 o f) /\ Inv_shape sch (upd_obj s1 o f).
Proof.
  intros sch s o ob a v f I SH G D UL LT F NC s1.
  assert (G1 : get_obj s1 o = Some ob) by (unfold s1; destruct (attr_uniq sch (o_ent ob) a && negb (is_vnone v)); auto).
  destruct (F ob) as (F1 & F2 & F3 & F4).
  assert (KO : forall k, k <> S a -> kview sch (f ob) k = kview sch ob k).
  { intros k N. unfold kview. rewrite F1, F2. destruct k as [|b]; simpl.
    - rewrite F3. reflexivity.
    - unfold oval. rewrite F4. rewrite nth_upd_nth_other by congruence. reflexivity. }
  assert (KN : kview sch (f ob) (S a) = if attr_uniq sch (o_ent ob) a && negb (is_vnone v) then Some v else None).
  { unfold kview. rewrite F1, F2. simpl. rewrite D. simpl. unfold oval. rewrite F4.
    rewrite nth_upd_nth_same by (rewrite (SH o ob G); assumption).
    destruct (attr_uniq sch (o_ent ob) a); simpl; auto. destruct (is_vnone v); auto. }
  assert (KOld : kview sch ob (S a) = None).
  { unfold kview. simpl. rewrite UL. destruct (attr_uniq sch (o_ent ob) a && negb (is_del (o_st ob))); auto. }
  split.
  - eapply (Inv_rekey_slot sch s (upd_obj s1 o f) o ob (f ob) (S a)); eauto.
    + rewrite get_upd_obj_same, G1. reflexivity.
    + intros o' N. rewrite get_upd_obj_other by auto. unfold s1. destruct (attr_uniq sch (o_ent ob) a && negb (is_vnone v)); auto.
    + intros e k v'. rewrite idx_get_upd_obj. rewrite KN, KOld. unfold s1.
      destruct (attr_uniq sch (o_ent ob) a && negb (is_vnone v)) eqn:C.
      * rewrite idx_put_char. simpl. rewrite (val_eqb_sym v' v). rewrite andb_false_r. reflexivity.
      * simpl. rewrite !andb_false_r. reflexivity.
    + intros v' H1 H2. rewrite KN in H1. destruct (attr_uniq sch (o_ent ob) a && negb (is_vnone v)) eqn:C; try discriminate.
      inversion H1; subst v'. apply andb_true_iff in C. destruct C as [C1 C2]. apply negb_true_iff in C2. auto.
  - intros o' ob'. rewrite get_upd_obj. destruct (Nat.eqb o o') eqn:N.
    + apply Nat.eqb_eq in N. subst o'. rewrite G1. simpl. intro H. inversion H; subst ob'.
      rewrite F4, upd_nth_length, F1. apply (SH o ob G).
    + intro H. apply (SH o' ob'). rewrite <- H. unfold s1. destruct (attr_uniq sch (o_ent ob) a && negb (is_vnone v)); auto.
Qed.

Lemma dbset_index_unloaded : forall sch s o e a v, obj_val s o a = None ->
  dbset_index sch s o e a v = if attr_uniq sch e a && negb (is_vnone v) then idx_put s e (S a) v o else s.
Proof.
  intros. unfold dbset_index. rewrite H. simpl. rewrite andb_true_r.
  destruct (attr_uniq sch e a); simpl; auto. destruct (is_vnone v); reflexivity.
Qed.

Lemma obj_val_get : forall s o ob a, get_obj s o = Some ob -> obj_val s o a = oval ob a.
Proof. intros. unfold obj_val. rewrite H. reflexivity. Qed.

Lemma dbset_index_dirty : forall sch s o e a v, s_dirty (dbset_index sch s o e a v) = s_dirty s.
Proof.
  intros. unfold dbset_index. destruct (attr_uniq sch e a && negb (oval_eqb (obj_val s o a) (Some v))); auto.
  destruct (is_vnone v); destruct (obj_val s o a) as [ov|]; try destruct (is_vnone ov); reflexivity.
Qed.

Lemma Pk_dbset_attr : forall sch s o e a v,
  Pk sch s -> obj_ent s o = e -> is_del (obj_st s o) = false ->
  Pk sch (out_state (dbset_attr sch s o e a v)).
Proof.
  intros sch s o e a v P EE DD. unfold dbset_attr.
  destruct (get_obj s o) as [ob|] eqn:G; [|exact P].
  destruct (get_attr sch e a) as [at_|] eqn:GA; [|exact P].
  destruct (is_set_kind (a_kind at_)); [exact P|].
  destruct (odbval ob a) as [old|].
  { destruct (val_eqb old v). exact P. simpl. apply Pk_dirty. discriminate. }
  destruct (owbit ob a).
  { assert (Q : Pk sch (upd_obj s o (fun ob2 => ob_put_dbval ob2 a (Some v)))).
    { eapply kframe_Pk; eauto. apply kframe_upd_obj. intros. apply kobj_eq_dbval. }
    destruct (a_kind at_) as [| |t r|t r]; try exact Q.
    destruct v; try exact Q.
    destruct (db_rev_add s o0 r o); simpl; apply Pk_dirty; discriminate. }
  destruct (oval ob a) eqn:OV. { simpl. apply Pk_dirty. discriminate. }
  match goal with |- context [if ?c then _ else _] => destruct c eqn:CF end. { simpl. apply Pk_dirty. discriminate. }
  set (r1 := match a_kind at_, v with KRef _ r, VRef y => db_rev_add s y r o | _, _ => Ok s tt end).
  assert (F1 : kframe sch s (out_state r1)).
  { unfold r1. destruct (a_kind at_); try apply kframe_refl. destruct v; try apply kframe_refl. apply kframe_db_rev_add. }
  destruct r1 as [s1 u|s1 er] eqn:R1; simpl in F1 |- *; [|apply Pk_dirty; discriminate].
  destruct P as [D|[I SH]].
  { left. rewrite upd_obj_dirty, dbset_index_dirty. destruct F1 as (_ & F1 & _). congruence. }
  right.
  pose proof (kframe_Inv sch s s1 F1 I) as I1. pose proof (kframe_shape sch s s1 F1 SH) as SH1.
  pose proof F1 as (FI & _ & _ & F2). destruct (F2 o ob G) as (ob1 & G1 & K).
  destruct K as (K1 & K2 & K3 & K4 & K5 & K6 & K7).
  assert (E1 : o_ent ob = e) by (rewrite <- EE; symmetry; apply obj_ent_get; assumption).
  assert (D1 : is_del (o_st ob1) = false) by (rewrite <- K3; rewrite <- (obj_st_get s o ob G); assumption).
  assert (FF : forall ob2 : obj,
     o_ent (ob_put_val (ob_put_dbval ob2 a (Some v)) a (Some v)) = o_ent ob2 /\
     o_st (ob_put_val (ob_put_dbval ob2 a (Some v)) a (Some v)) = o_st ob2 /\
     o_pk (ob_put_val (ob_put_dbval ob2 a (Some v)) a (Some v)) = o_pk ob2 /\
     o_vals (ob_put_val (ob_put_dbval ob2 a (Some v)) a (Some v)) = upd_nth (o_vals ob2) a (Some v)).
  { intros. unfold ob_put_val, ob_put_dbval, ob_set_vals, ob_set_dbvals. cbn. auto. }
  destruct (attr_uniq sch e a) eqn:U.
  - assert (UL : oval ob1 a = None) by (rewrite <- K7; [assumption | rewrite E1; assumption]).
    rewrite (dbset_index_unloaded sch s1 o e a v) by (rewrite (obj_val_get s1 o ob1 a G1); assumption).
    rewrite <- E1, K1.
    apply (Inv_load_val sch s1 o ob1 a v); auto.
    + rewrite <- K1, E1. eapply get_attr_lt; eauto.
    + intros U1 NV. rewrite <- K1, E1. rewrite NV in CF. simpl in CF.
      assert (IG : idx_get s1 e (S a) v = idx_get s e (S a) v) by (unfold idx_get; rewrite FI; reflexivity).
      rewrite IG. destruct (idx_get s e (S a) v) as [o2|] eqn:IX; auto.
      apply negb_false_iff in CF. apply Nat.eqb_eq in CF. subst o2.
      exfalso. apply (I e (S a) v o) in IX. destruct IX as (b & Hb & He & Hk). rewrite G in Hb. inversion Hb; subst b.
      unfold kview in Hk. simpl in Hk. rewrite OV in Hk. destruct (attr_uniq sch (o_ent ob) a && negb (is_del (o_st ob))); discriminate.
  - assert (DI : dbset_index sch s1 o e a v = s1) by (unfold dbset_index; rewrite U; reflexivity).
    rewrite DI.
    assert (F3 : kframe sch s1 (upd_obj s1 o (fun ob2 => ob_put_val (ob_put_dbval ob2 a (Some v)) a (Some v)))).
    { apply kframe_upd_obj. intros ob2 G2. rewrite G1 in G2. inversion G2; subst ob2.
      eapply kobj_eq_trans. apply (kobj_eq_dbval sch ob1 a (Some v)).
      apply kobj_eq_val. cbn. rewrite <- K1, E1. assumption. }
    split. eapply kframe_Inv; eauto. eapply kframe_shape; eauto.
Qed.

(* ---------------------------------------------------------------- loading rows *)

Lemma Pk_dbset_loop : forall sch vals s o e a,
  Pk sch s -> obj_ent s o = e -> is_del (obj_st s o) = false ->
  Pk sch (out_state (dbset_loop sch s o e a vals)).
Proof.
  intros sch vals. induction vals as [|v t IH]; intros s o e a P EE DD; simpl. exact P.
  pose proof (Pk_dbset_attr sch s o e a v P EE DD) as P1.
  pose proof (est_same_dbset_attr sch s o e a v o) as [E1 E2].
  destruct (dbset_attr sch s o e a v) as [s1 u|s1 er]; simpl in *; auto.
  apply IH; auto. congruence. rewrite E2. assumption.
Qed.

Lemma Pk_db_set_obj : forall sch s o e vals,
  Pk sch s -> obj_ent s o = e -> is_del (obj_st s o) = false ->
  Pk sch (out_state (db_set_obj sch s o e vals)).
Proof.
  intros. unfold db_set_obj.
  assert (F : kframe sch s (upd_obj s o (fun ob => ob_set_seed ob false))) by (apply kframe_upd_obj; intros; apply kobj_eq_seed).
  apply Pk_dbset_loop.
  - eapply kframe_Pk; eauto.
  - rewrite (kframe_obj_ent sch s _ o F). assumption.
  - rewrite (kframe_is_del sch s _ o F). assumption.
Qed.

Lemma Pk_parse_cols : forall sch cols s e a, Pk sch s -> Pk sch (fst (parse_cols sch s e a cols)).
Proof.
  intros sch cols. induction cols as [|c t IH]; intros s e a P; simpl. exact P.
  destruct (ref_info sch e a) as [[tgt r]|].
  - destruct c; try (specialize (IH s e (S a) P); destruct (parse_cols sch s e (S a) t); exact IH).
    pose proof (Pk_get_or_seed sch s tgt z P) as P1. destruct (get_or_seed sch s tgt z) as [s1 o]. simpl in P1.
    specialize (IH s1 e (S a) P1). destruct (parse_cols sch s1 e (S a) t). exact IH.
  - specialize (IH s e (S a) P). destruct (parse_cols sch s e (S a) t). exact IH.
Qed.

Lemma Pk_load_row : forall sch s e r, Pk sch s -> Pk sch (out_state (load_row sch s e r)).
Proof.
  intros sch s e r P. unfold load_row.
  pose proof (Pk_parse_cols sch (r_cols r) s e O P) as P1. destruct (parse_cols sch s e 0 (r_cols r)) as [s1 vals]. simpl in P1.
  pose proof (Pk_get_or_seed sch s1 e (r_pk r) P1) as P2. destruct (get_or_seed sch s1 e (r_pk r)) as [s2 o]. simpl in P2.
  destruct (is_del (obj_st s2 o)) eqn:D. exact P2.
  destruct (status_eqb (obj_st s2 o) SCreated). simpl. apply Pk_dirty. discriminate.
  pose proof (Pk_db_set_obj sch s2 o (obj_ent s2 o) vals P2 eq_refl D) as P3.
  destruct (db_set_obj sch s2 o (obj_ent s2 o) vals); exact P3.
Qed.

Lemma Pk_load_rows : forall sch rows s e, Pk sch s -> Pk sch (out_state (load_rows sch s e rows)).
Proof.
  intros sch rows. induction rows as [|r t IH]; intros s e P; simpl. exact P.
  pose proof (Pk_load_row sch s e r P) as P1. destruct (load_row sch s e r) as [s1 x|s1 er]; simpl in *; auto.
  specialize (IH s1 e P1). destruct (load_rows sch s1 e t); exact IH.
Qed.

Lemma Pk_load_obj_noflush : forall sch s o, Pk sch s -> Pk sch (out_state (load_obj_noflush sch s o)).
Proof.
  intros sch s o P. unfold load_obj_noflush. destruct (get_obj s o) as [ob|]; [|exact P].
  destruct (o_pk ob) as [pk|]; [|exact P].
  match goal with |- context [load_rows sch s ?e ?rows] => pose proof (Pk_load_rows sch rows s e P) as P1; destruct (load_rows sch s e rows) as [s1 os|s1 er] end; simpl in *; auto.
  destruct (mem_nat o os); exact P1.
Qed.

Lemma Pk_fields : forall sch s s', s_objs s' = s_objs s -> s_idx s' = s_idx s -> s_dirty s' = s_dirty s -> Pk sch s -> Pk sch s'.
Proof. intros. eapply kframe_Pk; eauto. apply kframe_fields; auto. Qed.

Lemma Pk_coll_load_noflush : forall sch s o a, Pk sch s -> Pk sch (out_state (coll_load_noflush sch s o a)).
Proof.
  intros sch s o a P. unfold coll_load_noflush.
  assert (P0 : Pk sch (coll_ensure s o a)) by (eapply kframe_Pk; eauto; apply kframe_coll_ensure).
  destruct (coll_full (coll_ensure s o a) o a). exact P0.
  destruct (get_obj (coll_ensure s o a) o) as [ob|]; [|exact P0].
  destruct (set_info sch (obj_ent (coll_ensure s o a) o) a) as [[t r]|]; [|exact P0].
  match goal with |- context [load_rows sch ?s1 t ?rows] =>
    assert (P1 : Pk sch s1) by (eapply kframe_Pk; [apply kframe_fold; intros; apply kframe_coll_ensure | exact P0]);
    pose proof (Pk_load_rows sch rows s1 t P1) as P2; destruct (load_rows sch s1 t rows) as [s2 os|s2 er] end; cbn [out_state] in *; auto.
  eapply Pk_fields; [reflexivity|reflexivity|reflexivity|].
  eapply kframe_Pk; [apply kframe_fold; intros; apply kframe_coll_mark_full | exact P2].
Qed.

Lemma Pk_coll_load_items : forall sch s o a items, Pk sch s -> Pk sch (out_state (coll_load_items sch s o a items)).
Proof.
  intros sch s o a items P. unfold coll_load_items.
  assert (P0 : Pk sch (coll_ensure s o a)) by (eapply kframe_Pk; eauto; apply kframe_coll_ensure).
  destruct (coll_full (coll_ensure s o a) o a). exact P0.
  destruct (set_info sch (obj_ent (coll_ensure s o a) o) a) as [[t r]|]; [|exact P0].
  destruct items as [|i items]. apply Pk_coll_load_noflush. exact P0.
  match goal with |- context [match ?u with [] => _ | _ :: _ => _ end] => destruct u end. exact P0.
  destruct (sd_items (get_sd (coll_ensure s o a) o a)).
  - match goal with |- context [load_rows sch ?s1 t ?rows] =>
      pose proof (Pk_load_rows sch rows s1 t P0) as P2; destruct (load_rows sch s1 t rows) as [s2 os|s2 er] end; exact P2.
  - apply Pk_coll_load_noflush. exact P0.
Qed.

(* ---------------------------------------------------------------- flush *)

(* o changes but shows the same key views: nothing to do in the index *)
Lemma Inv_same_kview : forall sch s s' o ob ob',
  Inv_idx sch s -> get_obj s o = Some ob -> get_obj s' o = Some ob' -> o_ent ob' = o_ent ob ->
  (forall o', o' <> o -> get_obj s' o' = get_obj s o') ->
  (forall k, kview sch ob' k = kview sch ob k) -> s_idx s' = s_idx s -> Inv_idx sch s'.
Proof.
  intros sch s s' o ob ob' I G G' E OTH SAME IDX.
  eapply Inv_rekey; eauto.
  - intros e k v. unfold idx_get at 1. rewrite IDX. fold (idx_get s e k v). rewrite SAME.
    destruct (Nat.eqb e (o_ent ob) && oval_eqb (kview sch ob k) (Some v)) eqn:C; auto.
    apply andb_true_iff in C. destruct C as [C1 C2]. apply Nat.eqb_eq in C1. apply oval_eqb_eq in C2. subst e.
    apply (I (o_ent ob) k v o). exists ob. auto.
  - intros k v H1 H2. rewrite SAME in H1. contradiction.
Qed.

Lemma shape_upd_obj : forall sch s o f,
  Inv_shape sch s -> (forall ob, o_ent (f ob) = o_ent ob /\ length (o_vals (f ob)) = length (o_vals ob)) -> Inv_shape sch (upd_obj s o f).
Proof.
  intros sch s o f SH F o' ob'. rewrite get_upd_obj. destruct (Nat.eqb o o').
  - destruct (get_obj s o') as [ob|] eqn:G; simpl; intro H; inversion H; subst. destruct (F ob) as [F1 F2]. rewrite F1, F2. apply (SH o' ob G).
  - apply SH.
Qed.

Lemma shape_fields : forall sch s s', s_objs s' = s_objs s -> Inv_shape sch s -> Inv_shape sch s'.
Proof. intros sch s s' H SH o ob G. apply (SH o ob). unfold get_obj in *. congruence. Qed.

Lemma after_update_vals_same : forall sch ob,
  o_ent (after_update_vals sch ob) = o_ent ob /\ o_st (after_update_vals sch ob) = o_st ob /\
  o_pk (after_update_vals sch ob) = o_pk ob /\ o_vals (after_update_vals sch ob) = o_vals ob.
Proof.
  intros. unfold after_update_vals. generalize (seq O (nattrs sch (o_ent ob))). intro l.
  assert (H : forall acc, o_ent (fold_left (fun acc a => if owbit ob a then match oval acc a with Some v => ob_put_dbval acc a (Some v) | None => acc end else acc) l acc) = o_ent acc /\
     o_st (fold_left (fun acc a => if owbit ob a then match oval acc a with Some v => ob_put_dbval acc a (Some v) | None => acc end else acc) l acc) = o_st acc /\
     o_pk (fold_left (fun acc a => if owbit ob a then match oval acc a with Some v => ob_put_dbval acc a (Some v) | None => acc end else acc) l acc) = o_pk acc /\
     o_vals (fold_left (fun acc a => if owbit ob a then match oval acc a with Some v => ob_put_dbval acc a (Some v) | None => acc end else acc) l acc) = o_vals acc).
  { induction l as [|a l IH]; intros acc; simpl. auto.
    destruct (IH (if owbit ob a then match oval acc a with Some v => ob_put_dbval acc a (Some v) | None => acc end else acc)) as (A & B & C & D).
    rewrite A, B, C, D. destruct (owbit ob a); auto. destruct (oval acc a); auto. }
  apply H.
Qed.

Lemma Pk_save_updated : forall sch s o, Pk sch s -> Pk sch (out_state (save_updated sch s o)).
Proof.
  intros sch s o P. unfold save_updated. destruct (get_obj s o) as [ob|] eqn:G; [|exact P].
  destruct (status_eqb (o_st ob) SModified) eqn:ST; simpl; [|apply Pk_dirty; discriminate].
  match goal with |- context [if ?c then _ else _] => destruct c end. exact P.
  assert (FIN : forall s1, Pk sch s1 -> get_obj s1 o = Some ob ->
     Pk sch (upd_obj s1 o (fun ob2 => ob_set_wbits (ob_set_st (after_update_vals sch ob2) SUpdated) (repeat false (nattrs sch (o_ent ob)))))).
  { intros s1 P1 G1. eapply kframe_Pk; eauto. apply kframe_upd_obj. intros ob2 G2. rewrite G1 in G2. inversion G2; subst ob2.
    destruct (after_update_vals_same sch ob) as (A & B & C & D).
    unfold kobj_eq. cbn [o_ent o_pk o_st o_vals ob_set_wbits ob_set_st]. rewrite A, C, D. repeat split; auto;
      try (destruct (o_st ob); simpl in *; try discriminate; auto; fail).
    intros x _. unfold oval. cbn [o_vals ob_set_wbits ob_set_st]. rewrite D. reflexivity. }
  destruct (written_asg sch s ob) as [|p l] eqn:W.
  - simpl. apply FIN; auto.
  - destruct (o_pk ob) as [pk|]; [|exact P].
    destruct (db_update sch (s_db s) (o_ent ob) pk (p :: l)) as [er|d'].
    + destruct er; simpl; exact P.
    + simpl. apply FIN. eapply Pk_fields; [reflexivity|reflexivity|reflexivity|exact P]. exact G.
Qed.

Lemma status_eqb_eq : forall a b, status_eqb a b = true -> a = b.
Proof. destruct a, b; simpl; intro; try discriminate; reflexivity. Qed.

Lemma Pk_save_deleted : forall sch s o, Pk sch s -> Pk sch (out_state (save_deleted sch s o)).
Proof.
  intros sch s o P. unfold save_deleted. destruct (get_obj s o) as [ob|] eqn:G; [|exact P].
  destruct (status_eqb (o_st ob) SMarked) eqn:ST; cbn [negb out_state]; [|apply Pk_dirty; discriminate].
  apply status_eqb_eq in ST.
  destruct (o_pk ob) as [pk|] eqn:PK; [|exact P].
  remember (db_delete sch (s_db s) (o_ent ob) pk) as dd eqn:DDel. clear DDel. destruct dd as [er|d']; cbn [out_state]. exact P.
  destruct P as [D|[I SH]]. { left. unfold idx_del, set_idx. cbn [s_dirty]. rewrite upd_obj_dirty. exact D. }
  right. split.
  - eapply (Inv_rekey_slot sch s _ o ob (ob_set_st ob SDeleted) O); eauto.
    + rewrite get_obj_idx_del, get_upd_obj_same. unfold get_obj, set_db. cbn [s_objs]. fold (get_obj s o). rewrite G. reflexivity.
    + intros o' N. rewrite get_obj_idx_del, get_upd_obj_other by auto. reflexivity.
    + intros k N. unfold kview. cbn [o_ent o_st ob_set_st]. rewrite ST. destruct k; [congruence|]. simpl. rewrite !andb_false_r. reflexivity.
    + intros e k v. rewrite idx_del_char, idx_get_upd_obj.
      unfold kview. cbn [o_ent o_st ob_set_st okey o_pk is_key]. rewrite ST, PK. simpl.
      rewrite (val_eqb_sym v (VInt pk)).
      change (idx_get (set_db s d') e k v) with (idx_get s e k v).
      destruct (Nat.eqb e (o_ent ob)); simpl; auto. destruct (Nat.eqb k 0); simpl; auto.
    + intros v H. unfold kview in H. cbn [o_st ob_set_st] in H. simpl in H. discriminate.
  - unfold idx_del, set_idx. intros o' ob'. unfold get_obj. cbn [s_objs]. fold (get_obj (upd_obj (set_db s d') o (fun ob2 => ob_set_st ob2 SDeleted)) o').
    apply (shape_upd_obj sch (set_db s d') o). exact SH. intros. auto.
Qed.

Lemma okey_S_put_none : forall ob a x, oval ob a = Some VNone -> okey (ob_put_val ob a None) (S x) = okey ob (S x).
Proof.
  intros. simpl. destruct (Nat.eq_dec a x) as [->|N].
  - rewrite H. unfold oval, ob_put_val, ob_set_vals. cbn [o_vals].
    destruct (lt_dec x (length (o_vals ob))).
    + rewrite nth_upd_nth_same by assumption. reflexivity.
    + assert (E : upd_nth (o_vals ob) x None = o_vals ob).
      { clear H. revert x n. induction (o_vals ob) as [|y l IH]; intros x n; destruct x; simpl in *; auto; try lia. f_equal. apply IH. lia. }
      rewrite E. unfold oval in H. rewrite H. reflexivity.
  - rewrite oval_put_other by assumption. reflexivity.
Qed.

Lemma after_insert_vals_props : forall sch ob,
  o_ent (after_insert_vals sch ob) = o_ent ob /\ o_st (after_insert_vals sch ob) = o_st ob /\
  o_pk (after_insert_vals sch ob) = o_pk ob /\ length (o_vals (after_insert_vals sch ob)) = length (o_vals ob) /\
  forall x, okey (after_insert_vals sch ob) (S x) = okey ob (S x).
Proof.
  intros. unfold after_insert_vals. generalize (seq O (nattrs sch (o_ent ob))). intro l.
  set (step := fun acc a => if attr_is_set sch (o_ent ob) a then acc
                            else match oval acc a with
                                 | Some VNone => ob_put_dbval (ob_put_val acc a None) a None
                                 | Some v => ob_put_dbval acc a (Some v)
                                 | None => acc end).
  assert (ST : forall acc a, o_ent (step acc a) = o_ent acc /\ o_st (step acc a) = o_st acc /\ o_pk (step acc a) = o_pk acc /\
                             length (o_vals (step acc a)) = length (o_vals acc) /\ forall x, okey (step acc a) (S x) = okey acc (S x)).
  { intros acc a. unfold step. destruct (attr_is_set sch (o_ent ob) a). repeat split; auto.
    destruct (oval acc a) as [v|] eqn:OV; [|repeat split; auto].
    destruct v; try (repeat split; auto; fail).
    repeat split; auto.
    - unfold ob_put_dbval, ob_put_val, ob_set_dbvals, ob_set_vals. cbn [o_vals]. apply upd_nth_length.
    - intros x. change (okey (ob_put_dbval (ob_put_val acc a None) a None) (S x)) with (okey (ob_put_val acc a None) (S x)).
      apply okey_S_put_none. assumption. }
  assert (H : forall acc, o_ent (fold_left step l acc) = o_ent acc /\ o_st (fold_left step l acc) = o_st acc /\
                          o_pk (fold_left step l acc) = o_pk acc /\ length (o_vals (fold_left step l acc)) = length (o_vals acc) /\
                          forall x, okey (fold_left step l acc) (S x) = okey acc (S x)).
  { induction l as [|a l IH]; intros acc; cbn [fold_left]. repeat split; auto.
    destruct (IH (step acc a)) as (A & B & C & D & E). destruct (ST acc a) as (A1 & B1 & C1 & D1 & E1).
    repeat split; try congruence. }
  apply H.
Qed.

Lemma db_insert_pk : forall sch d e z cols d' pk', db_insert sch d e (Some z) cols = inr (d', pk') -> pk' = z.
Proof.
  intros. unfold db_insert in H. destruct (has_row d e z); try discriminate.
  destruct (negb (notnull_ok sch e cols)); try discriminate. destruct (negb (uniq_ok sch e cols (tab d e))); try discriminate.
  destruct (negb (fk_ok sch d e cols)); try discriminate. inversion H. reflexivity.
Qed.

Lemma Pk_save_created : forall sch s o, Pk sch s -> Pk sch (out_state (save_created sch s o)).
Proof.
  intros sch s o P. unfold save_created. destruct (get_obj s o) as [ob|] eqn:G; [|exact P].
  destruct (status_eqb (o_st ob) SCreated) eqn:ST; cbn [negb out_state]; [|apply Pk_dirty; discriminate].
  apply status_eqb_eq in ST.
  remember (db_insert sch (s_db s) (o_ent ob) (o_pk ob) (row_of_obj sch s ob)) as di eqn:DI. symmetry in DI.
  destruct di as [er|[d' newpk]]. { destruct er; exact P. }
  set (F := fun ob2 => after_insert_vals sch (ob_set_wbits (ob_set_st (ob_set_pk ob2 (Some newpk)) SInserted) (repeat false (nattrs sch (o_ent ob))))).
  assert (FP : forall ob2, o_ent (F ob2) = o_ent ob2 /\ o_st (F ob2) = SInserted /\ o_pk (F ob2) = Some newpk /\
               length (o_vals (F ob2)) = length (o_vals ob2) /\ forall x, okey (F ob2) (S x) = okey ob2 (S x)).
  { intros ob2. unfold F. destruct (after_insert_vals_props sch (ob_set_wbits (ob_set_st (ob_set_pk ob2 (Some newpk)) SInserted) (repeat false (nattrs sch (o_ent ob))))) as (A & B & C & D & E).
    rewrite A, B, C, D. repeat split; auto. }
  destruct (FP ob) as (F1 & F2 & F3 & F4 & F5).
  assert (KS : forall k, k <> O -> kview sch (F ob) k = kview sch ob k).
  { intros k N. destruct k; [congruence|]. unfold kview. rewrite F1, F2, ST. rewrite F5. reflexivity. }
  assert (SHP : forall s1, Inv_shape sch s1 -> Inv_shape sch (upd_obj s1 o F)).
  { intros s1 SH1. apply shape_upd_obj; auto. intros ob2. destruct (FP ob2) as (A & _ & _ & D & _). auto. }
  destruct (o_pk ob) as [z|] eqn:PK.
  - (* explicit primary key *)
    apply db_insert_pk in DI. subst newpk. cbn [out_state].
    destruct P as [D|[I SH]]. { left. rewrite upd_obj_dirty. exact D. }
    right. split.
    + eapply (Inv_same_kview sch (set_db s d') _ o ob (F ob)); eauto.
      * rewrite get_upd_obj_same. change (get_obj (set_db s d') o) with (get_obj s o). rewrite G. reflexivity.
      * intros o' N. apply get_upd_obj_other. auto.
      * intros k. destruct k; [|apply KS; congruence]. unfold kview. cbn [is_key okey]. rewrite F2, F3, ST, PK. reflexivity.
      * apply upd_obj_idx.
    + apply SHP. exact SH.
  - destruct (idx_get (set_db s d') (o_ent ob) O (VInt newpk)) as [o2|] eqn:IX.
    + destruct (Nat.eqb o2 o) eqn:EQ; cbn [out_state]; [|apply Pk_dirty; discriminate].
      apply Nat.eqb_eq in EQ. subst o2.
      destruct P as [D|[I SH]]. { left. rewrite upd_obj_dirty. exact D. }
      exfalso. change (idx_get (set_db s d') (o_ent ob) 0 (VInt newpk)) with (idx_get s (o_ent ob) 0 (VInt newpk)) in IX.
      apply (I (o_ent ob) O (VInt newpk) o) in IX. destruct IX as (b & Hb & _ & Hk). rewrite G in Hb. inversion Hb; subst b.
      unfold kview in Hk. simpl in Hk. rewrite PK in Hk. destruct (negb (is_gone (o_st ob))); discriminate.
    + cbn [out_state]. destruct P as [D|[I SH]]. { left. rewrite upd_obj_dirty. exact D. }
      right. split.
      * eapply (Inv_rekey_slot sch s _ o ob (F ob) O); eauto.
        -- rewrite get_upd_obj_same, get_obj_idx_put. change (get_obj (set_db s d') o) with (get_obj s o). rewrite G. reflexivity.
        -- intros o' N. rewrite get_upd_obj_other by auto. reflexivity.
        -- intros e k v. rewrite idx_get_upd_obj, idx_put_char.
           change (idx_get (set_db s d') e k v) with (idx_get s e k v).
           unfold kview. cbn [is_key okey]. rewrite F2, F3, ST, PK. simpl. rewrite (val_eqb_sym v (VInt newpk)).
           destruct (Nat.eqb e (o_ent ob)); simpl; auto. destruct (Nat.eqb k 0); simpl; auto.
        -- intros v H _. unfold kview in H. cbn [is_key okey] in H. rewrite F2, F3 in H. simpl in H. inversion H; subst v. exact IX.
      * apply SHP. apply (shape_fields sch s); auto.
Qed.

Lemma Pk_save_principals : forall sch rec ob l s,
  (forall s p, Pk sch s -> Pk sch (out_state (rec s p))) -> Pk sch s -> Pk sch (out_state (save_principals rec ob s l)).
Proof.
  intros sch rec ob l. induction l as [|a l IH]; intros s R P; simpl. exact P.
  destruct (oval ob a) as [[| | |p]|]; try (apply IH; auto; fail).
  destruct (status_eqb (obj_st s p) SCreated); [|apply IH; auto].
  pose proof (R s p P) as P1. destruct (rec s p) as [s1 u|s1 er]; [|exact P1]. apply IH; auto.
Qed.

Lemma Pk_save_obj : forall sch fuel s o deps, Pk sch s -> Pk sch (out_state (save_obj fuel sch s o deps)).
Proof.
  intros sch fuel. induction fuel as [|f IH]; intros s o deps P; simpl. exact P.
  destruct (get_obj s o) as [ob|] eqn:G; [|exact P].
  match goal with |- context [match ?r0 with Ok _ _ => _ | Err _ _ => _ end] => set (r := r0) end.
  assert (P0 : Pk sch (out_state r)).
  { unfold r. destruct (status_eqb (o_st ob) SCreated || status_eqb (o_st ob) SModified); [|exact P].
    destruct (mem_nat o deps). exact P. apply Pk_save_principals; auto. }
  destruct r as [s1 u|s1 er]; [|exact P0]. cbn [out_state] in P0.
  match goal with |- context [match ?r1 with Ok _ _ => _ | Err _ _ => _ end] => set (r2 := r1) end.
  assert (P1 : Pk sch (out_state r2)).
  { unfold r2. destruct (o_st ob); try exact P0. apply Pk_save_created; auto. apply Pk_save_updated; auto. apply Pk_save_deleted; auto. }
  destruct r2 as [s2 u2|s2 er]; [|exact P1]. cbn [out_state] in *.
  eapply Pk_fields; [reflexivity|reflexivity|reflexivity|].
  eapply kframe_Pk; [|exact P1]. eapply kframe_trans. apply kframe_unqueue. apply kframe_upd_obj. intros. apply kobj_eq_pos.
Qed.

Lemma Pk_flush_loop : forall sch l s, Pk sch s -> Pk sch (out_state (flush_loop sch s l)).
Proof.
  intros sch l. induction l as [|i l IH]; intros s P; cbn [flush_loop]. exact P.
  destruct (nth i (s_tosave s) None) as [o|]; [|apply IH; auto].
  pose proof (Pk_save_obj sch (S (length (s_objs s))) s o [] P) as P1.
  remember (save_obj (S (length (s_objs s))) sch s o []) as r eqn:R. clear R.
  destruct r as [s1 u|s1 er]; [|exact P1]. apply IH; auto.
Qed.

Lemma Pk_flush : forall sch s, Pk sch s -> Pk sch (out_state (flush sch s)).
Proof.
  intros sch s P. unfold flush. destruct (s_savedpend s). exact P. destruct (negb (s_modified s)). exact P.
  match goal with |- context [if ?c then _ else _] => destruct c end. exact P.
  assert (P0 : Pk sch (calc_modcoll s)) by (eapply kframe_Pk; eauto; apply kframe_calc_modcoll).
  pose proof (Pk_flush_loop sch (seq O (length (s_tosave (calc_modcoll s)))) (calc_modcoll s) P0) as P1.
  destruct (flush_loop sch (calc_modcoll s) (seq 0 (length (s_tosave (calc_modcoll s))))) as [s2 u|s2 er]; [|exact P1].
  exact P1.
Qed.

Lemma Pk_auto_flush : forall sch s, Pk sch s -> Pk sch (out_state (auto_flush sch s)).
Proof. intros. unfold auto_flush. destruct (s_modified s). apply Pk_flush; auto. exact H. Qed.

(* ---------------------------------------------------------------- collections and deletion *)

Lemma any_del_kframe : forall sch s s' l, kframe sch s s' -> any_del s' l = any_del s l.
Proof. intros. unfold any_del. apply existsb_ext_eq. intros x. apply (kframe_is_del sch s s' x H). Qed.

Lemma Pk_fold_out : forall sch A (f : sess -> A -> out unit) l s,
  (forall s x, Pk sch s -> Pk sch (out_state (f s x))) -> Pk sch s -> Pk sch (out_state (fold_out f s l)).
Proof.
  intros sch A f l. induction l as [|x l IH]; intros s H P; simpl. exact P.
  pose proof (H s x P) as P1. destruct (f s x) as [s1 u|s1 er]; [|exact P1]. apply IH; auto.
Qed.

Section WithSchema2.
Variable sch : schema.
Hypothesis WF : wf_schema sch = true.

Lemma Pk_coll_add : forall s o a items, Pk sch s -> Pk sch (out_state (coll_add sch s o a items)).
Proof.
  intros s o a items P. unfold coll_add. destruct items as [|i0 items0]. exact P.
  set (items := i0 :: items0). set (items1 := if has_sd s o a then diff_nat items (sd_items (get_sd s o a)) else items).
  match goal with |- context [match ?r0 with Ok _ _ => _ | Err _ _ => _ end] => set (r := r0) end.
  assert (P0 : Pk sch (out_state r)).
  { unfold r. destruct (has_sd s o a && coll_full s o a). exact P. apply Pk_coll_load_items. exact P. }
  destruct r as [s1 u|s1 er]; [|exact P0]. cbn [out_state] in P0.
  destruct (any_del s1 (diff_nat items1 (sd_items (get_sd s1 o a)))) eqn:AD. exact P0.
  destruct (set_info sch (obj_ent s1 o) a) as [[t r_]|]; [|exact P0].
  set (items2 := diff_nat items1 (sd_items (get_sd s1 o a))) in *.
  assert (F : kframe sch s1 (fold_left (fun acc i => item_link sch acc o a r_ i) items2 (note_order s1 items2))).
  { apply (kframe_trans sch s1 (note_order s1 items2)). apply kframe_note_order. apply kframe_fold_items.
    - intros. apply kframe_item_link; auto.
    - rewrite (any_del_kframe sch s1 (note_order s1 items2) items2 (kframe_note_order sch oid s1 items2)). exact AD. }
  pose proof (kframe_Pk sch _ _ F P0) as P2.
  match goal with |- context [if ?c then _ else _] => destruct c end. simpl. apply Pk_dirty. discriminate.
  cbn [out_state]. eapply Pk_fields; [reflexivity|reflexivity|reflexivity|].
  eapply kframe_Pk; [|exact P2]. eapply kframe_trans. apply kframe_put_sd. apply kframe_modcoll_add.
Qed.

Lemma Pk_coll_nonzero : forall s o a, Pk sch s -> Pk sch (out_state (coll_nonzero sch s o a)).
Proof.
  intros s o a P. unfold coll_nonzero.
  match goal with |- context [match ?r0 with Ok _ _ => _ | Err _ _ => _ end] => set (r := r0) end.
  assert (P0 : Pk sch (out_state r)). { unfold r. destruct (has_sd s o a). exact P. apply Pk_coll_load_noflush. exact P. }
  destruct r as [s1 u|s1 er]; [|exact P0]. cbn [out_state] in P0.
  destruct (sd_items (get_sd s1 o a)). 2: exact P0.
  destruct (coll_full s1 o a). exact P0.
  pose proof (Pk_coll_load_noflush sch s1 o a P0) as P1. destruct (coll_load_noflush sch s1 o a); exact P1.
Qed.

Lemma Pk_coll_assign_gen : forall del s o a items,
  (forall s x, Pk sch s -> Pk sch (out_state (del s x))) ->
  Pk sch s -> Pk sch (out_state (coll_assign_gen del sch s o a items)).
Proof.
  intros del s o a items DEL P. unfold coll_assign_gen.
  match goal with |- context [match ?r0 with Ok _ _ => _ | Err _ _ => _ end] => set (r := r0) end.
  assert (P0 : Pk sch (out_state r)).
  { unfold r. destruct (has_sd s o a).
    - destruct (coll_full s o a). exact P. apply Pk_coll_load_noflush. exact P.
    - destruct (status_eqb (obj_st s o) SCreated). simpl. eapply kframe_Pk; [apply kframe_put_sd|exact P]. apply Pk_coll_load_noflush. exact P. }
  destruct r as [s1 u|s1 er]; [|exact P0]. cbn [out_state] in P0.
  destruct (seteq_nat items (sd_items (get_sd s1 o a))). exact P0.
  set (to_add := diff_nat items (sd_items (get_sd s1 o a))). set (to_remove := diff_nat (sd_items (get_sd s1 o a)) items).
  destruct (any_del s1 to_add) eqn:AD.
  { destruct (set_cascade sch (obj_ent s1 o) a && match to_remove with [] => false | _ => true end); simpl.
    apply Pk_dirty_keep. exact P0. exact P0. }
  destruct (set_info sch (obj_ent s1 o) a) as [[t r_]|]; [|exact P0].
  set (s1' := note_order (note_order s1 to_remove) to_add).
  assert (F1 : kframe sch s1 s1') by (unfold s1'; eapply kframe_trans; apply kframe_note_order).
  pose proof (kframe_Pk sch _ _ F1 P0) as P1.
  destruct (negb (set_cascade sch (obj_ent s1 o) a) && any_del s1 to_remove) eqn:AR. simpl. apply Pk_dirty. discriminate.
  match goal with |- context [match ?r0 with Ok _ _ => _ | Err _ _ => _ end] => set (r2 := r0) end.
  assert (P2 : Pk sch (out_state r2)).
  { unfold r2. destruct (set_cascade sch (obj_ent s1 o) a) eqn:SC.
    - apply Pk_fold_out; auto.
    - simpl in AR. cbn [out_state]. eapply kframe_Pk; [|exact P1]. apply kframe_fold_items.
      + intros. apply kframe_ref_set_rev; auto.
      + rewrite (any_del_kframe sch s1 s1' to_remove F1). exact AR. }
  destruct r2 as [s2 u2|s2 er]; [|exact P2]. cbn [out_state] in P2.
  destruct (any_del s2 to_add) eqn:AD2. simpl. apply Pk_dirty. discriminate.
  assert (F3 : kframe sch s2 (fold_left (fun acc i => item_link sch acc o a r_ i) to_add s2)).
  { apply kframe_fold_items. intros. apply kframe_item_link; auto. exact AD2. }
  pose proof (kframe_Pk sch _ _ F3 P2) as P3.
  match goal with |- context [if ?c then _ else _] => destruct c end. simpl. apply Pk_dirty. discriminate.
  cbn [out_state]. eapply Pk_fields; [reflexivity|reflexivity|reflexivity|].
  eapply kframe_Pk; [|exact P3]. eapply kframe_trans. apply kframe_put_sd. apply kframe_modcoll_add.
Qed.


Lemma Pk_coll_remove_gen : forall del s o a items,
  (forall s x, Pk sch s -> Pk sch (out_state (del s x))) ->
  Pk sch s -> Pk sch (out_state (coll_remove_gen del sch s o a items)).
Proof.
  intros del s o a items DEL P. unfold coll_remove_gen.
  set (items0 := if has_sd s o a then diff_nat items (sd_removed (get_sd s o a)) else items).
  destruct items0 as [|i0 it0] eqn:I0. exact P. rewrite <- I0. clear I0.
  match goal with |- context [match ?r0 with Ok _ _ => _ | Err _ _ => _ end] => set (r := r0) end.
  assert (P0 : Pk sch (out_state r)).
  { unfold r. destruct (has_sd s o a && coll_full s o a). exact P. apply Pk_coll_load_items. exact P. }
  destruct r as [s1 u|s1 er]; [|exact P0]. cbn [out_state] in P0.
  set (items1 := inter_nat items0 (sd_items (get_sd s1 o a))).
  destruct (set_info sch (obj_ent s1 o) a) as [[t r_]|]; [|exact P0].
  set (s1' := note_order s1 items1).
  assert (F1 : kframe sch s1 s1') by (apply kframe_note_order).
  pose proof (kframe_Pk sch _ _ F1 P0) as P1.
  destruct (negb (set_cascade sch (obj_ent s1 o) a) && any_del s1 items1) eqn:AR. simpl. apply Pk_dirty. discriminate.
  match goal with |- context [match ?r0 with Ok _ _ => _ | Err _ _ => _ end] => set (r2 := r0) end.
  assert (P2 : Pk sch (out_state r2)).
  { unfold r2. destruct (set_cascade sch (obj_ent s1 o) a) eqn:SC.
    - apply Pk_fold_out; auto.
    - simpl in AR. cbn [out_state]. eapply kframe_Pk; [|exact P1]. apply kframe_fold_items.
      + intros. apply kframe_ref_set_rev; auto.
      + rewrite (any_del_kframe sch s1 s1' items1 F1). exact AR. }
  destruct r2 as [s2 u2|s2 er]; [|exact P2]. cbn [out_state] in P2.
  match goal with |- context [if ?c then _ else _] => destruct c end. simpl. apply Pk_dirty. discriminate.
  destruct remove_rebooks_one_to_many; [|exact P2].
  cbn [out_state]. eapply Pk_fields; [reflexivity|reflexivity|reflexivity|].
  eapply kframe_Pk; [|exact P2]. eapply kframe_trans. apply kframe_put_sd. apply kframe_modcoll_add.
Qed.

Lemma del_keys_objs : forall l s o e, s_objs (del_keys sch s o e l) = s_objs s /\ s_dirty (del_keys sch s o e l) = s_dirty s.
Proof.
  induction l as [|a l IH]; intros s o e; unfold del_keys; simpl. auto.
  set (s1 := if attr_uniq sch e a then match obj_val s o a with Some v => if is_vnone v then s else idx_del s e (S a) v | None => s end else s).
  assert (E : s_objs s1 = s_objs s /\ s_dirty s1 = s_dirty s).
  { unfold s1. destruct (attr_uniq sch e a); auto. destruct (obj_val s o a) as [v|]; auto. destruct (is_vnone v); auto. }
  change (fold_left _ l s1) with (del_keys sch s1 o e l). destruct (IH s1 o e) as [A B]. destruct E. split; congruence.
Qed.

Lemma del_keys_spec : forall l s o e ob, get_obj s o = Some ob ->
  forall e' k v, idx_get (del_keys sch s o e l) e' k v =
    if Nat.eqb e' e && match k with
                       | O => false
                       | S a => mem_nat a l && attr_uniq sch e a && oval_eqb (oval ob a) (Some v) && negb (is_vnone v)
                       end
    then None else idx_get s e' k v.
Proof.
  induction l as [|a l IH]; intros s o e ob G e' k v.
  - unfold del_keys. simpl. destruct k; rewrite ?andb_false_r; reflexivity.
  - unfold del_keys. simpl. fold del_keys.
    set (s1 := if attr_uniq sch e a then match obj_val s o a with Some v0 => if is_vnone v0 then s else idx_del s e (S a) v0 | None => s end else s).
    change (fold_left _ l s1) with (del_keys sch s1 o e l).
    assert (G1 : get_obj s1 o = Some ob).
    { unfold s1. destruct (attr_uniq sch e a); auto. destruct (obj_val s o a) as [v0|]; auto. destruct (is_vnone v0); auto. }
    rewrite (IH s1 o e ob G1 e' k v).
    assert (S1 : idx_get s1 e' k v = if Nat.eqb e' e && match k with O => false | S b => Nat.eqb b a && attr_uniq sch e a && oval_eqb (oval ob a) (Some v) && negb (is_vnone v) end then None else idx_get s e' k v).
    { unfold s1. rewrite (obj_val_get s o ob a G).
      destruct (attr_uniq sch e a) eqn:U; [|destruct k; rewrite ?andb_false_r; simpl; rewrite ?andb_false_r; reflexivity].
      destruct (oval ob a) as [v0|] eqn:OV; [|destruct k; rewrite ?andb_false_r; simpl; rewrite ?andb_false_r; reflexivity].
      destruct (is_vnone v0) eqn:NV.
      - destruct (Nat.eqb e' e); simpl; auto. destruct k as [|b]; auto. destruct (Nat.eqb b a); simpl; auto.
        destruct (val_eqb v0 v) eqn:EV; simpl; auto. apply val_eqb_eq in EV. subst. rewrite NV. reflexivity.
      - rewrite idx_del_char. destruct (Nat.eqb e' e); simpl; auto. destruct k as [|b]; simpl; auto.
        destruct (Nat.eqb b a); simpl; auto. rewrite (val_eqb_sym v v0).
        destruct (val_eqb v0 v) eqn:EV; simpl; auto. apply val_eqb_eq in EV. subst. rewrite NV. reflexivity. }
    rewrite S1. destruct (Nat.eqb e' e); simpl; auto. destruct k as [|b]; auto.
    destruct (Nat.eqb b a) eqn:BA; simpl; auto.
    apply Nat.eqb_eq in BA. subst b.
    destruct (attr_uniq sch e a); simpl; rewrite ?andb_false_r; auto.
    destruct (oval_eqb (oval ob a) (Some v)); simpl; rewrite ?andb_false_r; auto.
    destruct (is_vnone v); simpl; rewrite ?andb_false_r; auto.
    destruct (mem_nat a l); reflexivity.
Qed.
End WithSchema2.

Section WithSchema3.
Variable sch : schema.
Hypothesis WF : wf_schema sch = true.

Lemma kframe_del_unlink : forall l s o e, kframe sch s (del_unlink sch s o e l).
Proof.
  intros. unfold del_unlink. apply kframe_fold. intros s0 a.
  destruct (ref_info sch e a) as [[t r]|]; try apply kframe_refl.
  destruct (obj_val s0 o a) as [[| | |x]|]; try apply kframe_refl. apply kframe_rev_remove.
Qed.

Lemma mem_seq : forall a n, mem_nat a (seq O n) = Nat.ltb a n.
Proof.
  intros. destruct (Nat.ltb a n) eqn:L.
  - apply mem_nat_In. apply in_seq. apply Nat.ltb_lt in L. lia.
  - apply mem_nat_false. intro H. apply in_seq in H. apply Nat.ltb_ge in L. lia.
Qed.

Lemma attr_uniq_lt : forall e a, attr_uniq sch e a = true -> Nat.ltb a (nattrs sch e) = true.
Proof.
  intros. unfold attr_uniq in H. destruct (get_attr sch e a) eqn:G; try discriminate.
  apply Nat.ltb_lt. eapply get_attr_lt; eauto.
Qed.

(* key views of a live, not created-or-deleted object *)
Lemma kview_live : forall ob k, is_del (o_st ob) = false ->
  kview sch ob k = match k with
                   | O => okey ob O
                   | S a => if attr_uniq sch (o_ent ob) a then okey ob (S a) else None
                   end.
Proof.
  intros. unfold kview. destruct k; simpl.
  - assert (is_gone (o_st ob) = false) by (destruct (o_st ob); simpl in *; congruence). rewrite H0. reflexivity.
  - rewrite H. simpl. rewrite andb_true_r. reflexivity.
Qed.

Lemma queue_dirty : forall s o, s_dirty (queue s o) = s_dirty s.
Proof. intros. unfold queue. cbn [s_dirty set_modified set_tosave]. apply upd_obj_dirty. Qed.
Lemma unqueue_dirty : forall s p, s_dirty (unqueue_slot s p) = s_dirty s.
Proof. intros. unfold unqueue_slot. destruct p; reflexivity. Qed.
Lemma idx_del_dirty : forall s e k v, s_dirty (idx_del s e k v) = s_dirty s. Proof. reflexivity. Qed.
Lemma idx_put_dirty : forall s e k v o, s_dirty (idx_put s e k v o) = s_dirty s. Proof. reflexivity. Qed.

Lemma kobj_eq_sym_parts : forall a b, kobj_eq sch a b ->
  o_ent b = o_ent a /\ o_pk b = o_pk a /\ is_del (o_st b) = is_del (o_st a) /\ is_gone (o_st b) = is_gone (o_st a).
Proof. intros a b (A & B & C & D & _). repeat split; congruence. Qed.

Lemma Pk_delete_tail : forall s1 o ob, Pk sch s1 -> is_del (o_st ob) = false -> Pk sch (out_state (delete_tail sch s1 o ob)).
Proof.
  intros s1 o ob P ND. unfold delete_tail.
  destruct (get_obj s1 o) as [ob1|] eqn:G1; [|exact P].
  destruct (negb (status_eqb (o_st ob1) (o_st ob)) || negb (Nat.eqb (o_ent ob1) (o_ent ob))) eqn:CHK. exact P.
  apply orb_false_iff in CHK. destruct CHK as [CS _]. apply negb_false_iff in CS. apply status_eqb_eq in CS.
  assert (ND1 : is_del (o_st ob1) = false) by congruence.
  set (e := o_ent ob1). set (attrs := seq O (nattrs sch e)).
  set (s2 := del_unlink sch s1 o e attrs).
  assert (F2 : kframe sch s1 s2) by apply kframe_del_unlink.
  pose proof (kframe_Pk sch s1 s2 F2 P) as P2.
  set (s3 := del_keys sch s2 o e attrs).
  destruct (del_keys_objs sch attrs s2 o e) as [OBJ3 DIRTY3]. fold s3 in OBJ3, DIRTY3.
  assert (GO : forall o', get_obj s3 o' = get_obj s2 o') by (intros; unfold get_obj; rewrite OBJ3; reflexivity).
  pose proof F2 as (_ & _ & _ & F2o). destruct (F2o o ob1 G1) as (ob2 & G2 & K12).
  destruct (kobj_eq_sym_parts ob1 ob2 K12) as (KE & KP & KD & KG).
  assert (ND2 : is_del (o_st ob2) = false) by congruence.
  assert (CR : status_eqb (o_st ob2) SCreated = status_eqb (o_st ob1) SCreated) by (destruct K12 as (_ & _ & _ & _ & C & _); congruence).
  (* the two final states share their shape: the object gets a deleted status, slot 0 is dropped for a cancelled object *)
  destruct P2 as [D|[I2 SH2]].
  { left. destruct (status_eqb (o_st ob1) SCreated).
    - destruct (o_pk ob1); cbn [out_state]; rewrite ?idx_del_dirty, upd_obj_dirty, unqueue_dirty; congruence.
    - cbn [out_state]. rewrite queue_dirty, upd_obj_dirty. destruct (status_eqb (o_st ob1) SModified); rewrite ?unqueue_dirty; congruence. }
  right.
  assert (SPEC : forall e' k v, idx_get s3 e' k v =
            if Nat.eqb e' e && match k with O => false | S a => attr_uniq sch e a && oval_eqb (oval ob2 a) (Some v) && negb (is_vnone v) end
            then None else idx_get s2 e' k v).
  { intros. unfold s3. rewrite (del_keys_spec sch attrs s2 o e ob2 G2 e' k v). destruct (Nat.eqb e' e); simpl; auto.
    destruct k as [|a]; auto. unfold attrs. rewrite mem_seq.
    destruct (attr_uniq sch e a) eqn:U; simpl; rewrite ?andb_false_r; auto. rewrite (attr_uniq_lt e a U). reflexivity. }
  assert (KV2 : forall k, kview sch ob2 k = match k with O => okey ob2 O | S a => if attr_uniq sch e a then okey ob2 (S a) else None end).
  { intros. rewrite (kview_live ob2 k ND2). rewrite KE. reflexivity. }
  destruct (status_eqb (o_st ob1) SCreated) eqn:C1.
  - (* created -> cancelled *)
    set (F := fun x => ob_set_st (ob_set_pos x None) SCancelled).
    set (s4 := upd_obj (unqueue_slot s3 (o_pos ob1)) o F).
    assert (G4 : get_obj s4 o = Some (F ob2)).
    { unfold s4. rewrite get_upd_obj_same. replace (get_obj (unqueue_slot s3 (o_pos ob1)) o) with (get_obj s3 o) by (unfold unqueue_slot; destruct (o_pos ob1); reflexivity).
      rewrite GO, G2. reflexivity. }
    assert (KVF : forall k, kview sch (F ob2) k = None).
    { intros. unfold kview, F. cbn [o_st ob_set_st]. destruct k; simpl; rewrite ?andb_false_r; reflexivity. }
    assert (IDX4 : forall e' k v, idx_get s4 e' k v = idx_get s3 e' k v).
    { intros. unfold s4. rewrite idx_get_upd_obj. unfold unqueue_slot. destruct (o_pos ob1); reflexivity. }
    cbn [out_state]. split.
    + eapply (Inv_rekey sch s2 _ o ob2 (F ob2) I2 G2).
      * destruct (o_pk ob1); [rewrite get_obj_idx_del|]; exact G4.
      * reflexivity.
      * intros o' N. replace (get_obj (match o_pk ob1 with Some pk => idx_del s4 e 0 (VInt pk) | None => s4 end) o') with (get_obj s4 o') by (destruct (o_pk ob1); reflexivity).
        unfold s4. rewrite get_upd_obj_other by auto. replace (get_obj (unqueue_slot s3 (o_pos ob1)) o') with (get_obj s3 o') by (unfold unqueue_slot; destruct (o_pos ob1); reflexivity). apply GO.
      * intros e' k v. rewrite KVF. simpl oval_eqb. rewrite andb_false_r. rewrite KV2. rewrite KE. fold e.
        destruct (o_pk ob1) as [pk|] eqn:PK.
        -- rewrite idx_del_char, IDX4, SPEC. unfold okey. rewrite KP.
           destruct (Nat.eqb e' e); simpl; auto. destruct k as [|a]; simpl.
           ++ destruct v; simpl; auto. rewrite Z.eqb_sym. reflexivity.
           ++ destruct (attr_uniq sch e a); simpl; auto. destruct (oval ob2 a) as [w|]; simpl; auto.
              destruct (is_vnone w) eqn:NW; simpl.
              ** destruct (val_eqb w v) eqn:EW; simpl; auto. apply val_eqb_eq in EW. subst. rewrite NW. reflexivity.
              ** destruct (val_eqb w v) eqn:EW; simpl; auto. apply val_eqb_eq in EW. subst. rewrite NW. reflexivity.
        -- rewrite IDX4, SPEC. unfold okey. rewrite KP.
           destruct (Nat.eqb e' e); simpl; auto. destruct k as [|a]; simpl; auto.
           destruct (attr_uniq sch e a); simpl; auto. destruct (oval ob2 a) as [w|]; simpl; auto.
           destruct (is_vnone w) eqn:NW; simpl.
           ** destruct (val_eqb w v) eqn:EW; simpl; auto. apply val_eqb_eq in EW. subst. rewrite NW. reflexivity.
           ** destruct (val_eqb w v) eqn:EW; simpl; auto. apply val_eqb_eq in EW. subst. rewrite NW. reflexivity.
      * intros k v H. rewrite KVF in H. discriminate.
    + assert (SH4 : Inv_shape sch s4).
      { unfold s4. apply shape_upd_obj. 2: intros; unfold F; auto.
        apply (shape_fields sch s2). unfold unqueue_slot. destruct (o_pos ob1); cbn [s_objs set_tosave]; exact OBJ3. exact SH2. }
      destruct (o_pk ob1); auto.
  - (* any other live status -> marked_to_delete, queued *)
    set (s4 := if status_eqb (o_st ob1) SModified then unqueue_slot s3 (o_pos ob1) else s3).
    assert (O4 : s_objs s4 = s_objs s3 /\ s_idx s4 = s_idx s3) by (unfold s4, unqueue_slot; destruct (status_eqb (o_st ob1) SModified); try destruct (o_pos ob1); auto).
    destruct O4 as [O4 X4].
    set (s5 := upd_obj s4 o (fun x => ob_set_st x SMarked)).
    set (pos := length (s_tosave s5)).
    assert (G5 : get_obj (queue s5 o) o = Some (ob_set_pos (ob_set_st ob2 SMarked) (Some pos))).
    { unfold queue. fold pos. change (get_obj (set_modified (set_tosave (upd_obj s5 o (fun ob0 => ob_set_pos ob0 (Some pos))) (s_tosave s5 ++ [Some o])) true) o) with (get_obj (upd_obj s5 o (fun ob0 => ob_set_pos ob0 (Some pos))) o).
      rewrite get_upd_obj_same. unfold s5. rewrite get_upd_obj_same.
      replace (get_obj s4 o) with (get_obj s2 o) by (unfold get_obj; rewrite O4, OBJ3; reflexivity). rewrite G2. reflexivity. }
    assert (KVM : forall k, kview sch (ob_set_pos (ob_set_st ob2 SMarked) (Some pos)) k = match k with O => okey ob2 O | S _ => None end).
    { intros. unfold kview. cbn [o_st o_ent ob_set_st ob_set_pos]. destruct k; simpl; rewrite ?andb_false_r; reflexivity. }
    cbn [out_state]. split.
    + eapply (Inv_rekey sch s2 _ o ob2 _ I2 G2 G5).
      * reflexivity.
      * intros o' N. unfold queue. fold pos. change (get_obj (set_modified (set_tosave (upd_obj s5 o (fun ob0 => ob_set_pos ob0 (Some pos))) (s_tosave s5 ++ [Some o])) true) o') with (get_obj (upd_obj s5 o (fun ob0 => ob_set_pos ob0 (Some pos))) o').
        rewrite get_upd_obj_other by auto. unfold s5. rewrite get_upd_obj_other by auto. unfold get_obj. rewrite O4, OBJ3. reflexivity.
      * intros e' k v. rewrite KVM, KV2. rewrite KE. fold e.
        replace (idx_get (queue s5 o) e' k v) with (idx_get s3 e' k v).
        2:{ unfold queue. fold pos. unfold idx_get. cbn [s_idx set_modified set_tosave]. rewrite upd_obj_idx. unfold s5. rewrite upd_obj_idx. rewrite X4. reflexivity. }
        rewrite SPEC. destruct (Nat.eqb e' e) eqn:EE; cbn [andb]; auto. destruct k as [|a].
        -- destruct (oval_eqb (okey ob2 0) (Some v)) eqn:Q; auto. apply oval_eqb_eq in Q. apply Nat.eqb_eq in EE. subst e'.
           apply (I2 e O v o). exists ob2. repeat split; auto. rewrite KV2. exact Q.
        -- simpl. destruct (attr_uniq sch e a); simpl; auto. destruct (oval ob2 a) as [w|]; simpl; auto.
           destruct (is_vnone w) eqn:NW; simpl.
           ** destruct (val_eqb w v) eqn:EW; simpl; auto. apply val_eqb_eq in EW. subst. rewrite NW. reflexivity.
           ** destruct (val_eqb w v) eqn:EW; simpl; auto. apply val_eqb_eq in EW. subst. rewrite NW. reflexivity.
      * intros k v H N. rewrite KVM in H. rewrite KV2 in N. destruct k; [contradiction|discriminate].
    + unfold queue. eapply (shape_fields sch (upd_obj s5 o (fun ob0 => ob_set_pos ob0 (Some (length (s_tosave s5)))))). reflexivity.
      apply shape_upd_obj. 2: intros; auto. unfold s5. apply shape_upd_obj. 2: intros; auto.
      apply (shape_fields sch s2). congruence. exact SH2.
Qed.
End WithSchema3.

Section WithSchema4.
Variable sch : schema.
Hypothesis WF : wf_schema sch = true.

Lemma Pk_delete_obj : forall fuel s o, Pk sch s -> Pk sch (out_state (delete_obj fuel sch s o)).
Proof.
  induction fuel as [|f IH]; intros s o P; cbn [delete_obj]. exact P.
  destruct (get_obj s o) as [ob|] eqn:G; [|exact P].
  destruct (is_del (o_st ob)) eqn:ND. exact P.
  match goal with |- context [match ?r0 with Ok _ _ => _ | Err _ _ => _ end] => set (r := r0) end.
  assert (P0 : Pk sch (out_state r)).
  { unfold r. apply Pk_fold_out; auto. intros s0 a P0.
    destruct (attr_is_set sch (o_ent ob) a && Nat.ltb a (nattrs sch (o_ent ob))); [|exact P0].
    pose proof (Pk_coll_nonzero sch s0 o a P0) as P1. destruct (coll_nonzero sch s0 o a) as [s1 b|s1 er]; [|exact P1].
    cbn [out_state] in P1. destruct b; [|exact P1].
    destruct (set_cascade sch (o_ent ob) a).
    - match goal with |- context [match ?r1 with Ok _ _ => _ | Err _ _ => _ end] => set (r2 := r1) end.
      assert (P2 : Pk sch (out_state r2)). { unfold r2. destruct (coll_full s1 o a). exact P1. apply Pk_coll_load_noflush. exact P1. }
      destruct r2 as [s2 u|s2 er]; [|exact P2]. cbn [out_state] in P2.
      destruct (copy_assert_fails s2 o a). exact P2.
      apply Pk_fold_out; auto. eapply kframe_Pk; [apply kframe_note_order|exact P2].
    - apply Pk_coll_assign_gen; auto. }
  destruct r as [s1 u|s1 er]; [|exact P0]. cbn [out_state] in P0.
  apply Pk_delete_tail; auto.
Qed.

Lemma Pk_coll_assign : forall s o a items, Pk sch s -> Pk sch (out_state (coll_assign sch s o a items)).
Proof. intros. unfold coll_assign. apply Pk_coll_assign_gen; auto. intros. apply Pk_delete_obj; auto. Qed.

Lemma Pk_coll_remove : forall s o a items, Pk sch s -> Pk sch (out_state (coll_remove sch s o a items)).
Proof. intros. unfold coll_remove. apply Pk_coll_remove_gen; auto. intros. apply Pk_delete_obj; auto. Qed.

End WithSchema4.

(* ---------------------------------------------------------------- frame that may raise the dirty flag *)

Definition kframe_d (sch : schema) (s s' : sess) : Prop :=
  s_idx s' = s_idx s /\ (s_dirty s' = s_dirty s \/ s_dirty s' <> O) /\ length (s_objs s') = length (s_objs s) /\
  forall o a, get_obj s o = Some a -> exists b, get_obj s' o = Some b /\ kobj_eq sch a b.

Lemma kframe_to_d : forall sch s s', kframe sch s s' -> kframe_d sch s s'.
Proof. intros sch s s' (A & B & C & D). repeat split; auto. Qed.

Lemma kframe_d_trans : forall sch s1 s2 s3, kframe_d sch s1 s2 -> kframe_d sch s2 s3 -> kframe_d sch s1 s3.
Proof.
  intros sch s1 s2 s3 (A1 & A2 & A3 & A4) (B1 & B2 & B3 & B4). repeat split; try congruence.
  - destruct B2 as [B2|B2]; auto. destruct A2 as [A2|A2]. left. congruence. right. congruence.
  - intros o a H. destruct (A4 o a H) as (b & Hb & E1). destruct (B4 o b Hb) as (c & Hc & E2).
    exists c. split; auto. eapply kobj_eq_trans; eauto.
Qed.

Lemma kframe_d_mark_dirty : forall sch s site, site <> O -> kframe_d sch s (mark_dirty s site).
Proof.
  intros. repeat split; auto.
  - right. unfold mark_dirty. cbn [s_dirty]. destruct (s_dirty s); auto.
  - intros o a G. exists a. split; auto. apply kobj_eq_refl.
Qed.

Lemma kframe_d_Pk : forall sch s s', kframe_d sch s s' -> Pk sch s -> Pk sch s'.
Proof.
  intros sch s s' (A & B & C & D) P. destruct B as [B|B]; [|left; exact B].
  apply (kframe_Pk sch s s'); auto. repeat split; auto.
Qed.

Lemma kframe_d_is_del : forall sch s s' o, kframe_d sch s s' -> is_del (obj_st s' o) = is_del (obj_st s o).
Proof.
  intros sch s s' o (_ & _ & L & F). unfold obj_st. destruct (get_obj s o) as [a|] eqn:G.
  - destruct (F o a G) as (b & Hb & K). rewrite Hb. destruct K as (_ & _ & K & _). congruence.
  - rewrite (get_obj_None_len s s' o L G). reflexivity.
Qed.

Lemma any_del_kframe_d : forall sch s s' l, kframe_d sch s s' -> any_del s' l = any_del s l.
Proof. intros. unfold any_del. apply existsb_ext_eq. intros x. apply (kframe_d_is_del sch s s' x H). Qed.

Lemma kframe_d_refl : forall sch s, kframe_d sch s s.
Proof. intros. apply kframe_to_d. apply kframe_refl. Qed.

Section WithSchema5.
Variable sch : schema.
Hypothesis WF : wf_schema sch = true.

Lemma put_keys_objs : forall l s o e, s_objs (put_keys sch s o e l) = s_objs s /\ s_dirty (put_keys sch s o e l) = s_dirty s.
Proof.
  induction l as [|a l IH]; intros s o e; unfold put_keys; simpl. auto.
  set (s1 := if attr_uniq sch e a then match obj_val s o a with Some v => if is_vnone v then s else idx_put s e (S a) v o | None => s end else s).
  assert (E : s_objs s1 = s_objs s /\ s_dirty s1 = s_dirty s).
  { unfold s1. destruct (attr_uniq sch e a); auto. destruct (obj_val s o a) as [v|]; auto. destruct (is_vnone v); auto. }
  change (fold_left _ l s1) with (put_keys sch s1 o e l). destruct (IH s1 o e) as [A B]. destruct E. split; congruence.
Qed.

Lemma put_keys_spec : forall l s o e ob, get_obj s o = Some ob ->
  forall e' k v, idx_get (put_keys sch s o e l) e' k v =
    if Nat.eqb e' e && match k with
                       | O => false
                       | S a => mem_nat a l && attr_uniq sch e a && oval_eqb (oval ob a) (Some v) && negb (is_vnone v)
                       end
    then Some o else idx_get s e' k v.
Proof.
  induction l as [|a l IH]; intros s o e ob G e' k v.
  - unfold put_keys. simpl. destruct k; rewrite ?andb_false_r; reflexivity.
  - unfold put_keys. simpl. fold put_keys.
    set (s1 := if attr_uniq sch e a then match obj_val s o a with Some v0 => if is_vnone v0 then s else idx_put s e (S a) v0 o | None => s end else s).
    change (fold_left _ l s1) with (put_keys sch s1 o e l).
    assert (G1 : get_obj s1 o = Some ob).
    { unfold s1. destruct (attr_uniq sch e a); auto. destruct (obj_val s o a) as [v0|]; auto. destruct (is_vnone v0); auto. }
    rewrite (IH s1 o e ob G1 e' k v).
    assert (S1 : idx_get s1 e' k v = if Nat.eqb e' e && match k with O => false | S b => Nat.eqb b a && attr_uniq sch e a && oval_eqb (oval ob a) (Some v) && negb (is_vnone v) end then Some o else idx_get s e' k v).
    { unfold s1. rewrite (obj_val_get s o ob a G).
      destruct (attr_uniq sch e a) eqn:U; [|destruct k; rewrite ?andb_false_r; simpl; rewrite ?andb_false_r; reflexivity].
      destruct (oval ob a) as [v0|] eqn:OV; [|destruct k; rewrite ?andb_false_r; simpl; rewrite ?andb_false_r; reflexivity].
      destruct (is_vnone v0) eqn:NV.
      - destruct (Nat.eqb e' e); simpl; auto. destruct k as [|b]; auto. destruct (Nat.eqb b a); simpl; auto.
        destruct (val_eqb v0 v) eqn:EV; simpl; auto. apply val_eqb_eq in EV. subst. rewrite NV. reflexivity.
      - rewrite idx_put_char. destruct (Nat.eqb e' e); simpl; auto. destruct k as [|b]; simpl; auto.
        destruct (Nat.eqb b a); simpl; auto. rewrite (val_eqb_sym v v0).
        destruct (val_eqb v0 v) eqn:EV; simpl; auto. apply val_eqb_eq in EV. subst. rewrite NV. reflexivity. }
    rewrite S1. destruct (Nat.eqb e' e); simpl; auto. destruct k as [|b]; auto.
    destruct (Nat.eqb b a) eqn:BA; simpl; auto.
    apply Nat.eqb_eq in BA. subst b.
    destruct (attr_uniq sch e a); simpl; rewrite ?andb_false_r; auto.
    destruct (oval_eqb (oval ob a) (Some v)); simpl; rewrite ?andb_false_r; auto.
    destruct (is_vnone v); simpl; rewrite ?andb_false_r; auto.
    destruct (mem_nat a l); reflexivity.
Qed.

Lemma validate_all_length : forall s attrs a kw cs, validate_all s attrs a kw = VOk cs -> length cs = length attrs.
Proof.
  intros s attrs. induction attrs as [|at_ t IH]; intros a kw cs H; simpl in H. inversion H. reflexivity.
  destruct (match a_kind at_ with KSet tg _ => _ | _ => _ end) as [c| |]; try discriminate.
  destruct (validate_all s t (S a) kw) as [cs'| |] eqn:E; try discriminate. inversion H; subst. simpl. f_equal. eapply IH; eauto.
Qed.

Lemma Pk_handle_of : forall s o, Pk sch s -> Pk sch (fst (handle_of s o)).
Proof. intros. unfold handle_of. destruct (index_of o (s_handles s) 0); simpl; auto. Qed.

Lemma Pk_handles_of : forall os s, Pk sch s -> Pk sch (fst (handles_of s os)).
Proof.
  induction os as [|o t IH]; intros s P; simpl. exact P.
  pose proof (Pk_handle_of s o P) as P1. destruct (handle_of s o) as [s1 h]. simpl in P1.
  specialize (IH s1 P1). destruct (handles_of s1 t). exact IH.
Qed.

Lemma Pk_objs_res : forall s os, Pk sch s -> Pk sch (fst (objs_res s os)).
Proof.
  intros. unfold objs_res. pose proof (Pk_handles_of (sort_by (obj_le s) os) s H) as P1.
  destruct (handles_of s (sort_by (obj_le s) os)). exact P1.
Qed.
End WithSchema5.

Section WithSchema6.
Variable sch : schema.
Hypothesis WF : wf_schema sch = true.

Definition new_rel_step (o : oid) (e : nat) (acc : sess) (p : nat * cval) : sess :=
  match snd p with
  | CVal (VRef t) => ref_set_direct sch acc o (fst p) (VRef t)
  | CVal _ => acc
  | CSet [] => acc
  | CSet items =>
    match set_info sch e (fst p) with
    | Some (_, r_) =>
      let acc1 := fold_left (fun ac i => item_link sch ac o (fst p) r_ i) items (note_order acc items) in
      let acc1 := if negb (Nat.eqb (s_dirty acc1) O) || seteq_nat (sd_items (get_sd acc1 o (fst p))) items then acc1 else mark_dirty acc1 24 in
      set_modified (modcoll_add (put_sd acc1 o (fst p) (mkSd items items [] true (Some (Z.of_nat (length items))))) o (fst p)) true
    | None => acc
    end
  end.

Lemma kframe_d_new_rel_step : forall o e acc p, is_del (obj_st acc o) = false ->
  (forall items, snd p = CSet items -> any_del acc items = false) -> kframe_d sch acc (new_rel_step o e acc p).
Proof.
  intros o e acc p NDO AL. unfold new_rel_step. destruct (snd p) as [v|items] eqn:SP.
  - destruct v; try apply kframe_d_refl. apply kframe_to_d. apply kframe_ref_set_direct; auto.
  - destruct items as [|i0 it0]. apply kframe_d_refl. set (items := i0 :: it0) in *.
    destruct (set_info sch e (fst p)) as [[t r_]|]; try apply kframe_d_refl.
    set (acc1 := fold_left (fun ac i => item_link sch ac o (fst p) r_ i) items (note_order acc items)).
    assert (F1 : kframe sch acc acc1).
    { unfold acc1. apply (kframe_trans sch acc (note_order acc items)). apply kframe_note_order.
      apply kframe_fold_items; auto. intros. apply kframe_item_link; auto.
      rewrite (any_del_kframe sch acc (note_order acc items) items (kframe_note_order sch oid acc items)). apply AL. reflexivity. }
    set (acc2 := if negb (Nat.eqb (s_dirty acc1) O) || seteq_nat (sd_items (get_sd acc1 o (fst p))) items then acc1 else mark_dirty acc1 24).
    assert (F2 : kframe_d sch acc acc2).
    { unfold acc2. destruct (negb (Nat.eqb (s_dirty acc1) O) || seteq_nat (sd_items (get_sd acc1 o (fst p))) items). apply kframe_to_d. exact F1.
      eapply kframe_d_trans. apply kframe_to_d. exact F1. apply kframe_d_mark_dirty. discriminate. }
    eapply kframe_d_trans. exact F2. apply kframe_to_d.
    eapply kframe_trans. apply kframe_put_sd. eapply kframe_trans. apply kframe_modcoll_add. apply kframe_fields; reflexivity.
Qed.

Lemma kframe_d_new_rel_fold : forall o e ics acc, is_del (obj_st acc o) = false ->
  (forall p items, In p ics -> snd p = CSet items -> any_del acc items = false) ->
  kframe_d sch acc (fold_left (new_rel_step o e) ics acc).
Proof.
  intros o e ics. induction ics as [|p t IH]; intros acc NDO AL; simpl. apply kframe_d_refl.
  assert (F : kframe_d sch acc (new_rel_step o e acc p)).
  { apply kframe_d_new_rel_step; auto. intros items H. apply (AL p items); auto. left. reflexivity. }
  eapply kframe_d_trans. exact F. apply IH. rewrite (kframe_d_is_del sch acc _ o F). exact NDO. intros q items I H.
  rewrite (any_del_kframe_d sch acc _ items F). apply (AL q items); auto. right. exact I.
Qed.

Lemma first_bad_set_none : forall s cs a, first_bad_set s cs a = None -> forall items, In (CSet items) cs -> any_del s items = false.
Proof.
  intros s cs. induction cs as [|c t IH]; intros a H items I. destruct I.
  simpl in H. destruct c as [v|its].
  - destruct I as [I|I]. discriminate. eapply IH; eauto.
  - destruct (any_del s its) eqn:AD. discriminate. destruct I as [I|I]. inversion I; subst. exact AD. eapply IH; eauto.
Qed.

Lemma In_combine_snd : forall A B (l : list A) (m : list B) p, In p (combine l m) -> In (snd p) m.
Proof. intros A B l m [x y] H. apply in_combine_r in H. exact H. Qed.

Lemma new_obj_record_props : forall nr e pk cs upto,
  o_ent (new_obj_record nr e pk cs upto) = e /\ o_pk (new_obj_record nr e pk cs upto) = pk /\
  o_st (new_obj_record nr e pk cs upto) = SCreated /\ length (o_vals (new_obj_record nr e pk cs upto)) = length cs.
Proof.
  intros. unfold new_obj_record. cbn [o_ent o_pk o_st o_vals]. repeat split; auto.
  rewrite map_length, combine_length, seq_length. lia.
Qed.

Lemma any_del_false_lt : forall s items i, any_del s items = false -> In i items -> (i < length (s_objs s))%nat.
Proof.
  intros s items i AD I. unfold any_del in AD. destruct (lt_dec i (length (s_objs s))); auto.
  exfalso. assert (E : existsb (fun i0 => is_del (obj_st s i0)) items = true).
  { apply existsb_exists. exists i. split; auto. unfold obj_st. rewrite get_obj_ge by lia. reflexivity. }
  congruence.
Qed.
End WithSchema6.

Section WithSchema7.
Variable sch : schema.
Hypothesis WF : wf_schema sch = true.

Lemma nattrs_eq : forall e en, nth_error sch e = Some en -> nattrs sch e = length (e_attrs en).
Proof. intros. unfold nattrs. rewrite H. reflexivity. Qed.

(* the new object with its primary key and its unique keys registered (before the relationship attributes are processed) *)
Definition new_registered (s : sess) (e : nat) (pk : option Z) (cs : list cval) : sess :=
  let n := length cs in
  let ob0 := new_obj_record true e pk cs n in
  let o := length (s_objs s) in
  let s1 := set_objs s (s_objs s ++ [ob0]) in
  let s2 := match pk with Some z => idx_put s1 e 0 (VInt z) o | None => s1 end in
  put_keys sch s2 o e (seq 0 n).

Lemma Pk_new_registered : forall s e en pk kw cs,
  nth_error sch e = Some en -> validate_all s (e_attrs en) 0 kw = VOk cs ->
  key_conflicts sch s e (new_obj_record true e pk cs (length cs)) (seq 0 (length cs)) = false ->
  match pk with Some z => match idx_get s e 0 (VInt z) with Some _ => true | None => false end | None => false end = false ->
  Pk sch s ->
  Pk sch (new_registered s e pk cs) /\ s_dirty (new_registered s e pk cs) = s_dirty s /\
  (forall o', get_obj (new_registered s e pk cs) o' = if Nat.eqb o' (length (s_objs s)) then Some (new_obj_record true e pk cs (length cs)) else get_obj s o').
Proof.
  intros s e en pk kw cs EN VA KC PC P. unfold new_registered.
  set (n := length cs). set (ob0 := new_obj_record true e pk cs n).
  set (o := length (s_objs s)). set (s1 := set_objs s (s_objs s ++ [ob0])).
  set (s2 := match pk with Some z => idx_put s1 e 0 (VInt z) o | None => s1 end).
  set (s3 := put_keys sch s2 o e (seq 0 n)).
  destruct (new_obj_record_props true e pk cs n) as (OE & OP & OS & OL). fold ob0 in OE, OP, OS, OL.
  assert (NA : n = nattrs sch e) by (unfold n; rewrite (validate_all_length s _ _ _ _ VA); symmetry; apply nattrs_eq; auto).
  destruct (put_keys_objs sch (seq 0 n) s2 o e) as [OBJ3 DIRTY3]. fold s3 in OBJ3, DIRTY3.
  assert (OBJ2 : s_objs s2 = s_objs s ++ [ob0]) by (unfold s2; destruct pk; reflexivity).
  assert (G3 : forall o', get_obj s3 o' = if Nat.eqb o' o then Some ob0 else get_obj s o').
  { intros. unfold get_obj. rewrite OBJ3, OBJ2. fold (get_obj (fst (push_obj s ob0)) o'). apply get_push_obj. }
  assert (G2o : get_obj s2 o = Some ob0).
  { unfold get_obj. rewrite OBJ2. apply nth_error_app_new. }
  assert (D3 : s_dirty s3 = s_dirty s) by (rewrite DIRTY3; unfold s2; destruct pk; reflexivity).
  split; [|split; [exact D3|exact G3]].
  destruct P as [D|[I SH]]. { left. rewrite D3. exact D. }
  right. split.
  - apply (Inv_push sch s s3 ob0 I G3).
    + intros e' k v. unfold s3. rewrite (put_keys_spec sch (seq 0 n) s2 o e ob0 G2o e' k v).
      rewrite OE. unfold kview. rewrite OE, OS. cbn [key_live is_gone is_del negb].
      assert (IDX2 : idx_get s2 e' k v = if Nat.eqb e' e && Nat.eqb k 0 && oval_eqb (okey ob0 0) (Some v) then Some o else idx_get s e' k v).
      { unfold s2, okey. rewrite OP. destruct pk as [z|].
        - rewrite idx_put_char. change (idx_get s1 e' k v) with (idx_get s e' k v). simpl. rewrite (val_eqb_sym v (VInt z)). reflexivity.
        - rewrite !andb_false_r. reflexivity. }
      rewrite IDX2. destruct (Nat.eqb e' e); simpl; auto. destruct k as [|a]; simpl.
      * reflexivity.
      * rewrite andb_true_r. rewrite mem_seq. destruct (attr_uniq sch e a) eqn:U; simpl; rewrite ?andb_false_r; auto.
        rewrite NA, (attr_uniq_lt sch e a U). simpl.
        destruct (oval ob0 a) as [w|]; simpl; auto. destruct (is_vnone w) eqn:NW; simpl.
        -- destruct (val_eqb w v) eqn:EW; simpl; auto. apply val_eqb_eq in EW. subst w. rewrite NW. reflexivity.
        -- destruct (val_eqb w v) eqn:EW; simpl; auto. apply val_eqb_eq in EW. subst w. rewrite NW. reflexivity.
    + intros k v H. rewrite OE. unfold kview in H. rewrite OE, OS in H. cbn [key_live is_gone is_del negb] in H.
      destruct k as [|a].
      * simpl in H. try rewrite OP in H. destruct pk as [z|]; try discriminate. inversion H; subst v.
        destruct (idx_get s e 0 (VInt z)); [discriminate|reflexivity].
      * simpl in H. destruct (attr_uniq sch e a) eqn:U; simpl in H; try discriminate.
        destruct (oval ob0 a) as [w|] eqn:OW; try discriminate. destruct (is_vnone w) eqn:NW; try discriminate. inversion H; subst w.
        unfold key_conflicts in KC. destruct (idx_get s e (S a) v) eqn:IX; auto. exfalso.
        assert (E : existsb (fun a0 => attr_uniq sch e a0 && match oval ob0 a0 with Some v0 => negb (is_vnone v0) && match idx_get s e (S a0) v0 with Some _ => true | None => false end | None => false end) (seq 0 n) = true).
        { apply existsb_exists. exists a. split. apply in_seq. pose proof (attr_uniq_lt sch e a U) as L. apply Nat.ltb_lt in L. lia.
          rewrite U, OW, NW, IX. reflexivity. }
        fold n ob0 in KC. congruence.
  - intros o' ob'. rewrite G3. destruct (Nat.eqb o' o).
    + intro H. inversion H; subst ob'. rewrite OL, OE. exact NA.
    + apply SH.
Qed.

Lemma Pk_new_op : forall s e pk kw, Pk sch s -> Pk sch (fst (new_op sch s e pk kw)).
Proof.
  intros s e pk kw P. unfold new_op. destruct (nth_error sch e) as [en|] eqn:EN; [|exact P].
  destruct (negb (kw_handles_ok s kw)). exact P.
  destruct (existsb _ kw). exact P.
  destruct (negb (e_auto en) && match pk with None => true | Some _ => false end). exact P.
  destruct (validate_all s (e_attrs en) 0 kw) as [cs| |] eqn:VA; try exact P.
  set (n := length cs). set (ob0 := new_obj_record true e pk cs n).
  destruct (key_conflicts sch s e ob0 (seq 0 n)) eqn:KC. exact P.
  destruct (match pk with Some z => match idx_get s e 0 (VInt z) with Some _ => true | None => false end | None => false end) eqn:PC. exact P.
  destruct (first_bad_set s cs 0) as [j|] eqn:FB.
  { (* phantom *) unfold push_obj. cbn [fst]. apply Pk_dirty. discriminate. }
  unfold push_obj.
  destruct (Pk_new_registered s e en pk kw cs EN VA KC PC P) as (P3 & D3 & G3). unfold new_registered in P3, D3, G3. fold n ob0 in P3, D3, G3.
  set (o := length (s_objs s)) in *. set (s1 := set_objs s (s_objs s ++ [ob0])) in *.
  set (s2 := match pk with Some z => idx_put s1 e 0 (VInt z) o | None => s1 end) in *.
  set (s3 := put_keys sch s2 o e (seq 0 n)) in *.
  match goal with |- context [fold_left ?f (combine (seq 0 n) cs) s3] => change f with (new_rel_step sch o e) end.
  set (s4 := fold_left (new_rel_step sch o e) (combine (seq 0 n) cs) s3).
  assert (P4 : Pk sch s4).
  2:{ pose proof (Pk_handle_of sch (queue s4 o) o (kframe_Pk sch _ _ (kframe_queue sch s4 o) P4)) as P5.
      destruct (handle_of (queue s4 o) o). exact P5. }
  destruct (new_obj_record_props true e pk cs n) as (OE & OP & OS & OL). fold ob0 in OE, OP, OS, OL.
  eapply kframe_d_Pk; [|exact P3]. apply kframe_d_new_rel_fold; auto.
  { unfold obj_st. rewrite G3, Nat.eqb_refl. rewrite OS. reflexivity. }
  intros p items I SP. pose proof (In_combine_snd _ _ _ _ p I) as IC. rewrite SP in IC.
  pose proof (first_bad_set_none s cs 0 FB items IC) as AD.
  unfold any_del. rewrite <- AD. unfold any_del. apply existsb_ext_eq_in. intros i Hi.
  pose proof (any_del_false_lt s items i AD Hi) as L.
  unfold obj_st. rewrite G3. assert (Nat.eqb i o = false) by (apply Nat.eqb_neq; unfold o; lia). rewrite H. reflexivity.
Qed.
End WithSchema7.

(* ---------------------------------------------------------------- assignments *)

Lemma Pk_key_set : forall sch s o e a nv,
  Pk sch s -> attr_uniq sch e a = true -> key_conflict s o e a nv = false -> Pk sch (key_set s o e a nv).
Proof.
  intros sch s o e a nv P U NC. unfold key_set. destruct (get_obj s o) as [ob|] eqn:G; [|exact P].
  destruct (is_del (o_st ob) || negb (Nat.eqb (o_ent ob) e)) eqn:GU. exact P.
  apply orb_false_iff in GU. destruct GU as [ND EE]. apply negb_false_iff in EE. apply Nat.eqb_eq in EE.
  destruct (oval_eqb (oval ob a) (Some nv)) eqn:SAME. exact P.
  set (s2 := if is_vnone nv then s else idx_put s e (S a) nv o).
  set (s3 := match oval ob a with Some ov => if is_vnone ov then s2 else idx_del s2 e (S a) ov | None => s2 end).
  destruct P as [D|[I SH]].
  { left. rewrite upd_obj_dirty. unfold s3, s2. destruct (oval ob a) as [ov|]; try destruct (is_vnone ov); destruct (is_vnone nv); exact D. }
  right.
  assert (LT : (a < length (o_vals ob))%nat).
  { rewrite (SH o ob G). rewrite EE. apply Nat.ltb_lt. apply attr_uniq_lt. exact U. }
  assert (G3 : forall o', get_obj s3 o' = get_obj s o').
  { intros. unfold s3, s2. destruct (oval ob a) as [ov|]; try destruct (is_vnone ov); destruct (is_vnone nv); reflexivity. }
  set (ob' := ob_put_val ob a (Some nv)).
  assert (KN : kview sch ob' (S a) = if is_vnone nv then None else Some nv).
  { unfold kview, ob'. cbn [o_ent o_st ob_put_val ob_set_vals]. rewrite EE. simpl. rewrite U, ND. simpl.
    fold (ob_set_vals ob (upd_nth (o_vals ob) a (Some nv))). fold (ob_put_val ob a (Some nv)). rewrite oval_put_same by exact LT. reflexivity. }
  assert (KO : kview sch ob (S a) = match oval ob a with Some v => if is_vnone v then None else Some v | None => None end).
  { unfold kview. rewrite EE. simpl. rewrite U, ND. reflexivity. }
  split.
  - eapply (Inv_rekey_slot sch s _ o ob ob' (S a) I G).
    + rewrite get_upd_obj_same, G3, G. reflexivity.
    + reflexivity.
    + intros o' N. rewrite get_upd_obj_other by auto. apply G3.
    + intros k N. apply kview_put_val_other. exact N.
    + intros e' k v. rewrite idx_get_upd_obj. rewrite KN, KO, EE.
      assert (X : idx_get s3 e' k v =
                  if Nat.eqb e' e && Nat.eqb k (S a) && match oval ob a with Some ov => negb (is_vnone ov) && val_eqb v ov | None => false end then None
                  else if Nat.eqb e' e && Nat.eqb k (S a) && negb (is_vnone nv) && val_eqb v nv then Some o else idx_get s e' k v).
      { unfold s3, s2. destruct (oval ob a) as [ov|].
        - destruct (is_vnone ov) eqn:NO; simpl.
          + rewrite andb_false_r. destruct (is_vnone nv); simpl. rewrite !andb_false_r. reflexivity.
            rewrite idx_put_char. rewrite andb_true_r. reflexivity.
          + rewrite idx_del_char. destruct (is_vnone nv); simpl.
            * rewrite !andb_false_r. reflexivity.
            * rewrite idx_put_char. rewrite !andb_true_r. reflexivity.
        - rewrite andb_false_r. destruct (is_vnone nv); simpl. rewrite !andb_false_r. reflexivity.
          rewrite idx_put_char. rewrite andb_true_r. reflexivity. }
      rewrite X. destruct (Nat.eqb e' e); simpl; auto. destruct (Nat.eqb k (S a)); simpl; auto.
      destruct (is_vnone nv) eqn:NN; simpl.
      * destruct (oval ob a) as [ov|]; simpl; auto. destruct (is_vnone ov) eqn:NO; simpl; auto.
        rewrite (val_eqb_sym v ov). reflexivity.
      * rewrite (val_eqb_sym v nv). destruct (val_eqb nv v) eqn:EV.
        -- apply val_eqb_eq in EV. subst v. destruct (oval ob a) as [ov|] eqn:OV; simpl; auto.
           destruct (is_vnone ov) eqn:NO; simpl; auto. destruct (val_eqb nv ov) eqn:E2; auto.
           apply val_eqb_eq in E2. subst ov. simpl in SAME. rewrite val_eqb_refl in SAME. discriminate.
        -- destruct (oval ob a) as [ov|]; simpl; auto. destruct (is_vnone ov); simpl; auto. rewrite (val_eqb_sym v ov). reflexivity.
    + intros v H1 H2. rewrite KN in H1. destruct (is_vnone nv) eqn:NN; try discriminate. inversion H1; subst v.
      rewrite EE. unfold key_conflict in NC. rewrite (obj_val_get s o ob a G) in NC. rewrite NN in NC. simpl in NC.
      destruct (idx_get s e (S a) nv) as [o2|] eqn:IX; auto.
      assert (VN : negb (val_eqb (match oval ob a with Some ov => ov | None => VNone end) nv) = true).
      { destruct (oval ob a) as [ov|]; simpl in *. rewrite SAME. reflexivity. destruct nv; simpl in *; auto; discriminate. }
      rewrite VN in NC. simpl in NC. apply negb_false_iff in NC. apply Nat.eqb_eq in NC. subst o2.
      exfalso. apply (I e (S a) nv o) in IX. destruct IX as (b & Hb & _ & Hk). rewrite G in Hb. inversion Hb; subst b. contradiction.
  - apply shape_upd_obj. 2:{ intros ob2. split. reflexivity. unfold ob_put_val, ob_set_vals. cbn [o_vals]. apply upd_nth_length. }
    intros o' obx Hx. rewrite G3 in Hx. apply (SH o' obx Hx).
Qed.

Section WithSchema8.
Variable sch : schema.
Hypothesis WF : wf_schema sch = true.

Lemma attr_uniq_get : forall e a at_, get_attr sch e a = Some at_ -> attr_uniq sch e a = a_uniq at_.
Proof. intros. unfold attr_uniq. rewrite H. reflexivity. Qed.

Lemma kframe_put_plain_val : forall s o a v, attr_uniq sch (obj_ent s o) a = false ->
  kframe sch s (upd_obj s o (fun ob => ob_put_val ob a v)).
Proof.
  intros. apply kframe_upd_obj. intros ob G. apply kobj_eq_val. rewrite <- (obj_ent_get s o ob G). exact H.
Qed.

Lemma Pk_set_op : forall s h a v, Pk sch s -> Pk sch (fst (set_op sch s h a v)).
Proof.
  intros s h a v P. unfold set_op. destruct (hget s h) as [o|]; [|exact P].
  destruct (get_attr sch (obj_ent s o) a) as [at_|] eqn:GA; [|exact P].
  destruct (is_set_kind (a_kind at_)). exact P.
  destruct (negb (handles_ok s (arg_handles v))). exact P.
  destruct (is_del (obj_st s o)) eqn:ND. exact P.
  destruct (validate s at_ (Some v)) as [nv| |]; try exact P.
  pose proof (kframe_mark_written sch s o a ND) as F1.
  destruct (is_ref_kind (a_kind at_)).
  { cbn [fst]. eapply kframe_Pk; [|exact P]. apply kframe_ref_set_direct; auto. }
  destruct (negb (a_uniq at_)) eqn:NU.
  { cbn [fst]. eapply kframe_Pk; [|exact P]. eapply kframe_trans. exact F1. apply kframe_put_plain_val.
    rewrite (kframe_obj_ent sch s _ o F1). rewrite (attr_uniq_get _ _ _ GA). apply negb_true_iff in NU. exact NU. }
  pose proof (kframe_Pk sch _ _ F1 P) as P1.
  destruct (oval_eqb (obj_val s o a) (Some nv)). exact P1.
  destruct (key_conflict (mark_written s o a) o (obj_ent s o) a nv) eqn:KC.
  { cbn [fst]. eapply Pk_fields; [reflexivity|reflexivity|reflexivity|exact P]. }
  cbn [fst]. apply Pk_key_set; auto. rewrite (attr_uniq_get _ _ _ GA). apply negb_false_iff in NU. exact NU.
Qed.

Lemma Pk_key_set_checked : forall s o e a nv, Pk sch s -> Pk sch (key_set_checked sch s o e a nv).
Proof.
  intros. unfold key_set_checked. destruct (negb (attr_uniq sch e a) || key_conflict s o e a nv) eqn:C.
  apply Pk_dirty_keep. exact H. apply orb_false_iff in C. destruct C as [C1 C2]. apply negb_false_iff in C1.
  apply Pk_key_set; auto.
Qed.

Lemma est_same_key_set : forall s o e a nv, est_same s (key_set s o e a nv).
Proof.
  intros. unfold key_set. destruct (get_obj s o) as [ob|]; [|apply est_same_refl].
  destruct (is_del (o_st ob) || negb (Nat.eqb (o_ent ob) e)). apply est_same_refl.
  destruct (oval_eqb (oval ob a) (Some nv)). apply est_same_refl.
  eapply est_same_trans; [|apply est_same_upd_obj; intros; auto].
  apply est_same_objs. destruct (oval ob a) as [ov|]; try destruct (is_vnone ov); destruct (is_vnone nv); reflexivity.
Qed.

Lemma setmany_apply_ok : forall s o e p,
  Pk sch s -> is_del (obj_st s o) = false -> obj_ent s o = e ->
  Pk sch (setmany_apply sch o e s p) /\ is_del (obj_st (setmany_apply sch o e s p) o) = false /\ obj_ent (setmany_apply sch o e s p) o = e.
Proof.
  intros s o e p P ND EE. unfold setmany_apply. destruct (attr_uniq sch e (fst p)) eqn:U.
  - split. apply Pk_key_set_checked; auto.
    unfold key_set_checked. destruct (negb (attr_uniq sch e (fst p)) || key_conflict s o e (fst p) (snd p)).
    + split; auto.
    + destruct (est_same_key_set s o e (fst p) (snd p) o) as [A B]. rewrite A, B. auto.
  - destruct (attr_is_ref sch e (fst p)).
    + pose proof (kframe_ref_set_direct sch WF s o (fst p) (snd p) ND) as F. split. eapply kframe_Pk; eauto.
      rewrite (kframe_is_del sch s _ o F), (kframe_obj_ent sch s _ o F). auto.
    + assert (F : kframe sch s (upd_obj s o (fun ob => ob_put_val ob (fst p) (Some (snd p))))) by (apply kframe_put_plain_val; rewrite EE; exact U).
      split. eapply kframe_Pk; eauto. rewrite (kframe_is_del sch s _ o F), (kframe_obj_ent sch s _ o F). auto.
Qed.

Lemma Pk_setmany_op : forall s h kw, Pk sch s -> Pk sch (fst (setmany_op sch s h kw)).
Proof.
  intros s h kw P. unfold setmany_op. destruct (hget s h) as [o|]; [|exact P].
  set (e := obj_ent s o).
  destruct (existsb _ kw). exact P. destruct (negb (kw_handles_ok s kw)). exact P.
  destruct (is_del (obj_st s o)). exact P.
  destruct (validate_kw sch s e kw) as [cs| |]; try exact P.
  set (avs := flat_map (fun p => match snd p with CVal v => [(fst p, v)] | CSet _ => [] end) cs).
  set (cavs := flat_map (fun p => match snd p with CSet l => [(fst p, l)] | CVal _ => [] end) cs).
  match goal with |- context [match ?r0 with Ok _ _ => _ | Err _ _ => _ end] => set (r := r0) end.
  assert (P0 : Pk sch (out_state r)).
  { unfold r. destruct avs. exact P. match goal with |- context [if ?c then _ else _] => destruct c end. apply Pk_load_obj_noflush. exact P. exact P. }
  destruct r as [s1 u|s1 er]; [|exact P0]. cbn [out_state] in P0.
  destruct (is_del (obj_st s1 o) || negb (Nat.eqb (obj_ent s1 o) e)) eqn:CHK. cbn [fst]. apply Pk_dirty. discriminate.
  apply orb_false_iff in CHK. destruct CHK as [ND1 EE1]. apply negb_false_iff in EE1. apply Nat.eqb_eq in EE1.
  set (s2 := fold_left (fun acc p => mark_written acc o (fst p)) avs s1).
  assert (F2 : kframe sch s1 s2).
  { unfold s2. clear -ND1. revert s1 ND1. induction avs as [|p t IH]; intros s1 ND1; simpl. apply kframe_refl.
    pose proof (kframe_mark_written sch s1 o (fst p) ND1) as F. eapply kframe_trans. exact F. apply IH.
    rewrite (kframe_is_del sch s1 _ o F). exact ND1. }
  pose proof (kframe_Pk sch _ _ F2 P0) as P2.
  assert (ND2 : is_del (obj_st s2 o) = false) by (rewrite (kframe_is_del sch s1 s2 o F2); exact ND1).
  assert (EE2 : obj_ent s2 o = e) by (rewrite (kframe_obj_ent sch s1 s2 o F2); exact EE1).
  set (avs' := filter (fun p => negb (oval_eqb (obj_val s2 o (fst p)) (Some (snd p)))) avs).
  match goal with |- context [setmany_scan o e s2 false ?k] => destruct (setmany_scan o e s2 false k) as [[sio ch] cf] end.
  match goal with |- context [if ?c then (mark_declined s, RDecline) else _] => destruct c end. exact P.
  destruct cf. { destruct entity_set_registers_undo; cbn [fst]. exact P0. destruct ch. apply Pk_dirty. discriminate. exact P2. }
  assert (P3 : Pk sch (fold_left (setmany_apply sch o e) avs' s2)).
  { generalize avs'. intro l. generalize P2 ND2 EE2. generalize s2. clear -WF.
    induction l as [|p t IH]; intros s0 Q2 D2 E2; simpl. exact Q2.
    destruct (setmany_apply_ok s0 o e p Q2 D2 E2) as (A & B & C). apply IH; auto. }
  pose proof (Pk_fold_out sch _ (fun acc p => coll_assign sch acc o (fst p) (snd p)) cavs _ (fun s0 x P0 => Pk_coll_assign sch WF s0 o (fst x) (snd x) P0) P3) as P4.
  destruct (fold_out (fun acc p => coll_assign sch acc o (fst p) (snd p)) (fold_left (setmany_apply sch o e) avs' s2) cavs) as [s4 u4|s4 er].
  - exact P4.
  - cbn [fst]. apply Pk_dirty. discriminate.
Qed.
End WithSchema8.

(* ---------------------------------------------------------------- the remaining operations, step, run *)

Section WithSchema9.
Variable sch : schema.
Hypothesis WF : wf_schema sch = true.

Lemma Pk_lift_unit : forall r, Pk sch (out_state r) -> Pk sch (fst (lift_unit r)).
Proof. intros [s u|s er] H; exact H. Qed.

Lemma Pk_delete_op : forall s h, Pk sch s -> Pk sch (fst (delete_op sch s h)).
Proof.
  intros s h P. unfold delete_op. destruct (hget s h) as [o|]; [|exact P].
  assert (H : Pk sch (out_state (delete_obj (del_fuel sch s) sch s o))) by (apply Pk_delete_obj; auto). destruct (delete_obj (del_fuel sch s) sch s o) as [s1 u|s1 er]; cbn [fst].
  exact H. apply Pk_dirty. discriminate.
Qed.

Lemma Pk_coll_op : forall s k h a hs, Pk sch s -> Pk sch (fst (coll_op sch s k h a hs)).
Proof.
  intros s k h a hs P. unfold coll_op. destruct (hget s h) as [o|]; [|exact P].
  destruct (get_attr sch (obj_ent s o) a) as [at_|]; [|exact P].
  destruct (a_kind at_); try exact P.
  destruct (negb (handles_ok s hs)). exact P. destruct (is_del (obj_st s o)). exact P.
  destruct (validate_set s tgt (Some (AObjs hs))) as [items| |]; try exact P.
  apply Pk_lift_unit. destruct k. apply Pk_coll_add; auto. apply Pk_coll_remove; auto. apply Pk_coll_assign; auto.
Qed.

Lemma Pk_read_op : forall s h a, Pk sch s -> Pk sch (fst (read_op sch s h a)).
Proof.
  intros s h a P. unfold read_op. destruct (hget s h) as [o|]; [|exact P].
  destruct (get_attr sch (obj_ent s o) a) as [at_|]; [|exact P].
  destruct (a_kind at_) eqn:K.
  1,2,3: (destruct (is_gone (obj_st s o)); [exact P|];
    assert (FIN : forall s1, Pk sch s1 -> Pk sch (fst (match obj_val s1 o a with
            | Some (VRef x) => let '(s2, hx) := handle_of s1 x in (s2, RObj hx)
            | Some VNone => if is_ref_kind (a_kind at_) then (s1, RNoneObj) else (s1, RVal VNone)
            | Some v => (s1, RVal v)
            | None => (s1, RErr EKeyError) end)));
    [ intros s1 P1; destruct (obj_val s1 o a) as [[| | |x]|]; try exact P1;
      try (destruct (is_ref_kind (a_kind at_)); exact P1);
      try (pose proof (Pk_handle_of sch s1 x P1) as Q; destruct (handle_of s1 x); exact Q) |];
    rewrite K in FIN;
    destruct (obj_val s o a) as [v0|] eqn:OV;
    [ destruct v0 as [| | |x]; try exact P;
      try (match goal with |- context [if ?c then _ else _] => destruct c end; exact P);
      try (pose proof (Pk_handle_of sch s x P) as Q; destruct (handle_of s x); exact Q) |];
    pose proof (Pk_auto_flush sch s P) as P1; destruct (auto_flush sch s) as [s1 u|s1 er]; [|exact P1];
    pose proof (Pk_load_obj_noflush sch s1 o P1) as P2; destruct (load_obj_noflush sch s1 o) as [s2 u2|s2 er]; [|exact P2];
    apply FIN; exact P2).
  destruct (is_del (obj_st s o)). exact P.
  destruct (has_sd s o a && coll_full s o a).
  { destruct (copy_assert_fails s o a). exact P. apply Pk_objs_res; auto. }
  pose proof (Pk_auto_flush sch s P) as P1. destruct (auto_flush sch s) as [s1 u|s1 er]; [|exact P1].
  pose proof (Pk_coll_load_noflush sch s1 o a P1) as P2. destruct (coll_load_noflush sch s1 o a) as [s2 u2|s2 er]; [|exact P2].
  destruct (copy_assert_fails s2 o a). exact P2. apply Pk_objs_res; auto.
Qed.
End WithSchema9.

Section WithSchema10.
Variable sch : schema.
Hypothesis WF : wf_schema sch = true.

Lemma Pk_with_set_attr : forall s h a k,
  (forall o tg r, Pk sch (fst (k o tg r))) -> Pk sch s -> Pk sch (fst (with_set_attr sch s h a k)).
Proof.
  intros s h a k K P. unfold with_set_attr. destruct (hget s h) as [o|]; [|exact P].
  destruct (get_attr sch (obj_ent s o) a) as [at_|]; [|exact P]. destruct (a_kind at_); try exact P. apply K.
Qed.

Lemma Pk_count_op : forall s h a, Pk sch s -> Pk sch (fst (count_op sch s h a)).
Proof.
  intros s h a P. unfold count_op. apply Pk_with_set_attr; auto. intros o tg r.
  destruct (is_del (obj_st s o)). exact P.
  assert (P0 : Pk sch (coll_ensure s o a)) by (eapply kframe_Pk; [apply kframe_coll_ensure|exact P]).
  destruct (sd_count (get_sd (coll_ensure s o a) o a)).
  - destruct (has_sd s o a); assumption.
  - cbn [fst]. eapply kframe_Pk; [apply kframe_put_sd|exact P0].
Qed.

Lemma Pk_isempty_op : forall s h a, Pk sch s -> Pk sch (fst (isempty_op sch s h a)).
Proof.
  intros s h a P. unfold isempty_op. apply Pk_with_set_attr; auto. intros o tg r.
  destruct (is_del (obj_st s o)). exact P.
  assert (P0 : Pk sch (coll_ensure s o a)) by (eapply kframe_Pk; [apply kframe_coll_ensure|exact P]).
  repeat (match goal with |- context [if ?c then _ else _] => destruct c end; try exact P0).
  pose proof (Pk_auto_flush sch _ P0) as P1. destruct (auto_flush sch (coll_ensure s o a)) as [s1 u|s1 er]; [|exact P1].
  match goal with |- context [load_rows sch s1 tg ?rows] => pose proof (Pk_load_rows sch rows s1 tg P1) as P2; destruct (load_rows sch s1 tg rows) as [s2 os|s2 er] end; [|exact P2].
  destruct (sd_items (get_sd s2 o a)). cbn [fst]. eapply kframe_Pk; [apply kframe_put_sd|exact P2]. exact P2.
Qed.

Lemma Pk_contains_op : forall s h a h2, Pk sch s -> Pk sch (fst (contains_op sch s h a h2)).
Proof.
  intros s h a h2 P. unfold contains_op. apply Pk_with_set_attr; auto. intros o tg r.
  destruct (hget s h2) as [item|]; [|exact P]. destruct (is_del (obj_st s o)). exact P.
  destruct (negb (Nat.eqb (obj_ent s item) tg)). exact P.
  destruct (obj_val s item r) eqn:OV. exact P.
  pose proof (Pk_auto_flush sch s P) as P1. destruct (auto_flush sch s) as [s1 u|s1 er]; [|exact P1].
  pose proof (Pk_load_obj_noflush sch s1 item P1) as P2. destruct (load_obj_noflush sch s1 item) as [s2 u2|s2 er]; [|exact P2].
  destruct (obj_val s2 item r); exact P2.
Qed.

Lemma Pk_getpk_op : forall s e v, Pk sch s -> Pk sch (fst (getpk_op sch s e v)).
Proof.
  intros s e v P. unfold getpk_op. destruct (nth_error sch e) as [en|]; [|exact P].
  destruct v; try exact P.
  - destruct (e_auto en); [|exact P]. pose proof (Pk_auto_flush sch s P) as P1. destruct (auto_flush sch s); exact P1.
  - destruct (idx_get s e 0 (VInt z)) as [o|].
    + destruct (status_eqb (obj_st s o) SMarked). exact P. pose proof (Pk_handle_of sch s o P) as Q. destruct (handle_of s o). exact Q.
    + pose proof (Pk_auto_flush sch s P) as P1. destruct (auto_flush sch s) as [s1 u|s1 er]; [|exact P1].
      destruct (find_row (tab (s_db s1) e) z) as [r|]; [|exact P1].
      pose proof (Pk_load_row sch s1 e r P1) as P2. destruct (load_row sch s1 e r) as [s2 [o|]|s2 er]; try exact P2.
      pose proof (Pk_handle_of sch s2 o P2) as Q. destruct (handle_of s2 o). exact Q.
Qed.

Lemma Pk_getby_op : forall s e a v, Pk sch s -> Pk sch (fst (getby_op sch s e a v)).
Proof.
  intros s e a v P. unfold getby_op. destruct (get_attr sch e a) as [at_|]; [|exact P].
  destruct (negb (handles_ok s (arg_handles v))). exact P.
  destruct (a_kind at_) eqn:K.
  4:{ destruct (validate_set s tgt (Some v)); exact P. }
  all: destruct (validate s at_ (Some v)) as [cv| |]; try exact P;
    (match goal with |- context [match ?c with Some _ => _ | None => _ end] => destruct c as [o|] end;
     [ repeat (match goal with |- context [if ?c then _ else _] => destruct c end; try exact P);
       pose proof (Pk_handle_of sch s o P) as Q; destruct (handle_of s o); exact Q |]);
    pose proof (Pk_auto_flush sch s P) as P1; destruct (auto_flush sch s) as [s1 u|s1 er]; [|exact P1];
    match goal with |- context [if ?c then _ else _] => destruct c end; [exact P1|];
    match goal with |- context [load_rows sch s1 ?ee ?rows] => pose proof (Pk_load_rows sch rows s1 ee P1) as P2; destruct (load_rows sch s1 ee rows) as [s2 [|o os]|s2 er] end; try exact P2;
    pose proof (Pk_handle_of sch s2 o P2) as Q; destruct (handle_of s2 o); exact Q.
Qed.

Lemma Pk_select_op : forall s e a v, Pk sch s -> Pk sch (fst (select_op sch s e a v)).
Proof.
  intros s e a v P. unfold select_op. destruct (get_attr sch e a) as [at_|]; [|exact P].
  destruct (negb (handles_ok s (arg_handles v))). exact P.
  destruct (a_kind at_); try exact P;
    (destruct (validate s at_ (Some v)) as [cv| |]; try exact P;
     pose proof (Pk_auto_flush sch s P) as P1; destruct (auto_flush sch s) as [s1 u|s1 er]; [|exact P1];
     match goal with |- context [load_rows sch s1 ?ee ?rows] => pose proof (Pk_load_rows sch rows s1 ee P1) as P2; destruct (load_rows sch s1 ee rows) as [s2 os|s2 er] end; [|exact P2];
     apply Pk_objs_res; auto).
Qed.

Lemma Pk_selectall_op : forall s e, Pk sch s -> Pk sch (fst (selectall_op sch s e)).
Proof.
  intros s e P. unfold selectall_op. destruct (nth_error sch e); [|exact P].
  pose proof (Pk_auto_flush sch s P) as P1. destruct (auto_flush sch s) as [s1 u|s1 er]; [|exact P1].
  pose proof (Pk_load_rows sch (tab (s_db s1) e) s1 e P1) as P2. destruct (load_rows sch s1 e (tab (s_db s1) e)) as [s2 os|s2 er]; [|exact P2].
  apply Pk_objs_res; auto.
Qed.

Lemma Pk_reset : forall d, Pk sch (reset_sess d).
Proof.
  intros. right. split.
  - intros e k v o. unfold idx_get, get_obj, reset_sess. cbn [s_idx s_objs aget]. split. discriminate.
    intros (ob & H & _). destruct o; discriminate.
  - intros o ob H. unfold get_obj, reset_sess in H. cbn [s_objs] in H. destruct o; discriminate.
Qed.

Lemma Pk_keep_declined : forall s0 s1, Pk sch s1 -> Pk sch (keep_declined s0 s1).
Proof. intros. unfold keep_declined. destruct (s_declined s0); exact H. Qed.

Lemma Pk_flushobj_op : forall s h, Pk sch s -> Pk sch (fst (flushobj_op sch s h)).
Proof.
  intros s h P. unfold flushobj_op. destruct (hget s h) as [o|]; [|exact P]. destruct (get_obj s o) as [ob|]; [|exact P].
  assert (X : Pk sch (fst (flushobj_go sch s o ob))).
  { unfold flushobj_go. destruct (o_pos ob); [|exact P]. destruct (s_savedpend s). exact P.
    assert (Q : Pk sch (out_state (save_obj (S (length (s_objs s))) sch s o []))) by (apply Pk_save_obj; auto).
    destruct (save_obj (S (length (s_objs s))) sch s o []) as [s1 u|s1 er]; exact Q. }
  destruct (o_st ob); try exact P; try exact X.
  match goal with |- context [if ?c then _ else _] => destruct c end. exact P. exact X.
Qed.

Lemma Pk_step : forall s op, Pk sch s -> Pk sch (fst (step sch s op)).
Proof.
  intros s op P. unfold step. destruct (s_declined s). exact P.
  destruct op.
  - apply Pk_new_op; auto.
  - apply Pk_set_op; auto.
  - apply Pk_setmany_op; auto.
  - apply Pk_delete_op; auto.
  - apply Pk_coll_op; auto.
  - apply Pk_coll_op; auto.
  - apply Pk_coll_op; auto.
  - apply Pk_read_op; auto.
  - unfold pk_op. destruct (hget s h); exact P.
  - apply Pk_count_op; auto.
  - apply Pk_isempty_op; auto.
  - apply Pk_contains_op; auto.
  - apply Pk_getpk_op; auto.
  - apply Pk_getby_op; auto.
  - apply Pk_select_op; auto.
  - apply Pk_selectall_op; auto.
  - unfold flush_op. apply Pk_lift_unit. apply Pk_flush; auto.
  - unfold commit_op. pose proof (Pk_flush sch s P) as P1. destruct (flush sch s) as [s1 u|s1 er]; cbn [fst].
    exact P1. apply Pk_keep_declined. apply Pk_reset.
  - unfold rollback_op. cbn [fst]. apply Pk_keep_declined. apply Pk_reset.
  - unfold newsession_op. destruct (flush sch s) as [s1 u|s1 er]; cbn [fst]; apply Pk_keep_declined; apply Pk_reset.
  - apply Pk_flushobj_op; auto.
Qed.

Lemma Pk_init : Pk sch (init_sess sch).
Proof.
  right. split.
  - intros e k v o. unfold idx_get, get_obj, init_sess. cbn [s_idx s_objs aget]. split. discriminate.
    intros (ob & H & _). destruct o; discriminate.
  - intros o ob H. unfold get_obj, init_sess in H. cbn [s_objs] in H. destruct o; discriminate.
Qed.

Lemma Pk_run : forall ops, Pk sch (run sch ops).
Proof.
  intros ops. unfold run. generalize (init_sess sch) Pk_init. induction ops as [|op t IH]; intros s P; simpl. exact P.
  apply IH. apply Pk_step. exact P.
Qed.

(* C11 *)
Theorem idx_invariant_all_histories : forall ops, s_dirty (run sch ops) = O -> Inv_idx sch (run sch ops).
Proof. intros ops D. destruct (Pk_run ops) as [H|[H _]]. contradiction. exact H. Qed.

Theorem identity_map_functional : forall ops o1 o2 ob1 ob2 z,
  s_dirty (run sch ops) = O ->
  get_obj (run sch ops) o1 = Some ob1 -> get_obj (run sch ops) o2 = Some ob2 ->
  o_ent ob1 = o_ent ob2 -> o_pk ob1 = Some z -> o_pk ob2 = Some z ->
  is_gone (o_st ob1) = false -> is_gone (o_st ob2) = false -> o1 = o2.
Proof.
  intros ops o1 o2 ob1 ob2 z D G1 G2 E P1 P2 L1 L2.
  pose proof (idx_invariant_all_histories ops D) as I.
  assert (H1 : idx_get (run sch ops) (o_ent ob1) O (VInt z) = Some o1).
  { apply (I (o_ent ob1) O (VInt z) o1). exists ob1. repeat split; auto. unfold kview. simpl. rewrite L1, P1. reflexivity. }
  assert (H2 : idx_get (run sch ops) (o_ent ob1) O (VInt z) = Some o2).
  { apply (I (o_ent ob1) O (VInt z) o2). exists ob2. repeat split; auto. unfold kview. simpl. rewrite L2, P2. reflexivity. }
  congruence.
Qed.
End WithSchema10.
