(* C11: the identity map and the unique-key indexes agree with the objects of the session, for every history.
   Inv_idx is the invariant; Pk s := "a dirty site was reached, or Inv_idx s" is what every model function preserves. *)
Require Import PonyV.Model.SessionBase PonyV.Model.SessionDb PonyV.Model.Session.
Require Import PonyV.Proofs.SessionLemmas PonyV.Proofs.SessionState.
From Coq Require Import Arith.

Definition is_key (sch : schema) (e k : nat) : bool := match k with O => true | S a => attr_uniq sch e a end.
Definition key_live (k : nat) (st : status) : bool := match k with O => negb (is_gone st) | S _ => negb (is_del st) end.
Definition okey (ob : obj) (k : nat) : option val :=
  match k with
  | O => match o_pk ob with Some z => Some (VInt z) | None => None end
  | S a => match oval ob a with Some v => if is_vnone v then None else Some v | None => None end
  end.
(* the value under which the object has to be found in index slot k, if any *)
Definition kview (sch : schema) (ob : obj) (k : nat) : option val :=
  if is_key sch (o_ent ob) k && key_live k (o_st ob) then okey ob k else None.

Definition Inv_idx (sch : schema) (s : sess) : Prop :=
  forall e k v o, idx_get s e k v = Some o <-> exists ob, get_obj s o = Some ob /\ o_ent ob = e /\ kview sch ob k = Some v.

Definition Pk (sch : schema) (s : sess) : Prop := s_dirty s <> O \/ Inv_idx sch s.

(* ---------------------------------------------------------------- frame: changes that no index can see *)

Definition kobj_eq (sch : schema) (a b : obj) : Prop :=
  o_ent a = o_ent b /\ o_pk a = o_pk b /\ is_del (o_st a) = is_del (o_st b) /\ is_gone (o_st a) = is_gone (o_st b) /\
  (status_eqb (o_st a) SCreated = status_eqb (o_st b) SCreated) /\
  forall x, attr_uniq sch (o_ent a) x = true -> oval a x = oval b x.

Definition kframe (sch : schema) (s s' : sess) : Prop :=
  s_idx s' = s_idx s /\ s_dirty s' = s_dirty s /\ length (s_objs s') = length (s_objs s) /\
  forall o a, get_obj s o = Some a -> exists b, get_obj s' o = Some b /\ kobj_eq sch a b.

Lemma kobj_eq_refl : forall sch a, kobj_eq sch a a.
Proof. unfold kobj_eq. intuition. Qed.

Lemma kobj_eq_trans : forall sch a b c, kobj_eq sch a b -> kobj_eq sch b c -> kobj_eq sch a c.
Proof.
  unfold kobj_eq. intros sch a b c (A1 & A2 & A3 & A4 & A5 & A6) (B1 & B2 & B3 & B4 & B5 & B6).
  repeat split; try congruence. intros x H. rewrite A6 by assumption. apply B6. rewrite <- A1. assumption.
Qed.

Lemma kobj_eq_kview : forall sch a b, kobj_eq sch a b -> forall k, kview sch a k = kview sch b k.
Proof.
  intros sch a b (A1 & A2 & A3 & A4 & A5 & A6) k. unfold kview. rewrite <- A1.
  destruct k as [|x]; simpl.
  - rewrite A4, A2. reflexivity.
  - rewrite A3. destruct (attr_uniq sch (o_ent a) x) eqn:U; simpl; auto. rewrite A6 by assumption. reflexivity.
Qed.

Lemma kframe_refl : forall sch s, kframe sch s s.
Proof. intros. repeat split; auto. intros o a H. exists a. split; auto. apply kobj_eq_refl. Qed.

Lemma kframe_trans : forall sch s1 s2 s3, kframe sch s1 s2 -> kframe sch s2 s3 -> kframe sch s1 s3.
Proof.
  intros sch s1 s2 s3 (A1 & A2 & A3 & A4) (B1 & B2 & B3 & B4). repeat split; try congruence.
  intros o a H. destruct (A4 o a H) as (b & Hb & E1). destruct (B4 o b Hb) as (c & Hc & E2).
  exists c. split; auto. eapply kobj_eq_trans; eauto.
Qed.

Lemma get_obj_None_len : forall s s' o, length (s_objs s') = length (s_objs s) -> get_obj s o = None -> get_obj s' o = None.
Proof.
  intros. apply get_obj_ge. rewrite H. unfold get_obj in H0. apply nth_error_None. assumption.
Qed.

Lemma kframe_back : forall sch s s' o b, kframe sch s s' -> get_obj s' o = Some b -> exists a, get_obj s o = Some a /\ kobj_eq sch a b.
Proof.
  intros sch s s' o b (A1 & A2 & A3 & A4) H. destruct (get_obj s o) as [a|] eqn:E.
  - destruct (A4 o a E) as (b' & Hb & K). exists a. split; auto. congruence.
  - rewrite (get_obj_None_len s s' o A3 E) in H. discriminate.
Qed.

Lemma kframe_Inv : forall sch s s', kframe sch s s' -> Inv_idx sch s -> Inv_idx sch s'.
Proof.
  intros sch s s' F I e k v o. pose proof F as (A1 & A2 & A3 & A4).
  unfold idx_get. rewrite A1. fold (idx_get s e k v). rewrite (I e k v o). split.
  - intros (a & Ha & He & Hk). destruct (A4 o a Ha) as (b & Hb & K). exists b. repeat split; auto.
    + destruct K as (K1 & _). congruence.
    + rewrite <- (kobj_eq_kview sch a b K). assumption.
  - intros (b & Hb & He & Hk). destruct (kframe_back sch s s' o b F Hb) as (a & Ha & K). exists a. repeat split; auto.
    + destruct K as (K1 & _). congruence.
    + rewrite (kobj_eq_kview sch a b K). assumption.
Qed.

Lemma kframe_Pk : forall sch s s', kframe sch s s' -> Pk sch s -> Pk sch s'.
Proof.
  intros sch s s' F [D|I]. left. destruct F as (_ & A2 & _). congruence. right. eapply kframe_Inv; eauto.
Qed.

(* only fields other than objects / indexes / dirty change *)
Lemma kframe_fields : forall sch s s', s_objs s' = s_objs s -> s_idx s' = s_idx s -> s_dirty s' = s_dirty s -> kframe sch s s'.
Proof.
  intros sch s s' H1 H2 H3. repeat split; auto. congruence.
  intros o a H. exists a. split. unfold get_obj in *. congruence. apply kobj_eq_refl.
Qed.

Lemma kframe_upd_obj : forall sch s o f,
  (forall ob, get_obj s o = Some ob -> kobj_eq sch ob (f ob)) -> kframe sch s (upd_obj s o f).
Proof.
  intros sch s o f H. repeat split.
  - apply upd_obj_idx.
  - apply upd_obj_dirty.
  - apply upd_obj_length.
  - intros o' a Ha. rewrite get_upd_obj. destruct (Nat.eqb o o') eqn:E.
    + apply Nat.eqb_eq in E. subst. rewrite Ha. simpl. exists (f a). split; auto.
    + exists a. split; auto. apply kobj_eq_refl.
Qed.

Lemma Pk_dirty : forall sch s site, site <> O -> Pk sch (mark_dirty s site).
Proof. intros. left. unfold mark_dirty. cbn [s_dirty]. destruct (s_dirty s); auto. Qed.

Lemma Pk_dirty_keep : forall sch s site, Pk sch s -> Pk sch (mark_dirty s site).
Proof.
  intros sch s site [D|I].
  - left. unfold mark_dirty. cbn [s_dirty]. destruct (s_dirty s); congruence.
  - destruct site. right. intros e k v o. apply (I e k v o). left. unfold mark_dirty. cbn [s_dirty]. destruct (s_dirty s); auto.
Qed.
