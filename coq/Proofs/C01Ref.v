(* C01 - facts about the reference semantics alone (no SQL): an induction principle for the nested expression type,
   type soundness of [reval], and the relation between the reference reading (a None value tested for truth is false)
   and Pony's reading (it is unknown): equal on [clean] expressions, same kept rows on [pos_ok] filters. *)
Require Import PonyV.Base.PyBase PonyV.Model.C01Expr.

Section ExprInd.
Variable P : expr -> Prop.
Hypothesis HAttr : forall a, P (EAttr a).
Hypothesis HInt : forall z, P (EInt z).
Hypothesis HStr : forall s, P (EStr s).
Hypothesis HBool : forall b, P (EBool b).
Hypothesis HNone : P ENone.
Hypothesis HParam : forall i t, P (EParam i t).
Hypothesis HCol : forall i t n, P (ECol i t n).
Hypothesis HSub : forall i, P (ESub i).
Hypothesis HArith : forall op a b, P a -> P b -> P (EArith op a b).
Hypothesis HNeg : forall a, P a -> P (ENeg a).
Hypothesis HAbs : forall a, P a -> P (EAbs a).
Hypothesis HConcat : forall a b, P a -> P b -> P (EConcat a b).
Hypothesis HLen : forall a, P a -> P (ELen a).
Hypothesis HCmp : forall op a b, P a -> P b -> P (ECmp op a b).
Hypothesis HAnd : forall a b, P a -> P b -> P (EAnd a b).
Hypothesis HOr : forall a b, P a -> P b -> P (EOr a b).
Hypothesis HNot : forall a, P a -> P (ENot a).
Hypothesis HIn : forall neg a items, P a -> P (EIn neg a items).
Hypothesis HIf : forall c t f, P c -> P t -> P f -> P (EIf c t f).
Hypothesis HCoalesce : forall args, Forall P args -> P (ECoalesce args).
Hypothesis HMinMax : forall m args, Forall P args -> P (EMinMax m args).

Fixpoint expr_ind' (e : expr) : P e :=
  let fix go (l : list expr) : Forall P l :=
    match l with [] => Forall_nil P | x :: r => Forall_cons x (expr_ind' x) (go r) end in
  match e with
  | EAttr a => HAttr a | EInt z => HInt z | EStr s => HStr s | EBool b => HBool b | ENone => HNone
  | EParam i t => HParam i t
  | ECol i t n => HCol i t n
  | ESub i => HSub i
  | EArith op a b => HArith op a b (expr_ind' a) (expr_ind' b)
  | ENeg a => HNeg a (expr_ind' a) | EAbs a => HAbs a (expr_ind' a)
  | EConcat a b => HConcat a b (expr_ind' a) (expr_ind' b)
  | ELen a => HLen a (expr_ind' a)
  | ECmp op a b => HCmp op a b (expr_ind' a) (expr_ind' b)
  | EAnd a b => HAnd a b (expr_ind' a) (expr_ind' b)
  | EOr a b => HOr a b (expr_ind' a) (expr_ind' b)
  | ENot a => HNot a (expr_ind' a)
  | EIn neg a items => HIn neg a items (expr_ind' a)
  | EIf c t f => HIf c t f (expr_ind' c) (expr_ind' t) (expr_ind' f)
  | ECoalesce args => HCoalesce args (go args)
  | EMinMax m args => HMinMax m args (go args)
  end.
End ExprInd.

(* ------------------------------------------------------------------------------------------- small facts *)
Lemma vty_eqb_eq : forall a b, vty_eqb a b = true -> a = b.
Proof. destruct a, b; cbn; intro H; try reflexivity; discriminate. Qed.
Lemma vty_eqb_refl : forall a, vty_eqb a a = true.
Proof. destruct a; reflexivity. Qed.

Lemma all_same_Forall : forall t l, all_same t l = true -> Forall (fun o => o = Some (TV t)) l.
Proof.
  intros t l H. unfold all_same in H. rewrite forallb_forall in H. apply Forall_forall. intros o Ho.
  specialize (H o Ho). destruct o as [[u| |]|]; try discriminate. apply vty_eqb_eq in H. subst. reflexivity.
Qed.

(* the argument types of a typed coalesce / min / max *)
Lemma list_args_typed : forall args t,
  match map ty_of args with
  | Some (TV t0) :: (_ :: _) as rest => if all_same t0 rest then Some (TV t0) else None
  | _ => None
  end = Some (TV t) ->
  Forall (fun a => ty_of a = Some (TV t)) args /\ (2 <= length args)%nat.
Proof.
  intros args t H. destruct args as [|a [|b r]]; cbn [map] in H; try discriminate.
  - destruct (ty_of a) as [[u| |]|]; discriminate.
  - destruct (ty_of a) as [[u| |]|] eqn:Ea; try discriminate.
    destruct (all_same u (ty_of b :: map ty_of r)) eqn:Es; [|discriminate]. inversion H; subst.
    apply all_same_Forall in Es. split; [|cbn; lia].
    constructor; [exact Ea|]. change (ty_of b :: map ty_of r) with (map ty_of (b :: r)) in Es.
    rewrite Forall_map in Es. exact Es.
Qed.

Lemma has_vty_first_some : forall t l, Forall (fun v => has_vty v t = true) l -> has_vty (first_some l) t = true.
Proof.
  intros t l H. induction H as [|v l Hv Hl IH]; [reflexivity|]. cbn. destruct v; try exact Hv. exact IH.
Qed.

Lemma minmax2_ty : forall m t a b, t <> TBool -> has_vty a t = true -> has_vty b t = true -> has_vty (minmax2 m a b) t = true.
Proof.
  intros m t a b Ht Ha Hb. destruct a as [|x|x|x], b as [|y|y|y], t; cbn in *; try discriminate; try reflexivity; try congruence;
    unfold pick; destruct m; match goal with |- context [if ?c then _ else _] => destruct c end; reflexivity.
Qed.

Lemma has_vty_minmax : forall m t l, t <> TBool -> Forall (fun v => has_vty v t = true) l -> has_vty (minmax_list m l) t = true.
Proof.
  intros m t l Ht H. destruct H as [|v l Hv Hl]; [reflexivity|]. cbn [minmax_list].
  revert v Hv. induction Hl as [|w l Hw Hl IH]; intros v Hv; cbn [fold_left]; [exact Hv|].
  apply IH. apply minmax2_ty; assumption.
Qed.

(* ------------------------------------------------------------------------------------------- type soundness *)
Definition val_ok (v : pyv) (t : ty) : Prop :=
  match t with
  | TV vt => has_vty v vt = true
  | TCond => exists c, v = py_of_tv c
  | TNone => v = PNone
  end.

Lemma py_of_tv_ok : forall c, val_ok (py_of_tv c) TCond.
Proof. intro c; exists c; reflexivity. Qed.

Lemma reval_typed : forall k3 en e t, ty_of e = Some t -> env_ok en e = true -> val_ok (reval k3 en e) t.
Proof.
  intros k3 en e. induction e using expr_ind'; intros T0 Ht Hen; cbn [ty_of] in Ht; cbn [reval]; cbn [env_ok] in Hen.
  - (* attr *) inversion Ht; subst. cbn. apply andb_prop in Hen. tauto.
  - inversion Ht; subst; reflexivity.
  - inversion Ht; subst; reflexivity.
  - inversion Ht; subst; reflexivity.
  - inversion Ht; subst; reflexivity.
  - (* param *) destruct t as [u|]; inversion Ht; subst; cbn.
    + apply andb_prop in Hen; tauto.
    + destruct (param_val en i); cbn in Hen; try discriminate; reflexivity.
  - (* subquery value *) inversion Ht; subst. cbn. apply andb_prop in Hen. tauto.
  - (* subquery condition *) inversion Ht; subst. cbn. destruct (attr_val en i) as [| | |b]; try discriminate Hen; [exists U|exists (tv_of_bool b); destruct b]; reflexivity.
  - (* arith *)
    destruct (ty_of e1) as [[[]| |]|], (ty_of e2) as [[[]| |]|]; try discriminate; inversion Ht; subst; cbn;
      destruct (int_of (reval k3 en e1)), (int_of (reval k3 en e2)); reflexivity.
  - destruct (ty_of e) as [[[]| |]|]; try discriminate; inversion Ht; subst; cbn. destruct (reval k3 en e); reflexivity.
  - destruct (ty_of e) as [[[]| |]|]; try discriminate; inversion Ht; subst; cbn. destruct (reval k3 en e); reflexivity.
  - destruct (ty_of e1) as [[[]| |]|], (ty_of e2) as [[[]| |]|]; try discriminate; inversion Ht; subst; cbn.
    destruct (reval k3 en e1), (reval k3 en e2); reflexivity.
  - destruct (ty_of e) as [[[]| |]|]; try discriminate; inversion Ht; subst; cbn. destruct (reval k3 en e); reflexivity.
  - (* cmp *)
    destruct (ty_of e1) as [t1|], (ty_of e2) as [t2|]; try discriminate.
    assert (T0 = TCond) by (unfold cmp_ty in Ht; destruct t1 as [[]| |], t2 as [[]| |], (is_identity op), (is_ordering op); cbn in Ht; congruence).
    subst. destruct t1 as [u1| |], t2 as [u2| |]; apply py_of_tv_ok.
  - (* and *) destruct (ty_of e1), (ty_of e2); try discriminate. destruct (boolable t && boolable t0); inversion Ht; subst. apply py_of_tv_ok.
  - destruct (ty_of e1), (ty_of e2); try discriminate. destruct (boolable t && boolable t0); inversion Ht; subst. apply py_of_tv_ok.
  - (* not *) destruct (ty_of e) as [te|]; try discriminate. destruct (boolable te) eqn:B; inversion Ht; subst.
    destruct te as [u| |]; try discriminate; [exists (tv_of_bool (negb (truthy (reval k3 en e)))); destruct (negb _); reflexivity | apply py_of_tv_ok].
  - (* in *)
    assert (T0 = TCond) by (destruct (ty_of e) as [[[]| |]|]; try discriminate;
      match type of Ht with (if ?c then _ else _) = _ => destruct c end; congruence).
    subst. apply py_of_tv_ok.
  - (* if *)
    apply andb_prop in Hen; destruct Hen as [Hen H3]; apply andb_prop in Hen; destruct Hen as [H1 H2].
    destruct (ty_of e1) as [tc|]; try discriminate. destruct (ty_of e2) as [[x| |]|]; try (destruct tc as [[]| |]; discriminate).
    destruct (ty_of e3) as [[y| |]|]; try (destruct tc as [[]| |]; discriminate).
    assert (E : vty_eqb x y = true /\ T0 = TV x).
    { destruct tc as [[]| |]; try discriminate; destruct (vty_eqb x y); try discriminate; inversion Ht; tauto. }
    destruct E as [E ->]. apply vty_eqb_eq in E; subst y.
    destruct (truth3 k3 (Some tc) (reval k3 en e1)); [apply IHe2 | apply IHe3 | apply IHe3]; auto.
  - (* coalesce *)
    assert (exists u, T0 = TV u) as [u ->].
    { destruct args as [|a [|b r]]; cbn [map] in Ht; try discriminate; [destruct (ty_of a) as [[u0| |]|]; discriminate|]. destruct (ty_of a) as [[u0| |]|]; try discriminate.
      destruct (all_same u0 (ty_of b :: map ty_of r)); inversion Ht. eauto. }
    destruct (list_args_typed _ _ Ht) as [Hall' _]. cbn. apply has_vty_first_some. rewrite Forall_map.
    rewrite Forall_forall in *. intros a Ha. rewrite forallb_forall in Hen. exact (H a Ha (TV u) (Hall' a Ha) (Hen a Ha)).
  - (* minmax *)
    assert (exists u, T0 = TV u /\ u <> TBool /\ Forall (fun a => ty_of a = Some (TV u)) args) as [u [-> [Hu Hall]]].
    { destruct args as [|a [|b r]]; cbn [map] in Ht; try discriminate.
      - destruct (ty_of a) as [[u0| |]|]; discriminate.
      - destruct (ty_of a) as [[u0| |]|] eqn:Ea; try discriminate. destruct u0; try discriminate.
        + destruct (all_same TInt (ty_of b :: map ty_of r)) eqn:Es; inversion Ht. exists TInt; split; [reflexivity|split; [discriminate|]].
          apply all_same_Forall in Es. constructor; [exact Ea|]. change (ty_of b :: map ty_of r) with (map ty_of (b :: r)) in Es. rewrite Forall_map in Es; exact Es.
        + destruct (all_same TStr (ty_of b :: map ty_of r)) eqn:Es; inversion Ht. exists TStr; split; [reflexivity|split; [discriminate|]].
          apply all_same_Forall in Es. constructor; [exact Ea|]. change (ty_of b :: map ty_of r) with (map ty_of (b :: r)) in Es. rewrite Forall_map in Es; exact Es. }
    cbn. apply has_vty_minmax; [exact Hu|]. rewrite Forall_map. rewrite Forall_forall in *. intros a Ha.
    rewrite forallb_forall in Hen. exact (H a Ha (TV u) (Hall a Ha) (Hen a Ha)).
Qed.

(* ------------------------------------------------------------------------------------------- the two readings *)
Lemma truth3_T_iff : forall k3 e v, truth3 k3 (ty_of e) v = T <-> py_truthy e v = true.
Proof.
  intros k3 e v. unfold truth3, py_truthy. destruct (ty_of e) as [[u| |]|].
  - destruct v as [|z|s|b]; cbn; [destruct k3; split; discriminate| | |]; match goal with |- context [tv_of_bool ?c] => destruct c end; cbn; split; congruence.
  - destruct v as [|z|s|[|]]; cbn; split; congruence.
  - destruct v as [|z|s|b]; cbn; [destruct k3; split; discriminate| | |]; match goal with |- context [tv_of_bool ?c] => destruct c end; cbn; split; congruence.
  - destruct v as [|z|s|b]; cbn; [destruct k3; split; discriminate| | |]; match goal with |- context [tv_of_bool ?c] => destruct c end; cbn; split; congruence.
Qed.

Lemma truth3_same : forall e v, cond_typed e || negb (is_none v) = true -> truth3 true (ty_of e) v = truth3 false (ty_of e) v.
Proof.
  intros e v H. unfold truth3, cond_typed in *. destruct (ty_of e) as [[u| |]|]; try reflexivity; destruct v; try reflexivity; discriminate.
Qed.

Lemma clean_same : forall en e, clean en e = true -> reval true en e = reval false en e.
Proof.
  intros en e. induction e using expr_ind'; intro Hc; cbn [clean] in Hc; cbn [reval]; try reflexivity;
    repeat match goal with H : _ && _ = true |- _ => apply andb_prop in H; destruct H end.
  - rewrite IHe1, IHe2 by assumption. reflexivity.
  - rewrite IHe by assumption. reflexivity.
  - rewrite IHe by assumption. reflexivity.
  - rewrite IHe1, IHe2 by assumption. reflexivity.
  - rewrite IHe by assumption. reflexivity.
  - rewrite IHe1, IHe2 by assumption. reflexivity.
  - (* and *)
    rewrite <- IHe1, <- IHe2 by assumption. rewrite !truth3_same by assumption. reflexivity.
  - (* or *)
    rewrite <- IHe1, <- IHe2 by assumption. rewrite !truth3_same by assumption. reflexivity.
  - rewrite IHe by assumption. reflexivity.
  - rewrite IHe by assumption. reflexivity.
  - (* if *)
    rewrite <- IHe1, <- IHe2, <- IHe3 by assumption.
    unfold truth3. destruct (ty_of e1) as [[u| |]|]; try reflexivity; destruct (reval true en e1); reflexivity.
  - f_equal. apply map_ext_in. intros a Ha. rewrite Forall_forall in H. rewrite forallb_forall in Hc. auto.
  - f_equal. apply map_ext_in. intros a Ha. rewrite Forall_forall in H. rewrite forallb_forall in Hc. auto.
Qed.

Lemma py_truthy_tv : forall e c, py_truthy e (py_of_tv c) = match c with T => true | _ => false end.
Proof. intros e c. unfold py_truthy. destruct (ty_of e) as [[u| |]|], c; reflexivity. Qed.

Lemma pos_ok_same : forall en e, pos_ok en e = true -> py_truthy e (reval true en e) = py_truthy e (reval false en e).
Proof.
  intros en e. induction e using expr_ind'; intro Hp; cbn [pos_ok] in Hp;
    try (rewrite (clean_same en _ Hp); reflexivity).
  - (* and *)
    apply andb_prop in Hp; destruct Hp as [H1 H2]. specialize (IHe1 H1). specialize (IHe2 H2).
    cbn [reval]. rewrite !py_truthy_tv.
    pose proof (truth3_T_iff true e1 (reval true en e1)) as A1. pose proof (truth3_T_iff false e1 (reval false en e1)) as A2.
    pose proof (truth3_T_iff true e2 (reval true en e2)) as B1. pose proof (truth3_T_iff false e2 (reval false en e2)) as B2.
    rewrite IHe1 in A1. rewrite IHe2 in B1.
    destruct (truth3 true (ty_of e1) (reval true en e1)), (truth3 false (ty_of e1) (reval false en e1)),
             (truth3 true (ty_of e2) (reval true en e2)), (truth3 false (ty_of e2) (reval false en e2)); cbn; try reflexivity;
      exfalso; intuition congruence.
  - (* or *)
    apply andb_prop in Hp; destruct Hp as [H1 H2]. specialize (IHe1 H1). specialize (IHe2 H2).
    cbn [reval]. rewrite !py_truthy_tv.
    pose proof (truth3_T_iff true e1 (reval true en e1)) as A1. pose proof (truth3_T_iff false e1 (reval false en e1)) as A2.
    pose proof (truth3_T_iff true e2 (reval true en e2)) as B1. pose proof (truth3_T_iff false e2 (reval false en e2)) as B2.
    rewrite IHe1 in A1. rewrite IHe2 in B1.
    destruct (truth3 true (ty_of e1) (reval true en e1)), (truth3 false (ty_of e1) (reval false en e1)),
             (truth3 true (ty_of e2) (reval true en e2)), (truth3 false (ty_of e2) (reval false en e2)); cbn; try reflexivity;
      exfalso; intuition congruence.
Qed.
