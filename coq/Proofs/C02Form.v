(* C02 - formulas over subquery conditions (Model/C01Form.v): two modelled dialects return the same list whenever every group is
   in the domain of both. *)
Require Import PonyV.Base.PyBase PonyV.Model.C01Expr PonyV.Model.C01Sql PonyV.Model.C01Translate PonyV.Model.C01Safe
               PonyV.Model.C01Eqb PonyV.Model.C01Query PonyV.Model.C01Join PonyV.Model.C01Coll PonyV.Model.C01Form
               PonyV.Proofs.C01Rows PonyV.Proofs.C01Coll PonyV.Proofs.C01Form.

Theorem agree_form_rows : forall d1 d2, modelled d1 = true -> modelled d2 = true ->
  forall params db distinct subs filt proj vt xs1 c1 q1 xs2 c2 q2,
  pk_ok (tP db) = true ->
  forallb subq_typed subs = true -> boolty filt = true -> ty_of proj = Some (TV vt) ->
  tr_subqs d1 subs = Some xs1 -> tr_filter d1 filt = Some c1 -> tr_project d1 proj = Some q1 ->
  tr_subqs d2 subs = Some xs2 -> tr_filter d2 filt = Some c2 -> tr_project d2 proj = Some q2 ->
  Forall (fun g => fgroup_ok d1 params db subs filt proj g /\ fgroup_ok d2 params db subs filt proj g) (tG db) ->
  map (dec (TV vt)) (sql_form_rows d1 params db distinct xs1 c1 q1) = map (dec (TV vt)) (sql_form_rows d2 params db distinct xs2 c2 q2).
Proof.
  intros d1 d2 H1 H2 params db distinct subs filt proj vt xs1 c1 q1 xs2 c2 q2 PK Ty Tf Hp S1 F1 P1 S2 F2 P2 Hall. rewrite Forall_forall in Hall.
  destruct (form_rows d1 H1 params db PK distinct subs filt proj vt xs1 c1 q1 Ty Tf Hp S1 F1 P1) as [_ R1].
  { apply Forall_forall. intros g Hg. exact (proj1 (Hall g Hg)). }
  destruct (form_rows d2 H2 params db PK distinct subs filt proj vt xs2 c2 q2 Ty Tf Hp S2 F2 P2) as [_ R2].
  { apply Forall_forall. intros g Hg. exact (proj2 (Hall g Hg)). }
  rewrite R1, R2. reflexivity.
Qed.
