(* C07: round-trip lemmas for the codecs translated from /repo (Gen/C07Codec.v) and the pinned hand models (Model/C07Codec.v). *)
Require Import PonyV.Base.PyBase PonyV.Model.C07Base PonyV.Model.C07Fmt PonyV.Gen.C07Codec PonyV.Model.C07Codec PonyV.Proofs.C07Digits.
From Coq Require Import ZifyBool.
Open Scope Z_scope.

Ltac break_if :=
  match goal with
  | |- context [if ?c then _ else _] => destruct c eqn:?
  end.
Ltac pow10 :=
  repeat match goal with
         | |- context [10 ^ ?e] => let v := eval vm_compute in (10 ^ e) in change (10 ^ e) with v
         end.

(* ------------------------------------------------------------------------------------------------ fixed-width fields *)
Lemma p2_d2 n : 0 <= n < 100 -> p2 (d2 n) = Some n.
Proof.
  intros H. unfold p2, d2, is_digit.
  destruct ((48 <=? 48 + n / 10) && (48 + n / 10 <=? 57) && ((48 <=? 48 + n mod 10) && (48 + n mod 10 <=? 57))) eqn:E.
  - f_equal. euclid.
  - exfalso. euclid.
Qed.

Lemma p4_d4 n : 0 <= n < 10000 -> p4 (d4 n) = Some n.
Proof.
  intros H. unfold p4, d4, is_digit.
  match goal with |- (if ?c then _ else _) = _ => destruct c eqn:E end.
  - f_equal. euclid.
  - exfalso. euclid.
Qed.

Lemma p6_d6 n : 0 <= n < 1000000 -> p6 (d6 n) = Some n.
Proof.
  intros H. unfold p6, d6, is_digit.
  match goal with |- (if ?c then _ else _) = _ => destruct c eqn:E end.
  - f_equal. euclid.
  - exfalso. euclid.
Qed.

Lemma d6_digits n : 0 <= n < 1000000 -> all_digits (d6 n) = true.
Proof. intros H. unfold d6, all_digits, is_digit; cbn [forallb]. euclid. Qed.

Lemma digits_value_d6 n : 0 <= n < 1000000 -> digits_value (d6 n) = n.
Proof. intros H. unfold d6, digits_value; cbn [fold_left]. euclid. Qed.

(* ------------------------------------------------------------------------------------------------ precision rounding *)
Lemma round_to_spec p us : 0 <= p <= 6 -> 0 <= us < 1000000 ->
  round_to p us = us - us mod 10 ^ (6 - p).
Proof.
  intros Hp Hus. unfold round_to, round_us, py_floordiv.
  assert (C : p = 0 \/ p = 1 \/ p = 2 \/ p = 3 \/ p = 4 \/ p = 5 \/ p = 6) by lia.
  destruct C as [->|[->|[->|[->|[->|[->| ->]]]]]]; pow10; repeat break_if; try euclid.
Qed.

(* the stored microseconds never exceed the given ones, are a multiple of the precision unit, lose less than one unit,
   and rounding again changes nothing (so the value seen after flush is what is written) *)
Lemma round_to_props p us : 0 <= p <= 6 -> 0 <= us < 1000000 ->
  0 <= round_to p us <= us /\ round_to p us mod 10 ^ (6 - p) = 0 /\ us - round_to p us < 10 ^ (6 - p)
  /\ round_to p (round_to p us) = round_to p us.
Proof.
  intros Hp Hus.
  assert (Hr : 0 <= round_to p us < 1000000).
  { rewrite round_to_spec by assumption. assert (C : p = 0 \/ p = 1 \/ p = 2 \/ p = 3 \/ p = 4 \/ p = 5 \/ p = 6) by lia.
    destruct C as [->|[->|[->|[->|[->|[->| ->]]]]]]; pow10; euclid. }
  rewrite (round_to_spec p (round_to p us)) by assumption. rewrite (round_to_spec p us) in * by assumption.
  assert (C : p = 0 \/ p = 1 \/ p = 2 \/ p = 3 \/ p = 4 \/ p = 5 \/ p = 6) by lia.
  destruct C as [->|[->|[->|[->|[->|[->| ->]]]]]]; pow10; repeat split; euclid.
Qed.

Lemma round_to_lt p us : 0 <= p <= 6 -> 0 <= us < 1000000 -> 0 <= round_to p us < 1000000.
Proof. intros Hp Hus. destruct (round_to_props p us Hp Hus) as (A & _); lia. Qed.

(* ------------------------------------------------------------------------------------------------ date / time / datetime text *)
Definition valid_date (d : date_v) : Prop := valid_dateb d = true.
Definition valid_time (t : time_v) : Prop := valid_timeb t = true.
Definition valid_datetime (d : datetime_v) : Prop := valid_date (dt_date d) /\ valid_time (dt_time d).

Lemma days_in_month_le y m : days_in_month y m <= 31.
Proof. unfold days_in_month. repeat break_if; lia. Qed.

Lemma valid_date_ranges d : valid_date d -> 1 <= dy d <= 9999 /\ 1 <= dm d <= 12 /\ 1 <= dd d <= 31.
Proof.
  unfold valid_date, valid_dateb. intros H. pose proof (days_in_month_le (dy d) (dm d)). lia.
Qed.

Lemma valid_time_ranges t : valid_time t -> 0 <= th t < 24 /\ 0 <= tmi t < 60 /\ 0 <= ts t < 60 /\ 0 <= tus t < 1000000.
Proof. unfold valid_time, valid_timeb. lia. Qed.

Lemma strptime_ymd_ok y m d : valid_date (mk_date y m d) ->
  strptime_ymd [48 + y / 1000; 48 + y / 100 mod 10; 48 + y / 10 mod 10; 48 + y mod 10; c_minus; 48 + m / 10; 48 + m mod 10; c_minus; 48 + d / 10; 48 + d mod 10]
  = Some (mk_date y m d).
Proof.
  intros V. pose proof (valid_date_ranges _ V) as (Hy & Hm & Hd); cbn [dy dm dd] in *.
  unfold strptime_ymd.
  change [48 + y / 1000; 48 + y / 100 mod 10; 48 + y / 10 mod 10; 48 + y mod 10] with (d4 y).
  change [48 + m / 10; 48 + m mod 10] with (d2 m).
  change [48 + d / 10; 48 + d mod 10] with (d2 d).
  rewrite p4_d4, !p2_d2 by lia. unfold c_minus. rewrite !Z.eqb_refl. cbn [andb].
  unfold valid_date in V. rewrite V. reflexivity.
Qed.

Lemma strptime_hms_ok h m s : valid_time (mk_time h m s 0) ->
  strptime_hms [48 + h / 10; 48 + h mod 10; c_colon; 48 + m / 10; 48 + m mod 10; c_colon; 48 + s / 10; 48 + s mod 10] = Some (mk_time h m s 0).
Proof.
  intros V. pose proof (valid_time_ranges _ V) as (Hh & Hm & Hs & _); cbn [th tmi ts] in *.
  unfold strptime_hms.
  change [48 + h / 10; 48 + h mod 10] with (d2 h). change [48 + m / 10; 48 + m mod 10] with (d2 m). change [48 + s / 10; 48 + s mod 10] with (d2 s).
  rewrite !p2_d2 by lia. unfold c_colon. rewrite !Z.eqb_refl. cbn [andb]. unfold valid_time in V. rewrite V. reflexivity.
Qed.

Lemma valid_time_zero_us h m s u : valid_time (mk_time h m s u) -> valid_time (mk_time h m s 0).
Proof. unfold valid_time, valid_timeb; cbn [th tmi ts tus]. lia. Qed.

(* what the two strptime calls of SQLiteTimeConverter.sql2py find in the text written by py2sql *)
Lemma time_text_parses t : valid_time t ->
  (if zlen_s (iso_time t) <=? 8 then strptime_hms (iso_time t) else strptime_hms_f (iso_time t)) = Some t.
Proof.
  destruct t as [h m s u]. intros V. pose proof (valid_time_ranges _ V) as (Hh & Hm & Hs & Hu); cbn [th tmi ts tus] in *.
  pose proof (strptime_hms_ok _ _ _ (valid_time_zero_us _ _ _ _ V)) as P.
  unfold iso_time, d2, d6; cbn [th tmi ts tus]. destruct (u =? 0) eqn:E.
  - cbn [app]. change (zlen_s _ <=? 8) with true. cbv iota. rewrite P. f_equal. f_equal. lia.
  - cbn [app]. change (zlen_s _ <=? 8) with false. cbv iota.
    unfold strptime_hms_f. rewrite P.
    change [48 + u / 100000; 48 + u / 10000 mod 10; 48 + u / 1000 mod 10; 48 + u / 100 mod 10; 48 + u / 10 mod 10; 48 + u mod 10] with (d6 u).
    rewrite p6_d6 by lia. unfold c_dot. rewrite Z.eqb_refl. reflexivity.
Qed.

(* datetime2timestamp then timestamp2datetime *)
Lemma timestamp_roundtrip d : valid_datetime d -> timestamp2datetime (datetime2timestamp d) = Some d.
Proof.
  destruct d as [[y m dd0] [h mi s u]]. intros [Vd Vt]; cbn [dt_date dt_time] in *.
  pose proof (valid_date_ranges _ Vd) as (Hy & Hm & Hd). pose proof (valid_time_ranges _ Vt) as (Hh & Hmi & Hs & Hu).
  cbn [dy dm dd th tmi ts tus] in *.
  pose proof (strptime_ymd_ok _ _ _ Vd) as PD. pose proof (strptime_hms_ok _ _ _ (valid_time_zero_us _ _ _ _ Vt)) as PT.
  unfold datetime2timestamp, timestamp2datetime, iso_datetime, iso_time, d4, d2, d6; cbn [dt_date dt_time dy dm dd th tmi ts tus].
  destruct (u =? 0) eqn:E.
  - cbn [app]. change (zlen_s _ =? 19) with true. cbv iota. cbn [app].
    unfold strptime_ymd_hms, slice. cbn [firstn skipn nth length Nat.eqb Nat.sub app]. rewrite PD, PT.
    unfold c_space. rewrite Z.eqb_refl. cbn [andb].
    change (int_of_str [48; 48; 48; 48; 48; 48]) with (Some 0).
    unfold mk_datetime_checked; cbn [fst snd th tmi ts].
    unfold valid_date in Vd. unfold valid_time in Vt. assert (u = 0) by lia. subst u. rewrite Vd, Vt. reflexivity.
  - cbn [app]. change (zlen_s _ =? 19) with false. cbv iota.
    unfold strptime_ymd_hms, slice. cbn [firstn skipn nth length Nat.eqb Nat.sub app]. rewrite PD, PT.
    unfold c_space. rewrite Z.eqb_refl. cbn [andb].
    change [48 + u / 100000; 48 + u / 10000 mod 10; 48 + u / 1000 mod 10; 48 + u / 100 mod 10; 48 + u / 10 mod 10; 48 + u mod 10] with (d6 u).
    assert (Hp : int_of_str (d6 u) = Some u).
    { unfold int_of_str, parse_int. pose proof (d6_digits u Hu) as Dg. unfold d6 in Dg |- *.
      pose proof (all_digits_head _ _ Dg) as Hc. unfold c_minus. destruct (48 + u / 100000 =? 45) eqn:E45; [lia|].
      unfold parse_digits. rewrite Dg. f_equal. apply (digits_value_d6 u Hu). }
    rewrite Hp. unfold mk_datetime_checked; cbn [fst snd th tmi ts].
    unfold valid_date in Vd. unfold valid_time in Vt. rewrite Vd, Vt. reflexivity.
Qed.

(* ------------------------------------------------------------------------------------------------ SQLite converters *)

(* datetime: every valid value of every precision reloads as the value the writing session holds after flush *)
Lemma valid_validate_time p t : 0 <= p <= 6 -> valid_time t -> valid_time (validate_time p t).
Proof.
  intros Hp V. pose proof (valid_time_ranges _ V) as (Hh & Hm & Hs & Hu).
  pose proof (round_to_lt p (tus t) Hp Hu). unfold valid_time, valid_timeb, validate_time in *; cbn [th tmi ts tus]. lia.
Qed.

Theorem datetime_reload p d : 0 <= p <= 6 -> valid_datetime d ->
  reload_datetime p d = RVal (validate_datetime p d).
Proof.
  intros Hp [Vd Vt]. unfold reload_datetime, sqlite_datetime_sql2py, sqlite_datetime_py2sql.
  rewrite timestamp_roundtrip; [reflexivity|].
  split; cbn [validate_datetime dt_date dt_time]; [exact Vd | apply valid_validate_time; assumption].
Qed.

(* date: strftime('%Y') does not pad the year; for four-digit years the text is YYYY-MM-DD *)
Definition n9000 : nat := Z.to_nat 9000.
Lemma n9000_eq : Z.of_nat n9000 = 9000.
Proof. vm_compute. reflexivity. Qed.

(* finite table, checked by computation: '%d' % y = '%04d' % y for every y in [1000, 9999] *)
Lemma print4_table_true :
  forallb (fun k => str_eqb (print_nat (1000 + Z.of_nat k)) (d4 (1000 + Z.of_nat k))) (seq 0 n9000) = true.
Proof. vm_compute. reflexivity. Qed.

Lemma table_lift (f : nat -> bool) (n : nat) : forallb f (seq 0 n) = true -> forall k, (k < n)%nat -> f k = true.
Proof. intros T k Hk. rewrite forallb_forall in T. apply T, in_seq. lia. Qed.

Lemma str_eqb_eq a b : str_eqb a b = true -> a = b.
Proof.
  revert b. induction a as [|x a IH]; destruct b as [|y b]; cbn; try discriminate; [reflexivity|].
  intros H. apply andb_true_iff in H. destruct H as [H1 H2]. apply Z.eqb_eq in H1. subst. f_equal. apply IH, H2.
Qed.

Lemma print_nat_4 y : 1000 <= y <= 9999 -> print_nat y = d4 y.
Proof.
  intros H. apply str_eqb_eq.
  pose proof (table_lift _ n9000 print4_table_true (Z.to_nat (y - 1000))) as T. cbv beta in T.
  replace (1000 + Z.of_nat (Z.to_nat (y - 1000))) with y in T by lia.
  apply T. apply Nat2Z.inj_lt. rewrite n9000_eq, Z2Nat.id; lia.
Qed.

Lemma iso_date_parses d : valid_date d -> strptime_ymd (firstn 10 (iso_date d)) = Some d.
Proof.
  intros V. destruct d as [y m dd0]. unfold iso_date, d4, d2; cbn [dy dm dd app firstn]. apply (strptime_ymd_ok _ _ _ V).
Qed.

Theorem date_reload_except_known d : valid_date d -> 1000 <= dy d -> reload_date d = RVal d.
Proof.
  intros V Hy. pose proof (valid_date_ranges _ V) as (Hy' & Hm & Hd).
  first [ (destruct d as [y m dd0]; cbn [dy dm dd] in *;
           unfold reload_date, sqlite_date_sql2py, sqlite_date_py2sql, strftime_ymd; cbn [dy dm dd];
           rewrite print_nat_4 by lia; unfold d4, d2; cbn [app firstn]; rewrite (strptime_ymd_ok _ _ _ V); reflexivity)
        | (unfold reload_date, sqlite_date_sql2py, sqlite_date_py2sql; rewrite (iso_date_parses d V); reflexivity) ].
Qed.

(* every valid date, for a py2sql that writes four-digit years (flag computed from the translated code) *)
Theorem date_reload_full_if_fixed d : date_text_pads_year = true -> valid_date d -> reload_date d = RVal d.
Proof.
  intros F V.
  first [ (vm_compute in F; discriminate F)
        | (unfold reload_date, sqlite_date_sql2py, sqlite_date_py2sql; rewrite (iso_date_parses d V); reflexivity) ].
Qed.

(* SQLiteDateConverter.py2sql writes four-digit years (repaired in /repo commit 80b5dcb: val.isoformat()): the flag computes to true *)
Lemma date_flag_true : date_text_pads_year = true.
Proof. vm_compute. reflexivity. Qed.

Theorem date_reload d : valid_date d -> reload_date d = RVal d.
Proof. exact (date_reload_full_if_fixed d date_flag_true). Qed.

(* time: depends on what the translated sql2py returns (a sql2py whose strptime call or returned expression raises hands back the raw string) *)
Theorem time_reload_full_if_fixed p t :
  time_reloads_as_str = false -> 0 <= p <= 6 -> valid_time t -> reload_time p t = RVal (validate_time p t).
Proof.
  intros F Hp V.
  first [ (vm_compute in F; discriminate F)
        | (unfold reload_time, sqlite_time_sql2py, sqlite_time_py2sql;
           rewrite (time_text_parses _ (valid_validate_time p t Hp V)); reflexivity) ].
Qed.

(* the translation of the current /repo returns the parsed time (repaired in /repo commit c022f0e): the flag computes to false *)
Lemma time_flag_false : time_reloads_as_str = false.
Proof. vm_compute. reflexivity. Qed.

Theorem time_reload p t : 0 <= p <= 6 -> valid_time t -> reload_time p t = RVal (validate_time p t).
Proof. exact (time_reload_full_if_fixed p t time_flag_false). Qed.

(* ------------------------------------------------------------------------------------------------ Decimal *)
Lemma quantize_at_scale sc c : quantize sc (c, - sc) = (c, - sc).
Proof.
  unfold quantize. replace (- sc >=? - sc) with true by lia. rewrite Z.add_opp_diag_l. change (10 ^ 0) with 1. rewrite Z.mul_1_r. reflexivity.
Qed.

Lemma quantize_exp sc d : snd (quantize sc d) = - sc.
Proof. destruct d as [c e]. unfold quantize. destruct (e >=? - sc); reflexivity. Qed.

Lemma quantize_idem sc d : quantize sc (quantize sc d) = quantize sc d.
Proof.
  pose proof (quantize_exp sc d) as H. destruct (quantize sc d) as [c' e']. cbn [snd] in H. subst e'. apply quantize_at_scale.
Qed.

(* a value whose exponent is not below the scale is stored exactly *)
Lemma quantize_exact sc c e : - sc <= e -> dec_eqb (quantize sc (c, e)) (c, e) = true.
Proof.
  intros H. unfold quantize. replace (e >=? - sc) with true by lia. unfold dec_eqb; cbn [fst snd].
  rewrite Z.min_l by lia. rewrite Z.sub_diag. change (10 ^ 0) with 1. replace (e - - sc) with (e + sc) by lia. lia.
Qed.

Theorem decimal_reload sc d : dec_reload sc d = quantize sc d.
Proof. unfold dec_reload, dec_sql2py, dec_py2sql. apply quantize_idem. Qed.

Theorem decimal_reload_except_known sc c e : - sc <= e -> dec_eqb (dec_reload sc (c, e)) (c, e) = true.
Proof. intros H. rewrite decimal_reload. apply quantize_exact, H. Qed.

(* ------------------------------------------------------------------------------------------------ UUID, bool *)
Lemma of_bytes_app l b : of_bytes (l ++ [b]) = of_bytes l * 256 + b.
Proof. unfold of_bytes. rewrite fold_left_app. reflexivity. Qed.

Lemma to_bytes_length k n : length (to_bytes k n) = k.
Proof. revert n. induction k as [|k IH]; intros n; cbn [to_bytes]; [reflexivity|]. rewrite app_length, IH. cbn. lia. Qed.

Lemma of_to_bytes k n : 0 <= n < 256 ^ Z.of_nat k -> of_bytes (to_bytes k n) = n.
Proof.
  revert n. induction k as [|k IH]; intros n H.
  - cbn in *. lia.
  - cbn [to_bytes]. rewrite of_bytes_app, IH.
    + Z.to_euclidean_division_equations; lia.
    + rewrite Nat2Z.inj_succ, Z.pow_succ_r in H by lia. Z.to_euclidean_division_equations; nia.
Qed.

Theorem uuid_roundtrip n : 0 <= n < 2 ^ 128 -> uuid_sql2py (uuid_py2sql n) = Some n.
Proof.
  intros H. unfold uuid_sql2py, uuid_py2sql. rewrite to_bytes_length. cbn [Nat.eqb]. f_equal. apply of_to_bytes.
  change (256 ^ Z.of_nat 16) with (2 ^ 128). exact H.
Qed.

Theorem bool_roundtrip b : bool_sql2py (bool_py2sql b) = b.
Proof. destruct b; reflexivity. Qed.

(* ------------------------------------------------------------------------------------------------ tracked Json / array values *)
(* whatever value is assigned to obj.attr (plain, tracked by obj itself, tracked by ANOTHER object, tracked for another attribute),
   the value the object ends up holding notifies (obj, attr) when it is edited in place *)
Lemma keeps_owner obj attr v : (tv_is_tracked v && (tv_owner_is v obj && (tv_attr_is v attr && true))) = true -> tv_notifies v = Some (obj, attr).
Proof.
  destruct v as [p|o a p|i]; cbn [tv_is_tracked tv_owner_is tv_attr_is tv_notifies andb]; try discriminate.
  intros H. assert (o = obj /\ a = attr) as [-> ->] by lia. reflexivity.
Qed.

Theorem json_validate_owner obj attr v : tv_notifies (json_validate obj attr v) = Some (obj, attr).
Proof.
  unfold json_validate. cbv zeta. break_if; [|reflexivity]. unfold json_keeps in *. apply keeps_owner. assumption.
Qed.

Theorem array_validate_owner obj attr v : tv_notifies (array_validate obj attr v) = Some (obj, attr).
Proof.
  unfold array_validate. break_if; [|reflexivity]. unfold array_keeps in *. apply keeps_owner. assumption.
Qed.

(* the payload is never altered by validate *)
Theorem json_validate_payload obj attr v : tv_payload (json_validate obj attr v) = tv_payload v.
Proof. unfold json_validate. cbv zeta. break_if; destruct v; reflexivity. Qed.

Theorem identity_transport :
  (forall s, str_sql2py (str_py2sql s) = s) /\ (forall b, bytes_sql2py (bytes_py2sql b) = b) /\ (forall z, int_sql2py (int_py2sql z) = z).
Proof. repeat split. Qed.

(* ------------------------------------------------------------------------------------------------ witnesses for the known findings *)
(* Decimal('1.239') in a scale-2 attribute: the writing session keeps 1.239, every later session reads 1.24 *)
Lemma decimal_unrounded_refuted :
  dec_reload 2 (1239, -3) = (124, -2) /\ dec_eqb (dec_reload 2 (1239, -3)) (1239, -3) = false.
Proof. split; vm_compute; reflexivity. Qed.

Example c07_nonvacuous :
  td_str (mk_td (-1) 86399 999999) = [45; 48; 58; 48; 58; 48; 46; 48; 48; 48; 48; 48; 49]      (* '-0:0:0.000001' *)
  /\ str2timedelta [45; 48; 58; 48; 58; 48; 46; 48; 48; 48; 48; 48; 49] = Some (mk_td (-1) 86399 999999)
  /\ reload_datetime 3 (mk_dt (mk_date 2024 2 29) (mk_time 23 59 59 999999)) = RVal (mk_dt (mk_date 2024 2 29) (mk_time 23 59 59 999000)).
Proof. repeat split; vm_compute; reflexivity. Qed.
