(* C01/C02 - aggregates as whole-query results: the SQL aggregate over the rows the WHERE keeps is Pony's documented aggregate
   over the Python comprehension (None skipped, sum of nothing 0, min / max / avg of nothing None, count = different non-None
   values), at the level of the stored value and after the result converter. *)
Require Import PonyV.Base.PyBase PonyV.Model.C01Expr PonyV.Model.C01Sql PonyV.Model.C01Translate PonyV.Model.C01Safe
               PonyV.Model.C01Eqb PonyV.Model.C01Query PonyV.Model.C01Aggr
               PonyV.Proofs.C01Base PonyV.Proofs.C01Ref PonyV.Proofs.C01Ops PonyV.Proofs.C01Rows.
From Coq Require Import ZifyBool.

(* ------------------------------------------------------------------------------------------- lists of stored values *)
Lemma nonnull_enc : forall d vs, filter (fun v => negb (is_null v)) (map (enc d) vs) = map (enc d) (filter (fun v => negb (is_none v)) vs).
Proof. induction vs as [|v vs IH]; [reflexivity|]. cbn [map filter]. rewrite enc_is_null. destruct (is_none v); cbn [negb map]; rewrite IH; reflexivity. Qed.

Lemma filter_typed : forall t (f : pyv -> bool) l, Forall (fun v => has_vty v t = true) l -> Forall (fun v => has_vty v t = true) (filter f l).
Proof. intros t f l H. rewrite Forall_forall in *. intros v Hv. apply filter_In in Hv. apply H. tauto. Qed.

Lemma dedup_typed : forall t l, Forall (fun v => has_vty v t = true) l -> Forall (fun v => has_vty v t = true) (dedup pyv_eqb l).
Proof. intros t l H. rewrite Forall_forall in *. intros v Hv. apply H. apply (dedup_incl _ _ _ _ Hv). Qed.

Lemma dedup_nonnone : forall l, Forall (fun v => is_none v = false) l -> Forall (fun v => is_none v = false) (dedup pyv_eqb l).
Proof. intros l H. rewrite Forall_forall in *. intros v Hv. apply H. apply (dedup_incl _ _ _ _ Hv). Qed.

Lemma filter_nonnone : forall l, Forall (fun v => is_none v = false) (filter (fun v => negb (is_none v)) l).
Proof. intro l. apply Forall_forall. intros v Hv. apply filter_In in Hv. destruct Hv as [_ H]. destruct (is_none v); [discriminate|reflexivity]. Qed.

(* integers, or booleans where they are stored as 0 / 1 *)
Lemma ints_enc : forall d t l, (t = TInt \/ (t = TBool /\ pg d = false)) ->
  Forall (fun v => has_vty v t = true) l -> Forall (fun v => is_none v = false) l ->
  ints_of (map (enc d) l) = Some (map intval l).
Proof.
  intros d t l Ht. induction l as [|v l IH]; intros Ty Nn; [reflexivity|].
  inversion Ty as [|? ? Tv Tl]; subst. inversion Nn as [|? ? Nv Nl]; subst. cbn [map ints_of].
  destruct Ht as [->|[-> P]].
  - destruct v; try discriminate. cbn [enc ints_of]. rewrite (IH Tl Nl). reflexivity.
  - destruct v; try discriminate. cbn [enc]. unfold bv. rewrite P. cbn [ints_of]. rewrite (IH Tl Nl). reflexivity.
Qed.

Lemma sum_coalesce : forall zs, (match (match zs with [] => NullV | _ => IntV (zsum zs) end) with NullV => IntV 0 | v => v end) = IntV (zsum zs).
Proof. destruct zs; reflexivity. Qed.

Lemma plain_of : forall t l, Forall (fun v => has_vty v t = true) l -> Forall (fun v => is_none v = false) l -> Forall (plainv t) l.
Proof.
  intros t l Ty Nn. rewrite Forall_forall in *. intros v Hv. split; [apply Ty; exact Hv|]. specialize (Nn v Hv). destruct v; [discriminate|congruence..].
Qed.

(* ------------------------------------------------------------------------------------------- the aggregate of a value list *)
Definition vals_safe (d : dname) (f : afn) (t : vty) : bool :=
  match f with FSum | FAvg => negb (pg d && vty_eqb t TBool) | _ => true end.

Lemma vals_sound : forall d f distinct t vals, modelled d = true ->
  aggr_ty_ok f t = true -> vals_safe d f t = true -> Forall (fun v => has_vty v t = true) vals ->
  qaggr_vals f distinct (map (enc d) vals) = enca d (py_aggr_vals f distinct vals) /\
  deca f t (qaggr_vals f distinct (map (enc d) vals)) = py_aggr_vals f distinct vals.
Proof.
  intros d f distinct t vals Hd Ok Safe Ty. unfold qaggr_vals, py_aggr_vals.
  rewrite no_bad_enc, nonnull_enc.
  set (nn := filter (fun v => negb (is_none v)) vals).
  assert (Tn : Forall (fun v => has_vty v t = true) nn) by (apply filter_typed; exact Ty).
  assert (Nn : Forall (fun v => is_none v = false) nn) by apply filter_nonnone.
  set (l := if distinct then dedup pyv_eqb nn else nn).
  assert (El : (if distinct then dedup qv_eqb (map (enc d) nn) else map (enc d) nn) = map (enc d) l).
  { unfold l. destruct distinct; [apply (dedup_enc d t); exact Tn|reflexivity]. }
  rewrite El.
  assert (Tl : Forall (fun v => has_vty v t = true) l) by (unfold l; destruct distinct; [apply dedup_typed|]; exact Tn).
  assert (Nl : Forall (fun v => is_none v = false) l) by (unfold l; destruct distinct; [apply dedup_nonnone|]; exact Nn).
  clearbody l. clear El.
  destruct f.
  - (* count *) rewrite map_length. split; reflexivity.
  - (* sum *)
    assert (Ht : t = TInt \/ (t = TBool /\ pg d = false)).
    { destruct t; cbn in Ok, Safe; try discriminate; [left; reflexivity|right; split; [reflexivity|]]. destruct (pg d); [discriminate|reflexivity]. }
    rewrite (ints_enc d t l Ht Tl Nl). cbv zeta.
    assert (R : rty FSum t = TInt) by (destruct Ht as [->|[-> _]]; reflexivity).
    cbn [deca]. rewrite R. destruct (map intval l); split; reflexivity.
  - (* min *)
    assert (Ht : t <> TBool) by (destruct t; cbn in Ok; try discriminate; congruence).
    destruct l as [|v r]; [split; reflexivity|]. cbn [map minmax_list].
    inversion Tl as [|? ? Tv Tr]; subst. inversion Nl as [|? ? Nv Nr]; subst.
    destruct (fold_minmax_plain d false t r v Ht (plain_of t r Tr Nr)) as [[Pt Pn] E].
    { split; [exact Tv|]. destruct v; [discriminate|congruence..]. }
    assert (Ev : match enc d v with IntV _ | StrV _ => fold_left (qminmax2 false) (map (enc d) r) (enc d v) | _ => ErrV end
                 = fold_left (qminmax2 false) (map (enc d) r) (enc d v)).
    { destruct v, t; try discriminate; try reflexivity; congruence. }
    rewrite Ev, E. split; [reflexivity|]. cbn [deca rty]. rewrite (dec_enc d _ t Pt). reflexivity.
  - (* max *)
    assert (Ht : t <> TBool) by (destruct t; cbn in Ok; try discriminate; congruence).
    destruct l as [|v r]; [split; reflexivity|]. cbn [map minmax_list].
    inversion Tl as [|? ? Tv Tr]; subst. inversion Nl as [|? ? Nv Nr]; subst.
    destruct (fold_minmax_plain d true t r v Ht (plain_of t r Tr Nr)) as [[Pt Pn] E].
    { split; [exact Tv|]. destruct v; [discriminate|congruence..]. }
    assert (Ev : match enc d v with IntV _ | StrV _ => fold_left (qminmax2 true) (map (enc d) r) (enc d v) | _ => ErrV end
                 = fold_left (qminmax2 true) (map (enc d) r) (enc d v)).
    { destruct v, t; try discriminate; try reflexivity; congruence. }
    rewrite Ev, E. split; [reflexivity|]. cbn [deca rty]. rewrite (dec_enc d _ t Pt). reflexivity.
  - (* avg *)
    assert (Ht : t = TInt \/ (t = TBool /\ pg d = false)).
    { destruct t; cbn in Ok, Safe; try discriminate; [left; reflexivity|right; split; [reflexivity|]]. destruct (pg d); [discriminate|reflexivity]. }
    rewrite (ints_enc d t l Ht Tl Nl). destruct l as [|v r]; [split; reflexivity|]. cbn [map length enca deca]. rewrite map_length. split; reflexivity.
Qed.

(* ------------------------------------------------------------------------------------------- COUNT(DISTINCT pk) *)
Lemma keys_ok_filter : forall A (k : A -> pyv) f T, keys_ok (map k T) = true -> keys_ok (map k (filter f T)) = true.
Proof.
  induction T as [|t r IH]; intro H; [reflexivity|]. cbn [map keys_ok] in H.
  apply andb_prop in H. destruct H as [H H3]. apply andb_prop in H. destruct H as [H1 H2].
  cbn [filter]. destruct (f t); [|apply IH; exact H3].
  cbn [map keys_ok]. rewrite H1, (IH H3), andb_true_r. cbn [andb].
  rewrite negb_true_iff in *. destruct (existsb (pyv_eqb (k t)) (map k (filter f r))) eqn:E; [|reflexivity].
  apply existsb_exists in E. destruct E as [u [Hu Eu]]. apply in_map_iff in Hu. destruct Hu as [x [<- Hx]]. apply filter_In in Hx.
  assert (X : existsb (pyv_eqb (k t)) (map k r) = true) by (apply existsb_exists; exists (k x); split; [apply in_map; tauto|exact Eu]). congruence.
Qed.

Lemma keys_ok_typed : forall ks, keys_ok ks = true -> Forall (fun v => has_vty v TInt = true) ks /\ Forall (fun v => is_none v = false) ks.
Proof.
  induction ks as [|k r IH]; intro H; [split; constructor|]. cbn [keys_ok] in H.
  apply andb_prop in H. destruct H as [H H3]. apply andb_prop in H. destruct H as [H1 _]. destruct (IH H3) as [A B].
  destruct k; try discriminate H1. split; constructor; auto.
Qed.

Lemma dedup_keys : forall ks, keys_ok ks = true -> dedup pyv_eqb ks = ks.
Proof.
  induction ks as [|k r IH]; intro H; [reflexivity|]. cbn [keys_ok] in H.
  apply andb_prop in H. destruct H as [H H3]. apply andb_prop in H. destruct H as [_ H2].
  cbn [dedup]. rewrite (IH H3). f_equal. rewrite negb_true_iff in H2.
  assert (forall y, In y r -> negb (pyv_eqb k y) = true).
  { intros y Hy. destruct (pyv_eqb k y) eqn:E; [|reflexivity].
    assert (X : existsb (pyv_eqb k) r = true) by (apply existsb_exists; exists y; tauto). congruence. }
  clear -H. induction r as [|y r IH]; [reflexivity|]. cbn [filter]. rewrite (H y (or_introl eq_refl)). f_equal. apply IH. intros z Hz. apply H. right. exact Hz.
Qed.

Lemma count_keys : forall d ks, keys_ok ks = true -> qaggr_vals FCount true (map (enc d) ks) = IntV (Z.of_nat (length ks)).
Proof.
  intros d ks H. destruct (keys_ok_typed ks H) as [Ty Nn]. unfold qaggr_vals. rewrite no_bad_enc, nonnull_enc.
  assert (E : filter (fun v => negb (is_none v)) ks = ks).
  { clear -Nn. induction ks as [|k r IH]; [reflexivity|]. inversion Nn; subst. cbn [filter]. rewrite H1. cbn [negb]. f_equal. apply IH. assumption. }
  rewrite E, (dedup_enc d TInt ks Ty), (dedup_keys ks H), map_length. reflexivity.
Qed.

(* ------------------------------------------------------------------------------------------- whole queries *)
Section Aggr.
Variable d : dname.
Hypothesis Hd : modelled d = true.

Definition filt_typed (c : option expr) : bool :=
  match c with None => true | Some c => match ty_of c with Some t => boolable t | None => false end end.

(* every row is in the domain of the expression theorems, for the condition and for the aggregated expression *)
Definition arow_ok (filt : option expr) (g : aggr) (en : env) : Prop :=
  match filt with None => True | Some c => env_ok en c = true /\ safe d en c = true /\ pos_ok en c = true end /\
  match g with GAgg _ _ e => env_ok en e = true /\ safe d en e = true /\ clean en e = true | _ => True end.

Theorem aggr_sound : forall table filt g conds qa,
  filt_typed filt = true -> tr_where d filt = Some conds -> tr_aggr d 0%nat g = Some qa ->
  aggr_safe d g = true ->
  keys_ok (map (fun en => attr_val en 0%nat) table) = true ->
  Forall (arow_ok filt g) table ->
  sql_aggr d qa conds table = enca d (py_aggr g filt table) /\
  deca_g g (sql_aggr d qa conds table) = py_aggr g filt table.
Proof.
  intros table filt g conds qa Tf EC EA Safe Keys Hall. rewrite Forall_forall in Hall.
  assert (FE : filter (fun en => where_truth d (encenv d en) conds) table = filter (keeps filt) table).
  { apply filter_ext_in'. intros en Hin. destruct (Hall en Hin) as [Hf _]. destruct filt as [c|]; cbn [tr_where keeps filt_typed] in *.
    - destruct (ty_of c) as [t|] eqn:Tc; [|discriminate]. destruct Hf as [A1 [A2 A3]].
      destruct (filter_ref d Hd en c t Tc Tf A1 A2 A3) as [c' [E' W]]. rewrite EC in E'. inversion E'; subst. exact W.
    - inversion EC; subst. unfold where_truth, qand_list. cbn [map all_some fold_right keeps]. apply (sql_truth_of_tv d T). }
  unfold sql_aggr, py_aggr. rewrite FE. set (kept := filter (keeps filt) table).
  assert (KIn : forall en, In en kept -> In en table) by (intros en H; apply filter_In in H; tauto).
  destruct g as [| |f distinct e]; cbn [tr_aggr] in EA.
  - inversion EA; subst. cbn [deca_g enca enc dec]. split; reflexivity.
  - inversion EA; subst.
    assert (M : map (fun en => qeval d (encenv d en) (QCol 0)) kept = map (enc d) (map (fun en => attr_val en 0%nat) kept)).
    { rewrite map_map. reflexivity. }
    rewrite M, count_keys by (apply keys_ok_filter; exact Keys). rewrite map_length. cbn [deca_g enca enc dec]. split; reflexivity.
  - destruct (ty_of e) as [[t| |]|] eqn:Te; try discriminate. destruct (tr_project d e) as [q|] eqn:Q; [|discriminate].
    destruct (aggr_ty_ok f t && dist_ok f distinct) eqn:Ok; [|discriminate]. inversion EA; subst qa. apply andb_prop in Ok. destruct Ok as [Ok _].
    assert (ME : map (fun en => qeval d (encenv d en) q) kept = map (enc d) (map (fun en => ref_eval en e) kept)).
    { rewrite map_map. apply map_ext_in. intros en Hin. destruct (Hall en (KIn en Hin)) as [_ [A4 [A5 A6]]].
      destruct (project_ref d Hd en e t Te A4 A5 A6) as [q' [E' [Qv _]]]. rewrite Q in E'. inversion E'; subst. exact Qv. }
    assert (TY : Forall (fun v => has_vty v t = true) (map (fun en => ref_eval en e) kept)).
    { rewrite Forall_map. apply Forall_forall. intros en Hin. destruct (Hall en (KIn en Hin)) as [_ [A4 [A5 A6]]].
      unfold ref_eval. rewrite <- (clean_same en e A6). exact (reval_typed true en e (TV t) Te A4). }
    assert (VS : vals_safe d f t = true).
    { unfold aggr_safe, is_boolty in Safe. rewrite Te in Safe. destruct f; try reflexivity; destruct t; cbn in *; try reflexivity; exact Safe. }
    rewrite ME. cbn [deca_g]. rewrite Te. apply (vals_sound d f distinct t _ Hd Ok VS TY).
Qed.
End Aggr.
