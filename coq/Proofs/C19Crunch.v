(* C19 / C17 / C35 - the blocks of the state machine that are proved by exhaustive symbolic execution: every combination of
   state flags and of fault-oracle answers is a separate path; on each path the resulting state is shown well-formed. *)
From Coq Require Import List Bool Arith Lia.
Import ListNotations.
Require Import PonyV.Model.C19Txn PonyV.Proofs.C19Base.

Section S.
Variable oracle : nat -> bool.

(* SessionCache.connect (Pool.connect, SQLitePool._connect, set_transaction_mode, provider.drop on failure) *)
Lemma cache_connect_spec : forall s, WF s -> k_has s = false -> k_reg s = true ->
  match cache_connect oracle s with
  | (Blocked, _) => other s = true
  | (r, s') => WF s' /\ Ext s s' /\ KF s s' /\
               match r with Ok => k_has s' = true /\ (k_imm s' = true -> k_intxn s' = true) | _ => k_has s' = false end
  end.
Proof.
  destruct_st. intros [[? ? ? ? ? ? ? ? ? ? ? ? ?] ? ?] ? ?.
  unfold KF. unfold_all. run.
  all: try reflexivity.
  all: split; [wf_tac | split; [ext_tac | norm; auto]].
  all: finish.
Qed.

(* set_transaction_mode on the connection the cache already holds (prepare_connection_for_query_execution, second branch) *)
Lemma stm_spec : forall s, WF s -> k_has s = true -> k_imm s = true -> k_intxn s = false -> k_reg s = true ->
  match set_transaction_mode oracle (k_id s) s with
  | (Blocked, _) => other s = true
  | (r, s') => WF s' /\ Ext s s' /\ KF s s' /\ k_has s' = true /\
               match r with Ok => k_intxn s' = true | _ => True end
  end.
Proof.
  destruct_st. intros [[? ? ? ? ? ? ? ? ? ? ? ? ?] ? ?] ? ? ? ?.
  unfold KF. unfold_all. run.
  all: try reflexivity.
  all: split; [wf_tac | split; [ext_tac | norm; auto]].
  all: finish.
Qed.
End S.
