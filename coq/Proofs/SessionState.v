(* Lemmas about the state primitives of Model/Session.v: object store, indexes, and the frame relation used by the
   invariant proofs. *)
Require Import PonyV.Model.SessionBase PonyV.Model.SessionDb PonyV.Model.Session PonyV.Proofs.SessionLemmas.
From Coq Require Import Arith.

Lemma ikey_eqb_eq : forall a b, ikey_eqb a b = true <-> a = b.
Proof.
  intros [[e1 k1] v1] [[e2 k2] v2]. unfold ikey_eqb. rewrite !andb_true_iff, !Nat.eqb_eq, val_eqb_eq.
  split. intros [[A B] C]. subst. reflexivity. intro H. inversion H. auto.
Qed.

Lemma idx_get_put_same : forall s e k v o, idx_get (idx_put s e k v o) e k v = Some o.
Proof. intros. unfold idx_get, idx_put, set_idx. cbn [s_idx]. apply (aget_aset_same ikey_eqb ikey_eqb_eq). Qed.

Lemma idx_get_put_other : forall s e k v o e' k' v', (e, k, v) <> (e', k', v') ->
  idx_get (idx_put s e k v o) e' k' v' = idx_get s e' k' v'.
Proof. intros. unfold idx_get, idx_put, set_idx. cbn [s_idx]. apply (aget_aset_other ikey_eqb ikey_eqb_eq). assumption. Qed.

Lemma idx_get_del_same : forall s e k v, idx_get (idx_del s e k v) e k v = None.
Proof. intros. unfold idx_get, idx_del, set_idx. cbn [s_idx]. apply (aget_adel_same ikey_eqb). Qed.

Lemma idx_get_del_other : forall s e k v e' k' v', (e, k, v) <> (e', k', v') ->
  idx_get (idx_del s e k v) e' k' v' = idx_get s e' k' v'.
Proof. intros. unfold idx_get, idx_del, set_idx. cbn [s_idx]. apply (aget_adel_other ikey_eqb ikey_eqb_eq). assumption. Qed.

Lemma ikey_dec : forall a b : ikey, {a = b} + {a <> b}.
Proof.
  intros a b. destruct (ikey_eqb a b) eqn:E.
  - left. apply ikey_eqb_eq. assumption.
  - right. intro H. apply ikey_eqb_eq in H. congruence.
Qed.

(* ---------------------------------------------------------------- object store *)

Lemma get_put_obj : forall s o ob o',
  get_obj (put_obj s o ob) o' = if Nat.eqb o o' then (match get_obj s o' with Some _ => Some ob | None => None end) else get_obj s o'.
Proof. intros. unfold get_obj, put_obj, set_objs. cbn [s_objs]. apply nth_error_upd_nth. Qed.

Lemma get_upd_obj : forall s o f o',
  get_obj (upd_obj s o f) o' = if Nat.eqb o o' then option_map f (get_obj s o') else get_obj s o'.
Proof.
  intros. unfold upd_obj. destruct (get_obj s o) eqn:E.
  - rewrite get_put_obj. destruct (Nat.eqb o o') eqn:N; auto. apply Nat.eqb_eq in N. subst. rewrite E. reflexivity.
  - destruct (Nat.eqb o o') eqn:N; auto. apply Nat.eqb_eq in N. subst. rewrite E. reflexivity.
Qed.

Lemma get_upd_obj_same : forall s o f, get_obj (upd_obj s o f) o = option_map f (get_obj s o).
Proof. intros. rewrite get_upd_obj. rewrite Nat.eqb_refl. reflexivity. Qed.

Lemma get_upd_obj_other : forall s o f o', o <> o' -> get_obj (upd_obj s o f) o' = get_obj s o'.
Proof. intros. rewrite get_upd_obj. apply Nat.eqb_neq in H. rewrite H. reflexivity. Qed.

Lemma upd_obj_idx : forall s o f, s_idx (upd_obj s o f) = s_idx s.
Proof. intros. unfold upd_obj. destruct (get_obj s o); reflexivity. Qed.
Lemma upd_obj_dirty : forall s o f, s_dirty (upd_obj s o f) = s_dirty s.
Proof. intros. unfold upd_obj. destruct (get_obj s o); reflexivity. Qed.
Lemma upd_obj_length : forall s o f, length (s_objs (upd_obj s o f)) = length (s_objs s).
Proof. intros. unfold upd_obj. destruct (get_obj s o); auto. unfold put_obj, set_objs. cbn [s_objs]. apply upd_nth_length. Qed.
Lemma upd_obj_db : forall s o f, s_db (upd_obj s o f) = s_db s.
Proof. intros. unfold upd_obj. destruct (get_obj s o); reflexivity. Qed.
Lemma upd_obj_tosave : forall s o f, s_tosave (upd_obj s o f) = s_tosave s.
Proof. intros. unfold upd_obj. destruct (get_obj s o); reflexivity. Qed.

Lemma get_push_obj_new : forall s ob, get_obj (fst (push_obj s ob)) (snd (push_obj s ob)) = Some ob.
Proof. intros. unfold push_obj, get_obj, set_objs. cbn [fst snd s_objs]. apply nth_error_app_new. Qed.

Lemma get_push_obj_old : forall s ob o, (o < length (s_objs s))%nat -> get_obj (fst (push_obj s ob)) o = get_obj s o.
Proof. intros. unfold push_obj, get_obj, set_objs. cbn [fst snd s_objs]. apply nth_error_app_old. assumption. Qed.

Lemma get_obj_lt : forall s o ob, get_obj s o = Some ob -> (o < length (s_objs s))%nat.
Proof. intros. unfold get_obj in H. apply nth_error_Some. congruence. Qed.

Lemma get_obj_ge : forall s o, (length (s_objs s) <= o)%nat -> get_obj s o = None.
Proof. intros. unfold get_obj. apply nth_error_None. assumption. Qed.

Lemma get_push_obj : forall s ob o,
  get_obj (fst (push_obj s ob)) o = if Nat.eqb o (length (s_objs s)) then Some ob else get_obj s o.
Proof.
  intros. destruct (Nat.eqb o (length (s_objs s))) eqn:E.
  - apply Nat.eqb_eq in E. subst. apply (get_push_obj_new s ob).
  - apply Nat.eqb_neq in E. destruct (lt_dec o (length (s_objs s))).
    + apply get_push_obj_old. assumption.
    + rewrite (get_obj_ge s o) by lia. apply get_obj_ge. unfold push_obj, set_objs. cbn [fst s_objs]. rewrite app_length. simpl. lia.
Qed.

(* ---------------------------------------------------------------- well-formed schemas *)

Lemma forallb_i_nth : forall A (f : nat -> A -> bool) l i j x,
  forallb_i f i l = true -> nth_error l j = Some x -> f (i + j)%nat x = true.
Proof.
  induction l as [|y l IH]; intros i j x H N.
  - destruct j; discriminate.
  - simpl in H. apply andb_true_iff in H. destruct H as [H1 H2]. destruct j; simpl in N.
    + inversion N; subst. rewrite Nat.add_0_r. assumption.
    + replace (i + S j)%nat with (S i + j)%nat by lia. eapply IH; eauto.
Qed.

Lemma wf_get_attr : forall sch e a at_, wf_schema sch = true -> get_attr sch e a = Some at_ -> wf_attr sch e a at_ = true.
Proof.
  intros sch e a at_ W G. unfold get_attr in G. destruct (nth_error sch e) as [en|] eqn:E; try discriminate.
  unfold wf_schema in W. pose proof (forallb_i_nth _ _ _ _ _ _ W E) as H1. simpl in H1.
  pose proof (forallb_i_nth _ _ _ _ _ _ H1 G) as H2. simpl in H2. assumption.
Qed.

Lemma wf_ref_not_uniq : forall sch e a p, wf_schema sch = true -> ref_info sch e a = Some p -> attr_uniq sch e a = false.
Proof.
  intros sch e a p W R. unfold ref_info in R. unfold attr_uniq. destruct (get_attr sch e a) as [at_|] eqn:G; auto.
  pose proof (wf_get_attr sch e a at_ W G) as H. unfold wf_attr in H. destruct (a_kind at_); try discriminate.
  apply andb_true_iff in H. destruct H as [H _]. apply andb_true_iff in H. destruct H as [H _].
  apply negb_true_iff in H. assumption.
Qed.

Lemma wf_set_not_uniq : forall sch e a, wf_schema sch = true -> attr_is_set sch e a = true -> attr_uniq sch e a = false.
Proof.
  intros sch e a W R. unfold attr_is_set in R. unfold attr_uniq. destruct (get_attr sch e a) as [at_|] eqn:G; auto.
  pose proof (wf_get_attr sch e a at_ W G) as H. unfold wf_attr in H. destruct (a_kind at_); try discriminate.
  apply andb_true_iff in H. destruct H as [H _]. apply andb_true_iff in H. destruct H as [H _].
  apply andb_true_iff in H. destruct H as [H _]. apply negb_true_iff in H. assumption.
Qed.

(* ref_info / set_info are each other's reverse in a well-formed schema *)
Lemma wf_set_ref : forall sch e a t r, wf_schema sch = true -> set_info sch e a = Some (t, r) -> ref_info sch t r = Some (e, a).
Proof.
  intros sch e a t r W S. unfold set_info in S. destruct (get_attr sch e a) as [at_|] eqn:G; try discriminate.
  pose proof (wf_get_attr sch e a at_ W G) as H. unfold wf_attr in H.
  destruct (a_kind at_) eqn:K; try discriminate. inversion S; subst.
  apply andb_true_iff in H. destruct H as [_ H]. unfold ref_info.
  destruct (get_attr sch t r) as [[k2 rq uq]|]; try discriminate. destruct k2; try discriminate.
  simpl. apply andb_true_iff in H. destruct H as [H1 H2]. apply Nat.eqb_eq in H1, H2. subst. reflexivity.
Qed.

Lemma wf_ref_set : forall sch e a t r, wf_schema sch = true -> ref_info sch e a = Some (t, r) -> set_info sch t r = Some (e, a).
Proof.
  intros sch e a t r W S. unfold ref_info in S. destruct (get_attr sch e a) as [at_|] eqn:G; try discriminate.
  pose proof (wf_get_attr sch e a at_ W G) as H. unfold wf_attr in H.
  destruct (a_kind at_) eqn:K; try discriminate. inversion S; subst.
  apply andb_true_iff in H. destruct H as [_ H]. unfold set_info.
  destruct (get_attr sch t r) as [[k2 rq uq]|]; try discriminate. destruct k2; try discriminate.
  simpl. apply andb_true_iff in H. destruct H as [H1 H2]. apply Nat.eqb_eq in H1, H2. subst. reflexivity.
Qed.
