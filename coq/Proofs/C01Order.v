(* C01/C02 - ordering: sorting the kept rows by the stored key values with the dialect's NULL placement is sorting the comprehension's
   rows by the Python key values with None placed there; the sort only depends on the comparison of the rows it is given. *)
Require Import PonyV.Base.PyBase PonyV.Model.C01Expr PonyV.Model.C01Sql PonyV.Model.C01Translate PonyV.Model.C01Safe
               PonyV.Model.C01Eqb PonyV.Model.C01Query PonyV.Model.C01Aggr PonyV.Model.C01Order
               PonyV.Proofs.C01Base PonyV.Proofs.C01Ref PonyV.Proofs.C01Ops PonyV.Proofs.C01Rows PonyV.Proofs.C01Aggr.
From Coq Require Import ZifyBool.

(* ------------------------------------------------------------------------------------------- the sort *)
Lemma In_insert : forall A (le : A -> A -> bool) x l y, In y (insert le x l) -> y = x \/ In y l.
Proof.
  induction l as [|z l IH]; intros y H; cbn [insert] in H.
  - destruct H as [<-|[]]. left. reflexivity.
  - destruct (le x z); [destruct H as [<-|H]; [left; reflexivity|right; exact H]|].
    destruct H as [<-|H]; [right; left; reflexivity|]. destruct (IH y H) as [->|H']; [left; reflexivity|right; right; exact H'].
Qed.

Lemma In_sort : forall A (le : A -> A -> bool) l y, In y (sort_by le l) -> In y l.
Proof.
  induction l as [|x l IH]; intros y H; [exact H|]. cbn [sort_by fold_right] in H.
  destruct (In_insert _ _ _ _ _ H) as [->|H']; [left; reflexivity|right; apply IH; exact H'].
Qed.

Lemma insert_ext_in : forall A (le1 le2 : A -> A -> bool) x l, (forall y, In y l -> le1 x y = le2 x y) -> insert le1 x l = insert le2 x l.
Proof.
  induction l as [|z l IH]; intro H; [reflexivity|]. cbn [insert]. rewrite (H z (or_introl eq_refl)).
  destruct (le2 x z); [reflexivity|]. rewrite IH; [reflexivity|]. intros y Hy. apply H. right. exact Hy.
Qed.

Lemma sort_ext_in : forall A (le1 le2 : A -> A -> bool) l, (forall x y, In x l -> In y l -> le1 x y = le2 x y) -> sort_by le1 l = sort_by le2 l.
Proof.
  induction l as [|x l IH]; intro H; [reflexivity|]. cbn [sort_by fold_right]. fold (sort_by le1 l). fold (sort_by le2 l).
  rewrite <- (IH (fun a b Ha Hb => H a b (or_intror Ha) (or_intror Hb))).
  apply insert_ext_in. intros y Hy. apply H; [left; reflexivity|right; apply (In_sort _ le1); exact Hy].
Qed.

Lemma sort_filter_in : forall A (le : A -> A -> bool) l y, In y (sort_by le l) -> In y l.
Proof. exact In_sort. Qed.

(* ------------------------------------------------------------------------------------------- comparison of stored values *)
Lemma compare_enc : forall d nf t a b, has_vty a t = true -> has_vty b t = true ->
  qcompare nf (enc d a) (enc d b) = py_compare nf a b.
Proof.
  intros d nf t a b Ta Tb.
  destruct a as [|x|x|x], b as [|y|y|y], t; try discriminate; cbn [enc qcompare py_compare]; try reflexivity;
    unfold bv; destruct (pg d); cbn [qcompare]; try reflexivity; destruct nf; try reflexivity.
  all: try (symmetry; apply bool_compare_b2z).
Qed.

Section Order.
Variable d : dname.
Hypothesis Hd : modelled d = true.

Definition kdom (en : env) (e : expr) : Prop := env_ok en e = true /\ safe d en e = true /\ clean en e = true.

Definition orow_ok (filt : option expr) (ks : list okey) (proj : expr) (en : env) : Prop :=
  match filt with None => True | Some c => env_ok en c = true /\ safe d en c = true /\ pos_ok en c = true end /\
  Forall (fun k => kdom en (fst k)) ks /\ kdom en proj.

Lemma lex_sound : forall ks qks x y, tr_order d ks = Some qks ->
  Forall (fun k => kdom x (fst k)) ks -> Forall (fun k => kdom y (fst k)) ks ->
  sql_lex d qks x y = py_lex (nulls_first d) ks x y.
Proof.
  induction ks as [|[e desc] r IH]; intros qks x y E Dx Dy.
  - inversion E; subst. reflexivity.
  - cbn [tr_order] in E. destruct (ty_of e) as [[t| |]|] eqn:Te; try discriminate. destruct (tr_project d e) as [q|] eqn:Q; [|discriminate].
    destruct (tr_order d r) as [qs|] eqn:Er; [|discriminate]. inversion E; subst qks.
    inversion Dx as [|? ? [X1 [X2 X3]] Dx']; subst. inversion Dy as [|? ? [Y1 [Y2 Y3]] Dy']; subst. cbn [fst] in *.
    destruct (project_ref d Hd x e t Te X1 X2 X3) as [q1 [E1 [Qx _]]]. rewrite Q in E1. inversion E1; subst q1.
    destruct (project_ref d Hd y e t Te Y1 Y2 Y3) as [q2 [E2 [Qy _]]]. rewrite Q in E2. inversion E2; subst q2.
    cbn [sql_lex py_lex]. rewrite Qx, Qy, (IH qs x y eq_refl Dx' Dy').
    rewrite (compare_enc d (nulls_first d) t); [reflexivity| |].
    + unfold ref_eval. rewrite <- (clean_same x e X3). exact (reval_typed true x e (TV t) Te X1).
    + unfold ref_eval. rewrite <- (clean_same y e Y3). exact (reval_typed true y e (TV t) Te Y1).
Qed.

Theorem order_sound : forall table filt ks proj vt qks conds q,
  filt_typed filt = true -> ty_of proj = Some (TV vt) ->
  tr_where d filt = Some conds -> tr_order d ks = Some qks -> tr_project d proj = Some q ->
  Forall (orow_ok filt ks proj) table ->
  sql_order_rows d qks conds q table = map (enc d) (py_order_rows (nulls_first d) ks filt proj table) /\
  map (dec (TV vt)) (sql_order_rows d qks conds q table) = py_order_rows (nulls_first d) ks filt proj table.
Proof.
  intros table filt ks proj vt qks conds q Tf Hp EC EK EQ Hall. rewrite Forall_forall in Hall.
  assert (FE : filter (fun en => where_truth d (encenv d en) conds) table = filter (keeps filt) table).
  { apply filter_ext_in'. intros en Hin. destruct (Hall en Hin) as [Hf _]. destruct filt as [c|]; cbn [tr_where keeps filt_typed] in *.
    - destruct (ty_of c) as [t|] eqn:Tc; [|discriminate]. destruct Hf as [A1 [A2 A3]].
      destruct (filter_ref d Hd en c t Tc Tf A1 A2 A3) as [c' [E' W]]. rewrite EC in E'. inversion E'; subst. exact W.
    - inversion EC; subst. unfold where_truth, qand_list. cbn [map all_some fold_right keeps]. apply (sql_truth_of_tv d T). }
  unfold sql_order_rows, py_order_rows. rewrite FE. set (kept := filter (keeps filt) table).
  assert (KIn : forall en, In en kept -> In en table) by (intros en H; apply filter_In in H; tauto).
  assert (SE : sort_by (fun x y => not_gt (sql_lex d qks x y)) kept = sort_by (fun x y => not_gt (py_lex (nulls_first d) ks x y)) kept).
  { apply sort_ext_in. intros x y Hx Hy. rewrite (lex_sound ks qks x y EK); [reflexivity| |].
    - exact (proj1 (proj2 (Hall x (KIn x Hx)))). - exact (proj1 (proj2 (Hall y (KIn y Hy)))). }
  rewrite SE. set (sorted := sort_by (fun x y => not_gt (py_lex (nulls_first d) ks x y)) kept).
  assert (SIn : forall en, In en sorted -> In en table) by (intros en H; apply KIn; apply (In_sort _ _ _ _ H)).
  assert (ME : map (fun en => qeval d (encenv d en) q) sorted = map (enc d) (map (fun en => ref_eval en proj) sorted)).
  { rewrite map_map. apply map_ext_in. intros en Hin. destruct (Hall en (SIn en Hin)) as [_ [_ [A4 [A5 A6]]]].
    destruct (project_ref d Hd en proj vt Hp A4 A5 A6) as [q' [E' [Qv _]]]. rewrite EQ in E'. inversion E'; subst. exact Qv. }
  split; [exact ME|]. rewrite ME, map_map. rewrite <- (map_id (map (fun en => ref_eval en proj) sorted)) at 2. rewrite !map_map.
  apply map_ext_in. intros en Hin. destruct (Hall en (SIn en Hin)) as [_ [_ [A4 [A5 A6]]]]. apply dec_enc.
  unfold ref_eval. rewrite <- (clean_same en proj A6). exact (reval_typed true en proj (TV vt) Hp A4).
Qed.
End Order.

(* where None keys go does not matter when there is none *)
Lemma py_compare_nf : forall nf1 nf2 a b, is_none a = false -> is_none b = false -> py_compare nf1 a b = py_compare nf2 a b.
Proof. intros nf1 nf2 a b Ha Hb. destruct a, b; try discriminate; reflexivity. Qed.

Lemma py_lex_nf : forall nf1 nf2 ks x y,
  forallb (fun k => negb (is_none (ref_eval x (fst k)))) ks = true -> forallb (fun k => negb (is_none (ref_eval y (fst k)))) ks = true ->
  py_lex nf1 ks x y = py_lex nf2 ks x y.
Proof.
  induction ks as [|[e desc] r IH]; intros x y Hx Hy; [reflexivity|]. cbn [forallb fst] in Hx, Hy.
  apply andb_prop in Hx. destruct Hx as [X1 X2]. apply andb_prop in Hy. destruct Hy as [Y1 Y2]. rewrite negb_true_iff in X1, Y1.
  cbn [py_lex]. rewrite (py_compare_nf nf1 nf2 _ _ X1 Y1), (IH x y X2 Y2). reflexivity.
Qed.

Lemma py_order_nf : forall nf1 nf2 ks filt proj table, keys_not_none ks filt table = true ->
  py_order_rows nf1 ks filt proj table = py_order_rows nf2 ks filt proj table.
Proof.
  intros nf1 nf2 ks filt proj table H. unfold py_order_rows. f_equal. apply sort_ext_in. intros x y Hx Hy.
  unfold keys_not_none in H. rewrite forallb_forall in H. rewrite (py_lex_nf nf1 nf2 ks x y (H x Hx) (H y Hy)). reflexivity.
Qed.
