(* C23 - scalar attributes: the value read is the written value or the database value, whichever path loaded the object. *)
Require Import PonyV.Base.PyBase PonyV.Model.C23Scalar.
Open Scope nat_scope.

Lemma db_set_sinv : forall db attrs o, sinv db o -> sinv db (db_set db attrs o).
Proof.
  intros db attrs o H a. destruct (H a) as [H1 H2]. cbn. split.
  - intros v Hv Hw. rewrite Hw in Hv. cbn in Hv. rewrite andb_true_r in Hv.
    destruct (existsb (Nat.eqb a) attrs); [inversion Hv; auto | auto].
  - intros Hw. rewrite Hw. cbn. rewrite andb_false_r. auto.
Qed.

Lemma db_set_expected : forall db attrs o a, sinv db o -> expected db (db_set db attrs o) a = expected db o a.
Proof.
  intros db attrs o a H. unfold expected. cbn. destruct (so_written o a) eqn:Hw; auto.
  cbn. rewrite andb_false_r. reflexivity.
Qed.

Lemma read_spec : forall db lazy others a o, sinv db o ->
  fst (read db lazy others a o) = expected db o a /\ sinv db (snd (read db lazy others a o)) /\
  (forall b, expected db (snd (read db lazy others a o)) b = expected db o b).
Proof.
  intros db lazy others a o H. unfold read. destruct (so_vals o a) as [v|] eqn:Ev.
  - cbn. split; [|split; auto]. unfold expected. rewrite Ev. destruct (so_written o a) eqn:Hw; auto. apply (H a); auto.
  - set (attrs := if lazy a then [a] else a :: others).
    assert (Hw : so_written o a = false).
    { destruct (so_written o a) eqn:Hw; auto. exfalso. apply (proj2 (H a) Hw). auto. }
    cbn [fst snd]. split; [|split; [apply db_set_sinv; auto | intros b; apply db_set_expected; auto]].
    unfold expected. rewrite Hw. cbn. rewrite Hw. cbn. rewrite andb_true_r.
    destruct (existsb (Nat.eqb a) attrs) eqn:E; [reflexivity | rewrite Ev; reflexivity].
Qed.

(* any sequence of row merges (query results, seed batches, prefetch, lazy loads of other attributes) before the read *)
Lemma read_after_loads : forall db lazy others a (loads : list (list nat)) o, sinv db o ->
  let o' := fold_left (fun acc attrs => db_set db attrs acc) loads o in
  fst (read db lazy others a o') = expected db o a.
Proof.
  intros db lazy others a loads. induction loads as [|l loads IH]; intros o H; cbn.
  - apply read_spec; auto.
  - rewrite IH by (apply db_set_sinv; auto). apply db_set_expected; auto.
Qed.

Lemma write_sinv : forall db a v o, sinv db o -> sinv db (write a v o) /\ expected db (write a v o) a = v.
Proof.
  intros db a v o H. split.
  - intros b. cbn. destruct (Nat.eqb b a) eqn:E; [split; [discriminate | discriminate] | apply H].
  - unfold expected. cbn. rewrite Nat.eqb_refl. reflexivity.
Qed.
