(* C04 - the round trip: for every style that parenthesises at least where the grammar's rule `ref_needs` asks (and never
   parenthesises an item), the model parser reads `print st e` back as e.  Structural induction over unbounded trees. *)
From Coq Require Import ZArith List Bool Arith Lia.
Import ListNotations.
Require Import PonyV.Model.C04Expr PonyV.Model.C04Parse.

(* ------------------------------------------------------------------ induction over rose trees *)

Lemma expr_ind' (P : expr -> Prop) : (forall l cs, Forall P cs -> P (Node l cs)) -> forall e, P e.
Proof.
  intros H. fix IH 1. intros [l cs]. apply H.
  induction cs as [|c cs IHcs]; constructor; [apply IH | exact IHcs].
Qed.

(* ------------------------------------------------------------------ "with enough fuel the result is v" *)

Definition Ev {A} (g : nat -> option A) (v : A) : Prop := exists n, forall f, n <= f -> g f = Some v.

Lemma Ev_step {A} (g h : nat -> option A) v : (forall f, h (S f) = g f) -> Ev g v -> Ev h v.
Proof.
  intros E [n Hn]. exists (S n). intros f Hf. destruct f as [|f]; [lia|]. rewrite E. apply Hn. lia.
Qed.

Lemma Ev_bind {A B} (g1 : nat -> option A) (a : A) (k : nat -> A -> option B) (h : nat -> option B) v :
  (forall f, h (S f) = match g1 f with Some x => k f x | None => None end) ->
  Ev g1 a -> Ev (fun f => k f a) v -> Ev h v.
Proof.
  intros E [n1 H1] [n2 H2]. exists (S (Nat.max n1 n2)). intros f Hf. destruct f as [|f]; [lia|].
  rewrite E, H1 by lia. apply H2. lia.
Qed.

Lemma Ev_const {A} (v : A) (h : nat -> option A) : (forall f, h (S f) = Some v) -> Ev h v.
Proof. intros E. exists 1. intros f Hf. destruct f as [|f]; [lia|]. apply E. Qed.

Lemma Ev_ext {A} (g h : nat -> option A) v : (forall f, h f = g f) -> Ev g v -> Ev h v.
Proof. intros E [n Hn]. exists n. intros f Hf. rewrite E. apply Hn, Hf. Qed.

(* ------------------------------------------------------------------ what may follow an operand *)

(* level of the construct a token would continue an operand with (None: the token ends the expression) *)
Definition follow_level (t : tok) : option nat :=
  match t with
  | TDot _ | TLP | TLB => Some 13
  | TBin k => if is_binary k then Some (prec k) else None
  | TBool k => if is_bool k then Some (prec k) else None
  | TCmp _ => Some (prec KCompare)
  | TIf => Some (prec KIfExp)
  | _ => None
  end.

(* the rest of the input does not continue an operand that is open at level n *)
Definition guard (n : nat) (ts : list tok) : bool :=
  match ts with
  | [] => true
  | t :: _ => match follow_level t with Some L => L <? n | None => true end
  end.

Lemma guard_mono : forall n m ts, guard n ts = true -> n <= m -> guard m ts = true.
Proof.
  intros n m [|t r] H L; [reflexivity|]. simpl in *. destruct (follow_level t); [|reflexivity].
  apply Nat.ltb_lt in H. apply Nat.ltb_lt. lia.
Qed.

Lemma guard_min : forall a b ts, guard (Nat.min a b) ts = true -> guard a ts = true /\ guard b ts = true.
Proof. intros a b ts H. split; eapply guard_mono; eauto; lia. Qed.

Lemma climb_stops : forall n lvl e rest f, guard n rest = true -> n <= lvl -> n <= 13 -> climb (S f) lvl e rest = Some (e, rest).
Proof.
  intros n lvl e [|t r] f G L1 L2; [reflexivity|].
  destruct t; simpl in G; try reflexivity.
  - (* TBool *) simpl. destruct (is_bool k); [|reflexivity]. apply Nat.ltb_lt in G.
    assert (lvl <=? prec k = false) as -> by (apply Nat.leb_gt; lia). reflexivity.
  - (* TBin *) simpl. destruct (is_binary k); [|reflexivity]. apply Nat.ltb_lt in G.
    assert (lvl <=? prec k = false) as -> by (apply Nat.leb_gt; lia). reflexivity.
  - (* TCmp *) simpl. apply Nat.ltb_lt in G.
    assert (lvl <=? 4 = false) as -> by (apply Nat.leb_gt; lia). reflexivity.
  - (* TIf *) simpl. apply Nat.ltb_lt in G.
    assert (lvl <=? 0 = false) as -> by (apply Nat.leb_gt; lia). reflexivity.
  - (* TDot *) apply Nat.ltb_lt in G. lia.
  - (* TLP *) apply Nat.ltb_lt in G. lia.
  - (* TLB *) apply Nat.ltb_lt in G. lia.
Qed.

Lemma Ev_climb_stops : forall n lvl e rest, guard n rest = true -> n <= lvl -> n <= 13 -> Ev (fun f => climb f lvl e rest) (e, rest).
Proof. intros. apply Ev_const. intros f. eapply climb_stops; eauto. Qed.

(* ------------------------------------------------------------------ tokens an expression can start with *)

Definition starts_expr (t : tok) : bool :=
  match t with TName _ | TConst _ | TUn _ | TLambda _ | TLP | TLB | TFBegin => true | _ => false end.

(* ------------------------------------------------------------------ how low an unparenthesised expression is open on its right *)

(* level at which the text of a node of this kind is still open at its right end (None: it ends with a closing token) *)
Definition open_level (k : kind) : option nat :=
  match k with
  | KLambda => Some (req KLambda 0)
  | KIfExp => Some (req KIfExp 2)
  | KCompare => Some (prec KCompare)
  | _ => if is_bool k then Some (prec k)
         else if is_unary k then Some (req k 0)
         else if is_binary k then Some (req k 1)
         else None
  end.

Definition last_pos (k : kind) : nat := match k with KIfExp => 2 | _ => if is_binary k then 1 else 0 end.

(* a lower bound of the open level that depends on the kind only *)
Definition lowopen (k : kind) : nat :=
  match k with
  | KLambda | KIfExp => 0 | KOr => 1 | KAnd => 2 | KNot => 3 | KCompare => 4
  | KBitOr => 6 | KBitXor => 7 | KBitAnd => 8 | KLShift | KRShift => 9 | KAdd | KSub => 10
  | KMult | KDiv | KFloorDiv | KMod | KUSub | KUAdd | KInvert | KPow => 11
  | _ => 14
  end.

(* level of the token that follows the first child of these kinds *)
Definition follow0 (k : kind) : nat := match k with KAttribute | KCall | KSubscript => 13 | _ => prec k end.

Require Import PonyV.Proofs.C04Kinds.

Lemma lowopen_facts : forall k c,
  match open_level k with
  | None => true
  | Some r => (lowopen k <=? r) && implb (allowed k (last_pos k) c && (req k (last_pos k) <=? prec c)) (lowopen k <=? lowopen c)
  end = true.
Proof. apply all_kinds2. vm_compute. reflexivity. Qed.

Lemma lowopen_le_14 : forall k, lowopen k <= 14.
Proof. destruct k; simpl; lia. Qed.

(* an unparenthesised first child is not open as low as the token that follows it *)
Lemma follow0_facts : forall k c,
  implb ((is_bool k || is_binary k || kind_eqb k KCompare || kind_eqb k KIfExp || kind_eqb k KAttribute || kind_eqb k KCall || kind_eqb k KSubscript)
         && allowed k 0 c && (req k 0 <=? prec c)) (follow0 k <? lowopen c) = true.
Proof. apply all_kinds2. vm_compute. reflexivity. Qed.

(* positions that hold expressions only *)
Lemma allowed_expr_facts : forall k c,
  implb (allowed k 0 c && negb (kind_eqb k KTuple || kind_eqb k KList || kind_eqb k KIdxTuple || kind_eqb k KJoined)) (expr_kindb c) = true
  /\ implb (allowed k 1 c && negb (kind_eqb k KCall || kind_eqb k KSubscript)) (expr_kindb c) = true
  /\ implb (allowed k 2 c) (expr_kindb c) = true.
Proof.
  intros k c. repeat split.
  - revert k c. apply all_kinds2. vm_compute. reflexivity.
  - revert k c. apply all_kinds2. vm_compute. reflexivity.
  - revert k c. apply all_kinds2. vm_compute. reflexivity.
Qed.

Section RoundTrip.
Variable st : style.

Fixpoint rmin (e : expr) : nat :=
  match e with Node l cs =>
    match open_level (kind_of l) with
    | None => 14
    | Some r =>
        Nat.min r ((fix lastv (cs : list expr) : nat :=
                      match cs with
                      | [] => 14
                      | c :: cs' => match cs' with
                                    | [] => if needs st (kind_of l) (last_pos (kind_of l)) (ekind c) then 14 else rmin c
                                    | _ => lastv cs'
                                    end
                      end) cs)
    end
  end.

Definition lastv (k : kind) : list expr -> nat :=
  fix lastv (cs : list expr) : nat :=
    match cs with
    | [] => 14
    | c :: cs' => match cs' with
                  | [] => if needs st k (last_pos k) (ekind c) then 14 else rmin c
                  | _ => lastv cs'
                  end
    end.

Lemma rmin_node : forall l cs,
  rmin (Node l cs) = match open_level (kind_of l) with None => 14 | Some r => Nat.min r (lastv (kind_of l) cs) end.
Proof. reflexivity. Qed.

(* printed child *)
Definition pw (k : kind) (q : nat) (c : expr) : list tok := wrap (needs st k q (ekind c)) (print st c).

Lemma print_node : forall l cs, print st (Node l cs) = layout st l (wrap_children (print st) st (kind_of l) 0 cs).
Proof. reflexivity. Qed.

Lemma wrap_children_cons : forall k i c cs,
  wrap_children (print st) st k i (c :: cs) = pw k (pos_of k i) c :: wrap_children (print st) st k (S i) cs.
Proof. reflexivity. Qed.

Lemma wrap_children_const : forall k q cs i, (forall j, i <= j -> pos_of k j = q) ->
  wrap_children (print st) st k i cs = map (pw k q) cs.
Proof.
  intros k q cs. induction cs as [|c cs IH]; intros i H; [reflexivity|].
  rewrite wrap_children_cons. simpl. rewrite (H i) by lia. f_equal. apply IH. intros j Hj. apply H. lia.
Qed.

(* ------------------------------------------------------------------ unpacking `good` *)

Lemma good_node : forall l cs, good st (Node l cs) = true ->
  arity_ok l (length cs) = true /\ children_allowed (kind_of l) 0 cs = true /\ covers_children st (kind_of l) 0 cs = true
  /\ Forall (fun c => good st c = true) cs
  /\ (keep_spec st = true \/ match l with LFormatted _ (Some _) => False | _ => True end).
Proof.
  intros l cs H. unfold good in H. apply andb_prop in H. destruct H as [H Hi]. apply andb_prop in H. destruct H as [H Hs]. apply andb_prop in H. destruct H as [Hw Hc].
  simpl in Hw, Hc. apply andb_prop in Hw. destruct Hw as [Hw Hw3]. apply andb_prop in Hw. destruct Hw as [Hw1 Hw2].
  apply andb_prop in Hc. destruct Hc as [Hc1 Hc2].
  split; [exact Hw1|]. split; [exact Hw2|]. split; [exact Hc1|]. split.
  - rewrite forallb_forall in Hw3, Hc2. apply Forall_forall. intros c Hin. unfold good.
    rewrite (Hw3 c Hin), (Hc2 c Hin). simpl. apply andb_true_intro. split.
    + unfold spec_ok in *. destruct (keep_spec st); [reflexivity|]. simpl in *.
      apply andb_prop in Hs. destruct Hs as [_ Hs]. rewrite forallb_forall in Hs. exact (Hs c Hin).
    + unfold idx_ok in *. destruct (short_idx st); [reflexivity|]. simpl in *.
      apply andb_prop in Hi. destruct Hi as [_ Hi]. rewrite forallb_forall in Hi. exact (Hi c Hin).
  - unfold spec_ok in Hs. destruct (keep_spec st); [left; reflexivity|right]. simpl in Hs. apply andb_prop in Hs. destruct Hs as [Hs _].
    destruct l; try exact I. destruct spec; [discriminate Hs|exact I].
Qed.

Lemma good_idx : forall cs, good st (Node (LOp KIdxTuple) cs) = true -> short_idx st = true \/ 2 <= length cs.
Proof.
  intros cs H. unfold good in H. apply andb_prop in H. destruct H as [_ Hi]. unfold idx_ok in Hi.
  destruct (short_idx st); [left; reflexivity|right]. cbn [orb long_idx] in Hi. apply andb_prop in Hi. destruct Hi as [Hi _]. apply Nat.leb_le in Hi. exact Hi.
Qed.

Lemma children_allowed_const : forall k q cs i, (forall j, i <= j -> pos_of k j = q) ->
  children_allowed k i cs = true -> Forall (fun c => allowed k q (ekind c) = true) cs.
Proof.
  intros k q cs. induction cs as [|c cs IH]; intros i H Ha; constructor.
  - simpl in Ha. apply andb_prop in Ha. destruct Ha as [Ha _]. rewrite (H i) in Ha by lia. exact Ha.
  - simpl in Ha. apply andb_prop in Ha. destruct Ha as [_ Ha]. apply (IH (S i)); [|exact Ha]. intros j Hj. apply H. lia.
Qed.

Lemma covers_children_const : forall k q cs i, (forall j, i <= j -> pos_of k j = q) ->
  covers_children st k i cs = true -> Forall (fun c => child_ok st k q (ekind c) = true) cs.
Proof.
  intros k q cs. induction cs as [|c cs IH]; intros i H Ha; constructor.
  - simpl in Ha. apply andb_prop in Ha. destruct Ha as [Ha _]. rewrite (H i) in Ha by lia. exact Ha.
  - simpl in Ha. apply andb_prop in Ha. destruct Ha as [_ Ha]. apply (IH (S i)); [|exact Ha]. intros j Hj. apply H. lia.
Qed.

(* a child the style leaves bare has at least the level its position is parsed at *)
Lemma bare_prec : forall k q c, child_ok st k q c = true -> allowed k q c = true -> needs st k q c = false -> req k q <= prec c.
Proof.
  intros k q c Hc Ha Hn. unfold child_ok in Hc. apply andb_prop in Hc. destruct Hc as [Hc _].
  rewrite Hn in Hc. unfold ref_needs in Hc. rewrite Ha in Hc. simpl in Hc.
  destruct (prec c <? req k q) eqn:E; [discriminate Hc|]. apply Nat.ltb_ge in E. exact E.
Qed.

(* an item is never parenthesised *)
Lemma item_bare : forall k q c, child_ok st k q c = true -> expr_kindb c = false -> needs st k q c = false.
Proof.
  intros k q c Hc He. unfold child_ok in Hc. apply andb_prop in Hc. destruct Hc as [_ Hc].
  rewrite He in Hc. simpl in Hc. apply negb_true_iff in Hc. exact Hc.
Qed.


(* ------------------------------------------------------------------ lowopen bounds rmin from below *)

Lemma lastv_ge : forall k n,
  (forall c, allowed k (last_pos k) c = true -> req k (last_pos k) <= prec c -> n <= lowopen c) -> n <= 14 ->
  forall cs i, (cs <> [] -> pos_of k (i + length cs - 1) = last_pos k) ->
  children_allowed k i cs = true -> covers_children st k i cs = true ->
  Forall (fun c => good st c = true -> lowopen (ekind c) <= rmin c) cs -> Forall (fun c => good st c = true) cs ->
  n <= lastv k cs.
Proof.
  intros k n Hn H14 cs. induction cs as [|c cs IH]; intros i Hp Ha Hc HI Hg; [simpl; exact H14|].
  simpl in Ha, Hc. apply andb_prop in Ha. destruct Ha as [Ha Ha']. apply andb_prop in Hc. destruct Hc as [Hc Hc'].
  inversion HI as [|? ? HI1 HI2]; subst. inversion Hg as [|? ? Hg1 Hg2]; subst.
  destruct cs as [|c' cs].
  - simpl. assert (E : pos_of k i = last_pos k). { rewrite <- Hp by discriminate. f_equal. simpl. lia. }
    rewrite E in Ha, Hc. destruct (needs st k (last_pos k) (ekind c)) eqn:En; [exact H14|].
    specialize (HI1 Hg1). pose proof (bare_prec _ _ _ Hc Ha En) as Hb. specialize (Hn _ Ha Hb). lia.
  - change (lastv k (c :: c' :: cs)) with (lastv k (c' :: cs)).
    apply (IH (S i)); try assumption. intros _. rewrite <- Hp by discriminate. f_equal. simpl. lia.
Qed.

Lemma last_pos_ok : forall l n r, arity_ok l n = true -> open_level (kind_of l) = Some r -> n <> 0 ->
  pos_of (kind_of l) (n - 1) = last_pos (kind_of l).
Proof.
  intros l n r Ha Ho Hn. destruct l; simpl in *; try discriminate Ho; try reflexivity.
  destruct k; simpl in *; try discriminate Ho; try discriminate Ha; try reflexivity;
    apply Nat.eqb_eq in Ha; subst n; reflexivity.
Qed.

Lemma lowopen_le_rmin : forall e, good st e = true -> lowopen (ekind e) <= rmin e.
Proof.
  induction e as [l cs IH] using expr_ind'. intros Hg. rewrite rmin_node. simpl ekind.
  destruct (good_node _ _ Hg) as [Har [Hal [Hco [Hgs _]]]].
  destruct (open_level (kind_of l)) as [r|] eqn:Eo; [|apply lowopen_le_14].
  pose proof (lowopen_facts (kind_of l)) as LF. rewrite Eo in LF.
  apply Nat.min_glb.
  - specialize (LF KName). apply andb_prop in LF. destruct LF as [LF _]. apply Nat.leb_le in LF. exact LF.
  - apply (lastv_ge (kind_of l) (lowopen (kind_of l))) with (i := 0); try assumption.
    + intros c Hac Hrc. specialize (LF c). apply andb_prop in LF. destruct LF as [_ LF].
      rewrite Hac in LF. apply Nat.leb_le in Hrc. rewrite Hrc in LF. simpl in LF. apply Nat.leb_le in LF. exact LF.
    + apply lowopen_le_14.
    + intros Hne. simpl. apply (last_pos_ok l (length cs) r Har Eo). destruct cs; [congruence|simpl; lia].
Qed.

(* ------------------------------------------------------------------ the first token of a printed expression *)

Lemma pw_head : forall k q c rest,
  (needs st k q (ekind c) = false -> exists t r, print st c = t :: r /\ starts_expr t = true) ->
  exists t r, pw k q c ++ rest = t :: r /\ starts_expr t = true.
Proof.
  intros k q c rest H. unfold pw, wrap. destruct (needs st k q (ekind c)).
  - eexists. eexists. split; [reflexivity|reflexivity].
  - destruct (H eq_refl) as [t [r [E S]]]. rewrite E. eexists. eexists. split; [reflexivity|exact S].
Qed.


Lemma first_expr : forall k c, allowed k 0 c = true ->
  (kind_eqb k KTuple || kind_eqb k KList || kind_eqb k KIdxTuple || kind_eqb k KJoined) = false -> expr_kindb c = true.
Proof.
  intros k c Ha Hk. destruct (allowed_expr_facts k c) as [F _]. rewrite Ha, Hk in F. exact F.
Qed.

Lemma print_head : forall e, good st e = true -> expr_kindb (ekind e) = true ->
  exists t r, print st e = t :: r /\ starts_expr t = true.
Proof.
  induction e as [l cs IH] using expr_ind'. intros Hg Hk.
  destruct (good_node _ _ Hg) as [Har [Hal [Hco [Hgs _]]]]. rewrite print_node.
  assert (FC : forall c0 cs', cs = c0 :: cs' ->
               (kind_eqb (kind_of l) KTuple || kind_eqb (kind_of l) KList || kind_eqb (kind_of l) KIdxTuple || kind_eqb (kind_of l) KJoined) = false ->
               forall q rest, exists t r, pw (kind_of l) q c0 ++ rest = t :: r /\ starts_expr t = true).
  { intros c0 cs' E Hk' q rest. subst cs. apply pw_head. intros _.
    inversion IH as [|? ? IH0 _]; subst. inversion Hgs as [|? ? Hg0 _]; subst.
    apply IH0; [exact Hg0|]. simpl in Hal. apply andb_prop in Hal. destruct Hal as [Hal _].
    assert (P0 : pos_of (kind_of l) 0 = 0) by (destruct l; try reflexivity; destruct k; reflexivity).
    rewrite P0 in Hal. eapply first_expr; eauto. }
  destruct l; simpl in Hk; try discriminate Hk.
  - eexists. eexists. split; reflexivity.
  - eexists. eexists. split; reflexivity.
  - discriminate Har.
  - destruct k; simpl in Hk; try discriminate Hk; simpl in Har; try discriminate Har;
      try (cbn; eexists; eexists; split; reflexivity);
      try (destruct cs as [|c0 cs]; [discriminate Har|]; rewrite wrap_children_cons; cbn [layout is_bool is_unary is_binary sep_by kind_of];
           rewrite <- ?app_assoc; apply (FC c0 cs eq_refl eq_refl)).
    + (* Subscript *) destruct cs as [|c0 [|c1 [|c2 cs]]]; try discriminate Har. rewrite !wrap_children_cons. cbn [layout is_bool is_unary is_binary wrap_children].
      apply (FC c0 [c1] eq_refl eq_refl).
    + (* IfExp *) destruct cs as [|c0 [|c1 [|c2 [|c3 cs]]]]; try discriminate Har. rewrite !wrap_children_cons. cbn [layout is_bool is_unary is_binary wrap_children].
      apply (FC c0 [c1; c2] eq_refl eq_refl).
    + (* Tuple *) destruct cs as [|c0 [|c1 cs]]; cbn; eexists; eexists; split; reflexivity.
  - (* Compare *) destruct cs as [|c0 cs]; [discriminate Har|]. rewrite wrap_children_cons. cbn [layout]. apply (FC c0 cs eq_refl eq_refl).
  - (* Lambda *) cbn. eexists. eexists. split; reflexivity.
  - (* Attribute *) destruct cs as [|c0 [|c1 cs]]; try discriminate Har. rewrite wrap_children_cons. cbn [layout wrap_children concat]. rewrite app_nil_r.
    apply (FC c0 [] eq_refl eq_refl).
  - (* Joined *) destruct lits as [|l0 ls]; [discriminate Har|]. cbn. eexists. eexists. split; reflexivity.
  - discriminate Har.
  - discriminate Har.
  - discriminate Har.
Qed.


(* ------------------------------------------------------------------ unfolding the parser one step *)

Lemma parse_e_un : forall f lvl k r, is_unary k = true -> lvl <= prec k ->
  parse_e (S f) lvl (TUn k :: r) =
  match parse_e f (req k 0) r with Some (a, r') => climb f lvl (Node (LOp k) [a]) r' | None => None end.
Proof. intros f lvl k r Hu Hl. apply Nat.leb_le in Hl. simpl. rewrite Hu, Hl. reflexivity. Qed.

Lemma parse_e_lambda : forall f lvl args r, lvl <= prec KLambda ->
  parse_e (S f) lvl (TLambda args :: r) =
  match parse_e f (req KLambda 0) r with Some (b, r') => climb f lvl (Node (LLambda args) [b]) r' | None => None end.
Proof. intros f lvl args r Hl. apply Nat.leb_le in Hl. simpl. simpl in Hl. rewrite Hl. reflexivity. Qed.

Lemma parse_e_paren : forall f lvl t r, starts_expr t = true ->
  parse_e (S f) lvl (TLP :: t :: r) =
  match parse_elt f (t :: r) with
  | Some (a, TRP :: r') => if expr_kindb (ekind a) then climb f lvl a r' else None
  | Some (a, TTrail :: TRP :: r') => climb f lvl (Node (LOp KTuple) [a]) r'
  | Some (a, TComma :: r1) =>
      match parse_elts f r1 with
      | Some (more, TRP :: r') => climb f lvl (Node (LOp KTuple) (a :: more)) r'
      | _ => None
      end
  | _ => None
  end.
Proof. intros f lvl t r H. destruct t; try discriminate H; reflexivity. Qed.

Lemma parse_e_paren_star : forall f lvl r,
  parse_e (S f) lvl (TLP :: TStar :: r) =
  match parse_elt f (TStar :: r) with
  | Some (a, TRP :: r') => if expr_kindb (ekind a) then climb f lvl a r' else None
  | Some (a, TTrail :: TRP :: r') => climb f lvl (Node (LOp KTuple) [a]) r'
  | Some (a, TComma :: r1) =>
      match parse_elts f r1 with
      | Some (more, TRP :: r') => climb f lvl (Node (LOp KTuple) (a :: more)) r'
      | _ => None
      end
  | _ => None
  end.
Proof. reflexivity. Qed.

Lemma parse_e_bracket : forall f lvl t r, starts_expr t = true \/ t = TStar ->
  parse_e (S f) lvl (TLB :: t :: r) =
  match parse_elts f (t :: r) with
  | Some (es, TRB :: r') => climb f lvl (Node (LOp KList) es) r'
  | _ => None
  end.
Proof. intros f lvl t r [H|H]; [destruct t; try discriminate H; reflexivity | subst; reflexivity]. Qed.

Lemma parse_elt_expr : forall f t r, starts_expr t = true -> parse_elt (S f) (t :: r) = parse_e f 0 (t :: r).
Proof. intros f t r H. destruct t; try discriminate H; reflexivity. Qed.

Lemma parse_arg_expr : forall f t r, starts_expr t = true -> parse_arg (S f) (t :: r) = parse_e f 0 (t :: r).
Proof. intros f t r H. destruct t; try discriminate H; reflexivity. Qed.

Definition arg_start (t : tok) : bool := starts_expr t || match t with TStar | TDStar | TKw _ => true | _ => false end.

Lemma parse_args_cons : forall f t r, arg_start t = true ->
  parse_args (S f) (t :: r) =
  match parse_arg f (t :: r) with
  | Some (a, TRP :: r') => Some ([a], r')
  | Some (a, TComma :: r1) =>
      match parse_args f r1 with Some (more, r') => Some (a :: more, r') | None => None end
  | _ => None
  end.
Proof. intros f t r H. destruct t; try discriminate H; reflexivity. Qed.

(* ------------------------------------------------------------------ the statement for expressions, and what follows from it for a child *)

Definition M (e : expr) : Prop :=
  forall lvl rest v, lvl <= prec (ekind e) -> guard (rmin e) rest = true ->
  Ev (fun f => climb f lvl e rest) v -> Ev (fun f => parse_e f lvl (print st e ++ rest)) v.

Ltac fuel f Hf := intros f Hf; destruct f as [|f]; [lia|].

(* a parenthesised expression is read as a group *)
Lemma group_ok : forall c, good st c = true -> expr_kindb (ekind c) = true -> M c ->
  forall lvl rest v, Ev (fun f => climb f lvl c rest) v -> Ev (fun f => parse_e f lvl (TLP :: print st c ++ TRP :: rest)) v.
Proof.
  intros c Hg Hk Hm lvl rest v Hv.
  destruct (print_head c Hg Hk) as [t [r [E St]]].
  assert (H0 : Ev (fun f => parse_e f 0 (print st c ++ TRP :: rest)) (c, TRP :: rest)).
  { apply Hm; [lia|reflexivity|]. apply (Ev_climb_stops 0); [reflexivity|lia|lia]. }
  destruct H0 as [n Hn]. destruct Hv as [m Hmv]. exists (S (S (Nat.max n m))).
  fuel f Hf. rewrite E. simpl app. rewrite parse_e_paren by exact St.
  destruct f as [|f]; [lia|]. rewrite parse_elt_expr by exact St.
  rewrite E in Hn. simpl app in Hn. rewrite Hn by lia. rewrite Hk. apply Hmv. lia.
Qed.

Lemma child_lhs : forall k q c, good st c = true -> expr_kindb (ekind c) = true -> M c ->
  forall lvl rest v,
  (needs st k q (ekind c) = false -> lvl <= prec (ekind c) /\ guard (rmin c) rest = true) ->
  Ev (fun f => climb f lvl c rest) v -> Ev (fun f => parse_e f lvl (pw k q c ++ rest)) v.
Proof.
  intros k q c Hg Hk Hm lvl rest v Hb Hv. unfold pw, wrap. destruct (needs st k q (ekind c)).
  - simpl. rewrite <- app_assoc. simpl. apply group_ok; assumption.
  - destruct (Hb eq_refl) as [H1 H2]. apply Hm; assumption.
Qed.

Lemma child_done : forall k q c, good st c = true -> expr_kindb (ekind c) = true -> M c ->
  forall R rest,
  (needs st k q (ekind c) = false -> R <= prec (ekind c) /\ guard (rmin c) rest = true) ->
  guard (Nat.min R 13) rest = true ->
  Ev (fun f => parse_e f R (pw k q c ++ rest)) (c, rest).
Proof.
  intros k q c Hg Hk Hm R rest Hb Hs. apply child_lhs; try assumption.
  apply (Ev_climb_stops (Nat.min R 13)); [exact Hs|lia|lia].
Qed.

(* the same with the side conditions derived from the position *)
Lemma child_at : forall k q c, good st c = true -> expr_kindb (ekind c) = true -> M c ->
  child_ok st k q (ekind c) = true -> allowed k q (ekind c) = true ->
  forall rest, guard (Nat.min (req k q) 13) rest = true ->
  (needs st k q (ekind c) = false -> guard (lowopen (ekind c)) rest = true) ->
  Ev (fun f => parse_e f (req k q) (pw k q c ++ rest)) (c, rest).
Proof.
  intros k q c Hg Hk Hm Hc Ha rest Hs Hl. apply child_done; try assumption.
  intros Hn. split; [eapply bare_prec; eauto|].
  eapply guard_mono; [exact (Hl Hn)|]. apply lowopen_le_rmin. exact Hg.
Qed.

(* a closing token, a comma, a colon ... after the child: nothing can be swallowed *)
Lemma guard0 : forall n rest, guard 0 rest = true -> guard n rest = true.
Proof. intros n rest H. eapply guard_mono; [exact H|lia]. Qed.

Lemma child_at0 : forall k q c, good st c = true -> expr_kindb (ekind c) = true -> M c ->
  child_ok st k q (ekind c) = true -> allowed k q (ekind c) = true ->
  forall rest, guard 0 rest = true ->
  Ev (fun f => parse_e f (req k q) (pw k q c ++ rest)) (c, rest).
Proof. intros. apply child_at; try assumption; intros; apply guard0; assumption. Qed.


(* ------------------------------------------------------------------ the statements for items *)

Definition idx_follow (ts : list tok) : bool := match ts with TComma :: _ | TTrail :: _ | TRB :: _ => true | _ => false end.
Definition closer (ts : list tok) : bool := match ts with TRP :: _ | TRB :: _ => true | _ => false end.

Lemma idx_follow_guard : forall ts, idx_follow ts = true -> guard 0 ts = true.
Proof. intros [|t r] H; [reflexivity|]. destruct t; try discriminate H; reflexivity. Qed.
Lemma closer_guard : forall ts, closer ts = true -> guard 0 ts = true.
Proof. intros [|t r] H; [reflexivity|]. destruct t; try discriminate H; reflexivity. Qed.

Definition ArgOK (e : expr) : Prop :=
  forall rest, guard 0 rest = true -> Ev (fun f => parse_arg f (print st e ++ rest)) (e, rest).
Definition EltOK (e : expr) : Prop :=
  forall rest, guard 0 rest = true -> Ev (fun f => parse_elt f (print st e ++ rest)) (e, rest).
Definition SItemOK (e : expr) : Prop :=
  forall rest, idx_follow rest = true -> Ev (fun f => parse_sitem f (print st e ++ rest)) (e, rest).
Definition IdxOK (e : expr) : Prop :=
  forall rest, Ev (fun f => parse_index f (print st e ++ TRB :: rest)) (e, rest).
Definition FieldOK (e : expr) : Prop :=
  exists conv spec v W, e = Node (LFormatted conv spec) [v] /\ print st e = TFOpen :: W ++ [TFClose conv spec] /\
  forall tail, Ev (fun f => parse_e f (req KFormatted 0) (W ++ TFClose conv spec :: tail)) (v, TFClose conv spec :: tail).

Definition P (e : expr) : Prop :=
  good st e = true ->
  (expr_kindb (ekind e) = true -> M e) /\
  (ekind e = KStarArg \/ ekind e = KKeyword -> ArgOK e) /\
  (ekind e = KStarElt -> EltOK e) /\
  (ekind e = KSlice -> SItemOK e) /\
  (ekind e = KIdxTuple -> IdxOK e) /\
  (ekind e = KFormatted -> FieldOK e).

Lemma P_M : forall c, P c -> good st c = true -> expr_kindb (ekind c) = true -> M c.
Proof. intros c Hp Hg Hk. destruct (Hp Hg) as [H _]. exact (H Hk). Qed.

(* ------------------------------------------------------------------ one item of an argument list, a display, a subscript *)

Lemma kind_item_cases : forall k c, (expr_kindb c || kind_eqb c k) = true -> expr_kindb c = true \/ (expr_kindb c = false /\ c = k).
Proof.
  intros k c H. destruct (expr_kindb c) eqn:E; [left; reflexivity|right]. simpl in H. apply kind_eqb_eq in H. split; [reflexivity|exact H].
Qed.

Lemma elt_done : forall k c, k = KTuple \/ k = KList -> P c -> good st c = true ->
  allowed k 0 (ekind c) = true -> child_ok st k 0 (ekind c) = true ->
  forall rest, guard 0 rest = true -> Ev (fun f => parse_elt f (pw k 0 c ++ rest)) (c, rest).
Proof.
  intros k c Hk Hp Hg Ha Hc rest Hr.
  assert (Ha' : (expr_kindb (ekind c) || kind_eqb (ekind c) KStarElt) = true) by (destruct Hk; subst k; exact Ha).
  destruct (kind_item_cases _ _ Ha') as [He|[He Hs]].
  - destruct (pw_head k 0 c rest (fun _ => print_head c Hg He)) as [t [r [E St]]].
    assert (H : Ev (fun f => parse_e f 0 (pw k 0 c ++ rest)) (c, rest)).
    { assert (R0 : req k 0 = 0) by (destruct Hk; subst k; reflexivity).
      pose proof (child_at0 k 0 c Hg He (P_M c Hp Hg He) Hc Ha rest Hr) as H. rewrite R0 in H. exact H. }
    rewrite E in *. eapply Ev_step; [|exact H]. intros f. apply parse_elt_expr. exact St.
  - unfold pw. rewrite (item_bare _ _ _ Hc He). simpl. destruct (Hp Hg) as [_ [_ [H _]]]. apply H; assumption.
Qed.

Lemma arg_done : forall c, P c -> good st c = true ->
  allowed KCall 1 (ekind c) = true -> child_ok st KCall 1 (ekind c) = true ->
  forall rest, guard 0 rest = true -> Ev (fun f => parse_arg f (pw KCall 1 c ++ rest)) (c, rest).
Proof.
  intros c Hp Hg Ha Hc rest Hr.
  assert (Ha' : (expr_kindb (ekind c) || kind_eqb (ekind c) KStarArg || kind_eqb (ekind c) KKeyword) = true) by exact Ha.
  destruct (expr_kindb (ekind c)) eqn:He.
  - destruct (pw_head KCall 1 c rest (fun _ => print_head c Hg He)) as [t [r [E St]]].
    assert (H : Ev (fun f => parse_e f 0 (pw KCall 1 c ++ rest)) (c, rest)).
    { change 0 with (req KCall 1). apply child_at0; try assumption. apply P_M; assumption. }
    rewrite E in *. eapply Ev_step; [|exact H]. intros f. apply parse_arg_expr. exact St.
  - unfold pw. rewrite (item_bare _ _ _ Hc He). simpl. destruct (Hp Hg) as [_ [H _]]. apply H; [|assumption].
    simpl in Ha'. apply orb_prop in Ha'. destruct Ha' as [H1|H1]; apply kind_eqb_eq in H1; auto.
Qed.


(* ------------------------------------------------------------------ subscript items and slices *)

Lemma parse_sitem_expr : forall f t r a rest, starts_expr t = true ->
  parse_e f 0 (t :: r) = Some (a, rest) -> idx_follow rest = true ->
  parse_sitem (S f) (t :: r) = Some (a, rest).
Proof.
  intros f t r a rest Ht Hp Hr.
  assert (E : parse_sitem (S f) (t :: r) =
              match parse_e f 0 (t :: r) with
              | Some (a, TColon :: r) => slice_after_lower (parse_e f) (Some a) r
              | Some (a, r) => Some (a, r)
              | None => None
              end) by (destruct t; try discriminate Ht; reflexivity).
  rewrite E, Hp. destruct rest as [|t' r']; [discriminate Hr|]. destruct t'; try discriminate Hr; reflexivity.
Qed.

Lemma sitem_expr_done : forall k q c, good st c = true -> expr_kindb (ekind c) = true -> M c ->
  child_ok st k q (ekind c) = true -> allowed k q (ekind c) = true -> req k q = 0 ->
  forall rest, idx_follow rest = true -> Ev (fun f => parse_sitem f (pw k q c ++ rest)) (c, rest).
Proof.
  intros k q c Hg He Hm Hc Ha R0 rest Hr.
  destruct (pw_head k q c rest (fun _ => print_head c Hg He)) as [t [r [E St]]].
  pose proof (child_at0 k q c Hg He Hm Hc Ha rest (idx_follow_guard _ Hr)) as H. rewrite R0 in H.
  rewrite E in *. destruct H as [n Hn]. exists (S n). fuel f Hf.
  apply parse_sitem_expr; [exact St| apply Hn; lia | exact Hr].
Qed.

(* a part of a slice, followed by a colon or by the end of the item *)
Lemma slice_part : forall c, good st c = true -> expr_kindb (ekind c) = true -> M c ->
  child_ok st KSlice 0 (ekind c) = true -> allowed KSlice 0 (ekind c) = true ->
  forall rest, guard 0 rest = true -> Ev (fun f => parse_e f 0 (pw KSlice 0 c ++ rest)) (c, rest).
Proof. intros c Hg He Hm Hc Ha rest Hr. exact (child_at0 KSlice 0 c Hg He Hm Hc Ha rest Hr). Qed.

Lemma after_upper_step : forall c lo hi rest, good st c = true -> expr_kindb (ekind c) = true -> M c ->
  child_ok st KSlice 0 (ekind c) = true -> allowed KSlice 0 (ekind c) = true -> idx_follow rest = true ->
  Ev (fun f => slice_after_upper (parse_e f) lo hi (TColon :: pw KSlice 0 c ++ rest)) (mkslice lo hi (Some c), rest).
Proof.
  intros c lo hi rest Hg He Hm Hc Ha Hr.
  destruct (slice_part c Hg He Hm Hc Ha rest (idx_follow_guard _ Hr)) as [n Hn].
  exists n. intros f Hf. unfold slice_after_upper. change (req KSlice 0) with 0. rewrite Hn by lia. reflexivity.
Qed.

Lemma after_upper_nostep : forall lo hi rest f, idx_follow rest = true ->
  slice_after_upper (parse_e f) lo hi rest = Some (mkslice lo hi None, rest).
Proof.
  intros lo hi rest f Hr. destruct rest as [|t r]; [discriminate Hr|]. destruct t; try discriminate Hr; reflexivity.
Qed.

(* the part of a slice after the first colon: upper bound and step as the flags say *)
Definition SliceKid (c : expr) : Prop :=
  good st c = true /\ expr_kindb (ekind c) = true /\ M c /\ child_ok st KSlice 0 (ekind c) = true /\ allowed KSlice 0 (ekind c) = true.

Lemma after_lower_ok : forall lo (hi stp : option expr) rest,
  (forall c, hi = Some c -> SliceKid c) -> (forall c, stp = Some c -> SliceKid c) -> idx_follow rest = true ->
  Ev (fun f => slice_after_lower (parse_e f) lo
                 (match hi with Some c => pw KSlice 0 c | None => [] end ++
                  match stp with Some c => TColon :: pw KSlice 0 c | None => [] end ++ rest))
     (mkslice lo hi stp, rest).
Proof.
  intros lo hi stp rest Hh Hs Hr.
  assert (Tail : forall hi', Ev (fun f => slice_after_upper (parse_e f) lo hi'
                   (match stp with Some c => TColon :: pw KSlice 0 c | None => [] end ++ rest)) (mkslice lo hi' stp, rest)).
  { intros hi'. destruct stp as [s|].
    - destruct (Hs s eq_refl) as [Hg [He [Hm [Hc Ha]]]]. simpl app. apply after_upper_step; assumption.
    - simpl app. apply Ev_const. intros f. apply after_upper_nostep. exact Hr. }
  assert (TailG : guard 0 (match stp with Some c => TColon :: pw KSlice 0 c | None => [] end ++ rest) = true).
  { destruct stp; [reflexivity|]. simpl. apply idx_follow_guard. exact Hr. }
  assert (TailS : exists t r, match stp with Some c => TColon :: pw KSlice 0 c | None => [] end ++ rest = t :: r /\ slice_stop t = true).
  { destruct stp; simpl.
    - eexists. eexists. split; reflexivity.
    - destruct rest as [|t r]; [discriminate Hr|]. exists t, r. split; [reflexivity|]. destruct t; try discriminate Hr; reflexivity. }
  destruct hi as [u|].
  - destruct (Hh u eq_refl) as [Hg [He [Hm [Hc Ha]]]].
    destruct (pw_head KSlice 0 u (match stp with Some c => TColon :: pw KSlice 0 c | None => [] end ++ rest) (fun _ => print_head u Hg He)) as [t [r [E St]]].
    destruct (slice_part u Hg He Hm Hc Ha _ TailG) as [n Hn]. destruct (Tail (Some u)) as [m Hmv].
    exists (Nat.max n m). intros f Hf. unfold slice_after_lower. rewrite E.
    assert (slice_stop t = false) as -> by (destruct t; try discriminate St; reflexivity).
    rewrite <- E. change (req KSlice 0) with 0. rewrite Hn by lia. apply Hmv. lia.
  - simpl app. destruct TailS as [t [r [E Ss]]]. destruct (Tail None) as [m Hmv].
    exists m. intros f Hf. unfold slice_after_lower. rewrite E, Ss. rewrite <- E. apply Hmv. exact Hf.
Qed.


Lemma child_at_r : forall k q c, good st c = true -> expr_kindb (ekind c) = true -> M c ->
  child_ok st k q (ekind c) = true -> allowed k q (ekind c) = true ->
  forall rest, guard (Nat.min (req k q) 13) rest = true ->
  (needs st k q (ekind c) = false -> guard (rmin c) rest = true) ->
  Ev (fun f => parse_e f (req k q) (pw k q c ++ rest)) (c, rest).
Proof.
  intros k q c Hg Hk Hm Hc Ha rest Hs Hl. apply child_done; try assumption.
  intros Hn. split; [eapply bare_prec; eauto|exact (Hl Hn)].
Qed.

Lemma sitem_done : forall k q c, (k = KIdxTuple /\ q = 0) \/ (k = KSubscript /\ q = 1) -> ekind c <> KIdxTuple ->
  P c -> good st c = true -> allowed k q (ekind c) = true -> child_ok st k q (ekind c) = true ->
  forall rest, idx_follow rest = true -> Ev (fun f => parse_sitem f (pw k q c ++ rest)) (c, rest).
Proof.
  intros k q c Hk Hni Hp Hg Ha Hc rest Hr.
  destruct (expr_kindb (ekind c)) eqn:He.
  - apply sitem_expr_done; try assumption; [apply P_M; assumption|]. destruct Hk as [[-> ->]|[-> ->]]; reflexivity.
  - unfold pw. rewrite (item_bare _ _ _ Hc He). simpl. destruct (Hp Hg) as [_ [_ [_ [H _]]]]. apply H; [|assumption].
    destruct Hk as [[-> ->]|[-> ->]]; unfold allowed in Ha; simpl in Ha; rewrite He in Ha; simpl in Ha.
    + apply kind_eqb_eq in Ha. exact Ha.
    + apply orb_prop in Ha. destruct Ha as [Ha|Ha]; apply kind_eqb_eq in Ha; [exact Ha|contradiction].
Qed.

(* ------------------------------------------------------------------ lists of items *)

Lemma sep_by_cons2 : forall sep w w' ws rest, sep_by sep (w :: w' :: ws) ++ rest = w ++ sep :: (sep_by sep (w' :: ws) ++ rest).
Proof. intros. simpl. rewrite <- !app_assoc. simpl. rewrite <- !app_assoc. reflexivity. Qed.

Lemma sep_by_one : forall sep w rest, sep_by sep [w] ++ rest = w ++ rest.
Proof. intros. simpl. rewrite app_nil_r. reflexivity. Qed.

Lemma parse_elts_S : forall f ts, parse_elts (S f) ts =
  match parse_elt f ts with
  | Some (a, TComma :: r1) => match parse_elts f r1 with Some (more, r) => Some (a :: more, r) | None => None end
  | Some (a, r) => Some ([a], r)
  | None => None
  end.
Proof. reflexivity. Qed.

Lemma parse_sitems_S : forall f ts, parse_sitems (S f) ts =
  match parse_sitem f ts with
  | Some (a, TComma :: r1) => match parse_sitems f r1 with Some (more, r) => Some (a :: more, r) | None => None end
  | Some (a, r) => Some ([a], r)
  | None => None
  end.
Proof. reflexivity. Qed.

Lemma parse_index_S : forall f ts, parse_index (S f) ts =
  match parse_sitem f ts with
  | Some (a, TRB :: r) => Some (idx_norm a, r)
  | Some (a, TTrail :: TRB :: r) => Some (Node (LOp KIdxTuple) [a], r)
  | Some (a, TComma :: r1) =>
      match parse_sitems f r1 with
      | Some (more, TRB :: r) => Some (Node (LOp KIdxTuple) (a :: more), r)
      | _ => None
      end
  | _ => None
  end.
Proof. reflexivity. Qed.

Lemma idx_norm_id : forall a, ekind a <> KTuple -> idx_norm a = a.
Proof.
  intros [l cs] H. destruct l; try reflexivity. destruct k; try reflexivity. exfalso. apply H. reflexivity.
Qed.

Lemma elts_ok : forall k, k = KTuple \/ k = KList -> forall cs, cs <> [] ->
  Forall P cs -> Forall (fun c => good st c = true) cs ->
  Forall (fun c => allowed k 0 (ekind c) = true) cs -> Forall (fun c => child_ok st k 0 (ekind c) = true) cs ->
  forall rest, closer rest = true -> Ev (fun f => parse_elts f (sep_by TComma (map (pw k 0) cs) ++ rest)) (cs, rest).
Proof.
  intros k Hk cs. induction cs as [|c cs IH]; intros Hne HP Hg Ha Hc rest Hr; [congruence|].
  inversion HP as [|? ? HP1 HP2]; subst. inversion Hg as [|? ? Hg1 Hg2]; subst.
  inversion Ha as [|? ? Ha1 Ha2]; subst. inversion Hc as [|? ? Hc1 Hc2]; subst.
  destruct cs as [|c' cs].
  - simpl map. rewrite sep_by_one.
    destruct (elt_done k c Hk HP1 Hg1 Ha1 Hc1 rest (closer_guard _ Hr)) as [n Hn].
    exists (S n). fuel f Hf. rewrite parse_elts_S, Hn by lia.
    destruct rest as [|t r]; [discriminate Hr|]. destruct t; try discriminate Hr; reflexivity.
  - change (map (pw k 0) (c :: c' :: cs)) with (pw k 0 c :: pw k 0 c' :: map (pw k 0) cs). rewrite sep_by_cons2.
    assert (Hne' : c' :: cs <> []) by discriminate.
    destruct (IH Hne' HP2 Hg2 Ha2 Hc2 rest Hr) as [m Hmv].
    destruct (elt_done k c Hk HP1 Hg1 Ha1 Hc1 (TComma :: sep_by TComma (map (pw k 0) (c' :: cs)) ++ rest) eq_refl) as [n Hn].
    exists (S (Nat.max n m)). fuel f Hf. rewrite parse_elts_S, Hn by lia.
    change (map (pw k 0) (c' :: cs)) with (pw k 0 c' :: map (pw k 0) cs) in Hmv. rewrite Hmv by lia. reflexivity.
Qed.

Lemma sitems_ok : forall cs, cs <> [] ->
  Forall P cs -> Forall (fun c => good st c = true) cs ->
  Forall (fun c => allowed KIdxTuple 0 (ekind c) = true) cs -> Forall (fun c => child_ok st KIdxTuple 0 (ekind c) = true) cs ->
  forall rest, Ev (fun f => parse_sitems f (sep_by TComma (map (pw KIdxTuple 0) cs) ++ TRB :: rest)) (cs, TRB :: rest).
Proof.
  induction cs as [|c cs IH]; intros Hne HP Hg Ha Hc rest; [congruence|].
  inversion HP as [|? ? HP1 HP2]; subst. inversion Hg as [|? ? Hg1 Hg2]; subst.
  inversion Ha as [|? ? Ha1 Ha2]; subst. inversion Hc as [|? ? Hc1 Hc2]; subst.
  assert (Hni : ekind c <> KIdxTuple).
  { intros E. rewrite E in Ha1. discriminate Ha1. }
  destruct cs as [|c' cs].
  - simpl map. rewrite sep_by_one.
    destruct (sitem_done KIdxTuple 0 c (or_introl (conj eq_refl eq_refl)) Hni HP1 Hg1 Ha1 Hc1 (TRB :: rest) eq_refl) as [n Hn].
    exists (S n). fuel f Hf. rewrite parse_sitems_S, Hn by lia. reflexivity.
  - change (map (pw KIdxTuple 0) (c :: c' :: cs)) with (pw KIdxTuple 0 c :: pw KIdxTuple 0 c' :: map (pw KIdxTuple 0) cs). rewrite sep_by_cons2.
    assert (Hne' : c' :: cs <> []) by discriminate.
    destruct (IH Hne' HP2 Hg2 Ha2 Hc2 rest) as [m Hmv].
    destruct (sitem_done KIdxTuple 0 c (or_introl (conj eq_refl eq_refl)) Hni HP1 Hg1 Ha1 Hc1
                (TComma :: sep_by TComma (map (pw KIdxTuple 0) (c' :: cs)) ++ TRB :: rest) eq_refl) as [n Hn].
    exists (S (Nat.max n m)). fuel f Hf. rewrite parse_sitems_S, Hn by lia.
    change (map (pw KIdxTuple 0) (c' :: cs)) with (pw KIdxTuple 0 c' :: map (pw KIdxTuple 0) cs) in Hmv. rewrite Hmv by lia. reflexivity.
Qed.


Lemma item_head : forall c, good st c = true -> ekind c = KStarArg \/ ekind c = KStarElt \/ ekind c = KKeyword ->
  exists t r, print st c = t :: r /\ match t with TStar | TDStar | TKw _ => true | _ => false end = true.
Proof.
  intros [l cs] Hg Hk. destruct (good_node _ _ Hg) as [Har _]. rewrite print_node. simpl in Hk.
  destruct l; simpl in Hk; try (destruct Hk as [Hk|[Hk|Hk]]; discriminate Hk).
  - destruct k; try (destruct Hk as [Hk|[Hk|Hk]]; discriminate Hk); simpl in Har; try discriminate Har;
      cbn; eexists; eexists; split; reflexivity.
  - destruct name; cbn; eexists; eexists; split; reflexivity.
Qed.


Lemma arg_head : forall c rest, good st c = true -> allowed KCall 1 (ekind c) = true ->
  exists t r, pw KCall 1 c ++ rest = t :: r /\ arg_start t = true.
Proof.
  intros c rest Hg Ha.
  destruct (expr_kindb (ekind c)) eqn:He.
  - destruct (pw_head KCall 1 c rest (fun _ => print_head c Hg He)) as [t [r [E St]]]. exists t, r. split; [exact E|].
    unfold arg_start. rewrite St. reflexivity.
  - assert (Hk : ekind c = KStarArg \/ ekind c = KStarElt \/ ekind c = KKeyword).
    { unfold allowed in Ha. simpl in Ha. rewrite He in Ha. simpl in Ha. apply orb_prop in Ha. destruct Ha as [Ha|Ha]; apply kind_eqb_eq in Ha; auto. }
    destruct (item_head c Hg Hk) as [t [r [E Ht]]]. unfold pw, wrap.
    destruct (needs st KCall 1 (ekind c)).
    + eexists. eexists. split; reflexivity.
    + rewrite E. exists t, (r ++ rest). split; [reflexivity|]. unfold arg_start. destruct t; try discriminate Ht; reflexivity.
Qed.

Lemma args_ok : forall cs,
  Forall P cs -> Forall (fun c => good st c = true) cs ->
  Forall (fun c => allowed KCall 1 (ekind c) = true) cs -> Forall (fun c => child_ok st KCall 1 (ekind c) = true) cs ->
  forall rest, Ev (fun f => parse_args f (sep_by TComma (map (pw KCall 1) cs) ++ TRP :: rest)) (cs, rest).
Proof.
  induction cs as [|c cs IH]; intros HP Hg Ha Hc rest.
  - apply Ev_const. intros f. reflexivity.
  - inversion HP as [|? ? HP1 HP2]; subst. inversion Hg as [|? ? Hg1 Hg2]; subst.
    inversion Ha as [|? ? Ha1 Ha2]; subst. inversion Hc as [|? ? Hc1 Hc2]; subst.
    destruct cs as [|c' cs].
    + simpl map. rewrite sep_by_one.
      destruct (arg_head c (TRP :: rest) Hg1 Ha1) as [t [r [E St]]].
      destruct (arg_done c HP1 Hg1 Ha1 Hc1 (TRP :: rest) eq_refl) as [n Hn].
      exists (S n). fuel f Hf. rewrite E in *. rewrite parse_args_cons by exact St. rewrite Hn by lia. reflexivity.
    + change (map (pw KCall 1) (c :: c' :: cs)) with (pw KCall 1 c :: pw KCall 1 c' :: map (pw KCall 1) cs). rewrite sep_by_cons2.
      destruct (IH HP2 Hg2 Ha2 Hc2 rest) as [m Hmv].
      change (map (pw KCall 1) (c' :: cs)) with (pw KCall 1 c' :: map (pw KCall 1) cs) in Hmv.
      set (X := sep_by TComma (pw KCall 1 c' :: map (pw KCall 1) cs) ++ TRP :: rest) in *.
      destruct (arg_head c (TComma :: X) Hg1 Ha1) as [t [r [E St]]].
      destruct (arg_done c HP1 Hg1 Ha1 Hc1 (TComma :: X) eq_refl) as [n Hn].
      exists (S (Nat.max n m)). fuel f Hf. rewrite E in *. rewrite parse_args_cons by exact St. rewrite Hn by lia.
      rewrite Hmv by lia. reflexivity.
Qed.

(* ------------------------------------------------------------------ chains: a or b or c, a < b < c *)

Lemma bool_levels : forall k, is_bool k = true -> prec k < req k 0 /\ req k 0 <= 13 /\ follow0 k = prec k /\ last_pos k = 0.
Proof. intros k H. destruct k; try discriminate H; simpl; repeat split; lia. Qed.

Lemma bool_chain_step : forall f k r, bool_chain (S f) k (TBool k :: r) =
  match parse_e f (req k 0) r with
  | Some (b, r1) => match bool_chain f k r1 with Some (more, r2) => Some (b :: more, r2) | None => None end
  | None => None
  end.
Proof. intros. simpl. rewrite kind_eqb_refl. reflexivity. Qed.

Lemma bool_chain_stop : forall f k rest, is_bool k = true -> guard (prec k) rest = true -> bool_chain (S f) k rest = Some ([], rest).
Proof.
  intros f k rest Hk G. destruct rest as [|t r]; [reflexivity|]. destruct t; try reflexivity.
  simpl. destruct (kind_eqb k k0) eqn:E; [|reflexivity]. apply kind_eqb_eq in E. subst k0.
  simpl in G. rewrite Hk in G. rewrite Nat.ltb_irrefl in G. discriminate G.
Qed.

(* the guard a child needs when it is followed by the operator of its own parent *)
Lemma follow0_guard : forall k c t r,
  (is_bool k || is_binary k || kind_eqb k KCompare || kind_eqb k KIfExp || kind_eqb k KAttribute || kind_eqb k KCall || kind_eqb k KSubscript) = true ->
  follow_level t = Some (follow0 k) ->
  child_ok st k 0 (ekind c) = true -> allowed k 0 (ekind c) = true -> needs st k 0 (ekind c) = false ->
  guard (lowopen (ekind c)) (t :: r) = true.
Proof.
  intros k c t r Hk Ht Hc Ha Hn. simpl. rewrite Ht.
  pose proof (follow0_facts k (ekind c)) as F. rewrite Hk, Ha in F.
  pose proof (bare_prec _ _ _ Hc Ha Hn) as Hb. apply Nat.leb_le in Hb. rewrite Hb in F. exact F.
Qed.

Lemma bool_chain_ok : forall k, is_bool k = true -> forall cs,
  Forall P cs -> Forall (fun c => good st c = true) cs ->
  Forall (fun c => allowed k 0 (ekind c) = true) cs -> Forall (fun c => child_ok st k 0 (ekind c) = true) cs ->
  forall rest, guard (prec k) rest = true -> (cs <> [] -> guard (lastv k cs) rest = true) ->
  Ev (fun f => bool_chain f k (sep_tail (TBool k) (map (pw k 0) cs) ++ rest)) (cs, rest).
Proof.
  intros k Hk. destruct (bool_levels k Hk) as [L1 [L2 [L3 L4]]].
  induction cs as [|c cs IH]; intros HP Hg Ha Hc rest Gr Gl.
  - apply Ev_const. intros f. apply bool_chain_stop; assumption.
  - inversion HP as [|? ? HP1 HP2]; subst. inversion Hg as [|? ? Hg1 Hg2]; subst.
    inversion Ha as [|? ? Ha1 Ha2]; subst. inversion Hc as [|? ? Hc1 Hc2]; subst.
    assert (He : expr_kindb (ekind c) = true).
    { eapply first_expr; [exact Ha1|]. destruct k; try discriminate Hk; reflexivity. }
    simpl map. simpl sep_tail. cbn [app]. rewrite <- app_assoc.
    set (rest1 := sep_tail (TBool k) (map (pw k 0) cs) ++ rest).
    assert (H1 : Ev (fun f => parse_e f (req k 0) (pw k 0 c ++ rest1)) (c, rest1)).
    { destruct cs as [|c' cs].
      - subst rest1. simpl. apply child_at_r; try assumption; [apply P_M; assumption| |].
        + eapply guard_mono; [exact Gr|lia].
        + intros Hn. specialize (Gl ltac:(discriminate)). simpl in Gl. rewrite L4, Hn in Gl. exact Gl.
      - subst rest1. simpl. apply child_at; try assumption; [apply P_M; assumption| |].
        + simpl. rewrite Hk. apply Nat.ltb_lt. lia.
        + intros Hn. eapply follow0_guard; eauto; [rewrite Hk; reflexivity|]. simpl. rewrite Hk, L3. reflexivity. }
    assert (H2 : Ev (fun f => bool_chain f k rest1) (cs, rest)).
    { subst rest1. apply IH; try assumption. intros Hne. specialize (Gl ltac:(discriminate)).
      destruct cs as [|c' cs]; [congruence|exact Gl]. }
    destruct H1 as [n Hn]. destruct H2 as [m Hmv]. exists (S (Nat.max n m)). fuel f Hf.
    rewrite bool_chain_step, Hn by lia. rewrite Hmv by lia. reflexivity.
Qed.


Lemma cmp_chain_stop : forall f rest, guard (prec KCompare) rest = true -> cmp_chain (S f) rest = Some ([], [], rest).
Proof.
  intros f rest G. destruct rest as [|t r]; [reflexivity|]. destruct t; try reflexivity. simpl in G. discriminate G.
Qed.

Lemma cmp_chain_ok : forall cs ops, length ops = length cs ->
  Forall P cs -> Forall (fun c => good st c = true) cs ->
  Forall (fun c => allowed KCompare 0 (ekind c) = true) cs -> Forall (fun c => child_ok st KCompare 0 (ekind c) = true) cs ->
  forall rest, guard (prec KCompare) rest = true -> (cs <> [] -> guard (lastv KCompare cs) rest = true) ->
  Ev (fun f => cmp_chain f (cmp_tail ops (map (pw KCompare 0) cs) ++ rest)) (ops, cs, rest).
Proof.
  induction cs as [|c cs IH]; intros ops Hl HP Hg Ha Hc rest Gr Gl.
  - destruct ops; [|discriminate Hl]. apply Ev_const. intros f. apply cmp_chain_stop. exact Gr.
  - destruct ops as [|o ops]; [discriminate Hl|]. simpl in Hl. injection Hl as Hl.
    inversion HP as [|? ? HP1 HP2]; subst. inversion Hg as [|? ? Hg1 Hg2]; subst.
    inversion Ha as [|? ? Ha1 Ha2]; subst. inversion Hc as [|? ? Hc1 Hc2]; subst.
    assert (He : expr_kindb (ekind c) = true) by (eapply first_expr; [exact Ha1|reflexivity]).
    simpl map. simpl cmp_tail. cbn [app]. rewrite <- app_assoc.
    set (rest1 := cmp_tail ops (map (pw KCompare 0) cs) ++ rest).
    assert (H1 : Ev (fun f => parse_e f (req KCompare 0) (pw KCompare 0 c ++ rest1)) (c, rest1)).
    { destruct cs as [|c' cs].
      - destruct ops; [|discriminate Hl]. subst rest1. simpl. apply (child_at_r KCompare 0 c); try assumption; [apply P_M; assumption| |].
        + eapply guard_mono; [exact Gr|simpl; lia].
        + intros Hn. specialize (Gl ltac:(discriminate)). simpl in Gl. rewrite Hn in Gl. exact Gl.
      - destruct ops as [|o' ops]; [discriminate Hl|]. subst rest1. simpl. apply (child_at KCompare 0 c); try assumption; [apply P_M; assumption| |].
        + reflexivity.
        + intros Hn. eapply follow0_guard; eauto; reflexivity. }
    assert (H2 : Ev (fun f => cmp_chain f rest1) (ops, cs, rest)).
    { subst rest1. apply IH; try assumption. intros Hne. specialize (Gl ltac:(discriminate)).
      destruct cs as [|c' cs]; [congruence|exact Gl]. }
    destruct H1 as [n Hn]. destruct H2 as [m Hmv]. exists (S (Nat.max n m)). fuel f Hf.
    simpl. change (req KCompare 0) with 5 in Hn. rewrite Hn by lia. rewrite Hmv by lia. reflexivity.
Qed.

(* ------------------------------------------------------------------ f-string parts *)

Lemma fparts_ok : forall fs ls, length ls = length fs ->
  Forall P fs -> Forall (fun c => good st c = true) fs ->
  Forall (fun c => allowed KJoined 0 (ekind c) = true) fs -> Forall (fun c => child_ok st KJoined 0 (ekind c) = true) fs ->
  forall rest, Ev (fun f => parse_fparts f (fparts (map (pw KJoined 0) fs) ls ++ TFEnd :: rest)) (ls, fs, rest).
Proof.
  induction fs as [|c fs IH]; intros ls Hl HP Hg Ha Hc rest.
  - destruct ls; [|discriminate Hl]. apply Ev_const. intros f. reflexivity.
  - destruct ls as [|l ls]; [discriminate Hl|]. simpl in Hl. injection Hl as Hl.
    inversion HP as [|? ? HP1 HP2]; subst. inversion Hg as [|? ? Hg1 Hg2]; subst.
    inversion Ha as [|? ? Ha1 Ha2]; subst. inversion Hc as [|? ? Hc1 Hc2]; subst.
    assert (Ek : ekind c = KFormatted).
    { unfold allowed in Ha1. simpl in Ha1. apply kind_eqb_eq in Ha1. exact Ha1. }
    assert (Hn : needs st KJoined 0 (ekind c) = false) by (apply (item_bare _ _ _ Hc1); rewrite Ek; reflexivity).
    destruct (HP1 Hg1) as [_ [_ [_ [_ [_ HF]]]]]. destruct (HF Ek) as [conv [spec [v [W [Ec [Ep Hv]]]]]].
    simpl map. simpl fparts. unfold pw at 1. rewrite Hn. simpl wrap. rewrite Ep. cbn [app]. rewrite <- !app_assoc. cbn [app].
    set (rest1 := fparts (map (pw KJoined 0) fs) ls ++ TFEnd :: rest).
    destruct (Hv (TFLit l :: rest1)) as [n Hnv]. destruct (IH ls Hl HP2 Hg2 Ha2 Hc2 rest) as [m Hmv].
    exists (S (Nat.max n m)). fuel f Hf. simpl. change (req KFormatted 0) with 0 in Hnv. rewrite Hnv by lia.
    fold rest1 in Hmv. rewrite Hmv by lia. rewrite Ec. reflexivity.
Qed.


(* ------------------------------------------------------------------ the induction, one node kind at a time *)

Ltac vac :=
  let H := fresh "Hv" in
  intros H; simpl in H;
  first [ discriminate H | subst; simpl in *; discriminate | destruct H as [H|H]; first [discriminate H | subst; simpl in *; discriminate] ].

Ltac kids1 c Hal Hco Hgs IH :=
  simpl in Hal, Hco; apply andb_prop in Hal; destruct Hal as [Hal _]; apply andb_prop in Hco; destruct Hco as [Hco _];
  inversion Hgs as [|? ? Hg1 _]; subst; inversion IH as [|? ? IH1 _]; subst.

Lemma case_name : forall s cs, Forall P cs -> P (Node (LName s) cs).
Proof.
  intros s cs IH Hg. destruct (good_node _ _ Hg) as [Har _]. destruct cs; [|discriminate Har].
  split; [|repeat split; vac]. intros _ lvl rest v Hl G Hv. eapply Ev_step; [|exact Hv]. intros f. reflexivity.
Qed.

Lemma case_const : forall s cs, Forall P cs -> P (Node (LConst s) cs).
Proof.
  intros s cs IH Hg. destruct (good_node _ _ Hg) as [Har _]. destruct cs; [|discriminate Har].
  split; [|repeat split; vac]. intros _ lvl rest v Hl G Hv. eapply Ev_step; [|exact Hv]. intros f. reflexivity.
Qed.

Lemma unary_levels : forall k, is_unary k = true ->
  open_level k = Some (req k 0) /\ req k 0 <= 13 /\ last_pos k = 0 /\ pos_of k 0 = 0 /\ expr_kindb k = true /\ is_bool k = false
  /\ (kind_eqb k KTuple || kind_eqb k KList || kind_eqb k KIdxTuple || kind_eqb k KJoined) = false.
Proof. intros k H. destruct k; try discriminate H; simpl; repeat split; lia. Qed.

Lemma case_unary : forall k cs, is_unary k = true -> Forall P cs -> P (Node (LOp k) cs).
Proof.
  intros k cs Hu IH Hg. destruct (good_node _ _ Hg) as [Har [Hal [Hco [Hgs _]]]].
  destruct (unary_levels k Hu) as [Lo [L13 [Llp [Lp0 [Lek [Lb Lt]]]]]].
  simpl in Har. rewrite Lb, Hu in Har. destruct cs as [|c [|c' cs]]; try discriminate Har.
  simpl kind_of in *. kids1 c Hal Hco Hgs IH. rewrite Lp0 in Hal, Hco.
  assert (He : expr_kindb (ekind c) = true) by (eapply first_expr; eauto).
  split; [|repeat split; vac]. intros _ lvl rest v Hl G Hv. simpl ekind in Hl.
  rewrite print_node. simpl kind_of. rewrite wrap_children_cons. unfold layout. rewrite Lb, Hu. rewrite Lp0. cbn [wrap_children concat app].
  rewrite app_nil_r.
  rewrite rmin_node in G. simpl kind_of in G. rewrite Lo in G. destruct (guard_min _ _ _ G) as [G1 G2]. simpl in G2. rewrite Llp in G2.
  assert (H1 : Ev (fun f => parse_e f (req k 0) (pw k 0 c ++ rest)) (c, rest)).
  { apply (child_at_r k 0 c Hg1 He (P_M c IH1 Hg1 He) Hco Hal).
    - eapply guard_mono; [exact G1|lia].
    - intros Hn. rewrite Hn in G2. exact G2. }
  destruct H1 as [n Hn]. destruct Hv as [m Hmv]. exists (S (Nat.max n m)). fuel f Hf.
  rewrite parse_e_un by assumption. rewrite Hn by lia. apply Hmv. lia.
Qed.

Lemma case_lambda : forall args cs, Forall P cs -> P (Node (LLambda args) cs).
Proof.
  intros args cs IH Hg. destruct (good_node _ _ Hg) as [Har [Hal [Hco [Hgs _]]]].
  destruct cs as [|c [|c' cs]]; try discriminate Har.
  simpl kind_of in *. kids1 c Hal Hco Hgs IH. change (pos_of KLambda 0) with 0 in *.
  assert (He : expr_kindb (ekind c) = true) by (eapply first_expr; eauto).
  split; [|repeat split; vac]. intros _ lvl rest v Hl G Hv. simpl ekind in Hl.
  rewrite print_node. simpl kind_of. rewrite wrap_children_cons. cbn [layout wrap_children concat app]. change (pos_of KLambda 0) with 0.
  rewrite app_nil_r.
  rewrite rmin_node in G. simpl kind_of in G. change (open_level KLambda) with (Some 0) in G. destruct (guard_min _ _ _ G) as [G1 G2]. simpl in G2.
  assert (H1 : Ev (fun f => parse_e f (req KLambda 0) (pw KLambda 0 c ++ rest)) (c, rest)).
  { apply (child_at_r KLambda 0 c Hg1 He (P_M c IH1 Hg1 He) Hco Hal).
    - exact G1.
    - intros Hn. rewrite Hn in G2. exact G2. }
  destruct H1 as [n Hn]. destruct Hv as [m Hmv]. exists (S (Nat.max n m)). fuel f Hf.
  rewrite parse_e_lambda by assumption. rewrite Hn by lia. apply Hmv. lia.
Qed.

Lemma case_attribute : forall name cs, Forall P cs -> P (Node (LAttribute name) cs).
Proof.
  intros name cs IH Hg. destruct (good_node _ _ Hg) as [Har [Hal [Hco [Hgs _]]]].
  destruct cs as [|c [|c' cs]]; try discriminate Har.
  simpl kind_of in *. kids1 c Hal Hco Hgs IH. change (pos_of KAttribute 0) with 0 in *.
  assert (He : expr_kindb (ekind c) = true) by (eapply first_expr; eauto).
  split; [|repeat split; vac]. intros _ lvl rest v Hl G Hv. simpl ekind in Hl.
  rewrite print_node. simpl kind_of. rewrite wrap_children_cons. cbn [layout wrap_children concat app]. change (pos_of KAttribute 0) with 0.
  rewrite app_nil_r. rewrite <- app_assoc. cbn [app].
  apply (child_lhs KAttribute 0 c Hg1 He (P_M c IH1 Hg1 He)).
  - intros Hn. split; [pose proof (bare_prec _ _ _ Hco Hal Hn) as Hb; simpl in Hb, Hl; lia|].
    eapply guard_mono; [|apply lowopen_le_rmin; exact Hg1]. eapply follow0_guard; eauto; reflexivity.
  - eapply Ev_step; [|exact Hv]. intros f. reflexivity.
Qed.


Lemma binary_levels : forall k, is_binary k = true ->
  open_level k = Some (req k 1) /\ req k 1 <= 13 /\ last_pos k = 1 /\ pos_of k 0 = 0 /\ pos_of k 1 = 1 /\ expr_kindb k = true
  /\ is_bool k = false /\ is_unary k = false /\ prec k <= req k 0 /\ follow0 k = prec k
  /\ (kind_eqb k KTuple || kind_eqb k KList || kind_eqb k KIdxTuple || kind_eqb k KJoined) = false
  /\ (kind_eqb k KCall || kind_eqb k KSubscript) = false.
Proof. intros k H. destruct k; try discriminate H; simpl; repeat split; lia. Qed.

Lemma second_expr : forall k c, allowed k 1 c = true -> (kind_eqb k KCall || kind_eqb k KSubscript) = false -> expr_kindb c = true.
Proof. intros k c Ha Hk. destruct (allowed_expr_facts k c) as [_ [F _]]. rewrite Ha, Hk in F. exact F. Qed.

Lemma third_expr : forall k c, allowed k 2 c = true -> expr_kindb c = true.
Proof. intros k c Ha. destruct (allowed_expr_facts k c) as [_ [_ F]]. rewrite Ha in F. exact F. Qed.

Lemma case_binary : forall k cs, is_binary k = true -> Forall P cs -> P (Node (LOp k) cs).
Proof.
  intros k cs Hb IH Hg. destruct (good_node _ _ Hg) as [Har [Hal [Hco [Hgs _]]]].
  destruct (binary_levels k Hb) as [Lo [L13 [Llp [Lp0 [Lp1 [Lek [Lbo [Lun [Lpr [Lf0 [Lt Lc]]]]]]]]]]].
  simpl in Har. rewrite Lbo, Lun, Hb in Har. destruct cs as [|a [|b [|c' cs]]]; try discriminate Har.
  simpl kind_of in *. simpl in Hal, Hco. rewrite Lp0, Lp1 in Hal, Hco.
  apply andb_prop in Hal. destruct Hal as [Ha0 Hal]. apply andb_prop in Hal. destruct Hal as [Ha1 _].
  apply andb_prop in Hco. destruct Hco as [Hc0 Hco]. apply andb_prop in Hco. destruct Hco as [Hc1 _].
  inversion Hgs as [|? ? Hg0 Hgs']; subst. inversion Hgs' as [|? ? Hg1 _]; subst.
  inversion IH as [|? ? IH0 IH']; subst. inversion IH' as [|? ? IH1 _]; subst.
  assert (He0 : expr_kindb (ekind a) = true) by (eapply first_expr; eauto).
  assert (He1 : expr_kindb (ekind b) = true) by (eapply second_expr; eauto).
  split; [|repeat split; vac]. intros _ lvl rest v Hl G Hv. simpl ekind in Hl.
  rewrite print_node. simpl kind_of. rewrite !wrap_children_cons. unfold layout. rewrite Lbo, Lun, Hb. rewrite Lp0, Lp1.
  cbn [wrap_children sep_by sep_tail]. rewrite app_nil_r. rewrite <- app_assoc. cbn [app].
  rewrite rmin_node in G. simpl kind_of in G. rewrite Lo in G. destruct (guard_min _ _ _ G) as [G1 G2]. simpl in G2. rewrite Llp in G2.
  apply (child_lhs k 0 a Hg0 He0 (P_M a IH0 Hg0 He0)).
  - intros Hn. split; [pose proof (bare_prec _ _ _ Hc0 Ha0 Hn) as Hbp; lia|].
    eapply guard_mono; [|apply lowopen_le_rmin; exact Hg0]. eapply follow0_guard; eauto.
    + rewrite Hb. destruct (is_bool k); reflexivity.
    + simpl. rewrite Hb, Lf0. reflexivity.
  - assert (H1 : Ev (fun f => parse_e f (req k 1) (pw k 1 b ++ rest)) (b, rest)).
    { apply (child_at_r k 1 b Hg1 He1 (P_M b IH1 Hg1 He1) Hc1 Ha1).
      - eapply guard_mono; [exact G1|lia].
      - intros Hn. rewrite Hn in G2. exact G2. }
    destruct H1 as [n Hn]. destruct Hv as [m Hmv]. exists (S (Nat.max n m)). fuel f Hf.
    simpl. rewrite Hb. apply Nat.leb_le in Hl. rewrite Hl. simpl. rewrite Hn by lia. apply Hmv. lia.
Qed.

Lemma pos_of_bool : forall k j, is_bool k = true -> pos_of k j = 0.
Proof. intros k j H. destruct k; try discriminate H; reflexivity. Qed.

Lemma case_bool : forall k cs, is_bool k = true -> Forall P cs -> P (Node (LOp k) cs).
Proof.
  intros k cs Hb IH Hg. destruct (good_node _ _ Hg) as [Har [Hal [Hco [Hgs _]]]].
  destruct (bool_levels k Hb) as [L1 [L2 [L3 L4]]].
  simpl in Har. rewrite Hb in Har. destruct cs as [|a [|b more]]; try discriminate Har.
  simpl kind_of in *.
  pose proof (children_allowed_const k 0 _ 0 (fun j _ => pos_of_bool k j Hb) Hal) as FA.
  pose proof (covers_children_const k 0 _ 0 (fun j _ => pos_of_bool k j Hb) Hco) as FC.
  inversion FA as [|? ? Ha0 FA']; subst. inversion FC as [|? ? Hc0 FC']; subst.
  inversion Hgs as [|? ? Hg0 Hgs']; subst. inversion IH as [|? ? IH0 IH']; subst.
  assert (Hk4 : (kind_eqb k KTuple || kind_eqb k KList || kind_eqb k KIdxTuple || kind_eqb k KJoined) = false)
    by (destruct k; try discriminate Hb; reflexivity).
  assert (He0 : expr_kindb (ekind a) = true) by (eapply first_expr; eauto).
  assert (Lo : open_level k = Some (prec k)) by (destruct k; try discriminate Hb; reflexivity).
  split; [|repeat split; vac]. intros _ lvl rest v Hl G Hv. simpl ekind in Hl.
  rewrite print_node. simpl kind_of. rewrite (wrap_children_const k 0 _ 0 (fun j _ => pos_of_bool k j Hb)).
  unfold layout. rewrite Hb. cbn [map sep_by]. rewrite <- app_assoc.
  rewrite rmin_node in G. simpl kind_of in G. rewrite Lo in G. destruct (guard_min _ _ _ G) as [G1 G2].
  change (lastv k (a :: b :: more)) with (lastv k (b :: more)) in G2.
  apply (child_lhs k 0 a Hg0 He0 (P_M a IH0 Hg0 He0)).
  - intros Hn. split; [pose proof (bare_prec _ _ _ Hc0 Ha0 Hn) as Hbp; lia|].
    eapply guard_mono; [|apply lowopen_le_rmin; exact Hg0]. simpl sep_tail. cbn [app]. eapply follow0_guard; eauto.
    + rewrite Hb. reflexivity.
    + simpl. rewrite Hb, L3. reflexivity.
  - destruct (bool_chain_ok k Hb (b :: more) IH' Hgs' FA' FC' rest G1 (fun _ => G2)) as [n Hn].
    destruct Hv as [m Hmv]. exists (S (Nat.max n m)). fuel f Hf.
    change (map (pw k 0) (b :: more)) with (pw k 0 b :: map (pw k 0) more) in *.
    simpl sep_tail in *. cbn [app] in *. simpl climb. rewrite Hb. apply Nat.leb_le in Hl. rewrite Hl. simpl andb. cbv iota.
    rewrite Hn by lia. apply Hmv. lia.
Qed.


Lemma case_compare : forall ops cs, Forall P cs -> P (Node (LCompare ops) cs).
Proof.
  intros ops cs IH Hg. destruct (good_node _ _ Hg) as [Har [Hal [Hco [Hgs _]]]].
  change (arity_ok (LCompare ops) (length cs)) with ((2 <=? length cs) && (S (length ops) =? length cs)) in Har.
  apply andb_prop in Har. destruct Har as [Har1 Har2]. apply Nat.eqb_eq in Har2.
  destruct cs as [|a [|b more]]; try discriminate Har1.
  simpl kind_of in *.
  pose proof (children_allowed_const KCompare 0 _ 0 (fun j _ => eq_refl) Hal) as FA.
  pose proof (covers_children_const KCompare 0 _ 0 (fun j _ => eq_refl) Hco) as FC.
  inversion FA as [|? ? Ha0 FA']; subst. inversion FC as [|? ? Hc0 FC']; subst.
  inversion Hgs as [|? ? Hg0 Hgs']; subst. inversion IH as [|? ? IH0 IH']; subst.
  assert (He0 : expr_kindb (ekind a) = true) by (eapply first_expr; eauto).
  assert (Hlen : length ops = length (b :: more)) by (simpl in Har2; simpl; lia).
  split; [|repeat split; vac]. intros _ lvl rest v Hl G Hv. simpl ekind in Hl.
  rewrite print_node. simpl kind_of. rewrite (wrap_children_const KCompare 0 _ 0 (fun j _ => eq_refl)).
  cbn [layout map]. rewrite <- app_assoc.
  rewrite rmin_node in G. simpl kind_of in G. change (open_level KCompare) with (Some (prec KCompare)) in G. destruct (guard_min _ _ _ G) as [G1 G2].
  change (lastv KCompare (a :: b :: more)) with (lastv KCompare (b :: more)) in G2.
  destruct ops as [|o ops]; [discriminate Hlen|].
  apply (child_lhs KCompare 0 a Hg0 He0 (P_M a IH0 Hg0 He0)).
  - intros Hn. split; [pose proof (bare_prec _ _ _ Hc0 Ha0 Hn) as Hbp; simpl in Hbp, Hl; lia|].
    eapply guard_mono; [|apply lowopen_le_rmin; exact Hg0]. simpl cmp_tail. cbn [app]. eapply follow0_guard; eauto; reflexivity.
  - destruct (cmp_chain_ok (b :: more) (o :: ops) Hlen IH' Hgs' FA' FC' rest G1 (fun _ => G2)) as [n Hn].
    destruct Hv as [m Hmv]. exists (S (Nat.max n m)). fuel f Hf.
    change (map (pw KCompare 0) (b :: more)) with (pw KCompare 0 b :: map (pw KCompare 0) more) in *.
    simpl cmp_tail in *. cbn [app] in *. simpl climb. apply Nat.leb_le in Hl. simpl in Hl. rewrite Hl.
    rewrite Hn by lia. apply Hmv. lia.
Qed.

Lemma case_ifexp : forall cs, Forall P cs -> P (Node (LOp KIfExp) cs).
Proof.
  intros cs IH Hg. destruct (good_node _ _ Hg) as [Har [Hal [Hco [Hgs _]]]].
  destruct cs as [|a [|b [|c [|c' cs]]]]; try discriminate Har.
  simpl kind_of in *. simpl in Hal, Hco.
  apply andb_prop in Hal. destruct Hal as [Ha0 Hal]. apply andb_prop in Hal. destruct Hal as [Ha1 Hal]. apply andb_prop in Hal. destruct Hal as [Ha2 _].
  apply andb_prop in Hco. destruct Hco as [Hc0 Hco]. apply andb_prop in Hco. destruct Hco as [Hc1 Hco]. apply andb_prop in Hco. destruct Hco as [Hc2 _].
  inversion Hgs as [|? ? Hg0 Hgs1]; subst. inversion Hgs1 as [|? ? Hg1 Hgs2]; subst. inversion Hgs2 as [|? ? Hg2 _]; subst.
  inversion IH as [|? ? IH0 IHa]; subst. inversion IHa as [|? ? IH1 IHb]; subst. inversion IHb as [|? ? IH2 _]; subst.
  assert (He0 : expr_kindb (ekind a) = true) by (eapply first_expr; eauto).
  assert (He1 : expr_kindb (ekind b) = true) by (eapply second_expr; eauto).
  assert (He2 : expr_kindb (ekind c) = true) by (eapply third_expr; eauto).
  split; [|repeat split; vac]. intros _ lvl rest v Hl G Hv. simpl ekind in Hl.
  rewrite print_node. simpl kind_of. rewrite !wrap_children_cons. cbn [layout is_bool is_unary is_binary wrap_children].
  change (pos_of KIfExp 0) with 0. change (pos_of KIfExp 1) with 1. change (pos_of KIfExp 2) with 2.
  rewrite <- !app_assoc. cbn [app]. rewrite <- !app_assoc. cbn [app].
  rewrite rmin_node in G. simpl kind_of in G. change (open_level KIfExp) with (Some 0) in G. destruct (guard_min _ _ _ G) as [G1 G2]. simpl in G2.
  apply (child_lhs KIfExp 0 a Hg0 He0 (P_M a IH0 Hg0 He0)).
  - intros Hn. split; [simpl in Hl; lia|].
    eapply guard_mono; [|apply lowopen_le_rmin; exact Hg0]. eapply follow0_guard; eauto; reflexivity.
  - destruct (child_at0 KIfExp 1 b Hg1 He1 (P_M b IH1 Hg1 He1) Hc1 Ha1 (TElse :: pw KIfExp 2 c ++ rest) eq_refl) as [n1 Hn1].
    assert (H2 : Ev (fun f => parse_e f (req KIfExp 2) (pw KIfExp 2 c ++ rest)) (c, rest)).
    { apply (child_at_r KIfExp 2 c Hg2 He2 (P_M c IH2 Hg2 He2) Hc2 Ha2).
      - exact G1.
      - intros Hn. rewrite Hn in G2. exact G2. }
    destruct H2 as [n2 Hn2]. destruct Hv as [m Hmv]. exists (S (Nat.max (Nat.max n1 n2) m)). fuel f Hf.
    simpl climb. apply Nat.leb_le in Hl. simpl in Hl. rewrite Hl.
    change (req KIfExp 1) with 1 in Hn1. rewrite Hn1 by lia. change (req KIfExp 2) with 0 in Hn2. rewrite Hn2 by lia. apply Hmv. lia.
Qed.

Lemma pos_of_call : forall j, 1 <= j -> pos_of KCall j = 1.
Proof. intros j H. destruct j; [lia|reflexivity]. Qed.

Lemma case_call : forall cs, Forall P cs -> P (Node (LOp KCall) cs).
Proof.
  intros cs IH Hg. destruct (good_node _ _ Hg) as [Har [Hal [Hco [Hgs _]]]].
  destruct cs as [|fn args]; try discriminate Har.
  simpl kind_of in *. simpl in Hal, Hco.
  apply andb_prop in Hal. destruct Hal as [Ha0 Hal]. apply andb_prop in Hco. destruct Hco as [Hc0 Hco].
  change (pos_of KCall 0) with 0 in *.
  pose proof (children_allowed_const KCall 1 _ 1 pos_of_call Hal) as FA.
  pose proof (covers_children_const KCall 1 _ 1 pos_of_call Hco) as FC.
  inversion Hgs as [|? ? Hg0 Hgs']; subst. inversion IH as [|? ? IH0 IH']; subst.
  assert (He0 : expr_kindb (ekind fn) = true) by (eapply first_expr; eauto).
  split; [|repeat split; vac]. intros _ lvl rest v Hl G Hv. simpl ekind in Hl.
  rewrite print_node. simpl kind_of. rewrite wrap_children_cons. rewrite (wrap_children_const KCall 1 _ 1 pos_of_call).
  cbn [layout is_bool is_unary is_binary]. change (pos_of KCall 0) with 0. rewrite <- !app_assoc. cbn [app]. rewrite <- !app_assoc. cbn [app].
  apply (child_lhs KCall 0 fn Hg0 He0 (P_M fn IH0 Hg0 He0)).
  - intros Hn. split; [pose proof (bare_prec _ _ _ Hc0 Ha0 Hn) as Hbp; simpl in Hbp, Hl; lia|].
    eapply guard_mono; [|apply lowopen_le_rmin; exact Hg0]. eapply follow0_guard; eauto; reflexivity.
  - destruct (args_ok args IH' Hgs' FA FC rest) as [n Hn]. destruct Hv as [m Hmv]. exists (S (Nat.max n m)). fuel f Hf.
    simpl climb. rewrite Hn by lia. apply Hmv. lia.
Qed.


Lemma case_subscript : forall cs, Forall P cs -> P (Node (LOp KSubscript) cs).
Proof.
  intros cs IH Hg. destruct (good_node _ _ Hg) as [Har [Hal [Hco [Hgs _]]]].
  destruct cs as [|a [|ix [|c' cs]]]; try discriminate Har.
  simpl kind_of in *. simpl in Hal, Hco. change (pos_of KSubscript 0) with 0 in *. change (pos_of KSubscript 1) with 1 in *.
  apply andb_prop in Hal. destruct Hal as [Ha0 Hal]. apply andb_prop in Hal. destruct Hal as [Ha1 _].
  apply andb_prop in Hco. destruct Hco as [Hc0 Hco]. apply andb_prop in Hco. destruct Hco as [Hc1 _].
  inversion Hgs as [|? ? Hg0 Hgs1]; subst. inversion Hgs1 as [|? ? Hg1 _]; subst.
  inversion IH as [|? ? IH0 IHa]; subst. inversion IHa as [|? ? IH1 _]; subst.
  assert (He0 : expr_kindb (ekind a) = true) by (eapply first_expr; eauto).
  split; [|repeat split; vac]. intros _ lvl rest v Hl G Hv. simpl ekind in Hl.
  rewrite print_node. simpl kind_of. rewrite !wrap_children_cons. cbn [layout is_bool is_unary is_binary wrap_children].
  change (pos_of KSubscript 0) with 0. change (pos_of KSubscript 1) with 1.
  rewrite <- !app_assoc. cbn [app]. rewrite <- !app_assoc. cbn [app].
  apply (child_lhs KSubscript 0 a Hg0 He0 (P_M a IH0 Hg0 He0)).
  - intros Hn. split; [pose proof (bare_prec _ _ _ Hc0 Ha0 Hn) as Hbp; simpl in Hbp, Hl; lia|].
    eapply guard_mono; [|apply lowopen_le_rmin; exact Hg0]. eapply follow0_guard; eauto; reflexivity.
  - assert (H1 : Ev (fun f => parse_index f (pw KSubscript 1 ix ++ TRB :: rest)) (ix, rest)).
    { destruct (kind_eqb (ekind ix) KIdxTuple) eqn:Ei.
      - apply kind_eqb_eq in Ei. unfold pw. rewrite (item_bare _ _ _ Hc1) by (rewrite Ei; reflexivity). simpl wrap.
        destruct (IH1 Hg1) as [_ [_ [_ [_ [H _]]]]]. apply H. exact Ei.
      - assert (Hni : ekind ix <> KIdxTuple) by (intros E; rewrite E in Ei; discriminate Ei).
        destruct (sitem_done KSubscript 1 ix (or_intror (conj eq_refl eq_refl)) Hni IH1 Hg1 Ha1 Hc1 (TRB :: rest) eq_refl) as [n Hn].
        exists (S n). fuel f Hf. rewrite parse_index_S, Hn by lia. rewrite idx_norm_id; [reflexivity|].
        intros E. unfold allowed in Ha1. simpl in Ha1. rewrite E in Ha1. discriminate Ha1. }
    destruct H1 as [n Hn]. destruct Hv as [m Hmv]. exists (S (Nat.max n m)). fuel f Hf.
    simpl climb. rewrite Hn by lia. apply Hmv. lia.
Qed.

Lemma case_idxtuple : forall cs, Forall P cs -> P (Node (LOp KIdxTuple) cs).
Proof.
  intros cs IH Hg. destruct (good_node _ _ Hg) as [Har [Hal [Hco [Hgs _]]]]. pose proof (good_idx cs Hg) as Hlen.
  simpl kind_of in *.
  pose proof (children_allowed_const KIdxTuple 0 _ 0 (fun j _ => eq_refl) Hal) as FA.
  pose proof (covers_children_const KIdxTuple 0 _ 0 (fun j _ => eq_refl) Hco) as FC.
  split; [vac|]. split; [vac|]. split; [vac|]. split; [vac|]. split; [|vac].
  intros _ rest. rewrite print_node. simpl kind_of. rewrite (wrap_children_const KIdxTuple 0 _ 0 (fun j _ => eq_refl)).
  destruct cs as [|a [|b more]].
  - (* x[()] *) destruct Hlen as [Hs|Hs]; [|simpl in Hs; lia]. cbn [layout is_bool is_unary is_binary map]. rewrite Hs. cbn [app].
    exists 4. intros f Hf. destruct f as [|[|[|[|f]]]]; try lia.
    rewrite parse_index_S. rewrite (parse_sitem_expr (S (S f)) TLP (TRP :: TRB :: rest) (Node (LOp KTuple) []) (TRB :: rest) eq_refl); [reflexivity| |reflexivity].
    change (parse_e (S (S f)) 0 (TLP :: TRP :: TRB :: rest)) with (climb (S f) 0 (Node (LOp KTuple) []) (TRB :: rest)).
    apply (climb_stops 0); [reflexivity|lia|lia].
  - (* x[a,] *) destruct Hlen as [Hs|Hs]; [|simpl in Hs; lia]. cbn [layout is_bool is_unary is_binary map]. rewrite Hs. rewrite <- app_assoc. cbn [app].
    inversion FA as [|? ? Ha0 _]; subst. inversion FC as [|? ? Hc0 _]; subst.
    inversion Hgs as [|? ? Hg0 _]; subst. inversion IH as [|? ? IH0 _]; subst.
    assert (Hni : ekind a <> KIdxTuple) by (intros E; rewrite E in Ha0; discriminate Ha0).
    destruct (sitem_done KIdxTuple 0 a (or_introl (conj eq_refl eq_refl)) Hni IH0 Hg0 Ha0 Hc0 (TTrail :: TRB :: rest) eq_refl) as [n Hn].
    exists (S n). fuel f Hf. rewrite parse_index_S, Hn by lia. reflexivity.
  - inversion FA as [|? ? Ha0 FA']; subst. inversion FC as [|? ? Hc0 FC']; subst.
    inversion Hgs as [|? ? Hg0 Hgs']; subst. inversion IH as [|? ? IH0 IH']; subst.
    cbn [layout is_bool is_unary is_binary]. change (map (pw KIdxTuple 0) (a :: b :: more)) with (pw KIdxTuple 0 a :: pw KIdxTuple 0 b :: map (pw KIdxTuple 0) more).
    cbv iota. rewrite sep_by_cons2.
    assert (Hni : ekind a <> KIdxTuple) by (intros E; rewrite E in Ha0; discriminate Ha0).
    set (X := sep_by TComma (pw KIdxTuple 0 b :: map (pw KIdxTuple 0) more) ++ TRB :: rest).
    destruct (sitem_done KIdxTuple 0 a (or_introl (conj eq_refl eq_refl)) Hni IH0 Hg0 Ha0 Hc0 (TComma :: X) eq_refl) as [n Hn].
    destruct (sitems_ok (b :: more) ltac:(discriminate) IH' Hgs' FA' FC' rest) as [m Hmv].
    change (map (pw KIdxTuple 0) (b :: more)) with (pw KIdxTuple 0 b :: map (pw KIdxTuple 0) more) in Hmv. fold X in Hmv.
    exists (S (Nat.max n m)). fuel f Hf. rewrite parse_index_S, Hn by lia. rewrite Hmv by lia. reflexivity.
Qed.

Lemma case_stararg : forall cs, Forall P cs -> P (Node (LOp KStarArg) cs).
Proof.
  intros cs IH Hg. destruct (good_node _ _ Hg) as [Har [Hal [Hco [Hgs _]]]].
  destruct cs as [|c [|c' cs]]; try discriminate Har.
  simpl kind_of in *. kids1 c Hal Hco Hgs IH. change (pos_of KStarArg 0) with 0 in *.
  assert (He : expr_kindb (ekind c) = true) by (eapply first_expr; eauto).
  split; [vac|]. split; [|repeat split; vac].
  intros _ rest Hr. rewrite print_node. simpl kind_of. rewrite wrap_children_cons. cbn [layout is_bool is_unary is_binary wrap_children concat app].
  change (pos_of KStarArg 0) with 0. rewrite app_nil_r.
  destruct (child_at0 KStarArg 0 c Hg1 He (P_M c IH1 Hg1 He) Hco Hal rest Hr) as [n Hn].
  exists (S n). fuel f Hf. simpl. change (req KStarArg 0) with 0 in Hn. rewrite Hn by lia. reflexivity.
Qed.

Lemma case_starelt : forall cs, Forall P cs -> P (Node (LOp KStarElt) cs).
Proof.
  intros cs IH Hg. destruct (good_node _ _ Hg) as [Har [Hal [Hco [Hgs _]]]].
  destruct cs as [|c [|c' cs]]; try discriminate Har.
  simpl kind_of in *. kids1 c Hal Hco Hgs IH. change (pos_of KStarElt 0) with 0 in *.
  assert (He : expr_kindb (ekind c) = true) by (eapply first_expr; eauto).
  split; [vac|]. split; [vac|]. split; [|repeat split; vac].
  intros _ rest Hr. rewrite print_node. simpl kind_of. rewrite wrap_children_cons. cbn [layout is_bool is_unary is_binary wrap_children concat app].
  change (pos_of KStarElt 0) with 0. rewrite app_nil_r.
  destruct (child_at0 KStarElt 0 c Hg1 He (P_M c IH1 Hg1 He) Hco Hal rest Hr) as [n Hn].
  exists (S n). fuel f Hf. simpl. change (req KStarElt 0) with 5 in Hn. rewrite Hn by lia. reflexivity.
Qed.

Lemma case_keyword : forall name cs, Forall P cs -> P (Node (LKeyword name) cs).
Proof.
  intros name cs IH Hg. destruct (good_node _ _ Hg) as [Har [Hal [Hco [Hgs _]]]].
  destruct cs as [|c [|c' cs]]; try discriminate Har.
  simpl kind_of in *. kids1 c Hal Hco Hgs IH. change (pos_of KKeyword 0) with 0 in *.
  assert (He : expr_kindb (ekind c) = true) by (eapply first_expr; eauto).
  split; [vac|]. split; [|repeat split; vac].
  intros _ rest Hr. rewrite print_node. simpl kind_of. rewrite wrap_children_cons.
  destruct (child_at0 KKeyword 0 c Hg1 He (P_M c IH1 Hg1 He) Hco Hal rest Hr) as [n Hn]. change (req KKeyword 0) with 0 in Hn.
  destruct name as [nm|]; cbn [layout wrap_children concat app]; change (pos_of KKeyword 0) with 0; rewrite app_nil_r;
    exists (S n); fuel f Hf; simpl; rewrite Hn by lia; reflexivity.
Qed.

Lemma case_formatted : forall conv spec cs, Forall P cs -> P (Node (LFormatted conv spec) cs).
Proof.
  intros conv spec cs IH Hg. destruct (good_node _ _ Hg) as [Har [Hal [Hco [Hgs Hsp]]]].
  destruct cs as [|c [|c' cs]]; try discriminate Har.
  simpl kind_of in *. kids1 c Hal Hco Hgs IH. change (pos_of KFormatted 0) with 0 in *.
  assert (He : expr_kindb (ekind c) = true) by (eapply first_expr; eauto).
  split; [vac|]. split; [vac|]. split; [vac|]. split; [vac|]. split; [vac|].
  intros _. exists conv, spec, c, (pw KFormatted 0 c). split; [reflexivity|]. split.
  - rewrite print_node. simpl kind_of. rewrite wrap_children_cons. cbn [layout wrap_children concat app]. change (pos_of KFormatted 0) with 0.
    rewrite app_nil_r. destruct Hsp as [Hs|Hs]; [rewrite Hs; reflexivity|]. destruct spec; [contradiction|]. destruct (keep_spec st); reflexivity.
  - intros tail. exact (child_at0 KFormatted 0 c Hg1 He (P_M c IH1 Hg1 He) Hco Hal (TFClose conv spec :: tail) eq_refl).
Qed.


Lemma elt_head : forall k c rest, k = KTuple \/ k = KList -> good st c = true -> allowed k 0 (ekind c) = true ->
  exists t r, pw k 0 c ++ rest = t :: r /\ (starts_expr t = true \/ t = TStar).
Proof.
  intros k c rest Hk Hg Ha.
  assert (Ha' : (expr_kindb (ekind c) || kind_eqb (ekind c) KStarElt) = true) by (destruct Hk; subst k; exact Ha).
  destruct (kind_item_cases _ _ Ha') as [He|[He Hs]].
  - destruct (pw_head k 0 c rest (fun _ => print_head c Hg He)) as [t [r [E St]]]. exists t, r. split; [exact E|left; exact St].
  - destruct (item_head c Hg (or_intror (or_introl Hs))) as [t [r [E Ht]]]. unfold pw, wrap.
    destruct (needs st k 0 (ekind c)).
    + eexists. eexists. split; [reflexivity|left; reflexivity].
    + rewrite E. exists t, (r ++ rest). split; [reflexivity|].
      destruct c as [l cs]. simpl in Hs. destruct l; try discriminate Hs. simpl in Hs. subst k0.
      rewrite print_node in E. cbn in E. injection E as E1 E2. right. symmetry. exact E1.
Qed.

Lemma parse_e_paren' : forall f lvl t r, starts_expr t = true \/ t = TStar ->
  parse_e (S f) lvl (TLP :: t :: r) =
  match parse_elt f (t :: r) with
  | Some (a, TRP :: r') => if expr_kindb (ekind a) then climb f lvl a r' else None
  | Some (a, TTrail :: TRP :: r') => climb f lvl (Node (LOp KTuple) [a]) r'
  | Some (a, TComma :: r1) =>
      match parse_elts f r1 with
      | Some (more, TRP :: r') => climb f lvl (Node (LOp KTuple) (a :: more)) r'
      | _ => None
      end
  | _ => None
  end.
Proof. intros f lvl t r [H|H]; [apply parse_e_paren; exact H|subst; apply parse_e_paren_star]. Qed.

Lemma case_tuple : forall cs, Forall P cs -> P (Node (LOp KTuple) cs).
Proof.
  intros cs IH Hg. destruct (good_node _ _ Hg) as [Har [Hal [Hco [Hgs _]]]].
  simpl kind_of in *.
  pose proof (children_allowed_const KTuple 0 _ 0 (fun j _ => eq_refl) Hal) as FA.
  pose proof (covers_children_const KTuple 0 _ 0 (fun j _ => eq_refl) Hco) as FC.
  split; [|repeat split; vac]. intros _ lvl rest v Hl G Hv.
  rewrite print_node. simpl kind_of. rewrite (wrap_children_const KTuple 0 _ 0 (fun j _ => eq_refl)).
  destruct cs as [|a [|b more]].
  - cbn. eapply Ev_step; [|exact Hv]. intros f. reflexivity.
  - inversion FA as [|? ? Ha0 _]; subst. inversion FC as [|? ? Hc0 _]; subst.
    inversion Hgs as [|? ? Hg0 _]; subst. inversion IH as [|? ? IH0 _]; subst.
    cbn [layout is_bool is_unary is_binary map]. cbn [app]. rewrite <- app_assoc. cbn [app].
    destruct (elt_head KTuple a (TTrail :: TRP :: rest) (or_introl eq_refl) Hg0 Ha0) as [t [r [E St]]].
    destruct (elt_done KTuple a (or_introl eq_refl) IH0 Hg0 Ha0 Hc0 (TTrail :: TRP :: rest) eq_refl) as [n Hn].
    destruct Hv as [m Hmv]. exists (S (Nat.max n m)). fuel f Hf. rewrite E in *.
    rewrite parse_e_paren' by exact St. rewrite Hn by lia. apply Hmv. lia.
  - inversion FA as [|? ? Ha0 FA']; subst. inversion FC as [|? ? Hc0 FC']; subst.
    inversion Hgs as [|? ? Hg0 Hgs']; subst. inversion IH as [|? ? IH0 IH']; subst.
    change (map (pw KTuple 0) (a :: b :: more)) with (pw KTuple 0 a :: pw KTuple 0 b :: map (pw KTuple 0) more).
    cbn [layout is_bool is_unary is_binary]. cbn [app]. rewrite <- app_assoc. rewrite sep_by_cons2.
    set (X := sep_by TComma (pw KTuple 0 b :: map (pw KTuple 0) more) ++ [TRP] ++ rest).
    destruct (elt_head KTuple a (TComma :: X) (or_introl eq_refl) Hg0 Ha0) as [t [r [E St]]].
    destruct (elt_done KTuple a (or_introl eq_refl) IH0 Hg0 Ha0 Hc0 (TComma :: X) eq_refl) as [n Hn].
    destruct (elts_ok KTuple (or_introl eq_refl) (b :: more) ltac:(discriminate) IH' Hgs' FA' FC' (TRP :: rest) eq_refl) as [n2 Hn2].
    change (map (pw KTuple 0) (b :: more)) with (pw KTuple 0 b :: map (pw KTuple 0) more) in Hn2.
    destruct Hv as [m Hmv]. exists (S (Nat.max (Nat.max n n2) m)). fuel f Hf. rewrite E in *.
    rewrite parse_e_paren' by exact St. rewrite Hn by lia. subst X. cbn [app]. rewrite Hn2 by lia. apply Hmv. lia.
Qed.

Lemma case_list : forall cs, Forall P cs -> P (Node (LOp KList) cs).
Proof.
  intros cs IH Hg. destruct (good_node _ _ Hg) as [Har [Hal [Hco [Hgs _]]]].
  simpl kind_of in *.
  pose proof (children_allowed_const KList 0 _ 0 (fun j _ => eq_refl) Hal) as FA.
  pose proof (covers_children_const KList 0 _ 0 (fun j _ => eq_refl) Hco) as FC.
  split; [|repeat split; vac]. intros _ lvl rest v Hl G Hv.
  rewrite print_node. simpl kind_of. rewrite (wrap_children_const KList 0 _ 0 (fun j _ => eq_refl)).
  destruct cs as [|a more].
  - cbn. eapply Ev_step; [|exact Hv]. intros f. reflexivity.
  - inversion FA as [|? ? Ha0 _]; subst. inversion Hgs as [|? ? Hg0 _]; subst.
    cbn [layout is_bool is_unary is_binary]. cbn [app]. rewrite <- app_assoc. cbn [app].
    destruct (elts_ok KList (or_intror eq_refl) (a :: more) ltac:(discriminate) IH Hgs FA FC (TRB :: rest) eq_refl) as [n Hn].
    change (map (pw KList 0) (a :: more)) with (pw KList 0 a :: map (pw KList 0) more) in *.
    assert (Hd : exists t r, sep_by TComma (pw KList 0 a :: map (pw KList 0) more) ++ TRB :: rest = t :: r /\ (starts_expr t = true \/ t = TStar)).
    { cbn [sep_by]. rewrite <- app_assoc. apply elt_head; [right; reflexivity|exact Hg0|exact Ha0]. }
    destruct Hd as [t [r [E St]]].
    destruct Hv as [m Hmv]. exists (S (Nat.max n m)). fuel f Hf. rewrite E in *.
    rewrite parse_e_bracket by exact St. rewrite Hn by lia. apply Hmv. lia.
Qed.

Lemma case_joined : forall lits cs, Forall P cs -> P (Node (LJoined lits) cs).
Proof.
  intros lits cs IH Hg. destruct (good_node _ _ Hg) as [Har [Hal [Hco [Hgs _]]]].
  simpl kind_of in *.
  pose proof (children_allowed_const KJoined 0 _ 0 (fun j _ => eq_refl) Hal) as FA.
  pose proof (covers_children_const KJoined 0 _ 0 (fun j _ => eq_refl) Hco) as FC.
  change (arity_ok (LJoined lits) (length cs)) with (length lits =? S (length cs)) in Har. apply Nat.eqb_eq in Har.
  destruct lits as [|l0 ls]; [discriminate Har|]. simpl in Har. injection Har as Har.
  split; [|repeat split; vac]. intros _ lvl rest v Hl G Hv.
  rewrite print_node. simpl kind_of. rewrite (wrap_children_const KJoined 0 _ 0 (fun j _ => eq_refl)).
  cbn [layout]. cbn [app]. rewrite <- app_assoc. cbn [app].
  destruct (fparts_ok cs ls Har IH Hgs FA FC rest) as [n Hn]. destruct Hv as [m Hmv].
  exists (S (Nat.max n m)). fuel f Hf. simpl parse_e. rewrite Hn by lia. apply Hmv. lia.
Qed.


Lemma parse_sitem_lower : forall f t r a r', starts_expr t = true ->
  parse_e f 0 (t :: r) = Some (a, TColon :: r') ->
  parse_sitem (S f) (t :: r) = slice_after_lower (parse_e f) (Some a) r'.
Proof.
  intros f t r a r' Ht Hp.
  assert (E : parse_sitem (S f) (t :: r) =
              match parse_e f 0 (t :: r) with
              | Some (a, TColon :: r) => slice_after_lower (parse_e f) (Some a) r
              | Some (a, r) => Some (a, r)
              | None => None
              end) by (destruct t; try discriminate Ht; reflexivity).
  rewrite E, Hp. reflexivity.
Qed.

Lemma slice_ok : forall (lo hi stp : option expr),
  (forall c, lo = Some c -> SliceKid c) -> (forall c, hi = Some c -> SliceKid c) -> (forall c, stp = Some c -> SliceKid c) ->
  forall rest, idx_follow rest = true ->
  Ev (fun f => parse_sitem f (match lo with Some c => pw KSlice 0 c | None => [] end ++ TColon ::
                              (match hi with Some c => pw KSlice 0 c | None => [] end ++
                               match stp with Some c => TColon :: pw KSlice 0 c | None => [] end ++ rest)))
     (mkslice lo hi stp, rest).
Proof.
  intros lo hi stp Hlo Hhi Hst rest Hr.
  set (X := match hi with Some c => pw KSlice 0 c | None => [] end ++ match stp with Some c => TColon :: pw KSlice 0 c | None => [] end ++ rest).
  destruct lo as [c|].
  - destruct (Hlo c eq_refl) as [Hg [He [Hm [Hc Ha]]]].
    destruct (pw_head KSlice 0 c (TColon :: X) (fun _ => print_head c Hg He)) as [t [r [E St]]].
    destruct (slice_part c Hg He Hm Hc Ha (TColon :: X) eq_refl) as [n Hn].
    destruct (after_lower_ok (Some c) hi stp rest Hhi Hst Hr) as [m Hmv]. fold X in Hmv.
    exists (S (Nat.max n m)). fuel f Hf. rewrite E in *. rewrite (parse_sitem_lower f t r c X St) by (apply Hn; lia). apply Hmv. lia.
  - destruct (after_lower_ok None hi stp rest Hhi Hst Hr) as [m Hmv]. fold X in Hmv.
    exists (S m). fuel f Hf. cbn [app]. change (parse_sitem (S f) (TColon :: X)) with (slice_after_lower (parse_e f) None X). apply Hmv. lia.
Qed.

Lemma case_slice : forall lo hi stp cs, Forall P cs -> P (Node (LSlice lo hi stp) cs).
Proof.
  intros lo hi stp cs IH Hg. destruct (good_node _ _ Hg) as [Har [Hal [Hco [Hgs _]]]].
  simpl kind_of in *.
  pose proof (children_allowed_const KSlice 0 _ 0 (fun j _ => eq_refl) Hal) as FA.
  pose proof (covers_children_const KSlice 0 _ 0 (fun j _ => eq_refl) Hco) as FC.
  assert (Kid : forall c, In c cs -> SliceKid c).
  { intros c Hin. rewrite Forall_forall in IH, Hgs, FA, FC.
    assert (He : expr_kindb (ekind c) = true) by (eapply first_expr; [apply FA; exact Hin|reflexivity]).
    split; [apply Hgs; exact Hin|]. split; [exact He|]. split; [apply P_M; [apply IH|apply Hgs|]; assumption|].
    split; [apply FC|apply FA]; exact Hin. }
  split; [vac|]. split; [vac|]. split; [vac|]. split; [|repeat split; vac].
  intros _ rest Hr. rewrite print_node. simpl kind_of. rewrite (wrap_children_const KSlice 0 _ 0 (fun j _ => eq_refl)).
  change (arity_ok (LSlice lo hi stp) (length cs)) with (length cs =? count_true lo hi stp) in Har. apply Nat.eqb_eq in Har.
  destruct lo, hi, stp; simpl in Har.
  - destruct cs as [|c0 [|c1 [|c2 [|c3 cs]]]]; try discriminate Har.
    pose proof (slice_ok (Some c0) (Some c1) (Some c2)) as H. cbn [layout slice_layout map]. rewrite <- !app_assoc. cbn [app]. rewrite <- !app_assoc. cbn [app] in *.
    apply H; try assumption; intros c E; injection E as <-; apply Kid; simpl; auto.
  - destruct cs as [|c0 [|c1 [|c2 cs]]]; try discriminate Har.
    pose proof (slice_ok (Some c0) (Some c1) None) as H. cbn [layout slice_layout map]. rewrite <- !app_assoc. cbn [app] in *. rewrite ?app_nil_r.
    apply H; try assumption; intros c E; try discriminate E; injection E as <-; apply Kid; simpl; auto.
  - destruct cs as [|c0 [|c1 [|c2 cs]]]; try discriminate Har.
    pose proof (slice_ok (Some c0) None (Some c1)) as H. cbn [layout slice_layout map]. rewrite <- ?app_assoc. cbn [app] in *.
    apply H; try assumption; intros c E; try discriminate E; injection E as <-; apply Kid; simpl; auto.
  - destruct cs as [|c0 [|c1 cs]]; try discriminate Har.
    pose proof (slice_ok (Some c0) None None) as H. cbn [layout slice_layout map]. rewrite <- ?app_assoc. cbn [app] in *.
    apply H; try assumption; intros c E; try discriminate E; injection E as <-; apply Kid; simpl; auto.
  - destruct cs as [|c0 [|c1 [|c2 cs]]]; try discriminate Har.
    pose proof (slice_ok None (Some c0) (Some c1)) as H. cbn [layout slice_layout map]. cbn [app] in *. rewrite <- ?app_assoc. cbn [app] in *.
    apply H; try assumption; intros c E; try discriminate E; injection E as <-; apply Kid; simpl; auto.
  - destruct cs as [|c0 [|c1 cs]]; try discriminate Har.
    pose proof (slice_ok None (Some c0) None) as H. cbn [layout slice_layout map]. cbn [app] in *. rewrite ?app_nil_r.
    apply H; try assumption; intros c E; try discriminate E; injection E as <-; apply Kid; simpl; auto.
  - destruct cs as [|c0 [|c1 cs]]; try discriminate Har.
    pose proof (slice_ok None None (Some c0)) as H. cbn [layout slice_layout map]. cbn [app] in *.
    apply H; try assumption; intros c E; try discriminate E; injection E as <-; apply Kid; simpl; auto.
  - destruct cs as [|c0 cs]; try discriminate Har.
    pose proof (slice_ok None None None) as H. cbn [layout slice_layout map]. cbn [app] in *.
    apply H; try assumption; intros c E; discriminate E.
Qed.


Theorem all_P : forall e, P e.
Proof.
  induction e as [l cs IH] using expr_ind'.
  destruct l.
  - apply case_name; exact IH.
  - apply case_const; exact IH.
  - intros Hg. destruct (good_node _ _ Hg) as [Har _]. discriminate Har.
  - destruct (is_bool k) eqn:Hb; [apply case_bool; assumption|].
    destruct (is_unary k) eqn:Hu; [apply case_unary; assumption|].
    destruct (is_binary k) eqn:Hn; [apply case_binary; assumption|].
    destruct k; try discriminate Hb; try discriminate Hu; try discriminate Hn;
      try (intros Hg; destruct (good_node _ _ Hg) as [Har _]; discriminate Har).
    + apply case_call; exact IH.
    + apply case_subscript; exact IH.
    + apply case_ifexp; exact IH.
    + apply case_tuple; exact IH.
    + apply case_list; exact IH.
    + apply case_idxtuple; exact IH.
    + apply case_stararg; exact IH.
    + apply case_starelt; exact IH.
  - apply case_compare; exact IH.
  - apply case_lambda; exact IH.
  - apply case_attribute; exact IH.
  - apply case_keyword; exact IH.
  - apply case_slice; exact IH.
  - apply case_joined; exact IH.
  - apply case_formatted; exact IH.
  - intros Hg. destruct (good_node _ _ Hg) as [Har _]. discriminate Har.
  - intros Hg. destruct (good_node _ _ Hg) as [Har _]. discriminate Har.
  - intros Hg. destruct (good_node _ _ Hg) as [Har _]. discriminate Har.
Qed.

(* a whole expression: parsing the printed tokens gives the tree back and consumes everything *)
Theorem print_parse_roundtrip : forall e, good st e = true -> expr_kindb (ekind e) = true ->
  exists n, forall f, n <= f -> parse_top f (print st e) = Some e.
Proof.
  intros e Hg Hk. pose proof (P_M e (all_P e) Hg Hk) as Hm.
  assert (H : Ev (fun f => parse_e f 0 (print st e ++ [])) (e, [])).
  { apply Hm; [lia|reflexivity|]. apply (Ev_climb_stops 0); [reflexivity|lia|lia]. }
  destruct H as [n Hn]. exists n. intros f Hf. unfold parse_top. rewrite app_nil_r in Hn. rewrite Hn by exact Hf. reflexivity.
Qed.

(* as an expression that stands somewhere else (any level it fits, anything that cannot continue it afterwards) *)
Theorem print_parse_prefix : forall e lvl rest, good st e = true -> expr_kindb (ekind e) = true ->
  lvl <= prec (ekind e) -> guard (Nat.min lvl (rmin e)) rest = true -> lvl <= 13 ->
  exists n, forall f, n <= f -> parse_e f lvl (print st e ++ rest) = Some (e, rest).
Proof.
  intros e lvl rest Hg Hk Hl G L13. destruct (guard_min _ _ _ G) as [G1 G2].
  apply (P_M e (all_P e) Hg Hk lvl rest (e, rest) Hl G2). apply (Ev_climb_stops lvl); [exact G1|lia|exact L13].
Qed.

End RoundTrip.

