(* C04 - the round trip: for every style that parenthesises at least where the grammar's rule `ref_needs` asks (and never
   parenthesises an item), the model parser reads `print st e` back as e.  Structural induction over unbounded trees. *)
From Coq Require Import ZArith List Bool Arith Lia.
Import ListNotations.
Require Import PonyV.Model.C04Expr PonyV.Model.C04Parse.

(* ------------------------------------------------------------------ induction over rose trees *)

Lemma expr_ind' (P : expr -> Prop) : (forall l cs, Forall P cs -> P (Node l cs)) -> forall e, P e.
Proof.
  intros H. fix IH 1. intros [l cs]. apply H.
  induction cs as [|c cs IHcs]; constructor; [apply IH | exact IHcs].
Qed.

(* ------------------------------------------------------------------ "with enough fuel the result is v" *)

Definition Ev {A} (g : nat -> option A) (v : A) : Prop := exists n, forall f, n <= f -> g f = Some v.

Lemma Ev_step {A} (g h : nat -> option A) v : (forall f, h (S f) = g f) -> Ev g v -> Ev h v.
Proof.
  intros E [n Hn]. exists (S n). intros f Hf. destruct f as [|f]; [lia|]. rewrite E. apply Hn. lia.
Qed.

Lemma Ev_bind {A B} (g1 : nat -> option A) (a : A) (k : nat -> A -> option B) (h : nat -> option B) v :
  (forall f, h (S f) = match g1 f with Some x => k f x | None => None end) ->
  Ev g1 a -> Ev (fun f => k f a) v -> Ev h v.
Proof.
  intros E [n1 H1] [n2 H2]. exists (S (Nat.max n1 n2)). intros f Hf. destruct f as [|f]; [lia|].
  rewrite E, H1 by lia. apply H2. lia.
Qed.

Lemma Ev_const {A} (v : A) (h : nat -> option A) : (forall f, h (S f) = Some v) -> Ev h v.
Proof. intros E. exists 1. intros f Hf. destruct f as [|f]; [lia|]. apply E. Qed.

Lemma Ev_ext {A} (g h : nat -> option A) v : (forall f, h f = g f) -> Ev g v -> Ev h v.
Proof. intros E [n Hn]. exists n. intros f Hf. rewrite E. apply Hn, Hf. Qed.

(* ------------------------------------------------------------------ what may follow an operand *)

(* level of the construct a token would continue an operand with (None: the token ends the expression) *)
Definition follow_level (t : tok) : option nat :=
  match t with
  | TDot _ | TLP | TLB => Some 13
  | TBin k => if is_binary k then Some (prec k) else None
  | TBool k => if is_bool k then Some (prec k) else None
  | TCmp _ => Some (prec KCompare)
  | TIf => Some (prec KIfExp)
  | _ => None
  end.

(* the rest of the input does not continue an operand that is open at level n *)
Definition guard (n : nat) (ts : list tok) : bool :=
  match ts with
  | [] => true
  | t :: _ => match follow_level t with Some L => L <? n | None => true end
  end.

Lemma guard_mono : forall n m ts, guard n ts = true -> n <= m -> guard m ts = true.
Proof.
  intros n m [|t r] H L; [reflexivity|]. simpl in *. destruct (follow_level t); [|reflexivity].
  apply Nat.ltb_lt in H. apply Nat.ltb_lt. lia.
Qed.

Lemma guard_min : forall a b ts, guard (Nat.min a b) ts = true -> guard a ts = true /\ guard b ts = true.
Proof. intros a b ts H. split; eapply guard_mono; eauto; lia. Qed.

Lemma climb_stops : forall n lvl e rest f, guard n rest = true -> n <= lvl -> n <= 13 -> climb (S f) lvl e rest = Some (e, rest).
Proof.
  intros n lvl e [|t r] f G L1 L2; [reflexivity|].
  destruct t; simpl in G; try reflexivity.
  - (* TBool *) simpl. destruct (is_bool k); [|reflexivity]. apply Nat.ltb_lt in G.
    assert (lvl <=? prec k = false) as -> by (apply Nat.leb_gt; lia). reflexivity.
  - (* TBin *) simpl. destruct (is_binary k); [|reflexivity]. apply Nat.ltb_lt in G.
    assert (lvl <=? prec k = false) as -> by (apply Nat.leb_gt; lia). reflexivity.
  - (* TCmp *) simpl. apply Nat.ltb_lt in G.
    assert (lvl <=? 4 = false) as -> by (apply Nat.leb_gt; lia). reflexivity.
  - (* TIf *) simpl. apply Nat.ltb_lt in G.
    assert (lvl <=? 0 = false) as -> by (apply Nat.leb_gt; lia). reflexivity.
  - (* TDot *) apply Nat.ltb_lt in G. lia.
  - (* TLP *) apply Nat.ltb_lt in G. lia.
  - (* TLB *) apply Nat.ltb_lt in G. lia.
Qed.

Lemma Ev_climb_stops : forall n lvl e rest, guard n rest = true -> n <= lvl -> n <= 13 -> Ev (fun f => climb f lvl e rest) (e, rest).
Proof. intros. apply Ev_const. intros f. eapply climb_stops; eauto. Qed.

(* ------------------------------------------------------------------ tokens an expression can start with *)

Definition starts_expr (t : tok) : bool :=
  match t with TName _ | TConst _ | TUn _ | TLambda _ | TLP | TLB | TFBegin => true | _ => false end.

(* ------------------------------------------------------------------ how low an unparenthesised expression is open on its right *)

(* level at which the text of a node of this kind is still open at its right end (None: it ends with a closing token) *)
Definition open_level (k : kind) : option nat :=
  match k with
  | KLambda => Some (req KLambda 0)
  | KIfExp => Some (req KIfExp 2)
  | KCompare => Some (prec KCompare)
  | _ => if is_bool k then Some (prec k)
         else if is_unary k then Some (req k 0)
         else if is_binary k then Some (req k 1)
         else None
  end.

Definition last_pos (k : kind) : nat := match k with KIfExp => 2 | _ => if is_binary k then 1 else 0 end.

(* a lower bound of the open level that depends on the kind only *)
Definition lowopen (k : kind) : nat :=
  match k with
  | KLambda | KIfExp => 0 | KOr => 1 | KAnd => 2 | KNot => 3 | KCompare => 4
  | KBitOr => 6 | KBitXor => 7 | KBitAnd => 8 | KLShift | KRShift => 9 | KAdd | KSub => 10
  | KMult | KDiv | KFloorDiv | KMod | KUSub | KUAdd | KInvert | KPow => 11
  | _ => 14
  end.

(* level of the token that follows the first child of these kinds *)
Definition follow0 (k : kind) : nat := match k with KAttribute | KCall | KSubscript => 13 | _ => prec k end.

Require Import PonyV.Proofs.C04Kinds.

Lemma lowopen_facts : forall k c,
  match open_level k with
  | None => true
  | Some r => (lowopen k <=? r) && implb (allowed k (last_pos k) c && (req k (last_pos k) <=? prec c)) (lowopen k <=? lowopen c)
  end = true.
Proof. apply all_kinds2. vm_compute. reflexivity. Qed.

Lemma lowopen_le_14 : forall k, lowopen k <= 14.
Proof. destruct k; simpl; lia. Qed.

(* an unparenthesised first child is not open as low as the token that follows it *)
Lemma follow0_facts : forall k c,
  implb ((is_bool k || is_binary k || kind_eqb k KCompare || kind_eqb k KIfExp || kind_eqb k KAttribute || kind_eqb k KCall || kind_eqb k KSubscript)
         && allowed k 0 c && (req k 0 <=? prec c)) (follow0 k <? lowopen c) = true.
Proof. apply all_kinds2. vm_compute. reflexivity. Qed.

(* positions that hold expressions only *)
Lemma allowed_expr_facts : forall k c,
  implb (allowed k 0 c && negb (kind_eqb k KTuple || kind_eqb k KList || kind_eqb k KIdxTuple || kind_eqb k KJoined)) (expr_kindb c) = true
  /\ implb (allowed k 1 c && negb (kind_eqb k KCall || kind_eqb k KSubscript)) (expr_kindb c) = true
  /\ implb (allowed k 2 c) (expr_kindb c) = true.
Proof.
  intros k c. repeat split.
  - revert k c. apply all_kinds2. vm_compute. reflexivity.
  - revert k c. apply all_kinds2. vm_compute. reflexivity.
  - revert k c. apply all_kinds2. vm_compute. reflexivity.
Qed.

Section RoundTrip.
Variable st : style.

Fixpoint rmin (e : expr) : nat :=
  match e with Node l cs =>
    match open_level (kind_of l) with
    | None => 14
    | Some r =>
        Nat.min r ((fix lastv (cs : list expr) : nat :=
                      match cs with
                      | [] => 14
                      | c :: cs' => match cs' with
                                    | [] => if needs st (kind_of l) (last_pos (kind_of l)) (ekind c) then 14 else rmin c
                                    | _ => lastv cs'
                                    end
                      end) cs)
    end
  end.

Definition lastv (k : kind) : list expr -> nat :=
  fix lastv (cs : list expr) : nat :=
    match cs with
    | [] => 14
    | c :: cs' => match cs' with
                  | [] => if needs st k (last_pos k) (ekind c) then 14 else rmin c
                  | _ => lastv cs'
                  end
    end.

Lemma rmin_node : forall l cs,
  rmin (Node l cs) = match open_level (kind_of l) with None => 14 | Some r => Nat.min r (lastv (kind_of l) cs) end.
Proof. reflexivity. Qed.

(* printed child *)
Definition pw (k : kind) (q : nat) (c : expr) : list tok := wrap (needs st k q (ekind c)) (print st c).

Lemma print_node : forall l cs, print st (Node l cs) = layout st l (wrap_children (print st) st (kind_of l) 0 cs).
Proof. reflexivity. Qed.

Lemma wrap_children_cons : forall k i c cs,
  wrap_children (print st) st k i (c :: cs) = pw k (pos_of k i) c :: wrap_children (print st) st k (S i) cs.
Proof. reflexivity. Qed.

Lemma wrap_children_const : forall k q cs i, (forall j, i <= j -> pos_of k j = q) ->
  wrap_children (print st) st k i cs = map (pw k q) cs.
Proof.
  intros k q cs. induction cs as [|c cs IH]; intros i H; [reflexivity|].
  rewrite wrap_children_cons. simpl. rewrite (H i) by lia. f_equal. apply IH. intros j Hj. apply H. lia.
Qed.

(* ------------------------------------------------------------------ unpacking `good` *)

Lemma good_node : forall l cs, good st (Node l cs) = true ->
  arity_ok l (length cs) = true /\ children_allowed (kind_of l) 0 cs = true /\ covers_children st (kind_of l) 0 cs = true
  /\ Forall (fun c => good st c = true) cs
  /\ (keep_spec st = true \/ match l with LFormatted _ (Some _) => False | _ => True end).
Proof.
  intros l cs H. unfold good in H. apply andb_prop in H. destruct H as [H Hs]. apply andb_prop in H. destruct H as [Hw Hc].
  simpl in Hw, Hc. apply andb_prop in Hw. destruct Hw as [Hw Hw3]. apply andb_prop in Hw. destruct Hw as [Hw1 Hw2].
  apply andb_prop in Hc. destruct Hc as [Hc1 Hc2].
  split; [exact Hw1|]. split; [exact Hw2|]. split; [exact Hc1|]. split.
  - rewrite forallb_forall in Hw3, Hc2. apply Forall_forall. intros c Hin. unfold good.
    rewrite (Hw3 c Hin), (Hc2 c Hin). simpl. unfold spec_ok in *. destruct (keep_spec st); [reflexivity|]. simpl in *.
    apply andb_prop in Hs. destruct Hs as [_ Hs]. rewrite forallb_forall in Hs. exact (Hs c Hin).
  - unfold spec_ok in Hs. destruct (keep_spec st); [left; reflexivity|right]. simpl in Hs. apply andb_prop in Hs. destruct Hs as [Hs _].
    destruct l; try exact I. destruct spec; [discriminate Hs|exact I].
Qed.

Lemma children_allowed_const : forall k q cs i, (forall j, i <= j -> pos_of k j = q) ->
  children_allowed k i cs = true -> Forall (fun c => allowed k q (ekind c) = true) cs.
Proof.
  intros k q cs. induction cs as [|c cs IH]; intros i H Ha; constructor.
  - simpl in Ha. apply andb_prop in Ha. destruct Ha as [Ha _]. rewrite (H i) in Ha by lia. exact Ha.
  - simpl in Ha. apply andb_prop in Ha. destruct Ha as [_ Ha]. apply (IH (S i)); [|exact Ha]. intros j Hj. apply H. lia.
Qed.

Lemma covers_children_const : forall k q cs i, (forall j, i <= j -> pos_of k j = q) ->
  covers_children st k i cs = true -> Forall (fun c => child_ok st k q (ekind c) = true) cs.
Proof.
  intros k q cs. induction cs as [|c cs IH]; intros i H Ha; constructor.
  - simpl in Ha. apply andb_prop in Ha. destruct Ha as [Ha _]. rewrite (H i) in Ha by lia. exact Ha.
  - simpl in Ha. apply andb_prop in Ha. destruct Ha as [_ Ha]. apply (IH (S i)); [|exact Ha]. intros j Hj. apply H. lia.
Qed.

(* a child the style leaves bare has at least the level its position is parsed at *)
Lemma bare_prec : forall k q c, child_ok st k q c = true -> allowed k q c = true -> needs st k q c = false -> req k q <= prec c.
Proof.
  intros k q c Hc Ha Hn. unfold child_ok in Hc. apply andb_prop in Hc. destruct Hc as [Hc _].
  rewrite Hn in Hc. unfold ref_needs in Hc. rewrite Ha in Hc. simpl in Hc.
  destruct (prec c <? req k q) eqn:E; [discriminate Hc|]. apply Nat.ltb_ge in E. exact E.
Qed.

(* an item is never parenthesised *)
Lemma item_bare : forall k q c, child_ok st k q c = true -> expr_kindb c = false -> needs st k q c = false.
Proof.
  intros k q c Hc He. unfold child_ok in Hc. apply andb_prop in Hc. destruct Hc as [_ Hc].
  rewrite He in Hc. simpl in Hc. apply negb_true_iff in Hc. exact Hc.
Qed.

End RoundTrip.
