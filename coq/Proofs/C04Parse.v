(* C04 - the round trip: for every style that parenthesises at least where the grammar's rule `ref_needs` asks (and never
   parenthesises an item), the model parser reads `print st e` back as e.  Structural induction over unbounded trees. *)
From Coq Require Import ZArith List Bool Arith Lia.
Import ListNotations.
Require Import PonyV.Model.C04Expr PonyV.Model.C04Parse.

(* ------------------------------------------------------------------ induction over rose trees *)

Lemma expr_ind' (P : expr -> Prop) : (forall l cs, Forall P cs -> P (Node l cs)) -> forall e, P e.
Proof.
  intros H. fix IH 1. intros [l cs]. apply H.
  induction cs as [|c cs IHcs]; constructor; [apply IH | exact IHcs].
Qed.

(* ------------------------------------------------------------------ "with enough fuel the result is v" *)

Definition Ev {A} (g : nat -> option A) (v : A) : Prop := exists n, forall f, n <= f -> g f = Some v.

Lemma Ev_step {A} (g h : nat -> option A) v : (forall f, h (S f) = g f) -> Ev g v -> Ev h v.
Proof.
  intros E [n Hn]. exists (S n). intros f Hf. destruct f as [|f]; [lia|]. rewrite E. apply Hn. lia.
Qed.

Lemma Ev_bind {A B} (g1 : nat -> option A) (a : A) (k : nat -> A -> option B) (h : nat -> option B) v :
  (forall f, h (S f) = match g1 f with Some x => k f x | None => None end) ->
  Ev g1 a -> Ev (fun f => k f a) v -> Ev h v.
Proof.
  intros E [n1 H1] [n2 H2]. exists (S (Nat.max n1 n2)). intros f Hf. destruct f as [|f]; [lia|].
  rewrite E, H1 by lia. apply H2. lia.
Qed.

Lemma Ev_const {A} (v : A) (h : nat -> option A) : (forall f, h (S f) = Some v) -> Ev h v.
Proof. intros E. exists 1. intros f Hf. destruct f as [|f]; [lia|]. apply E. Qed.

Lemma Ev_ext {A} (g h : nat -> option A) v : (forall f, h f = g f) -> Ev g v -> Ev h v.
Proof. intros E [n Hn]. exists n. intros f Hf. rewrite E. apply Hn, Hf. Qed.

(* ------------------------------------------------------------------ what may follow an operand *)

(* level of the construct a token would continue an operand with (None: the token ends the expression) *)
Definition follow_level (t : tok) : option nat :=
  match t with
  | TDot _ | TLP | TLB => Some 13
  | TBin k => if is_binary k then Some (prec k) else None
  | TBool k => if is_bool k then Some (prec k) else None
  | TCmp _ => Some (prec KCompare)
  | TIf => Some (prec KIfExp)
  | _ => None
  end.

(* the rest of the input does not continue an operand that is open at level n *)
Definition guard (n : nat) (ts : list tok) : bool :=
  match ts with
  | [] => true
  | t :: _ => match follow_level t with Some L => L <? n | None => true end
  end.

Lemma guard_mono : forall n m ts, guard n ts = true -> n <= m -> guard m ts = true.
Proof.
  intros n m [|t r] H L; [reflexivity|]. simpl in *. destruct (follow_level t); [|reflexivity].
  apply Nat.ltb_lt in H. apply Nat.ltb_lt. lia.
Qed.

Lemma guard_min : forall a b ts, guard (Nat.min a b) ts = true -> guard a ts = true /\ guard b ts = true.
Proof. intros a b ts H. split; eapply guard_mono; eauto; lia. Qed.

Lemma climb_stops : forall n lvl e rest f, guard n rest = true -> n <= lvl -> n <= 13 -> climb (S f) lvl e rest = Some (e, rest).
Proof.
  intros n lvl e [|t r] f G L1 L2; [reflexivity|].
  destruct t; simpl in G; try reflexivity.
  - (* TBool *) simpl. destruct (is_bool k); [|reflexivity]. apply Nat.ltb_lt in G.
    assert (lvl <=? prec k = false) as -> by (apply Nat.leb_gt; lia). reflexivity.
  - (* TBin *) simpl. destruct (is_binary k); [|reflexivity]. apply Nat.ltb_lt in G.
    assert (lvl <=? prec k = false) as -> by (apply Nat.leb_gt; lia). reflexivity.
  - (* TCmp *) simpl. apply Nat.ltb_lt in G.
    assert (lvl <=? 4 = false) as -> by (apply Nat.leb_gt; lia). reflexivity.
  - (* TIf *) simpl. apply Nat.ltb_lt in G.
    assert (lvl <=? 0 = false) as -> by (apply Nat.leb_gt; lia). reflexivity.
  - (* TDot *) apply Nat.ltb_lt in G. lia.
  - (* TLP *) apply Nat.ltb_lt in G. lia.
  - (* TLB *) apply Nat.ltb_lt in G. lia.
Qed.

Lemma Ev_climb_stops : forall n lvl e rest, guard n rest = true -> n <= lvl -> n <= 13 -> Ev (fun f => climb f lvl e rest) (e, rest).
Proof. intros. apply Ev_const. intros f. eapply climb_stops; eauto. Qed.

(* ------------------------------------------------------------------ tokens an expression can start with *)

Definition starts_expr (t : tok) : bool :=
  match t with TName _ | TConst _ | TUn _ | TLambda _ | TLP | TLB | TFBegin => true | _ => false end.
