(* C19 - the blocks of the state machine when no further DB-API call fails: they do not raise. *)
From Coq Require Import List Bool Arith Lia.
Import ListNotations.
Require Import PonyV.Model.C19Txn PonyV.Proofs.C19Base PonyV.Proofs.C19Crunch2 PonyV.Proofs.C19Crunch3.

(* no DB-API call from now on fails *)
Definition NF (oracle : nat -> bool) (s : st) : Prop := forall n, ncall s <= n -> oracle n = false.
(* the step does not raise; if it completes, cache.saved_objects is as before *)
Definition NoErr (s : st) (rs : res * st) : Prop :=
  match rs with (Err _, _) => False | (Ok, s') => k_saved s' = k_saved s | (Blocked, _) => True end.

Lemma NF_ext : forall oracle s s', NF oracle s -> Ext s s' -> NF oracle s'.
Proof. intros oracle s s' H Hx n Hn. apply H. pose proof (x_ncall _ _ Hx). lia. Qed.

Section S.
Variable oracle : nat -> bool.

Ltac kill_oracle Hnf := match goal with |- context [oracle ?n] => rewrite (Hnf n) by lia end.
Ltac runnf Hnf := norm; simp_hyps; repeat (first [kill_oracle Hnf | split_one]; norm; simp_hyps).
Ltac fin_nf := try exact I; try reflexivity; try discriminate; try contradiction; try solve [bool_crush].

Lemma cache_connect_nf : forall s, WF s -> NF oracle s -> k_has s = false -> k_reg s = true -> NoErr s (cache_connect oracle s).
Proof.
  destruct_st. intros [[? ? ? ? ? ? ? ? ? ? ? ? ?] ? ?] Hnf ? ?. unfold NF, NoErr in *. unfold_all. runnf Hnf. all: fin_nf.
Qed.

Lemma stm_nf : forall s, WF s -> NF oracle s -> k_has s = true -> k_imm s = true -> k_intxn s = false -> k_reg s = true ->
  NoErr s (set_transaction_mode oracle (k_id s) s).
Proof.
  destruct_st. intros [[? ? ? ? ? ? ? ? ? ? ? ? ?] ? ?] Hnf ? ? ? ?. unfold NF, NoErr in *. unfold_all. runnf Hnf. all: fin_nf.
Qed.

Lemma exec_tail_nf : forall many q s, WF s -> NF oracle s -> (q = SSelect \/ (q = SWrite /\ k_imm s = true)) ->
  k_has s = true -> k_reg s = true -> (k_imm s = true -> k_intxn s = true) -> NoErr s (exec_tail oracle many q s).
Proof.
  intros many q. destruct_st. intros [[? ? ? ? ? ? ? ? ? ? ? ? ?] ? ?] Hnf Hq ? ? ?. unfold NF, NoErr, exec_tail in *. unfold_all.
  destruct many; destruct Hq as [-> | [-> ?]]; runnf Hnf. all: fin_nf.
Qed.

Lemma cache_close_nf : forall rb s, WF s -> NF oracle s -> k_reg s = true -> (rb = true \/ k_intxn s = false) ->
  match cache_close oracle rb s with (Err _, _) => False | _ => True end.
Proof.
  intros rb. destruct_st. intros [[? ? ? ? ? ? ? ? ? ? ? ? ?] ? ?] Hnf ? Hrb. unfold NF in *. unfold_all.
  destruct Hrb as [-> | ?]; runnf Hnf. all: fin_nf.
Qed.

Lemma commit_step_nf : forall s, WF s -> NF oracle s -> k_reg s = true -> NoErr s (commit_step oracle s).
Proof.
  destruct_st. intros [[? ? ? ? ? ? ? ? ? ? ? ? ?] ? ?] Hnf ?. unfold NF, NoErr, commit_step in *. unfold_all. runnf Hnf. all: fin_nf.
Qed.
End S.
