(* C01/C02 - what a monad of the translation model denotes, and the lemmas about the monad operations
   (negate, nonzero, CmpMonad construction, and/or flattening, coercion). *)
Require Import PonyV.Base.PyBase PonyV.Model.C01Expr PonyV.Model.C01Sql PonyV.Model.C01Translate PonyV.Model.C01Safe
               PonyV.Proofs.C01Base PonyV.Proofs.C01Ref.
From Coq Require Import ZifyBool.

Lemma cmp_res_eq_z : forall x y, cmp_res CEq (x ?= y) = (x =? y).
Proof. intros. destruct (Z.compare_spec x y); cbn; lia. Qed.
Lemma str_compare_nil : forall s, str_compare s [] = Eq <-> s = [].
Proof. destruct s; cbn; split; congruence. Qed.
Lemma str_compare_refl : forall s, str_compare s s = Eq.
Proof. induction s as [|c s IH]; cbn; [reflexivity|]. rewrite Z.compare_refl. exact IH. Qed.
Lemma str_compare_eq : forall a b, str_compare a b = Eq -> a = b.
Proof.
  induction a as [|x a IH]; destruct b as [|y b]; cbn; try congruence.
  destruct (x ?= y) eqn:E; try discriminate. intro H. apply Z.compare_eq in E. subst. f_equal. auto.
Qed.

Section Den.
Variable d : dname.
Hypothesis Hd : modelled d = true.
Variable en : env.

Definition ev (q : qx) : qv := qeval d (encenv d en) q.

(* a value monad (Numeric/String Attr/Const/Param/Expr monad) of type t denotes the Python value v *)
Definition vden (m : monad) (t : vty) (v : pyv) : Prop :=
  exists k n sql, m = MVal k t n sql /\ ev sql = enc d v /\ has_vty v t = true /\ (n = false -> v <> PNone).

(* the truth value a condition monad denotes *)
Fixpoint cden (m : monad) : option tv :=
  match m with
  | MNot m' => match cden m' with Some c => Some (not3 c) | None => None end
  | MBoolExpr _ _ | MCmp _ _ _ | MAnd _ | MOr _ => dec_tv d (ev (getsql m))
  | _ => None
  end.

Lemma cden_sql : forall m c, cden m = Some c -> ev (getsql m) = of_tv d c.
Proof.
  induction m; intros c H; cbn [cden] in H; try discriminate; try (apply dec_tv_inv; exact H).
  destruct (cden m) as [c'|] eqn:E; [|discriminate]. inversion H; subst.
  cbn [getsql]. unfold ev in *. cbn [qeval qunop]. rewrite (IHm c' eq_refl). apply qnot_of_tv.
Qed.

Lemma cden_boolm : forall m c, cden m = Some c -> is_boolm m = true /\ is_err m = false /\ is_nonem m = false.
Proof. destruct m; cbn; intros c H; try discriminate; auto. Qed.

Lemma cden_of_sql : forall m c, match m with MBoolExpr _ _ | MCmp _ _ _ | MAnd _ | MOr _ => True | _ => False end ->
  ev (getsql m) = of_tv d c -> cden m = Some c.
Proof. intros m c Hm H. destruct m; try contradiction; cbn [cden]; rewrite H; apply dec_tv_of_tv. Qed.

Lemma qor_list_cases : forall l, qor_list d l = ErrV \/ exists t, qor_list d l = of_tv d t.
Proof. intro l. unfold qor_list. destruct (all_some (map (as_tv d) l)); [right; eauto|left; reflexivity]. Qed.

Lemma qin_neg : forall neg v its c, qin d neg v its = of_tv d c -> qin d (negb neg) v its = of_tv d (not3 c).
Proof.
  intros neg v its c H. unfold qin in *. destruct its as [|i its].
  - destruct (is_bad v); [exfalso; pose proof (of_tv_not_bad d c) as B; rewrite <- H in B; discriminate|].
    rewrite bv_of_tv in *. apply of_tv_inj in H. subst. destruct neg; reflexivity.
  - set (r := qor_list d (map (qcmp d CEq v) (i :: its))) in *.
    destruct (qor_list_cases (map (qcmp d CEq v) (i :: its))) as [E|[t E]]; fold r in E; rewrite E in *.
    + exfalso. destruct neg; cbn in H; pose proof (of_tv_not_bad d c) as B; rewrite <- H in B; discriminate.
    + destruct neg; cbn [negb].
      * rewrite qnot_of_tv in H. apply of_tv_inj in H. subst. rewrite not3_invol. reflexivity.
      * apply of_tv_inj in H. subst. apply qnot_of_tv.
Qed.

Lemma cop_of_qbin_of : forall op, is_identity op = false -> cop_of (qbin_of op) = op.
Proof. destruct op; cbn; congruence. Qed.

(* negate on condition monads *)
Lemma cden_negate : forall m c, cden m = Some c -> cden (m_negate d m) = Some (not3 c).
Proof.
  intros m c H. destruct m; cbn [cden] in H; try discriminate.
  - (* BoolExpr *)
    apply dec_tv_inv in H. cbn [getsql] in H.
    assert (G : cden (MNot (MBoolExpr sql nullable)) = Some (not3 c)).
    { cbn [cden getsql]. rewrite H, dec_tv_of_tv. reflexivity. }
    destruct sql; try exact G.
    + destruct op; try exact G; cbn [m_negate cden getsql]; unfold ev in *; cbn [qeval qunop] in *.
      * rewrite (qisnull_neg d false), H, qnot_of_tv. apply dec_tv_of_tv.
      * change false with (negb true). rewrite (qisnull_neg d true), H, qnot_of_tv. apply dec_tv_of_tv.
    + cbn [m_negate cden getsql]. unfold ev in *. cbn [qeval] in *. rewrite (qin_neg _ _ _ _ H). apply dec_tv_of_tv.
  - (* Cmp *)
    apply dec_tv_inv in H. cbn [m_negate cden]. unfold ev in *.
    destruct op; cbn [getsql neg_cop] in *; cbn [qeval qbinop qunop qbin_of cop_of] in *;
      try (match type of H with qcmp _ ?o ?a ?b = _ =>
             pose proof (qcmp_neg d o a b) as G; cbn [neg_cop] in G; rewrite G, H, qnot_of_tv; apply dec_tv_of_tv end).
    + change true with (negb false). rewrite (qisnull_neg d false), H, qnot_of_tv. apply dec_tv_of_tv.
    + change false with (negb true). rewrite (qisnull_neg d true), H, qnot_of_tv. apply dec_tv_of_tv.
  - cbn [m_negate cden] in *. rewrite H. reflexivity.
  - cbn [m_negate cden] in *. rewrite H. reflexivity.
  - cbn [m_negate]. destruct (cden m) as [c'|]; [|discriminate]. inversion H. rewrite not3_invol. reflexivity.
Qed.

(* ------------------------------------------------------------------------------------------- value monads *)
Lemma cmp_res_ne_z : forall x y, cmp_res CNe (x ?= y) = negb (x =? y).
Proof. intros. destruct (Z.compare_spec x y); cbn; lia. Qed.

Lemma not_oracle : oracle d = false.
Proof. destruct d; try reflexivity; discriminate. Qed.

Definition truth_u (v : pyv) : tv := match v with PNone => U | _ => tv_of_bool (truthy v) end.

Lemma truth_u_truth3 : forall t v, truth3 true (Some (TV t)) v = truth_u v.
Proof. intros t v. destruct v; reflexivity. Qed.

Ltac dcases := destruct d; try discriminate Hd.

(* NumericMixin.nonzero / StringMixin.nonzero *)
Lemma nonzero_den : forall m t v, vden m t v -> t <> TBool -> cden (m_nonzero d m) = Some (truth_u v).
Proof.
  intros m t v [k [n [sql [-> [Hs [Ht Hn]]]]]] HB. unfold ev in *.
  destruct t; try congruence; cbn [m_nonzero vty_eqb]; rewrite ?not_oracle, ?Bool.andb_false_r; cbn [cden getsql]; unfold ev;
    cbn [qeval qbinop cop_of empty_str zero qlit_val]; rewrite Hs;
    destruct v as [|z|x|b]; try discriminate Ht; cbn [enc qcmp truth_u truthy].
  - apply (dec_tv_of_tv d U).
  - rewrite bv_of_tv, dec_tv_of_tv, cmp_res_ne_z. reflexivity.
  - apply (dec_tv_of_tv d U).
  - rewrite bv_of_tv, dec_tv_of_tv. destruct x; reflexivity.
Qed.

(* NumericMixin.negate / StringMixin.negate : `not v` is translated exactly, except the PostgreSQL branch for a
   nullable bool expression that is not an attribute *)
Lemma negate_val_den : forall k t n sql v,
  ev sql = enc d v -> has_vty v t = true -> (n = false -> v <> PNone) ->
  (pg d = true -> t = TBool -> k <> KAttr -> v <> PNone) ->
  cden (m_negate d (MVal k t n sql)) = Some (tv_of_bool (negb (truthy v))).
Proof.
  intros k t n sql v Hs Ht Hn Hz. unfold ev in *.
  assert (O := not_oracle).
  destruct t; cbn [m_negate vty_eqb]; rewrite ?O, ?Bool.andb_false_r.
  - (* int *)
    destruct v as [|z|x|b]; try discriminate Ht.
    + destruct n; [|exfalso; apply Hn; reflexivity].
      destruct k; cbn [cden getsql]; unfold ev; cbn [qeval qbinop qunop cop_of zero qlit_val map]; rewrite Hs; cbn [enc];
        dcases; reflexivity.
    + assert (E : dec_tv d (qcmp d CEq (IntV z) (IntV 0)) = Some (tv_of_bool (negb (truthy (PInt z))))).
      { cbn [qcmp truthy]. rewrite bv_of_tv, dec_tv_of_tv, cmp_res_eq_z, Bool.negb_involutive. reflexivity. }
      destruct n; [destruct k|]; cbn [cden getsql]; unfold ev; cbn [qeval qbinop qunop cop_of zero qlit_val map]; rewrite Hs; cbn [enc];
        try exact E.
      * (* attr: OR *) cbn [qcmp qisnull]. rewrite !bv_of_tv. change [of_tv d (tv_of_bool (cmp_res CEq (z ?= 0))); of_tv d (tv_of_bool false)]
          with [of_tv d (tv_of_bool (cmp_res CEq (z ?= 0))); of_tv d F]. rewrite qor_list_two, or3_F_r, dec_tv_of_tv, cmp_res_eq_z. cbn. rewrite Bool.negb_involutive. reflexivity.
      * unfold qcoalesce. cbn. replace (pg d && false) with false by (destruct (pg d); reflexivity). exact E.
      * unfold qcoalesce. cbn. replace (pg d && false) with false by (destruct (pg d); reflexivity). exact E.
      * unfold qcoalesce. cbn. replace (pg d && false) with false by (destruct (pg d); reflexivity). exact E.
  - (* str *)
    destruct v as [|z|x|b]; try discriminate Ht.
    + destruct n; [|exfalso; apply Hn; reflexivity].
      destruct k; cbn [cden getsql]; unfold ev; cbn [qeval qbinop qunop cop_of empty_str qlit_val map]; rewrite Hs; cbn [enc];
        dcases; reflexivity.
    + assert (E : dec_tv d (qcmp d CEq (StrV x) (StrV [])) = Some (tv_of_bool (negb (truthy (PStr x))))).
      { cbn [qcmp truthy]. rewrite bv_of_tv, dec_tv_of_tv. destruct x; reflexivity. }
      destruct n; [destruct k|]; cbn [cden getsql]; unfold ev; cbn [qeval qbinop qunop cop_of empty_str qlit_val map]; rewrite Hs; cbn [enc];
        try exact E.
      * cbn [qcmp qisnull]. rewrite !bv_of_tv. change [of_tv d (tv_of_bool (cmp_res CEq (str_compare x []))); of_tv d (tv_of_bool false)]
          with [of_tv d (tv_of_bool (cmp_res CEq (str_compare x []))); of_tv d F]. rewrite qor_list_two, or3_F_r, dec_tv_of_tv. destruct x; reflexivity.
      * unfold qcoalesce. cbn. replace (pg d && false) with false by (destruct (pg d); reflexivity). exact E.
      * unfold qcoalesce. cbn. replace (pg d && false) with false by (destruct (pg d); reflexivity). exact E.
      * unfold qcoalesce. cbn. replace (pg d && false) with false by (destruct (pg d); reflexivity). exact E.
  - (* bool *)
    destruct (pg d) eqn:P; cbn [andb].
    + (* PostgreSQL *)
      destruct v as [|z|x|b]; try discriminate Ht.
      * destruct n; [|exfalso; apply Hn; reflexivity].
        destruct k; try (exfalso; apply Hz; try reflexivity; discriminate).
        cbn [cden getsql]; unfold ev; cbn [qeval qbinop qunop cop_of zero qlit_val map]; rewrite ?Hs; cbn [enc].
        dcases; try discriminate P; reflexivity.
      * destruct n; [destruct k|]; cbn [cden getsql]; unfold ev; cbn [qeval qbinop qunop cop_of zero qlit_val map]; rewrite ?Hs; cbn [enc];
          dcases; try discriminate P; destruct b; reflexivity.
    + destruct v as [|z|x|b]; try discriminate Ht.
      * destruct n; [|exfalso; apply Hn; reflexivity].
        destruct k; cbn [cden getsql]; unfold ev; cbn [qeval qbinop qunop cop_of zero qlit_val map]; rewrite ?Hs; cbn [enc];
          dcases; try discriminate P; reflexivity.
      * destruct n; [destruct k|]; cbn [cden getsql]; unfold ev; cbn [qeval qbinop qunop cop_of zero qlit_val map]; rewrite ?Hs; cbn [enc];
          dcases; try discriminate P; destruct b; reflexivity.
Qed.

(* ------------------------------------------------------------------------------------------- and / or *)
(* what one operand contributes to the flattened operand list *)
Definition items1 (is_and : bool) (m : monad) : list monad :=
  if negb (is_boolm m) then [m_nonzero d m]
  else match m, is_and with
       | MAnd its, true => its
       | MOr its, false => its
       | _, _ => [m]
       end.

Lemma logical_items_two : forall is_and a b, logical_items d is_and [a; b] = items1 is_and a ++ items1 is_and b.
Proof. intros. unfold logical_items, items1. cbn [flat_map]. rewrite app_nil_r. reflexivity. Qed.

Definition evs (ms : list monad) : list qv := map (qeval d (encenv d en)) (map getsql ms).

Lemma and_items_cond : forall m c, cden m = Some c -> qand_list d (evs (items1 true m)) = of_tv d c.
Proof.
  intros m c H. pose proof (cden_sql _ _ H) as S. destruct (cden_boolm _ _ H) as [B _]. unfold items1. rewrite B. cbn [negb].
  destruct m; try discriminate; try (unfold evs; cbn [map]; fold (ev (getsql (MBoolExpr sql nullable))); rewrite S; apply qand_list_one).
  - unfold evs; cbn [map]. change (qeval d (encenv d en) (getsql (MCmp op m1 m2))) with (ev (getsql (MCmp op m1 m2))). rewrite S; apply qand_list_one.
  - exact S.
  - unfold evs; cbn [map]. change (qeval d (encenv d en) (getsql (MOr items))) with (ev (getsql (MOr items))). rewrite S; apply qand_list_one.
  - unfold evs; cbn [map]. change (qeval d (encenv d en) (getsql (MNot m))) with (ev (getsql (MNot m))). rewrite S; apply qand_list_one.
Qed.

Lemma or_items_cond : forall m c, cden m = Some c -> qor_list d (evs (items1 false m)) = of_tv d c.
Proof.
  intros m c H. pose proof (cden_sql _ _ H) as S. destruct (cden_boolm _ _ H) as [B _]. unfold items1. rewrite B. cbn [negb].
  destruct m; try discriminate; try (unfold evs; cbn [map]; fold (ev (getsql (MBoolExpr sql nullable))); rewrite S; apply qor_list_one).
  - unfold evs; cbn [map]. change (qeval d (encenv d en) (getsql (MCmp op m1 m2))) with (ev (getsql (MCmp op m1 m2))). rewrite S; apply qor_list_one.
  - unfold evs; cbn [map]. change (qeval d (encenv d en) (getsql (MAnd items))) with (ev (getsql (MAnd items))). rewrite S; apply qor_list_one.
  - exact S.
  - unfold evs; cbn [map]. change (qeval d (encenv d en) (getsql (MNot m))) with (ev (getsql (MNot m))). rewrite S; apply qor_list_one.
Qed.

Lemma enc_bool_tv : forall v, has_vty v TBool = true -> enc d v = of_tv d (truth_u v).
Proof. intros v H. destruct v as [|z|x|b]; try discriminate H; [reflexivity|]. cbn. apply bv_of_tv. Qed.

Lemma items_val : forall is_and m t v, vden m t v ->
  exists c, c = truth_u v /\ evs (items1 is_and m) = [of_tv d c].
Proof.
  intros is_and m t v H. exists (truth_u v). split; [reflexivity|].
  destruct (vty_eqb t TBool) eqn:E.
  - apply vty_eqb_eq in E. subst t. destruct H as [k [n [sql [-> [Hs [Ht Hn]]]]]].
    unfold items1. cbn. destruct is_and; unfold evs; cbn [map getsql]; unfold ev in Hs; rewrite Hs, (enc_bool_tv _ Ht); reflexivity.
  - assert (NB : t <> TBool) by (intro; subst; discriminate).
    pose proof (nonzero_den _ _ _ H NB) as C. pose proof (cden_sql _ _ C) as S.
    destruct H as [k [n [sql [-> _]]]]. unfold items1.
    replace (is_boolm (MVal k t n sql)) with false by (destruct t; try reflexivity; congruence). cbn [negb].
    unfold evs. cbn [map]. unfold ev in S. rewrite S. reflexivity.
Qed.

(* an operand of and / or / not / if-test: a condition or a value *)
Definition oden (m : monad) (c : tv) : Prop := cden m = Some c \/ exists t v, vden m t v /\ c = truth_u v.

Lemma oden_ok : forall m c, oden m c -> is_err m = false /\ is_nonem m = false.
Proof.
  intros m c [H|[t [v [[k [n [sql [-> _]]]] _]]]]; [destruct (cden_boolm _ _ H) as [_ [? ?]]; auto|split; reflexivity].
Qed.

Lemma and_items_oden : forall m c, oden m c -> qand_list d (evs (items1 true m)) = of_tv d c.
Proof.
  intros m c [H|[t [v [H ->]]]]; [apply and_items_cond; exact H|].
  destruct (items_val true _ _ _ H) as [c [-> E]]. rewrite E. apply qand_list_one.
Qed.
Lemma or_items_oden : forall m c, oden m c -> qor_list d (evs (items1 false m)) = of_tv d c.
Proof.
  intros m c [H|[t [v [H ->]]]]; [apply or_items_cond; exact H|].
  destruct (items_val false _ _ _ H) as [c [-> E]]. rewrite E. apply qor_list_one.
Qed.

Lemma logical_den : forall is_and a b ca cb, oden a ca -> oden b cb ->
  cden (m_logical d is_and [a; b]) = Some (if is_and then and3 ca cb else or3 ca cb).
Proof.
  intros is_and a b ca cb Ha Hb. destruct (oden_ok _ _ Ha) as [A1 A2]. destruct (oden_ok _ _ Hb) as [B1 B2].
  unfold m_logical. cbn [existsb]. rewrite A1, A2, B1, B2. cbn [orb].
  destruct is_and; rewrite logical_items_two; cbn [cden getsql]; unfold ev; cbn [qeval]; rewrite !map_app.
  - fold (evs (items1 true a)). fold (evs (items1 true b)).
    rewrite (qand_list_app d _ _ ca cb (and_items_oden _ _ Ha) (and_items_oden _ _ Hb)). apply dec_tv_of_tv.
  - fold (evs (items1 false a)). fold (evs (items1 false b)).
    rewrite (qor_list_app d _ _ ca cb (or_items_oden _ _ Ha) (or_items_oden _ _ Hb)). apply dec_tv_of_tv.
Qed.

(* the operand as a single condition (NotMonad operand, CASE WHEN test): cond monads as they are, bool values as they
   are, other values through nonzero *)
Lemma oden_test_sql : forall m c, oden m c ->
  ev (getsql (if is_boolm m then m else m_nonzero d m)) = of_tv d c.
Proof.
  intros m c [H|[t [v [H ->]]]].
  - destruct (cden_boolm _ _ H) as [B _]. rewrite B. apply cden_sql; exact H.
  - destruct (vty_eqb t TBool) eqn:E.
    + apply vty_eqb_eq in E. subst t. destruct H as [k [n [sql [-> [Hs [Ht Hn]]]]]]. unfold is_boolm. cbn [mvty getsql]. rewrite Hs. apply enc_bool_tv; exact Ht.
    + assert (NB : t <> TBool) by (intro; subst; discriminate).
      pose proof (nonzero_den _ _ _ H NB) as C. destruct H as [k [n [sql [-> _]]]].
      replace (is_boolm (MVal k t n sql)) with false by (destruct t; try reflexivity; congruence).
      apply cden_sql; exact C.
Qed.
End Den.
