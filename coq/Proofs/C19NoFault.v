(* C19 - a session in which no DB-API call fails succeeds, whatever happened (any faults) in the sessions before it. *)
From Coq Require Import List Bool Arith Lia.
Import ListNotations.
Require Import PonyV.Model.C19Txn PonyV.Proofs.C19Base PonyV.Proofs.C19Crunch PonyV.Proofs.C19Crunch2 PonyV.Proofs.C19Crunch3
               PonyV.Proofs.C19CrunchNF PonyV.Proofs.C19Proofs PonyV.Proofs.C19Proofs2.

Definition NotErr (rs : res * st) : Prop := match rs with (Err _, _) => False | _ => True end.
(* does not raise; on completion cache.saved_objects is empty *)
Definition OkClean (rs : res * st) : Prop := match rs with (Err _, _) => False | (Ok, s') => k_saved s' = false | (Blocked, _) => True end.

(* case on the outcome of `f s` in the goal and in two facts about it *)
Ltac use2 L1 L2 :=
  let H1 := fresh "H" in let H2 := fresh "N" in
  pose proof L1 as H1; pose proof L2 as H2; unfold exec in H1, H2; unfold NoErr, OkClean, NotErr in H2;
  match type of H1 with
  | match ?e with _ => _ end =>
      let r := fresh "r" in let s' := fresh "s" in let E := fresh "E" in
      revert H1 H2; destruct e as [r s'] eqn:E; destruct r; intros H1 H2
  end.

Lemma get_cache_saved : forall s, k_saved (snd (get_cache s)) = if k_reg s then k_saved s else false.
Proof. destruct_st. unfold get_cache. norm. destruct k_reg; reflexivity. Qed.

Section S.
Variable oracle : nat -> bool.
Notation NF := (NF oracle).

Lemma prepare_nf_noerr : forall s, WF s -> NF s -> k_reg s = true -> NoErr s (prepare_nf oracle s).
Proof.
  intros s Hwf Hnf Hreg. unfold prepare_nf.
  destruct (k_has s) eqn:Hhas; cbn [negb].
  - destruct (k_imm s) eqn:Himm; cbn [andb].
    + destruct (k_intxn s) eqn:Hin; cbn [negb].
      * reflexivity.
      * apply stm_nf; auto.
    + reflexivity.
  - apply cache_connect_nf; auto.
Qed.

Lemma exec_with_nf : forall (R : bool -> Prop) P prep start many q, PrepSpec P prep ->
  (forall s, WF s -> NF s -> k_reg s = true -> R (k_saved s) -> NoErr s (prep s)) ->
  forall s, WF s -> NF s -> (q = SSelect \/ (q = SWrite /\ (start = true \/ (k_reg s = true /\ k_imm s = true)))) ->
  R (if k_reg s then k_saved s else false) ->
  match exec_with oracle prep start many q s with
  | (Err _, _) => False
  | (Ok, s') => k_saved s' = if k_reg s then k_saved s else false
  | (Blocked, _) => True
  end.
Proof.
  intros R P prep start many q Hprep Hpnf s Hwf Hnf Hq HR.
  change (exec_with oracle prep start many q) with (get_cache ;; when start (upd (set_k_imm true)) ;; prep ;; exec_tail oracle many q).
  unfold bind.
  pose proof (get_cache_saved s) as Hgs.
  destruct (get_cache_spec s Hwf) as (s1 & Hg & Hwf1 & Hx1 & Hreg1 & Hsame & Hfresh). rewrite Hg in *. cbn [snd] in Hgs.
  set (s2 := if start then set_k_imm true s1 else s1).
  assert (Hs2 : when start (upd (set_k_imm true)) s1 = (Ok, s2)) by (unfold when, upd, ret, s2; destruct start; reflexivity).
  rewrite Hs2.
  assert (Hwf2 : WF s2) by (unfold s2; destruct start; auto using WF_set_imm_true).
  assert (Hx2 : Ext s1 s2) by (unfold s2; destruct start; auto using Ext_set_imm, Ext_refl).
  assert (Hreg2 : k_reg s2 = true) by (unfold s2; destruct start; auto).
  assert (Hsv2 : k_saved s2 = k_saved s1) by (unfold s2; destruct start; reflexivity).
  assert (Himm2 : (start = true -> k_imm s2 = true) /\ (k_imm s1 = true -> k_imm s2 = true)) by (unfold s2; destruct start; split; auto; discriminate).
  assert (Hnf2 : NF s2) by (eapply NF_ext; [eapply NF_ext; [exact Hnf | exact Hx1] | exact Hx2]).
  clearbody s2.
  assert (HR2 : R (k_saved s2)) by (rewrite Hsv2, Hgs; exact HR).
  use2 (Hprep s2 Hwf2 Hreg2) (Hpnf s2 Hwf2 Hnf2 Hreg2 HR2); unfold NoErr in *; auto.
  destruct H as (Hwf3 & Hx3 & Hreg3 & Himm3 & _ & _ & _ & Hhas3 & Hin3).
  destruct Himm2 as (Hi2a & Hi2b).
  assert (Hq' : q = SSelect \/ (q = SWrite /\ k_imm s0 = true)).
  { destruct Hq as [?|[? [Hst|[Hr Hi]]]]; auto; right; split; auto.
    apply Himm3, Hi2b. rewrite (Hsame Hr). exact Hi. }
  assert (Hnf3 : NF s0) by (eapply NF_ext; eauto).
  use2 (exec_tail_spec oracle many q s0 Hwf3 Hq' Hhas3 Hreg3 Hin3) (exec_tail_nf oracle many q s0 Hwf3 Hnf3 Hq' Hhas3 Hreg3 Hin3); unfold NoErr in *; auto.
  congruence.
Qed.

Lemma flush_loop_nf : forall n s, WF s -> NF s -> k_reg s = true -> k_imm s = true -> NotErr (flush_loop oracle n s).
Proof.
  induction n as [|n IH]; intros s Hwf Hnf Hreg Himm; [exact I|].
  cbn [flush_loop]. unfold bind, try_except.
  pose proof (or_intror (conj eq_refl (or_introl eq_refl)) : SWrite = SSelect \/ (SWrite = SWrite /\ (true = true \/ (k_reg s = true /\ k_imm s = true)))) as Hq.
  use2 (exec_with_spec oracle eq (prepare_nf oracle) true false SWrite (prepare_nf_prep oracle) s Hwf Hq)
       (exec_with_nf (fun _ => True) eq (prepare_nf oracle) true false SWrite (prepare_nf_prep oracle)
          (fun s0 W N Rg _ => prepare_nf_noerr s0 W N Rg) s Hwf Hnf Hq I); try contradiction; [|exact I].
  destruct H as (Hwf1 & Hx1 & Hreg1 & _ & _ & Himm1 & _).
  unfold upd at 1.
  apply IH; [apply WF_flush_mark; auto | eapply NF_ext; [eapply NF_ext; eauto | apply Ext_flush_mark] | exact Hreg1 | apply Himm1; reflexivity].
Qed.

Lemma exec_m2m_nf : forall s, WF s -> NF s -> k_reg s = true -> k_imm s = true -> NotErr (exec_m2m oracle s).
Proof.
  intros s Hwf Hnf Hreg Himm. unfold exec_m2m.
  pose proof (exec_with_nf (fun _ => True) eq (prepare_nf oracle) false true SWrite (prepare_nf_prep oracle)
          (fun s0 W N Rg _ => prepare_nf_noerr s0 W N Rg) s Hwf Hnf (or_intror (conj eq_refl (or_intror (conj Hreg Himm)))) I) as H.
  destruct (exec_with oracle (prepare_nf oracle) false true SWrite s) as [r s']. destruct r; unfold NotErr; auto.
Qed.

Lemma flush_body_nf : forall s, WF s -> NF s -> k_reg s = true -> k_imm s = true -> OkClean (flush_body oracle s).
Proof.
  intros s Hwf Hnf Hreg Himm. unfold flush_body. unfold bind at 1.
  assert (H1 : match when (k_mrem s) (exec_m2m oracle) s with
               | (Err _, _) => False
               | (Ok, s1) => WF s1 /\ Ext s s1 /\ k_reg s1 = true /\ k_imm s1 = true
               | (Blocked, _) => True end).
  { destruct (k_mrem s); cbn [when].
    - use2 (exec_m2m_spec oracle s Hwf Hreg Himm) (exec_m2m_nf s Hwf Hnf Hreg Himm); auto. dest. auto.
    - unfold ret. auto using Ext_refl. }
  destruct (when (k_mrem s) (exec_m2m oracle) s) as [r1 s1]. destruct r1; try contradiction; [|exact I].
  destruct H1 as (Hwf1 & Hx1 & Hreg1 & Himm1).
  assert (Hnf1 : NF s1) by (eapply NF_ext; eauto).
  unfold bind at 1.
  use2 (flush_loop_spec oracle (k_pending s1) s1 Hwf1 Hreg1 Himm1) (flush_loop_nf (k_pending s1) s1 Hwf1 Hnf1 Hreg1 Himm1); try contradiction; [|exact I].
  destruct H as (Hwf2 & Hx2 & Hreg2 & Himm2 & _).
  assert (Hnf2 : NF s0) by (eapply NF_ext; eauto).
  unfold bind at 1.
  assert (H3 : match when (k_madd s0) (exec_m2m oracle) s0 with (Err _, _) => False | _ => True end).
  { destruct (k_madd s0); cbn [when]; [apply exec_m2m_nf; auto | exact I]. }
  destruct (when (k_madd s0) (exec_m2m oracle) s0) as [r3 s3]. destruct r3; try contradiction; [|exact I].
  unfold upd. reflexivity.
Qed.

Lemma cache_flush_nf : forall s, WF s -> NF s -> k_reg s = true -> k_saved s = false -> OkClean (cache_flush oracle s).
Proof.
  intros s Hwf Hnf Hreg Hsv. unfold cache_flush. rewrite Hsv.
  unfold bind, try_finally. unfold upd at 1.
  pose proof (flush_body_nf (set_k_imm true s) (WF_set_imm_true _ Hwf) (NF_ext _ _ _ Hnf (Ext_set_imm true s)) Hreg eq_refl) as H.
  destruct (flush_body oracle (set_k_imm true s)) as [r s1]. destruct r; try contradiction; [|exact I].
  unfold OkClean in *. destruct (k_intxn s1); exact H.
Qed.

Lemma prepare_noerr : forall s, WF s -> NF s -> k_reg s = true -> k_saved s = false -> NoErr s (prepare oracle s).
Proof.
  intros s Hwf Hnf Hreg Hsv. unfold prepare, bind.
  use2 (prepare_nf_spec oracle s Hwf Hreg) (prepare_nf_noerr s Hwf Hnf Hreg); unfold NoErr in *; auto.
  destruct H as (Hwf1 & Hx1 & (Hk1 & _) & _).
  assert (Hreg1 : k_reg s0 = true) by congruence.
  destruct (modified s0); cbn [when]; [|exact N].
  pose proof (cache_flush_nf s0 Hwf1 (NF_ext _ _ _ Hnf Hx1) Hreg1 ltac:(congruence)) as Hf.
  destruct (cache_flush oracle s0) as [r s1]. destruct r; auto. unfold OkClean in Hf. congruence.
Qed.

(* Database._exec_sql in a session whose cache has no half-done flush *)
Lemma exec_nf : forall start q s, WF s -> NF s -> (q = SSelect \/ (q = SWrite /\ start = true)) -> (k_reg s = true -> k_saved s = false) ->
  OkClean (exec oracle start q s).
Proof.
  intros start q s Hwf Hnf Hq Hinv. unfold exec.
  assert (Hq' : q = SSelect \/ (q = SWrite /\ (start = true \/ (k_reg s = true /\ k_imm s = true)))) by (destruct Hq as [?|[? ?]]; auto).
  assert (HR : (fun b => b = false) (if k_reg s then k_saved s else false)) by (destruct (k_reg s); auto).
  pose proof (exec_with_nf (fun b => b = false) (fun _ _ => True) (prepare oracle) start false q (prepare_prep oracle)
                (fun s0 W N Rg Sv => prepare_noerr s0 W N Rg Sv) s Hwf Hnf Hq' HR) as H.
  destruct (exec_with oracle (prepare oracle) start false q s) as [r s']. destruct r; auto.
  unfold OkClean. rewrite H. exact HR.
Qed.

Lemma cache_commit_nf : forall s, WF s -> NF s -> k_reg s = true -> k_saved s = false -> OkClean (cache_commit oracle s).
Proof.
  intros s Hwf Hnf Hreg Hsv.
  change (cache_commit oracle) with
    ((fun s => assert_ (k_reg s) s) ;;
     try_except ((fun s => when (modified s) (cache_flush oracle) s) ;; commit_step oracle)
                (fun e => cache_close oracle true ;; raise e)).
  unfold bind at 1. rewrite Hreg. cbn [assert_]. unfold ret at 1.
  unfold try_except. unfold bind at 1.
  assert (Hflush : match when (modified s) (cache_flush oracle) s with
                   | (Err _, _) => False
                   | (Ok, s1) => WF s1 /\ Ext s s1 /\ k_reg s1 = true /\ k_saved s1 = false
                   | (Blocked, _) => True end).
  { destruct (modified s); cbn [when].
    - use2 (cache_flush_spec oracle s Hwf Hreg) (cache_flush_nf s Hwf Hnf Hreg Hsv); unfold OkClean in *; auto. dest. auto.
    - unfold ret. auto using Ext_refl. }
  destruct (when (modified s) (cache_flush oracle) s) as [r1 s1]. destruct r1; try contradiction; [|exact I].
  destruct Hflush as (Hwf1 & Hx1 & Hreg1 & Hsv1).
  pose proof (commit_step_nf oracle s1 Hwf1 (NF_ext _ _ _ Hnf Hx1) Hreg1) as Hc. unfold NoErr in Hc.
  destruct (commit_step oracle s1) as [r2 s2]. destruct r2; try contradiction; [|exact I].
  unfold OkClean. congruence.
Qed.

Lemma core_commit_nf : forall s, WF s -> NF s -> (k_reg s = true -> k_saved s = false) ->
  match core_commit oracle s with (Err _, _) => False | (Ok, s') => k_reg s' = true -> k_saved s' = false | (Blocked, _) => True end.
Proof.
  intros s Hwf Hnf Hinv. unfold core_commit. destruct (k_reg s) eqn:Hreg; [|intros; congruence].
  unfold bind, try_except.
  use2 (cache_flush_spec oracle s Hwf Hreg) (cache_flush_nf s Hwf Hnf Hreg (Hinv eq_refl)); unfold OkClean in *; try contradiction; [|exact I].
  destruct H as (Hwf1 & Hx1 & Hreg1 & _).
  pose proof (cache_commit_nf s0 Hwf1 (NF_ext _ _ _ Hnf Hx1) Hreg1 N) as Hc.
  destruct (cache_commit oracle s0) as [r s1]. destruct r; try contradiction; unfold OkClean in *; auto.
Qed.

Lemma db_commit_nf : forall s, WF s -> NF s -> (k_reg s = true -> k_saved s = false) ->
  match db_commit oracle s with (Err _, _) => False | (Ok, s') => k_reg s' = true -> k_saved s' = false | (Blocked, _) => True end.
Proof.
  intros s Hwf Hnf Hinv. unfold db_commit. destruct (k_reg s) eqn:Hreg; [|intros; congruence].
  unfold bind at 1. unfold try_except.
  use2 (cache_flush_spec oracle s Hwf Hreg) (cache_flush_nf s Hwf Hnf Hreg (Hinv eq_refl)); unfold OkClean in *; try contradiction; [|exact I].
  destruct H as (Hwf1 & Hx1 & Hreg1 & _).
  pose proof (cache_commit_nf s0 Hwf1 (NF_ext _ _ _ Hnf Hx1) Hreg1 N) as Hc.
  destruct (cache_commit oracle s0) as [r s1]. destruct r; try contradiction; unfold OkClean in *; auto.
Qed.

Lemma core_rollback_nf : forall s, WF s -> NF s ->
  match core_rollback oracle s with (Err _, _) => False | (Ok, s') => k_reg s' = false | (Blocked, _) => True end.
Proof.
  intros s Hwf Hnf. unfold core_rollback. destruct (k_reg s) eqn:Hreg; [|exact Hreg].
  unfold try_except.
  use2 (cache_close_spec oracle true s (WF_WFw _ Hwf) Hreg (or_introl eq_refl) (WF_forupd0 _ Hwf))
       (cache_close_nf oracle true s Hwf Hnf Hreg (or_introl eq_refl)); try contradiction; [|exact I].
  dest. auto.
Qed.

Definition benign (o : op) : bool := match o with ORaise | OGetFURev false => false | _ => true end.
Definition Clean (s : st) : Prop := k_reg s = true -> k_saved s = false.

Lemma locking_read_nf : forall s, WF s -> NF s -> Clean s ->
  match (get_cache ;; upd (set_k_imm true) ;; exec oracle false SSelect ;;
         (fun s => assert_ (k_intxn s) s) ;; upd (fun s => set_k_forupd (S (k_forupd s)) s)) s with
  | (Err _, _) => False | (Ok, s') => Clean s' | (Blocked, _) => True end.
Proof.
  intros s Hwf Hnf Hinv.
  unfold bind at 1. pose proof (get_cache_saved s) as Hgs.
  destruct (get_cache_spec s Hwf) as (s1 & Hg & Hwf1 & Hx1 & Hreg1 & _). rewrite Hg in *. cbn [snd] in Hgs.
  unfold bind at 1. unfold upd at 1.
  assert (Hwf2 : WF (set_k_imm true s1)) by (apply WF_set_imm_true; exact Hwf1).
  assert (Hx2 : Ext s (set_k_imm true s1)) by (eapply Ext_trans; [exact Hx1 | apply Ext_set_imm]).
  assert (Himm2 : k_imm (set_k_imm true s1) = true) by reflexivity.
  assert (Hreg2 : k_reg (set_k_imm true s1) = true) by exact Hreg1.
  assert (Hsv2 : k_saved (set_k_imm true s1) = false).
  { change (k_saved s1 = false). rewrite Hgs. destruct (k_reg s) eqn:E; auto. }
  set (s2 := set_k_imm true s1) in *. clearbody s2.
  assert (Hnf2 : NF s2) by (eapply NF_ext; eauto).
  unfold bind at 1. unfold exec.
  use2 (exec_spec oracle false SSelect s2 Hwf2 (or_introl eq_refl)) (exec_nf false SSelect s2 Hwf2 Hnf2 (or_introl eq_refl) (fun _ => Hsv2));
    unfold exec, OkClean in *; try contradiction; [|exact I].
  destruct H as (Hwf3 & Hx3 & Hreg3 & Hfr & _ & _ & Hhas3 & Hin3).
  destruct (Hfr Hreg2) as (_ & _ & Him & _).
  assert (Hi : k_intxn s0 = true) by (apply Hin3, Him, Himm2).
  unfold bind. rewrite Hi. cbn [assert_]. unfold ret, upd. intros _. exact N.
Qed.

Lemma run_op_nf : forall o s, benign o = true -> WF s -> NF s -> Clean s ->
  match run_op oracle o s with (Err _, _) => False | (Ok, s') => Clean s' | (Blocked, _) => True end.
Proof.
  intros o s Hb Hwf Hnf Hinv. unfold Clean in *. destruct o; try discriminate; cbn [run_op].
  - (* OSelect *) pose proof (exec_nf false SSelect s Hwf Hnf (or_introl eq_refl) Hinv) as H.
    destruct (exec oracle false SSelect s) as [r s']. destruct r; auto.
  - (* OForUpd *) apply locking_read_nf; auto.
  - (* ONew *) unfold bind. pose proof (get_cache_saved s) as Hgs.
    destruct (get_cache_spec s Hwf) as (s1 & Hg & _). rewrite Hg in *. cbn [snd] in Hgs. unfold upd. intros _.
    change (k_saved s1 = false). rewrite Hgs. destruct (k_reg s) eqn:E; auto.
  - (* OFlush *) unfold core_flush. destruct (k_reg s) eqn:Hreg; [|intros; congruence].
    pose proof (cache_flush_nf s Hwf Hnf Hreg (Hinv eq_refl)) as H.
    destruct (cache_flush oracle s) as [r s']. destruct r; auto.
  - (* ORawWrite *) pose proof (exec_nf true SWrite s Hwf Hnf (or_intror (conj eq_refl eq_refl)) Hinv) as H.
    destruct (exec oracle true SWrite s) as [r s']. destruct r; auto.
  - (* OCommit *) apply core_commit_nf; auto.
  - (* ORollback *) pose proof (core_rollback_nf s Hwf Hnf) as H. destruct (core_rollback oracle s) as [r s']. destruct r; auto. congruence.
  - (* ODbCommit *) apply db_commit_nf; auto.
  - (* ODbRollback *) unfold db_rollback. pose proof (core_rollback_nf s Hwf Hnf) as H. destruct (core_rollback oracle s) as [r s']. destruct r; auto. congruence.
  - (* OGetConn *)
    unfold get_connection. unfold bind at 1. pose proof (get_cache_saved s) as Hgs.
    destruct (get_cache_spec s Hwf) as (s1 & Hg & Hwf1 & Hx1 & Hreg1 & _). rewrite Hg in *. cbn [snd] in Hgs.
    assert (Hsv1 : k_saved s1 = false) by (rewrite Hgs; destruct (k_reg s) eqn:E; auto).
    unfold bind at 1.
    destruct (k_intxn s1) eqn:Hin; cbn [negb when].
    + unfold ret at 1.
      assert (Hh : k_has s1 = true) by (apply (w_intxn _ (wf_w _ Hwf1) Hin)).
      rewrite Hh. cbn [assert_]. unfold ret. auto.
    + unfold bind at 1. unfold upd at 1.
      set (s2 := set_k_imm true s1).
      assert (Hs2 : k_reg s2 = true /\ k_imm s2 = true /\ k_saved s2 = false) by (repeat split; auto).
      destruct Hs2 as (Hreg2 & Himm2 & Hsv2).
      assert (Hwf2 : WF s2) by (apply WF_set_imm_true; exact Hwf1).
      assert (Hnf2 : NF s2) by (eapply NF_ext; [eapply NF_ext; eauto | apply Ext_set_imm]).
      clearbody s2. unfold bind at 1.
      use2 (prepare_prep oracle s2 Hwf2 Hreg2) (prepare_noerr s2 Hwf2 Hnf2 Hreg2 Hsv2); unfold NoErr in *; try contradiction; [|exact I].
      destruct H as (_ & _ & _ & _ & _ & _ & _ & Hhas3 & _).
      unfold upd at 1. change (k_has (set_k_intxn true s0)) with (k_has s0). rewrite Hhas3. cbn [assert_]. unfold ret. intros _.
      change (k_saved s0 = false). congruence.
  - (* OLink *) unfold bind. pose proof (get_cache_saved s) as Hgs.
    destruct (get_cache_spec s Hwf) as (s1 & Hg & _). rewrite Hg in *. cbn [snd] in Hgs. unfold upd. intros _.
    change (k_saved s1 = false). rewrite Hgs. destruct (k_reg s) eqn:E; auto.
  - (* OUnlink *) unfold bind. pose proof (get_cache_saved s) as Hgs.
    destruct (get_cache_spec s Hwf) as (s1 & Hg & _). rewrite Hg in *. cbn [snd] in Hgs. unfold upd. intros _.
    change (k_saved s1 = false). rewrite Hgs. destruct (k_reg s) eqn:E; auto.
  - (* OGetFU *) destruct (cached && locked).
    + pose proof (get_cache_saved s) as Hgs. destruct (get_cache_spec s Hwf) as (s1 & Hg & _). rewrite Hg in *. cbn [snd] in Hgs.
      intros _. rewrite Hgs. destruct (k_reg s) eqn:E; auto.
    + apply locking_read_nf; auto.
  - (* OGetFURev *) destruct locked; try discriminate. unfold bind. pose proof (get_cache_saved s) as Hgs.
    destruct (get_cache_spec s Hwf) as (s1 & Hg & _). rewrite Hg in *. cbn [snd] in Hgs. unfold ret. intros _.
    rewrite Hgs. destruct (k_reg s) eqn:E; auto.
Qed.

Lemma run_body_nf : forall b s, forallb (fun oc => benign (fst oc)) b = true -> WF s -> NF s -> Clean s ->
  match run_body oracle b s with (Err _, _) => False | (Ok, s') => Clean s' | (Blocked, _) => True end.
Proof.
  induction b as [|[o c] b IH]; intros s Hb Hwf Hnf Hinv; cbn [run_body].
  - exact Hinv.
  - cbn [forallb fst] in Hb. apply andb_prop in Hb. destruct Hb as (Hbo & Hbb).
    pose proof (run_op_spec oracle o s Hwf) as Hs. unfold Post in Hs.
    pose proof (run_op_nf o s Hbo Hwf Hnf Hinv) as Hn.
    destruct (run_op oracle o s) as [r s1]. destruct r; try contradiction; [|exact I].
    destruct Hs as (Hwf1 & Hx1). apply IH; auto. eapply NF_ext; eauto.
Qed.

Lemma run_session_nf : forall sh b s, forallb (fun oc => benign (fst oc)) b = true -> WF s -> NF s -> k_reg s = false ->
  NotErr (run_session oracle sh b s).
Proof.
  intros sh b s Hb Hwf Hnf Hreg. unfold run_session.
  assert (Hwf0 : WF (set_sess sh s)) by (apply WF_set_sess; auto).
  assert (Hnf0 : NF (set_sess sh s)) by exact Hnf.
  assert (Hc0 : Clean (set_sess sh s)) by (unfold Clean; change (k_reg (set_sess sh s)) with (k_reg s); congruence).
  set (s0 := set_sess sh s) in *. clearbody s0.
  pose proof (run_body_spec oracle b s0 Hwf0) as Hs. unfold Post in Hs.
  pose proof (run_body_nf b s0 Hb Hwf0 Hnf0 Hc0) as Hn.
  destruct (run_body oracle b s0) as [r s1]. destruct r; try contradiction; [|exact I].
  destruct Hs as (Hwf1 & Hx1). assert (Hnf1 : NF s1) by (eapply NF_ext; eauto).
  cbn [session_exit]. unfold bind.
  use2 (core_commit_spec oracle s1 Hwf1) (core_commit_nf s1 Hwf1 Hnf1 Hn); try contradiction; [|exact I].
  destruct H as (Hwf2 & Hx2 & Hin2 & _).
  destruct (k_reg s2) eqn:Hreg2; [|exact I].
  apply (cache_close_nf oracle false s2 Hwf2 (NF_ext _ _ _ Hnf1 Hx2) Hreg2 (or_intror Hin2)).
Qed.
End S.

(* C19: after any sessions with any faults, a session in which nothing fails (and whose body does not raise) succeeds *)
Lemma following_session_lemma : forall oracle sessions s sh body,
  WF s -> k_reg s = false -> lock s = false ->
  forallb (fun oc => benign (fst oc)) body = true ->
  exists r1 s1, run_sessions oracle sessions s = (r1, s1) /\
    ((forall n, ncall s1 <= n -> oracle n = false) -> exists s2, run_session oracle sh body s1 = (Ok, s2) /\ lock s2 = false /\ k_reg s2 = false).
Proof.
  intros oracle sessions s sh body Hwf Hreg Hlock Hb.
  destruct (progress_lemma oracle sessions s Hwf Hreg Hlock) as (r1 & s1 & E1 & _ & Hwf1 & Hreg1 & Hlock1).
  exists r1, s1. split; [exact E1|]. intros Hnf.
  destruct (released_lemma oracle sh body s1 Hwf1 Hreg1 Hlock1) as (r2 & s2 & E2 & Hnb & _ & Hreg2 & Hlock2 & _).
  pose proof (run_session_nf oracle sh body s1 Hb Hwf1 Hnf Hreg1) as Hne. rewrite E2 in Hne.
  exists s2. destruct r2; try contradiction; try congruence. auto.
Qed.
