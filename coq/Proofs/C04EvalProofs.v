(* C04 - "the value bound as query parameter is Python's value of the subexpression": composed from the marking's soundness
   (Proofs/C04ExtProofs.v), the round trip of ast2src (Proofs/C04Pony.v) and the evaluation semantics Model/C04Eval.v. *)
From Coq Require Import ZArith List Bool Arith Lia.
Import ListNotations.
Require Import PonyV.Model.C04Expr PonyV.Model.C04Parse PonyV.Model.C04Ext PonyV.Model.C04Eval PonyV.Gen.Priority
               PonyV.Proofs.C04Parse PonyV.Proofs.C04Mono PonyV.Proofs.C04Pony PonyV.Proofs.C04ExtProofs.

Lemma eval_bool_ext : forall ev1 ev2 b cs, (forall c, In c cs -> ev1 c = ev2 c) -> eval_bool ev1 b cs = eval_bool ev2 b cs.
Proof.
  intros ev1 ev2 b cs. induction cs as [|c cs IH]; intros H; [reflexivity|].
  destruct cs as [|d cs].
  - simpl. apply H. left. reflexivity.
  - change (eval_bool ev1 b (c :: d :: cs)) with (match ev1 c with Some z => if Bool.eqb (truthy z) b then Some z else eval_bool ev1 b (d :: cs) | None => None end).
    change (eval_bool ev2 b (c :: d :: cs)) with (match ev2 c with Some z => if Bool.eqb (truthy z) b then Some z else eval_bool ev2 b (d :: cs) | None => None end).
    rewrite (H c (or_introl eq_refl)). rewrite IH; [reflexivity|]. intros x Hx. apply H. right. exact Hx.
Qed.

Lemma eval_chain_ext : forall ev1 ev2 cs v ops, (forall c, In c cs -> ev1 c = ev2 c) -> eval_chain ev1 v ops cs = eval_chain ev2 v ops cs.
Proof.
  intros ev1 ev2 cs. induction cs as [|c cs IH]; intros v ops H; destruct ops as [|o ops]; try reflexivity.
  simpl. rewrite (H c (or_introl eq_refl)). destruct (ev2 c) as [w|]; [|reflexivity].
  destruct (cmp_sem o v w) as [[|]|]; try reflexivity. apply IH. intros x Hx. apply H. right. exact Hx.
Qed.

Lemma eval_all_ext : forall ev1 ev2 cs, (forall c, In c cs -> ev1 c = ev2 c) -> eval_all ev1 cs = eval_all ev2 cs.
Proof.
  intros ev1 ev2 cs. induction cs as [|c cs IH]; intros H; [reflexivity|].
  simpl. rewrite (H c (or_introl eq_refl)). rewrite IH; [reflexivity|]. intros x Hx. apply H. right. exact Hx.
Qed.

(* the value of an expression depends only on the names it mentions *)
Lemma ceval_coincidence : forall e ctx rho1 rho2,
  (forall x, mem x ctx = false -> rho1 x = rho2 x) -> mentions ctx e = false -> ceval rho1 e = ceval rho2 e.
Proof.
  induction e as [l cs IH] using expr_ind'. intros ctx rho1 rho2 Hr Hm.
  rewrite mentions_node in Hm. apply orb_false_iff in Hm. destruct Hm as [Hm1 Hm2].
  assert (Kid : forall c, In c cs -> ceval rho1 c = ceval rho2 c).
  { intros c Hc. rewrite Forall_forall in IH. apply (IH c Hc ctx); [exact Hr|].
    destruct (mentions ctx c) eqn:E; [|reflexivity]. assert (existsb (mentions ctx) cs = true) by (apply existsb_exists; exists c; auto). congruence. }
  destruct l; try reflexivity.
  - destruct cs; [|reflexivity]. simpl. apply Hr. exact Hm1.
  - destruct k; try reflexivity.
    + (* or *) simpl. apply eval_bool_ext. exact Kid.
    + (* and *) simpl. apply eval_bool_ext. exact Kid.
    + (* not *) destruct cs as [|a [|b cs]]; try reflexivity. simpl. rewrite (Kid a); [reflexivity|left; reflexivity].
    + (* add *) destruct cs as [|a [|b [|c cs]]]; try reflexivity. simpl. rewrite (Kid a), (Kid b); simpl; auto.
    + (* sub *) destruct cs as [|a [|b [|c cs]]]; try reflexivity. simpl. rewrite (Kid a), (Kid b); simpl; auto.
    + (* mult *) destruct cs as [|a [|b [|c cs]]]; try reflexivity. simpl. rewrite (Kid a), (Kid b); simpl; auto.
    + (* usub *) destruct cs as [|a [|b cs]]; try reflexivity. simpl. rewrite (Kid a); [reflexivity|left; reflexivity].
    + (* subscript *) destruct cs as [|a [|b [|c cs]]]; try reflexivity. simpl. rewrite (Kid a), (Kid b); simpl; auto.
    + (* ifexp *) destruct cs as [|a [|b [|c [|d cs]]]]; try reflexivity. simpl. rewrite (Kid a), (Kid b), (Kid c); simpl; auto.
    + (* tuple *) simpl. rewrite (eval_all_ext (ceval rho1) (ceval rho2) cs Kid). reflexivity.
  - (* compare *) destruct cs as [|a rest]; [reflexivity|]. simpl. rewrite (Kid a) by (left; reflexivity).
    destruct (ceval rho2 a); [|reflexivity]. apply eval_chain_ext. intros c Hc. apply Kid. right. exact Hc.
Qed.

Section Bound.
Variable fclass : list str -> callclass.

(* THE FIRST SENTENCE OF THE PROPERTY, on the fragment of Model/C04Eval.v: for every external subexpression s that PreTranslator
   finds in a well-formed query body e (context ctx = the query variables), what the extractor computes - Python's eval of the text
   ast2src prints for s, in the caller's scope rho_caller - is the value s has "in place", i.e. under ANY binding rho_place of the
   query variables and lambda parameters (the names c' of the context at that place) that agrees with the caller's scope elsewhere. *)
Theorem bound_value : forall ctx e p c' s rho_caller rho_place,
  mwf e = true ->
  In p (externals fclass ctx e) -> sub_ctx ctx e p = Some (c', s) -> wf s = true -> expr_kindb (ekind s) = true ->
  (forall x, mem x c' = false -> rho_caller x = rho_place x) ->
  exists n, forall f, n <= f -> eval_tokens f (print pony_style s) rho_caller = ceval rho_place s.
Proof.
  intros ctx e p c' s r1 r2 Hw Hin Hs Hws Hk Hr.
  destruct (externals_sound fclass ctx e p c' s Hw Hin Hs) as [Hm _].
  destruct (pony_roundtrip s Hws Hk) as [n Hn].
  exists n. intros f Hf. unfold eval_tokens. rewrite (Hn f Hf). apply (ceval_coincidence s c'); assumption.
Qed.

(* two externals with the same source tokens are the same tree (so one extractor per text loses nothing) *)
Theorem same_text_same_tree : forall s1 s2, wf s1 = true -> wf s2 = true -> expr_kindb (ekind s1) = true -> expr_kindb (ekind s2) = true ->
  print pony_style s1 = print pony_style s2 -> s1 = s2.
Proof.
  intros s1 s2 H1 H2 K1 K2 E. destruct (pony_roundtrip s1 H1 K1) as [n1 Hn1]. destruct (pony_roundtrip s2 H2 K2) as [n2 Hn2].
  specialize (Hn1 (Nat.max n1 n2) ltac:(lia)). specialize (Hn2 (Nat.max n1 n2) ltac:(lia)). rewrite E in Hn1. congruence.
Qed.

End Bound.

(* non-vacuity: `p.x == (a - 1) * 2 + b`: the external is (a - 1) * 2 + b, bound as 2 when a = 2, b = 0 *)
Definition nmz (c : Z) : expr := Node (LName [c]) [].
Definition demo_ext : expr :=
  Node (LOp KAdd) [Node (LOp KMult) [Node (LOp KSub) [nmz 97; Node (LConst [49]%Z) []]; Node (LConst [50]%Z) []]; nmz 98].
Definition demo_query : expr := Node (LCompare [CEq]) [Node (LAttribute [120]%Z) [nmz 112]; demo_ext].
Definition demo_env : env := fun s => match s with [97%Z] => Some (VInt 2) | [98%Z] => Some (VInt 0) | [110%Z] => Some (VStr [74; 111]%Z) | _ => None end.

(* `p.name == (n + 'e', (a, 'x'))[b]`: strings and tuples; the external is the subscript, bound as 'Joe' when n = 'Jo', b = 0 *)
Definition demo_str : expr :=
  Node (LOp KSubscript) [Node (LOp KTuple) [Node (LOp KAdd) [nmz 110; Node (LConst [39; 101; 39]%Z) []];
                                             Node (LOp KTuple) [nmz 97; Node (LConst [39; 120; 39]%Z) []]]; nmz 98].

(* `p.x in (s.y for s in S if s.z == a + 1 and s.w == p.x)`: inside the subquery the targets of its for-clauses are bound as well;
   the externals are the iterable S and a + 1 *)
Definition demo_subquery : expr :=
  Node (LCompare [CIn]) [Node (LAttribute [120]%Z) [nmz 112];
    Node (LGen [([[115]%Z], 1%nat)])
      [nmz 83;
       Node (LOp KAnd) [Node (LCompare [CEq]) [Node (LAttribute [122]%Z) [nmz 115]; Node (LOp KAdd) [nmz 97; Node (LConst [49]%Z) []]];
                        Node (LCompare [CEq]) [Node (LAttribute [119]%Z) [nmz 115]; Node (LAttribute [120]%Z) [nmz 112]]];
       Node (LAttribute [121]%Z) [nmz 115]]].

Lemma demo_subquery_ok :
  externals (fun _ => FPlain) [[112]%Z] demo_subquery = [[1; 0]; [1; 1; 0; 1]] /\
  sub_ctx [[112]%Z] demo_subquery [1; 1; 0; 1] = Some ([[115]%Z; [112]%Z], Node (LOp KAdd) [nmz 97; Node (LConst [49]%Z) []]) /\
  mwf demo_subquery = true /\ wf demo_subquery = false.
Proof. vm_compute. repeat split; reflexivity. Qed.

Lemma demo_bound :
  externals (fun _ => FPlain) [[112]%Z] demo_query = [[1]] /\ sub_ctx [[112]%Z] demo_query [1] = Some ([[112]%Z], demo_ext) /\
  mwf demo_query = true /\ wf demo_ext = true /\
  eval_tokens 40 (print pony_style demo_ext) demo_env = Some (VInt 2) /\
  externals (fun _ => FPlain) [[112]%Z] (Node (LCompare [CEq]) [Node (LAttribute [110]%Z) [nmz 112]; demo_str]) = [[1]] /\
  eval_tokens 60 (print pony_style demo_str) demo_env = Some (VStr [74; 111; 101]%Z).
Proof. vm_compute. repeat split; reflexivity. Qed.
