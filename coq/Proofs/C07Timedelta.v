(* C07 (part 3): str2timedelta (timedelta2str td) = td for every normalised timedelta (unbounded days). *)
Require Import PonyV.Base.PyBase PonyV.Model.C07Base PonyV.Model.C07Fmt PonyV.Gen.C07Codec PonyV.Model.C07Codec
               PonyV.Proofs.C07Digits PonyV.Proofs.C07Proofs.
From Coq Require Import ZifyBool.
Open Scope Z_scope.

(* ---- arithmetic ------------------------------------------------------------------------------------------------------------ *)
Lemma td_total_of_us x : td_total_us (td_of_us x) = x.
Proof. unfold td_total_us, td_of_us, us_per_day; cbn [td_days td_secs td_us]. euclid. Qed.

Definition td_norm (t : td_v) : Prop := 0 <= td_secs t < 86400 /\ 0 <= td_us t < 1000000.

Lemma td_of_us_norm d s u : 0 <= s < 86400 -> 0 <= u < 1000000 ->
  td_of_us (d * 86400000000 + s * 1000000 + u) = mk_td d s u.
Proof. intros Hs Hu. unfold td_of_us, us_per_day. f_equal; euclid. Qed.

Lemma hms_recompose a : 0 <= a -> ((a / 60 / 60) * 60 + a / 60 mod 60) * 60 + a mod 60 = a.
Proof. intros H. euclid. Qed.

Lemma hms_nonneg a : 0 <= a -> 0 <= a / 60 / 60 /\ 0 <= a / 60 mod 60 /\ 0 <= a mod 60.
Proof. intros H. euclid. Qed.

(* ---- the text ---------------------------------------------------------------------------------------------------------------- *)
Lemma print_nat_head n : exists c r, print_nat n = c :: r /\ 48 <= c <= 57.
Proof.
  pose proof (print_nat_nonempty n) as Hne. pose proof (print_nat_digits n) as Hd.
  destruct (print_nat n) as [|c r]; [congruence|]. exists c, r. split; [reflexivity | apply (all_digits_head _ _ Hd)].
Qed.

Lemma no_colon_digits s : all_digits s = true -> contains c_colon s = false.
Proof. intros H. apply digits_not_contain; [exact H | reflexivity]. Qed.
Lemma no_dot_digits s : all_digits s = true -> contains c_dot s = false.
Proof. intros H. apply digits_not_contain; [exact H | reflexivity]. Qed.

Definition sign_prefix (neg : bool) : str := if neg then [c_minus] else [].

Lemma parse_int_signed neg n : 0 <= n -> parse_int (sign_prefix neg ++ print_nat n) = Some (if neg then - n else n).
Proof.
  intros H. destruct neg; cbn [sign_prefix app].
  - apply parse_int_neg_print_nat, H.
  - apply parse_int_print_nat, H.
Qed.

Lemma head_is_minus neg n :
  match sign_prefix neg ++ print_nat n with c :: _ => c =? c_minus | [] => false end = neg.
Proof.
  destruct neg; cbn [sign_prefix app]; [reflexivity|].
  destruct (print_nat_head n) as (c & r & E & Hc). rewrite E. unfold c_minus. lia.
Qed.

Lemma no_colon_signed neg n : contains c_colon (sign_prefix neg ++ print_nat n) = false.
Proof. rewrite contains_app, (no_colon_digits _ (print_nat_digits n)). destruct neg; reflexivity. Qed.
Lemma no_dot_signed neg n : contains c_dot (sign_prefix neg ++ print_nat n) = false.
Proof. rewrite contains_app, (no_dot_digits _ (print_nat_digits n)). destruct neg; reflexivity. Qed.

Lemma split_hms neg h m x :
  split_all c_colon (sign_prefix neg ++ fmt_hms h m x) = [sign_prefix neg ++ print_nat h; print_nat m; print_nat x].
Proof.
  unfold fmt_hms. rewrite app_assoc. rewrite split_all_app by apply no_colon_signed.
  rewrite split_all_app by apply (no_colon_digits _ (print_nat_digits m)).
  rewrite split_all_none by apply (no_colon_digits _ (print_nat_digits x)). reflexivity.
Qed.

Lemma no_dot_hms neg h m x : contains c_dot (sign_prefix neg ++ fmt_hms h m x) = false.
Proof.
  unfold fmt_hms. rewrite app_assoc, contains_app, no_dot_signed. cbn [orb].
  change (c_colon :: print_nat m ++ c_colon :: print_nat x) with ([c_colon] ++ print_nat m ++ [c_colon] ++ print_nat x).
  rewrite !contains_app, (no_dot_digits _ (print_nat_digits m)), (no_dot_digits _ (print_nat_digits x)). reflexivity.
Qed.

Lemma head_of_app_hms neg h (rest : str) :
  match (sign_prefix neg ++ print_nat h) ++ rest with c :: _ => c =? c_minus | [] => false end = neg.
Proof.
  destruct neg; cbn [sign_prefix app]; [reflexivity|].
  destruct (print_nat_head h) as [c0 [r0 [E0 Hc]]]. rewrite E0. cbn [app]. unfold c_minus. lia.
Qed.

Definition signed_td (neg : bool) (t : td_v) : td_v := if neg then td_neg t else t.

Lemma abs_signed (neg : bool) (n : Z) : 0 <= n -> Z.abs (if neg then - n else n) = n.
Proof. destruct neg; lia. Qed.

(* str2timedelta on '[-]H:M:S' *)
Lemma parse_hms neg h m x : 0 <= h -> 0 <= m -> 0 <= x ->
  str2timedelta (sign_prefix neg ++ fmt_hms h m x) = Some (signed_td neg (td_make h m x 0)).
Proof.
  intros Hh Hm Hx. unfold str2timedelta.
  rewrite no_dot_hms. rewrite split_hms.
  rewrite parse_int_signed, !parse_int_print_nat by assumption. rewrite abs_signed by assumption.
  unfold fmt_hms. rewrite app_assoc, head_of_app_hms. reflexivity.
Qed.

Lemma int_of_str_d6 u : 0 <= u < 1000000 -> int_of_str (firstn 6 (d6 u ++ zeros6)) = Some u.
Proof.
  intros Hu. unfold d6, zeros6. cbn [app firstn].
  change [48 + u / 100000; 48 + u / 10000 mod 10; 48 + u / 1000 mod 10; 48 + u / 100 mod 10; 48 + u / 10 mod 10; 48 + u mod 10] with (d6 u).
  unfold int_of_str, parse_int. pose proof (d6_digits u Hu) as Dg. unfold d6 in Dg |- *.
  pose proof (all_digits_head _ _ Dg) as Hc. unfold c_minus. destruct (48 + u / 100000 =? 45) eqn:E45; [lia|].
  unfold parse_digits. rewrite Dg. f_equal. apply (digits_value_d6 u Hu).
Qed.

(* str2timedelta on '[-]H:M:S.ffffff' *)
Lemma parse_hms_us neg h m x u : 0 <= h -> 0 <= m -> 0 <= x -> 0 <= u < 1000000 ->
  str2timedelta (sign_prefix neg ++ fmt_hms_us h m x u) = Some (signed_td neg (td_make h m x u)).
Proof.
  intros Hh Hm Hx Hu. unfold str2timedelta, fmt_hms_us.
  rewrite app_assoc.
  assert (Hdot : contains c_dot ((sign_prefix neg ++ fmt_hms h m x) ++ c_dot :: d6 u) = true).
  { rewrite contains_app. cbn [contains existsb]. rewrite Z.eqb_refl. rewrite orb_true_r. reflexivity. }
  rewrite Hdot.
  rewrite split_all_app by apply no_dot_hms.
  rewrite split_all_none by apply (no_dot_digits _ (d6_digits u Hu)).
  rewrite int_of_str_d6 by exact Hu.
  rewrite split_hms.
  rewrite parse_int_signed, !parse_int_print_nat by assumption. rewrite abs_signed by assumption.
  unfold fmt_hms. rewrite (app_assoc (sign_prefix neg)), <- app_assoc, head_of_app_hms. reflexivity.
Qed.

(* ---- the round trip ---------------------------------------------------------------------------------------------------------- *)
Theorem timedelta_roundtrip t : td_norm t -> str2timedelta (td_str t) = Some t.
Proof.
  destruct t as [d s u]. unfold td_norm, td_str; cbn [td_days td_secs td_us]. intros [Hs Hu].
  unfold timedelta2str, py_floordiv, py_mod.
  destruct (d <? 0) eqn:Ed.
  - (* negative *)
    assert (Ha : 1 <= Z.abs (d * 86400 + s)) by lia.
    destruct (negb (u =? 0)) eqn:Eu.
    + assert (E1 : negb (1000000 - u =? 0) = true) by lia. rewrite E1.
      set (a := Z.abs (d * 86400 + s) - 1). assert (Hna : 0 <= a) by lia.
      destruct (hms_nonneg a Hna) as (N1 & N2 & N3).
      change ([45] ++ ?l) with (sign_prefix true ++ l).
      rewrite parse_hms_us by lia. f_equal. unfold signed_td, td_neg, td_make. rewrite td_total_of_us, hms_recompose by exact Hna.
      replace (- (a * 1000000 + (1000000 - u))) with (d * 86400000000 + s * 1000000 + u) by lia.
      apply td_of_us_norm; lia.
    + set (a := Z.abs (d * 86400 + s)). assert (Hna : 0 <= a) by lia.
      destruct (hms_nonneg a Hna) as (N1 & N2 & N3).
      change ([45] ++ ?l) with (sign_prefix true ++ l).
      rewrite parse_hms by lia. f_equal. unfold signed_td, td_neg, td_make. rewrite td_total_of_us, hms_recompose by exact Hna.
      assert (u = 0) by lia. subst u.
      replace (- (a * 1000000 + 0)) with (d * 86400000000 + s * 1000000 + 0) by lia.
      apply td_of_us_norm; lia.
  - (* non-negative *)
    set (a := d * 86400 + s). assert (Hna : 0 <= a) by lia.
    destruct (hms_nonneg a Hna) as (N1 & N2 & N3).
    destruct (negb (u =? 0)) eqn:Eu.
    + change (fmt_hms_us ?h ?m ?x ?v) with (sign_prefix false ++ fmt_hms_us h m x v).
      rewrite parse_hms_us by lia. f_equal. unfold signed_td, td_make. rewrite hms_recompose by exact Hna.
      replace (a * 1000000 + u) with (d * 86400000000 + s * 1000000 + u) by lia. apply td_of_us_norm; lia.
    + change (fmt_hms ?h ?m ?x) with (sign_prefix false ++ fmt_hms h m x).
      rewrite parse_hms by lia. f_equal. unfold signed_td, td_make. rewrite hms_recompose by exact Hna.
      assert (u = 0) by lia. subst u.
      replace (a * 1000000 + 0) with (d * 86400000000 + s * 1000000 + 0) by lia. apply td_of_us_norm; lia.
Qed.

(* with the precision rounding of TimedeltaConverter.validate in front: the text form of the validated value decodes to it *)
Theorem timedelta_validated_roundtrip p t : 0 <= p <= 6 -> td_norm t ->
  str2timedelta (td_str (validate_td p t)) = Some (validate_td p t).
Proof.
  intros Hp [Hs Hu]. apply timedelta_roundtrip. unfold td_norm, validate_td; cbn [td_secs td_us].
  split; [exact Hs | apply round_to_lt; assumption].
Qed.

(* ---- Oracle / MySQL: a time is stored as an interval; the driver hands back a timedelta --------------------------------------- *)
Lemma td_make_of_time h m s u : valid_time (mk_time h m s u) -> td_make h m s u = mk_td 0 (h * 3600 + m * 60 + s) u.
Proof.
  intros V. pose proof (valid_time_ranges _ V) as (Hh & Hm & Hs & Hu); cbn [th tmi ts tus] in *.
  unfold td_make. replace (((h * 60 + m) * 60 + s) * 1000000 + u) with (0 * 86400000000 + (h * 3600 + m * 60 + s) * 1000000 + u) by lia.
  apply td_of_us_norm; lia.
Qed.

Theorem interval_time_roundtrip t : valid_time t ->
  interval_time_sql2py (td_days (ora_time_py2sql t)) (td_secs (ora_time_py2sql t)) (td_us (ora_time_py2sql t)) = Some t.
Proof.
  destruct t as [h m s u]. intros V. pose proof (valid_time_ranges _ V) as (Hh & Hm & Hs & Hu); cbn [th tmi ts tus] in *.
  unfold ora_time_py2sql; cbn [th tmi ts tus]. rewrite (td_make_of_time _ _ _ _ V); cbn [td_days td_secs td_us].
  unfold interval_time_sql2py, py_floordiv, py_mod.
  set (a := 0 * 86400 + (h * 3600 + m * 60 + s)).
  assert (Ha : a = h * 3600 + m * 60 + s) by (unfold a; lia).
  replace (andb (0 <=? a) (a <=? 86400)) with true by lia.
  replace (a / 60 / 60) with h by (rewrite Ha; euclid).
  replace (a / 60 mod 60) with m by (rewrite Ha; euclid).
  replace (a mod 60) with s by (rewrite Ha; euclid).
  unfold time_checked. unfold valid_time in V. rewrite V. reflexivity.
Qed.

Theorem ora_bool_roundtrip b : ora_bool_sql2py (ora_bool_py2sql b) = b.
Proof. destruct b; reflexivity. Qed.
