(* C19 / C35 - several threads: the provider lock is held exactly by the one cache that is in a transaction. *)
From Coq Require Import List Bool Arith Lia.
Import ListNotations.
Require Import PonyV.Model.C19Txn PonyV.Proofs.C19Base PonyV.Proofs.C19Proofs PonyV.Proofs.C19Proofs2.

Lemma set_lock_same : forall s, set_lock (lock s) s = s.
Proof. destruct_st. reflexivity. Qed.
Lemma WF_lock_irrel : forall L s, WF s -> (mine s = true -> L = true) -> WF (set_lock L s).
Proof. intros L. destruct_st. intros [[? ? ? ? ? ? ? ? ? ? ? ? ?] ? ?] ?. norm. wf_tac. Qed.
Lemma Ext_set_sess_other : forall sh s, other (set_sess sh s) = other s.
Proof. reflexivity. Qed.

(* one atomic action of one thread *)
Lemma tstep_spec : forall oracle a s, WF s ->
  match tstep oracle a s with
  | (Blocked, _) => other s = true
  | (_, s') => WF s' /\ other s' = other s /\ Suffix (sess s) (other s) (trace s) (trace s')
  end.
Proof.
  intros oracle a s Hwf. destruct a as [o | exc sh']; cbn [tstep].
  - pose proof (run_op_spec oracle o s Hwf) as H. unfold Post in H.
    destruct (run_op oracle o s) as [r s']. destruct r; auto; destruct H as (? & Hx); splits; auto; apply Hx.
  - assert (Hr : (if exc then Err EBody else Ok) <> Blocked) by (destruct exc; discriminate).
    pose proof (session_exit_spec oracle _ s Hwf Hr) as H.
    destruct (session_exit oracle (if exc then Err EBody else Ok) s) as [r s']. destruct r; auto.
    all: destruct H as (Hwf' & Hx & Hreg'); splits; [apply WF_set_sess; auto | rewrite Ext_set_sess_other; apply Hx | apply Hx].
Qed.

(* the global invariant *)
Definition GInv (g : gstate) : Prop :=
  (forall i, WF (set_lock (fst g) (snd g i))) /\
  (fst g = true -> exists i, mine (snd g i) = true) /\
  (forall i j, mine (snd g i) = true -> mine (snd g j) = true -> i = j).

Lemma WF_mine_lock : forall s, WF s -> mine s = true -> lock s = true.
Proof. intros s Hwf. apply Hwf. Qed.
Lemma lock_other_mine : forall s, WF s -> lock s = other s || mine s.
Proof.
  intros s Hwf. unfold other. pose proof (WF_mine_lock s Hwf) as H.
  destruct (lock s), (mine s); auto; symmetry; auto.
Qed.

Lemma gstep_inv : forall orc g ia, GInv g -> GInv (gstep orc g ia).
Proof.
  intros orc [L ts] [i a] (Hwf & Hex & Huniq). cbn [fst snd] in *. unfold gstep.
  pose proof (tstep_spec (orc i) a _ (Hwf i)) as H.
  destruct (tstep (orc i) a (set_lock L (ts i))) as [r s']. 
  assert (Hmi : mine (set_lock L (ts i)) = mine (ts i)) by reflexivity.
  assert (Hoth : other (set_lock L (ts i)) = L && negb (mine (ts i))) by reflexivity.
  assert (Hgoal : r <> Blocked -> WF s' /\ other s' = L && negb (mine (ts i)) ->
                  GInv (lock s', fun j => if j =? i then s' else ts j)).
  { intros _ (Hwf' & Ho'). rewrite (lock_other_mine s' Hwf').
    assert (Hother_j : forall j, j <> i -> mine (ts j) = true -> L = true /\ mine (ts i) = false /\ other s' = true).
    { intros j Hji Hmj.
      assert (HL : L = true) by (apply (WF_mine_lock _ (Hwf j)); exact Hmj).
      assert (Hmi' : mine (ts i) = false).
      { destruct (mine (ts i)) eqn:E; auto. exfalso. apply Hji. apply Huniq; auto. }
      rewrite Ho', HL, Hmi'. auto. }
    unfold GInv. cbn [fst snd]. splits.
    - intros j. destruct (j =? i) eqn:Eji.
      + rewrite <- (lock_other_mine s' Hwf'). rewrite set_lock_same. exact Hwf'.
      + apply Nat.eqb_neq in Eji.
        change (set_lock (other s' || mine s') (ts j)) with (set_lock (other s' || mine s') (set_lock L (ts j))).
        apply WF_lock_irrel; [apply Hwf|].
        intros Hmj. destruct (Hother_j j Eji Hmj) as (_ & _ & ->). reflexivity.
    - intros Hl. destruct (mine s') eqn:Ems.
      + exists i. rewrite Nat.eqb_refl. exact Ems.
      + rewrite Bool.orb_false_r in Hl. rewrite Ho' in Hl. apply andb_prop in Hl. destruct Hl as (HL & Hnm).
        destruct (Hex HL) as (k & Hk).
        assert (Hki : k <> i) by (intros ->; rewrite Hk in Hnm; discriminate).
        exists k. apply Nat.eqb_neq in Hki. rewrite Hki. exact Hk.
    - intros j k Hj Hk.
      destruct (j =? i) eqn:Eji; destruct (k =? i) eqn:Eki.
      + apply Nat.eqb_eq in Eji, Eki. congruence.
      + apply Nat.eqb_neq in Eki. destruct (Hother_j k Eki Hk) as (_ & _ & Ho).
        unfold other in Ho. rewrite Hj in Ho. rewrite Bool.andb_false_r in Ho. discriminate.
      + apply Nat.eqb_neq in Eji. destruct (Hother_j j Eji Hj) as (_ & _ & Ho).
        unfold other in Ho. rewrite Hk in Ho. rewrite Bool.andb_false_r in Ho. discriminate.
      + apply Huniq; auto. }
  destruct r.
  - apply Hgoal; [discriminate|]. destruct H as (? & ? & _). split; auto; congruence.
  - apply Hgoal; [discriminate|]. destruct H as (? & ? & _). split; auto; congruence.
  - unfold GInv. splits; auto.
Qed.

Lemma grun_inv : forall orc l g, GInv g -> GInv (grun orc g l).
Proof.
  intros orc l. induction l as [|ia l IH]; intros g Hg; cbn; auto.
  apply IH. apply gstep_inv. exact Hg.
Qed.

Lemma WF_st_empty : forall sh, WF (set_sess sh st_empty).
Proof.
  intros sh. constructor; [constructor|..]; cbn; intros; try discriminate; try reflexivity; try lia.
  constructor; try discriminate; try (intros; lia); try constructor. intros ? [].
Qed.
Lemma GInv_init : forall sh, GInv (g_init sh).
Proof.
  intros sh. unfold GInv, g_init. cbn [fst snd]. splits.
  - intros i. apply WF_lock_irrel; [apply WF_st_empty | discriminate].
  - discriminate.
  - cbn. discriminate.
Qed.

(* consequences of the invariant, in the vocabulary of the properties *)
Lemma ginv_lock_iff : forall g, GInv g ->
  (fst g = true <-> exists i, k_intxn (snd g i) = true /\ k_imm (snd g i) = true /\ forall j, k_intxn (snd g j) = true -> j = i).
Proof.
  intros [L ts] (Hwf & Hex & Huniq). cbn [fst snd] in *.
  assert (Hmi : forall i, mine (ts i) = k_intxn (ts i)) by (intros i; apply (w_mine _ (wf_w _ (Hwf i)))).
  split.
  - intros HL. destruct (Hex HL) as (i & Hi). exists i. rewrite <- Hmi. splits; auto.
    + apply (w_intxn _ (wf_w _ (Hwf i))). change (k_intxn (ts i) = true). rewrite <- Hmi. exact Hi.
    + intros j Hj. apply Huniq; auto. rewrite Hmi. exact Hj.
  - intros (i & Hi & _). apply (WF_mine_lock _ (Hwf i)). change (mine (ts i) = true). rewrite Hmi. exact Hi.
Qed.

(* C35: a thread that holds loaded for_update objects is in a transaction and holds the lock; nobody else is in a transaction *)
Lemma ginv_forupd_mutex : forall g i, GInv g -> 0 < k_forupd (snd g i) ->
  fst g = true /\ k_intxn (snd g i) = true /\ k_imm (snd g i) = true /\ forall j, j <> i -> k_intxn (snd g j) = false /\ mine (snd g j) = false.
Proof.
  intros [L ts] i (Hwf & Hex & Huniq) Hf. cbn [fst snd] in *.
  assert (Hmi : forall k, mine (ts k) = k_intxn (ts k)) by (intros k; apply (w_mine _ (wf_w _ (Hwf k)))).
  assert (Hi : k_intxn (ts i) = true) by (apply (wf_forupd _ (Hwf i)); exact Hf).
  splits; auto.
  - apply (WF_mine_lock _ (Hwf i)). change (mine (ts i) = true). rewrite Hmi. exact Hi.
  - apply (w_intxn _ (wf_w _ (Hwf i))). exact Hi.
  - intros j Hji. rewrite <- Hmi. destruct (mine (ts j)) eqn:E; auto. exfalso. apply Hji. apply Huniq; auto. rewrite Hmi. exact Hi.
Qed.

(* while another thread holds the lock, a step of this thread issues no write and never has the lock *)
Lemma good_ev_other : forall sh e, good_ev sh true e = true -> is_write e = false /\ e_mine e = false.
Proof.
  intros sh [c i ok lk tx mn pd] H. unfold good_ev, is_write, is_stmt in *. cbn in *.
  destruct c as [| |q|q| | |]; try destruct q; destruct sh, tx, lk, mn; cbn in *;
    try destruct (pd =? 0); cbn in *; try discriminate; auto.
Qed.

(* progress: when the lock holder's session ends (normally or with an exception, whatever faults occur), the lock is free *)
Lemma exit_frees : forall orc g i exc sh', GInv g -> mine (snd g i) = true ->
  fst (gstep orc g (i, AExit exc sh')) = false /\ k_reg (snd (gstep orc g (i, AExit exc sh')) i) = false.
Proof.
  intros orc [L ts] i exc sh' (Hwf & Hex & Huniq) Hm. cbn [fst snd] in *. unfold gstep, tstep.
  assert (Hr : (if exc then Err EBody else Ok) <> Blocked) by (destruct exc; discriminate).
  pose proof (session_exit_spec (orc i) _ _ (Hwf i) Hr) as H.
  assert (Hoth : other (set_lock L (ts i)) = false).
  { unfold other. change (mine (set_lock L (ts i))) with (mine (ts i)). rewrite Hm. apply Bool.andb_false_r. }
  destruct (session_exit (orc i) (if exc then Err EBody else Ok) (set_lock L (ts i))) as [r s']. destruct r.
  3: congruence.
  all: destruct H as (Hwf' & Hx & Hreg'); cbn [fst snd]; rewrite Nat.eqb_refl;
       destruct (idle_facts s' Hwf' Hreg') as (_ & _ & _ & _ & _ & _ & Hl);
       split; [change (lock (set_sess sh' s')) with (lock s'); rewrite Hl, (Ext_other _ _ Hx); exact Hoth | exact Hreg'].
Qed.
