(* C03 - round trip on the model for the dual family of nesting depth 3: an `and` of clauses, a clause an `or` of
   (literal | `and`-group of literals).  Built on C03Roundtrip.v (the DNF run inside every clause), C03RoundtripCnf.v and
   the general lemmas of C03Roundtrip3.v / C03Roundtrip3Run.v. *)
From Coq Require Import List Bool Arith Lia Sorted.
Import ListNotations.
Require Import PonyV.Model.C03Bexp PonyV.Model.C03Decomp PonyV.Model.C03Family PonyV.Model.C03Family3 PonyV.Proofs.C03Checker
               PonyV.Proofs.C03Roundtrip PonyV.Proofs.C03RoundtripCnf PonyV.Proofs.C03Roundtrip3 PonyV.Proofs.C03Roundtrip3Run.

(* ------------------------------------------------------------------ code shape *)
Lemma elen_dnf : forall ds, wf_alts ds -> elen true (dnf ds) = total_lits ds.
Proof.
  intros ds [Hne Hall]. unfold dnf. destruct ds as [|d [|d2 r]]; [congruence| |].
  - inversion Hall; subst. cbn [map mk_or_of total_lits]. rewrite elen_mk_and by assumption. lia.
  - set (es := map mk_and (d :: d2 :: r)). assert (Hes : mk_or_of es = Or es) by reflexivity. rewrite Hes, elen_Or.
    unfold es. apply elen_list_alts. assumption.
Qed.

Lemma wf_alt3_alts : forall ds, wf_alt3 ds -> wf_alts ds.
Proof. intros ds [H1 [H2 _]]. split; assumption. Qed.

Lemma elen_list_cls3 : forall cls, Forall wf_alt3 cls -> elen_list true (map mk_cl3 cls) = tot3 cls.
Proof.
  induction cls as [|ds r IH]; intro H; [reflexivity|].
  inversion H as [|x0 l0 Hds Hr]; subst x0 l0. pose proof (wf_alt3_alts ds Hds) as Hw.
  destruct r as [|ds2 r2].
  - cbn [map elen_list tot3]. unfold mk_cl3. fold (dnf ds). rewrite elen_dnf by assumption. lia.
  - change (map mk_cl3 (ds :: ds2 :: r2)) with (mk_cl3 ds :: mk_cl3 ds2 :: map mk_cl3 r2).
    rewrite elen_list_cons2. unfold mk_cl3 at 1. fold (dnf ds). rewrite elen_dnf by assumption.
    change (mk_cl3 ds2 :: map mk_cl3 r2) with (map mk_cl3 (ds2 :: r2)). rewrite (IH Hr). reflexivity.
Qed.

Lemma comp_and_cls3 : forall cls p, Forall wf_alt3 cls ->
  comp_and true TTop TTop false (map mk_cl3 cls) p = cnf3_code cls p.
Proof.
  induction cls as [|ds r IH]; intros p H; [reflexivity|].
  inversion H as [|x0 l0 Hds Hr]; subst x0 l0. pose proof (wf_alt3_alts ds Hds) as Hw.
  destruct r as [|ds2 r2].
  - cbn [map comp_and cnf3_code]. unfold mk_cl3. fold (dnf ds). rewrite comp_dnf by assumption. rewrite app_nil_r. reflexivity.
  - change (map mk_cl3 (ds :: ds2 :: r2)) with (mk_cl3 ds :: mk_cl3 ds2 :: map mk_cl3 r2).
    rewrite comp_and_cons2. unfold mk_cl3 at 1 2. fold (dnf ds). rewrite comp_dnf, elen_dnf by assumption.
    change (mk_cl3 ds2 :: map mk_cl3 r2) with (map mk_cl3 (ds2 :: r2)). rewrite (IH _ Hr). reflexivity.
Qed.

Lemma comp_cnf3 : forall cls p, wf3 cls -> comp true (cnf3 cls) p TTop false = cnf3_code cls p.
Proof.
  intros cls p [Hlen Hall]. destruct cls as [|ds [|ds2 r]]; cbn [length] in Hlen; try lia.
  unfold cnf3. set (es := map mk_cl3 (ds :: ds2 :: r)).
  assert (Hes : mk_and_of es = And es) by reflexivity. rewrite Hes, comp_And. unfold es. apply comp_and_cls3. assumption.
Qed.

Lemma length_cnf3_code : forall cls p, length (cnf3_code cls p) = tot3 cls.
Proof. induction cls as [|ds r IH]; intro p; [reflexivity|]. cbn [cnf3_code tot3]. rewrite app_length, length_dnf_code, IH. reflexivity. Qed.

Lemma no_fwd_cnf3_code : forall cls p, no_fwd (cnf3_code cls p).
Proof. induction cls as [|ds r IH]; intro p; [intros t H; exact H|]. cbn [cnf3_code]. apply no_fwd_app; [apply no_fwd_dnf_code | apply IH]. Qed.

Lemma no_copy_cnf3_code : forall cls p, ~ In ICopy (cnf3_code cls p).
Proof.
  induction cls as [|ds r IH]; intros p H; [exact H|].
  cbn [cnf3_code] in H. apply in_app_or in H. destruct H as [H|H]; [exact (no_copy_dnf_code _ _ _ H) | exact (IH _ H)].
Qed.

Definition streamc3 (cls : list (list (list lit))) : list instr := cnf3_code cls (pos_of 0) ++ [ILoadElt; IYield].

Lemma compile_cnf3 : forall cls, wf3 cls -> compile PFilter (cnf3 cls) = streamc3 cls.
Proof.
  intros cls H. unfold compile, streamc3. rewrite comp_cnf3 by assumption.
  apply thread_no_fwd. apply no_fwd_app; [apply no_fwd_cnf3_code|].
  intros t [Hin|[Hin|[]]]; discriminate.
Qed.

Lemma ce_from_cnf3_code : forall cls p i acc, cls <> [] -> Forall wf_alt3 cls ->
  ce_from (cnf3_code cls p) i acc = pos_of (i + tot3 cls).
Proof.
  induction cls as [|ds r IH]; intros p i acc Hne Hall; [congruence|].
  inversion Hall as [|x0 l0 Hds Hr]; subst x0 l0. pose proof (wf_alt3_alts ds Hds) as Hw.
  cbn [cnf3_code tot3]. rewrite ce_from_app, length_dnf_code. rewrite (ce_from_dnf_code ds _ _ i acc Hw).
  destruct r as [|ds2 r2].
  - cbn [cnf3_code ce_from tot3]. f_equal. lia.
  - rewrite IH by (try discriminate; assumption). f_equal. lia.
Qed.

(* ------------------------------------------------------------------ the jumps of the stream: (position, target, is-or) *)
Fixpoint altJ (ls : list lit) (na ec : nat) (i : nat) : list jentry :=
  match ls with
  | [] => []
  | l :: r => match r with
              | [] => [(pos_of (i + length (lval l)), ec, true)]
              | _ :: _ => (pos_of (i + length (lval l)), na, false) :: altJ r na ec (i + lw l)
              end
  end.

Fixpoint dnfJ (ds : list (list lit)) (i ec : nat) : list jentry :=
  match ds with
  | [] => []
  | d :: r => match r with
              | [] => []
              | _ :: _ => altJ d (pos_of (i + lws d)) ec i ++ dnfJ r (i + lws d) ec
              end
  end.

Fixpoint cnf3J (cls : list (list (list lit))) (i : nat) : list jentry :=
  match cls with [] => [] | ds :: r => dnfJ ds i (pos_of (i + total_lits ds)) ++ cnf3J r (i + total_lits ds) end.

Lemma altJ_spec : forall ls na ec i j t, seg_jump (alt_fwd ls na ec) i j t <-> has_entry (altJ ls na ec i) j t.
Proof.
  induction ls as [|l r IH]; intros na ec i j t; cbn [alt_fwd altJ].
  - split; [intro H; exfalso; exact (seg_jump_nil _ _ _ H) | intros [b []]].
  - destruct r as [|y s].
    + change (lval l ++ [ljmp l true (TAt ec)]) with (lval l ++ ljmp l true (TAt ec) :: []). rewrite seg_jump_lit. unfold has_entry. split.
      * intros [[H1 H2]|H]; [|exfalso; exact (seg_jump_nil _ _ _ H)]. injection H2 as ->. exists true. left. rewrite H1. reflexivity.
      * intros [b [H|[]]]. injection H as <- <- _. left. auto.
    + rewrite seg_jump_lit, IH. unfold has_entry. cbn [In]. split.
      * intros [[H1 H2]|[b H]]; [exists false; left; injection H2 as ->; rewrite H1; reflexivity | exists b; right; exact H].
      * intros [b [H|H]]; [left; injection H as <- <- _; auto | right; exists b; exact H].
Qed.

Lemma seg_jump_and_back : forall ls i j t, ~ seg_jump (and_back ls) i j t.
Proof.
  induction ls as [|l r IH]; intros i j t H; cbn [and_back] in H; [exact (seg_jump_nil _ _ _ H)|].
  apply seg_jump_lit in H. destruct H as [[_ H]|H]; [discriminate H | exact (IH _ _ _ H)].
Qed.

Lemma dnfJ_spec : forall ds i ec j t, seg_jump (dnf_code ds (pos_of i) ec) i j t <-> has_entry (dnfJ ds i ec) j t.
Proof.
  induction ds as [|d r IH]; intros i ec j t; cbn [dnf_code dnfJ].
  - split; [intro H; exfalso; exact (seg_jump_nil _ _ _ H) | intros [b []]].
  - destruct r as [|d2 r2].
    + split; [intro H; exfalso; exact (seg_jump_and_back _ _ _ _ H) | intros [b []]].
    + rewrite seg_jump_app, has_entry_app, length_alt_fwd.
      replace (pos_of i + lws d) with (pos_of (i + lws d)) by (unfold pos_of; lia).
      rewrite altJ_spec, IH. reflexivity.
Qed.

Lemma cnf3J_spec : forall cls i j t, seg_jump (cnf3_code cls (pos_of i)) i j t <-> has_entry (cnf3J cls i) j t.
Proof.
  induction cls as [|ds r IH]; intros i j t; cbn [cnf3_code cnf3J].
  - split; [intro H; exfalso; exact (seg_jump_nil _ _ _ H) | intros [b []]].
  - rewrite seg_jump_app, has_entry_app, length_dnf_code.
    replace (pos_of i + total_lits ds) with (pos_of (i + total_lits ds)) by (unfold pos_of; lia).
    rewrite dnfJ_spec, IH. reflexivity.
Qed.

(* ---- shape and invariant *)
Lemma altJ_in : forall ls na ec i j t b, In (j, t, b) (altJ ls na ec i) ->
  pos_of i <= j /\ j < pos_of (i + lws ls) /\ (b = true -> t = ec) /\ (b = false -> t = na).
Proof.
  induction ls as [|l r IH]; intros na ec i j t b H; [destruct H|].
  cbn [altJ] in H. destruct r as [|y s].
  - destruct H as [H|[]]. inversion H; subst. cbn [lws].
    split; [unfold pos_of; lia|]. split; [unfold pos_of, lw; lia|]. split; intro Hb; [reflexivity | discriminate Hb].
  - change (lws (l :: y :: s)) with (lw l + lws (y :: s)). destruct H as [H|H].
    + inversion H; subst. split; [unfold pos_of; lia|]. split; [unfold pos_of, lw; lia|]. split; intro Hb; [discriminate Hb | reflexivity].
    + apply IH in H. destruct H as [H1 [H2 [H3 H4]]].
      split; [unfold pos_of, lw in *; lia|]. split; [unfold pos_of, lw in *; lia|]. split; assumption.
Qed.

Lemma dnfJ_in : forall ds i ec j t b, In (j, t, b) (dnfJ ds i ec) ->
  pos_of i <= j /\ j < pos_of (i + total_lits ds) /\ (b = true -> t = ec).
Proof.
  induction ds as [|d r IH]; intros i ec j t b H; [destruct H|].
  cbn [dnfJ] in H. destruct r as [|d2 r2]; [destruct H|].
  change (total_lits (d :: d2 :: r2)) with (lws d + total_lits (d2 :: r2)).
  apply in_app_or in H. destruct H as [H|H].
  - apply altJ_in in H. destruct H as [H1 [H2 [H3 _]]]. split; [exact H1|]. split; [unfold pos_of in *; lia | exact H3].
  - apply IH in H. destruct H as [H1 [H2 H3]]. split; [unfold pos_of in *; lia|]. split; [unfold pos_of in *; lia | exact H3].
Qed.

Lemma inv_altJ : forall ls na ec i e, pos_of (i + lws ls) <= na -> pos_of (i + lws ls) <= e -> na <= ec ->
  inv (altJ ls na ec i) (pos_of i) e ec.
Proof.
  induction ls as [|l r IH]; intros na ec i e Hna He Hec; [apply inv_nil|].
  cbn [altJ]. destruct r as [|y s].
  - cbn [lws] in *. apply (inv_cons _ _ _ _ _ (pos_of (i + lw l))); try (unfold pos_of, lw in *; lia).
    apply inv_nil.
  - change (lws (l :: y :: s)) with (lw l + lws (y :: s)) in *.
    apply (inv_cons _ _ _ _ _ (pos_of (i + lw l))); try (unfold pos_of, lw in *; lia); try (intros Hb; discriminate Hb).
    apply IH; try assumption; rewrite <- Nat.add_assoc; assumption.
Qed.

Lemma inv_dnfJ_local : forall ds i ec e, pos_of (i + total_lits ds) <= ec -> pos_of (i + total_lits ds) <= e ->
  inv (dnfJ ds i ec) (pos_of i) e ec.
Proof.
  induction ds as [|d r IH]; intros i ec e Hec He; [apply inv_nil|].
  cbn [dnfJ]. destruct r as [|d2 r2]; [apply inv_nil|].
  change (total_lits (d :: d2 :: r2)) with (lws d + total_lits (d2 :: r2)) in *.
  apply (inv_app _ _ _ (pos_of (i + lws d))).
  - apply inv_altJ; unfold pos_of in *; lia.
  - apply IH; rewrite <- Nat.add_assoc; assumption.
  - unfold pos_of; lia.
  - unfold pos_of in *; lia.
Qed.

(* a clause seen from outside: its or-jumps all aim at its end, which lies inside its own range *)
Lemma inv_dnfJ : forall ds i B, pos_of (i + total_lits ds) <= B ->
  inv (dnfJ ds i (pos_of (i + total_lits ds))) (pos_of i) (pos_of (i + total_lits ds)) B.
Proof.
  intros ds i B HB. destruct (inv_dnfJ_local ds i (pos_of (i + total_lits ds)) (pos_of (i + total_lits ds)) (le_n _) (le_n _)) as [R [_ U]].
  split; [|split].
  - intros j t b H. destruct (R _ _ _ H) as [H1 [H2 [H3 H4]]]. lia.
  - intros j t H _. apply dnfJ_in in H. destruct H as [_ [_ H3]]. rewrite (H3 eq_refl). split; [apply le_n|].
    intros o t2 Ho _ _. apply dnfJ_in in Ho. destruct Ho as [_ [_ Ho3]]. apply Ho3. reflexivity.
  - exact U.
Qed.

Lemma inv_cnf3J : forall cls i B, pos_of (i + tot3 cls) <= B -> inv (cnf3J cls i) (pos_of i) (pos_of (i + tot3 cls)) B.
Proof.
  induction cls as [|ds r IH]; intros i B HB; [apply inv_nil|].
  cbn [cnf3J tot3] in *. apply (inv_app _ _ _ (pos_of (i + total_lits ds))).
  - apply inv_dnfJ. unfold pos_of in *. lia.
  - replace (i + (total_lits ds + tot3 r)) with (i + total_lits ds + tot3 r) by lia. apply IH. rewrite <- Nat.add_assoc. exact HB.
  - unfold pos_of; lia.
  - unfold pos_of; lia.
Qed.

(* ---- every and-jump has the last jump of its own disjunct (an or-jump to the end of the clause) in between *)
Lemma altJ_has_or : forall ls na ec i, ls <> [] ->
  exists o, In (o, ec, true) (altJ ls na ec i) /\ pos_of i <= o /\ o < pos_of (i + lws ls).
Proof.
  induction ls as [|l r IH]; intros na ec i Hne; [congruence|].
  cbn [altJ]. destruct r as [|y s].
  - exists (pos_of (i + length (lval l))). split; [left; reflexivity|]. cbn [lws]. unfold pos_of, lw. lia.
  - destruct (IH na ec (i + lw l) ltac:(discriminate)) as [o [Ho [H1 H2]]].
    exists o. split; [right; exact Ho|]. change (lws (l :: y :: s)) with (lw l + lws (y :: s)). unfold pos_of in *. lia.
Qed.

Lemma altJ_blocked : forall ls na ec i, na = pos_of (i + lws ls) ->
  forall j t, In (j, t, false) (altJ ls na ec i) -> t = na /\ exists o, In (o, ec, true) (altJ ls na ec i) /\ j < o /\ o < na.
Proof.
  induction ls as [|l r IH]; intros na ec i Hna j t H; [destruct H|].
  cbn [altJ] in *. destruct r as [|y s].
  - destruct H as [H|[]]. discriminate H.
  - change (lws (l :: y :: s)) with (lw l + lws (y :: s)) in Hna. destruct H as [H|H].
    + inversion H; subst j t. split; [reflexivity|].
      destruct (altJ_has_or (y :: s) na ec (i + lw l) ltac:(discriminate)) as [o [Ho [H1 H2]]].
      exists o. split; [right; exact Ho|]. rewrite Hna. unfold pos_of, lw in *. lia.
    + assert (Hna' : na = pos_of (i + lw l + lws (y :: s))) by (rewrite Hna; f_equal; lia).
      destruct (IH na ec (i + lw l) Hna' j t H) as [Ht [o [Ho Hb]]].
      split; [exact Ht|]. exists o. split; [right; exact Ho | exact Hb].
Qed.

Lemma dnfJ_blocked : forall ds i ec, Forall (fun d => d <> []) ds -> pos_of (i + total_lits ds) <= ec ->
  forall j t, In (j, t, false) (dnfJ ds i ec) -> exists o, In (o, ec, true) (dnfJ ds i ec) /\ t < ec /\ j < o /\ o < t.
Proof.
  induction ds as [|d r IH]; intros i ec Hall Hec j t H; [destruct H|].
  inversion Hall as [|x0 l0 Hd Hr]; subst x0 l0.
  cbn [dnfJ] in *. destruct r as [|d2 r2]; [destruct H|].
  change (total_lits (d :: d2 :: r2)) with (lws d + total_lits (d2 :: r2)) in Hec.
  assert (Hpos : 2 <= total_lits (d2 :: r2)) by (apply total_lits_pos; split; [discriminate | exact Hr]).
  apply in_app_or in H. destruct H as [H|H].
  - destruct (altJ_blocked d _ ec i eq_refl j t H) as [Ht [o [Ho [H1 H2]]]].
    exists o. split; [apply in_or_app; left; exact Ho|]. subst t. unfold pos_of in *. lia.
  - assert (Hec' : pos_of (i + lws d + total_lits (d2 :: r2)) <= ec) by (rewrite <- Nat.add_assoc; exact Hec).
    destruct (IH (i + lws d) ec Hr Hec' j t H) as [o [Ho Hx]].
    exists o. split; [apply in_or_app; right; exact Ho | exact Hx].
Qed.

Lemma cnf3J_blocked : forall cls i, Forall wf_alt3 cls ->
  forall j t, In (j, t, false) (cnf3J cls i) -> exists o t2, In (o, t2, true) (cnf3J cls i) /\ t < t2 /\ j < o /\ o < t.
Proof.
  induction cls as [|ds r IH]; intros i Hall j t H; [destruct H|].
  inversion Hall as [|x0 l0 Hds Hr]; subst x0 l0. destruct (wf_alt3_parts ds Hds) as [_ Hd].
  cbn [cnf3J] in *. apply in_app_or in H. destruct H as [H|H].
  - destruct (dnfJ_blocked ds i _ Hd (le_n _) j t H) as [o [Ho Hx]].
    exists o, (pos_of (i + total_lits ds)). split; [apply in_or_app; left; exact Ho | exact Hx].
  - destruct (IH (i + total_lits ds) Hr j t H) as [o [t2 [Ho Hx]]].
    exists o, t2. split; [apply in_or_app; right; exact Ho | exact Hx].
Qed.

(* ---- or_jumps of the stream *)
Lemma jump_at_streamc3 : forall cls j t, jump_at (streamc3 cls) j t <-> has_entry (cnf3J cls 0) j t.
Proof.
  intros cls j t. unfold streamc3.
  change (jump_at (cnf3_code cls (pos_of 0) ++ [ILoadElt; IYield]) j t)
    with (seg_jump (cnf3_code cls (pos_of 0) ++ [ILoadElt; IYield]) 0 j t).
  rewrite seg_jump_app, cnf3J_spec.
  split; [|intro H; left; exact H]. intros [H|H]; [exact H|].
  destruct H as [k [ins [_ [H2 H3]]]]. destruct k as [|[|k]]; cbn in H2; [injection H2 as <-; discriminate H3 | injection H2 as <-; discriminate H3 | destruct k; discriminate H2].
Qed.

Lemma or_jumps_streamc3 : forall cls, wf3 cls ->
  forall x, In x (or_jumps (streamc3 cls)) <-> exists t, In (x, t, true) (cnf3J cls 0).
Proof.
  intros cls [Hlen Hall] x. set (B := pos_of (tot3 cls)). set (J := cnf3J cls 0).
  assert (Hne : cls <> []) by (intro; subst; cbn in Hlen; lia).
  assert (Hinv : inv J (pos_of 0) B B) by (apply (inv_cnf3J cls 0 B); apply le_n).
  destruct Hinv as [R [L U]].
  rewrite <- in_or_set. apply (or_jumps_classified (streamc3 cls) (or_set J) (tot3 cls)).
  - unfold streamc3. rewrite conditions_end_from, ce_from_app, ce_from_cnf3_code by assumption. reflexivity.
  - intros j t Hj. apply jump_at_streamc3 in Hj. destruct Hj as [b Hb]. destruct (R _ _ _ Hb) as [_ [_ [H1 H2]]]. split; assumption.
  - intros j t o t2 Hj HjS Ho HoS Hlt [Hjo Hot].
    apply in_or_set in HjS. destruct HjS as [t' Hjt]. apply jump_at_streamc3 in Hj. destruct Hj as [b Hb].
    destruct (U _ _ _ _ _ Hb Hjt) as [E1 E2]. subst t' b.
    apply in_or_set in HoS. destruct HoS as [t2' Hot2]. apply jump_at_streamc3 in Ho. destruct Ho as [b2 Hb2].
    destruct (U _ _ _ _ _ Hb2 Hot2) as [E1 E2]. subst t2' b2.
    destruct (Nat.eq_dec t B) as [E|E].
    + destruct (R _ _ _ Hb2) as [_ [_ [_ H]]]. lia.
    + destruct (L _ _ Hb E) as [_ Hloc]. specialize (Hloc o t2 Hb2 Hjo Hot). lia.
  - intros j t Hj Hn. apply jump_at_streamc3 in Hj. destruct Hj as [b Hb]. destruct b.
    + exfalso. apply Hn. apply in_or_set. exists t. exact Hb.
    + destruct (cnf3J_blocked cls 0 Hall j t Hb) as [o [t2 [Ho Hx]]].
      exists o, t2. split; [apply jump_at_streamc3; exists true; exact Ho|]. split; [apply in_or_set; exists t2; exact Ho | exact Hx].
  - intros j Hj. apply in_or_set in Hj. destruct Hj as [t Ht]. exists t. apply jump_at_streamc3. exists true. exact Ht.
Qed.

(* ------------------------------------------------------------------ what the run needs from or_jumps, per disjunct *)
Lemma alt_fwd_cons2 : forall l y s na ec, alt_fwd (l :: y :: s) na ec = lval l ++ ljmp l false (TAt na) :: alt_fwd (y :: s) na ec.
Proof. reflexivity. Qed.
Lemma altJ_cons2 : forall l y s na ec i, altJ (l :: y :: s) na ec i = (pos_of (i + length (lval l)), na, false) :: altJ (y :: s) na ec (i + lw l).
Proof. reflexivity. Qed.

Lemma alt_fwd_nonlast_false : forall orj ls na ec i, orj_ok orj (altJ ls na ec i) -> nojump_ok orj (alt_fwd ls na ec) i ->
  forall k, k + 1 < lws ls -> existsb (Nat.eqb (pos_of (i + k))) orj = false.
Proof.
  intros orj. induction ls as [|l r IH]; intros na ec i Hj Hn k Hk; [cbn [lws] in Hk; lia|].
  destruct (Nat.lt_ge_cases k (length (lval l))) as [Hlt|Hge].
  - destruct (nth_error (lval l) k) as [ins|] eqn:E; [|apply nth_error_None in E; lia].
    apply (Hn k ins).
    + destruct r as [|y s]; [cbn [alt_fwd] | rewrite alt_fwd_cons2]; rewrite nth_error_app1 by exact Hlt; exact E.
    + apply nth_error_In in E. destruct (lval_facts l ins E) as [Ht _]. exact Ht.
  - destruct r as [|y s].
    + cbn [lws] in Hk. unfold lw in Hk. lia.
    + change (lws (l :: y :: s)) with (lw l + lws (y :: s)) in Hk.
      rewrite altJ_cons2 in Hj. rewrite alt_fwd_cons2 in Hn.
      destruct (Nat.eq_dec k (length (lval l))) as [->|Hne].
      * apply (Hj _ na false). left. reflexivity.
      * change (lval l ++ ljmp l false (TAt na) :: alt_fwd (y :: s) na ec)
          with (lval l ++ [ljmp l false (TAt na)] ++ alt_fwd (y :: s) na ec) in Hn.
        rewrite app_assoc in Hn. apply nojump_ok_app in Hn. destruct Hn as [_ Hn2]. rewrite app_length in Hn2. cbn [length] in Hn2.
        replace (i + k) with (i + lw l + (k - lw l)) by (unfold lw in *; lia).
        apply (IH na ec (i + lw l)).
        -- intros j t b Hin. apply (Hj j t b). right. exact Hin.
        -- exact Hn2.
        -- unfold lw in *. lia.
Qed.

Lemma altJ_mem_last : forall ls0 l na ec i, In (pos_of (i + lws ls0 + length (lval l)), ec, true) (altJ (ls0 ++ [l]) na ec i).
Proof.
  induction ls0 as [|x r IH]; intros l na ec i.
  - cbn [app lws altJ]. left. rewrite Nat.add_0_r. reflexivity.
  - cbn [app lws altJ]. destruct (r ++ [l]) eqn:E; [destruct r; discriminate|]. rewrite <- E.
    right. replace (i + (lw x + lws r)) with (i + lw x + lws r) by lia. apply IH.
Qed.

Lemma chain_code_nth : forall c tg pre l post,
  nth_error (chain_code c tg (pre ++ l :: post)) (lws pre + length (lval l)) = Some (ljmp l c tg).
Proof.
  induction pre as [|x r IH]; intros l post.
  - cbn [app lws chain_code]. rewrite nth_error_app2 by lia. replace (0 + length (lval l) - length (lval l)) with 0 by lia. reflexivity.
  - cbn [app lws chain_code]. rewrite nth_error_app2 by (unfold lw; lia).
    replace (lw x + lws r + length (lval l) - length (lval x)) with (S (lws r + length (lval l))) by (unfold lw; lia).
    cbn [nth_error]. apply IH.
Qed.

(* ------------------------------------------------------------------ the disjuncts of a clause but the last *)
Fixpoint disj_code (ds : list (list lit)) (p ec : nat) : list instr :=
  match ds with [] => [] | d :: r => alt_fwd d (p + lws d) ec ++ disj_code r (p + lws d) ec end.
Fixpoint disjJ (ds : list (list lit)) (i ec : nat) : list jentry :=
  match ds with [] => [] | d :: r => altJ d (pos_of (i + lws d)) ec i ++ disjJ r (i + lws d) ec end.

Lemma dnf_code_snoc : forall dpre dlast p ec, dnf_code (dpre ++ [dlast]) p ec = disj_code dpre p ec ++ and_back dlast.
Proof.
  induction dpre as [|d r IH]; intros dlast p ec; [reflexivity|].
  cbn [app dnf_code disj_code]. destruct (r ++ [dlast]) eqn:E; [destruct r; discriminate|]. rewrite <- E, IH, app_assoc. reflexivity.
Qed.

Lemma dnfJ_snoc : forall dpre dlast i ec, dnfJ (dpre ++ [dlast]) i ec = disjJ dpre i ec.
Proof.
  induction dpre as [|d r IH]; intros dlast i ec; [reflexivity|].
  cbn [app dnfJ disjJ]. destruct (r ++ [dlast]) eqn:E; [destruct r; discriminate|]. rewrite <- E, IH. reflexivity.
Qed.

Lemma length_disj_code : forall ds p ec, length (disj_code ds p ec) = total_lits ds.
Proof. induction ds as [|d r IH]; intros p ec; [reflexivity|]. cbn [disj_code total_lits]. rewrite app_length, length_alt_fwd, IH. reflexivity. Qed.

Definition or_state (s : state) (T : nat) (items : list (nat * dn)) (below : list dn) (ts0 : list (nat * nat)) (lo : nat) : Prop :=
  stack s = rev (cl true T items) ++ below /\
  (forall p, tget (targets s) p = match items with x :: _ => if Nat.eqb p T then Some (fst x) else tget ts0 p | [] => tget ts0 p end) /\
  StronglySorted lt (map fst items) /\ (forall k, In k (map fst items) -> lo <= k < nextid s).

Lemma run_disjs : forall ds orj ce ec rest i s items below ts0 lo,
  Forall (fun d => d <> []) ds -> 1 <= nextid s -> lo <= nextid s ->
  or_state s ec items below ts0 lo ->
  tget ts0 ec = None ->
  (forall k, k <= total_lits ds -> tget ts0 (pos_of (i + k)) = None /\ ec <> pos_of (i + k)) ->
  (forall k, k < total_lits ds -> Nat.leb ce (pos_of (i + k)) = false) ->
  orj_ok orj (disjJ ds i ec) -> nojump_ok orj (disj_code ds (pos_of i) ec) i ->
  exists s' items', run orj ce [] (disj_code ds (pos_of i) ec ++ rest) i s = run orj ce [] rest (i + total_lits ds) s' /\
     or_state s' ec items' below ts0 lo /\ nextid s <= nextid s' /\
     map strip (map snd items') = map strip (map snd items) ++ map alt_pt ds /\
     length items' = length items + length ds.
Proof.
  induction ds as [|d r IH]; intros orj ce ec rest i s items below ts0 lo Hall Hid Hlo Hst HT Hpos Hce Hj Hn.
  - exists s, items. cbn [disj_code total_lits app map length]. rewrite !Nat.add_0_r, app_nil_r.
    split; [reflexivity|]. split; [exact Hst|]. split; [apply le_n|]. split; reflexivity.
  - inversion Hall as [|x0 l0 Hd Hr]; subst x0 l0.
    assert (Hld : 2 <= lws d) by (apply lws_pos; assumption).
    cbn [disj_code] in *. cbn [total_lits] in *. replace (pos_of i + lws d) with (pos_of (i + lws d)) in * by (unfold pos_of; lia).
    rewrite <- app_assoc.
    destruct Hst as [Hstk [Htg [Hsort Hrange]]].
    cbn [disjJ] in Hj. apply orj_ok_app in Hj. destruct Hj as [Hj1 Hj2].
    apply nojump_ok_app in Hn. destruct Hn as [Hn1 Hn2]. rewrite length_alt_fwd in Hn2.
    assert (Hnt : forall k, k <= lws d -> has_target s (pos_of (i + k)) = false).
    { intros k Hk. unfold has_target. rewrite Htg. destruct (Hpos k ltac:(lia)) as [Hno Hne]. destruct items as [|x xs]; [rewrite Hno; reflexivity|].
      replace (pos_of (i + k) =? ec) with false by (symmetry; apply Nat.eqb_neq; congruence). rewrite Hno. reflexivity. }
    assert (Hbody : forall k, k <= lws d -> ec <> pos_of (i + k)) by (intros k Hk; apply Hpos; lia).
    assert (Hce1 : forall k, k < lws d -> Nat.leb ce (pos_of (i + k)) = false) by (intros k Hk; apply Hce; lia).
    assert (Hand : forall k, k + 1 < lws d -> existsb (Nat.eqb (pos_of (i + k))) orj = false)
      by (apply (alt_fwd_nonlast_false orj d (pos_of (i + lws d)) ec i Hj1 Hn1)).
    assert (Hor : existsb (Nat.eqb (pos_of (i + lws d - 1))) orj = true).
    { destruct (exists_last Hd) as [ls0 [l E]]. subst d. apply (Hj1 _ ec true).
      replace (i + lws (ls0 ++ [l]) - 1) with (i + lws ls0 + length (lval l)) by (rewrite lws_app; cbn [lws]; unfold lw; lia).
      apply altJ_mem_last. }
    rewrite (run_alt orj ce d ec _ i s Hd Hid Hnt Hbody Hce1 Hand Hor).
    set (newid := nextid s + length d - 1). set (A := alt_node (nextid s) (pos_of (i + lws d)) d).
    assert (Hlen1 : 1 <= length d) by (destruct d; [congruence | cbn [length]; lia]).
    set (s1 := {| stack := DBool newid ec true [A] :: stack s; targets := tsetdefault (targets s) ec newid; nextid := nextid s + length d |}).
    destruct (IH orj ce ec rest (i + lws d) s1 (items ++ [(newid, A)]) below ts0 lo Hr) as [s' [items' [Hrun [Hst' [Hid' [Hstrip Hlen]]]]]].
    + unfold s1. cbn [nextid]. lia.
    + unfold s1. cbn [nextid]. lia.
    + unfold s1. split; [|split; [|split]].
      * cbn [stack]. rewrite Hstk. unfold cl. rewrite map_app, rev_app_distr. reflexivity.
      * intro p. cbn [targets]. rewrite tget_tsetdefault, !Htg. destruct items as [|x xs]; cbn [app fst].
        -- rewrite HT. destruct (tget ts0 p) eqn:E.
           ++ destruct (Nat.eqb p ec) eqn:E2; [apply Nat.eqb_eq in E2; subst p; congruence | reflexivity].
           ++ rewrite (Nat.eqb_sym ec p). destruct (Nat.eqb p ec); reflexivity.
        -- rewrite Nat.eqb_refl. destruct (Nat.eqb p ec) eqn:E2; [reflexivity|].
           destruct (tget ts0 p); [reflexivity|]. rewrite (Nat.eqb_sym ec p), E2. reflexivity.
      * rewrite map_app. cbn [map fst]. apply sorted_snoc; [exact Hsort|]. intros k Hk. apply Hrange in Hk. unfold newid. lia.
      * cbn [nextid]. intros k Hk. rewrite map_app in Hk. apply in_app_or in Hk. destruct Hk as [Hk|[Hk|[]]].
        -- apply Hrange in Hk. lia.
        -- subst k. cbn [fst]. unfold newid. lia.
    + exact HT.
    + intros k Hk. replace (i + lws d + k) with (i + (lws d + k)) by lia. apply Hpos. lia.
    + intros k Hk. replace (i + lws d + k) with (i + (lws d + k)) by lia. apply Hce. lia.
    + exact Hj2.
    + exact Hn2.
    + exists s', items'. split; [rewrite Hrun; f_equal; lia|]. split; [exact Hst'|]. split; [unfold s1 in Hid'; cbn [nextid] in Hid'; lia|]. split.
      * rewrite Hstrip. rewrite !map_app. cbn [map snd]. unfold A. rewrite strip_alt_node. rewrite <- app_assoc. reflexivity.
      * rewrite Hlen, app_length. cbn [length]. lia.
Qed.

(* ------------------------------------------------------------------ one clause *)
(* `and` clauses of the finished clauses pending at the loop top (whatever identity is registered there: it is never used
   as a limit), nothing registered at any real position *)
Definition inv3c (s : state) (items : list (nat * dn)) : Prop :=
  stack s = rev (cl false TOP items) ++ [DComp 0 0] /\ (forall p, 2 <= p -> tget (targets s) p = None) /\ 1 <= nextid s /\
  Forall node_ok (map snd items).

Lemma run_cl3 : forall orj ce ds rest i s items,
  wf_alt3 ds -> inv3c s items ->
  (forall k, k < total_lits ds -> Nat.leb ce (pos_of (i + k)) = false) ->
  orj_ok orj (dnfJ ds i (pos_of (i + total_lits ds))) ->
  nojump_ok orj (dnf_code ds (pos_of i) (pos_of (i + total_lits ds))) i ->
  exists s' newid A,
    run orj ce [] (dnf_code ds (pos_of i) (pos_of (i + total_lits ds)) ++ rest) i s = run orj ce [] rest (i + total_lits ds) s' /\
    inv3c s' (items ++ [(newid, A)]) /\ strip A = expected [] ds.
Proof.
  intros orj ce ds rest i s items [Hne [Hall Hone]] Hinv Hce Hj Hn.
  pose proof Hinv as [Hstk [Hfree [Hid Hnodes]]].
  destruct (exists_last Hne) as [dpre [dlast E]]. subst ds.
  apply Forall_app in Hall. destruct Hall as [Hallpre Hlast]. inversion Hlast as [|x0 l0 Hdl _]; subst x0 l0.
  destruct (exists_last Hdl) as [ls0 [l El]]. subst dlast.
  rewrite dnf_code_snoc in Hn. rewrite dnf_code_snoc. rewrite dnfJ_snoc in Hj.
  rewrite and_back_chain in *.
  apply nojump_ok_app in Hn. destruct Hn as [Hn1 Hn2]. rewrite length_disj_code in Hn2.
  rewrite total_lits_snoc, lws_app in *. cbn [lws] in *. rewrite Nat.add_0_r in *.
  assert (Hlw : lw l = length (lval l) + 1) by reflexivity.
  set (tp := total_lits dpre) in *.
  set (ec := pos_of (i + (tp + (lws ls0 + lw l)))) in *.
  assert (Hec2 : 2 <= ec) by (unfold ec, pos_of; lia).
  assert (Hback : forall pre l0 post, ls0 ++ [l] = pre ++ l0 :: post ->
            existsb (Nat.eqb (pos_of (i + tp + (lws pre + length (lval l0))))) orj = false).
  { intros pre l0 post Heq. apply (Hn2 _ (ljmp l0 false TTop)).
    - rewrite Heq. apply chain_code_nth.
    - destruct (ljmp_facts l0 false TTop) as [_ [_ [_ [Ht _]]]]. exact Ht. }
  assert (Hfree' : forall k, tget (targets s) (pos_of (i + k)) = None) by (intro k; apply Hfree; unfold pos_of; lia).
  destruct dpre as [|d1 dr].
  - (* the clause is a single literal *)
    cbn [app] in Hone. rewrite app_length in Hone. cbn [length] in Hone.
    assert (ls0 = []) by (destruct ls0; [reflexivity | cbn [length] in Hone; lia]). subst ls0.
    unfold tp in *. cbn [total_lits lws app disj_code chain_code length] in *. cbn [Nat.add] in *.
    rewrite <- app_assoc. rewrite run_lval.
    2:{ intros k Hk. apply has_target_none. apply Hfree'. }
    set (q := i + length (lval l)).
    assert (Hstep : step orj ce [] (ljmp l false TTop) q (push (dval l) s) =
              Some (mkState (DBool (nextid s) TOP false [dlit l] :: stack s) (tsetdefault (targets s) TOP (nextid s)) (S (nextid s)))).
    { apply (lit_jump_plain orj ce l false TTop q s).
      - apply has_target_none. apply Hfree'.
      - apply has_target_none. apply Hfree. unfold pos_of. lia.
      - apply Hce. unfold q. lia.
      - specialize (Hback [] l [] eq_refl). cbn [lws] in Hback. replace (i + 0 + (0 + length (lval l))) with q in Hback by (unfold q; lia). exact Hback. }
    destruct (ljmp_facts l false TTop) as [_ [_ [Hfin _]]].
    cbn [app]. rewrite (run_cons orj ce _ _ q _ _ Hfin Hstep).
    exists (mkState (DBool (nextid s) TOP false [dlit l] :: stack s) (tsetdefault (targets s) TOP (nextid s)) (S (nextid s))), (nextid s), (dlit l).
    split; [f_equal; unfold q; lia|]. split.
    + split; [|split; [|split]]; cbn [stack targets nextid].
      * rewrite Hstk. unfold cl. rewrite map_app, rev_app_distr. reflexivity.
      * intros p Hp. rewrite tget_tsetdefault_other by (unfold TOP; lia). apply Hfree. exact Hp.
      * lia.
      * rewrite map_app. apply Forall_app. split; [exact Hnodes|]. constructor; [left; exists l; reflexivity | constructor].
    + cbn [expected alt_pt]. apply strip_dlit.
  - (* disjuncts, the last of which sends every literal back to the loop top *)
    set (dpre := d1 :: dr) in *.
    assert (Htp : 2 <= tp) by (apply total_lits_pos; split; [discriminate | exact Hallpre]).
    rewrite <- app_assoc.
    destruct (run_disjs dpre orj ce ec (chain_code false TTop (ls0 ++ [l]) ++ rest) i s [] (stack s) (targets s) (nextid s)
                Hallpre Hid (le_n _)) as [s1 [oritems [Hrun1 [Hst1 [Hid1 [Hstrip1 Hlen1]]]]]].
    + split; [reflexivity|]. split; [intro p; reflexivity|]. split; [constructor | intros k []].
    + apply Hfree. exact Hec2.
    + intros k Hk. split; [apply Hfree' | unfold ec, pos_of; pose proof (lw_pos l); lia].
    + intros k Hk. apply Hce. pose proof (lw_pos l). lia.
    + exact Hj.
    + exact Hn1.
    + rewrite Hrun1. clear Hrun1. destruct Hst1 as [Hstk1 [Htg1 [Hsort1 Hrange1]]].
      destruct oritems as [|[a1 n0] orest]; [cbn [length] in Hlen1; discriminate Hlen1|].
      cbn [fst] in Htg1.
      assert (Ha1 : nextid s <= a1 < nextid s1) by (apply Hrange1; left; reflexivity).
      assert (Horest : forall k d, In (k, d) orest -> a1 < k).
      { intros k d Hin. cbn [map fst] in Hsort1. inversion Hsort1 as [|x1 l1 _ Hf]; subst x1 l1. rewrite Forall_forall in Hf.
        apply Hf. apply in_map_iff. exists (k, d). split; [reflexivity | exact Hin]. }
      set (i1 := i + tp).
      assert (Hts1 : forall p, p <> ec -> tget (targets s1) p = tget (targets s) p).
      { intros p Hp. rewrite Htg1. replace (p =? ec) with false by (symmetry; apply Nat.eqb_neq; exact Hp). reflexivity. }
      assert (Hts1ec : tget (targets s1) ec = Some a1) by (rewrite Htg1, Nat.eqb_refl; reflexivity).
      rewrite chain_code_snoc, <- !app_assoc.
      rewrite run_chain.
      2:{ intros k Hk. apply has_target_none. rewrite Hts1 by (unfold ec, i1, pos_of; pose proof (lw_pos l); lia). apply Hfree. unfold pos_of. lia. }
      2:{ intros k Hk. cbn [tpos]. unfold TOP, pos_of. lia. }
      2:{ intros k Hk. unfold i1. rewrite <- Nat.add_assoc. apply Hce. pose proof (lw_pos l). lia. }
      2:{ intros pre l0 post Heq. unfold i1. rewrite <- Nat.add_assoc. apply (Hback pre l0 (post ++ [l])). rewrite Heq, <- app_assoc. reflexivity. }
      cbn [tpos].
      set (anditems := chain_items (nextid s1) ls0).
      set (s2 := {| stack := rev (cl false TOP anditems) ++ stack s1;
                    targets := match ls0 with [] => targets s1 | _ :: _ => tsetdefault (targets s1) TOP (nextid s1) end;
                    nextid := nextid s1 + length ls0 |}).
      set (i2 := i1 + lws ls0).
      assert (Hts2 : forall p, 2 <= p -> tget (targets s2) p = tget (targets s1) p).
      { intros p Hp. unfold s2. cbn [targets]. destruct ls0; [reflexivity|]. apply tget_tsetdefault_other. unfold TOP. lia. }
      assert (Hfree2 : forall k, pos_of (i + k) <> ec -> has_target s2 (pos_of (i + k)) = false).
      { intros k Hk. apply has_target_none. rewrite Hts2 by (unfold pos_of; lia). rewrite Hts1 by exact Hk. apply Hfree'. }
      rewrite run_lval.
      2:{ intros k Hk. unfold i2, i1. rewrite <- !Nat.add_assoc. apply Hfree2. unfold ec, pos_of. lia. }
      set (q := i2 + length (lval l)).
      assert (Hq : pos_of (S q) = ec) by (unfold q, i2, i1, ec, pos_of; lia).
      set (n1 := mnode false TOP anditems (dlit l)).
      set (ornode := DBool a1 (Nat.max ec (ep_of n1)) true (map snd ((a1, n0) :: orest) ++ [n1])).
      assert (Hand_ids : forall k d, In (k, d) anditems -> not_lim (Some a1) k).
      { intros k d Hin. apply chain_items_ids in Hin. cbn [not_lim]. lia. }
      assert (Hn1s : same_id n1 (Some a1) = false) by (apply mnode_same_id; [apply same_id_dlit | exact Hand_ids]).
      assert (Hn1p : plain_for true n1).
      { unfold n1, anditems. destruct ls0 as [|l0 r0]; [apply plain_dlit|]. apply (mnode_plain false). rewrite chain_items_cons. discriminate. }
      assert (Hloop : pt_loop false ec (Some a1) (dlit l) (stack s2) (tdel (targets s2) ec) = Some (ornode :: stack s, tdel (targets s2) ec)).
      { unfold s2 at 1. cbn [stack]. rewrite Hstk1.
        rewrite merge_opt; [|apply plain_dlit|apply same_id_dlit|].
        2:{ intros k d Hin. apply Hand_ids with d. destruct anditems; [destruct Hin | right; exact Hin]. }
        fold n1. rewrite merge_first; [|exact Hn1p|exact Hn1s| |discriminate].
        - cbn [hd fst]. fold ornode. apply pt_stop_lim.
          + unfold ornode. cbn [map snd app]. destruct (map snd orest ++ [n1]) eqn:E; [destruct orest; discriminate|]. apply simplify_multi.
          + unfold same_id, ornode. cbn [id_of]. rewrite Nat.eqb_refl. destruct a1; [lia|reflexivity].
        - cbn [tl]. intros k d Hin. cbn [not_lim]. pose proof (Horest k d Hin). lia. }
      assert (Hstep : step orj ce [] (ljmp l false TTop) q (push (dval l) s2) =
                Some (mkState (DBool (nextid s2) TOP false [ornode] :: stack s) (tsetdefault (tdel (targets s2) ec) TOP (nextid s2)) (S (nextid s2)))).
      { apply (lit_jump orj ce l false TTop q s2).
        - unfold q, i2, i1. rewrite <- !Nat.add_assoc. apply Hfree2. unfold ec, pos_of. lia.
        - unfold q, i2, i1. rewrite <- !Nat.add_assoc. apply Hce. lia.
        - unfold q, i2, i1. rewrite <- !Nat.add_assoc. rewrite Nat.add_assoc. apply (Hback ls0 l []). reflexivity.
        - rewrite Hq.
          assert (Hget : tget (targets s2) ec = Some a1) by (rewrite Hts2 by exact Hec2; exact Hts1ec).
          assert (Hht : has_target s2 ec = true) by (unfold has_target; rewrite Hget; reflexivity).
          rewrite Hht.
          rewrite (process_target_lim ec (push (dlit l) s2) (dlit l) (stack s2) a1 eq_refl ltac:(lia) Hget).
          cbn [push targets nextid]. rewrite Hloop. reflexivity. }
      destruct (ljmp_facts l false TTop) as [_ [_ [Hfin _]]].
      cbn [app]. rewrite (run_cons orj ce _ _ q _ _ Hfin Hstep).
      exists (mkState (DBool (nextid s2) TOP false [ornode] :: stack s) (tsetdefault (tdel (targets s2) ec) TOP (nextid s2)) (S (nextid s2))),
             (nextid s2), ornode.
      split; [f_equal; unfold q, i2, i1; lia|]. split.
      * split; [|split; [|split]]; cbn [stack targets nextid].
        -- rewrite Hstk. unfold cl. rewrite map_app, rev_app_distr. reflexivity.
        -- intros p Hp. rewrite tget_tsetdefault_other by (unfold TOP; lia).
           destruct (Nat.eq_dec p ec) as [->|Hpe]; [apply tget_tdel_same|].
           rewrite tget_tdel_other by congruence. rewrite Hts2 by exact Hp. rewrite Hts1 by exact Hpe. apply Hfree. exact Hp.
        -- lia.
        -- rewrite map_app. apply Forall_app. split; [exact Hnodes|]. constructor; [|constructor].
           right. unfold ornode. cbn [map snd app]. destruct (map snd orest ++ [n1]) as [|y vs] eqn:E; [destruct orest; discriminate|].
           exists a1, (Nat.max ec (ep_of n1)), n0, y, vs. split; [reflexivity | lia].
      * unfold ornode. cbn [strip]. rewrite map_app. rewrite Hstrip1. cbn [map snd app].
        assert (Hl : strip n1 = alt_pt (ls0 ++ [l])).
        { unfold n1, anditems. rewrite mnode_strip. destruct ls0 as [|l0 r0]; [apply strip_dlit|].
          rewrite map_snd_chain_items, map_strip_dlit, strip_dlit. rewrite chain_items_cons.
          unfold alt_pt. destruct ((l0 :: r0) ++ [l]) as [|y [|y2 z]] eqn:E.
          - discriminate.
          - destruct r0; discriminate.
          - rewrite <- E. rewrite map_app. reflexivity. }
        rewrite Hl.
        assert (Hex : expected [] (dpre ++ [ls0 ++ [l]]) = PBool true (map alt_pt (dpre ++ [ls0 ++ [l]]))).
        { unfold dpre. cbn [app]. destruct (dr ++ [ls0 ++ [l]]) eqn:E2; [destruct dr; discriminate|]. reflexivity. }
        rewrite Hex, map_app. reflexivity.
Qed.

(* ------------------------------------------------------------------ the yield: the pending `and` clauses are collected *)
Lemma run_yield_and : forall orj ce i s items,
  items <> [] -> inv3c s items ->
  exists final, run orj ce [] [ILoadElt; IYield] i s = RGen (DElt 0 0) [[final]] /\
                strip final = all_or_one (map strip (map snd items)).
Proof.
  intros orj ce i s items Hit [Hst [Hfree [Hid Hnodes]]].
  destruct (exists_last Hit) as [items0 [[k d] Hitems]]. subst items.
  assert (Hd : node_ok d).
  { rewrite map_app in Hnodes. apply Forall_app in Hnodes. destruct Hnodes as [_ H]. inversion H; assumption. }
  destruct (final_of_facts d Hd) as [F1 [F2 [F3 [F4 F5]]]].
  assert (Hnt : forall p, 2 <= p -> has_target s p = false) by (intros p Hp; apply has_target_none; apply Hfree; exact Hp).
  assert (Hstk : stack s = DBool k TOP false [d] :: rev (cl false TOP items0) ++ [DComp 0 0]).
  { rewrite Hst. unfold cl. rewrite map_app, rev_app_distr. reflexivity. }
  assert (Hsimp : simplify (DBool k TOP false [d]) = final_of d) by reflexivity.
  destruct items0 as [|x0 r0].
  - exists (final_of d). split.
    + eapply run_elt_yield.
      * apply Hnt. unfold pos_of. lia.
      * apply Hnt. unfold pos_of. lia.
      * rewrite Hstk. cbn [length app rev cl map]. lia.
      * unfold process_target. rewrite Hstk. cbn [Nat.eqb orb]. rewrite pt_loop_simplify; rewrite Hsimp; [|exact F1].
        cbn [cl map rev app]. rewrite pt_stop_comp; [reflexivity | exact F1 | apply F4; reflexivity | exact F2].
      * exact F2.
    + cbn [app map snd all_or_one]. exact F5.
  - exists (DBool (fst x0) (Nat.max TOP (ep_of (final_of d))) false (map snd (x0 :: r0) ++ [final_of d])). split.
    + eapply run_elt_yield.
      * apply Hnt. unfold pos_of. lia.
      * apply Hnt. unfold pos_of. lia.
      * rewrite Hstk. cbn [length]. rewrite app_length. cbn [length]. lia.
      * unfold process_target. rewrite Hstk. cbn [Nat.eqb orb]. rewrite pt_loop_simplify; rewrite Hsimp; [|exact F1].
        rewrite merge_first; [|exact F3|apply F4; reflexivity|intros; exact I|discriminate].
        cbn [hd]. rewrite pt_stop_comp; [reflexivity| | reflexivity | reflexivity].
        cbn [map snd app]. destruct (map snd r0 ++ [final_of d]) eqn:E; [destruct r0; discriminate|]. apply simplify_multi.
      * reflexivity.
    + cbn [strip]. rewrite !map_app. cbn [map snd app]. rewrite F5.
      destruct (map strip (map snd r0)) as [|b c]; reflexivity.
Qed.

Lemma run_cnf3_from : forall cls orj ce i s items,
  Forall wf_alt3 cls -> ce = pos_of (i + tot3 cls) ->
  orj_ok orj (cnf3J cls i) -> nojump_ok orj (cnf3_code cls (pos_of i)) i ->
  inv3c s items -> (items <> [] \/ cls <> []) ->
  exists final, run orj ce [] (cnf3_code cls (pos_of i) ++ [ILoadElt; IYield]) i s = RGen (DElt 0 0) [[final]] /\
     strip final = all_or_one (map strip (map snd items) ++ map (expected []) cls).
Proof.
  induction cls as [|ds r IH]; intros orj ce i s items Hall Hce Hj Hn Hinv Hsome.
  - destruct Hsome as [Hit|Hc]; [|congruence]. cbn [cnf3_code app map]. rewrite app_nil_r.
    apply run_yield_and; assumption.
  - inversion Hall as [|x0 l0 Hds Hr]; subst x0 l0.
    cbn [cnf3_code cnf3J tot3] in *. replace (pos_of i + total_lits ds) with (pos_of (i + total_lits ds)) in * by (unfold pos_of; lia).
    apply orj_ok_app in Hj. destruct Hj as [Hj1 Hj2]. apply nojump_ok_app in Hn. destruct Hn as [Hn1 Hn2]. rewrite length_dnf_code in Hn2.
    rewrite <- app_assoc.
    destruct (run_cl3 orj ce ds (cnf3_code r (pos_of (i + total_lits ds)) ++ [ILoadElt; IYield]) i s items Hds Hinv)
      as [s' [newid [A [Hrun [Hinv' HA]]]]].
    + intros k Hk. apply Nat.leb_gt. rewrite Hce. unfold pos_of. lia.
    + exact Hj1.
    + exact Hn1.
    + rewrite Hrun. destruct (IH orj ce (i + total_lits ds) s' (items ++ [(newid, A)]) Hr) as [final [Hrun2 Hstrip]].
      * rewrite Hce. f_equal. lia.
      * exact Hj2.
      * exact Hn2.
      * exact Hinv'.
      * left. destruct items; discriminate.
      * exists final. split; [exact Hrun2|]. rewrite Hstrip. rewrite !map_app. cbn [map snd]. rewrite HA, <- app_assoc. reflexivity.
Qed.

(* ------------------------------------------------------------------ back to source expressions; the round trip *)
Lemma to_bexp_list_cls3 : forall cls, Forall wf_alt3 cls -> to_bexp_list (map (expected []) cls) = Some (map mk_cl3 cls).
Proof.
  induction cls as [|ds r IH]; intro H; [reflexivity|]. inversion H as [|x0 l0 Hds Hr]; subst x0 l0.
  cbn [map to_bexp_list]. rewrite (to_bexp_expected ds (wf_alt3_alts ds Hds)). rewrite IH by assumption. reflexivity.
Qed.

Theorem roundtrip_cnf3 : forall cls, wf3 cls -> decompile PFilter (cnf3 cls) = Some (cnf3 cls).
Proof.
  intros cls Hwf. pose proof Hwf as [Hlen Hall].
  assert (Hne : cls <> []) by (intro; subst; cbn in Hlen; lia).
  unfold decompile. rewrite compile_cnf3 by assumption. unfold decompile_code.
  assert (Hce : conditions_end (streamc3 cls) = pos_of (tot3 cls)).
  { unfold streamc3. rewrite conditions_end_from, ce_from_app, ce_from_cnf3_code by assumption. reflexivity. }
  rewrite Hce.
  assert (Hvj : value_jumps (streamc3 cls) = []).
  { rewrite value_jumps_from. apply vj_from_no_copy. unfold streamc3. intro H. apply in_app_or in H.
    destruct H as [H|[H|[H|[]]]]; try discriminate H. exact (no_copy_cnf3_code _ _ H). }
  rewrite Hvj.
  pose proof (or_jumps_streamc3 cls Hwf) as HJ.
  destruct (inv_cnf3J cls 0 (pos_of (tot3 cls)) (le_n _)) as [_ [_ U]].
  destruct (run_cnf3_from cls (or_jumps (streamc3 cls)) (pos_of (tot3 cls)) 0 (init_state PFilter) [] Hall eq_refl)
    as [final [Hrun Hstrip]].
  - intros j t b Hin. destruct b.
    + apply existsb_exists. exists j. split; [apply HJ; exists t; exact Hin | apply Nat.eqb_refl].
    + apply existsb_false_of_not_true. intro H. apply existsb_exists in H. destruct H as [y [Hy He]]. apply Nat.eqb_eq in He. subst y.
      apply HJ in Hy. destruct Hy as [t' Ht']. destruct (U _ _ _ _ _ Hin Ht') as [_ Hb]. discriminate Hb.
  - intros q ins Hnth Htgt. apply existsb_false_of_not_true. intro H. apply existsb_exists in H. destruct H as [y [Hy He]].
    apply Nat.eqb_eq in He. subst y. apply HJ in Hy. destruct Hy as [t' Ht'].
    assert (Hja : jump_at (streamc3 cls) (pos_of (0 + q)) t') by (apply jump_at_streamc3; exists true; exact Ht').
    destruct Hja as [k [ins' [Hk [Hn' Ht2]]]]. assert (k = q) by (unfold pos_of in Hk; lia). subst k.
    unfold streamc3 in Hn'. rewrite nth_error_app1 in Hn' by (apply nth_error_Some; rewrite Hnth; discriminate).
    rewrite Hnth in Hn'. injection Hn' as <-. rewrite Htgt in Ht2. discriminate Ht2.
  - split; [reflexivity|]. split; [intros p _; reflexivity|]. split; [apply le_n | constructor].
  - right. exact Hne.
  - change (cnf3_code cls (pos_of 0) ++ [ILoadElt; IYield]) with (streamc3 cls) in Hrun.
    rewrite Hrun. cbn [extract map conj]. rewrite Hstrip. cbn [map snd app].
    destruct cls as [|a [|b r]]; cbn [length] in Hlen; try lia.
    change (all_or_one (map (expected []) (a :: b :: r))) with (PBool false (map (expected []) (a :: b :: r))).
    rewrite to_bexp_PBool, to_bexp_list_cls3 by assumption. reflexivity.
Qed.

Corollary roundtrip_cnf3_meaning : forall cls, wf3 cls ->
  exists e', decompile PFilter (cnf3 cls) = Some e' /\ forall rho, eval rho e' = eval rho (cnf3 cls).
Proof. intros cls H. exists (cnf3 cls). split; [apply roundtrip_cnf3; assumption | reflexivity]. Qed.
