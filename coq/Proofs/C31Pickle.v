(* C31 - round trip of pickled objects, query results and collection wrappers. *)
Require Import PonyV.Base.PyBase PonyV.Model.C31Pickle.
From Coq Require Import Permutation.

(* an object that can be pickled at all is a loaded, unmodified one; its pickle is its loaded values *)
Theorem pickle_entity_ok st v p : pickle_entity st v = Ok p -> st = Loaded /\ p = v.
Proof. destruct st; cbn; intros H; inversion H; auto. Qed.

(* unpickled in a session that has not loaded the object itself: every attribute that was loaded at pickling time has the value
   it had at pickling time, the others stay unloaded (they are read from the database on first access) *)
Theorem roundtrip_fresh st v p : pickle_entity st v = Ok p -> forall a, unpickle_entity Loaded no_vals p a = v a.
Proof. intros H a. apply pickle_entity_ok in H. destruct H as [_ ->]. reflexivity. Qed.

(* in general: the value the unpickling session already holds wins, otherwise the pickled one *)
Theorem roundtrip_general here_st here p a : here_st <> Deleted ->
  unpickle_entity here_st here p a = match here a with Some w => Some w | None => p a end.
Proof. destruct here_st; cbn; congruence. Qed.

(* hence: if both sessions saw the same database values (dbv), the unpickled object has equal attribute values *)
Theorem roundtrip_equal_values (dbv : nat -> Z) st v p here_st here :
  pickle_entity st v = Ok p -> here_st <> Deleted ->
  (forall a x, v a = Some x -> x = dbv a) -> (forall a x, here a = Some x -> x = dbv a) ->
  forall a x, unpickle_entity here_st here p a = Some x -> x = dbv a.
Proof.
  intros Hp Hs Hv Hh a x. apply pickle_entity_ok in Hp. destruct Hp as [_ ->].
  rewrite roundtrip_general by assumption. destruct (here a) as [w|] eqn:E.
  - intros H. inversion H; subst. eauto.
  - intros H. eauto.
Qed.
Theorem roundtrip_keeps_loaded st v p here_st here a x : pickle_entity st v = Ok p -> here_st <> Deleted ->
  v a = Some x -> exists y, unpickle_entity here_st here p a = Some y.
Proof.
  intros Hp Hs Hv. apply pickle_entity_ok in Hp. destruct Hp as [_ ->]. rewrite roundtrip_general by assumption.
  destruct (here a); eauto.
Qed.

(* query results: same number of items, in the same order, each the unpickled item *)
Theorem query_result_roundtrip {I J} (u : I -> J) fetched fetch :
  unpickle_query_result u (pickle_query_result fetched fetch) = map u (match fetched with Some l => l | None => fetch end) /\
  length (unpickle_query_result u (pickle_query_result fetched fetch)) = length (pickle_query_result fetched fetch).
Proof. split; [reflexivity | apply map_length]. Qed.

(* collections: a wrapper unpickled in a session that has not loaded the collection holds its items again, whatever the kind of
   relationship; in a session that has, nothing is duplicated *)
Theorem set_roundtrip k items ref_loaded : unpickle_set k [] items ref_loaded = items.
Proof. unfold unpickle_set. cbn [app existsb negb]. induction items as [|i r IH]; cbn; [reflexivity | now rewrite IH]. Qed.

Theorem set_roundtrip_loaded k here ref_loaded : unpickle_set k here here ref_loaded = here.
Proof.
  unfold unpickle_set. rewrite <- (app_nil_r here) at 3. f_equal.
  assert (H : forall l, incl l here -> filter (fun i => negb (existsb (Nat.eqb i) here)) l = []).
  { induction l as [|i r IH]; intros Hi; cbn; [reflexivity|].
    assert (E : existsb (Nat.eqb i) here = true) by (apply existsb_exists; exists i; split; [apply Hi; now left | apply Nat.eqb_refl]).
    rewrite E. cbn. apply IH. intros x Hx. apply Hi. now right. }
  apply H, incl_refl.
Qed.

Theorem set_roundtrip_both k items ref_loaded here :
  unpickle_set k [] items ref_loaded = items /\ unpickle_set k here here ref_loaded = here.
Proof. split; [apply set_roundtrip | apply set_roundtrip_loaded]. Qed.
