(* C31 - round trip of pickled objects, query results and collection wrappers. *)
Require Import PonyV.Base.PyBase PonyV.Model.C31Pickle.
From Coq Require Import Permutation.

(* an object that can be pickled at all is a loaded, unmodified one; its pickle is its loaded values *)
Theorem pickle_entity_ok st v p : pickle_entity st v = Ok p -> st = Loaded /\ p = v.
Proof. destruct st; cbn; intros H; inversion H; auto. Qed.

(* unpickled in a session that has not loaded the object itself: every attribute that was loaded at pickling time has the value
   it had at pickling time, the others stay unloaded (they are read from the database on first access) *)
Theorem roundtrip_fresh st v p : pickle_entity st v = Ok p -> forall a, unpickle_entity Loaded no_vals p a = v a.
Proof. intros H a. apply pickle_entity_ok in H. destruct H as [_ ->]. reflexivity. Qed.

(* in general: the value the unpickling session already holds wins, otherwise the pickled one *)
Theorem roundtrip_general here_st here p a : here_st <> Deleted ->
  unpickle_entity here_st here p a = match here a with Some w => Some w | None => p a end.
Proof. destruct here_st; cbn; congruence. Qed.

(* hence: if both sessions saw the same database values (dbv), the unpickled object has equal attribute values *)
Theorem roundtrip_equal_values (dbv : nat -> Z) st v p here_st here :
  pickle_entity st v = Ok p -> here_st <> Deleted ->
  (forall a x, v a = Some x -> x = dbv a) -> (forall a x, here a = Some x -> x = dbv a) ->
  forall a x, unpickle_entity here_st here p a = Some x -> x = dbv a.
Proof.
  intros Hp Hs Hv Hh a x. apply pickle_entity_ok in Hp. destruct Hp as [_ ->].
  rewrite roundtrip_general by assumption. destruct (here a) as [w|] eqn:E.
  - intros H. inversion H; subst. eauto.
  - intros H. eauto.
Qed.
Theorem roundtrip_keeps_loaded st v p here_st here a x : pickle_entity st v = Ok p -> here_st <> Deleted ->
  v a = Some x -> exists y, unpickle_entity here_st here p a = Some y.
Proof.
  intros Hp Hs Hv. apply pickle_entity_ok in Hp. destruct Hp as [_ ->]. rewrite roundtrip_general by assumption.
  destruct (here a); eauto.
Qed.

(* query results: same number of items, in the same order, each the unpickled item *)
Theorem query_result_roundtrip {I J} (u : I -> J) fetched fetch :
  unpickle_query_result u (pickle_query_result fetched fetch) = map u (match fetched with Some l => l | None => fetch end) /\
  length (unpickle_query_result u (pickle_query_result fetched fetch)) = length (pickle_query_result fetched fetch).
Proof. split; [reflexivity | apply map_length]. Qed.

(* collections: a one-to-many wrapper unpickled in a fresh session holds its items again when every item carried its reference;
   a many-to-many wrapper does not (Findings/C31.v) *)
Theorem set_roundtrip_one_to_many items ref_loaded : (forall i, In i items -> ref_loaded i = true) ->
  unpickle_set OneToMany [] items ref_loaded = items.
Proof.
  intros H. unfold unpickle_set. cbn [app existsb negb]. induction items as [|i r IH]; cbn; [reflexivity|].
  rewrite (H i) by now left. cbn. f_equal. rewrite <- IH at 2; [|intros j Hj; apply H; now right].
  apply filter_ext. intros j. now rewrite !andb_true_r.
Qed.
