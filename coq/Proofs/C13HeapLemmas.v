(* C13 - lemmas about the heap, undo actions, replay, and the `restoring` discipline of the execution monad. *)
From Coq Require Import ZArith NArith List Bool Lia.
Import ListNotations.
Require Import PonyV.Model.C13Heap.

(* ------------------------------------------------------------------------------------------------ boolean equalities *)
Lemma value_eqb_eq : forall a b, value_eqb a b = true <-> a = b.
Proof.
  intros [|x|x] [|y|y]; cbn; split; intro H; try discriminate; try reflexivity.
  - apply Z.eqb_eq in H; now subst.
  - injection H as ->; apply Z.eqb_refl.
  - apply Nat.eqb_eq in H; now subst.
  - injection H as ->; apply Nat.eqb_refl.
Qed.

Lemma list_eqb_eq : forall A (f : A -> A -> bool), (forall a b, f a b = true <-> a = b) ->
  forall xs ys, list_eqb f xs ys = true <-> xs = ys.
Proof.
  intros A f Hf xs; induction xs as [|x xs IH]; intros [|y ys]; cbn; split; intro H; try discriminate; try reflexivity.
  - apply andb_true_iff in H as [H1 H2]. apply Hf in H1. apply IH in H2. now subst.
  - injection H as -> ->. apply andb_true_iff; split; [now apply Hf | now apply IH].
Qed.

Lemma nat_eqb_iff : forall a b, Nat.eqb a b = true <-> a = b.
Proof. intros; apply Nat.eqb_eq. Qed.

Lemma loc_eqb_eq : forall a b, loc_eqb a b = true <-> a = b.
Proof.
  intros a b; destruct a, b; cbn; split; intro H; try discriminate; try reflexivity;
    repeat match goal with
           | H : _ && _ = true |- _ => apply andb_true_iff in H as [? ?]
           | H : Nat.eqb _ _ = true |- _ => apply Nat.eqb_eq in H; subst
           | H : list_eqb Nat.eqb _ _ = true |- _ => apply (list_eqb_eq _ _ nat_eqb_iff) in H; subst
           | H : list_eqb value_eqb _ _ = true |- _ => apply (list_eqb_eq _ _ value_eqb_eq) in H; subst
           end; try reflexivity;
    try (injection H; intros; subst;
         repeat (apply andb_true_iff; split); try apply Nat.eqb_refl;
         try (apply (list_eqb_eq _ _ nat_eqb_iff); reflexivity); try (apply (list_eqb_eq _ _ value_eqb_eq); reflexivity)).
Qed.

Lemma loc_eqb_refl : forall a, loc_eqb a a = true.
Proof. intro a; now apply loc_eqb_eq. Qed.

Lemma loc_eqb_neq : forall a b, a <> b -> loc_eqb a b = false.
Proof. intros a b H; destruct (loc_eqb a b) eqn:E; [apply loc_eqb_eq in E; contradiction | reflexivity]. Qed.

Lemma loc_eq_dec : forall a b : loc, {a = b} + {a <> b}.
Proof.
  intros a b; destruct (loc_eqb a b) eqn:E; [left; now apply loc_eqb_eq | right; intro H; apply loc_eqb_eq in H; congruence].
Qed.

(* ------------------------------------------------------------------------------------------------ view *)
Definition veq (s t : state) : Prop := forall l, view s l = view t l.

Lemma veq_refl : forall s, veq s s. Proof. intros s l; reflexivity. Qed.
Lemma veq_sym : forall s t, veq s t -> veq t s. Proof. intros s t H l; symmetry; apply H. Qed.
Lemma veq_trans : forall s t u, veq s t -> veq t u -> veq s u. Proof. intros s t u H1 H2 l; rewrite H1; apply H2. Qed.

(* the view of a location depends on the cell stored there only *)
Lemma view_norm : forall s l, view s l = norm l (s l).
Proof. intros s l; destruct l; reflexivity. Qed.

Lemma norm_idem : forall l c, norm l (norm l c) = norm l c.
Proof. intros l c; destruct l; cbn; destruct c; reflexivity. Qed.

Lemma norm_view : forall s l, norm l (view s l) = view s l.
Proof. intros; rewrite view_norm; apply norm_idem. Qed.

Lemma view_upd : forall s l c l', view (upd s l c) l' = if loc_eqb l l' then norm l' c else view s l'.
Proof. intros; rewrite !view_norm; unfold upd; destruct (loc_eqb l l'); reflexivity. Qed.

Lemma view_upd_same : forall s l c, view (upd s l c) l = norm l c.
Proof. intros; rewrite view_upd, loc_eqb_refl; reflexivity. Qed.

Lemma view_upd_other : forall s l c l', l <> l' -> view (upd s l c) l' = view s l'.
Proof. intros; rewrite view_upd, loc_eqb_neq; auto. Qed.

Lemma veq_upd : forall s t l c, veq s t -> veq (upd s l c) (upd t l c).
Proof. intros s t l c H l'; rewrite !view_upd; destruct (loc_eqb l l'); auto. Qed.

Lemma veq_upd_old : forall s l, veq (upd s l (view s l)) s.
Proof. intros s l l'; rewrite view_upd; destruct (loc_eqb l l') eqn:E; [apply loc_eqb_eq in E; subst; apply norm_view | reflexivity]. Qed.

(* typed readers factor through the view *)
Lemma g_queue_veq : forall s t, veq s t -> g_queue s = g_queue t.
Proof. intros s t H; specialize (H LQueue); cbn in H; now injection H. Qed.
Lemma g_next_veq : forall s t, veq s t -> g_next s = g_next t.
Proof. intros s t H; specialize (H LNext); cbn in H; now injection H. Qed.
Lemma g_status_veq : forall s t o, veq s t -> g_status s o = g_status t o.
Proof. intros s t o H; specialize (H (LStatus o)); cbn in H; now injection H. Qed.
Lemma g_savepos_veq : forall s t o, veq s t -> g_savepos s o = g_savepos t o.
Proof. intros s t o H; specialize (H (LSavePos o)); cbn in H; now injection H. Qed.

Lemma g_queue_view : forall s, view s LQueue = CQueue (g_queue s). Proof. reflexivity. Qed.
Lemma g_status_view : forall s o, view s (LStatus o) = CStatus (g_status s o). Proof. reflexivity. Qed.
Lemma g_savepos_view : forall s o, view s (LSavePos o) = CPos (g_savepos s o). Proof. reflexivity. Qed.

(* ------------------------------------------------------------------------------------------------ apply_writes *)
Fixpoint last_write (w : list (loc * cell)) (l : loc) : option cell :=
  match w with
  | [] => None
  | (l', c) :: w' => match last_write w' l with Some c' => Some c' | None => if loc_eqb l' l then Some c else None end
  end.

Lemma view_apply_writes : forall w s l,
  view (apply_writes w s) l = match last_write w l with Some c => norm l c | None => view s l end.
Proof.
  induction w as [|[l' c] w IH]; intros s l; cbn; [reflexivity|].
  rewrite IH. destruct (last_write w l); [reflexivity|].
  rewrite view_upd. destruct (loc_eqb l' l); reflexivity.
Qed.

Lemma last_write_none : forall w l, ~ In l (map fst w) -> last_write w l = None.
Proof.
  induction w as [|[l' c] w IH]; intros l H; cbn in *; [reflexivity|].
  rewrite IH by tauto. rewrite loc_eqb_neq; [reflexivity | tauto].
Qed.

Lemma last_write_in : forall w l c, last_write w l = Some c -> In (l, c) w.
Proof.
  induction w as [|[l' c'] w IH]; intros l c H; cbn in *; [discriminate|].
  destruct (last_write w l) eqn:E.
  - injection H as <-. right; now apply IH.
  - destruct (loc_eqb l' l) eqn:E2; [|discriminate]. apply loc_eqb_eq in E2; subst. injection H as <-. now left.
Qed.

Lemma apply_writes_app : forall a b s, apply_writes (a ++ b) s = apply_writes b (apply_writes a s).
Proof. induction a as [|[l c] a IH]; intros; cbn; [reflexivity | apply IH]. Qed.

Lemma veq_apply_writes : forall w s t, veq s t -> veq (apply_writes w s) (apply_writes w t).
Proof. intros w s t H l; rewrite !view_apply_writes; destruct (last_write w l); auto. Qed.

(* writes that store what is already visible change nothing *)
Lemma apply_writes_noop : forall w s, (forall l c, In (l, c) w -> norm l c = view s l) -> veq (apply_writes w s) s.
Proof.
  intros w s H l. rewrite view_apply_writes. destruct (last_write w l) eqn:E; [|reflexivity].
  apply last_write_in in E. now apply H.
Qed.

(* ------------------------------------------------------------------------------------------------ undo actions respect veq *)
Lemma del_slot_veq : forall s t q o vac psp, veq s t ->
  veq (fst (del_slot s q o vac psp)) (fst (del_slot t q o vac psp)) /\ snd (del_slot s q o vac psp) = snd (del_slot t q o vac psp).
Proof.
  intros s t q o vac psp H. unfold del_slot. destruct vac as [i|].
  - destruct (nth_error q i) as [[x|]|]; cbn; (split; [repeat apply veq_upd; assumption | reflexivity]).
  - cbn. split; [repeat apply veq_upd; assumption | reflexivity].
Qed.

Lemma undo_uact_veq : forall u s t, veq s t ->
  veq (fst (undo_uact u s)) (fst (undo_uact u t)) /\ snd (undo_uact u s) = snd (undo_uact u t).
Proof.
  intros u s t H. destruct u as [l c|o|o vac psp]; cbn.
  - split; [now apply veq_upd | reflexivity].
  - rewrite (g_queue_veq _ _ H), (g_savepos_veq _ _ o H).
    destruct (rev (g_queue t)); cbn; [split; auto|]. split; [now apply veq_upd | reflexivity].
  - rewrite (g_status_veq _ _ o H), (g_queue_veq _ _ H).
    destruct (status_eqb (g_status t o) SMarked); [|now apply del_slot_veq].
    destruct (rev (g_queue t)) as [|o' r]; [split; auto|].
    destruct (opt_eqb Nat.eqb o' (Some o)); [now apply del_slot_veq | split; [now apply veq_upd | reflexivity]].
Qed.

Lemma undo_closure_veq : forall c s t, veq s t ->
  veq (fst (undo_closure c s)) (fst (undo_closure c t)) /\ snd (undo_closure c s) = snd (undo_closure c t).
Proof.
  induction c as [|u c IH]; intros s t H; cbn; [split; auto|].
  destruct (undo_uact_veq u s t H) as [H1 H2].
  destruct (undo_uact u s) as [s' ok], (undo_uact u t) as [t' ok']; cbn in *; subst ok'.
  destruct ok; [now apply IH | split; auto].
Qed.

Lemma replay_veq : forall cs s t, veq s t ->
  veq (fst (replay cs s)) (fst (replay cs t)) /\ snd (replay cs s) = snd (replay cs t).
Proof.
  induction cs as [|c cs IH]; intros s t H; cbn; [split; auto|].
  destruct (undo_closure_veq c s t H) as [H1 H2].
  destruct (undo_closure c s) as [s' ok], (undo_closure c t) as [t' ok']; cbn in *; subst ok'.
  destruct ok; [now apply IH | split; auto].
Qed.

Lemma undo_closure_app : forall a b s,
  undo_closure (a ++ b) s = let '(s', ok) := undo_closure a s in if ok then undo_closure b s' else (s', false).
Proof.
  induction a as [|u a IH]; intros b s; cbn; [destruct (undo_closure b s); reflexivity|].
  destruct (undo_uact u s) as [s' ok]. destruct ok; [apply IH | reflexivity].
Qed.

Lemma replay_app : forall a b s,
  replay (a ++ b) s = let '(s', ok) := replay a s in if ok then replay b s' else (s', false).
Proof.
  induction a as [|c a IH]; intros b s; cbn; [destruct (replay b s); reflexivity|].
  destruct (undo_closure c s) as [s' ok]. destruct ok; [apply IH | reflexivity].
Qed.

(* a closure made of plain writes *)
Definition uw_list (w : list (loc * cell)) : closure := map (fun lc => UW (fst lc) (snd lc)) w.

Lemma undo_uw_list : forall w s, undo_closure (uw_list w) s = (apply_writes w s, true).
Proof. induction w as [|[l c] w IH]; intros s; cbn; [reflexivity | apply IH]. Qed.

(* Restoring old values: if every location written by w is rewritten by r (or was written with what it held),
   and r only writes what s held, then undoing r after w gives back s. *)
Lemma restore_writes : forall w r s,
  (forall l c, In (l, c) r -> norm l c = view s l) ->
  (forall l c, In (l, c) w -> In l (map fst r) \/ norm l c = view s l) ->
  veq (apply_writes r (apply_writes w s)) s.
Proof.
  intros w r s Hr Hw l. rewrite view_apply_writes.
  destruct (last_write r l) eqn:E.
  - apply last_write_in in E. now apply Hr.
  - rewrite view_apply_writes. destruct (last_write w l) eqn:E2; [|reflexivity].
    apply last_write_in in E2. destruct (Hw _ _ E2) as [Hin | Hn]; [|assumption].
    exfalso. clear -E Hin. induction r as [|[l' c'] r IH]; cbn in *; [tauto|].
    destruct (last_write r l); [discriminate|]. destruct (loc_eqb l' l) eqn:E3; [discriminate|].
    destruct Hin as [->|Hin]; [rewrite loc_eqb_refl in E3; discriminate | auto].
Qed.

(* ------------------------------------------------------------------------------------------------ the monad: `post` and `restoring` *)
Definition ctx_of {A} (r : res A) : ctx := match r with ROk _ c => c | RErr _ c => c end.

(* what a computation owes its caller: it only appended closures, and (unless a forgetful code site was executed)
   replaying the appended closures leads back to the state it started from, without a failing assertion *)
Definition post {A} (c : ctx) (r : res A) : Prop :=
  exists new, c_log (ctx_of r) = new ++ c_log c /\
    (c_taint (ctx_of r) = [] ->
     c_taint c = [] /\ exists s0, replay new (c_st (ctx_of r)) = (s0, true) /\ veq s0 (c_st c)).

Definition restoring {A} (m : M A) : Prop := forall c, post c (m c).

(* the same obligation for failures only (top-level calls end with bookkeeping that cannot fail and is never undone) *)
Definition post_err {A} (c : ctx) (r : res A) : Prop := match r with RErr _ _ => post c r | ROk _ _ => True end.
Definition restoring_err {A} (m : M A) : Prop := forall c, post_err c (m c).

Lemma post_refl : forall A c (r : res A), ctx_of r = c -> post c r.
Proof.
  intros A c r H. exists []. rewrite H. split; [reflexivity|]. intro Ht. split; [assumption|].
  exists (c_st c). split; [reflexivity | apply veq_refl].
Qed.

Lemma post_trans : forall A B c (r1 : res A) (r2 : res B), post c r1 -> post (ctx_of r1) r2 -> post c r2.
Proof.
  intros A B c r1 r2 [n1 [L1 P1]] [n2 [L2 P2]].
  exists (n2 ++ n1). split; [rewrite L2, L1, app_assoc; reflexivity|].
  intro Ht. destruct (P2 Ht) as [T1 [s1 [R2 V2]]]. destruct (P1 T1) as [T0 [s0 [R1 V1]]].
  split; [assumption|].
  rewrite replay_app, R2.
  destruct (replay_veq n1 s1 (c_st (ctx_of r1)) V2) as [Hv Hok]. rewrite R1 in Hv, Hok. cbn in Hv, Hok.
  destruct (replay n1 s1) as [s0' ok'] eqn:E. cbn in Hv, Hok. subst ok'.
  exists s0'. split; [reflexivity|]. eapply veq_trans; eassumption.
Qed.

Lemma restoring_ret : forall A (a : A), restoring (ret a).
Proof. intros A a c; now apply post_refl. Qed.
Lemma restoring_fail : forall A e, restoring (@fail A e).
Proof. intros A e c; now apply post_refl. Qed.
Lemma restoring_gets : forall A (f : state -> A), restoring (gets f).
Proof. intros A f c; now apply post_refl. Qed.
Lemma restoring_log_len : restoring log_len.
Proof. intros c; now apply post_refl. Qed.
Lemma restoring_get_log : restoring get_log.
Proof. intros c; now apply post_refl. Qed.

Lemma restoring_bind : forall A B (m : M A) (f : A -> M B), restoring m -> (forall a, restoring (f a)) -> restoring (bind m f).
Proof.
  intros A B m f Hm Hf c. unfold bind. specialize (Hm c). destruct (m c) as [a c1|e c1] eqn:E.
  - eapply post_trans; [exact Hm | apply Hf].
  - exact Hm.
Qed.

(* computations that read the state first *)
Lemma restoring_bind_gets : forall A B (g : state -> A) (f : A -> M B),
  (forall c, post c (f (g (c_st c)) c)) -> restoring (bind (gets g) f).
Proof. intros A B g f H c. unfold bind, gets. apply H. Qed.

Lemma restoring_guard : forall b e, restoring (guard b e).
Proof. intros [|] e; [apply restoring_ret | apply restoring_fail]. Qed.

Lemma restoring_iterM : forall A (f : A -> M unit) xs, (forall x, restoring (f x)) -> restoring (iterM f xs).
Proof.
  intros A f xs H; induction xs as [|x xs IH]; cbn; [apply restoring_ret|].
  apply restoring_bind; [apply H | intros _; apply IH].
Qed.

(* anything that happens after a taint owes nothing but the shape of the log *)
Lemma post_tainted : forall A c (r : res A), c_taint (ctx_of r) <> [] -> (exists new, c_log (ctx_of r) = new ++ c_log c) -> post c r.
Proof. intros A c r Ht [new Hl]. exists new. split; [assumption|]. intro H; contradiction. Qed.

Lemma restoring_add_taint : forall t, restoring (add_taint t).
Proof. intros t c. apply post_tainted; cbn; [discriminate | exists []; reflexivity]. Qed.

Lemma restoring_taint_if : forall b t, restoring (taint_if b t).
Proof. intros [|] t; [apply restoring_add_taint | apply restoring_ret]. Qed.

Lemma restoring_tick_idx : forall flt, restoring (tick_idx flt).
Proof.
  intros flt c. unfold tick_idx. destruct flt as [[[|s] k]|]; try (exists []; cbn; split; [reflexivity|]; intro H; split; [assumption|]; exists (c_st c); split; [reflexivity | apply veq_refl]).
  destruct (Nat.eqb (S (c_nidx c)) k); exists []; cbn; (split; [reflexivity|]; intro H; split; [assumption|]; exists (c_st c); split; [reflexivity | apply veq_refl]).
Qed.

Lemma restoring_tick_radd : forall flt, restoring (tick_radd flt).
Proof.
  intros flt c. unfold tick_radd. destruct flt as [[[|[|s]] k]|]; try (exists []; cbn; split; [reflexivity|]; intro H; split; [assumption|]; exists (c_st c); split; [reflexivity | apply veq_refl]).
  destruct (Nat.eqb (S (c_nradd c)) k); exists []; cbn; (split; [reflexivity|]; intro H; split; [assumption|]; exists (c_st c); split; [reflexivity | apply veq_refl]).
Qed.

(* a block of writes with the closure that undoes it *)
Lemma post_block : forall c w cl,
  (exists s', undo_closure cl (apply_writes w (c_st c)) = (s', true) /\ veq s' (c_st c)) ->
  post c (block w cl c).
Proof.
  intros c w cl [s' [Hu Hv]]. exists [cl]. cbn. split; [reflexivity|]. intro Ht. split; [assumption|].
  rewrite Hu. exists s'. split; [reflexivity | assumption].
Qed.

(* unlogged writes that change nothing visible *)
Lemma post_writes_noop : forall c w, veq (apply_writes w (c_st c)) (c_st c) -> post c (writes w c).
Proof.
  intros c w H. exists []. cbn. split; [reflexivity|]. intro Ht. split; [assumption|].
  exists (apply_writes w (c_st c)). split; [reflexivity | assumption].
Qed.

Lemma post_writes_tainted : forall c w, c_taint c <> [] -> post c (writes w c).
Proof. intros c w H. apply post_tainted; cbn; [assumption | exists []; reflexivity]. Qed.

(* failures only *)
Lemma restoring_err_of : forall A (m : M A), restoring m -> restoring_err m.
Proof. intros A m H c. specialize (H c). destruct (m c); cbn; auto. Qed.

Lemma restoring_err_bind : forall A B (m : M A) (f : A -> M B), restoring m -> (forall a, restoring_err (f a)) -> restoring_err (bind m f).
Proof.
  intros A B m f Hm Hf c. unfold bind. specialize (Hm c). destruct (m c) as [a c1|e c1] eqn:E.
  - specialize (Hf a c1). destruct (f a c1) as [b c2|e c2] eqn:E2; cbn in *; [exact I|].
    eapply (post_trans _ _ c (ROk a c1) (RErr e c2)); [exact Hm | exact Hf].
  - exact Hm.
Qed.

Lemma restoring_err_writes : forall w, restoring_err (writes w).
Proof. intros w c; exact I. Qed.
