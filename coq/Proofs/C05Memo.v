(* C05 - transparency of the three cache shapes of Model/C05Memo.v for every history, soundness of the SQL cache key
   under the read-set hypothesis, and the refutations (an unsound key, a raw write that leaves the result cache). *)
Require Import PonyV.Base.PyBase PonyV.Model.C05Memo.

(* ------------------------------------------------------------------------------------------- plain memo table *)
Section MemoProofs.
Variables I K V : Type.
Variable keqb : K -> K -> bool.
Variable key : I -> K.
Variable compute : I -> V.
Hypothesis keqb_eq : forall a b, keqb a b = true -> a = b.
Hypothesis key_sound : forall i1 i2, key i1 = key i2 -> compute i1 = compute i2.

Definition minv (t : table K V) : Prop := Forall (fun e => forall i, key i = fst e -> compute i = snd e) t.

Lemma lookup_minv : forall t k v, minv t -> lookup K V keqb t k = Some v -> forall i, key i = k -> compute i = v.
Proof.
  induction t as [|[k' v'] t IH]; intros k v Hi Hl i Hk; cbn in Hl; [discriminate|].
  inversion Hi as [|? ? He Ht]; subst. destruct (keqb k' (key i)) eqn:E.
  - inversion Hl; subst. apply keqb_eq in E. apply He. cbn. congruence.
  - eapply IH; eauto.
Qed.

Lemma step_minv : forall t o, minv t -> minv (fst (step I K V keqb key compute t o)).
Proof.
  intros t o Hi. destruct o as [i| |k]; cbn.
  - destruct (lookup K V keqb t (key i)); cbn; [exact Hi|]. constructor; [|exact Hi]. cbn. intros i' Hk. apply key_sound; exact Hk.
  - constructor.
  - unfold drop, minv in *. rewrite Forall_forall in *. intros e He. apply filter_In in He. apply Hi. tauto.
Qed.

Theorem memo_transparent_from : forall h t, minv t -> run I K V keqb key compute t h = map (fresh I K V compute) h.
Proof.
  induction h as [|o h IH]; intros t Hi; [reflexivity|]. cbn [run map].
  pose proof (step_minv t o Hi) as Hs. destruct (step I K V keqb key compute t o) as [t' a] eqn:E. cbn in Hs.
  rewrite (IH t' Hs). f_equal.
  destruct o as [i| |k]; cbn in E |- *.
  - destruct (lookup K V keqb t (key i)) as [v|] eqn:L; inversion E; subst; [|reflexivity].
    f_equal. symmetry. eapply lookup_minv; eauto.
  - inversion E; reflexivity.
  - inversion E; reflexivity.
Qed.

Theorem memo_transparent : forall h, run I K V keqb key compute [] h = map (fresh I K V compute) h.
Proof. intro h. apply memo_transparent_from. constructor. Qed.
End MemoProofs.

(* an unsound key is observable: two requests with one key and different answers *)
Theorem memo_unsound : forall I K V (keqb : K -> K -> bool) (key : I -> K) (compute : I -> V) i1 i2,
  (forall k, keqb k k = true) -> key i1 = key i2 -> compute i1 <> compute i2 ->
  run I K V keqb key compute [] [Get i1; Get i2] <> map (fresh I K V compute) [Get i1; Get i2].
Proof.
  intros I K V keqb key compute i1 i2 Hr Hk Hc. cbn. rewrite Hk, Hr. cbn. intro E. inversion E. congruence.
Qed.

(* ------------------------------------------------------------------------------------------- translator cache *)
Section ValidatedProofs.
Variables C VT P VAL A : Type.
Variable ceqb : C -> C -> bool.
Variable vteqb : VT -> VT -> bool.
Variable valeqb : VAL -> VAL -> bool.
Variable tr : C -> VT -> vars P VAL -> A * fixed P VAL.
Hypothesis ceqb_eq : forall a b, ceqb a b = true -> a = b.
Hypothesis vteqb_eq : forall a b, vteqb a b = true -> a = b.
Hypothesis valeqb_eq : forall a b, valeqb a b = true -> a = b.
Hypothesis Hread : read_set C VT P VAL A tr.

Notation tcache := (tcache C VT P VAL A).
Notation req := (req C VT P VAL).

Definition tinv (t : tcache) : Prop :=
  Forall (fun e => exists v0, snd e = tr (fst (fst e)) (snd (fst e)) v0) t.

Lemma tlookup_tinv : forall (t : tcache) k res, tinv t -> lookup _ _ (tkeqb C VT ceqb vteqb) t k = Some res ->
  exists v0, res = tr (fst k) (snd k) v0.
Proof.
  induction t as [|[k' r'] t IH]; intros k res Hi Hl; cbn in Hl; [discriminate|].
  inversion Hi as [|? ? He Ht]; subst. destruct (tkeqb C VT ceqb vteqb k' k) eqn:E.
  - inversion Hl; subst. unfold tkeqb in E. apply andb_prop in E. destruct E as [E1 E2].
    apply ceqb_eq in E1. apply vteqb_eq in E2. destruct He as [v0 He]. exists v0. cbn in He. rewrite <- E1, <- E2. exact He.
  - eapply IH; eauto.
Qed.

Lemma still_valid_spec : forall f (v : vars P VAL), still_valid P VAL valeqb f v = true -> forall p x, In (p, x) f -> v p = x.
Proof.
  intros f v H p x Hin. unfold still_valid in H. rewrite forallb_forall in H. specialize (H (p, x) Hin). cbn in H.
  symmetry. apply valeqb_eq. exact H.
Qed.

Lemma tstep_ok : forall (t : tcache) (r : req), tinv t ->
  let '(t', res, ev) := tstep C VT P VAL A ceqb vteqb valeqb tr t r in tinv t' /\ res = tfresh C VT P VAL A tr r.
Proof.
  intros t r Hi. unfold tstep, tfresh.
  destruct (lookup _ _ (tkeqb C VT ceqb vteqb) t (r_code _ _ _ _ r, r_vt _ _ _ _ r)) as [[a f]|] eqn:L.
  - destruct (tlookup_tinv _ _ _ Hi L) as [v0 E]. cbn in E.
    destruct (still_valid P VAL valeqb f (r_vars _ _ _ _ r)) eqn:SV.
    + split; [exact Hi|]. rewrite E. symmetry. apply Hread. intros p x Hin. rewrite <- E in Hin. cbn in Hin.
      eapply still_valid_spec; eauto.
    + split; [|reflexivity]. constructor; [cbn; eauto|].
      unfold drop, tinv in *. rewrite Forall_forall in *. intros e He. apply filter_In in He. apply Hi. tauto.
  - split; [|reflexivity]. constructor; [cbn; eauto|exact Hi].
Qed.

Theorem translator_transparent_from : forall h (t : tcache), tinv t ->
  map fst (trun C VT P VAL A ceqb vteqb valeqb tr t h) = map (tfresh C VT P VAL A tr) h.
Proof.
  induction h as [|r h IH]; intros t Hi; [reflexivity|]. cbn [trun].
  pose proof (tstep_ok t r Hi) as S. destruct (tstep C VT P VAL A ceqb vteqb valeqb tr t r) as [[t' res] ev].
  destruct S as [Hi' E]. cbn [map fst]. rewrite (IH t' Hi'), E. reflexivity.
Qed.

Theorem translator_transparent : forall h,
  map fst (trun C VT P VAL A ceqb vteqb valeqb tr [] h) = map (tfresh C VT P VAL A tr) h.
Proof. intro h. apply translator_transparent_from. constructor. Qed.

(* the SQL cache key *)
Variables O S : Type.
Variable build : A -> O -> S.
Hypothesis Hself : self_consistent C VT P VAL A tr.

Theorem sqlkey_sound : forall r1 r2 : sql_req C VT P VAL O,
  sql_key C VT P VAL A tr O r1 = sql_key C VT P VAL A tr O r2 ->
  sql_compute C VT P VAL A tr O S build r1 = sql_compute C VT P VAL A tr O S build r2.
Proof.
  intros [[c1 vt1 v1] o1] [[c2 vt2 v2] o2] H. unfold sql_key, sql_compute, tfresh in *. cbn in *.
  inversion H as [[Hc Hvt Hf Ho]]. subst c2 vt2 o2.
  assert (E : tr c1 vt1 v2 = tr c1 vt1 v1).
  { apply Hread. intros p x Hin. rewrite Hf in Hin. eapply Hself; eauto. }
  rewrite E. reflexivity.
Qed.
End ValidatedProofs.

(* without the comparison of the pinned values the translator cache is not transparent *)
Theorem translator_needs_validation :
  forall (tr : nat -> nat -> vars nat Z -> Z * fixed nat Z),
  tr = (fun _ _ v => (v 0%nat, [(0%nat, v 0%nat)])) ->
  read_set nat nat nat Z Z tr /\
  let always_valid := fun (_ _ : Z) => true in
  let r1 := mkreq nat nat nat Z 0%nat 0%nat (fun _ => 1) in let r2 := mkreq nat nat nat Z 0%nat 0%nat (fun _ => 2) in
  map fst (trun nat nat nat Z Z Nat.eqb Nat.eqb always_valid tr [] [r1; r2]) <> map (tfresh nat nat nat Z Z tr) [r1; r2] /\
  map fst (trun nat nat nat Z Z Nat.eqb Nat.eqb Z.eqb tr [] [r1; r2]) = map (tfresh nat nat nat Z Z tr) [r1; r2].
Proof.
  intros tr ->. split.
  - intros c vt v1 v2 H. cbn in *. rewrite (H 0%nat (v1 0%nat)) by (left; reflexivity). reflexivity.
  - cbv zeta. split; [|reflexivity]. cbn. discriminate.
Qed.

(* ------------------------------------------------------------------------------------------- session results *)
Section SessionProofs.
Variables DB W Q R : Type.
Variable qeqb : Q -> Q -> bool.
Variable exec : DB -> Q -> R.
Variable apply : DB -> W -> DB.
Variable raw_clears : bool.
Variable aggr_flushes : bool.
Hypothesis qeqb_eq : forall a b, qeqb a b = true -> a = b.

Notation sess := (sess DB W Q R).
Notation sstep := (sstep DB W Q R qeqb exec apply raw_clears aggr_flushes).
Notation srun := (srun DB W Q R qeqb exec apply raw_clears aggr_flushes).
Notation sflush := (sflush DB W Q R apply).
Notation cold_run := (cold_run DB W Q R exec apply).

Definition sinv (s : sess) : Prop := Forall (fun e => snd e = exec (s_db _ _ _ _ s) (fst e)) (s_cache _ _ _ _ s).

Lemma sflush_db : forall s : sess, s_db _ _ _ _ (sflush s) = fold_left apply (s_pending _ _ _ _ s) (s_db _ _ _ _ s).
Proof. intros [db p c]. unfold C05Memo.sflush. cbn. destruct p; reflexivity. Qed.
Lemma sflush_pending : forall s : sess, s_pending _ _ _ _ (sflush s) = [].
Proof. intros [db p c]. unfold C05Memo.sflush. cbn. destruct p; reflexivity. Qed.
Lemma sflush_inv : forall s : sess, sinv s -> sinv (sflush s).
Proof. intros [db p c] H. unfold C05Memo.sflush. cbn. destruct p; [exact H|constructor]. Qed.

Lemma slookup_inv : forall (c : list (Q * R)) db q r, Forall (fun e => snd e = exec db (fst e)) c ->
  lookup Q R qeqb c q = Some r -> r = exec db q.
Proof.
  induction c as [|[q' r'] c IH]; intros db q r Hi Hl; cbn in Hl; [discriminate|].
  inversion Hi as [|? ? He Hc]; subst. destruct (qeqb q' q) eqn:E.
  - inversion Hl; subst. apply qeqb_eq in E. subst. exact He.
  - eapply IH; eauto.
Qed.

Theorem results_transparent_from : forall h (s : sess), sinv s ->
  (raw_clears = true \/ forallb (fun o => negb (is_raw W Q o)) h = true) ->
  (aggr_flushes = true \/ forallb (fun o => negb (is_aggregate W Q o)) h = true) ->
  srun s h = cold_run (s_db _ _ _ _ s) (s_pending _ _ _ _ s) h.
Proof.
  induction h as [|o h IH]; intros s Hi Hraw Hagg; [reflexivity|].
  assert (Hraw' : raw_clears = true \/ forallb (fun o => negb (is_raw W Q o)) h = true).
  { destruct Hraw as [|H]; [left; assumption|right]. cbn in H. apply andb_prop in H. tauto. }
  assert (Hagg' : aggr_flushes = true \/ forallb (fun o => negb (is_aggregate W Q o)) h = true).
  { destruct Hagg as [|H]; [left; assumption|right]. cbn in H. apply andb_prop in H. tauto. }
  cbn [C05Memo.srun C05Memo.cold_run].
  pose proof (sflush_db s) as FD. pose proof (sflush_pending s) as FP. pose proof (sflush_inv s Hi) as FI.
  destruct o as [q|q|w| | |w|w]; cbn [C05Memo.sstep C05Memo.cold_step].
  - (* query *)
    destruct (lookup Q R qeqb (s_cache _ _ _ _ (sflush s)) q) as [r|] eqn:L.
    + rewrite (slookup_inv _ _ _ _ FI L), FD. f_equal. rewrite <- FD, <- FP. apply IH; assumption.
    + rewrite FD. f_equal.
      specialize (IH (mksess DB W Q R (s_db _ _ _ _ (sflush s)) [] ((q, exec (s_db _ _ _ _ (sflush s)) q) :: s_cache _ _ _ _ (sflush s)))).
      cbn in IH. rewrite FD in IH. apply IH; [|assumption|assumption]. unfold sinv. cbn. constructor; [reflexivity|]. rewrite <- FD. exact FI.
  - (* aggregate: only with the flush in front (the proposed repair) *)
    destruct Hagg as [Ha|Hn]; [|cbn in Hn; discriminate].
    replace (if aggr_flushes then sflush s else s) with (sflush s) by (rewrite Ha; reflexivity).
    destruct (lookup Q R qeqb (s_cache _ _ _ _ (sflush s)) q) as [r|] eqn:L.
    + rewrite (slookup_inv _ _ _ _ FI L), FD. f_equal. rewrite <- FD, <- FP. apply IH; assumption.
    + assert (FF : sflush (sflush s) = sflush s).
      { unfold C05Memo.sflush at 1. rewrite FP. reflexivity. }
      rewrite FF, FD. f_equal.
      specialize (IH (mksess DB W Q R (s_db _ _ _ _ (sflush s)) [] ((q, exec (s_db _ _ _ _ (sflush s)) q) :: s_cache _ _ _ _ (sflush s)))).
      cbn in IH. rewrite FD in IH. apply IH; [|assumption|assumption]. unfold sinv. cbn. constructor; [reflexivity|]. rewrite <- FD. exact FI.
  - (* modify *)
    f_equal. apply (IH (mksess DB W Q R (s_db _ _ _ _ s) (s_pending _ _ _ _ s ++ [w]) (s_cache _ _ _ _ s))); assumption.
  - (* flush *)
    f_equal. rewrite <- FD, <- FP. apply IH; assumption.
  - (* commit *)
    f_equal. rewrite <- FD. apply (IH (mksess DB W Q R (s_db _ _ _ _ (sflush s)) [] [])); [constructor|assumption|assumption].
  - (* bulk delete *)
    f_equal. rewrite <- FD. apply (IH (mksess DB W Q R (apply (s_db _ _ _ _ (sflush s)) w) [] [])); [constructor|assumption|assumption].
  - (* raw write *)
    f_equal. rewrite <- FD.
    destruct Hraw as [Hc|Hn].
    + replace (if raw_clears then [] else s_cache DB W Q R (sflush s)) with (@nil (Q * R)) by (rewrite Hc; reflexivity).
      apply (IH (mksess DB W Q R (apply (s_db _ _ _ _ (sflush s)) w) [] [])); [constructor|assumption|assumption].
    + cbn in Hn. discriminate.
Qed.

Theorem results_transparent : forall db h,
  (raw_clears = true \/ forallb (fun o => negb (is_raw W Q o)) h = true) ->
  (aggr_flushes = true \/ forallb (fun o => negb (is_aggregate W Q o)) h = true) ->
  srun (mksess DB W Q R db [] []) h = cold_run db [] h.
Proof. intros db h H1 H2. apply (results_transparent_from h (mksess DB W Q R db [] [])); [constructor|exact H1|exact H2]. Qed.
End SessionProofs.

(* a raw write between two executions of one query: the second answer is the stale list *)
Theorem results_stale_after_raw_write : forall DB W Q R (qeqb : Q -> Q -> bool) (exec : DB -> Q -> R) (apply : DB -> W -> DB) db q w,
  qeqb q q = true -> exec (apply db w) q <> exec db q ->
  let h := [SQuery W Q q; SRaw W Q w; SQuery W Q q] in
  forall aggr_flushes,
  srun DB W Q R qeqb exec apply false aggr_flushes (mksess DB W Q R db [] []) h <> cold_run DB W Q R exec apply db [] h /\
  srun DB W Q R qeqb exec apply false aggr_flushes (mksess DB W Q R db [] []) h = [Some (exec db q); None; Some (exec db q)].
Proof.
  intros DB W Q R qeqb exec apply db q w Hq Hne. cbv zeta. intro af. cbn. rewrite Hq. cbn. split; [|reflexivity].
  intro E. inversion E. congruence.
Qed.

(* count() / sum() ... after an unflushed modification: Query._aggregate finds the old number in query_results because the
   flush (which clears it) only happens inside _exec_sql, after the lookup *)
Theorem aggregate_stale_after_unflushed_modification :
  forall DB W Q R (qeqb : Q -> Q -> bool) (exec : DB -> Q -> R) (apply : DB -> W -> DB) db q w,
  qeqb q q = true -> exec (apply db w) q <> exec db q ->
  let h := [SAggregate W Q q; SModify W Q w; SAggregate W Q q] in
  forall raw_clears,
  srun DB W Q R qeqb exec apply raw_clears false (mksess DB W Q R db [] []) h <> cold_run DB W Q R exec apply db [] h /\
  srun DB W Q R qeqb exec apply raw_clears false (mksess DB W Q R db [] []) h = [Some (exec db q); None; Some (exec db q)] /\
  srun DB W Q R qeqb exec apply raw_clears true (mksess DB W Q R db [] []) h = cold_run DB W Q R exec apply db [] h.
Proof.
  intros DB W Q R qeqb exec apply db q w Hq Hne. cbv zeta. intro rc. cbn. rewrite Hq. cbn. repeat split.
  intro E. inversion E. congruence.
Qed.
