(* C20, model Multi: a session's commit is all-or-nothing across objects; every UPDATE of a successful flush passed its own
   optimistic check against the state the transaction started from. *)
From Coq Require Import ZArith List Bool Lia Arith.
Import ListNotations.
Require Import PonyV.Model.C20Opt PonyV.Model.C20Life PonyV.Model.C20Multi PonyV.Proofs.C20OptProofs.

Lemma memb_In o l : memb o l = true <-> In o l.
Proof.
  unfold memb. rewrite existsb_exists. split.
  - intros [x [H E]]. apply Nat.eqb_eq in E. now subst.
  - intros H. exists o. split; auto. apply Nat.eqb_refl.
Qed.

(* the flush of a duplicate-free objects_to_save list *)
Lemma flush_objs_ok k sch : forall ord t xs tr t' xs' tr',
  NoDup ord -> flush_objs k sch t xs ord tr = (Some (t', xs'), tr') ->
  (forall o, In o ord -> matches (t o) (criteria k sch (xs o)) = true /\ t' o = apply_sets (t o) (set_list k (xs o)))
  /\ (forall o, ~ In o ord -> t' o = t o /\ xs' o = xs o).
Proof.
  induction ord as [|o rest IH]; intros t xs tr t' xs' tr' ND H; cbn [flush_objs] in H.
  - injection H as <- <- _. split; [intros o []|auto].
  - destruct (matches (t o) (criteria k sch (xs o))) eqn:M; [|discriminate].
    inversion ND as [|? ? Hn ND']; subst.
    destruct (IH _ _ _ _ _ _ ND' H) as [A B]. split.
    + intros o' [<-|Hin].
      * destruct (B o Hn) as [-> _]. rewrite upd_same. auto.
      * assert (o' <> o) as Ne by (intros ->; contradiction).
        destruct (A o' Hin) as [M' E']. rewrite !upd_other in M' by auto. rewrite !upd_other in E' by auto. auto.
    + intros o' Hn'. assert (o' <> o) as Ne by (intros ->; apply Hn'; now left).
      destruct (B o') as [E1 E2]; [intros Hin; apply Hn'; now right|]. rewrite upd_other in E1 by auto. rewrite upd_other in E2 by auto. auto.
Qed.

Lemma flush_objs_fail k sch : forall ord t xs tr tr', flush_objs k sch t xs ord tr = (None, tr') -> exists r, tr' = MFail E_OPT :: r.
Proof.
  induction ord as [|o rest IH]; intros t xs tr tr' H; cbn [flush_objs] in H; [discriminate|].
  destruct (matches _ _); [eapply IH; exact H|]. injection H as <-. eexists. reflexivity.
Qed.

(* facts about the flush as a whole *)
Lemma m_flush_db k sch s : mdb (m_flush k sch s) = mdb s.
Proof.
  unfold m_flush. destruct (mord s); [reflexivity|].
  destruct (flush_objs k sch (mview s) (mx s) (n :: l) (mtrace s)) as [[[t' xs']|] tr]; reflexivity.
Qed.

Lemma m_flush_fail k sch s : mfail s = None -> mfail (m_flush k sch s) <> None -> mtxn (m_flush k sch s) = None.
Proof.
  unfold m_flush. destruct (mord s); [congruence|].
  destruct (flush_objs k sch (mview s) (mx s) (n :: l) (mtrace s)) as [[[t' xs']|] tr]; cbn; congruence.
Qed.

Lemma m_load_db k sch s o : mdb (m_load k sch s o) = mdb s.
Proof.
  unfold m_load. destruct (loaded (mx s o)); [reflexivity|].
  destruct (mfail (m_flush k sch s)) eqn:F; [apply m_flush_db | cbn; apply m_flush_db].
Qed.

Lemma m_load_fail k sch s o : mfail s = None -> mfail (m_load k sch s o) <> None -> mtxn (m_load k sch s o) = None.
Proof.
  unfold m_load. destruct (loaded (mx s o)); [congruence|]. intros F.
  destruct (mfail (m_flush k sch s)) eqn:F1; [intros _; apply m_flush_fail; congruence | cbn; congruence].
Qed.

(* all-or-nothing: a step that ends the session in an error leaves the committed rows untouched and no transaction open;
   committed rows change only through another session's commit (lock free) or this session's successful commit. *)
Lemma all_or_nothing k sch s e :
  let s' := mstep k sch s e in
  (mfail s = None -> mfail s' <> None -> mdb s' = mdb s /\ mtxn s' = None)
  /\ (mdb s' <> mdb s -> (exists o a v, e = MExt o a v /\ mtxn s = None) \/ (e = MCommit /\ mfail s = None /\ mfail s' = None /\ mtxn s' = None)).
Proof.
  cbn zeta. unfold mstep. destruct e as [o a | o a ex | | o a v].
  4:{ destruct (mtxn s) eqn:T; cbn.
      - split; [congruence | congruence].
      - split; [congruence|]. intros _. left. eauto. }
  all: destruct (mfail s) eqn:F; [split; congruence|].
  - pose proof (m_load_db k sch s o) as D. pose proof (m_load_fail k sch s o F) as LF.
    destruct (mfail (m_load k sch s o)) eqn:F1.
    + split; [intros _ _; split; [exact D | apply LF; congruence] | congruence].
    + destruct (do_get sch (mx (m_load k sch s o) o) a) as [[x2 v] f]. cbn. split; [congruence | congruence].
  - pose proof (m_load_db k sch s o) as D. pose proof (m_load_fail k sch s o F) as LF.
    destruct ex as [v | b d].
    + destruct (mfail (m_load k sch s o)) eqn:F1.
      * split; [intros _ _; split; [exact D | apply LF; congruence] | congruence].
      * cbn. split; congruence.
    + destruct (mfail (m_load k sch s o)) eqn:F1.
      * split; [intros _ _; split; [exact D | apply LF; congruence] | congruence].
      * destruct (do_get sch (mx (m_load k sch s o) o) b) as [[x2 v] f]. destruct v; cbn; split; congruence || (intros; split; congruence).
  - pose proof (m_flush_db k sch s) as D. pose proof (m_flush_fail k sch s F) as FF.
    destruct (mfail (m_flush k sch s)) eqn:F1.
    + split; [intros _ _; split; [exact D | apply FF; congruence] | congruence].
    + cbn. split; [congruence|]. intros _. right. auto.
Qed.

(* objects_to_save never holds an object twice *)
Definition minv (s : mstate) : Prop := NoDup (mord s).

Lemma m_flush_ord k sch s : minv s -> minv (m_flush k sch s).
Proof.
  unfold minv, m_flush. intros N. destruct (mord s) eqn:E; [rewrite E; exact N|].
  destruct (flush_objs k sch (mview s) (mx s) (n :: l) (mtrace s)) as [[[t' xs']|] tr]; cbn.
  - apply NoDup_nil.
  - first [exact N | rewrite E; exact N].
Qed.

Lemma m_load_ord k sch s o : minv s -> minv (m_load k sch s o).
Proof.
  intros N. unfold m_load. destruct (loaded (mx s o)); [exact N|].
  pose proof (m_flush_ord k sch s N) as N1. destruct (mfail (m_flush k sch s)); [exact N1 | exact N1].
Qed.

Lemma m_put_ord s o x m evs : minv s -> minv (m_put s o x m evs).
Proof.
  unfold minv, m_put. cbn. intros N. destruct (m && negb (memb o (mord s))) eqn:E; [|exact N].
  apply andb_true_iff in E. destruct E as [_ E]. apply negb_true_iff in E.
  apply NoDup_app_intro_r || idtac.
  assert (~ In o (mord s)) as Hn by (intros H; apply memb_In in H; congruence).
  clear E. induction (mord s) as [|y l IH]; cbn.
  - constructor; [intros []|constructor].
  - inversion N as [|? ? Hy Nl]; subst. constructor.
    + rewrite in_app_iff. intros [H|[H|[]]]; [contradiction | subst; apply Hn; now left].
    + apply IH; auto. intros H. apply Hn. now right.
Qed.

Lemma minv_step k sch s e : minv s -> minv (mstep k sch s e).
Proof.
  intros N. unfold mstep. destruct e as [o a | o a ex | | o a v].
  4:{ destruct (mtxn s); exact N. }
  all: destruct (mfail s); [exact N|].
  - pose proof (m_load_ord k sch s o N) as N1. destruct (mfail (m_load k sch s o)); [exact N1|].
    destruct (do_get sch (mx (m_load k sch s o) o) a) as [[x2 v] f]. now apply m_put_ord.
  - pose proof (m_load_ord k sch s o N) as N1. destruct ex as [v | b d].
    + destruct (mfail (m_load k sch s o)); [exact N1 | now apply m_put_ord].
    + destruct (mfail (m_load k sch s o)); [exact N1|].
      destruct (do_get sch (mx (m_load k sch s o) o) b) as [[x2 v] f]. destruct v; [now apply m_put_ord | exact N1].
  - pose proof (m_flush_ord k sch s N) as N1. destruct (mfail (m_flush k sch s)); exact N1.
Qed.

Lemma minv_run k sch evs : forall s, minv s -> minv (mrunm k sch s evs).
Proof. induction evs as [|e r IH]; intros s N; cbn; auto. apply IH. now apply minv_step. Qed.

(* in every reachable state: if the flush succeeds, every modified object passed its optimistic check against the view the
   flush started from, and received exactly its writes; objects not modified are untouched *)
Lemma flush_checked k sch d evs :
  let s := mrunm k sch (minit0 d) evs in
  mfail s = None -> mfail (m_flush k sch s) = None ->
  (forall o, In o (mord s) -> matches (mview s o) (criteria k sch (mx s o)) = true
                              /\ mview (m_flush k sch s) o = apply_sets (mview s o) (set_list k (mx s o)))
  /\ (forall o, ~ In o (mord s) -> mview (m_flush k sch s) o = mview s o).
Proof.
  cbn zeta. set (s := mrunm k sch (minit0 d) evs). intros F F1.
  assert (NoDup (mord s)) as N by (apply minv_run; constructor).
  unfold m_flush in *. destruct (mord s) as [|o0 l] eqn:E; [split; [intros o [] | reflexivity]|].
  destruct (flush_objs k sch (mview s) (mx s) (o0 :: l) (mtrace s)) as [[[t' xs']|] tr] eqn:FO; [|cbn in F1; discriminate].
  destruct (flush_objs_ok k sch _ _ _ _ _ _ _ N FO) as [A B]. split.
  - intros o Hin. destruct (A o Hin) as [M Eq]. split; [exact M | exact Eq].
  - intros o Hn. destruct (B o Hn) as [Eq _]. exact Eq.
Qed.
