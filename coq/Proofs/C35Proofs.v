(* C35 - locking reads and serializable sessions on SQLite: consequences of the lock invariant (C19) and of the event invariant. *)
From Coq Require Import ZArith List Bool Arith Lia.
Import ListNotations.
Require Import PonyV.Model.C19Txn PonyV.Proofs.C19Base PonyV.Proofs.C19Proofs PonyV.Proofs.C19Proofs2 PonyV.Proofs.C19Proofs3 PonyV.Gen.C35ForUpdate.

(* new events of a step, as a list *)
Lemma suffix_forall : forall sh oth tr tr', Suffix sh oth tr tr' ->
  exists evs, tr' = evs ++ tr /\ forall e, In e evs -> good_ev sh oth e = true.
Proof.
  intros sh oth tr tr' H. destruct (Suffix_app _ _ _ _ H) as (evs & -> & Hall).
  exists evs. split; auto. intros e He. rewrite forallb_forall in Hall. auto.
Qed.

(* in an immediate / serializable / ddl session every statement runs inside an open transaction with the lock held by this thread *)
Lemma good_ev_imm_stmt : forall sh oth e, shape_imm sh = true -> good_ev sh oth e = true -> is_stmt e = true ->
  e_txn e = true /\ e_lock e = true /\ e_mine e = true.
Proof.
  intros sh oth e Hs H Hst. unfold good_ev in H. rewrite Hs, Hst in H. rewrite Bool.andb_true_r, Bool.orb_true_r in H.
  apply andb_prop in H. destruct H as (H & _). apply andb_prop in H. destruct H as (H & _).
  apply andb_prop in H. destruct H as (H & H3). apply andb_prop in H. destruct H as (H1 & H2). auto.
Qed.

Lemma serializable_lemma : forall oracle sh b s, shape_imm sh = true -> WF s -> k_reg s = false -> lock s = false ->
  exists r s' evs, run_session oracle sh b s = (r, s') /\ r <> Blocked /\ trace s' = evs ++ trace s /\ flags_ok (trace s') = true /\
    forall e, In e evs -> is_stmt e = true -> e_txn e = true /\ e_lock e = true /\ e_mine e = true.
Proof.
  intros oracle sh b s Hs Hwf Hreg Hlock.
  destruct (released_lemma oracle sh b s Hwf Hreg Hlock) as (r & s' & E & Hr & Hwf' & _ & _ & _ & _ & _ & _ & _ & _ & _ & Hsuf).
  destruct (suffix_forall _ _ _ _ Hsuf) as (evs & Ht & Hall).
  exists r, s', evs. repeat split; auto; try apply Hwf'; eapply good_ev_imm_stmt; eauto.
Qed.

(* while thread i is in a transaction, a step of another thread j issues no write (and never becomes the lock holder) *)
Lemma other_thread_no_write : forall orc g i j a, GInv g -> mine (snd g i) = true -> j <> i ->
  let s := set_lock (fst g) (snd g j) in
  match tstep (orc j) a s with
  | (Blocked, _) => True
  | (_, s') => exists evs, trace s' = evs ++ trace s /\ forall e, In e evs -> is_write e = false /\ e_mine e = false
  end.
Proof.
  intros orc [L ts] i j a (Hwf & Hex & Huniq) Hmi Hji. cbn [fst snd] in *.
  pose proof (tstep_spec (orc j) a _ (Hwf j)) as H.
  assert (Hoth : other (set_lock L (ts j)) = true).
  { unfold other. change (mine (set_lock L (ts j))) with (mine (ts j)). change (lock (set_lock L (ts j))) with L.
    assert (HL : L = true) by (apply (WF_mine_lock _ (Hwf i)); exact Hmi).
    assert (Hmj : mine (ts j) = false).
    { destruct (mine (ts j)) eqn:E; auto. exfalso. apply Hji. apply Huniq; auto. }
    rewrite HL, Hmj. reflexivity. }
  destruct (tstep (orc j) a (set_lock L (ts j))) as [r s']. destruct r; auto.
  all: destruct H as (_ & _ & Hsuf); rewrite Hoth in Hsuf;
       destruct (suffix_forall _ _ _ _ Hsuf) as (evs & Ht & Hall); exists evs; split; auto;
       intros ev Hev; eapply good_ev_other; eauto.
Qed.

(* the SQL text (Gen/C35ForUpdate.v is re-translated from /repo on every run) *)
Definition str_FOR_UPDATE : list Z := [70; 79; 82; 32; 85; 80; 68; 65; 84; 69].
Definition str_NOWAIT : list Z := [32; 78; 79; 87; 65; 73; 84].
Definition str_SKIP_LOCKED : list Z := [32; 83; 75; 73; 80; 32; 76; 79; 67; 75; 69; 68].
Lemma for_update_text : forall nowait skip,
  concat (generic_for_update nowait skip) = str_FOR_UPDATE ++ (if nowait then str_NOWAIT else []) ++ (if skip then str_SKIP_LOCKED else []) ++ [10%Z]
  /\ concat (sqlite_for_update nowait skip) = [].
Proof. intros [] []; split; reflexivity. Qed.

(* get_for_update by any key (pk, unique key, composite key), the object cached or not, already locked or not: when it
   returns, this session is in a transaction, holds the provider lock, and counts a locked object *)
Lemma getfu_locks : forall oracle cached locked s, WF s -> (locked = true -> 0 < k_forupd s)%nat ->
  match run_op oracle (OGetFU cached locked) s with
  | (Ok, s') => k_intxn s' = true /\ mine s' = true /\ lock s' = true /\ (0 < k_forupd s')%nat
  | _ => True
  end.
Proof.
  intros oracle cached locked s Hwf Hl.
  pose proof (run_op_spec oracle (OGetFU cached locked) s Hwf) as Hspec. unfold Post in Hspec.
  cbn [run_op] in *. destruct (cached && locked) eqn:Ecl.
  - apply andb_prop in Ecl. destruct Ecl as (_ & ->). specialize (Hl eq_refl).
    assert (Hi : k_intxn s = true) by (apply (wf_forupd _ Hwf); exact Hl).
    assert (Hr : k_reg s = true).
    { destruct (k_reg s) eqn:E; auto. destruct (WF_noreg s Hwf E). congruence. }
    unfold get_cache. rewrite Hr. repeat split; auto.
    + rewrite (w_mine _ (wf_w _ Hwf)). exact Hi.
    + apply (WF_mine_lock _ Hwf). rewrite (w_mine _ (wf_w _ Hwf)). exact Hi.
  - clear Hspec.
    unfold bind at 1. destruct (get_cache_spec s Hwf) as (s1 & -> & Hwf1 & Hx1 & Hreg1 & _).
    unfold bind at 1. unfold upd at 1.
    assert (Hwf2 : WF (set_k_imm true s1)) by (apply WF_set_imm_true; exact Hwf1).
    set (s2 := set_k_imm true s1) in *. clearbody s2.
    unfold bind at 1. unfold exec.
    use (exec_spec oracle false SSelect s2 Hwf2 (or_introl eq_refl)); auto.
    destruct H as (Hwf3 & _).
    unfold bind. destruct (k_intxn s0) eqn:Hi; cbn [assert_]; unfold ret, raise, upd; auto.
    assert (Hwf' : WF (set_k_forupd (S (k_forupd s0)) s0)) by (apply WF_set_forupd; auto).
    assert (Hi' : k_intxn (set_k_forupd (S (k_forupd s0)) s0) = true) by exact Hi.
    repeat split; auto.
    + rewrite (w_mine _ (wf_w _ Hwf')). exact Hi'.
    + apply (WF_mine_lock _ Hwf'). rewrite (w_mine _ (wf_w _ Hwf')). exact Hi'.
    + cbn. lia.
Qed.

(* the one-to-one attribute without a column: get_for_update(w = obj) either finds the already locked object or fails loudly *)
Lemma getfu_rev_locks : forall oracle locked s, WF s -> (locked = true -> 0 < k_forupd s)%nat ->
  match run_op oracle (OGetFURev locked) s with
  | (Ok, s') => locked = true /\ k_intxn s' = true /\ mine s' = true /\ lock s' = true
  | (Err e, s') => locked = false /\ e = ENotImpl /\ trace s' = trace s
  | (Blocked, _) => False
  end.
Proof.
  intros oracle locked s Hwf Hl. cbn [run_op]. unfold bind.
  assert (Ht : trace (snd (get_cache s)) = trace s) by (unfold get_cache; destruct (k_reg s); reflexivity).
  destruct (get_cache_spec s Hwf) as (s1 & Hg & Hwf1 & Hx1 & _ & Hsame & _). rewrite Hg in *. cbn [snd] in Ht.
  destruct locked; unfold ret, raise.
  - specialize (Hl eq_refl).
    assert (Hi : k_intxn s = true) by (apply (wf_forupd _ Hwf); exact Hl).
    assert (Hr : k_reg s = true).
    { destruct (k_reg s) eqn:E; auto. destruct (WF_noreg s Hwf E). congruence. }
    rewrite (Hsame Hr). repeat split; auto.
    + rewrite (w_mine _ (wf_w _ Hwf)). exact Hi.
    + apply (WF_mine_lock _ Hwf). rewrite (w_mine _ (wf_w _ Hwf)). exact Hi.
  - repeat split; auto.
Qed.
