(* C03 - soundness and completeness of the truth-table equivalence checker of Model/C03Bexp.v,
   for ANY number of atoms (induction over the atom list; no fixed bound). *)
From Coq Require Import List Bool Arith Lia.
Import ListNotations.
Require Import PonyV.Model.C03Bexp.

(* ---------------------------------------------------------------- induction principle for the nested type *)
Section BexpInd.
  Variable P : bexp -> Prop.
  Hypothesis HAtom : forall n, P (Atom n).
  Hypothesis HConst : forall v, P (Const v).
  Hypothesis HNot : forall e, P e -> P (Not e).
  Hypothesis HAnd : forall l, Forall P l -> P (And l).
  Hypothesis HOr : forall l, Forall P l -> P (Or l).
  Hypothesis HIf : forall c a b, P c -> P a -> P b -> P (IfExp c a b).
  Hypothesis HCmp : forall ne a b, P a -> P b -> P (Cmp ne a b).
  Hypothesis HIsNone : forall neg e, P e -> P (IsNone neg e).

  Fixpoint bexp_ind2 (e : bexp) : P e :=
    match e with
    | Atom n => HAtom n
    | Const v => HConst v
    | Not e1 => HNot e1 (bexp_ind2 e1)
    | And l => HAnd l ((fix go (l : list bexp) : Forall P l :=
                          match l with [] => Forall_nil P | x :: r => Forall_cons x (bexp_ind2 x) (go r) end) l)
    | Or l => HOr l ((fix go (l : list bexp) : Forall P l :=
                          match l with [] => Forall_nil P | x :: r => Forall_cons x (bexp_ind2 x) (go r) end) l)
    | IfExp c a b => HIf c a b (bexp_ind2 c) (bexp_ind2 a) (bexp_ind2 b)
    | Cmp ne a b => HCmp ne a b (bexp_ind2 a) (bexp_ind2 b)
    | IsNone neg e1 => HIsNone neg e1 (bexp_ind2 e1)
    end.
End BexpInd.

(* ---------------------------------------------------------------- unfolding lemmas *)
Lemma eval_And : forall rho l, eval rho (And l) = eval_and rho l.
Proof.
  intros rho l. cbn [eval]. induction l as [|x r IH]; [reflexivity|].
  cbn [eval_and]. destruct r as [|y s]; [reflexivity|]. rewrite <- IH. reflexivity.
Qed.

Lemma eval_Or : forall rho l, eval rho (Or l) = eval_or rho l.
Proof.
  intros rho l. cbn [eval]. induction l as [|x r IH]; [reflexivity|].
  cbn [eval_or]. destruct r as [|y s]; [reflexivity|]. rewrite <- IH. reflexivity.
Qed.

Lemma atoms_And : forall l, atoms (And l) = atoms_list l.
Proof. intros l. cbn [atoms]. induction l as [|x r IH]; [reflexivity|]. cbn [atoms_list]. rewrite <- IH. reflexivity. Qed.
Lemma atoms_Or : forall l, atoms (Or l) = atoms_list l.
Proof. intros l. cbn [atoms]. induction l as [|x r IH]; [reflexivity|]. cbn [atoms_list]. rewrite <- IH. reflexivity. Qed.

Lemma bexp_eqb_And : forall l m, bexp_eqb (And l) (And m) = bexp_list_eqb l m.
Proof.
  intros l. cbn [bexp_eqb]. induction l as [|x r IH]; intros [|y s]; try reflexivity;
  try (cbn [bexp_list_eqb]; rewrite <- IH; reflexivity).
Qed.
Lemma bexp_eqb_Or : forall l m, bexp_eqb (Or l) (Or m) = bexp_list_eqb l m.
Proof.
  intros l. cbn [bexp_eqb]. induction l as [|x r IH]; intros [|y s]; try reflexivity;
  try (cbn [bexp_list_eqb]; rewrite <- IH; reflexivity).
Qed.

Lemma val_eqb_eq : forall a b, val_eqb a b = true <-> a = b.
Proof. intros [] []; cbn; split; intro H; try reflexivity; try discriminate. Qed.

Lemma val_eqb_refl : forall a, val_eqb a a = true.
Proof. intros []; reflexivity. Qed.

(* ---------------------------------------------------------------- eval only looks at the atoms that occur *)
Definition agree (xs : list nat) (rho rho' : env) : Prop := forall x, In x xs -> rho x = rho' x.

Lemma agree_app : forall xs ys rho rho', agree (xs ++ ys) rho rho' -> agree xs rho rho' /\ agree ys rho rho'.
Proof. intros xs ys rho rho' H. split; intros x Hx; apply H; apply in_or_app; auto. Qed.

Lemma eval_agree : forall e rho rho', agree (atoms e) rho rho' -> eval rho e = eval rho' e.
Proof.
  induction e as [n|v|e IH|l IH|l IH|c a b IHc IHa IHb|ne a b IHa IHb|neg e IH] using bexp_ind2; intros rho rho' Hag.
  - apply Hag. left. reflexivity.
  - reflexivity.
  - cbn [eval]. rewrite (IH rho rho' Hag). reflexivity.
  - rewrite !eval_And. rewrite atoms_And in Hag.
    induction l as [|x r IHl]; [reflexivity|].
    cbn [atoms_list] in Hag. apply agree_app in Hag. destruct Hag as [Hx Hr].
    inversion IH as [|x' r' Px Pr]; subst.
    cbn [eval_and]. rewrite (Px rho rho' Hx). destruct r as [|y s]; [reflexivity|].
    rewrite (IHl Pr Hr). reflexivity.
  - rewrite !eval_Or. rewrite atoms_Or in Hag.
    induction l as [|x r IHl]; [reflexivity|].
    cbn [atoms_list] in Hag. apply agree_app in Hag. destruct Hag as [Hx Hr].
    inversion IH as [|x' r' Px Pr]; subst.
    cbn [eval_or]. rewrite (Px rho rho' Hx). destruct r as [|y s]; [reflexivity|].
    rewrite (IHl Pr Hr). reflexivity.
  - cbn [atoms] in Hag. apply agree_app in Hag. destruct Hag as [Hc Hab]. apply agree_app in Hab. destruct Hab as [Ha Hb].
    cbn [eval]. rewrite (IHc _ _ Hc), (IHa _ _ Ha), (IHb _ _ Hb). reflexivity.
  - cbn [atoms] in Hag. apply agree_app in Hag. destruct Hag as [Ha Hb].
    cbn [eval]. rewrite (IHa _ _ Ha), (IHb _ _ Hb). reflexivity.
  - cbn [eval]. rewrite (IH rho rho' Hag). reflexivity.
Qed.

(* ---------------------------------------------------------------- the table enumerates every assignment *)
Lemma in_DOM : forall v, In v DOM.
Proof. intros []; cbn; auto. Qed.

Lemma envs_complete : forall xs rho, exists rho', In rho' (envs xs) /\ agree xs rho' rho.
Proof.
  induction xs as [|x r IH]; intros rho.
  - exists (fun _ => VFalse). split; [left; reflexivity| intros y []].
  - destruct (IH rho) as [rho0 [Hin Hag]].
    exists (upd x (rho x) rho0). split.
    + cbn [envs]. apply in_flat_map. exists rho0. split; [exact Hin|].
      apply in_map_iff. exists (rho x). split; [reflexivity | apply in_DOM].
    + intros y Hy. unfold upd. destruct (Nat.eqb y x) eqn:E.
      * apply Nat.eqb_eq in E. subst. reflexivity.
      * destruct Hy as [Hy|Hy]; [subst; rewrite Nat.eqb_refl in E; discriminate | apply Hag; exact Hy].
Qed.

Lemma atoms2_l : forall e f x, In x (atoms e) -> In x (atoms2 e f).
Proof. intros. unfold atoms2. apply nodup_In. apply in_or_app. auto. Qed.
Lemma atoms2_r : forall e f x, In x (atoms f) -> In x (atoms2 e f).
Proof. intros. unfold atoms2. apply nodup_In. apply in_or_app. auto. Qed.

(* ---------------------------------------------------------------- syntactic equality *)
Lemma bexp_eqb_sound : forall e f, bexp_eqb e f = true -> e = f.
Proof.
  induction e as [n|v|e IH|l IH|l IH|c a b IHc IHa IHb|ne a b IHa IHb|neg e IH] using bexp_ind2; intros f H; destruct f; try discriminate H.
  - cbn in H. apply Nat.eqb_eq in H. subst. reflexivity.
  - cbn [bexp_eqb] in H. apply val_eqb_eq in H. subst. reflexivity.
  - cbn [bexp_eqb] in H. f_equal. apply IH. exact H.
  - rewrite bexp_eqb_And in H. f_equal. revert l0 H.
    induction l as [|x r IHl]; intros [|y s] H; try discriminate H; [reflexivity|].
    inversion IH as [|x' r' Px Pr]; subst. cbn [bexp_list_eqb] in H. apply andb_true_iff in H. destruct H as [H1 H2].
    f_equal; [apply Px; exact H1 | apply IHl; assumption].
  - rewrite bexp_eqb_Or in H. f_equal. revert l0 H.
    induction l as [|x r IHl]; intros [|y s] H; try discriminate H; [reflexivity|].
    inversion IH as [|x' r' Px Pr]; subst. cbn [bexp_list_eqb] in H. apply andb_true_iff in H. destruct H as [H1 H2].
    f_equal; [apply Px; exact H1 | apply IHl; assumption].
  - cbn [bexp_eqb] in H. apply andb_true_iff in H. destruct H as [H H3]. apply andb_true_iff in H. destruct H as [H1 H2].
    f_equal; auto.
  - cbn [bexp_eqb] in H. apply andb_true_iff in H. destruct H as [H H3]. apply andb_true_iff in H. destruct H as [H1 H2].
    apply eqb_prop in H1. f_equal; auto.
  - cbn [bexp_eqb] in H. apply andb_true_iff in H. destruct H as [H1 H2]. apply eqb_prop in H1. f_equal; auto.
Qed.

(* ---------------------------------------------------------------- soundness *)
Lemma table_val_sound : forall e f, table_val e f = true -> forall rho, eval rho e = eval rho f.
Proof.
  intros e f H rho. unfold table_val in H. rewrite forallb_forall in H.
  destruct (envs_complete (atoms2 e f) rho) as [rho' [Hin Hag]].
  specialize (H rho' Hin). apply val_eqb_eq in H.
  rewrite <- (eval_agree e rho' rho), <- (eval_agree f rho' rho); [exact H | |].
  - intros x Hx. apply Hag. apply atoms2_r. exact Hx.
  - intros x Hx. apply Hag. apply atoms2_l. exact Hx.
Qed.

Lemma table_truth_sound : forall e f, table_truth e f = true -> forall rho, truthy (eval rho e) = truthy (eval rho f).
Proof.
  intros e f H rho. unfold table_truth in H. rewrite forallb_forall in H.
  destruct (envs_complete (atoms2 e f) rho) as [rho' [Hin Hag]].
  specialize (H rho' Hin). apply eqb_prop in H.
  rewrite <- (eval_agree e rho' rho), <- (eval_agree f rho' rho); [exact H | |].
  - intros x Hx. apply Hag. apply atoms2_r. exact Hx.
  - intros x Hx. apply Hag. apply atoms2_l. exact Hx.
Qed.

Theorem checker_sound : forall e f, equiv_check e f = true -> forall rho, eval rho e = eval rho f.
Proof.
  intros e f H rho. unfold equiv_check in H. apply orb_true_iff in H. destruct H as [H|H].
  - apply bexp_eqb_sound in H. subst. reflexivity.
  - apply table_val_sound. exact H.
Qed.

Theorem checker_truth_sound : forall e f, equiv_check_truth e f = true -> forall rho, truthy (eval rho e) = truthy (eval rho f).
Proof.
  intros e f H rho. unfold equiv_check_truth in H. apply orb_true_iff in H. destruct H as [H|H].
  - apply bexp_eqb_sound in H. subst. reflexivity.
  - apply table_truth_sound. exact H.
Qed.

(* ---------------------------------------------------------------- completeness: a `false` answer comes with a real counterexample *)
Lemma forallb_false_ex : forall (A : Type) (p : A -> bool) (l : list A), forallb p l = false -> exists x, In x l /\ p x = false.
Proof.
  intros A p l. induction l as [|x r IH]; intro H; [discriminate H|].
  cbn [forallb] in H. destruct (p x) eqn:E.
  - destruct (IH H) as [y [Hy Hp]]. exists y. split; [right; exact Hy | exact Hp].
  - exists x. split; [left; reflexivity | exact E].
Qed.

Theorem checker_complete : forall e f, equiv_check e f = false -> exists rho, eval rho e <> eval rho f.
Proof.
  intros e f H. unfold equiv_check in H. apply orb_false_iff in H. destruct H as [_ H].
  apply forallb_false_ex in H. destruct H as [rho [_ Hp]]. exists rho. intro Heq. rewrite Heq, val_eqb_refl in Hp. discriminate Hp.
Qed.

Theorem checker_truth_complete : forall e f, equiv_check_truth e f = false -> exists rho, truthy (eval rho e) <> truthy (eval rho f).
Proof.
  intros e f H. unfold equiv_check_truth in H. apply orb_false_iff in H. destruct H as [_ H].
  apply forallb_false_ex in H. destruct H as [rho [_ Hp]]. exists rho. intro Heq. rewrite Heq, eqb_reflx in Hp. discriminate Hp.
Qed.

(* the table has 4^n rows for n listed atoms *)
Lemma envs_length : forall xs, length (envs xs) = 4 ^ length xs.
Proof.
  induction xs as [|x r IH]; [reflexivity|].
  cbn [envs length]. rewrite Nat.pow_succ_r'. rewrite <- IH. clear IH.
  induction (envs r) as [|rho l IHl]; [reflexivity|].
  cbn [flat_map]. rewrite app_length, IHl. cbn [map DOM length]. lia.
Qed.
