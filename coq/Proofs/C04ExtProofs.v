(* C04 - PreTranslator's marking (Model/C04Ext.v): soundness (an external subtree mentions no query variable and no lambda parameter
   of its context, so evaluating it in the caller's scope is meaningful), and
   maximality (an expression that mentions no query variable and contains nothing the marking refuses is external as a whole). *)
From Coq Require Import ZArith List Bool Arith Lia.
Import ListNotations.
Require Import PonyV.Model.C04Expr PonyV.Model.C04Ext PonyV.Proofs.C04Parse.

Lemma kids_nth : forall (mk : list str -> expr -> atree) l ctx cs k i,
  nth_error (mark_kids mk l ctx k cs) i = option_map (mk (child_ctx l ctx (k + i))) (nth_error cs i).
Proof.
  intros mk l ctx cs. induction cs as [|c cs IH]; intros k i; [destruct i; reflexivity|].
  destruct i as [|i]; simpl.
  - rewrite Nat.add_0_r. reflexivity.
  - rewrite IH. replace (S k + i) with (k + S i) by lia. reflexivity.
Qed.

Lemma kids_uniform : forall (mk : list str -> expr -> atree) l ctx c0 cs k,
  (forall j, child_ctx l ctx j = c0) -> mark_kids mk l ctx k cs = map (mk c0) cs.
Proof.
  intros mk l ctx c0 cs. induction cs as [|c cs IH]; intros k H; [reflexivity|]. simpl. rewrite H, IH by exact H. reflexivity.
Qed.

Lemma kids_in : forall (mk : list str -> expr -> atree) l ctx cs k a,
  In a (mark_kids mk l ctx k cs) -> exists c j, In c cs /\ a = mk (child_ctx l ctx j) c.
Proof.
  intros mk l ctx cs. induction cs as [|c cs IH]; intros k a H; [destruct H|].
  simpl in H. destruct H as [<-|H].
  - exists c, k. split; [left; reflexivity|reflexivity].
  - destruct (IH (S k) a H) as [c' [j [Hin E]]]. exists c', j. split; [right; exact Hin|exact E].
Qed.

Lemma kids_length : forall (mk : list str -> expr -> atree) l ctx cs k, length (mark_kids mk l ctx k cs) = length cs.
Proof. intros mk l ctx cs. induction cs as [|c cs IH]; intros k; [reflexivity|]. simpl. rewrite IH. reflexivity. Qed.

Lemma wf_mwf : forall e, wf e = true -> mwf e = true.
Proof.
  induction e as [l cs IH] using expr_ind'. intros Hw. simpl in Hw. apply andb_prop in Hw. destruct Hw as [Hw Hwk]. apply andb_prop in Hw. destruct Hw as [Har _].
  cbn [mwf]. apply andb_true_intro. split.
  - destruct l; try reflexivity; try exact Har; try discriminate Har.
    destruct lo, hi, st; try reflexivity. exact Har.
  - apply forallb_forall. intros c Hc. rewrite Forall_forall in IH. rewrite forallb_forall in Hwk. apply IH; [exact Hc|apply Hwk; exact Hc].
Qed.

Section Marking.
Variable fclass : list str -> callclass.

Lemma mark_node : forall ctx l cs, exists e1 c0 r0,
  mark fclass ctx (Node l cs) = ANode l e1 c0 r0 (mark_kids (mark fclass) l ctx 0 cs)
  /\ (e1 = Some true ->
        fst (fst (post fclass ctx l cs (mark_kids (mark fclass) l ctx 0 cs))) = Some true
        \/ (fst (fst (post fclass ctx l cs (mark_kids (mark fclass) l ctx 0 cs))) = None
            /\ has_children l (length cs) = true /\ hidden_child_blocks l = false
            /\ forallb ext_child (mark_kids (mark fclass) l ctx 0 cs) = true)).
Proof.
  intros ctx l cs. cbn [mark].
  destruct (post fclass ctx l cs _) as [[e0 c0] r0] eqn:E. cbn [fst].
  eexists. exists c0, r0. split; [reflexivity|]. intros H.
  destruct e0 as [b|].
  - left. exact H.
  - right. split; [reflexivity|].
    destruct (has_children l (length cs)); simpl in H; [split; [reflexivity|]|discriminate H].
    destruct (hidden_child_blocks l); simpl in H; [discriminate H|].
    destruct (forallb ext_child _); [auto|discriminate H].
Qed.

Lemma mentions_node : forall ctx l cs,
  mentions ctx (Node l cs) = match l with LName s => mem s ctx | _ => false end || existsb (mentions ctx) cs.
Proof. reflexivity. Qed.

Lemma ext_child_ext : forall a, ext_child a = true -> a_ext a = Some true.
Proof.
  intros a H. unfold ext_child in H. apply andb_prop in H. destruct H as [H _]. unfold is_true in H.
  destruct (a_ext a) as [[|]|]; try discriminate H. reflexivity.
Qed.

(* a node marked external (before the final pass) mentions nothing of its context and contains no lambda *)
Lemma ext_true_sound : forall e ctx, mwf e = true ->
  a_ext (mark fclass ctx e) = Some true -> mentions ctx e = false /\ lambda_free e = true.
Proof.
  induction e as [l cs IH] using expr_ind'. intros ctx Hw He.
  destruct (mark_node ctx l cs) as [e1 [c0 [r0 [Em Hc]]]]. rewrite Em in He. simpl in He. subst e1.
  specialize (Hc eq_refl).
  cbn [mwf] in Hw. apply andb_prop in Hw. destruct Hw as [Har Hwk].
  (* all children are external: the conclusion follows from the induction hypothesis *)
  assert (Kids : (forall s, l <> LName s) -> (forall a, l <> LLambda a) -> (forall j, child_ctx l ctx j = ctx) ->
                 forallb ext_child (mark_kids (mark fclass) l ctx 0 cs) = true -> mentions ctx (Node l cs) = false /\ lambda_free (Node l cs) = true).
  { intros Hn Hl Hu Hall. rewrite (kids_uniform (mark fclass) l ctx ctx cs 0 Hu) in Hall. rewrite mentions_node. cbn [lambda_free].
    assert (Hk : forall c, In c cs -> mentions ctx c = false /\ lambda_free c = true).
    { intros c Hin. rewrite Forall_forall in IH. rewrite forallb_forall in Hwk.
      rewrite forallb_forall in Hall.
      apply (IH c Hin ctx (Hwk c Hin)).
      apply ext_child_ext. apply Hall. apply in_map. exact Hin. }
    split.
    - assert (E1 : match l with LName s => mem s ctx | _ => false end = false) by (destruct l; try reflexivity; exfalso; eapply Hn; reflexivity).
      rewrite E1. simpl. destruct (existsb (mentions ctx) cs) eqn:Ex; [|reflexivity].
      apply existsb_exists in Ex. destruct Ex as [c [Hin Hc']]. destruct (Hk c Hin) as [H1 _]. congruence.
    - assert (E2 : match l with LLambda _ => false | _ => true end = true) by (destruct l; try reflexivity; exfalso; eapply Hl; reflexivity).
      rewrite E2. simpl. apply forallb_forall. intros c Hin. apply (Hk c Hin). }
  assert (Nil : (length cs =? 0) = true -> cs = []) by (intros H; destruct cs; [reflexivity|discriminate H]).
  destruct l.
  - (* Name *) rewrite (Nil Har) in *. cbn in Hc. rewrite mentions_node. cbn.
    destruct (mem s ctx); [|auto]. destruct Hc as [Hc|[_ [Hc _]]]; discriminate Hc.
  - (* Const *) rewrite (Nil Har). auto.
  - (* negative constant *) rewrite (Nil Har). auto.
  - (* LOp k *)
    assert (All : forallb ext_child (mark_kids (mark fclass) (LOp k) ctx 0 cs) = true).
    { destruct Hc as [Hc|[_ [_ [_ Hc]]]]; [|exact Hc].
      destruct k; cbn in Hc; try discriminate Hc.
      - (* Call: post never returns Some true *)
        destruct cs as [|f args]; cbn in Hc; [discriminate Hc|].
        destruct (is_true (a_ext (mark fclass ctx f))); [|discriminate Hc].
        destruct (dotted f) as [p|]; [|discriminate Hc]. destruct (fclass p); discriminate Hc.
      - (* the empty list display *) destruct cs; [reflexivity|discriminate Hc]. }
    apply Kids; try (intros; discriminate); [intros j; reflexivity|exact All].
  - (* Compare *) apply Kids; try (intros; discriminate); [intros j; reflexivity|]. destruct Hc as [Hc|[_ [_ [_ Hc]]]]; [discriminate Hc|exact Hc].
  - (* Lambda *) destruct Hc as [Hc|[_ [_ [Hc _]]]]; discriminate Hc.
  - (* Attribute *) apply Kids; try (intros; discriminate); [intros j; reflexivity|]. destruct Hc as [Hc|[_ [_ [_ Hc]]]]; [discriminate Hc|exact Hc].
  - (* Keyword *) apply Kids; try (intros; discriminate); [intros j; reflexivity|]. destruct Hc as [Hc|[_ [_ [_ Hc]]]]; [cbn in Hc; discriminate Hc|exact Hc].
  - (* Slice *) destruct lo, hi, st; try (apply Kids; try (intros; discriminate); [intros j; reflexivity|]; destruct Hc as [Hc|[_ [_ [_ Hc]]]]; [discriminate Hc|exact Hc]).
    rewrite (Nil Har). auto.
  - (* Joined *) apply Kids; try (intros; discriminate); [intros j; reflexivity|]. destruct Hc as [Hc|[_ [_ [_ Hc]]]]; [discriminate Hc|exact Hc].
  - (* Formatted *) apply Kids; try (intros; discriminate); [intros j; reflexivity|]. destruct Hc as [Hc|[_ [_ [_ Hc]]]]; [discriminate Hc|exact Hc].
  - (* Dict *) apply Kids; try (intros; discriminate); [intros j; reflexivity|]. destruct Hc as [Hc|[_ [_ [_ Hc]]]]; [|exact Hc].
    cbn in Hc. destruct cs; [reflexivity|discriminate Hc].
  - (* Set *) apply Kids; try (intros; discriminate); [intros j; reflexivity|]. destruct Hc as [Hc|[_ [_ [_ Hc]]]]; [discriminate Hc|exact Hc].
  - (* generator expression: never external *) destruct Hc as [Hc|[_ [_ [Hc _]]]]; discriminate Hc.
Qed.

(* ------------------------------------------------------------------ paths *)

Lemma a_kids_mark : forall ctx l cs,
  a_kids (mark fclass ctx (Node l cs)) = mark_kids (mark fclass) l ctx 0 cs.
Proof. intros. destruct (mark_node ctx l cs) as [e1 [c0 [r0 [Em _]]]]. rewrite Em. reflexivity. Qed.

Lemma a_label_mark : forall ctx e, a_label (mark fclass ctx e) = match e with Node l _ => l end.
Proof. intros ctx [l cs]. destruct (mark_node ctx l cs) as [e1 [c0 [r0 [Em _]]]]. rewrite Em. reflexivity. Qed.

(* the annotated subtree at a path is the marking of the subtree, in the context that holds there *)
Lemma asub_mark : forall p ctx e c' s, sub_ctx ctx e p = Some (c', s) -> asub (mark fclass ctx e) p = Some (mark fclass c' s).
Proof.
  induction p as [|i p IH]; intros ctx e c' s H.
  - simpl in H. injection H as <- <-. reflexivity.
  - destruct e as [l cs]. simpl in H. cbn [asub]. rewrite a_kids_mark. rewrite kids_nth.
    destruct (nth_error cs i) as [c|]; [|discriminate H]. simpl. apply IH. exact H.
Qed.

Lemma asub_none : forall p ctx e, sub_ctx ctx e p = None -> asub (mark fclass ctx e) p = None.
Proof.
  induction p as [|i p IH]; intros ctx e H; [discriminate H|].
  destruct e as [l cs]. simpl in H. cbn [asub]. rewrite a_kids_mark. rewrite kids_nth.
  destruct (nth_error cs i) as [c|]; [|reflexivity]. simpl. apply IH. exact H.
Qed.

Lemma sub_mwf : forall p ctx e c' s, sub_ctx ctx e p = Some (c', s) -> mwf e = true -> mwf s = true.
Proof.
  induction p as [|i p IH]; intros ctx e c' s H Hw.
  - simpl in H. injection H as <- <-. exact Hw.
  - destruct e as [l cs]. simpl in H. destruct (nth_error cs i) as [c|] eqn:E; [|discriminate H].
    cbn [mwf] in Hw. apply andb_prop in Hw. destruct Hw as [_ Hw]. rewrite forallb_forall in Hw.
    eapply IH; [exact H|]. apply Hw. eapply nth_error_In; eauto.
Qed.

Lemma asub_app : forall p a n i c, asub a p = Some n -> nth_error (a_kids n) i = Some c -> asub a (p ++ [i]) = Some c.
Proof.
  induction p as [|j p IH]; intros a n i c H Hc.
  - simpl in H. injection H as <-. simpl. rewrite Hc. reflexivity.
  - cbn [asub app] in *. destruct (nth_error (a_kids a) j) as [d|]; [|discriminate H]. eapply IH; eauto.
Qed.

(* every path of the set built during the walk leads to a node marked external, or to nothing (the pseudo child of a format spec) *)
Definition points_ext (a : atree) (p : path) : Prop :=
  match asub a p with Some n => a_ext n = Some true | None => True end.

Lemma eset_go_points : forall cs i p,
  (forall c, In c cs -> forall q, In q (eset c) -> points_ext c q) ->
  In p ((fix go (i : nat) (cs : list atree) : list path :=
           match cs with [] => [] | c :: cs' => prefix_all i (eset c) ++ go (S i) cs' end) i cs) ->
  exists j q c, p = (i + j) :: q /\ nth_error cs j = Some c /\ points_ext c q.
Proof.
  induction cs as [|c cs IH]; intros i p Hk Hin; [destruct Hin|].
  apply in_app_or in Hin. destruct Hin as [Hin|Hin].
  - unfold prefix_all in Hin. apply in_map_iff in Hin. destruct Hin as [q [<- Hq]].
    exists 0, q, c. rewrite Nat.add_0_r. split; [reflexivity|]. split; [reflexivity|]. apply Hk; [left; reflexivity|exact Hq].
  - destruct (IH (S i) p (fun c' Hc' => Hk c' (or_intror Hc')) Hin) as [j [q [c' [E [Hn Hp]]]]].
    exists (S j), q, c'. split; [rewrite E; f_equal; lia|]. split; assumption.
Qed.

(* a replacement field has at most one child (true of the marking of every well-formed tree): its pseudo path [1] leads nowhere *)
Fixpoint narrow (a : atree) : bool :=
  match a with ANode l _ _ _ cs => match l with LFormatted _ _ => length cs <=? 1 | _ => true end && forallb narrow cs end.

Lemma eset_points : forall a p, narrow a = true -> In p (eset a) -> points_ext a p.
Proof.
  fix IH 1. intros [l ext cst raw cs] p Hn Hin. cbn [eset] in Hin. cbn [narrow] in Hn. apply andb_prop in Hn. destruct Hn as [Hn1 Hn2].
  assert (Below : forall p, In p ((fix go (i : nat) (cs : list atree) : list path :=
                     match cs with [] => [] | c :: cs' => prefix_all i (eset c) ++ go (S i) cs' end) 0 cs ++ spec_pseudo l) ->
                  p <> [] /\ points_ext (ANode l ext cst raw cs) p).
  { intros q Hq. apply in_app_or in Hq. destruct Hq as [Hq|Hq].
    - assert (Hk : forall c, In c cs -> forall q, In q (eset c) -> points_ext c q).
      { intros c Hc. clear - IH Hc Hn2. revert c Hc. induction cs as [|d cs IHcs]; intros c Hc; [destruct Hc|].
        simpl in Hn2. apply andb_prop in Hn2. destruct Hn2 as [Hd Hcs].
        destruct Hc as [<-|Hc]; [intros q; apply IH; exact Hd|apply IHcs; assumption]. }
      destruct (eset_go_points cs 0 q Hk Hq) as [j [q' [c [E [Hnj Hp]]]]]. subst q. split; [discriminate|].
      unfold points_ext in *. cbn [asub a_kids]. simpl. rewrite Hnj. exact Hp.
    - destruct l; try (destruct Hq; fail). destruct spec as [[|z sp]|]; try (destruct Hq; fail). destruct Hq as [<-|[]]. split; [discriminate|].
      unfold points_ext. cbn [asub a_kids]. apply Nat.leb_le in Hn1.
      destruct cs as [|c0 [|c1 cs]]; try reflexivity. simpl in Hn1. lia. }
  destruct (is_true ext && negb cst) eqn:Eb.
  - apply in_app_or in Hin. destruct Hin as [Hin|[<-|[]]].
    + apply filter_In in Hin. destruct Hin as [Hin _]. apply (Below p Hin).
    + unfold points_ext. simpl. apply andb_prop in Eb. destruct Eb as [Eb _]. unfold is_true in Eb. destruct ext as [[|]|]; try discriminate Eb. reflexivity.
  - apply (Below p Hin).
Qed.

Lemma narrow_mark : forall e ctx, mwf e = true -> narrow (mark fclass ctx e) = true.
Proof.
  induction e as [l cs IH] using expr_ind'. intros ctx Hw.
  destruct (mark_node ctx l cs) as [e1 [c0 [r0 [Em _]]]]. rewrite Em. cbn [narrow].
  cbn [mwf] in Hw. apply andb_prop in Hw. destruct Hw as [Har Hwk].
  apply andb_true_intro. split.
  - destruct l; try reflexivity. rewrite kids_length. apply Nat.eqb_eq in Har. rewrite Har. reflexivity.
  - rewrite forallb_forall. intros a Ha. destruct (kids_in _ _ _ _ _ _ Ha) as [c [j [Hc ->]]].
    rewrite Forall_forall in IH. rewrite forallb_forall in Hwk. apply IH; [exact Hc|apply Hwk; exact Hc].
Qed.

(* the final pass keeps that property *)
Lemma kid_paths_points : forall a p n, asub a p = Some n -> forall cs i q, (forall j c, nth_error cs j = Some c -> nth_error (a_kids n) (i + j) = Some c) ->
  In q (kid_paths p i cs) -> points_ext a q.
Proof.
  intros a p n Hn cs. induction cs as [|c cs IH]; intros i q Hk Hin; [destruct Hin|].
  simpl in Hin. apply in_app_or in Hin. destruct Hin as [Hin|Hin].
  - destruct (is_true (a_ext c) && negb (a_cst c)) eqn:E; [|destruct Hin]. destruct Hin as [<-|[]].
    unfold points_ext. rewrite (asub_app p a n i c Hn).
    + apply andb_prop in E. destruct E as [E _]. unfold is_true in E. destruct (a_ext c) as [[|]|]; try discriminate E. reflexivity.
    + specialize (Hk 0 c eq_refl). rewrite Nat.add_0_r in Hk. exact Hk.
  - apply (IH (S i) q); [|exact Hin]. intros j c' Hj. specialize (Hk (S j) c' Hj). replace (S i + j) with (i + S j) by lia. exact Hk.
Qed.

Lemma final_points : forall a p, narrow a = true -> In p (final_paths a) -> points_ext a p.
Proof.
  intros a p Hn Hin. unfold final_paths in Hin. apply in_flat_map in Hin. destruct Hin as [q [Hq Hin]].
  pose proof (eset_points a q Hn Hq) as Hp.
  destruct (asub a q) as [n|] eqn:E.
  - destruct (nonexternalizable (a_label n) || (a_cst n && negb (is_constant_node (a_label n)))).
    + apply (kid_paths_points a q n E (a_kids n) 0 p); [|exact Hin]. intros j c Hj. exact Hj.
    + destruct Hin as [<-|[]]. exact Hp.
  - destruct Hin as [<-|[]]. exact Hp.
Qed.

(* SOUNDNESS of the marking: every external of a well-formed query body, in the context
   that holds where it stands (query variables plus parameters of enclosing lambdas), mentions none of those names and contains no
   lambda: evaluating it in the caller's scope is meaningful. *)
Theorem externals_sound : forall ctx e p c' s,
  mwf e = true ->
  In p (externals fclass ctx e) -> sub_ctx ctx e p = Some (c', s) ->
  mentions c' s = false /\ lambda_free s = true.
Proof.
  intros ctx e p c' s Hw Hin Hs. unfold externals in Hin.
  pose proof (final_points _ p (narrow_mark e ctx Hw) Hin) as Hp. unfold points_ext in Hp.
  rewrite (asub_mark p ctx e c' s Hs) in Hp.
  apply (ext_true_sound s c' (sub_mwf p ctx e c' s Hs Hw)). exact Hp.
Qed.

(* ------------------------------------------------------------------ maximality *)

(* nothing in e that the marking refuses whatever the names are: no lambda, no special / raw_sql call, no node without children that
   is not marked by itself (empty tuple, empty f-string), no empty format spec *)
Fixpoint markable (e : expr) : bool :=
  match e with Node l cs =>
    match l with
    | LLambda _ | LGen _ => false
    | LFormatted _ (Some []) => false
    | LName _ | LConst _ | LNegConst _ | LDict => true
    | LSlice false false false => true
    | LOp KList => true
    | LOp KCall => match cs with
                   | f :: _ => match dotted f with Some p => match fclass p with FSpecial | FRawSql => false | _ => true end | None => true end
                   | [] => false
                   end
    | _ => has_children l (length cs)
    end && forallb markable cs
  end.

Lemma markable_ext : forall e ctx, markable e = true -> mentions ctx e = false ->
  a_ext (mark fclass ctx e) = Some true /\ a_raw (mark fclass ctx e) = false.
Proof.
  induction e as [l cs IH] using expr_ind'. intros ctx Hm Hn.
  cbn [markable] in Hm. apply andb_prop in Hm. destruct Hm as [Hm Hmk].
  rewrite mentions_node in Hn. apply orb_false_iff in Hn. destruct Hn as [Hn1 Hn2].
  assert (NL : forall j, child_ctx l ctx j = ctx) by (intros j; destruct l; try reflexivity; discriminate Hm).
  assert (Kids : forallb ext_child (mark_kids (mark fclass) l ctx 0 cs) = true).
  { rewrite (kids_uniform (mark fclass) l ctx ctx cs 0 NL). rewrite forallb_forall. intros a Ha. apply in_map_iff in Ha. destruct Ha as [c [<- Hc]].
    rewrite Forall_forall in IH. rewrite forallb_forall in Hmk.
    assert (Hcn : mentions ctx c = false).
    { destruct (mentions ctx c) eqn:E; [|reflexivity]. assert (existsb (mentions ctx) cs = true) by (apply existsb_exists; exists c; auto). congruence. }
    destruct (IH c Hc ctx (Hmk c Hc) Hcn) as [H1 H2]. unfold ext_child. rewrite H1, H2. reflexivity. }
  cbn [mark].
  destruct (post fclass ctx l cs (mark_kids (mark fclass) l ctx 0 cs)) as [[e0 c0] r0] eqn:Ep. cbn [a_ext a_raw].
  assert (Hpost : (e0 = Some true \/ (e0 = None /\ has_children l (length cs) = true /\ hidden_child_blocks l = false)) /\ r0 = false).
  { destruct l; cbn in Ep.
    - rewrite Hn1 in Ep. injection Ep as <- <- <-. auto.
    - injection Ep as <- <- <-. auto.
    - injection Ep as <- <- <-. auto.
    - destruct k; try (injection Ep as <- <- <-; split; [right; split; [reflexivity|split; [exact Hm|reflexivity]]|reflexivity]);
        try (injection Ep as <- <- <-; split; [left; reflexivity|reflexivity]).
      + (* Call *)
        destruct cs as [|f args]; [discriminate Hm|]. cbn in Ep.
        assert (HC : has_children (LOp KCall) (length (f :: args)) = true) by reflexivity.
        destruct (is_true (a_ext (mark fclass ctx f))).
        * destruct (dotted f) as [p|].
          -- destruct (fclass p); try discriminate Hm; injection Ep as <- <- <-; split; auto.
          -- injection Ep as <- <- <-. split; auto.
        * injection Ep as <- <- <-. split; auto.
      + (* List *)
        destruct cs as [|c cs]; injection Ep as <- <- <-.
        * split; [left; reflexivity|reflexivity].
        * split; [right; split; [reflexivity|split; reflexivity]|reflexivity].
    - injection Ep as <- <- <-. split; [right; split; [reflexivity|split; [exact Hm|reflexivity]]|reflexivity].
    - discriminate Hm.
    - injection Ep as <- <- <-. split; [right; split; [reflexivity|split; [exact Hm|reflexivity]]|reflexivity].
    - injection Ep as <- <- <-. split; [right; split; [reflexivity|split; [exact Hm|reflexivity]]|reflexivity].
    - destruct lo, hi, st; injection Ep as <- <- <-; (split; [|reflexivity]);
        first [left; reflexivity | right; split; [reflexivity|split; [exact Hm|reflexivity]]].
    - injection Ep as <- <- <-. split; [right; split; [reflexivity|split; [exact Hm|reflexivity]]|reflexivity].
    - injection Ep as <- <- <-. split; [|reflexivity]. right. split; [reflexivity|]. destruct spec as [[|z sp]|]; try discriminate Hm; split; try exact Hm; reflexivity.
    - (* Dict *) destruct cs as [|c cs]; injection Ep as <- <- <-.
      + split; [left; reflexivity|reflexivity].
      + split; [right; split; [reflexivity|split; reflexivity]|reflexivity].
    - (* Set *) injection Ep as <- <- <-. split; [right; split; [reflexivity|split; [exact Hm|reflexivity]]|reflexivity].
    - discriminate Hm. }
  destruct Hpost as [[He|[He [Hc Hh]]] Hr]; subst.
  - auto.
  - rewrite Hc, Hh, Kids. auto.
Qed.

(* MAXIMALITY: an expression that mentions no name of the context and contains nothing the marking refuses is external as a whole:
   unless it is a constant or of a kind that is passed piecewise (tuple, list, ...), it is THE parameter *)
Theorem externals_maximal : forall ctx e, markable e = true -> mentions ctx e = false ->
  a_cst (mark fclass ctx e) = false -> nonexternalizable (match e with Node l _ => l end) = false ->
  In [] (externals fclass ctx e).
Proof.
  intros ctx e Hm Hn Hc Hx. destruct (markable_ext e ctx Hm Hn) as [He _].
  unfold externals, final_paths. apply in_flat_map. exists []. split.
  - destruct (mark fclass ctx e) as [l ext cst raw cs] eqn:E. cbn [eset]. simpl in He, Hc. subst. simpl. apply in_or_app. right. left. reflexivity.
  - cbn [asub]. rewrite a_label_mark. rewrite Hx, Hc. simpl. left. reflexivity.
Qed.

End Marking.

Definition nm (s : str) : expr := Node (LName s) [].

(* ------------------------------------------------------------------ keys of the parameters *)

Lemma dedup_nodup : forall xs, NoDup (dedup xs).
Proof.
  induction xs as [|x r IH]; [constructor|]. simpl. destruct (existsb (str_eqb x) r) eqn:E; [exact IH|].
  constructor; [|exact IH]. intros Hin.
  assert (In x r).
  { clear - Hin. induction r as [|y r IHr]; [destruct Hin|]. simpl in Hin. destruct (existsb (str_eqb y) r); [right; apply IHr; exact Hin|].
    destruct Hin as [->|Hin]; [left; reflexivity|right; apply IHr; exact Hin]. }
  assert (existsb (str_eqb x) r = true).
  { apply existsb_exists. exists x. split; [assumption|]. clear. induction x as [|c x IHx]; [reflexivity|]. simpl. rewrite Z.eqb_refl. exact IHx. }
  congruence.
Qed.

(* one parameter per distinct text; the same text under another filter number is another parameter *)
Theorem varkeys_nodup : forall fn ck srcs, NoDup (varkeys fn ck srcs).
Proof.
  intros fn ck srcs. unfold varkeys. pose proof (dedup_nodup srcs) as H. induction H as [|x l Hx Hl IH]; [constructor|].
  simpl. constructor; [|exact IH]. intros Hin. apply in_map_iff in Hin. destruct Hin as [y [E Hy]]. injection E as E. subst y. contradiction.
Qed.

Theorem varkeys_filters_disjoint : forall fn1 fn2 ck srcs1 srcs2 k, fn1 <> fn2 ->
  In k (varkeys fn1 ck srcs1) -> In k (varkeys fn2 ck srcs2) -> False.
Proof.
  intros fn1 fn2 ck s1 s2 k Hne H1 H2. unfold varkeys in *. apply in_map_iff in H1, H2.
  destruct H1 as [a [<- _]]. destruct H2 as [b [E _]]. injection E as E _. congruence.
Qed.

(* `p.x in [a, *b]`: the final pass replaces the list by its external items, among them the starred item itself (path [1; 1]),
   which is not an expression: create_extractors cannot compile `*b` *)
Definition starred_query : expr :=
  Node (LCompare [CIn]) [Node (LAttribute [120]%Z) [nm [112]%Z]; Node (LOp KList) [nm [97]%Z; Node (LOp KStarElt) [nm [98]%Z]]].

Lemma starred_external_refuted :
  In [1; 1] (externals (fun _ => FPlain) [[112]%Z] starred_query) /\
  sub_ctx [[112]%Z] starred_query [1; 1] = Some ([[112]%Z], Node (LOp KStarElt) [nm [98]%Z]) /\ expr_kindb KStarElt = false.
Proof. vm_compute. repeat split; auto. Qed.
