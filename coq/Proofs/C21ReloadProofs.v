(* C21: lemmas over Model/C21Reload.v. *)
From Coq Require Import ZArith List Bool Lia Arith.
Import ListNotations.
Require Import PonyV.Model.C21Reload.

Lemma upd_same {A} (f : nat -> A) i x : upd f i x i = x.
Proof. unfold upd. now rewrite Nat.eqb_refl. Qed.

Lemma upd_other {A} (f : nat -> A) i x j : j <> i -> upd f i x j = f j.
Proof. unfold upd. intros H. apply Nat.eqb_neq in H. now rewrite H. Qed.

Lemma val_eqb_eq x y : val_eqb x y = true <-> x = y.
Proof.
  destruct x as [p|], y as [q|]; cbn; split; intros H; try congruence; try discriminate.
  - apply Z.eqb_eq in H. now subst.
  - injection H as ->. apply Z.eqb_refl.
Qed.

(* ------------------------------------------------------------------------------------------------ scalar part *)

(* invariant of one attribute cell; `last` = the newest thing the program saw or wrote for the attribute *)
Definition cinv (vol : bool) (c : cell) (last : option val) : Prop :=
     (wbit c = false -> cval c = cdb c)
  /\ (vol = false -> forall v', last = Some v' -> cval c = Some v' /\ (wbit c = false -> rbit c = true))
  /\ (rbit c = true -> vol = false).

Lemma load_cell_inv vol c v c' last : cinv vol c last -> load_cell vol c v = Some c' -> cinv vol c' last.
Proof.
  intros (J1 & J2 & J3) H. unfold load_cell in H.
  destruct (opt_val_eqb (cdb c) v); [injection H as <-; split; [exact J1 | split; [exact J2 | exact J3]]|].
  destruct (negb vol && rbit c) eqn:E; [discriminate|]. injection H as <-.
  split; [|split]; cbn.
  - intros W. rewrite W. now rewrite andb_false_r.
  - intros V v' L. destruct (J2 V v' L) as [C R]. subst vol. cbn in E.
    destruct (wbit c) eqn:W.
    + cbn. split; [exact C | discriminate].
    + rewrite R in E by reflexivity. discriminate.
  - exact J3.
Qed.

Definition inv (vol : nat -> bool) (s : state) : Prop := forall a, cinv (vol a) (cells s a) (last_about a (trace s)).

Lemma inv_init vol : inv vol init.
Proof. intros a. cbn. repeat split; cbn; auto; discriminate. Qed.

Lemma step_inv vol s e : inv vol s -> trace_ok vol (trace s) -> inv vol (step vol s e) /\ trace_ok vol (trace (step vol s e)).
Proof.
  intros I T. unfold step. destruct (failed s); [auto|].
  destruct e as [a ext | a v | a v | exts].
  4:{ (* Flush *)
      destruct (negb (existsb _ exts)); [split; [exact I | exact T]|].
      destruct (flush_check vol s exts); [|split; [exact I | exact T]].
      split; [|exact T]. intros b. cbn [cells trace]. pose proof (I b) as Ib. unfold flush_cell.
      destruct (wbit (cells s b)) eqn:W; [|exact Ib]. destruct Ib as (J1 & J2 & J3).
      destruct (vol b) eqn:V.
      - split; [reflexivity|]. split; [discriminate | exact J3].
      - split; [reflexivity|]. split; [|reflexivity]. intros _ v' L. destruct (J2 eq_refl v' L) as [C _]. cbn. split; [exact C | reflexivity]. }
  - (* Read *)
    set (c0 := cells s a).
    assert (exists r, (match cval c0 with Some _ => Some c0 | None => load_cell (vol a) c0 ext end) = r
                      /\ (forall c, r = Some c -> cinv (vol a) c (last_about a (trace s)))) as [r [Er Hr]].
    { eexists. split; [reflexivity|]. intros c Hc. destruct (cval c0) eqn:E.
      - injection Hc as <-. apply I.
      - eapply load_cell_inv; [apply I | exact Hc]. }
    rewrite Er. destruct r as [c|]; [|split; [exact I | exact T]].
    specialize (Hr c eq_refl).
    destruct (cval c) as [v|] eqn:Cv; [|split; [exact I | exact T]].
    destruct Hr as (J1 & J2 & J3).
    split.
    + intros b. cbn [cells trace last_about]. destruct (Nat.eqb a b) eqn:Eab.
      * apply Nat.eqb_eq in Eab. subst b. rewrite upd_same.
        destruct (wbit c || vol a) eqn:WV.
        -- split; [exact J1 | split; [|exact J3]]. intros V v' L. injection L as <-. split; [exact Cv|].
           intros W. rewrite W, V in WV. discriminate.
        -- apply orb_false_iff in WV. destruct WV as [W V]. split; [|split]; cbn.
           ++ intros W'. rewrite <- Cv. now apply J1.
           ++ intros _ v' L. injection L as <-. split; [first [exact Cv | reflexivity] | reflexivity].
           ++ intros _. exact V.
      * apply Nat.eqb_neq in Eab. rewrite upd_other by auto. apply I.
    + cbn [trace trace_ok]. split; [|exact T]. intros V v' L.
      destruct (J2 V v' L) as [C _]. congruence.
  - (* Write *)
    split; [|exact T]. intros b. cbn [cells trace last_about]. destruct (Nat.eqb a b) eqn:Eab.
    + apply Nat.eqb_eq in Eab. subst b. rewrite upd_same. destruct (I a) as (J1 & J2 & J3).
      split; [|split]; cbn; auto; try discriminate.
      intros _ v' L. injection L as <-. split; [reflexivity | discriminate].
    + apply Nat.eqb_neq in Eab. rewrite upd_other by auto. apply I.
  - (* Load *)
    destruct (load_cell (vol a) (cells s a) v) as [c|] eqn:E; [|split; [exact I | exact T]].
    split; [|exact T]. intros b. cbn [cells trace]. destruct (Nat.eq_dec b a) as [->|N].
    + rewrite upd_same. eapply load_cell_inv; [apply I | exact E].
    + rewrite upd_other by auto. apply I.
Qed.

Lemma run_inv vol evs : forall s, inv vol s -> trace_ok vol (trace s) ->
  inv vol (run vol s evs) /\ trace_ok vol (trace (run vol s evs)).
Proof.
  induction evs as [|e r IH]; intros s I T; cbn; [auto|].
  destruct (step_inv vol s e I T) as [I' T']. now apply IH.
Qed.

Lemma scalar_ok vol evs : trace_ok vol (trace (run vol init evs)).
Proof. apply run_inv; [apply inv_init | exact I]. Qed.

(* read-only sessions: all values observed for a non-volatile attribute are equal *)
Lemma step_no_write vol s e : is_write e = false -> (forall b w, ~ In (TWrite b w) (trace s)) ->
  forall b w, ~ In (TWrite b w) (trace (step vol s e)).
Proof.
  intros W H. unfold step. destruct (failed s); [exact H|].
  destruct e as [a ext | a v | a v | exts]; [| discriminate | |].
  - destruct (match cval (cells s a) with Some _ => Some (cells s a) | None => load_cell (vol a) (cells s a) ext end) as [c|]; [|exact H].
    destruct (cval c); [|exact H]. cbn [trace]. intros b w [E|E]; [discriminate | now apply H in E].
  - destruct (load_cell (vol a) (cells s a) v); exact H.
  - destruct (negb (existsb _ exts)); [exact H|]. destruct (flush_check vol s exts); exact H.
Qed.

Lemma run_no_write vol evs : forall s, forallb (fun e => negb (is_write e)) evs = true ->
  (forall b w, ~ In (TWrite b w) (trace s)) -> forall b w, ~ In (TWrite b w) (trace (run vol s evs)).
Proof.
  induction evs as [|e r IH]; intros s F H; cbn; [exact H|].
  cbn in F. apply andb_true_iff in F. destruct F as [F1 F2]. apply negb_true_iff in F1.
  apply IH; [exact F2|]. now apply step_no_write.
Qed.

Lemma obs_last vol t : trace_ok vol t -> (forall b w, ~ In (TWrite b w) t) ->
  forall a v, vol a = false -> In (TObs a v) t -> last_about a t = Some v.
Proof.
  induction t as [|[b w|b w] t IH]; intros T NW a v V Hin; [destruct Hin| |exfalso; eapply NW; left; reflexivity].
  cbn in T. destruct T as [T1 T2]. cbn [last_about].
  assert (forall b0 w0, ~ In (TWrite b0 w0) t) as NW' by (intros b0 w0 H; eapply NW; right; exact H).
  destruct Hin as [E|Hin].
  - injection E as -> ->. now rewrite Nat.eqb_refl.
  - specialize (IH T2 NW' a v V Hin). destruct (Nat.eqb b a) eqn:E; [|exact IH].
    apply Nat.eqb_eq in E. subst b. f_equal. now apply T1.
Qed.

Lemma scalar_readonly vol evs a v1 v2 :
  forallb (fun e => negb (is_write e)) evs = true -> vol a = false ->
  In (TObs a v1) (trace (run vol init evs)) -> In (TObs a v2) (trace (run vol init evs)) -> v1 = v2.
Proof.
  intros F V H1 H2.
  assert (forall b w, ~ In (TWrite b w) (trace (run vol init evs))) as NW by (apply run_no_write; [exact F | intros b w []]).
  pose proof (scalar_ok vol evs) as T.
  pose proof (obs_last vol _ T NW a v1 V H1) as L1. pose proof (obs_last vol _ T NW a v2 V H2) as L2. congruence.
Qed.

(* the error is raised exactly when a column the program has read comes back different *)
Lemma load_detects vol s a v :
  failed s = false -> vol a = false -> rbit (cells s a) = true -> cdb (cells s a) <> Some v ->
  failed (step vol s (Load a v)) = true.
Proof.
  intros F V R D. unfold step. rewrite F. unfold load_cell.
  destruct (opt_val_eqb (cdb (cells s a)) v) eqn:E.
  - exfalso. apply D. unfold opt_val_eqb in E. destruct (cdb (cells s a)); [|discriminate]. apply val_eqb_eq in E. congruence.
  - rewrite V, R. reflexivity.
Qed.

Lemma load_quiet vol s a v :
  failed s = false -> cdb (cells s a) = Some v ->
  failed (step vol s (Load a v)) = false /\ (forall b, cells (step vol s (Load a v)) b = cells s b) /\ trace (step vol s (Load a v)) = trace s.
Proof.
  intros F D. unfold step. rewrite F. unfold load_cell. rewrite D. cbn [opt_val_eqb].
  assert (val_eqb v v = true) as -> by now apply val_eqb_eq.
  cbn. repeat split; auto. intros b. destruct (Nat.eq_dec b a) as [->|N]; [now rewrite upd_same | now rewrite upd_other].
Qed.

(* ------------------------------------------------------------------------------------------------ collections *)

Lemma mem_In i l : mem i l = true <-> In i l.
Proof.
  unfold mem. rewrite existsb_exists. split.
  - intros [x [H E]]. apply Nat.eqb_eq in E. now subst.
  - intros H. exists i. split; auto. apply Nat.eqb_refl.
Qed.

Lemma add_In i j l : In j (add i l) <-> j = i \/ In j l.
Proof.
  unfold add. destruct (mem i l) eqn:E.
  - apply mem_In in E. split; [auto|]. intros [->|H]; auto.
  - rewrite in_app_iff. cbn. split; [intros [H|[H|[]]]; auto | intros [H|H]; auto].
Qed.

Lemma union_In m : forall l j, In j (union l m) <-> In j l \/ In j m.
Proof.
  unfold union. induction m as [|i m IH]; intros l j; cbn.
  - tauto.
  - rewrite IH, add_In. intuition (subst; auto).
Qed.

Lemma subset_In l m : subset l m = true <-> forall i, In i l -> In i m.
Proof.
  unfold subset. rewrite forallb_forall. split.
  - intros H i Hi. apply mem_In. now apply H.
  - intros H i Hi. apply mem_In. now apply H.
Qed.

Lemma cload_cobs m2m s db : cobs (cload m2m s db) = cobs s.
Proof.
  unfold cload. destruct (full s); [reflexivity|]. destruct m2m.
  - destruct (subset (items s) db); [destruct (existsb _ db)|]; reflexivity.
  - assert (forall l s0, cobs (fold_left (fun acc i => if cfailed acc then acc else item_reload acc i true) l s0) = cobs s0) as H.
    { induction l as [|i l IH]; intros s0; cbn; [reflexivity|]. rewrite IH. destruct (cfailed s0); [reflexivity|].
      unfold item_reload. destruct (Bool.eqb _ _); [reflexivity|]. destruct (mem i (pinned s0)); [reflexivity|].
      destruct (full s0); reflexivity. }
    destruct (cfailed (fold_left _ db s)) eqn:E; [apply H | cbn; apply H].
Qed.

Lemma cload_full m2m s db : cfailed (cload m2m s db) = false -> cfailed s = false ->
  full (cload m2m s db) = true /\ (full s = true -> cload m2m s db = s).
Proof.
  intros F F0. unfold cload in *. destruct (full s) eqn:E; [auto|]. split; [|discriminate]. destruct m2m.
  - destruct (subset (items s) db); [destruct (existsb _ db); [cbn in F; discriminate | reflexivity] | cbn in F; discriminate].
  - destruct (cfailed (fold_left _ db s)) eqn:E2; [congruence | reflexivity].
Qed.

(* a fully loaded collection changes only through a bad event (or the run fails) *)
Lemma stable m2m s e :
  cfailed s = false -> full s = true -> bad_event m2m s e = false ->
  cfailed (cstep0 m2m s e) = true \/ (items (cstep0 m2m s e) = items s /\ full (cstep0 m2m s e) = true /\ cfailed (cstep0 m2m s e) = false).
Proof.
  intros F Fu B. unfold cstep0. rewrite F. destruct e as [db | db | i mine | i linked].
  - unfold cload. rewrite Fu, F. right. cbn. auto.
  - unfold cload. rewrite Fu, F. right. cbn. auto.
  - destruct m2m; [right; auto|]. unfold item_reload.
    destruct (Bool.eqb (mem i (items s)) mine) eqn:E; [right; auto|].
    destruct (mem i (pinned s)) eqn:P; [left; reflexivity|].
    destruct mine; [rewrite Fu; left; reflexivity|].
    exfalso. cbn in B. rewrite F, Fu, P in B. cbn in B. destruct (mem i (items s)); cbn in *; discriminate.
  - destruct (negb m2m || mem i (revfull s)); [right; auto|].
    destruct (mem i (items s) && negb linked); [left; reflexivity|].
    destruct (linked && negb (mem i (items s))); [rewrite Fu; left; reflexivity|].
    right. cbn. auto.
Qed.

Definition kinv (s : cstate) : Prop :=
  all_same (cobs s) /\ (cfailed s = false -> forall o r, cobs s = o :: r -> full s = true /\ o = items s).

Lemma cstep_cobs_other m2m s e : (forall db, e <> CObsCopy db) -> (forall db, e <> CObsLen db) -> cobs (cstep0 m2m s e) = cobs s.
Proof.
  intros N1 N2. unfold cstep0. destruct (cfailed s); [reflexivity|]. destruct e as [db | db | i mine | i linked].
  - exfalso. now apply (N1 db).
  - exfalso. now apply (N2 db).
  - destruct m2m; [reflexivity|]. unfold item_reload. destruct (Bool.eqb _ _); [reflexivity|].
    destruct (mem i (pinned s)); [reflexivity|]. destruct mine; [destruct (full s); reflexivity | reflexivity].
  - destruct (negb m2m || mem i (revfull s)); [reflexivity|]. destruct (_ && negb linked); [reflexivity|].
    destruct (linked && _); [destruct (full s); reflexivity | reflexivity].
Qed.

Lemma kinv_obs m2m s db pin :
  kinv s -> cfailed s = false ->
  let s1 := cload m2m s db in
  kinv (if cfailed s1 then s1
        else {| items := items s1; full := full s1; pinned := pin s1; revfull := revfull s1; cfailed := false; cobs := items s1 :: cobs s1 |}).
Proof.
  intros [A K] F. cbn zeta. destruct (cfailed (cload m2m s db)) eqn:F1.
  - split; [now rewrite cload_cobs | congruence].
  - destruct (cload_full m2m s db F1 F) as [Fu Same]. split; cbn.
    + rewrite cload_cobs. destruct (cobs s) as [|o r] eqn:E; [exact I|]. split; [|exact A].
      destruct (K F o r eq_refl) as [Fs ->]. now rewrite (Same Fs).
    + intros _ o r E. injection E as <- _. auto.
Qed.

Lemma kinv_step m2m s e : kinv s -> bad_event m2m s e = false -> kinv (cstep0 m2m s e).
Proof.
  intros KI B. destruct (cfailed s) eqn:F; [unfold cstep0; now rewrite F|].
  destruct e as [db | db | i mine | i linked].
  - unfold cstep0. rewrite F. exact (kinv_obs m2m s db (fun s1 => if m2m then pinned s1 else union (pinned s1) (items s1)) KI F).
  - unfold cstep0. rewrite F. exact (kinv_obs m2m s db pinned KI F).
  - destruct KI as [A K]. split; [rewrite cstep_cobs_other by congruence; exact A|].
    intros F' o r E. rewrite cstep_cobs_other in E by congruence. destruct (K F o r E) as [Fu ->].
    destruct (stable m2m s _ F Fu B) as [X|(X1 & X2 & X3)]; [congruence | auto].
  - destruct KI as [A K]. split; [rewrite cstep_cobs_other by congruence; exact A|].
    intros F' o r E. rewrite cstep_cobs_other in E by congruence. destruct (K F o r E) as [Fu ->].
    destruct (stable m2m s _ F Fu B) as [X|(X1 & X2 & X3)]; [congruence | auto].
Qed.

Lemma kinv_run m2m evs : forall s, kinv s -> no_bad m2m s evs = true -> kinv (crun0 m2m s evs).
Proof.
  induction evs as [|e r IH]; intros s KI NB; cbn; [exact KI|].
  cbn in NB. apply andb_true_iff in NB. destruct NB as [B NB]. apply negb_true_iff in B.
  apply IH; [now apply kinv_step | exact NB].
Qed.

Lemma kinv_init : kinv cinit.
Proof. split; cbn; [exact I | intros _ o r E; discriminate]. Qed.

Lemma collection_except_known m2m evs : no_bad m2m cinit evs = true -> all_same (cobs (crun0 m2m cinit evs)).
Proof. intros NB. apply (kinv_run m2m evs cinit kinv_init NB). Qed.

(* the step as coded (with the phantom-disappeared check of db_reverse_remove): the statement holds without exception *)
Lemma kinv_step_fixed m2m s e : kinv s -> kinv (cstep m2m s e).
Proof.
  intros KI. unfold cstep. destruct (bad_event m2m s e) eqn:B; [|now apply kinv_step].
  destruct KI as [A K]. split; [exact A | cbn; discriminate].
Qed.

Lemma collection_fixed m2m evs : all_same (cobs (crun m2m cinit evs)).
Proof.
  assert (forall s, kinv s -> kinv (crun m2m s evs)) as H.
  { induction evs as [|e r IH]; intros s KI; cbn; [exact KI|]. apply IH. now apply kinv_step_fixed. }
  apply (H cinit kinv_init).
Qed.

Lemma no_bad_m2m evs : forall s, no_bad true s evs = true.
Proof. induction evs as [|e r IH]; intros s; cbn; [reflexivity|]. rewrite IH. destruct e as [| | i [|] |]; reflexivity. Qed.

Lemma collection_m2m evs : all_same (cobs (crun0 true cinit evs)).
Proof. apply collection_except_known, no_bad_m2m. Qed.

(* one-to-many: once the collection has been iterated (copy), its members are pinned and no bad event is possible *)
Definition frozen (s : cstate) : Prop := cfailed s = false /\ full s = true /\ subset (items s) (pinned s) = true.

Lemma frozen_step s e : frozen s ->
  cfailed (cstep0 false s e) = true \/ (frozen (cstep0 false s e) /\ items (cstep0 false s e) = items s).
Proof.
  intros (F & Fu & P). unfold cstep0. rewrite F. destruct e as [db | db | i mine | i linked].
  - unfold cload. rewrite Fu, F. right. split; [|reflexivity]. split; [reflexivity|]. split; [exact Fu|]. cbn.
    apply subset_In. intros i Hi. apply union_In. right. exact Hi.
  - unfold cload. rewrite Fu, F. right. split; [|reflexivity]. split; [reflexivity|]. split; [exact Fu | exact P].
  - unfold item_reload. destruct (Bool.eqb (mem i (items s)) mine) eqn:E; [right; split; [split; auto | reflexivity]|].
    destruct (mem i (pinned s)) eqn:Pi; [left; reflexivity|].
    destruct mine; [rewrite Fu; left; reflexivity|].
    exfalso. destruct (mem i (items s)) eqn:M; [|discriminate]. apply mem_In in M.
    rewrite subset_In in P. apply P, mem_In in M. congruence.
  - cbn. right. split; [split; auto | reflexivity].
Qed.

Lemma cstep_failed m2m s e : cfailed s = true -> cstep0 m2m s e = s.
Proof. intros F. unfold cstep0. now rewrite F. Qed.

Lemma crun_failed m2m evs : forall s, cfailed s = true -> crun0 m2m s evs = s.
Proof. induction evs as [|e r IH]; intros s F; cbn; [reflexivity|]. rewrite cstep_failed by exact F. now apply IH. Qed.

Lemma cstep_obs_frozen s e : frozen s ->
  exists new, cobs (cstep0 false s e) = new ++ cobs s /\ Forall (fun o => o = items s) new.
Proof.
  intros (F & Fu & P). destruct e as [db | db | i mine | i linked].
  - unfold cstep0. rewrite F. unfold cload. rewrite Fu, F. cbn. exists [items s]. split; [reflexivity | repeat constructor].
  - unfold cstep0. rewrite F. unfold cload. rewrite Fu, F. cbn. exists [items s]. split; [reflexivity | repeat constructor].
  - exists []. split; [|constructor]. now rewrite cstep_cobs_other by congruence.
  - exists []. split; [|constructor]. now rewrite cstep_cobs_other by congruence.
Qed.

Lemma frozen_run evs : forall s, frozen s ->
  exists new, cobs (crun0 false s evs) = new ++ cobs s /\ Forall (fun o => o = items s) new.
Proof.
  induction evs as [|e r IH]; intros s Fz.
  - exists []. split; [reflexivity | constructor].
  - change (crun0 false s (e :: r)) with (crun0 false (cstep0 false s e) r).
    destruct (cstep_obs_frozen s e Fz) as [n1 [E1 A1]].
    destruct (frozen_step s e Fz) as [X|[Fz' It]].
    + rewrite crun_failed by exact X. exists n1. auto.
    + destruct (IH _ Fz') as [n2 [E2 A2]]. exists (n2 ++ n1). split.
      * rewrite E2, E1. now rewrite app_assoc.
      * apply Forall_app. split; [|exact A1]. rewrite It in A2. exact A2.
Qed.

Lemma copy_freezes evs1 db :
  let s := crun0 false cinit (evs1 ++ [CObsCopy db]) in
  cfailed s = false -> frozen s /\ exists r, cobs s = items s :: r.
Proof.
  cbn zeta. unfold crun0. rewrite fold_left_app. cbn [fold_left]. fold (crun0 false cinit evs1).
  set (s0 := crun0 false cinit evs1). intros F. unfold cstep0 in *.
  destruct (cfailed s0) eqn:F0; [congruence|].
  destruct (cfailed (cload false s0 db)) eqn:F1; [congruence|].
  destruct (cload_full false s0 db F1 F0) as [Fu _]. cbn. split.
  - split; [reflexivity|]. split; [exact Fu|]. apply subset_In. intros i Hi. apply union_In. now right.
  - eexists. reflexivity.
Qed.

Lemma collection_o2m_copy evs1 db evs2 :
  let s := crun0 false cinit (evs1 ++ [CObsCopy db]) in
  cfailed s = false ->
  exists new r, cobs (crun0 false s evs2) = new ++ items s :: r /\ Forall (fun o => o = items s) new.
Proof.
  cbn zeta. intros F. destruct (copy_freezes evs1 db F) as [Fz [r Er]].
  destruct (frozen_run evs2 _ Fz) as [new [E A]]. exists new, r. rewrite E, Er. auto.
Qed.
