(* C06: every literal form written by Value.__str__ and its subclasses (Gen/C06Lit.v) reads back as the value supplied. *)
Require Import PonyV.Base.PyBase PonyV.Model.C07Base PonyV.Model.C07Fmt PonyV.Gen.C07Codec PonyV.Model.C07Codec
               PonyV.Proofs.C07Digits PonyV.Proofs.C07Proofs PonyV.Proofs.C07Timedelta
               PonyV.Model.C06Str PonyV.Model.C06Lex PonyV.Model.C06Params PonyV.Gen.C06Quote PonyV.Model.C06Stmt PonyV.Model.C06Lit
               PonyV.Gen.C06Lit PonyV.Proofs.C06StrLemmas PonyV.Proofs.C06Proofs.
From Coq Require Import ZifyBool.

(* what the server reads from the text Pony wrote (after the driver's %-step where there is one) *)
Definition via_server {A} (st : paramstyle) (t : str) (f : str -> option A) : option A :=
  match server_text st t with Some t' => f t' | None => None end.

(* ------------------------------------------------------------------------------------------------ helpers *)

Lemma drop_prefix_app : forall p t, drop_prefix p (p ++ t) = Some t.
Proof. induction p as [|a p IH]; intro t; [reflexivity|]. cbn [app drop_prefix]. rewrite Z.eqb_refl. apply IH. Qed.

Lemma mem_app : forall c a b, mem_char c (a ++ b) = mem_char c a || mem_char c b.
Proof. intros. unfold mem_char. apply existsb_app. Qed.

Lemma fmt_subst_plain : forall t, mem_char 37 t = false -> fmt_subst t = Some t.
Proof. intros t H. rewrite <- (replace_all_absent 37 [37; 37] t H) at 1. apply fmt_subst_doubled. Qed.

Lemma server_text_plain : forall st t, mem_char 37 t = false -> server_text st t = Some t.
Proof. intros st t H. unfold server_text. destruct (style_in st [Format; Pyformat]); [apply fmt_subst_plain; exact H | reflexivity]. Qed.

(* a keyword in front of a quoted literal *)
Lemma server_text_kw_quote : forall st kw s, mem_char 37 kw = false ->
  server_text st (kw ++ quote_str st s) = Some (kw ++ 39 :: replace_all 39 [39; 39] s ++ [39]).
Proof.
  intros st kw s Hkw. unfold server_text. fold (is_fmt st). destruct (is_fmt st) eqn:E.
  - rewrite quote_str_fmt by exact E. rewrite <- (replace_all_absent 37 [37; 37] kw Hkw) at 1.
    rewrite <- replace_all_app. apply fmt_subst_doubled.
  - rewrite quote_str_plain by exact E. reflexivity.
Qed.

Definition okc (c : Z) : bool := is_digit c || (c =? 45) || (c =? 46) || (c =? 58).

Lemma okc_excludes : forall c0 s, okc c0 = false -> forallb okc s = true -> mem_char c0 s = false.
Proof.
  intros c0 s H0. unfold mem_char. induction s as [|x s IH]; intro H; [reflexivity|].
  cbn [forallb] in H. apply andb_true_iff in H. destruct H as [Hx Hs]. cbn [existsb].
  rewrite (IH Hs), orb_false_r. destruct (x =? c0) eqn:E; [|reflexivity]. assert (x = c0) by lia. subst x. congruence.
Qed.

Lemma digits_okc : forall s, all_digits s = true -> forallb okc s = true.
Proof.
  unfold all_digits. induction s as [|x s IH]; intro H; [reflexivity|]. cbn [forallb] in *.
  apply andb_true_iff in H. destruct H as [Hx Hs]. rewrite (IH Hs). unfold okc. rewrite Hx. reflexivity.
Qed.

Lemma print_nat_okc : forall n, forallb okc (print_nat n) = true.
Proof. intro n. apply digits_okc. apply print_nat_digits. Qed.

Lemma fmt_hms_okc : forall h m s, forallb okc (fmt_hms h m s) = true.
Proof. intros. unfold fmt_hms, c_colon. repeat (first [rewrite forallb_app | progress cbn [forallb]]). rewrite !print_nat_okc. reflexivity. Qed.

Lemma fmt_hms_us_okc : forall h m s u, 0 <= u < 1000000 -> forallb okc (fmt_hms_us h m s u) = true.
Proof.
  intros. unfold fmt_hms_us, c_dot. rewrite forallb_app. cbn [forallb]. rewrite fmt_hms_okc, (digits_okc (d6 u)) by (apply d6_digits; assumption). reflexivity.
Qed.

Lemma td_str_okc : forall t, td_norm t -> forallb okc (td_str t) = true.
Proof.
  intros [d s u] [Hs Hu]. unfold td_str, timedelta2str. cbn [td_days td_secs td_us] in *.
  repeat match goal with |- context [if ?c then _ else _] => destruct c eqn:? end;
    rewrite ?forallb_app; cbn [forallb app okc]; rewrite ?fmt_hms_okc, ?fmt_hms_us_okc by lia; reflexivity.
Qed.

(* ------------------------------------------------------------------------------------------------ None, bool, int *)

Lemma lit_none : forall st, via_server st (value_none st) (fun t => Some (lex_null t)) = Some true.
Proof. intro st. unfold via_server. rewrite server_text_plain by reflexivity. reflexivity. Qed.

Lemma lit_bool : forall st b, via_server st (value_bool st b) lex_bool01 = Some b.
Proof. intros st b. unfold via_server. destruct b; rewrite server_text_plain by reflexivity; reflexivity. Qed.

Lemma lit_bool_pg : forall st b, via_server st (pg_value_bool st b) lex_bool_pg = Some b.
Proof. intros st b. unfold via_server. destruct b; rewrite server_text_plain by reflexivity; reflexivity. Qed.

Lemma py_str_int_okc : forall z, forallb okc (py_str_int z) = true.
Proof. intro z. unfold py_str_int. destruct (z <? 0); [cbn [forallb]; rewrite print_nat_okc; reflexivity | apply print_nat_okc]. Qed.

Lemma parse_py_str_int : forall z, parse_int (py_str_int z) = Some z.
Proof.
  intro z. unfold py_str_int. destruct (z <? 0) eqn:E.
  - change 45 with c_minus. rewrite parse_int_neg_print_nat by lia. f_equal. lia.
  - apply parse_int_print_nat. lia.
Qed.

Lemma lit_int : forall st z, via_server st (value_int st z) lex_integer = Some z.
Proof.
  intros st z. unfold via_server, value_int. rewrite server_text_plain by (apply (okc_excludes 37); [reflexivity | apply py_str_int_okc]).
  apply parse_py_str_int.
Qed.

(* ------------------------------------------------------------------------------------------------ integer-valued floats *)

Lemma span_digits_app : forall a b, all_digits a = true -> (forall c r, b = c :: r -> is_digit c = false) ->
  span_digits (a ++ b) = (a, b).
Proof.
  unfold all_digits. induction a as [|x a IH]; intros b Ha Hb.
  - cbn [app]. destruct b as [|c r]; [reflexivity|]. cbn [span_digits]. rewrite (Hb c r eq_refl). reflexivity.
  - cbn [forallb] in Ha. apply andb_true_iff in Ha. destruct Ha as [Hx Ha]. cbn [app span_digits]. rewrite Hx, (IH b Ha Hb). reflexivity.
Qed.

Lemma all_digits_app' : forall a b, all_digits (a ++ b) = all_digits a && all_digits b.
Proof. intros. unfold all_digits. apply forallb_app. Qed.

Lemma dv_from_app : forall a b acc, dv_from acc (a ++ b) = dv_from (dv_from acc a) b.
Proof. intros. unfold dv_from. apply fold_left_app. Qed.

Lemma digits_value_app : forall a b, digits_value (a ++ b) = dv_from (digits_value a) b.
Proof. intros. change (digits_value (a ++ b)) with (dv_from 0 (a ++ b)). rewrite dv_from_app. reflexivity. Qed.

Lemma digits_value_print_nat : forall n, 0 <= n -> digits_value (print_nat n) = n.
Proof.
  intros n H. pose proof (parse_print_nat n H) as P. unfold parse_digits in P.
  destruct (print_nat n) eqn:E; [discriminate P|]. rewrite <- E in *. rewrite print_nat_digits in P. injection P as P. exact P.
Qed.

Lemma lex_unsigned_float_int : forall n, 0 <= n -> lex_decimal_unsigned (print_nat n ++ [46; 48]) = Some (n * 10, -1).
Proof.
  intros n H. unfold lex_decimal_unsigned. rewrite span_digits_app; [|apply print_nat_digits | intros c r E; inversion E; reflexivity].
  pose proof (print_nat_nonempty n) as Hne. destruct (print_nat n) eqn:E; [congruence|]. rewrite <- E.
  cbn [Z.eqb Pos.eqb andb all_digits forallb is_digit nonempty length]. cbn.
  f_equal. f_equal. rewrite digits_value_app. unfold dv_from. cbn [fold_left]. rewrite digits_value_print_nat by exact H. lia.
Qed.

Lemma print_nat_head_digit : forall n, exists c r, print_nat n = c :: r /\ is_digit c = true.
Proof.
  intro n. pose proof (print_nat_nonempty n) as Hne. pose proof (print_nat_digits n) as Hd.
  destruct (print_nat n) as [|c r]; [congruence|]. exists c, r. split; [reflexivity|].
  unfold all_digits in Hd. cbn [forallb] in Hd. apply andb_true_iff in Hd. tauto.
Qed.

Lemma lex_float_int : forall z, lex_decimal (py_repr_float_int z) = Some (z * 10, -1).
Proof.
  intro z. unfold py_repr_float_int, py_str_int. destruct (z <? 0) eqn:E.
  - cbn [app lex_decimal]. cbn [Z.eqb Pos.eqb]. rewrite lex_unsigned_float_int by lia. f_equal. f_equal. lia.
  - destruct (print_nat_head_digit z) as (c & r & Hp & Hc). rewrite Hp. cbn [app lex_decimal].
    assert (c =? 45 = false) as -> by (unfold is_digit in Hc; lia).
    change (c :: r ++ [46; 48]) with ((c :: r) ++ [46; 48]). rewrite <- Hp. apply lex_unsigned_float_int. lia.
Qed.

Lemma py_repr_float_int_okc : forall z, forallb okc (py_repr_float_int z) = true.
Proof. intro z. unfold py_repr_float_int. rewrite forallb_app, py_str_int_okc. reflexivity. Qed.

Lemma lit_floatint : forall st z, via_server st (value_floatint st z) lex_decimal = Some (z * 10, -1).
Proof.
  intros st z. unfold via_server, value_floatint.
  rewrite server_text_plain by (apply (okc_excludes 37); [reflexivity | apply py_repr_float_int_okc]). apply lex_float_int.
Qed.

(* ------------------------------------------------------------------------------------------------ dates, timestamps *)

Lemma strptime_iso_date : forall d, valid_date d -> strptime_ymd (iso_date d) = Some d.
Proof. intros [y m d] V. exact (strptime_ymd_ok y m d V). Qed.

Lemma iso_date_length : forall d, firstn 10 (iso_date d) = iso_date d.
Proof. intros [y m d]. reflexivity. Qed.

Lemma lit_date : forall st d, valid_date d -> via_server st (value_date st d) lex_date_lit = Some d.
Proof.
  intros st d V. unfold via_server, value_date. change [68; 65; 84; 69; 32] with kw_date.
  rewrite server_text_kw_quote by reflexivity. unfold lex_date_lit. rewrite drop_prefix_app.
  unfold lex_std. rewrite lex_whole_doubled. apply strptime_iso_date. exact V.
Qed.

Lemma lit_timestamp : forall st d, valid_datetime d -> via_server st (value_datetime st d) lex_timestamp_lit = Some d.
Proof.
  intros st d V. unfold via_server, value_datetime. change [84; 73; 77; 69; 83; 84; 65; 77; 80; 32] with kw_timestamp.
  rewrite server_text_kw_quote by reflexivity. unfold lex_timestamp_lit. rewrite drop_prefix_app.
  unfold lex_std. rewrite lex_whole_doubled. apply timestamp_roundtrip. exact V.
Qed.

Lemma lit_sqlite_date : forall st d, valid_date d -> via_server st (sqlite_value_date st d) lex_sqlite_date = Some d.
Proof.
  intros st d V. unfold via_server, sqlite_value_date. rewrite server_text_quote_str.
  unfold lex_sqlite_date, lex_std. rewrite lex_whole_doubled. unfold sqlite_date_sql2py.
  rewrite iso_date_length, strptime_iso_date by exact V. reflexivity.
Qed.

Lemma lit_sqlite_datetime : forall st d, valid_datetime d -> via_server st (sqlite_value_datetime st d) lex_sqlite_datetime = Some d.
Proof.
  intros st d V. unfold via_server, sqlite_value_datetime. rewrite server_text_quote_str.
  unfold lex_sqlite_datetime, lex_std. rewrite lex_whole_doubled. unfold sqlite_datetime_sql2py.
  rewrite timestamp_roundtrip by exact V. reflexivity.
Qed.

Lemma lit_sqlite_timedelta_days : forall st days,
  via_server st (sqlite_value_timedelta_days st days) lex_decimal = Some (days * 10, -1).
Proof. intros st days. exact (lit_floatint st days). Qed.

(* ------------------------------------------------------------------------------------------------ intervals *)

Lemma interval_text : forall st t unit, td_norm t -> mem_char 37 unit = false -> (forall r, unit <> 39 :: r) ->
  via_server st (kw_interval ++ 39 :: td_str t ++ 39 :: unit) (lex_interval_lit unit) = Some t.
Proof.
  intros st t unit Hn Hu Hq. unfold via_server. pose proof (td_str_okc t Hn) as Hok.
  rewrite server_text_plain.
  - unfold lex_interval_lit. rewrite drop_prefix_app.
    rewrite <- (replace_all_absent 39 [39; 39] (td_str t)) at 1 by (apply (okc_excludes 39); [reflexivity | exact Hok]).
    rewrite lex_quoted_doubled by exact Hq.
    assert (E : str_eqb unit unit = true) by (clear; induction unit as [|x u IH]; [reflexivity | cbn; rewrite Z.eqb_refl; exact IH]).
    rewrite E. apply timedelta_roundtrip. exact Hn.
  - rewrite mem_app. cbn [mem_char existsb Z.eqb Pos.eqb orb]. fold (mem_char 37 (td_str t ++ 39 :: unit)).
    rewrite mem_app. cbn [mem_char existsb]. fold (mem_char 37 unit). fold (mem_char 37 (td_str t)).
    rewrite (okc_excludes 37 _ eq_refl Hok), Hu. reflexivity.
Qed.

Lemma lit_interval : forall st t, td_norm t -> via_server st (value_timedelta st t) (lex_interval_lit unit_hour_to_second) = Some t.
Proof.
  intros st t Hn. unfold value_timedelta.
  change ([73; 78; 84; 69; 82; 86; 65; 76; 32; 39] ++ td_str t ++ [39; 32; 72; 79; 85; 82; 32; 84; 79; 32; 83; 69; 67; 79; 78; 68])
    with (kw_interval ++ 39 :: td_str t ++ 39 :: unit_hour_to_second).
  apply interval_text; [exact Hn | reflexivity | intros r H; discriminate H].
Qed.

Lemma lit_interval_mysql : forall st t, td_norm t ->
  via_server st (mysql_value_timedelta st t)
    (lex_interval_lit (if td_us t =? 0 then unit_hour_second else unit_hour_microsecond)) = Some t.
Proof.
  intros st t Hn. unfold mysql_value_timedelta. destruct (td_us t =? 0); cbn [negb].
  - change ([73; 78; 84; 69; 82; 86; 65; 76; 32; 39] ++ td_str t ++ [39; 32; 72; 79; 85; 82; 95; 83; 69; 67; 79; 78; 68])
      with (kw_interval ++ 39 :: td_str t ++ 39 :: unit_hour_second).
    apply interval_text; [exact Hn | reflexivity | intros r H; discriminate H].
  - change ([73; 78; 84; 69; 82; 86; 65; 76; 32; 39] ++ td_str t ++ [39; 32; 72; 79; 85; 82; 95; 77; 73; 67; 82; 79; 83; 69; 67; 79; 78; 68])
      with (kw_interval ++ 39 :: td_str t ++ 39 :: unit_hour_microsecond).
    apply interval_text; [exact Hn | reflexivity | intros r H; discriminate H].
Qed.

(* ------------------------------------------------------------------------------------------------ the classes agree where they do not override *)

Lemma lit_classes_same : forall st,
  (sqlite_value_none st = value_none st /\ mysql_value_none st = value_none st /\ pg_value_none st = value_none st)
  /\ (forall b, sqlite_value_bool st b = value_bool st b /\ mysql_value_bool st b = value_bool st b)
  /\ (forall z, sqlite_value_int st z = value_int st z /\ mysql_value_int st z = value_int st z /\ pg_value_int st z = value_int st z)
  /\ (forall z, sqlite_value_floatint st z = value_floatint st z /\ mysql_value_floatint st z = value_floatint st z /\ pg_value_floatint st z = value_floatint st z)
  /\ (forall d, sqlite_value_decimal st d = value_decimal st d /\ mysql_value_decimal st d = value_decimal st d /\ pg_value_decimal st d = value_decimal st d)
  /\ (forall d, mysql_value_datetime st d = value_datetime st d /\ pg_value_datetime st d = value_datetime st d)
  /\ (forall d, mysql_value_date st d = value_date st d /\ pg_value_date st d = value_date st d)
  /\ (forall t, pg_value_timedelta st t = value_timedelta st t).
Proof. intro st. repeat split; reflexivity. Qed.

(* ------------------------------------------------------------------------------------------------ Decimal, plain notation *)

Definition dec_body (m e : Z) : str :=
  let digits := print_nat m in
  let n := Z.of_nat (length digits) in
  let dotplace := e + n in
  if dotplace <=? 0 then 48 :: 46 :: zeros (Z.to_nat (- dotplace)) ++ digits
  else if n <=? dotplace then digits ++ zeros (Z.to_nat (dotplace - n))
  else firstn (Z.to_nat dotplace) digits ++ 46 :: skipn (Z.to_nat dotplace) digits.

Lemma py_str_decimal_plain : forall c e, e <= 0 -> -6 < e + Z.of_nat (length (print_nat (Z.abs c))) ->
  py_str_decimal (c, e) = (if c <? 0 then [45] else []) ++ dec_body (Z.abs c) e.
Proof.
  intros c e He Hl. unfold py_str_decimal, dec_body. cbn [fst snd].
  set (n := Z.of_nat (length (print_nat (Z.abs c)))) in *.
  assert ((e <=? 0) && (-6 <? e + n) = true) as -> by lia. rewrite Z.eqb_refl, app_nil_r. reflexivity.
Qed.

Lemma all_digits_zeros : forall k, all_digits (zeros k) = true.
Proof. induction k as [|k IH]; [reflexivity|]. unfold all_digits, zeros in *. cbn [repeat forallb]. rewrite IH. reflexivity. Qed.

Lemma dv_from_zeros : forall k, dv_from 0 (zeros k) = 0.
Proof. induction k as [|k IH]; [reflexivity|]. unfold zeros, dv_from in *. cbn [repeat fold_left]. exact IH. Qed.

Lemma all_digits_firstn : forall k s, all_digits s = true -> all_digits (firstn k s) = true.
Proof.
  unfold all_digits. induction k as [|k IH]; intros s H; [reflexivity|]. destruct s as [|x s]; [reflexivity|].
  cbn [firstn forallb] in *. apply andb_true_iff in H. destruct H as [Hx Hs]. rewrite Hx, (IH s Hs). reflexivity.
Qed.

Lemma all_digits_skipn : forall k s, all_digits s = true -> all_digits (skipn k s) = true.
Proof.
  unfold all_digits. induction k as [|k IH]; intros s H; [exact H|]. destruct s as [|x s]; [reflexivity|].
  cbn [skipn forallb] in *. apply andb_true_iff in H. destruct H as [Hx Hs]. apply IH. exact Hs.
Qed.

Lemma lex_unsigned_plain : forall m e, 0 <= m -> e <= 0 -> -6 < e + Z.of_nat (length (print_nat m)) ->
  lex_decimal_unsigned (dec_body m e) = Some (m, e).
Proof.
  intros m e Hm He Hl. unfold dec_body.
  pose proof (print_nat_digits m) as Hd. pose proof (print_nat_nonempty m) as Hne. pose proof (digits_value_print_nat m Hm) as Hv.
  remember (print_nat m) as D eqn:HD. clear HD. set (n := Z.of_nat (length D)) in *.
  assert (Hn : 1 <= n) by (destruct D; [congruence | subst n; cbn [length]; lia]).
  destruct (e + n <=? 0) eqn:E1.
  - (* 0.000ddd *)
    unfold lex_decimal_unsigned. change (48 :: 46 :: zeros (Z.to_nat (- (e + n))) ++ D) with ([48] ++ 46 :: zeros (Z.to_nat (- (e + n))) ++ D).
    rewrite span_digits_app; [|reflexivity | intros c r Ec; inversion Ec; reflexivity].
    cbn [Z.eqb Pos.eqb andb]. rewrite all_digits_app', all_digits_zeros, Hd. cbn [andb].
    assert (Hnz : nonempty (zeros (Z.to_nat (- (e + n))) ++ D) = true) by (destruct (zeros (Z.to_nat (- (e + n)))); [destruct D; [congruence|reflexivity] | reflexivity]).
    rewrite Hnz. f_equal. f_equal.
    + rewrite digits_value_app. change (digits_value [48]) with 0. rewrite dv_from_app, dv_from_zeros. exact Hv.
    + rewrite app_length. unfold zeros. rewrite repeat_length. subst n. lia.
  - destruct (n <=? e + n) eqn:E2.
    + (* integer *)
      assert (e = 0) by lia. subst e. replace (0 + n - n) with 0 by lia. cbn [Z.to_nat zeros repeat]. rewrite app_nil_r.
      unfold lex_decimal_unsigned. rewrite <- (app_nil_r D) at 1. rewrite span_digits_app; [|exact Hd | intros c r Ec; discriminate Ec].
      destruct D as [|x D']; [congruence|]. rewrite Hv. reflexivity.
    + (* ddd.ddd *)
      set (k := Z.to_nat (e + n)). assert (Hk : (0 < k < length D)%nat) by (subst k n; lia).
      unfold lex_decimal_unsigned. rewrite span_digits_app; [|apply all_digits_firstn; exact Hd | intros c r Ec; inversion Ec; reflexivity].
      assert (Hf : firstn k D <> []) by (destruct D; [congruence | destruct k; [lia | discriminate]]).
      destruct (firstn k D) eqn:EF; [congruence|]. rewrite <- EF.
      cbn [Z.eqb Pos.eqb andb]. rewrite (all_digits_skipn k D Hd). cbn [andb].
      assert (Hs : nonempty (skipn k D) = true).
      { destruct (skipn k D) eqn:ES; [|reflexivity]. exfalso. pose proof (skipn_length k D) as L. rewrite ES in L. cbn in L. lia. }
      rewrite Hs, firstn_skipn, Hv. f_equal. f_equal. rewrite skipn_length. subst k n. lia.
Qed.

Lemma dec_body_head : forall m e, exists c r, dec_body m e = c :: r /\ is_digit c = true.
Proof.
  intros m e. unfold dec_body. destruct (print_nat_head_digit m) as (c & r & Hp & Hc). rewrite Hp.
  destruct (e + Z.of_nat (length (c :: r)) <=? 0) eqn:E1; [exists 48; eexists; split; reflexivity|].
  destruct (Z.of_nat (length (c :: r)) <=? e + Z.of_nat (length (c :: r))) eqn:E2.
  - exists c. eexists. split; [reflexivity | exact Hc].
  - destruct (Z.to_nat (e + Z.of_nat (length (c :: r)))) eqn:Ek; [cbn [length] in *; lia|].
    exists c. eexists. split; [reflexivity | exact Hc].
Qed.

Lemma lex_decimal_plain : forall c e, e <= 0 -> -6 < e + Z.of_nat (length (print_nat (Z.abs c))) ->
  lex_decimal (py_str_decimal (c, e)) = Some (c, e).
Proof.
  intros c e He Hl. rewrite py_str_decimal_plain by assumption. destruct (c <? 0) eqn:Ec.
  - cbn [app lex_decimal]. cbn [Z.eqb Pos.eqb]. rewrite lex_unsigned_plain by lia. f_equal. f_equal. lia.
  - cbn [app]. destruct (dec_body_head (Z.abs c) e) as (x & r & Hb & Hx). unfold lex_decimal. rewrite Hb.
    assert (x =? 45 = false) as -> by (unfold is_digit in Hx; lia).
    rewrite <- Hb, lex_unsigned_plain by lia. f_equal. f_equal. lia.
Qed.

Lemma forallb_okc_firstn : forall k s, forallb okc s = true -> forallb okc (firstn k s) = true.
Proof.
  induction k as [|k IH]; intros s H; [reflexivity|]. destruct s as [|x s]; [reflexivity|].
  cbn [firstn forallb] in *. apply andb_true_iff in H. destruct H as [Hx Hs]. rewrite Hx, (IH s Hs). reflexivity.
Qed.
Lemma forallb_okc_skipn : forall k s, forallb okc s = true -> forallb okc (skipn k s) = true.
Proof.
  induction k as [|k IH]; intros s H; [exact H|]. destruct s as [|x s]; [reflexivity|].
  cbn [skipn forallb] in *. apply andb_true_iff in H. destruct H as [Hx Hs]. apply IH. exact Hs.
Qed.

Lemma dec_body_okc : forall m e, forallb okc (dec_body m e) = true.
Proof.
  intros m e. unfold dec_body. pose proof (print_nat_okc m) as Hd.
  assert (Hz : forall k, forallb okc (zeros k) = true) by (intro k; apply digits_okc, all_digits_zeros).
  repeat match goal with |- context [if ?c then _ else _] => destruct c end;
    repeat (first [rewrite forallb_app | progress cbn [forallb]]); rewrite ?Hz, ?Hd, ?forallb_okc_firstn, ?forallb_okc_skipn by exact Hd; reflexivity.
Qed.

Lemma lit_decimal_plain : forall st c e, e <= 0 -> -6 < e + Z.of_nat (length (print_nat (Z.abs c))) ->
  via_server st (value_decimal st (c, e)) lex_decimal = Some (c, e).
Proof.
  intros st c e He Hl. unfold via_server, value_decimal. rewrite server_text_plain.
  - apply lex_decimal_plain; assumption.
  - rewrite py_str_decimal_plain by assumption. apply (okc_excludes 37); [reflexivity|].
    rewrite forallb_app, dec_body_okc. destruct (c <? 0); reflexivity.
Qed.
