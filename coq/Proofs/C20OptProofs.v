(* C20: lemmas over Model/C20Opt.v.  Invariant of every reachable state (all programs, all schedules):
   a read bit is set exactly for the attributes the session observed from the database before overwriting them,
   and dbvals holds the value observed.  From it: an UPDATE is applied iff those attributes still hold the values read. *)
From Coq Require Import ZArith List Bool Lia Arith.
Import ListNotations.
Require Import PonyV.Model.C20Opt.

Lemma upd_same {A} (f : nat -> A) i x : upd f i x i = x.
Proof. unfold upd. now rewrite Nat.eqb_refl. Qed.

Lemma upd_other {A} (f : nat -> A) i x j : j <> i -> upd f i x j = f j.
Proof. unfold upd. intros H. apply Nat.eqb_neq in H. now rewrite H. Qed.

Lemma val_eqb_eq x y : val_eqb x y = true <-> x = y.
Proof.
  destruct x as [p|], y as [q|]; cbn; split; intros H; try congruence; try discriminate.
  - apply Z.eqb_eq in H. now subst.
  - injection H as ->. apply Z.eqb_refl.
Qed.

(* ------------------------------------------------------------------------------------------ the WHERE clause *)

Lemma in_criteria k sch x a v :
  In (a, v) (criteria k sch x) <-> (a < k)%nat /\ rbits x a = true /\ a_opt (sch a) = true /\ v = dbvals x a.
Proof.
  unfold criteria. rewrite in_map_iff. split.
  - intros [b [Hb Hin]]. injection Hb as <- <-. apply filter_In in Hin. destruct Hin as [Hs Hf].
    apply in_seq in Hs. apply andb_true_iff in Hf. destruct Hf. repeat split; auto; lia.
  - intros (Hk & Hr & Ho & ->). exists a. split; auto. apply filter_In. split.
    + apply in_seq. lia.
    + now rewrite Hr, Ho.
Qed.

Lemma matches_spec d w : matches d w = true <-> forall a v, In (a, v) w -> d a = v.
Proof.
  unfold matches. rewrite forallb_forall. split.
  - intros H a v Hin. specialize (H (a, v) Hin). cbn in H. now apply val_eqb_eq.
  - intros H [a v] Hin. cbn. apply val_eqb_eq. now apply H.
Qed.

Lemma apply_sets_map (f : nat -> val) l : forall d a,
  apply_sets d (map (fun b => (b, f b)) l) a = if existsb (Nat.eqb a) l then f a else d a.
Proof.
  unfold apply_sets. induction l as [|b l IH]; intros d a; cbn [map fold_left existsb].
  - reflexivity.
  - rewrite IH. cbn [fst snd]. destruct (existsb (Nat.eqb a) l) eqn:E.
    + now rewrite orb_true_r.
    + rewrite orb_false_r. unfold upd. destruct (Nat.eqb a b) eqn:E2; auto.
      apply Nat.eqb_eq in E2. now subst.
Qed.

Lemma existsb_filter_seq (w : nat -> bool) k a :
  existsb (Nat.eqb a) (filter w (seq 0 k)) = (a <? k)%nat && w a.
Proof.
  destruct (existsb (Nat.eqb a) (filter w (seq 0 k))) eqn:E.
  - apply existsb_exists in E. destruct E as [b [Hin Hb]]. apply Nat.eqb_eq in Hb. subst b.
    apply filter_In in Hin. destruct Hin as [Hs Hw]. apply in_seq in Hs.
    symmetry. apply andb_true_iff. split; auto. apply Nat.ltb_lt. lia.
  - symmetry. apply not_true_is_false. intros H. apply andb_true_iff in H. destruct H as [H1 H2].
    apply Nat.ltb_lt in H1.
    assert (existsb (Nat.eqb a) (filter w (seq 0 k)) = true) as C.
    { apply existsb_exists. exists a. split; [|apply Nat.eqb_refl]. apply filter_In. split; auto. apply in_seq. lia. }
    congruence.
Qed.

Lemma apply_set_list k x d a :
  apply_sets d (set_list k x) a = if (a <? k)%nat && wbits x a then vals x a else d a.
Proof. unfold set_list. rewrite apply_sets_map. now rewrite existsb_filter_seq. Qed.

Lemma set_list_nil k x : set_list k x = [] <-> forall a, (a < k)%nat -> wbits x a = false.
Proof.
  unfold set_list. split.
  - intros H a Ha. destruct (wbits x a) eqn:E; auto.
    assert (In a (filter (fun a => wbits x a) (seq 0 k))) as Hin by (apply filter_In; split; auto; apply in_seq; lia).
    apply (in_map (fun a => (a, vals x a))) in Hin. rewrite H in Hin. destruct Hin.
  - intros H. destruct (filter (fun a => wbits x a) (seq 0 k)) as [|b l] eqn:E; auto.
    assert (In b (filter (fun a => wbits x a) (seq 0 k))) as Hin by (rewrite E; now left).
    apply filter_In in Hin. destruct Hin as [Hs Hw]. apply in_seq in Hs. rewrite H in Hw by lia. discriminate.
Qed.

(* ------------------------------------------------------------------------------------------ session invariant *)

(* O a v : the program of this session has observed value v for attribute a, coming from the database *)
Definition sinv (sch : schema) (x : sess) (O : nat -> val -> Prop) : Prop :=
     (forall a, loaded x = true -> wbits x a = false -> vals x a = dbvals x a)
  /\ (forall a v, O a v -> loaded x = true /\ dbvals x a = v /\ (a_vol (sch a) = false -> rbits x a = true))
  /\ (forall a, rbits x a = true -> a_vol (sch a) = false /\ exists v, O a v)
  /\ (loaded x = false -> forall a, wbits x a = false /\ rbits x a = false).

Lemma sinv_ext sch x (O O' : nat -> val -> Prop) : (forall a v, O a v <-> O' a v) -> sinv sch x O -> sinv sch x O'.
Proof.
  intros E (H1 & H2 & H3 & H4). split; [|split; [|split]].
  - exact H1.
  - intros a v H. apply E in H. now apply H2.
  - intros a H. destruct (H3 a H) as [V [v Hv]]. split; auto. exists v. now apply E.
  - exact H4.
Qed.

Lemma sinv_load sch d x O : sinv sch x O -> sinv sch (do_load d x) O /\ loaded (do_load d x) = true.
Proof.
  intros H. unfold do_load. destruct (loaded x) eqn:L.
  - split; [exact H | exact L].
  - destruct H as (H1 & H2 & H3 & H4). split; [|reflexivity]. specialize (H4 L). split; [|split; [|split]]; cbn.
    + reflexivity.
    + intros a v H. apply H2 in H. destruct H. congruence.
    + intros a H. destruct (H4 a). congruence.
    + discriminate.
Qed.

Lemma sinv_get sch x O a x' v fdb :
  sinv sch x O -> loaded x = true -> do_get sch x a = (x', v, fdb) ->
  sinv sch x' (fun a' v' => O a' v' \/ (fdb = true /\ a' = a /\ v' = v)) /\ loaded x' = true /\ st x' = st x.
Proof.
  intros (H1 & H2 & H3 & H4) L E. unfold do_get in E.
  destruct (wbits x a) eqn:W; cbn [orb negb] in E.
  - injection E as <- <- <-. split; [|auto]. split; [|split; [|split]].
    + exact H1.
    + intros a' v' [H|[H _]]; [now apply H2 | discriminate].
    + intros a' H. destruct (H3 a' H) as [V [v Hv]]. split; auto. exists v. now left.
    + exact H4.
  - destruct (a_vol (sch a)) eqn:V; injection E as <- <- <-.
    + split; [|auto]. split; [|split; [|split]].
      * exact H1.
      * intros a' v' [H|(_ & -> & ->)]; [now apply H2|]. split; auto. split; [symmetry; now apply H1 | congruence].
      * intros a' H. destruct (H3 a' H) as [V' [v Hv]]. split; auto. exists v. now left.
      * exact H4.
    + split; [|cbn; auto]. split; [|split; [|split]]; cbn.
      * exact H1.
      * intros a' v' [H|(_ & -> & ->)].
        -- destruct (H2 a' v' H) as (Hl & Hd & Hr). split; auto. split; auto. intros Hv. unfold upd. destruct (Nat.eqb a' a); auto.
        -- split; auto. split; [symmetry; now apply H1|]. intros _. apply upd_same.
      * intros a' H. unfold upd in H. destruct (Nat.eqb a' a) eqn:E.
        -- apply Nat.eqb_eq in E. subst a'. split; auto. exists (vals x a). right. auto.
        -- destruct (H3 a' H) as [V' [v Hv]]. split; auto. exists v. now left.
      * intros; congruence.
Qed.

Lemma sinv_set sch x O a v : sinv sch x O -> loaded x = true -> sinv sch (do_set x a v) O.
Proof.
  intros (H1 & H2 & H3 & H4) L. split; [|split; [|split]]; cbn.
  - intros a' _ W. unfold upd in *. destruct (Nat.eqb a' a); [discriminate|auto].
  - exact H2.
  - exact H3.
  - congruence.
Qed.

Lemma sinv_status sch x O r : sinv sch x O -> sinv sch (set_status x r) O.
Proof. intros (H1 & H2 & H3 & H4). split; [|split; [|split]]; cbn; auto. Qed.

(* ------------------------------------------------------------------------------------------ global invariant *)

Definition observed (stt : state) (s a : nat) (v : val) : Prop := In (EvObs s a v true) (trace stt).
Definition inv (sch : schema) (stt : state) : Prop := forall s, sinv sch (ss stt s) (observed stt s).

Lemma inv_init sch d pr : inv sch (init d pr).
Proof. intros s. unfold observed. cbn. repeat split; cbn; try tauto; try discriminate. Qed.

(* effect of `put` on the invariant: session s gets x', every new event belongs to s *)
Lemma inv_put sch stt s x' rest evs d' (O' : nat -> val -> Prop) :
  inv sch stt ->
  (forall e, In e evs -> match e with EvObs s' _ _ _ => s' = s | _ => True end) ->
  (forall a v, (In (EvObs s a v true) evs \/ observed stt s a v) <-> O' a v) ->
  sinv sch x' O' ->
  inv sch (put stt s x' rest evs d').
Proof.
  intros I Hev HO Hx s0. unfold put, observed. cbn [ss trace].
  destruct (Nat.eq_dec s0 s) as [->|Hne].
  - rewrite upd_same. eapply sinv_ext; [|exact Hx]. intros a v. rewrite in_app_iff. symmetry. apply HO.
  - rewrite upd_other by auto. eapply sinv_ext; [|exact (I s0)]. intros a v. unfold observed. rewrite in_app_iff.
    split; [tauto|]. intros [H|H]; auto. apply Hev in H. congruence.
Qed.

Lemma inv_step k sch stt s : inv sch stt -> inv sch (step k sch stt s).
Proof.
  intros I. unfold step. pose proof (I s) as Is.
  destruct (st (ss stt s)) eqn:S; auto. destruct (progs stt s) as [|o rest] eqn:P; auto.
  destruct (sinv_load sch (sdb stt) _ _ Is) as [Il Ll].
  destruct o as [a | a [v | b d] | ].
  - (* Read *)
    destruct (do_get sch (do_load (sdb stt) (ss stt s)) a) as [[x2 v] fdb] eqn:G.
    destruct (sinv_get _ _ _ _ _ _ _ Il Ll G) as (Ig & _ & _).
    eapply inv_put; eauto.
    + intros e [<-|[]]. reflexivity.
    + intros a' v'. cbn. split.
      * intros [[H|[]]|H]; auto. injection H as <- <- <-. right. auto.
      * intros [H|(-> & -> & ->)]; auto.
  - (* Write const *)
    eapply inv_put; eauto.
    + intros e [].
    + intros a' v'. cbn. split; [intros [[]|H]; exact H | auto].
    + now apply sinv_set.
  - (* Write plus *)
    destruct (do_get sch (do_load (sdb stt) (ss stt s)) b) as [[x2 v] fdb] eqn:G.
    destruct (sinv_get _ _ _ _ _ _ _ Il Ll G) as (Ig & Lg & _).
    destruct v as [z|].
    + eapply inv_put; [exact I | | | apply sinv_set; [exact Ig | exact Lg]].
      * intros e [<-|[]]. reflexivity.
      * intros a' v'. cbn. split.
        -- intros [[H|[]]|H]; auto. injection H as <- <- <-. right. auto.
        -- intros [H|(-> & -> & ->)]; auto.
    + eapply inv_put; [exact I | | | apply sinv_status; exact Ig].
      * intros e [<-|[<-|[]]]; auto.
      * intros a' v'. cbn. split.
        -- intros [[H|[H|[]]]|H]; auto; try discriminate. injection H as <- <- <-. right. auto.
        -- intros [H|(-> & -> & ->)]; auto.
  - (* Commit *)
    destruct (set_list k (ss stt s)) eqn:SL.
    + eapply inv_put; [exact I | | | apply sinv_status; exact Is].
      * intros e [<-|[]]; auto.
      * intros a' v'. cbn. split; [intros [[H|[]]|H]; [discriminate|exact H] | auto].
    + destruct (matches (sdb stt) (criteria k sch (ss stt s))).
      * eapply inv_put; [exact I | | | apply sinv_status; exact Is].
        -- intros e [<-|[<-|[]]]; auto.
        -- intros a' v'. cbn. split; [intros [[H|[H|[]]]|H]; try discriminate; exact H | auto].
      * eapply inv_put; [exact I | | | apply sinv_status; exact Is].
        -- intros e [<-|[<-|[]]]; auto.
        -- intros a' v'. cbn. split; [intros [[H|[H|[]]]|H]; try discriminate; exact H | auto].
Qed.

Lemma inv_run k sch sched : forall stt, inv sch stt -> inv sch (run k sch stt sched).
Proof. induction sched as [|s r IH]; intros stt I; cbn; auto. apply IH. now apply inv_step. Qed.

Lemma inv_reachable k sch d pr sched : inv sch (run k sch (init d pr) sched).
Proof. apply inv_run, inv_init. Qed.

(* ------------------------------------------------------------------------------------------ main lemmas *)

Lemma rbits_exact k sch d pr sched s a :
  let stt := run k sch (init d pr) sched in
  rbits (ss stt s) a = true <-> a_vol (sch a) = false /\ exists v, observed stt s a v.
Proof.
  cbn zeta. destruct (inv_reachable k sch d pr sched s) as (H1 & H2 & H3 & H4). split.
  - apply H3.
  - intros [V [v Hv]]. apply H2 in Hv. tauto.
Qed.

Lemma where_reachable k sch d pr sched s a v :
  let stt := run k sch (init d pr) sched in
  In (a, v) (criteria k sch (ss stt s)) <-> (a < k)%nat /\ checked sch a = true /\ observed stt s a v.
Proof.
  cbn zeta. destruct (inv_reachable k sch d pr sched s) as (H1 & H2 & H3 & H4).
  rewrite in_criteria. unfold checked. split.
  - intros (Hk & Hr & Ho & ->). destruct (H3 a Hr) as [V [v Hv]]. split; auto. split.
    + now rewrite Ho, V.
    + destruct (H2 a v Hv) as (_ & <- & _). exact Hv.
  - intros (Hk & Hc & Hv). apply andb_true_iff in Hc. destruct Hc as [Ho V]. apply negb_true_iff in V.
    destruct (H2 a v Hv) as (_ & E & R). auto.
Qed.

(* the commit step, for an arbitrary state *)
Lemma commit_step k sch stt s rest :
  st (ss stt s) = Active -> progs stt s = Commit :: rest ->
  let x := ss stt s in
  let stt' := step k sch stt s in
  (set_list k x = [] -> st (ss stt' s) = Committed /\ sdb stt' = sdb stt)
  /\ (set_list k x <> [] -> matches (sdb stt) (criteria k sch x) = true ->
        st (ss stt' s) = Committed /\ sdb stt' = apply_sets (sdb stt) (set_list k x))
  /\ (set_list k x <> [] -> matches (sdb stt) (criteria k sch x) = false ->
        st (ss stt' s) = Failed E_OPT /\ sdb stt' = sdb stt).
Proof.
  intros S P. cbn zeta. unfold step. rewrite S, P.
  destruct (set_list k (ss stt s)) eqn:SL.
  - cbn. rewrite upd_same. repeat split; auto; congruence.
  - destruct (matches (sdb stt) (criteria k sch (ss stt s))) eqn:M; cbn; rewrite upd_same; repeat split; auto; congruence.
Qed.

Lemma do_load_st d x : st (do_load d x) = st x.
Proof. unfold do_load. destruct (loaded x); reflexivity. Qed.

Lemma do_get_st sch x a x' v f : do_get sch x a = (x', v, f) -> st x' = st x.
Proof. unfold do_get. destruct (_ || _); intros E; injection E as <- _ _; reflexivity. Qed.

(* every step other than a commit leaves the database alone and does not turn a session Committed / Failed E_OPT *)
Lemma noncommit_step k sch stt s o rest :
  st (ss stt s) = Active -> progs stt s = o :: rest -> o <> Commit ->
  let stt' := step k sch stt s in
  sdb stt' = sdb stt /\ st (ss stt' s) <> Committed /\ st (ss stt' s) <> Failed E_OPT.
Proof.
  intros S P N. cbn zeta. unfold step. rewrite S, P.
  destruct o as [a | a [v | b d] | ]; [| | |congruence].
  - destruct (do_get sch (do_load (sdb stt) (ss stt s)) a) as [[x2 v] fdb] eqn:G. cbn. rewrite upd_same.
    apply do_get_st in G. rewrite do_load_st in G. rewrite G, S. repeat split; congruence.
  - cbn. rewrite upd_same. cbn. rewrite do_load_st, S. repeat split; congruence.
  - destruct (do_get sch (do_load (sdb stt) (ss stt s)) b) as [[x2 v] fdb] eqn:G.
    apply do_get_st in G. rewrite do_load_st in G.
    destruct v; cbn; rewrite upd_same; cbn; repeat split; try congruence. unfold E_TYPE, E_OPT. congruence.
Qed.

Lemma inactive_step k sch stt s : st (ss stt s) <> Active -> step k sch stt s = stt.
Proof. intros H. unfold step. destruct (st (ss stt s)); congruence. Qed.

Lemma no_ops_step k sch stt s : progs stt s = [] -> step k sch stt s = stt.
Proof. intros H. unfold step. rewrite H. destruct (st (ss stt s)); reflexivity. Qed.

Definition has_writes (k : nat) (x : sess) : Prop := exists a, (a < k)%nat /\ wbits x a = true.

Lemma has_writes_set_list k x : has_writes k x <-> set_list k x <> [].
Proof.
  split.
  - intros [a [Hk Hw]] E. rewrite set_list_nil in E. rewrite E in Hw by auto. discriminate.
  - intros N. destruct (set_list k x) as [|[a v] l] eqn:E; [congruence|].
    assert (In (a, v) (set_list k x)) as Hin by (rewrite E; now left).
    unfold set_list in Hin. apply in_map_iff in Hin. destruct Hin as [b [Hb Hin]]. injection Hb as <- _.
    apply filter_In in Hin. destruct Hin as [Hs Hw]. apply in_seq in Hs. exists b. split; auto. lia.
Qed.

(* all attributes the session observed from the database and that are protected still hold the value observed *)
Definition still_valid (k : nat) (sch : schema) (stt : state) (s : nat) : Prop :=
  forall a v, (a < k)%nat -> checked sch a = true -> observed stt s a v -> sdb stt a = v.

Lemma matches_still_valid k sch d pr sched s :
  let stt := run k sch (init d pr) sched in
  matches (sdb stt) (criteria k sch (ss stt s)) = true <-> still_valid k sch stt s.
Proof.
  cbn zeta. rewrite matches_spec. unfold still_valid. split.
  - intros H a v Hk Hc Ho. apply H. apply where_reachable. auto.
  - intros H a v Hin. apply where_reachable in Hin. destruct Hin as (Hk & Hc & Ho). now apply H.
Qed.

Lemma no_lost_update k sch d pr sched s :
  let stt := run k sch (init d pr) sched in
  let stt' := step k sch stt s in
  let x := ss stt s in
  (* the database row changes only by a commit of an active session that becomes Committed *)
  ((exists a, sdb stt' a <> sdb stt a) -> st x = Active /\ st (ss stt' s) = Committed /\ has_writes k x)
  (* a session with writes becomes Committed only if everything it read (protected) is still valid; the row then gets exactly its writes *)
  /\ (st x = Active -> st (ss stt' s) = Committed -> has_writes k x ->
        still_valid k sch stt s
        /\ forall a, sdb stt' a = if (a <? k)%nat && wbits x a then vals x a else sdb stt a)
  (* if something it read has changed, its commit ends in OptimisticCheckError and the row is untouched *)
  /\ (st x = Active -> (exists rest, progs stt s = Commit :: rest) -> has_writes k x -> ~ still_valid k sch stt s ->
        st (ss stt' s) = Failed E_OPT /\ sdb stt' = sdb stt)
  /\ (st x = Active -> st (ss stt' s) = Failed E_OPT -> sdb stt' = sdb stt /\ has_writes k x /\ ~ still_valid k sch stt s)
  (* a finished session never acts again: a failed session's writes never become visible *)
  /\ (st x <> Active -> stt' = stt).
Proof.
  cbn zeta. set (stt := run k sch (init d pr) sched).
  pose proof (matches_still_valid k sch d pr sched s) as MV. cbn zeta in MV. fold stt in MV.
  assert (forall o, {o = Commit} + {o <> Commit}) as Dec by (intros [| |]; (now left) || (right; congruence)).
  destruct (st (ss stt s)) eqn:S.
  2,3: rewrite inactive_step by congruence; (split; [|split; [|split; [|split]]]);
       [intros [a Ha]; congruence | intros; congruence | intros; congruence | intros; congruence | reflexivity].
  destruct (progs stt s) as [|o rest] eqn:P.
  { rewrite no_ops_step by auto. split; [|split; [|split; [|split]]].
    - intros [a Ha]; congruence.
    - intros; congruence.
    - intros _ [r Hr]. discriminate.
    - intros; congruence.
    - intros; congruence. }
  destruct (Dec o) as [->|N].
  2:{ destruct (noncommit_step k sch stt s o rest S P N) as (E & C1 & C2). split; [|split; [|split; [|split]]].
      - intros [a Ha]. rewrite E in Ha. congruence.
      - intros; congruence.
      - intros _ [r Hr]. congruence.
      - intros; congruence.
      - intros; congruence. }
  destruct (commit_step k sch stt s rest S P) as (C1 & C2 & C3).
  destruct (set_list k (ss stt s)) as [|p l] eqn:SL.
  { destruct (C1 eq_refl) as [F E]. assert (~ has_writes k (ss stt s)) as NW by (rewrite has_writes_set_list; congruence).
    split; [|split; [|split; [|split]]].
    - intros [a Ha]. rewrite E in Ha. congruence.
    - intros; contradiction.
    - intros; contradiction.
    - intros; congruence.
    - intros; congruence. }
  assert (has_writes k (ss stt s)) as W by (rewrite has_writes_set_list; congruence).
  destruct (matches (sdb stt) (criteria k sch (ss stt s))) eqn:M.
  - destruct C2 as [F E]; [congruence|reflexivity|]. assert (still_valid k sch stt s) as V by now apply MV.
    split; [|split; [|split; [|split]]].
    + intros _. auto.
    + intros _ _ _. split; auto. intros a. rewrite E, <- SL. apply apply_set_list.
    + intros; contradiction.
    + intros; congruence.
    + intros; congruence.
  - destruct C3 as [F E]; [congruence|reflexivity|].
    assert (~ still_valid k sch stt s) as V by (intros V; apply MV in V; congruence).
    split; [|split; [|split; [|split]]].
    + intros [a Ha]. rewrite E in Ha. congruence.
    + intros; congruence.
    + intros; auto.
    + intros; auto.
    + intros; congruence.
Qed.
