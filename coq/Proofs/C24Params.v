(* C24 - chained lambda steps are successive Python filters of list(q), every step with its own captured value, also when the
   steps share one code object. *)
Require Import PonyV.Base.PyBase PonyV.Gen.C24Window PonyV.Model.C24Params.

Section ParamsProofs.
Context {A : Type}.
Implicit Types q : pquery (A:=A).

Definition pq_wf q : Prop := forall s, In s (pq_steps q) -> (fst (fst s) <= pq_filter_num q)%nat.

Lemma clone_passes : clone_passes_filter_num = true.
Proof. reflexivity. Qed.

Lemma vkey_eqb_neq (a b : vkey) : fst a <> fst b -> vkey_eqb a b = false.
Proof. intros H. unfold vkey_eqb. destruct (Nat.eqb (fst a) (fst b)) eqn:E; [apply Nat.eqb_eq in E; contradiction | reflexivity]. Qed.
Lemma vkey_eqb_refl (a : vkey) : vkey_eqb a a = true.
Proof. unfold vkey_eqb. now rewrite !Nat.eqb_refl. Qed.

Lemma filter_and' (p r : A -> bool) l : filter (fun x => p x && r x) l = filter r (filter p l).
Proof. induction l as [|x l IH]; cbn; [reflexivity|]. destruct (p x); cbn; [destruct (r x)|]; now rewrite IH. Qed.

Lemma filter_ext' (p r : A -> bool) l : (forall x, p x = r x) -> filter p l = filter r l.
Proof. intros H. induction l as [|x l IH]; cbn; [reflexivity|]. now rewrite H, IH. Qed.

Lemma forallb_ext' {B} (f g : B -> bool) l : (forall s, In s l -> f s = g s) -> forallb f l = forallb g l.
Proof.
  induction l as [|y l IH]; intros H; cbn; [reflexivity|]. rewrite (H y) by now left. f_equal. apply IH. intros s Hs. apply H. now right.
Qed.

Lemma process_lambda_keep code p v q : pq_wf q -> forall x,
  pq_keep (process_lambda code p v q) x = pq_keep q x && p v x.
Proof.
  intros Hwf x. unfold pq_keep, process_lambda; cbn [pq_steps pq_vars]. rewrite forallb_app. cbn [forallb fst snd].
  rewrite vkey_eqb_refl, andb_true_r. f_equal.
  apply forallb_ext'. intros s Hs. rewrite vkey_eqb_neq; [reflexivity|].
  specialize (Hwf s Hs). unfold next_filter_num. cbn [fst]. lia.
Qed.

Theorem process_lambda_list code p v q : pq_wf q ->
  pq_list (process_lambda code p v q) = filter (p v) (pq_list q) /\ pq_wf (process_lambda code p v q).
Proof.
  intros Hwf. split.
  - unfold pq_list. cbn [pq_rows process_lambda]. rewrite <- filter_and'. apply filter_ext'. now apply process_lambda_keep.
  - intros s Hs. unfold process_lambda in *; cbn [pq_steps pq_filter_num] in *. rewrite clone_passes.
    apply in_app_or in Hs. destruct Hs as [Hs|[<-|[]]]; [specialize (Hwf s Hs); unfold next_filter_num; lia | cbn; lia].
Qed.

Theorem apply_steps_list (l : list (@step A)) : forall q, pq_wf q ->
  pq_list (apply_steps l q) = py_filters l (pq_list q) /\ pq_wf (apply_steps l q).
Proof.
  induction l as [|s l IH]; intros q Hwf; cbn [apply_steps py_filters fold_left]; [split; [reflexivity|assumption]|].
  destruct (process_lambda_list (fst (fst s)) (snd (fst s)) (snd s) q Hwf) as [E W].
  destruct (IH _ W) as [E2 W2]. unfold apply_steps in *. rewrite E2, E. auto.
Qed.

Lemma pq_base_list (rows : list A) : pq_list (pq_base rows) = rows.
Proof.
  unfold pq_list, pq_base, pq_keep; cbn [pq_rows pq_steps forallb].
  induction rows as [|x r IH]; cbn [filter]; [reflexivity | now rewrite IH].
Qed.

Theorem chained_filters (rows : list A) (l : list (@step A)) : pq_list (apply_steps l (pq_base rows)) = py_filters l rows.
Proof.
  destruct (apply_steps_list l (pq_base rows)) as [E _]; [intros s []|].
  now rewrite E, pq_base_list.
Qed.

End ParamsProofs.
