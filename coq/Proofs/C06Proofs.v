(* C06 lemmas over the translated functions (Gen/C06Quote.v) and the parameter model (Model/C06Params.v). *)
Require Import PonyV.Base.PyBase PonyV.Model.C06Str PonyV.Model.C06Lex PonyV.Model.C06Params PonyV.Gen.C06Quote
               PonyV.Model.C06Stmt PonyV.Proofs.C06StrLemmas.
From Coq Require Import ZifyBool.

(* ------------------------------------------------------------------------------------------------ literals *)

Definition is_fmt (st : paramstyle) : bool := style_in st [Format; Pyformat].

Lemma quote_str_plain : forall st s, is_fmt st = false ->
  quote_str st s = 39 :: replace_all 39 [39; 39] s ++ [39].
Proof. intros st s H. unfold quote_str. unfold is_fmt in H. rewrite H. reflexivity. Qed.

Lemma quote_str_fmt : forall st s, is_fmt st = true ->
  quote_str st s = replace_all 37 [37; 37] (39 :: replace_all 39 [39; 39] s ++ [39]).
Proof.
  intros st s H. unfold quote_str. unfold is_fmt in H. rewrite H.
  rewrite replace_all_cons, replace_all_app. cbn [Z.eqb Pos.eqb app replace_all flat_map].
  rewrite (double_comm 37 39) by lia. reflexivity.
Qed.

(* what the server sees is the standard literal, for every style *)
Lemma server_text_quote_str : forall st s,
  server_text st (quote_str st s) = Some (39 :: replace_all 39 [39; 39] s ++ [39]).
Proof.
  intros st s. unfold server_text. fold (is_fmt st). destruct (is_fmt st) eqn:E.
  - rewrite quote_str_fmt by exact E. apply fmt_subst_doubled.
  - rewrite quote_str_plain by exact E. reflexivity.
Qed.

Lemma literal_std : forall st s, is_fmt st = false -> lex_std (quote_str st s) = Some s.
Proof. intros st s H. rewrite quote_str_plain by exact H. apply (lex_whole_doubled 39). Qed.

Lemma literal_fmt : forall st s, is_fmt st = true ->
  match fmt_subst (quote_str st s) with Some t => lex_std t | None => None end = Some s.
Proof. intros st s H. rewrite quote_str_fmt by exact H. rewrite fmt_subst_doubled. apply (lex_whole_doubled 39). Qed.

Lemma literal_all_styles : forall st s, server_lex st (quote_str st s) = Some s.
Proof. intros st s. unfold server_lex. rewrite server_text_quote_str. apply (lex_whole_doubled 39). Qed.

(* in context: the literal is read back and the lexer continues exactly at the text that follows it *)
Lemma literal_in_context : forall st s post, is_fmt st = false -> (forall r, post <> 39 :: r) ->
  lex_quoted 39 (quote_str st s ++ post) = Some (s, post).
Proof.
  intros st s post H Hp. rewrite quote_str_plain by exact H.
  change ((39 :: replace_all 39 [39; 39] s ++ [39]) ++ post) with (39 :: (replace_all 39 [39; 39] s ++ [39]) ++ post).
  rewrite <- app_assoc. apply lex_quoted_doubled. exact Hp.
Qed.

(* format styles, in context: the driver's %-step turns the literal into the standard literal, creates no argument slot
   inside it and goes on in text mode with what follows *)
Lemma literal_fmt_in_context : forall st s post, is_fmt st = true ->
  fmt_scan (quote_str st s ++ post) = opt_app (map FChar (39 :: replace_all 39 [39; 39] s ++ [39])) (fmt_scan post).
Proof. intros st s post H. rewrite quote_str_fmt by exact H. apply fmt_go_doubled. Qed.

(* provider subclasses: a str value always goes through quote_str *)
Lemma value_str_paths : forall st s,
  value_str st s = quote_str st s /\ sqlite_value_str st s = quote_str st s /\
  mysql_value_str st s = quote_str st s /\ pg_value_str st s = quote_str st s.
Proof. intros. repeat split; reflexivity. Qed.

(* MySQL, documented default lexical rules: fine for strings without a backslash *)
Lemma literal_mysql_no_backslash : forall st s, mem_char 92 s = false ->
  match server_text st (mysql_value_str st s) with Some t => lex_mysql t | None => None end = Some s.
Proof.
  intros st s H. change (mysql_value_str st s) with (quote_str st s). rewrite server_text_quote_str.
  unfold lex_mysql. rewrite Z.eqb_refl.
  rewrite lex_mysql_body_doubled; [reflexivity | exact H | intros r Hr; discriminate Hr].
Qed.

Lemma literal_mysql_refuted :
  match server_text Format (mysql_value_str Format [92]) with Some t => lex_mysql t | None => None end <> Some [92].
Proof. vm_compute. discriminate. Qed.

(* the classic: value  \' OR 1=1 --   closes the literal early under MySQL's default rules *)
Lemma literal_mysql_structure_refuted :
  exists lit rest, rest <> [] /\
    match server_text Format (mysql_value_str Format [92; 39; 32; 79; 82; 32; 49; 61; 49; 32; 45; 45; 32]) with
    | Some (q :: t) => lex_mysql_body t
    | _ => None
    end = Some (lit, rest).
Proof. eexists. eexists. split; [|vm_compute; reflexivity]. discriminate. Qed.

(* ------------------------------------------------------------------------------------------------ identifiers *)

Lemma quote_name_eq : forall q n, quote_name q n = q :: replace_all q [q; q] n ++ [q].
Proof. intros. reflexivity. Qed.

Lemma ident_roundtrip : forall q n, lex_ident q (quote_name q n) = Some n.
Proof. intros q n. rewrite quote_name_eq. apply lex_whole_doubled. Qed.

Lemma ident_in_context : forall q n post, (forall r, post <> q :: r) ->
  lex_quoted q (quote_name q n ++ post) = Some (n, post).
Proof.
  intros q n post Hp. rewrite quote_name_eq.
  change ((q :: replace_all q [q; q] n ++ [q]) ++ post) with (q :: (replace_all q [q; q] n ++ [q]) ++ post).
  rewrite <- app_assoc. apply lex_quoted_doubled. exact Hp.
Qed.

(* schema.table : the parts are quoted one by one and joined with a dot; reading part by part gives the parts back *)
Fixpoint lex_dotted (q : Z) (fuel : nat) (t : str) : option (list str) :=
  match fuel with
  | O => None
  | S fuel' =>
      match lex_quoted q t with
      | Some (n, []) => Some [n]
      | Some (n, d :: r) => if d =? 46 then match lex_dotted q fuel' r with Some l => Some (n :: l) | None => None end else None
      | None => None
      end
  end.

Lemma lex_dotted_S : forall q f t, lex_dotted q (S f) t =
  match lex_quoted q t with
  | Some (n, []) => Some [n]
  | Some (n, d :: r) => if d =? 46 then match lex_dotted q f r with Some l => Some (n :: l) | None => None end else None
  | None => None
  end.
Proof. reflexivity. Qed.

Lemma ident_seq_roundtrip : forall q names, q <> 46 -> names <> [] ->
  lex_dotted q (length names) (quote_name_seq q names) = Some names.
Proof.
  intros q names Hq. unfold quote_name_seq. induction names as [|n r IH]; intro Hne; [congruence|].
  destruct r as [|n2 r].
  - cbn [map join length]. rewrite lex_dotted_S, <- (app_nil_r (quote_name q n)).
    rewrite ident_in_context; [reflexivity | intros x Hx; discriminate Hx].
  - change (length (n :: n2 :: r)) with (S (length (n2 :: r))). rewrite lex_dotted_S.
    change (join [46] (map (quote_name q) (n :: n2 :: r)))
      with (quote_name q n ++ [46] ++ join [46] (map (quote_name q) (n2 :: r))).
    rewrite ident_in_context.
    + cbn [app]. rewrite Z.eqb_refl. rewrite IH; [reflexivity | discriminate].
    + intros x Hx. cbn [app] in Hx. inversion Hx. congruence.
Qed.

(* format styles (documentation model of the driver): a % in a name is NOT doubled by quote_name *)
Lemma ident_fmt_refuted :
  match fmt_subst (quote_name 34 [97; 37; 37; 98]) with Some t => lex_ident 34 t | None => None end <> Some [97; 37; 37; 98]
  /\ fmt_subst (quote_name 34 [97; 37; 98]) = None.
Proof. split; vm_compute; [discriminate | reflexivity]. Qed.

Lemma ident_fmt_no_percent : forall q n, q <> 37 -> mem_char 37 n = false ->
  match fmt_subst (quote_name q n) with Some t => lex_ident q t | None => None end = Some n.
Proof.
  intros q n Hq Hn.
  assert (E : mem_char 37 (quote_name q n) = false).
  { rewrite quote_name_eq. cbn [mem_char existsb]. unfold mem_char in *. rewrite existsb_app. cbn [existsb].
    assert (q =? 37 = false) as -> by lia. cbn [orb]. rewrite orb_false_r.
    induction n as [|x n IH]; [reflexivity|]. cbn [existsb] in Hn. apply orb_false_iff in Hn. destruct Hn as [Hx Hn].
    rewrite replace_all_cons, existsb_app, (IH Hn), orb_false_r.
    destruct (x =? q); cbn [existsb]; [assert (q =? 37 = false) as -> by lia; reflexivity | rewrite Hx; reflexivity]. }
  rewrite <- (replace_all_absent 37 [37; 37] _ E) at 1. rewrite fmt_subst_doubled. apply ident_roundtrip.
Qed.

(* ------------------------------------------------------------------------------------------------ bytes *)

Lemma bytes_roundtrip : forall st bs, Forall (fun b => 0 <= b < 256) bs -> lex_blob (value_bytes st bs) = Some bs.
Proof.
  intros st bs H. unfold value_bytes. cbn [app lex_blob]. cbn [Z.eqb Pos.eqb orb andb].
  rewrite rev_app_distr. cbn [rev app]. cbn [Z.eqb Pos.eqb]. rewrite rev_involutive. apply unhex_hexlify. exact H.
Qed.

(* no % is ever produced in a blob literal, so the %-step of format drivers leaves it alone *)
Lemma hexlify_no_percent : forall bs, mem_char 37 (hexlify bs) = false \/ exists b, In b bs /\ ~ (0 <= b < 256).
Proof.
  induction bs as [|b bs IH]; [left; reflexivity|].
  destruct (Z_lt_dec b 0) as [Hn|Hn]; [right; exists b; split; [left; reflexivity | lia]|].
  destruct (Z_lt_dec b 256) as [Hb|Hb]; [|right; exists b; split; [left; reflexivity | lia]].
  destruct IH as [IH | (b' & Hin & Hr)]; [|right; exists b'; split; [right; exact Hin | exact Hr]].
  left. unfold hexlify in *. cbn [flat_map app mem_char existsb]. unfold mem_char in IH. rewrite IH.
  assert (0 <= b / 16 < 16) by (split; [apply Z.div_pos; lia | apply Z.div_lt_upper_bound; lia]).
  assert (0 <= b mod 16 < 16) by (apply Z.mod_pos_bound; lia).
  unfold hex_digit. destruct (b / 16 <? 10) eqn:E1; destruct (b mod 16 <? 10) eqn:E2; lia.
Qed.

(* ------------------------------------------------------------------------------------------------ MOD *)

Lemma mod_symbol_server : forall st, server_text st (mod_symbol st) = Some [32; 37; 32].
Proof. destruct st; reflexivity. Qed.

(* ------------------------------------------------------------------------------------------------ LIKE *)

Definition like_of (pe : str * bool) (s : str) : bool :=
  like_match (if snd pe then Some like_escape_char else None) (fst pe) s.

Lemma esc_strip : forall v p s,
  like_match (Some 33) (replace_all 95 [33; 95] (replace_all 37 [33; 37] (replace_all 33 [33; 33] v)) ++ p) s =
  match strip_prefix v s with Some r => like_match (Some 33) p r | None => false end.
Proof. intros. rewrite replace_chain_escape. apply like_escaped. Qed.

Lemma like_param_contains_ok : forall x s, like_of (like_param_contains x) s = true <-> is_infix x s.
Proof.
  intros x s. unfold like_of, like_param_contains. cbn [fst snd app].
  apply (shape_infix (Some 33) _ x); [reflexivity | apply esc_strip].
Qed.

Lemma like_param_startswith_ok : forall x s, like_of (like_param_startswith x) s = true <-> is_prefix x s.
Proof.
  intros x s. unfold like_of, like_param_startswith. cbn [fst snd].
  apply (shape_prefix (Some 33) _ x); [reflexivity | apply esc_strip].
Qed.

Lemma like_param_endswith_ok : forall x s, like_of (like_param_endswith x) s = true <-> is_suffix x s.
Proof.
  intros x s. unfold like_of, like_param_endswith. cbn [fst snd app].
  apply (shape_suffix (Some 33) _ x); [reflexivity | apply esc_strip].
Qed.

Lemma like_const_contains_ok : forall v s, like_of (like_const_contains v) s = true <-> is_infix v s.
Proof.
  intros v s. unfold like_of, like_const_contains.
  destruct (mem_char 37 v) eqn:E1; [|destruct (mem_char 95 v) eqn:E2]; cbn [fst snd app].
  - rewrite <- ?app_assoc. apply (shape_infix (Some 33) _ v); [reflexivity | apply esc_strip].
  - rewrite <- ?app_assoc. apply (shape_infix (Some 33) _ v); [reflexivity | apply esc_strip].
  - rewrite <- ?app_assoc. apply (shape_infix None v v); [reflexivity | intros; apply like_plain; assumption].
Qed.

Lemma like_const_startswith_ok : forall v s, like_of (like_const_startswith v) s = true <-> is_prefix v s.
Proof.
  intros v s. unfold like_of, like_const_startswith.
  destruct (mem_char 37 v) eqn:E1; [|destruct (mem_char 95 v) eqn:E2]; cbn [fst snd].
  - apply (shape_prefix (Some 33) _ v); [reflexivity | apply esc_strip].
  - apply (shape_prefix (Some 33) _ v); [reflexivity | apply esc_strip].
  - apply (shape_prefix None v v); [reflexivity | intros; apply like_plain; assumption].
Qed.

Lemma like_const_endswith_ok : forall v s, like_of (like_const_endswith v) s = true <-> is_suffix v s.
Proof.
  intros v s. unfold like_of, like_const_endswith.
  destruct (mem_char 37 v) eqn:E1; [|destruct (mem_char 95 v) eqn:E2]; cbn [fst snd app].
  - apply (shape_suffix (Some 33) _ v); [reflexivity | apply esc_strip].
  - apply (shape_suffix (Some 33) _ v); [reflexivity | apply esc_strip].
  - apply (shape_suffix None v v); [reflexivity | intros; apply like_plain; assumption].
Qed.

(* PostgreSQL and MySQL (documentation): without an ESCAPE clause the escape character of LIKE is the backslash.
   Pony adds ESCAPE '!' only when it escaped something, so the constant branch without % and _ runs under that default. *)
Definition like_of_bs (pe : str * bool) (s : str) : bool :=
  like_match (if snd pe then Some like_escape_char else Some 92) (fst pe) s.

Lemma existsb_is_esc_92 : forall v, mem_char 92 v = false -> existsb (is_esc (Some 92)) v = false.
Proof. intros v H. exact H. Qed.

Lemma like_const_contains_bs : forall v s, mem_char 92 v = false -> (like_of_bs (like_const_contains v) s = true <-> is_infix v s).
Proof.
  intros v s Hb. unfold like_of_bs, like_const_contains.
  destruct (mem_char 37 v) eqn:E1; [|destruct (mem_char 95 v) eqn:E2]; cbn [fst snd app].
  - rewrite <- ?app_assoc. apply (shape_infix (Some 33) _ v); [reflexivity | apply esc_strip].
  - rewrite <- ?app_assoc. apply (shape_infix (Some 33) _ v); [reflexivity | apply esc_strip].
  - rewrite <- ?app_assoc. apply (shape_infix (Some 92) v v); [reflexivity | intros; apply like_plain_esc; assumption].
Qed.

Lemma like_const_startswith_bs : forall v s, mem_char 92 v = false -> (like_of_bs (like_const_startswith v) s = true <-> is_prefix v s).
Proof.
  intros v s Hb. unfold like_of_bs, like_const_startswith.
  destruct (mem_char 37 v) eqn:E1; [|destruct (mem_char 95 v) eqn:E2]; cbn [fst snd].
  - apply (shape_prefix (Some 33) _ v); [reflexivity | apply esc_strip].
  - apply (shape_prefix (Some 33) _ v); [reflexivity | apply esc_strip].
  - apply (shape_prefix (Some 92) v v); [reflexivity | intros; apply like_plain_esc; assumption].
Qed.

Lemma like_const_endswith_bs : forall v s, mem_char 92 v = false -> (like_of_bs (like_const_endswith v) s = true <-> is_suffix v s).
Proof.
  intros v s Hb. unfold like_of_bs, like_const_endswith.
  destruct (mem_char 37 v) eqn:E1; [|destruct (mem_char 95 v) eqn:E2]; cbn [fst snd app].
  - apply (shape_suffix (Some 33) _ v); [reflexivity | apply esc_strip].
  - apply (shape_suffix (Some 33) _ v); [reflexivity | apply esc_strip].
  - apply (shape_suffix (Some 92) v v); [reflexivity | intros; apply like_plain_esc; assumption].
Qed.

(* the parameter branch always carries ESCAPE '!' and is not affected *)
Lemma like_param_bs : forall x s,
  like_of_bs (like_param_contains x) s = like_of (like_param_contains x) s /\
  like_of_bs (like_param_startswith x) s = like_of (like_param_startswith x) s /\
  like_of_bs (like_param_endswith x) s = like_of (like_param_endswith x) s.
Proof. intros. repeat split; reflexivity. Qed.

(* "\" in s  on PostgreSQL / MySQL: the pattern %\% asks for a literal percent sign at the end *)
Lemma like_const_bs_refuted :
  like_of_bs (like_const_contains [92]) [97; 92; 98] = false /\ is_infix [92] [97; 92; 98]
  /\ like_of_bs (like_const_contains [92]) [97; 37] = true /\ ~ is_infix [92] [97; 37].
Proof.
  split; [vm_compute; reflexivity|]. split; [exists [97], [98]; reflexivity|]. split; [vm_compute; reflexivity|].
  intros (a & b & H). destruct a as [|x a]; [discriminate H|]. destruct a as [|y a]; [cbn in H; inversion H|].
  cbn in H. inversion H as [[H1 H2 H3]]. destruct a; discriminate H3.
Qed.

(* the patterns are themselves rendered as literals / bound as parameters, so they reach the server unchanged
   (literal_all_styles); nothing more to prove here *)

(* ------------------------------------------------------------------------------------------------ parameters *)

Fixpoint first_idx (k : Z) (l : list Z) : nat :=
  match l with [] => O | x :: r => if x =? k then O else S (first_idx k r) end.

Lemma first_idx_app_in : forall k pre r, In k pre -> first_idx k (pre ++ r) = first_idx k pre.
Proof.
  induction pre as [|x pre IH]; intros r H; [destruct H|]. cbn [app first_idx].
  destruct (x =? k) eqn:E; [reflexivity|]. f_equal. apply IH. destruct H as [H|H]; [lia|exact H].
Qed.

Lemma first_idx_app_notin : forall k pre r, ~ In k pre -> first_idx k (pre ++ r) = (length pre + first_idx k r)%nat.
Proof.
  induction pre as [|x pre IH]; intros r H; [reflexivity|]. cbn [app first_idx length].
  destruct (x =? k) eqn:E; [exfalso; apply H; left; lia|]. cbn. f_equal. apply IH. intro H'. apply H. right. exact H'.
Qed.

Lemma nth_error_first_idx : forall k l, In k l -> nth_error l (first_idx k l) = Some k.
Proof.
  induction l as [|x l IH]; intro H; [destruct H|]. cbn [first_idx].
  destruct (x =? k) eqn:E; [cbn; f_equal; lia|]. cbn. apply IH. destruct H as [H|H]; [lia|exact H].
Qed.

Definition idf (keys : list key) (k : key) : Z := Z.of_nat (first_idx k keys) + 1.

Definition tbl_ok (pre : list key) (tbl : list (key * Z)) : Prop :=
  forall k, (In k pre -> lookup k tbl = Some (idf pre k)) /\ (~ In k pre -> lookup k tbl = None).

Lemma assign_ids_spec : forall suf pre tbl, tbl_ok pre tbl ->
  assign_ids (Z.of_nat (length pre)) tbl suf = map (idf (pre ++ suf)) suf.
Proof.
  induction suf as [|k suf IH]; intros pre tbl Hok; [reflexivity|].
  cbn [assign_ids map]. destruct (in_dec Z.eq_dec k pre) as [Hin|Hnin].
  - rewrite (proj1 (Hok k) Hin).
    replace (Z.of_nat (length pre) + 1) with (Z.of_nat (length (pre ++ [k]))) by (rewrite app_length; cbn; lia).
    rewrite (IH (pre ++ [k]) tbl).
    + rewrite <- app_assoc. cbn [app]. f_equal. unfold idf. rewrite first_idx_app_in by exact Hin. reflexivity.
    + intro k'. split.
      * intro H. apply in_app_or in H. assert (Hk' : In k' pre) by (destruct H as [H|[H|[]]]; [exact H | subst; exact Hin]).
        rewrite (proj1 (Hok k') Hk'). unfold idf. rewrite first_idx_app_in by exact Hk'. reflexivity.
      * intro H. apply (proj2 (Hok k')). intro H'. apply H. apply in_or_app. left. exact H'.
  - rewrite (proj2 (Hok k) Hnin).
    replace (Z.of_nat (length pre) + 1) with (Z.of_nat (length (pre ++ [k]))) at 2 by (rewrite app_length; cbn; lia).
    rewrite (IH (pre ++ [k]) ((k, Z.of_nat (length pre) + 1) :: tbl)).
    + rewrite <- app_assoc. cbn [app]. f_equal. unfold idf. rewrite first_idx_app_notin by exact Hnin.
      cbn [first_idx]. rewrite Z.eqb_refl, Nat.add_0_r. reflexivity.
    + intro k'. cbn [lookup]. destruct (k =? k') eqn:E.
      * assert (k' = k) by lia. subst k'. split; [|intro H; exfalso; apply H; apply in_or_app; right; left; reflexivity].
        intros _. f_equal. unfold idf. rewrite first_idx_app_notin by exact Hnin. cbn [first_idx]. rewrite Z.eqb_refl, Nat.add_0_r. reflexivity.
      * split.
        -- intro H. apply in_app_or in H. destruct H as [H|[H|[]]]; [|lia].
           rewrite (proj1 (Hok k') H). unfold idf. rewrite first_idx_app_in by exact H. reflexivity.
        -- intro H. apply (proj2 (Hok k')). intro H'. apply H. apply in_or_app. left. exact H'.
Qed.

(* each occurrence carries the id "position of the first occurrence of its key, plus one" *)
Lemma ids_of_spec : forall keys, ids_of keys = map (idf keys) keys.
Proof.
  intro keys. unfold ids_of. apply (assign_ids_spec keys [] []).
  intro k. split; [intros []|reflexivity].
Qed.

Lemma idf_inj : forall keys a b, In a keys -> In b keys -> idf keys a = idf keys b -> a = b.
Proof.
  intros keys a b Ha Hb H. unfold idf in H. assert (E : first_idx a keys = first_idx b keys) by lia.
  pose proof (nth_error_first_idx a keys Ha) as Na. pose proof (nth_error_first_idx b keys Hb) as Nb.
  rewrite E in Na. congruence.
Qed.

Section Bind.
Variable V : Type.
Variable env : key -> V.

Lemma bind_positional : forall (p : ptok) (X : list Z) suf pre,
  (p = PQ \/ p = PF) -> length X = length suf ->
  bind_from (ATuple (map env (pre ++ suf))) (length pre) (map (fun _ => p) X) = map (fun k => Some (env k)) suf.
Proof.
  intros p X suf. revert X. induction suf as [|k suf IH]; intros X pre Hp HX.
  - destruct X; [reflexivity | discriminate HX].
  - destruct X as [|x X]; [discriminate HX|]. cbn [map bind_from]. f_equal.
    + assert (E : nth_error (map env (pre ++ k :: suf)) (length pre) = Some (env k)).
      { rewrite map_app, nth_error_app2 by (rewrite map_length; lia). rewrite map_length, Nat.sub_diag. reflexivity. }
      destruct Hp; subst p; exact E.
    + replace (S (length pre)) with (length (pre ++ [k])) by (rewrite app_length; cbn; lia).
      replace (pre ++ k :: suf) with ((pre ++ [k]) ++ suf) by (rewrite <- app_assoc; reflexivity).
      apply IH; [exact Hp | cbn in HX; lia].
Qed.

Lemma bind_numeric : forall keys l pos, (forall k, In k l -> In k keys) ->
  bind_from (ATuple (map env keys)) pos (map (fun k => PNum (idf keys k)) l) = map (fun k => Some (env k)) l.
Proof.
  intros keys l. induction l as [|k l IH]; intros pos H; [reflexivity|].
  cbn [map bind_from]. f_equal; [|apply IH; intros; apply H; right; assumption].
  cbn [bind1]. unfold idf. assert (1 <=? Z.of_nat (first_idx k keys) + 1 = true) as -> by lia.
  replace (Z.to_nat (Z.of_nat (first_idx k keys) + 1 - 1)) with (first_idx k keys) by lia.
  rewrite nth_error_map, nth_error_first_idx by (apply H; left; reflexivity). reflexivity.
Qed.

Lemma lookup_idf : forall keys k l, In k keys -> In k l -> (forall x, In x l -> In x keys) ->
  lookup (idf keys k) (map (fun x => (idf keys x, env x)) l) = Some (env k).
Proof.
  intros keys k l Hk. induction l as [|x l IH]; intros Hin Hsub; [destruct Hin|].
  cbn [map lookup]. destruct (idf keys x =? idf keys k) eqn:E.
  - assert (x = k) by (apply (idf_inj keys); [apply Hsub; left; reflexivity | exact Hk | lia]). subst x. reflexivity.
  - apply IH; [|intros; apply Hsub; right; assumption].
    destruct Hin as [Hin|Hin]; [subst x; rewrite Z.eqb_refl in E; discriminate E | exact Hin].
Qed.

Lemma combine_map : forall (f : key -> Z) (l : list key),
  combine (map f l) (map env l) = map (fun x => (f x, env x)) l.
Proof. intros f l. induction l as [|x l IH]; [reflexivity|]. cbn. f_equal. exact IH. Qed.

Lemma dict_get_idf : forall keys k, In k keys ->
  dict_get (idf keys k) (combine (map (idf keys) keys) (map env keys)) = Some (env k).
Proof.
  intros keys k Hk. unfold dict_get. rewrite combine_map, <- map_rev.
  apply lookup_idf; [exact Hk | apply in_rev in Hk; exact Hk | intros x Hx; apply in_rev; exact Hx].
Qed.

Lemma bind_named : forall keys (mk : Z -> ptok) l pos, (forall id, mk id = PNam id) \/ (forall id, mk id = PPy id) ->
  (forall k, In k l -> In k keys) ->
  bind_from (ADict (combine (map (idf keys) keys) (map env keys))) pos (map (fun k => mk (idf keys k)) l)
  = map (fun k => Some (env k)) l.
Proof.
  intros keys mk l. induction l as [|k l IH]; intros pos Hmk H; [reflexivity|].
  cbn [map bind_from]. f_equal; [|apply IH; [exact Hmk | intros; apply H; right; assumption]].
  destruct Hmk as [Hmk|Hmk]; rewrite Hmk; cbn [bind1]; apply dict_get_idf; apply H; left; reflexivity.
Qed.

(* every placeholder of the text is bound to the value of its own paramkey: all five styles, any occurrence list *)
Lemma params_bound : forall st keys,
  bind_all (adapter st keys env) (placeholders st keys) = map (fun k => Some (env k)) keys.
Proof.
  intros st keys. unfold bind_all, placeholders, adapter. rewrite ids_of_spec. rewrite map_map.
  destruct st.
  - change (fun x => param_str Qmark (idf keys x)) with (fun _ : key => PQ).
    apply (bind_positional PQ keys keys []); [left; reflexivity | reflexivity].
  - change (fun x => param_str Format (idf keys x)) with (fun _ : key => PF).
    apply (bind_positional PF keys keys []); [right; reflexivity | reflexivity].
  - change (fun x => param_str Numeric (idf keys x)) with (fun x => PNum (idf keys x)).
    apply bind_numeric. intros k H; exact H.
  - change (fun x => param_str Named (idf keys x)) with (fun x => PNam (idf keys x)).
    apply (bind_named keys PNam); [left; reflexivity | intros k H; exact H].
  - change (fun x => param_str Pyformat (idf keys x)) with (fun x => PPy (idf keys x)).
    apply (bind_named keys PPy); [right; reflexivity | intros k H; exact H].
Qed.

(* sqlite3-style check for positional styles: exactly as many values as placeholders; numeric ids stay in range *)
Lemma params_counts : forall st keys,
  match adapter st keys env with
  | ATuple vs => length vs = length (placeholders st keys)
  | ADict kvs => forall p, In p (placeholders st keys) -> exists id, (p = PNam id \/ p = PPy id) /\ In id (map fst kvs)
  | ANone => False
  end.
Proof.
  intros st keys. unfold placeholders, adapter.
  destruct st; try (rewrite !map_length; unfold ids_of; rewrite ids_of_spec, map_length; reflexivity).
  - intros p Hp. apply in_map_iff in Hp. destruct Hp as (id & Hid & Hin). exists id. split; [left; symmetry; exact Hid|].
    rewrite ids_of_spec in *. rewrite combine_map, map_map. cbn [fst].
    apply in_map_iff in Hin. destruct Hin as (k & Hk & Hin). apply in_map_iff. exists k. split; assumption.
  - intros p Hp. apply in_map_iff in Hp. destruct Hp as (id & Hid & Hin). exists id. split; [right; symmetry; exact Hid|].
    rewrite ids_of_spec in *. rewrite combine_map, map_map. cbn [fst].
    apply in_map_iff in Hin. destruct Hin as (k & Hk & Hin). apply in_map_iff. exists k. split; assumption.
Qed.

End Bind.
