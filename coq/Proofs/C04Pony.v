(* C04 - from the tables to trees: the reference style, the all-parentheses style and the style scanned from the code
   (Gen/Priority.v) are adequate for every well-formed tree. *)
From Coq Require Import ZArith List Bool Arith Lia.
Import ListNotations.
Require Import PonyV.Model.C04Expr PonyV.Model.C04Parse PonyV.Model.C04FStr PonyV.Gen.Priority
               PonyV.Proofs.C04Kinds PonyV.Proofs.C04Table PonyV.Proofs.C04Parse PonyV.Proofs.C04Mono PonyV.Proofs.C04FStrProofs.
Open Scope nat_scope.

Lemma covers_children_of : forall st,
  (forall k q c, allowed k q c = true -> child_ok st k q c = true) ->
  forall k cs i, children_allowed k i cs = true -> covers_children st k i cs = true.
Proof.
  intros st H k cs. induction cs as [|c cs IH]; intros i Ha; [reflexivity|].
  simpl in *. apply andb_prop in Ha. destruct Ha as [Ha1 Ha2]. rewrite (H _ _ _ Ha1), (IH _ Ha2). reflexivity.
Qed.

Lemma covers_of : forall st,
  (forall k q c, allowed k q c = true -> child_ok st k q c = true) -> forall e, wf e = true -> covers st e = true.
Proof.
  intros st H. induction e as [l cs IH] using expr_ind'. intros Hw. simpl in *.
  apply andb_prop in Hw. destruct Hw as [Hw Hw3]. apply andb_prop in Hw. destruct Hw as [_ Hw2].
  rewrite (covers_children_of st H _ _ _ Hw2). simpl. apply forallb_forall. intros c Hin.
  rewrite Forall_forall in IH. rewrite forallb_forall in Hw3. apply IH; [exact Hin|apply Hw3; exact Hin].
Qed.

Lemma child_ok_ref : forall k q c, child_ok ref_style k q c = true.
Proof.
  intros k q c. unfold child_ok. simpl. destruct (ref_needs k q c) eqn:E; simpl.
  - destruct (expr_kindb c) eqn:Ek; [reflexivity|]. rewrite (ref_needs_item _ _ _ Ek) in E. discriminate E.
  - apply orb_true_r.
Qed.

Lemma child_ok_full : forall k q c, child_ok full_style k q c = true.
Proof.
  intros k q c. unfold child_ok. simpl. destruct (expr_kindb c) eqn:Ek; simpl.
  - destruct (ref_needs k q c); reflexivity.
  - rewrite (ref_needs_item _ _ _ Ek). reflexivity.
Qed.

Lemma good_ref : forall e, wf e = true -> good ref_style e = true.
Proof. intros e H. unfold good. rewrite H, (covers_of ref_style (fun k q c _ => child_ok_ref k q c) e H). reflexivity. Qed.

Lemma good_full : forall e, wf e = true -> good full_style e = true.
Proof. intros e H. unfold good. rewrite H, (covers_of full_style (fun k q c _ => child_ok_full k q c) e H). reflexivity. Qed.

(* the code's style *)
Lemma child_ok_pony : forall k q c, allowed k q c = true -> child_ok pony_style k q c = true.
Proof.
  intros k q c Ha. unfold child_ok. simpl. apply andb_true_intro. split.
  - destruct (ref_needs k q c) eqn:E; [|reflexivity]. simpl. apply table_covers. exact E.
  - destruct (expr_kindb c) eqn:Ek; [reflexivity|]. simpl. rewrite (items_never_wrapped _ _ _ Ha Ek). reflexivity.
Qed.

Lemma covers_pony : forall e, wf e = true -> covers pony_style e = true.
Proof. apply covers_of. exact child_ok_pony. Qed.

(* whatever the f-string / index-tuple flags of the code are: trees it does not distort *)
Lemma pony_roundtrip_flags : forall e,
  wf e = true -> (pony_keep_spec || spec_free e) = true -> (pony_short_idx || long_idx e) = true ->
  expr_kindb (ekind e) = true ->
  exists n, forall f, n <= f -> parse_top f (print pony_style e) = Some e.
Proof.
  intros e Hw Hs Hi He. apply print_parse_roundtrip; [|exact He].
  unfold good. rewrite Hw, (covers_pony e Hw). cbn [andb]. unfold spec_ok, idx_ok. cbn [keep_spec short_idx pony_style].
  rewrite Hs, Hi. reflexivity.
Qed.

(* with the flags the current source has (format specs printed, x[a,] and x[()] printed as such): every well-formed tree *)
Lemma good_pony : forall e, wf e = true -> good pony_style e = true.
Proof. intros e H. unfold good. rewrite H, (covers_pony e H). reflexivity. Qed.

Lemma pony_roundtrip : forall e, wf e = true -> expr_kindb (ekind e) = true ->
  exists n, forall f, n <= f -> parse_top f (print pony_style e) = Some e.
Proof. intros e Hw He. apply print_parse_roundtrip; [apply good_pony; exact Hw|exact He]. Qed.

Lemma pony_unique : forall e, wf e = true -> expr_kindb (ekind e) = true ->
  forall f e', parse_top f (print pony_style e) = Some e' -> e' = e.
Proof. intros e Hw He. apply roundtrip_unique; [apply good_pony; exact Hw|exact He]. Qed.

Lemma pony_kinds_all : forall k, pony_kind_ok k = true.
Proof. intros k. destruct k; reflexivity. Qed.

Lemma ref_roundtrip : forall e, wf e = true -> expr_kindb (ekind e) = true ->
  exists n, forall f, n <= f -> parse_top f (print ref_style e) = Some e.
Proof. intros e Hw He. apply print_parse_roundtrip; [apply good_ref; exact Hw|exact He]. Qed.

Lemma full_roundtrip : forall e, wf e = true -> expr_kindb (ekind e) = true ->
  exists n, forall f, n <= f -> parse_top f (print full_style e) = Some e.
Proof. intros e Hw He. apply print_parse_roundtrip; [apply good_full; exact Hw|exact He]. Qed.

(* f-string bodies with the code's own flags: every value in normal form *)
Lemma pony_fstring : forall v, normal_f false v = true -> parse_f (print_f pony_escape_braces pony_keep_spec v) = Some v.
Proof. intros v H. apply fstring_roundtrip_flags; [exact H|left; reflexivity|left; reflexivity]. Qed.

(* ---------------------------------------------------------------- a sample tree *)

Definition nm (c : Z) : expr := Node (LName [c]) [].
Definition A := nm 97. Definition B := nm 98. Definition C := nm 99. Definition X := nm 120. Definition Y := nm 121.
Definition one : expr := Node (LConst [49]%Z) [].
Definition add (a b : expr) := Node (LOp KAdd) [a; b].
Definition attr (v : expr) (n : str) := Node (LAttribute n) [v].
Definition call (f : expr) (args : list expr) := Node (LOp KCall) (f :: args).
Definition ifexp (body test orelse : expr) := Node (LOp KIfExp) [body; test; orelse].
Definition upper : str := [117; 112; 112; 101; 114]%Z.

(* operators of many levels, a chain, nested powers and unary minus, receivers that need parentheses, a conditional as operand,
   a lambda that is called, a slice, a one-element index tuple, a starred argument, a keyword, an f-string with conversion and spec *)
Definition sample : expr :=
  Node (LOp KOr) [Node (LOp KNot) [Node (LCompare [CLt; CLtE]) [A; Node (LOp KSub) [B; Node (LOp KSub) [C; one]]; X]];
                  Node (LOp KPow) [Node (LOp KPow) [Node (LOp KUSub) [A]; B]; Node (LOp KPow) [B; Node (LOp KUSub) [C]]];
                  call (attr (add X Y) upper) [];
                  add (ifexp A C B) one;
                  call (Node (LLambda [[117]%Z]) [add (nm 117) A]) [B];
                  Node (LOp KSubscript) [add X Y; Node (LOp KIdxTuple) [A]];
                  Node (LJoined [[123; 120; 125]%Z; []]) [Node (LFormatted (Some 114%Z) (Some [62; 51]%Z)) [add A B]];
                  call (attr (Node (LOp KSubscript) [X; Node (LSlice true false true) [A; B]]) upper)
                       [Node (LOp KStarArg) [Y]; Node (LKeyword (Some [107]%Z)) [Node (LOp KMult) [add A B; C]]]].

Lemma sample_ok : wf sample = true /\ parse_auto (print pony_style sample) = Some sample.
Proof. vm_compute. split; reflexivity. Qed.
