(* C04 - from the tables to trees: the reference style and the all-parentheses style are adequate for every well-formed tree;
   the style scanned from the code (Gen/Priority.v) is adequate for every well-formed tree that avoids the known triples.
   Witnesses (vm_compute) for the known findings. *)
From Coq Require Import ZArith List Bool Arith Lia.
Import ListNotations.
Require Import PonyV.Model.C04Expr PonyV.Model.C04Parse PonyV.Model.C04Known PonyV.Model.C04FStr PonyV.Gen.Priority
               PonyV.Proofs.C04Kinds PonyV.Proofs.C04Table PonyV.Proofs.C04Parse PonyV.Proofs.C04FStrProofs.
Open Scope nat_scope.

Lemma covers_children_of : forall st,
  (forall k q c, allowed k q c = true -> child_ok st k q c = true) ->
  forall k cs i, children_allowed k i cs = true -> covers_children st k i cs = true.
Proof.
  intros st H k cs. induction cs as [|c cs IH]; intros i Ha; [reflexivity|].
  simpl in *. apply andb_prop in Ha. destruct Ha as [Ha1 Ha2]. rewrite (H _ _ _ Ha1), (IH _ Ha2). reflexivity.
Qed.

Lemma covers_of : forall st,
  (forall k q c, allowed k q c = true -> child_ok st k q c = true) -> forall e, wf e = true -> covers st e = true.
Proof.
  intros st H. induction e as [l cs IH] using expr_ind'. intros Hw. simpl in *.
  apply andb_prop in Hw. destruct Hw as [Hw Hw3]. apply andb_prop in Hw. destruct Hw as [_ Hw2].
  rewrite (covers_children_of st H _ _ _ Hw2). simpl. apply forallb_forall. intros c Hin.
  rewrite Forall_forall in IH. rewrite forallb_forall in Hw3. apply IH; [exact Hin|apply Hw3; exact Hin].
Qed.

Lemma child_ok_ref : forall k q c, child_ok ref_style k q c = true.
Proof.
  intros k q c. unfold child_ok. simpl. destruct (ref_needs k q c) eqn:E; simpl.
  - destruct (expr_kindb c) eqn:Ek; [reflexivity|]. rewrite (ref_needs_item _ _ _ Ek) in E. discriminate E.
  - apply orb_true_r.
Qed.

Lemma child_ok_full : forall k q c, child_ok full_style k q c = true.
Proof.
  intros k q c. unfold child_ok. simpl. destruct (expr_kindb c) eqn:Ek; simpl.
  - destruct (ref_needs k q c); reflexivity.
  - rewrite (ref_needs_item _ _ _ Ek). reflexivity.
Qed.

Lemma good_ref : forall e, wf e = true -> good ref_style e = true.
Proof. intros e H. unfold good. rewrite H, (covers_of ref_style (fun k q c _ => child_ok_ref k q c) e H). reflexivity. Qed.

Lemma good_full : forall e, wf e = true -> good full_style e = true.
Proof. intros e H. unfold good. rewrite H, (covers_of full_style (fun k q c _ => child_ok_full k q c) e H). reflexivity. Qed.

(* the code's style on a tree that avoids the known triples *)
Lemma covers_children_pony : forall k cs i,
  children_allowed k i cs = true -> avoids_known_children k i cs = true -> covers_children pony_style k i cs = true.
Proof.
  intros k cs. induction cs as [|c cs IH]; intros i Ha Hk; [reflexivity|].
  simpl in *. apply andb_prop in Ha. destruct Ha as [Ha1 Ha2]. apply andb_prop in Hk. destruct Hk as [Hk1 Hk2].
  apply negb_true_iff in Hk1. rewrite (IH _ Ha2 Hk2). rewrite andb_true_r.
  unfold child_ok. simpl. apply andb_true_intro. split.
  - destruct (ref_needs k (pos_of k i) (ekind c)) eqn:E; [|reflexivity]. simpl. apply table_except_known; assumption.
  - destruct (expr_kindb (ekind c)) eqn:Ek; [reflexivity|]. simpl. rewrite (items_never_wrapped _ _ _ Ek). reflexivity.
Qed.

Lemma covers_pony : forall e, wf e = true -> avoids_known e = true -> covers pony_style e = true.
Proof.
  induction e as [l cs IH] using expr_ind'. intros Hw Hk. simpl in *.
  apply andb_prop in Hw. destruct Hw as [Hw Hw3]. apply andb_prop in Hw. destruct Hw as [_ Hw2].
  apply andb_prop in Hk. destruct Hk as [Hk1 Hk2].
  rewrite (covers_children_pony _ _ _ Hw2 Hk1). simpl. apply forallb_forall. intros c Hin.
  rewrite Forall_forall in IH. rewrite forallb_forall in Hw3, Hk2. apply IH; [exact Hin|apply Hw3; exact Hin|apply Hk2; exact Hin].
Qed.

Lemma pony_roundtrip : forall e,
  wf e = true -> avoids_known e = true -> (pony_keep_spec || spec_free e) = true -> kinds_ok pony_kind_ok e = true ->
  expr_kindb (ekind e) = true ->
  exists n, forall f, n <= f -> parse_top f (print pony_style e) = Some e.
Proof.
  intros e Hw Hk Hs _ He. apply print_parse_roundtrip; [|exact He].
  unfold good. rewrite Hw, (covers_pony e Hw Hk). simpl. exact Hs.
Qed.

Lemma ref_roundtrip : forall e, wf e = true -> expr_kindb (ekind e) = true ->
  exists n, forall f, n <= f -> parse_top f (print ref_style e) = Some e.
Proof. intros e Hw He. apply print_parse_roundtrip; [apply good_ref; exact Hw|exact He]. Qed.

Lemma full_roundtrip : forall e, wf e = true -> expr_kindb (ekind e) = true ->
  exists n, forall f, n <= f -> parse_top f (print full_style e) = Some e.
Proof. intros e Hw He. apply print_parse_roundtrip; [apply good_full; exact Hw|exact He]. Qed.

Lemma pony_fstring : forall v, normal_f false v = true ->
  (pony_escape_braces = true \/ brace_free v = true) -> (pony_keep_spec = true \/ no_spec v = true) ->
  parse_f (print_f pony_escape_braces pony_keep_spec v) = Some v.
Proof. intros. apply fstring_roundtrip_flags; assumption. Qed.

(* ---------------------------------------------------------------- witnesses *)

Definition nm (c : Z) : expr := Node (LName [c]) [].
Definition A := nm 97. Definition B := nm 98. Definition C := nm 99. Definition X := nm 120. Definition Y := nm 121.
Definition one : expr := Node (LConst [49]%Z) [].
Definition add (a b : expr) := Node (LOp KAdd) [a; b].
Definition attr (v : expr) (n : str) := Node (LAttribute n) [v].
Definition call (f : expr) (args : list expr) := Node (LOp KCall) (f :: args).
Definition ifexp (body test orelse : expr) := Node (LOp KIfExp) [body; test; orelse].
Definition upper : str := [117; 112; 112; 101; 114]%Z.

(* (x + y).upper()  is printed  x + y.upper(), which Python reads as  x + (y.upper()) *)
Lemma w_receiver_attribute :
  parse_auto (print pony_style (call (attr (add X Y) upper) [])) = Some (add X (call (attr Y upper) [])).
Proof. vm_compute. reflexivity. Qed.

(* (x + y)(a)  is printed  x + y(a) *)
Lemma w_receiver_call : parse_auto (print pony_style (call (add X Y) [A])) = Some (add X (call Y [A])).
Proof. vm_compute. reflexivity. Qed.

(* (x + y)[a]  is printed  x + y[a] *)
Lemma w_receiver_subscript :
  parse_auto (print pony_style (Node (LOp KSubscript) [add X Y; A])) = Some (add X (Node (LOp KSubscript) [Y; A])).
Proof. vm_compute. reflexivity. Qed.

(* x == (a if c else b) + 1  is printed  x == a if c else b + 1, read as (x == a) if c else (b + 1) *)
Lemma w_ifexp_child :
  parse_auto (print pony_style (Node (LCompare [CEq]) [X; add (ifexp A C B) one]))
  = Some (ifexp (Node (LCompare [CEq]) [X; A]) C (add B one)).
Proof. vm_compute. reflexivity. Qed.

(* (a if b else c) if x else y  is printed  a if b else c if x else y, read as a if b else (c if x else y) *)
Lemma w_ifexp_body : parse_auto (print pony_style (ifexp (ifexp A B C) X Y)) = Some (ifexp A B (ifexp C X Y)).
Proof. vm_compute. reflexivity. Qed.

(* (lambda: x)()  is printed  lambda : x(), read as lambda: (x()) *)
Lemma w_lambda_child :
  parse_auto (print pony_style (call (Node (LLambda []) [X]) [])) = Some (Node (LLambda []) [call X []]).
Proof. vm_compute. reflexivity. Qed.

(* a folded constant -1 as base of a power: printed  -1 ** y, read as -(1 ** y) *)
Lemma w_negconst_pow :
  parse_auto (print pony_style (Node (LOp KPow) [Node (LNegConst [49]%Z) []; Y]))
  = Some (Node (LOp KUSub) [Node (LOp KPow) [one; Y]]).
Proof. vm_compute. reflexivity. Qed.

(* [*(a or b)]  is printed  [*a or b], which is not an expression *)
Lemma w_starred_element :
  parse_auto (print pony_style (Node (LOp KList) [Node (LOp KStarElt) [Node (LOp KOr) [A; B]]])) = None.
Proof. vm_compute. reflexivity. Qed.

(* f'{a:>3}' and f'{a}' are printed alike: the format spec is dropped *)
Lemma w_fstring_spec :
  print pony_style (Node (LJoined [[]; []]) [Node (LFormatted None (Some [62; 51]%Z)) [A]])
  = print pony_style (Node (LJoined [[]; []]) [Node (LFormatted None None) [A]]).
Proof. vm_compute. reflexivity. Qed.

(* the literal text {x} is printed without doubling the braces and is read back as a replacement field *)
Lemma w_fstring_brace :
  parse_f (print_f pony_escape_braces pony_keep_spec [FLit [123; 120; 125]%Z]) = Some [FField [120]%Z None None].
Proof. vm_compute. reflexivity. Qed.

(* x[a,] and x[a] are printed alike: the comma of the one-element index tuple is lost *)
Lemma w_index_tuple_one :
  print pony_style (Node (LOp KSubscript) [X; Node (LOp KIdxTuple) [A]]) = print pony_style (Node (LOp KSubscript) [X; A]).
Proof. vm_compute. reflexivity. Qed.

(* x[()] is printed x[], which is not an expression *)
Lemma w_index_tuple_empty : parse_auto (print pony_style (Node (LOp KSubscript) [X; Node (LOp KIdxTuple) []])) = None.
Proof. vm_compute. reflexivity. Qed.

(* postInvert reads node.expr, a field UnaryOp does not have: ~x cannot be printed at all *)
Lemma w_invert : pony_kind_ok KInvert = false.
Proof. vm_compute. reflexivity. Qed.

(* the positive theorems are not vacuous: a deep tree with operators of many levels, which the code prints correctly *)
Definition sample : expr :=
  Node (LOp KOr) [Node (LOp KNot) [Node (LCompare [CLt; CLtE]) [A; Node (LOp KSub) [B; Node (LOp KSub) [C; one]]; X]];
                  Node (LOp KPow) [Node (LOp KUSub) [A]; Node (LOp KPow) [B; Node (LOp KUSub) [C]]];
                  call (attr (Node (LOp KSubscript) [X; Node (LSlice true false true) [A; B]]) upper)
                       [Node (LOp KStarArg) [Y]; Node (LKeyword (Some [107]%Z)) [Node (LOp KMult) [add A B; C]]]].

Lemma sample_ok :
  wf sample = true /\ avoids_known sample = true /\ spec_free sample = true /\ kinds_ok pony_kind_ok sample = true /\
  parse_auto (print pony_style sample) = Some sample.
Proof. vm_compute. repeat split; reflexivity. Qed.
