(* C09 / C10, proved part: transaction structure of the session model (what commit, rollback and leaving the db_session do to the
   committed database) and read-your-own-write for plain attributes.  The full statements of C09 and C10 (committed rows and reads
   agree with the logical state of the program) are checked against a reference state on generated histories, see notes/C09.md. *)
Require Import PonyV.Model.SessionBase PonyV.Model.SessionDb PonyV.Model.Session.
Require Import PonyV.Proofs.SessionLemmas PonyV.Proofs.SessionState PonyV.Proofs.SessionIdx PonyV.Proofs.SessionDbPd.
From Coq Require Import Arith.

(* ---------------------------------------------------------------- C09: transactions *)

(* a successful commit publishes exactly the transaction's database *)
Theorem commit_publishes_transaction : forall sch s, s_declined s = false -> snd (commit_op sch s) = ROk ->
  s_committed (fst (commit_op sch s)) = s_db (fst (commit_op sch s)) /\
  exists s1 u, flush sch s = Ok s1 u /\ s_db (fst (commit_op sch s)) = s_db s1.
Proof.
  intros sch s D R. unfold commit_op in *. destruct (flush sch s) as [s1 u|s1 er]; cbn [fst snd] in *; [|discriminate R].
  split. reflexivity. exists s1, u. split; reflexivity.
Qed.

(* rollback: the next session starts from the committed database with an empty cache; nothing the program did since the last
   commit survives *)
Theorem rollback_discards_everything : forall s,
  let s' := fst (rollback_op s) in
  s_db s' = s_committed s /\ s_committed s' = s_committed s /\ s_objs s' = [] /\ s_idx s' = [] /\ s_tosave s' = [] /\ s_handles s' = [].
Proof. intros s. unfold rollback_op, keep_declined. cbn [fst]. destruct (s_declined s); cbn; repeat split; reflexivity. Qed.

(* leaving the db_session: commits when the flush succeeds, otherwise the changes are gone; either way the cache is empty *)
Theorem newsession_commits_or_discards : forall sch s,
  let s' := fst (newsession_op sch s) in
  s_db s' = s_committed s' /\ s_objs s' = [] /\ s_handles s' = [] /\
  (snd (newsession_op sch s) <> ROk -> s_committed s' = s_committed s).
Proof.
  intros sch s. destruct (Qc_generic sch (s_committed s)) as (F & _ & _). specialize (F s eq_refl).
  unfold newsession_op, keep_declined. destruct (flush sch s) as [s1 u|s1 er]; cbn [fst snd out_state] in *.
  - destruct (s_declined s1); cbn; repeat split; try reflexivity; intro N; exfalso; apply N; reflexivity.
  - destruct (s_declined s1); cbn; repeat split; auto.
Qed.

(* the state after a rollback or a failed commit is a function of the committed database alone: two histories that committed the
   same database are indistinguishable afterwards *)
Theorem after_rollback_only_committed_matters : forall s1 s2, s_committed s1 = s_committed s2 -> s_declined s1 = s_declined s2 ->
  fst (rollback_op s1) = fst (rollback_op s2).
Proof. intros s1 s2 C D. unfold rollback_op, keep_declined. cbn [fst]. rewrite C, D. reflexivity. Qed.

(* ---------------------------------------------------------------- C10: read your own write (plain attribute) *)

Lemma upd_obj_handles : forall s o f, s_handles (upd_obj s o f) = s_handles s.
Proof. intros. unfold upd_obj. destruct (get_obj s o); reflexivity. Qed.

Lemma mark_written_handles : forall s o a, s_handles (mark_written s o a) = s_handles s.
Proof.
  intros. unfold mark_written. destruct (get_obj s o) as [ob|]; auto. destruct (status_eqb (o_st ob) SCreated); auto.
  destruct (status_eqb (o_st ob) SModified). reflexivity.
  unfold queue. cbn [set_modified set_tosave s_handles]. rewrite !upd_obj_handles. reflexivity.
Qed.

Theorem read_after_set_plain : forall sch s h a z o at_ s',
  Inv_shape sch s -> hget s h = Some o -> get_attr sch (obj_ent s o) a = Some at_ -> a_kind at_ = KInt -> a_uniq at_ = false ->
  set_op sch s h a (AInt z) = (s', ROk) ->
  snd (read_op sch s' h a) = RVal (VInt z).
Proof.
  intros sch s h a z o at_ s' SH HG GA K U S.
  unfold set_op in S. rewrite HG, GA, K in S. cbn [is_set_kind is_ref_kind arg_handles handles_ok forallb negb] in S.
  destruct (is_del (obj_st s o)) eqn:D; [discriminate S|].
  unfold validate in S. rewrite K in S. rewrite U in S. cbn [negb] in S. inversion S as [S']. clear S.
  destruct (get_obj s o) as [ob|] eqn:G; [|unfold obj_st in D; rewrite G in D; discriminate D].
  destruct (kframe_mark_written sch s o a D) as (_ & _ & _ & KF). destruct (KF o ob G) as (b & Gb & KE).
  destruct KE as (E1 & _ & E3 & E4 & _ & E6 & _).
  set (s1 := mark_written s o a) in *.
  set (f := fun ob0 : obj => ob_put_val ob0 a (Some (VInt z))).
  assert (G' : get_obj (upd_obj s1 o f) o = Some (f b)) by (rewrite get_upd_obj_same, Gb; reflexivity).
  unfold read_op. unfold hget. rewrite upd_obj_handles. unfold s1. rewrite mark_written_handles. fold (hget s h). rewrite HG.
  fold s1. unfold obj_ent at 1. rewrite G'. cbn [f ob_put_val ob_set_vals o_ent].
  assert (EE : o_ent b = obj_ent s o) by (unfold obj_ent; rewrite G; congruence). rewrite EE, GA, K.
  unfold obj_st. rewrite G'. cbn [f ob_put_val ob_set_vals o_st].
  assert (NG : is_gone (o_st b) = false).
  { rewrite <- E4. unfold obj_st in D. rewrite G in D. destruct (o_st ob); try discriminate D; reflexivity. }
  rewrite NG. unfold obj_val. rewrite G'. unfold oval. cbn [f ob_put_val ob_set_vals o_vals].
  rewrite nth_upd_nth_same. reflexivity.
  rewrite <- E6. rewrite (SH o ob G). apply (get_attr_lt sch _ a at_). unfold obj_ent in GA. rewrite G in GA. exact GA.
Qed.

(* for every history: in a clean state, a successful assignment of a plain integer attribute is what the next read returns *)
Theorem read_after_set_all_histories : forall sch, wf_schema sch = true -> forall ops h a z o at_ s',
  s_dirty (run sch ops) = O -> hget (run sch ops) h = Some o -> get_attr sch (obj_ent (run sch ops) o) a = Some at_ ->
  a_kind at_ = KInt -> a_uniq at_ = false -> set_op sch (run sch ops) h a (AInt z) = (s', ROk) ->
  snd (read_op sch s' h a) = RVal (VInt z).
Proof.
  intros sch WF ops h a z o at_ s' D HG GA K U S. eapply read_after_set_plain; eauto.
  destruct (Pk_run sch WF ops) as [X|[_ X]]. contradiction. exact X.
Qed.

(* ---------------------------------------------------------------- C10: read your own write, every scalar attribute (unique or not, int or str) *)

Lemma obj_val_get_some : forall s o ob a, get_obj s o = Some ob -> obj_val s o a = oval ob a.
Proof. intros. unfold obj_val. rewrite H. reflexivity. Qed.

Theorem read_after_set_scalar : forall sch s h a v o at_ s',
  Inv_shape sch s -> hget s h = Some o -> get_attr sch (obj_ent s o) a = Some at_ -> is_scalar_kind (a_kind at_) = true ->
  set_op sch s h a v = (s', ROk) ->
  exists nv, validate s at_ (Some v) = VOk nv /\ snd (read_op sch s' h a) = RVal nv.
Proof.
  intros sch s h a v o at_ s' SH HG GA K S.
  assert (NS : is_set_kind (a_kind at_) = false) by (destruct (a_kind at_); try discriminate K; reflexivity).
  assert (NR : is_ref_kind (a_kind at_) = false) by (destruct (a_kind at_); try discriminate K; reflexivity).
  unfold set_op in S. rewrite HG, GA, NS in S.
  destruct (negb (handles_ok s (arg_handles v))); [discriminate S|].
  destruct (is_del (obj_st s o)) eqn:D; [discriminate S|].
  destruct (validate s at_ (Some v)) as [nv| |] eqn:V; try discriminate S.
  exists nv. split. reflexivity. rewrite NR in S.
  destruct (get_obj s o) as [ob|] eqn:G; [|unfold obj_st in D; rewrite G in D; discriminate D].
  destruct (kframe_mark_written sch s o a D) as (_ & _ & _ & KF). destruct (KF o ob G) as (b & Gb & KE).
  destruct KE as (E1 & _ & E3 & E4 & _ & E6 & E7).
  set (s1 := mark_written s o a) in *.
  assert (HH : forall s2, s_handles s2 = s_handles s -> hget s2 h = Some o) by (intros s2 E; unfold hget in *; rewrite E; exact HG).
  assert (H1 : s_handles s1 = s_handles s) by (unfold s1; apply mark_written_handles).
  assert (EE : o_ent b = obj_ent s o) by (unfold obj_ent; rewrite G; congruence).
  assert (NG : is_gone (o_st b) = false).
  { rewrite <- E4. unfold obj_st in D. rewrite G in D. destruct (o_st ob); try discriminate D; reflexivity. }
  assert (LT : (a < length (o_vals b))%nat).
  { rewrite <- E6. rewrite (SH o ob G). apply (get_attr_lt sch _ a at_). unfold obj_ent in GA. rewrite G in GA. exact GA. }
  assert (NVR : match nv with VRef _ => False | _ => True end).
  { unfold validate in V. destruct (a_kind at_); try discriminate K; destruct v; try discriminate V;
    repeat match type of V with context [if ?c then _ else _] => destruct c end; try discriminate V; inversion V; exact I. }
  (* reading back from a state whose object o is `bb`, with value nv at a *)
  assert (RD : forall s2 bb, s_handles s2 = s_handles s -> get_obj s2 o = Some bb -> o_ent bb = o_ent b -> o_st bb = o_st b ->
               oval bb a = Some nv -> snd (read_op sch s2 h a) = RVal nv).
  { intros s2 bb E2 G2 EN ST OV. unfold read_op. rewrite (HH s2 E2). unfold obj_ent at 1. rewrite G2, EN, EE, GA.
    assert (KK : match a_kind at_ with KSet _ _ => False | _ => True end) by (destruct (a_kind at_); try discriminate NS; exact I).
    destruct (a_kind at_) eqn:AK; try contradiction; try discriminate NR;
    unfold obj_st; rewrite G2, ST, NG; unfold obj_val; rewrite G2, OV; destruct nv; try contradiction; reflexivity. }
  destruct (negb (a_uniq at_)) eqn:U.
  - inversion S as [S']. eapply RD.
    + rewrite upd_obj_handles. exact H1.
    + rewrite get_upd_obj_same, Gb. reflexivity.
    + reflexivity.
    + reflexivity.
    + unfold oval, ob_put_val, ob_set_vals. cbn [o_vals]. apply nth_upd_nth_same. exact LT.
  - apply negb_false_iff in U.
    assert (AU : attr_uniq sch (o_ent ob) a = true).
    { unfold attr_uniq. unfold obj_ent in GA. rewrite G in GA. rewrite GA. exact U. }
    destruct (oval_eqb (obj_val s o a) (Some nv)) eqn:OE.
    + inversion S as [S']. apply oval_eqb_eq in OE. rewrite (obj_val_get_some s o ob a G) in OE.
      eapply RD; [exact H1|exact Gb|reflexivity|reflexivity|]. rewrite <- (E7 a AU). exact OE.
    + destruct (key_conflict s1 o (obj_ent s o) a nv); [discriminate S|]. inversion S as [S']. clear S.
      unfold key_set. rewrite Gb. rewrite <- E3. unfold obj_st in D. rewrite G in D. rewrite D. rewrite EE, Nat.eqb_refl. cbn [negb orb].
      destruct (oval_eqb (oval b a) (Some nv)) eqn:OE2.
      * apply oval_eqb_eq in OE2. eapply RD; [exact H1|exact Gb|reflexivity|reflexivity|exact OE2].
      * match goal with |- snd (read_op sch (upd_obj ?sx o ?f) h a) = _ => set (s3 := sx) end.
        assert (G3 : get_obj s3 o = Some b).
        { unfold s3. destruct (oval b a) as [ov|]; [destruct (is_vnone ov)|]; destruct (is_vnone nv); exact Gb. }
        assert (H3 : s_handles s3 = s_handles s).
        { unfold s3. destruct (oval b a) as [ov|]; [destruct (is_vnone ov)|]; destruct (is_vnone nv); exact H1. }
        eapply RD.
        -- rewrite upd_obj_handles. exact H3.
        -- rewrite get_upd_obj_same, G3. reflexivity.
        -- reflexivity.
        -- reflexivity.
        -- unfold oval, ob_put_val, ob_set_vals. cbn [o_vals]. apply nth_upd_nth_same. exact LT.
Qed.

Theorem read_after_set_scalar_all_histories : forall sch, wf_schema sch = true -> forall ops h a v o at_ s',
  s_dirty (run sch ops) = O -> hget (run sch ops) h = Some o -> get_attr sch (obj_ent (run sch ops) o) a = Some at_ ->
  is_scalar_kind (a_kind at_) = true -> set_op sch (run sch ops) h a v = (s', ROk) ->
  exists nv, validate (run sch ops) at_ (Some v) = VOk nv /\ snd (read_op sch s' h a) = RVal nv.
Proof.
  intros sch WF ops h a v o at_ s' D HG GA K S. eapply read_after_set_scalar; eauto.
  destruct (Pk_run sch WF ops) as [X|[_ X]]. contradiction. exact X.
Qed.
