(* C04 - f-string bodies, character level: reading back what the faithful printer wrote gives the value again, for every value
   in normal form (literal braces, conversions, format specs included); a printer that does not double braces or drops the
   spec agrees with the faithful one exactly on brace-free / spec-free values. *)
From Coq Require Import ZArith List Bool Lia.
Import ListNotations.
Require Import PonyV.Model.C04Expr PonyV.Model.C04FStr.
Open Scope Z_scope.

Lemma scan_lit : forall s acc out t, scan (MLit acc) out (escape_braces s ++ t) = scan (MLit (rev s ++ acc)) out t.
Proof.
  induction s as [|c s IH]; intros acc out t; [reflexivity|].
  unfold escape_braces in *. simpl flat_map. simpl rev. rewrite <- !app_assoc.
  destruct (c =? 123) eqn:E1.
  - apply Z.eqb_eq in E1. subst c. simpl. rewrite IH. reflexivity.
  - destruct (c =? 125) eqn:E2.
    + apply Z.eqb_eq in E2. subst c. simpl. rewrite IH. reflexivity.
    + simpl. unfold is_lbrace, is_rbrace. rewrite E1, E2. rewrite IH. reflexivity.
Qed.

Lemma plain_inv : forall c, plain c = true -> is_lbrace c = false /\ is_rbrace c = false /\ is_bang c = false /\ is_colon c = false.
Proof.
  intros c H. unfold plain in H. apply negb_true_iff in H.
  destruct (is_lbrace c), (is_rbrace c), (is_bang c), (is_colon c); simpl in H; try discriminate H; auto.
Qed.

Lemma plain_spec_inv : forall c, plain_spec c = true -> is_lbrace c = false /\ is_rbrace c = false.
Proof.
  intros c H. unfold plain_spec in H. apply negb_true_iff in H.
  destruct (is_lbrace c), (is_rbrace c); simpl in H; try discriminate H; auto.
Qed.

Lemma scan_src : forall s a out t, forallb plain s = true -> scan (MSrc a) out (s ++ t) = scan (MSrc (rev s ++ a)) out t.
Proof.
  induction s as [|c s IH]; intros a out t H; [reflexivity|].
  simpl in H. apply andb_prop in H. destruct H as [Hc Hs]. destruct (plain_inv c Hc) as [H1 [H2 [H3 H4]]].
  cbn [app scan rev]. rewrite H2, H3, H4, Hc. rewrite IH by exact Hs. rewrite <- app_assoc. reflexivity.
Qed.

Lemma scan_spec : forall s src conv a out t, forallb plain_spec s = true ->
  scan (MSpec src conv a) out (s ++ t) = scan (MSpec src conv (rev s ++ a)) out t.
Proof.
  induction s as [|c s IH]; intros src conv a out t H; [reflexivity|].
  simpl in H. apply andb_prop in H. destruct H as [Hc Hs]. destruct (plain_spec_inv c Hc) as [H1 H2].
  cbn [app scan rev]. rewrite H2, Hc. rewrite IH by exact Hs. rewrite <- app_assoc. reflexivity.
Qed.

Lemma scan_field : forall src conv spec acc out t, field_ok src spec = true ->
  scan (MLit acc) out (print_field true src conv spec ++ t) = scan (MLit []) (FField src conv spec :: flush acc out) t.
Proof.
  intros src conv spec acc out t H. unfold field_ok in H. apply andb_prop in H. destruct H as [Hs Hp].
  destruct src as [|c0 src]; [discriminate Hs|]. simpl in Hs. apply andb_prop in Hs. destruct Hs as [Hc0 Hs].
  destruct (plain_inv c0 Hc0) as [H1 [H2 [H3 H4]]].
  unfold print_field. simpl app. cbn [scan]. change (is_lbrace 123) with true. cbv iota. rewrite H1, Hc0.
  rewrite <- !app_assoc. rewrite scan_src by exact Hs.
  assert (R : rev (rev src ++ [c0]) = c0 :: src) by (rewrite rev_app_distr, rev_involutive; reflexivity).
  destruct conv as [cv|]; destruct spec as [sp|]; simpl.
  - rewrite scan_spec by exact Hp. simpl. rewrite R, app_nil_r, rev_involutive. reflexivity.
  - rewrite R. reflexivity.
  - rewrite scan_spec by exact Hp. simpl. rewrite R, app_nil_r, rev_involutive. reflexivity.
  - rewrite R. reflexivity.
Qed.

Definition nonempty (s : str) : bool := match s with [] => false | _ => true end.

Lemma scan_print_f : forall v acc out, normal_f (nonempty acc) v = true ->
  scan (MLit acc) out (print_f true true v) = Some (rev (flush acc out) ++ v).
Proof.
  induction v as [|p v IH]; intros acc out H.
  - simpl. rewrite app_nil_r. reflexivity.
  - destruct p as [s|src conv spec].
    + simpl in H. apply andb_prop in H. destruct H as [H Hn]. apply andb_prop in H. destruct H as [Ha Hs].
      destruct acc; [|discriminate Ha]. destruct s as [|c s]; [discriminate Hs|].
      cbn [print_f]. rewrite scan_lit. rewrite IH.
      * rewrite app_nil_r. unfold flush at 1. destruct (rev (c :: s)) eqn:E.
        { apply (f_equal (@length Z)) in E. rewrite rev_length in E. discriminate E. }
        rewrite <- E. rewrite rev_involutive. simpl. rewrite <- app_assoc. reflexivity.
      * rewrite app_nil_r. assert (E : nonempty (rev (c :: s)) = true).
        { destruct (rev (c :: s)) eqn:E; [|reflexivity]. apply (f_equal (@length Z)) in E. rewrite rev_length in E. discriminate E. }
        rewrite E. exact Hn.
    + simpl in H. apply andb_prop in H. destruct H as [Hf Hn].
      cbn [print_f]. rewrite scan_field by exact Hf. rewrite IH by exact Hn. simpl. rewrite <- app_assoc. reflexivity.
Qed.

Theorem fstring_roundtrip : forall v, normal_f false v = true -> parse_f (print_f true true v) = Some v.
Proof. intros v H. unfold parse_f. rewrite (scan_print_f v [] [] H). reflexivity. Qed.

Lemma escape_plain : forall s, forallb plain_spec s = true -> escape_braces s = s.
Proof.
  induction s as [|c s IH]; intros H; [reflexivity|]. simpl in H. apply andb_prop in H. destruct H as [Hc Hs].
  destruct (plain_spec_inv c Hc) as [H1 H2]. unfold escape_braces in *. simpl. unfold is_lbrace, is_rbrace in *. rewrite H1, H2. simpl. f_equal. apply IH. exact Hs.
Qed.

Lemma print_f_agree : forall esc keep v, (esc = true \/ brace_free v = true) -> (keep = true \/ no_spec v = true) ->
  print_f esc keep v = print_f true true v.
Proof.
  intros esc keep. induction v as [|p v IH]; intros He Hk; [reflexivity|].
  destruct p as [s|src conv spec]; simpl.
  - rewrite IH.
    + destruct esc; [reflexivity|]. destruct He as [He|He]; [discriminate He|]. simpl in He. apply andb_prop in He. destruct He as [He _].
      rewrite escape_plain by exact He. reflexivity.
    + destruct He as [He|He]; [left; exact He|right]. simpl in He. apply andb_prop in He. tauto.
    + destruct Hk as [Hk|Hk]; [left; exact Hk|right]. exact Hk.
  - rewrite IH.
    + f_equal. unfold print_field. destruct keep; [reflexivity|]. destruct Hk as [Hk|Hk]; [discriminate Hk|]. simpl in Hk.
      destruct spec; [discriminate Hk|reflexivity].
    + destruct He as [He|He]; [left; exact He|right; exact He].
    + destruct Hk as [Hk|Hk]; [left; exact Hk|right]. simpl in Hk. apply andb_prop in Hk. tauto.
Qed.

(* a printer with the flags (esc, keep) reads back faithfully on the values it does not distort *)
Theorem fstring_roundtrip_flags : forall esc keep v, normal_f false v = true ->
  (esc = true \/ brace_free v = true) -> (keep = true \/ no_spec v = true) ->
  parse_f (print_f esc keep v) = Some v.
Proof. intros esc keep v Hn He Hk. rewrite print_f_agree by assumption. apply fstring_roundtrip. exact Hn. Qed.

(* witnesses for the two distortions *)
Lemma no_escape_refuted : parse_f (print_f false true [FLit [123; 120; 125]]) = Some [FField [120] None None].
Proof. vm_compute. reflexivity. Qed.

Lemma no_escape_refuted_error : parse_f (print_f false true [FLit [123]]) = None.
Proof. vm_compute. reflexivity. Qed.

Lemma drop_spec_refuted : parse_f (print_f true false [FField [97] None (Some [62; 51])]) = Some [FField [97] None None].
Proof. vm_compute. reflexivity. Qed.

Example fstring_nonvacuous :
  normal_f false [FLit [123; 120; 125; 32]; FField [97] (Some 114) (Some [62; 51]); FField [98] None None; FLit [125]] = true /\
  print_f true true [FLit [123; 120; 125; 32]; FField [97] (Some 114) (Some [62; 51]); FField [98] None None; FLit [125]]
  = [123; 123; 120; 125; 125; 32; 123; 97; 33; 114; 58; 62; 51; 125; 123; 98; 125; 125; 125].
Proof. vm_compute. split; reflexivity. Qed.
