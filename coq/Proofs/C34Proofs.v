(* C34 - lemmas about the permission model (Model/C34Perm.v). *)
From Coq Require Import List Bool Arith Lia.
Import ListNotations.
Require Import PonyV.Model.C34Perm PonyV.Gen.C34Src.

Section Proofs.
Variable f_rev f_obj f_miss : bool.
Variable attr_ent : nat -> nat.
Variable attr_rev : nat -> option nat.
Variable attr_hidden : nat -> bool.
Variable obj_ent : nat -> nat.
Variable rules : nat -> nat -> list rule.
Variable ugroups : list nat.
Variable uroles : nat -> list nat.
Variable olabels : nat -> list nat.

Notation has_perm_entity := (has_perm_entity rules ugroups).
Notation has_perm_attr := (has_perm_attr f_rev f_miss attr_ent attr_rev attr_hidden rules ugroups).
Notation has_perm_obj := (has_perm_obj f_obj obj_ent rules ugroups uroles olabels).
Notation has_perm := (has_perm f_rev f_obj f_miss attr_ent attr_rev attr_hidden obj_ent rules ugroups uroles olabels).
Notation can_view := (can_view f_rev f_obj f_miss attr_ent attr_rev attr_hidden obj_ent rules ugroups uroles olabels).
Notation to_json_objects := (to_json_objects f_rev f_obj f_miss attr_ent attr_rev attr_hidden obj_ent rules ugroups uroles olabels).
Notation attr_loop := (attr_loop f_rev f_miss attr_ent attr_rev rules ugroups).
Notation grants_attr := (grants_attr ugroups).
Notation groups_ok := (groups_ok ugroups).
Notation spec_entity := (spec_entity rules ugroups).
Notation spec_obj := (spec_obj obj_ent rules ugroups uroles olabels).
Notation spec_attr := (spec_attr attr_ent attr_rev attr_hidden rules ugroups).

(* ------------------------------------------------------------------ entity branch *)
Lemma entity_spec : forall e p, has_perm_entity e p = true <-> spec_entity e p.
Proof.
  intros e p; unfold C34Perm.has_perm_entity, C34Perm.spec_entity. rewrite existsb_exists. split.
  - intros [r [Hin H]]. apply andb_true_iff in H as [Hg He]. apply negb_true_iff in He. exists r; auto.
  - intros [r [Hin [Hg He]]]. exists r. split; [exact Hin|]. rewrite Hg, He; reflexivity.
Qed.

(* ------------------------------------------------------------------ object branch *)
Lemma obj_general : forall o p,
  has_perm_obj o p = true <->
  exists r, In r (rules (obj_ent o) p) /\ groups_ok r = true /\ subset (r_roles r) (uroles o) = true
            /\ subset (r_labels r) (olabels o) = true /\ (f_obj = true -> mem (obj_ent o) (r_exclE r) = false).
Proof.
  intros o p; unfold C34Perm.has_perm_obj, obj_excluded. rewrite existsb_exists. split.
  - intros [r [Hin H]]. repeat (apply andb_true_iff in H as [H ?]). exists r. repeat split; auto.
    intros Hf. rewrite Hf in H. apply negb_true_iff in H. exact H.
  - intros [r [Hin [Hg [Hr [Hl He]]]]]. exists r. split; [exact Hin|]. rewrite Hg, Hr, Hl.
    destruct f_obj; [rewrite (He eq_refl)|]; reflexivity.
Qed.

Lemma obj_spec_if_entity_tested : forall o p, f_obj = true -> (has_perm_obj o p = true <-> spec_obj o p).
Proof.
  intros o p Hf. rewrite obj_general. unfold C34Perm.spec_obj. split.
  - intros [r [Hin [Hg [Hr [Hl He]]]]]. exists r. repeat split; auto.
  - intros [r [Hin [Hg [Hr [Hl He]]]]]. exists r. repeat split; auto.
Qed.

(* whatever the source does with exclusions: everything the specification grants is granted *)
Lemma obj_spec_implies_impl : forall o p, spec_obj o p -> has_perm_obj o p = true.
Proof.
  intros o p [r [Hin [Hg [Hr [Hl He]]]]]. apply obj_general. exists r. repeat split; auto.
Qed.

(* and the implementation is exact for objects whose entity no rule excludes *)
Lemma obj_spec_except_known : forall o p,
  (forall r, In r (rules (obj_ent o) p) -> mem (obj_ent o) (r_exclE r) = false) ->
  (has_perm_obj o p = true <-> spec_obj o p).
Proof.
  intros o p Hno. split; [|apply obj_spec_implies_impl].
  rewrite obj_general. intros [r [Hin [Hg [Hr [Hl _]]]]]. exists r. repeat split; auto.
Qed.

(* ------------------------------------------------------------------ attribute branch: closed form of the loop *)
Definition fwd (a : nat) (r : rule) : bool := grants_attr (attr_ent a) a r.
Definition rev_pool (p rv : nat) (all : list rule) : list rule := if f_rev then rules (attr_ent rv) p else all.

Lemma attr_loop_no_reverse : forall a p all l, attr_rev a = None -> attr_loop a p all l = existsb (fwd a) l.
Proof.
  intros a p all l Hn; induction l as [|r l IH]; cbn; [reflexivity|].
  unfold fwd in *. destruct (grants_attr (attr_ent a) a r); [reflexivity|]. rewrite Hn. exact IH.
Qed.

Lemma attr_loop_reverse_without_rules : forall a p all l rv,
  attr_rev a = Some rv -> rules (attr_ent rv) p = [] ->
  attr_loop a p all l = if f_miss then match l with [] => false | r :: _ => fwd a r end else existsb (fwd a) l.
Proof.
  intros a p all l rv Hr Hnil. induction l as [|r l IH]; cbn.
  - destruct f_miss; reflexivity.
  - unfold fwd in *. destruct (grants_attr (attr_ent a) a r); [destruct f_miss; reflexivity|].
    rewrite Hr, Hnil. destruct f_miss; [reflexivity|]. cbn. exact IH.
Qed.

Lemma attr_loop_reverse_with_rules : forall a p all l rv,
  attr_rev a = Some rv -> rules (attr_ent rv) p <> [] ->
  attr_loop a p all l
  = match l with [] => false | _ => existsb (fwd a) l || existsb (grants_attr (attr_ent rv) rv) (rev_pool p rv all) end.
Proof.
  intros a p all l rv Hr Hne. induction l as [|r l IH]; [reflexivity|].
  cbn [C34Perm.attr_loop existsb]. unfold fwd in *. fold (fwd a).
  destruct (grants_attr (attr_ent a) a r) eqn:Hf; [reflexivity|]. rewrite Hr.
  destruct (rules (attr_ent rv) p) as [|r0 rr] eqn:Hrr; [contradiction|]. rewrite <- Hrr.
  unfold rev_pool. cbn [orb].
  destruct (existsb (grants_attr (attr_ent rv) rv) (if f_rev then rules (attr_ent rv) p else all)) eqn:HX.
  - rewrite orb_true_r. reflexivity.
  - rewrite IH. destruct l; [reflexivity|]. unfold rev_pool. rewrite HX. reflexivity.
Qed.

(* the closed form of the whole attribute check *)
Theorem attr_closed_form : forall a p,
  has_perm_attr a p =
  if attr_hidden a then false else
  let rs := rules (attr_ent a) p in
  match attr_rev a with
  | None => existsb (fwd a) rs
  | Some rv =>
    match rules (attr_ent rv) p with
    | [] => if f_miss then match rs with [] => false | r :: _ => fwd a r end else existsb (fwd a) rs
    | _ :: _ => match rs with [] => false | _ => existsb (fwd a) rs || existsb (grants_attr (attr_ent rv) rv) (rev_pool p rv rs) end
    end
  end.
Proof.
  intros a p. unfold C34Perm.has_perm_attr. destruct (attr_hidden a); [reflexivity|]. cbn zeta.
  destruct (attr_rev a) as [rv|] eqn:Hr.
  - destruct (rules (attr_ent rv) p) as [|r0 rr] eqn:Hrr.
    + apply (attr_loop_reverse_without_rules a p _ _ rv Hr Hrr).
    + rewrite (attr_loop_reverse_with_rules a p _ _ rv Hr); [reflexivity|rewrite Hrr; discriminate].
  - apply attr_loop_no_reverse; exact Hr.
Qed.

Lemma existsb_fwd : forall a l, existsb (fwd a) l = true <-> exists r, In r l /\ grants_attr (attr_ent a) a r = true.
Proof. intros; unfold fwd; apply existsb_exists. Qed.

(* attributes that are not relationships: exact *)
Theorem attr_spec_no_reverse : forall a p, attr_rev a = None -> (has_perm_attr a p = true <-> spec_attr a p).
Proof.
  intros a p Hn. rewrite attr_closed_form. unfold C34Perm.spec_attr. rewrite Hn.
  destruct (attr_hidden a).
  - split; [discriminate|intros [H _]; discriminate].
  - cbn zeta. rewrite existsb_fwd. split.
    + intros [r [Hin Hg]]. split; [reflexivity|]. split; [intros E; rewrite E in Hin; exact Hin|]. left. exists r; auto.
    + intros [_ [_ [[r [Hin Hg]]|[rv [r [H _]]]]]]; [exists r; auto|discriminate].
Qed.

(* all attributes, if the inner loop iterated the reverse rules and missing reverse rules did not short-circuit *)
Theorem attr_spec_if_fixed : forall a p, f_rev = true -> f_miss = false -> (has_perm_attr a p = true <-> spec_attr a p).
Proof.
  intros a p Hrev Hmiss. destruct (attr_rev a) as [rv|] eqn:Hr; [|apply attr_spec_no_reverse; exact Hr].
  rewrite attr_closed_form. unfold C34Perm.spec_attr, rev_pool. rewrite Hr, Hrev, Hmiss.
  destruct (attr_hidden a).
  - split; [discriminate|intros [H _]; discriminate].
  - cbn zeta. destruct (rules (attr_ent rv) p) as [|r0 rr] eqn:Hrr.
    + rewrite existsb_fwd. split.
      * intros [r [Hin Hg]]. split; [reflexivity|]. split; [intros E; rewrite E in Hin; exact Hin|]. left; exists r; auto.
      * intros [_ [_ [[r [Hin Hg]]|[rv' [r [H [Hin _]]]]]]]; [exists r; auto|].
        inversion H; subst rv'. rewrite Hrr in Hin. destruct Hin.
    + destruct (rules (attr_ent a) p) as [|r1 rs] eqn:Hrs.
      * split; [discriminate|intros [_ [Hne _]]; contradiction].
      * rewrite orb_true_iff, existsb_fwd, existsb_exists. split.
        -- intros H. split; [reflexivity|]. split; [discriminate|].
           destruct H as [[r [Hin Hg]]|[r [Hin Hg]]]; [left; exists r; auto|right; exists rv, r; rewrite Hrr; auto].
        -- intros [_ [_ [[r [Hin Hg]]|[rv' [r [H [Hin Hg]]]]]]]; [left; exists r; auto|].
           inversion H; subst rv'. rewrite Hrr in Hin. right; exists r; auto.
Qed.

(* ------------------------------------------------------------------ the boolean specification is the specification *)
Lemma spec_b_iff : forall p x,
  spec_b attr_ent attr_rev attr_hidden obj_ent rules ugroups uroles olabels p x = true
  <-> spec attr_ent attr_rev attr_hidden obj_ent rules ugroups uroles olabels p x.
Proof.
  intros p [e|a|o]; cbn [C34Perm.spec_b C34Perm.spec].
  - apply entity_spec.
  - unfold C34Perm.spec_attr_b, C34Perm.spec_attr. rewrite !andb_true_iff, negb_true_iff, orb_true_iff, existsb_exists.
    split.
    + intros [[Hh Hne] Hor]. split; [exact Hh|]. split; [destruct (rules (attr_ent a) p); [discriminate|discriminate]|].
      destruct Hor as [[r [Hin Hg]]|Hrev]; [left; exists r; auto|].
      destruct (attr_rev a) as [rv|]; [|discriminate]. apply existsb_exists in Hrev as [r [Hin Hg]]. right; exists rv, r; auto.
    + intros [Hh [Hne Hor]]. split; [split; [exact Hh|destruct (rules (attr_ent a) p); [contradiction|reflexivity]]|].
      destruct Hor as [[r [Hin Hg]]|[rv [r [Hr [Hin Hg]]]]]; [left; exists r; auto|].
      right. rewrite Hr. apply existsb_exists. exists r; auto.
  - unfold C34Perm.spec_obj_b, C34Perm.spec_obj. rewrite existsb_exists. split.
    + intros [r [Hin H]]. repeat (apply andb_true_iff in H as [H ?]). apply negb_true_iff in H0. exists r. repeat split; auto.
    + intros [r [Hin [Hg [Hr [Hl He]]]]]. exists r. split; [exact Hin|]. rewrite Hg, Hr, Hl, He; reflexivity.
Qed.

(* ------------------------------------------------------------------ can_view, to_json *)
Lemma can_view_iff : forall x, can_view x = true <-> has_perm VIEW x = true \/ has_perm EDIT x = true.
Proof. intros x; unfold C34Perm.can_view; apply orb_true_iff. Qed.

Lemma to_json_only_viewable : forall objs l,
  to_json_objects objs = Some l -> l = objs /\ forall o, In o l -> can_view (TObj o) = true.
Proof.
  intros objs l. unfold C34Perm.to_json_objects.
  destruct (forallb (fun o => can_view (TObj o)) objs) eqn:E; [|discriminate].
  intros H; inversion H; subst. split; [reflexivity|]. rewrite forallb_forall in E. exact E.
Qed.

Lemma to_json_refuses : forall objs,
  to_json_objects objs = None <-> exists o, In o objs /\ can_view (TObj o) = false.
Proof.
  intros objs. unfold C34Perm.to_json_objects.
  destruct (forallb (fun o => can_view (TObj o)) objs) eqn:E.
  - split; [discriminate|]. intros [o [Hin Hf]]. rewrite forallb_forall in E. rewrite (E o Hin) in Hf; discriminate.
  - split; [intros _|reflexivity].
    induction objs as [|o objs IH]; [discriminate|]. cbn in E. apply andb_false_iff in E as [E|E].
    + exists o; split; [left; reflexivity|exact E].
    + destruct (IH E) as [o' [Hin Hf]]. exists o'; split; [right; exact Hin|exact Hf].
Qed.

End Proofs.

(* ------------------------------------------------------------------ repeated checks inside one session *)
Section StableProofs.
Variable f_rev f_obj f_miss : bool.
Variable attr_ent : nat -> nat.
Variable attr_rev : nat -> option nat.
Variable attr_hidden : nat -> bool.
Variable obj_ent : nat -> nat.
Variable rules : nat -> nat -> list rule.
Variable groups_at : nat -> list nat.
Variable roles_at : nat -> nat -> list nat.
Variable labels_at : nat -> nat -> list nat.

Notation check := (check f_rev f_obj f_miss attr_ent attr_rev attr_hidden obj_ent rules groups_at roles_at labels_at).

(* c' knows everything c knows, with the same answers *)
Definition ext (c c' : caches) : Prop :=
  (forall g, c_groups c = Some g -> c_groups c' = Some g)
  /\ (forall o v, lookup o (c_roles c) = Some v -> lookup o (c_roles c') = Some v)
  /\ (forall o v, lookup o (c_labels c) = Some v -> lookup o (c_labels c') = Some v).

Lemma ext_refl : forall c, ext c c.
Proof. intros c; unfold ext; auto. Qed.

Lemma ext_trans : forall a b c, ext a b -> ext b c -> ext a c.
Proof. intros a b c (A1 & A2 & A3) (B1 & B2 & B3); unfold ext; repeat split; auto. Qed.

Lemma lookup_cons_other : forall o o' v l w,
  lookup o l = Some w -> lookup o' l = None -> lookup o ((o', v) :: l) = Some w.
Proof.
  intros o o' v l w H Hn. cbn. destruct (o =? o') eqn:E; [|exact H].
  apply Nat.eqb_eq in E; subst. rewrite H in Hn; discriminate.
Qed.

Lemma check_ext : forall c t p x, ext c (fst (check c t p x)).
Proof.
  intros c t p x. unfold C34Perm.check. destruct x as [e|a|o]; cbn [fst].
  - unfold ext; cbn. repeat split; auto. intros g H; rewrite H; reflexivity.
  - unfold ext; cbn. repeat split; auto. intros g H; rewrite H; reflexivity.
  - unfold ext; cbn. repeat split.
    + intros g H; rewrite H; reflexivity.
    + intros o' v H. destruct (lookup o (c_roles c)) eqn:E; [exact H|]. apply lookup_cons_other; assumption.
    + intros o' v H. destruct (lookup o (c_labels c)) eqn:E; [exact H|]. apply lookup_cons_other; assumption.
Qed.

(* what a check has filled in *)
Definition filled (c : caches) (x : target) (g rl lb : list nat) : Prop :=
  c_groups c = Some g /\
  match x with TObj o => lookup o (c_roles c) = Some rl /\ lookup o (c_labels c) = Some lb | _ => True end.

Definition answer (g rl lb : list nat) (p : nat) (x : target) : bool :=
  match x with
  | TObj o => has_perm_obj f_obj obj_ent rules g (fun _ => rl) (fun _ => lb) o p
  | _ => has_perm f_rev f_obj f_miss attr_ent attr_rev attr_hidden obj_ent rules g (fun _ => []) (fun _ => []) p x
  end.

Lemma check_fills : forall c t p x, exists g rl lb,
  filled (fst (check c t p x)) x g rl lb /\ snd (check c t p x) = answer g rl lb p x.
Proof.
  intros c t p x. unfold C34Perm.check.
  set (g := match c_groups c with Some g => g | None => groups_at t end).
  destruct x as [e|a|o]; cbn [fst snd].
  - exists g, [], []. split; [split; [reflexivity|exact I]|reflexivity].
  - exists g, [], []. split; [split; [reflexivity|exact I]|reflexivity].
  - exists g, (match lookup o (c_roles c) with Some v => v | None => roles_at t o end),
           (match lookup o (c_labels c) with Some v => v | None => labels_at t o end).
    split; [|reflexivity]. split; [reflexivity|]. cbn. split.
    + destruct (lookup o (c_roles c)) eqn:E; [exact E|]. cbn. rewrite Nat.eqb_refl. reflexivity.
    + destruct (lookup o (c_labels c)) eqn:E; [exact E|]. cbn. rewrite Nat.eqb_refl. reflexivity.
Qed.

Lemma filled_determines : forall c t p x g rl lb,
  filled c x g rl lb -> snd (check c t p x) = answer g rl lb p x.
Proof.
  intros c t p x g rl lb [Hg Hx]. unfold C34Perm.check, answer. rewrite Hg.
  destruct x as [e|a|o]; cbn [snd]; try reflexivity.
  destruct Hx as [Hr Hl]. rewrite Hr, Hl. reflexivity.
Qed.

Lemma filled_ext : forall c c' x g rl lb, filled c x g rl lb -> ext c c' -> filled c' x g rl lb.
Proof.
  intros c c' x g rl lb [Hg Hx] (E1 & E2 & E3). split; [apply E1; exact Hg|].
  destruct x as [e|a|o]; auto. destruct Hx as [Hr Hl]. split; [apply E2|apply E3]; assumption.
Qed.

(* state after a history of further checks *)
Fixpoint after (c : caches) (h : list (nat * nat * target)) : caches :=
  match h with [] => c | (t, p, x) :: r => after (fst (check c t p x)) r end.

Lemma after_ext : forall h c, ext c (after c h).
Proof.
  induction h as [|[[t p] x] h IH]; intros c; cbn; [apply ext_refl|].
  eapply ext_trans; [apply check_ext|apply IH].
Qed.

(* once has_perm(user, p, x) has been asked, asking again later in the same session - whatever was asked in between and whatever
   the providers would answer by then - gives the same answer *)
Theorem stable : forall c t p x h t',
  snd (check (after (fst (check c t p x)) h) t' p x) = snd (check c t p x).
Proof.
  intros c t p x h t'.
  destruct (check_fills c t p x) as [g [rl [lb [Hf Ha]]]].
  rewrite Ha. apply filled_determines.
  eapply filled_ext; [exact Hf|apply after_ext].
Qed.

(* a new session's first check consults the providers afresh - if the thread-local caches are cleared on the path the previous
   session ended on *)
Theorem fresh_after_session_end : forall (cc cr committed : bool) (c : caches) (t p : nat) (x : target),
  (if committed then cc else cr) = true ->
  snd (check (end_session cc cr committed c) t p x)
  = answer (groups_at t) (match x with TObj o => roles_at t o | _ => [] end) (match x with TObj o => labels_at t o | _ => [] end) p x.
Proof.
  intros cc cr committed c t p x H. unfold end_session. rewrite H. unfold C34Perm.check, answer.
  destruct x; reflexivity.
Qed.

(* the label cache never survives a session *)
Lemma labels_never_survive : forall cc cr committed c, c_labels (end_session cc cr committed c) = [].
Proof. intros cc cr committed c. unfold end_session. destruct (if committed then cc else cr); reflexivity. Qed.

End StableProofs.

(* ------------------------------------------------------------------ witnesses of the deviations, for any value of the variation points *)
Require Import PonyV.Model.C34Obs.

(* entity A is excluded by the only rule, yet object a1 of A may be viewed by everybody *)
Definition w_obj : rtable := [(0, 0, [R [0] [] [] [0] []])].
Lemma witness_obj : forall f1 f3 f2, f2 = false ->
  hp f1 f2 f3 w_obj 0 0 (TObj 0) = true /\ sp w_obj 0 0 (TObj 0) = false
  /\ tj f1 f2 f3 w_obj 0 0 = true.
Proof. intros f1 f3 f2 ->. destruct f1, f3; vm_compute; repeat split; reflexivity. Qed.

(* A's only rule excludes A.bs; B's only rule is for group g1; a user without g1 is granted A.bs although no rule on either side grants it to him *)
Definition w_attr_granted : rtable := [(0, 0, [R [0] [] [] [] [1]]); (1, 0, [R [0; 1] [] [] [] []])].
Lemma witness_attr_granted : forall f2 f3 f1, f1 = false ->
  hp f1 f2 f3 w_attr_granted 0 0 (TAttr 1) = true /\ sp w_attr_granted 0 0 (TAttr 1) = false.
Proof. intros f2 f3 f1 ->. destruct f2, f3; vm_compute; split; reflexivity. Qed.

(* B's only rule excludes B.a (and entity A); A's rule grants A.bs, the reverse of B.a: not honoured *)
Definition w_attr_refused : rtable := [(0, 0, [R [0] [] [] [] []]); (1, 0, [R [0] [] [] [0] [3]])].
Lemma witness_attr_refused : forall f2 f3 f1, f1 = false ->
  hp f1 f2 f3 w_attr_refused 0 0 (TAttr 3) = false /\ sp w_attr_refused 0 0 (TAttr 3) = true.
Proof. intros f2 f3 f1 ->. destruct f2, f3; vm_compute; split; reflexivity. Qed.

(* B has no rule at all; A has one rule that grants A.bs and one that does not: the answer is that of whichever comes first in the set *)
Definition w_order_1 : rtable := [(0, 0, [R [0] [] [] [] []; R [0] [] [] [0] [3]])].
Definition w_order_2 : rtable := [(0, 0, [R [0] [] [] [0] [3]; R [0] [] [] [] []])].
Lemma witness_order : forall f1 f2 f3, f3 = true ->
  hp f1 f2 f3 w_order_1 0 0 (TAttr 1) = true /\ hp f1 f2 f3 w_order_2 0 0 (TAttr 1) = false
  /\ sp w_order_1 0 0 (TAttr 1) = true /\ sp w_order_2 0 0 (TAttr 1) = true.
Proof. intros f1 f2 f3 ->. destruct f1, f2; vm_compute; repeat split; reflexivity. Qed.

(* ------------------------------------------------------------------ has_perm as it is in /repo now
   (the variation points are re-read from pony/orm/core.py on every run, Gen/C34Src.v; if one of them changes back these
   lemmas - and with them the property theorems - no longer check) *)
Lemma src_reverse_loop : rev_loop_iterates_reverse_rules = true.
Proof. reflexivity. Qed.
Lemma src_object_exclusion : obj_exclusion_tests_entity = true.
Proof. reflexivity. Qed.
Lemma src_missing_reverse : missing_reverse_rules_returns_false = false.
Proof. reflexivity. Qed.

Lemma src_caches_cleared_on_commit : provider_caches_cleared_on_commit = true.
Proof. reflexivity. Qed.
Lemma src_caches_cleared_on_rollback : provider_caches_cleared_on_rollback = true.
Proof. reflexivity. Qed.

Section Now.
Variable attr_ent : nat -> nat.
Variable attr_rev : nat -> option nat.
Variable attr_hidden : nat -> bool.
Variable obj_ent : nat -> nat.
Variable rules : nat -> nat -> list rule.
Variable ugroups : list nat.
Variable uroles : nat -> list nat.
Variable olabels : nat -> list nat.

Notation has_perm_now := (has_perm rev_loop_iterates_reverse_rules obj_exclusion_tests_entity missing_reverse_rules_returns_false
                            attr_ent attr_rev attr_hidden obj_ent rules ugroups uroles olabels).
Notation can_view_now := (can_view rev_loop_iterates_reverse_rules obj_exclusion_tests_entity missing_reverse_rules_returns_false
                            attr_ent attr_rev attr_hidden obj_ent rules ugroups uroles olabels).
Notation to_json_now := (to_json_objects rev_loop_iterates_reverse_rules obj_exclusion_tests_entity missing_reverse_rules_returns_false
                            attr_ent attr_rev attr_hidden obj_ent rules ugroups uroles olabels).
Notation spec_now := (spec attr_ent attr_rev attr_hidden obj_ent rules ugroups uroles olabels).

Theorem has_perm_now_spec : forall p x, has_perm_now p x = true <-> spec_now p x.
Proof.
  intros p [e|a|o]; cbn [C34Perm.has_perm C34Perm.spec].
  - apply entity_spec.
  - apply attr_spec_if_fixed; [exact src_reverse_loop|exact src_missing_reverse].
  - apply obj_spec_if_entity_tested. exact src_object_exclusion.
Qed.

Theorem can_view_now_spec : forall x, can_view_now x = true <-> spec_now VIEW x \/ spec_now EDIT x.
Proof. intros x. rewrite can_view_iff, !has_perm_now_spec. reflexivity. Qed.

Theorem to_json_now_spec : forall objs l,
  to_json_now objs = Some l ->
  l = objs /\ forall o, In o l -> spec_now VIEW (TObj o) \/ spec_now EDIT (TObj o).
Proof.
  intros objs l H. destruct (to_json_only_viewable _ _ _ _ _ _ _ _ _ _ _ _ _ H) as [E Hv].
  split; [exact E|]. intros o Hin. apply can_view_now_spec. apply Hv; exact Hin.
Qed.

Theorem to_json_now_refuses : forall objs,
  to_json_now objs = None <-> exists o, In o objs /\ ~ (spec_now VIEW (TObj o) \/ spec_now EDIT (TObj o)).
Proof.
  intros objs. rewrite to_json_refuses. split; intros [o [Hin H]]; exists o; (split; [exact Hin|]).
  - intros Hs. apply can_view_now_spec in Hs. rewrite Hs in H; discriminate.
  - destruct (can_view_now (TObj o)) eqn:E; [|reflexivity]. exfalso. apply H. apply can_view_now_spec. exact E.
Qed.

(* as the source is: whichever way the previous session of the thread ended - commit or rollback - the first check of the next
   session is answered from what the providers say then *)
Theorem fresh_after_session_end_now : forall groups_at roles_at labels_at committed c t p x,
  snd (check rev_loop_iterates_reverse_rules obj_exclusion_tests_entity missing_reverse_rules_returns_false
             attr_ent attr_rev attr_hidden obj_ent rules groups_at roles_at labels_at
             (end_session provider_caches_cleared_on_commit provider_caches_cleared_on_rollback committed c) t p x)
  = answer rev_loop_iterates_reverse_rules obj_exclusion_tests_entity missing_reverse_rules_returns_false
           attr_ent attr_rev attr_hidden obj_ent rules
           (groups_at t) (match x with TObj o => roles_at t o | _ => [] end) (match x with TObj o => labels_at t o | _ => [] end) p x.
Proof.
  intros. apply fresh_after_session_end.
  rewrite src_caches_cleared_on_commit, src_caches_cleared_on_rollback. destruct committed; reflexivity.
Qed.

(* the schema section lists only what the declared rules let the user view, on both sides of a relationship *)
Theorem schema_now_spec : forall a,
  schema_attr rev_loop_iterates_reverse_rules obj_exclusion_tests_entity missing_reverse_rules_returns_false
              attr_ent attr_rev attr_hidden obj_ent rules ugroups uroles olabels a = true ->
  (spec_now VIEW (TEntity (attr_ent a)) \/ spec_now EDIT (TEntity (attr_ent a)))
  /\ (spec_now VIEW (TAttr a) \/ spec_now EDIT (TAttr a))
  /\ (forall rv, attr_rev a = Some rv ->
        (spec_now VIEW (TEntity (attr_ent rv)) \/ spec_now EDIT (TEntity (attr_ent rv))) /\ (spec_now VIEW (TAttr rv) \/ spec_now EDIT (TAttr rv))).
Proof.
  intros a H. unfold C34Perm.schema_attr in H. apply andb_true_iff in H as [H Hr]. apply andb_true_iff in H as [He Ha].
  split; [apply can_view_now_spec; exact He|]. split; [apply can_view_now_spec; exact Ha|].
  intros rv Hrv. rewrite Hrv in Hr. apply andb_true_iff in Hr as [H1 H2]. split; apply can_view_now_spec; assumption.
Qed.

Theorem schema_entity_now_spec : forall e,
  schema_entity rev_loop_iterates_reverse_rules obj_exclusion_tests_entity missing_reverse_rules_returns_false
                attr_ent attr_rev attr_hidden obj_ent rules ugroups uroles olabels e = true
  <-> spec_now VIEW (TEntity e) \/ spec_now EDIT (TEntity e).
Proof. intros e. unfold C34Perm.schema_entity. apply can_view_now_spec. Qed.

Theorem to_json_include_now_spec : forall related o l,
  to_json_include rev_loop_iterates_reverse_rules obj_exclusion_tests_entity missing_reverse_rules_returns_false
                  attr_ent attr_rev attr_hidden obj_ent rules ugroups uroles olabels related o = Some l ->
  l = o :: related o /\ forall o', In o' l -> spec_now VIEW (TObj o') \/ spec_now EDIT (TObj o').
Proof. intros related o l H. exact (to_json_now_spec _ _ H). Qed.
End Now.

(* ------------------------------------------------------------------ declarations and inheritance *)
Lemma mem_true_iff : forall x l, mem x l = true <-> In x l.
Proof.
  intros x l; unfold mem. rewrite existsb_exists. split.
  - intros [y [Hin E]]. apply Nat.eqb_eq in E. subst; exact Hin.
  - intros H. exists x. split; [exact H|apply Nat.eqb_refl].
Qed.

(* a rule declared for a base entity is in the rule set of every subclass of it, for every permission it names *)
Theorem declared_rule_reaches_subclasses : forall subs ds d base sub p,
  In d ds -> In base (d_ctx d) -> In sub (subs base) -> In p (d_perms d) ->
  In (expand subs d) (rules_of_decls subs ds base p) /\ In (expand subs d) (rules_of_decls subs ds sub p).
Proof.
  intros subs ds d base sub p Hd Hb Hs Hp. unfold rules_of_decls.
  split; apply in_map; apply filter_In; (split; [exact Hd|]); apply andb_true_iff; (split; [|apply mem_true_iff; exact Hp]);
    apply mem_true_iff; unfold close_subs; apply in_or_app.
  - left; exact Hb.
  - right. apply in_flat_map. exists base; auto.
Qed.

(* an entity receives exactly the rules declared for itself or for one of its ancestors *)
Theorem rules_of_decls_exact : forall subs ds e p r,
  In r (rules_of_decls subs ds e p) <->
  exists d, In d ds /\ r = expand subs d /\ In p (d_perms d) /\ (In e (d_ctx d) \/ exists base, In base (d_ctx d) /\ In e (subs base)).
Proof.
  intros subs ds e p r. unfold rules_of_decls. rewrite in_map_iff. split.
  - intros [d [Hr Hf]]. apply filter_In in Hf as [Hd Hc]. apply andb_true_iff in Hc as [Hc Hp].
    apply mem_true_iff in Hc. apply mem_true_iff in Hp. exists d. repeat split; auto.
    unfold close_subs in Hc. apply in_app_or in Hc as [H|H]; [left; exact H|right]. apply in_flat_map in H. exact H.
  - intros [d [Hd [Hr [Hp Hc]]]]. exists d. split; [auto|]. apply filter_In. split; [exact Hd|].
    apply andb_true_iff. split; [|apply mem_true_iff; exact Hp]. apply mem_true_iff. unfold close_subs. apply in_or_app.
    destruct Hc as [H|[base [Hb Hs]]]; [left; exact H|right; apply in_flat_map; exists base; auto].
Qed.

(* exclude(Entity) excludes the entity's subclasses too *)
Theorem exclusion_reaches_subclasses : forall subs d base sub,
  In base (r_exclE (d_rule d)) -> In sub (subs base) ->
  mem base (r_exclE (expand subs d)) = true /\ mem sub (r_exclE (expand subs d)) = true.
Proof.
  intros subs d base sub Hb Hs. unfold expand; cbn. split; apply mem_true_iff; unfold close_subs; apply in_or_app.
  - left; exact Hb.
  - right. apply in_flat_map. exists base; auto.
Qed.

(* a hidden attribute is never granted, whatever the rules say *)
Theorem hidden_attr_never_granted : forall f_rev f_miss attr_ent attr_rev attr_hidden rules ugroups a p,
  attr_hidden a = true -> has_perm_attr f_rev f_miss attr_ent attr_rev attr_hidden rules ugroups a p = false.
Proof. intros. unfold C34Perm.has_perm_attr. rewrite H. reflexivity. Qed.
