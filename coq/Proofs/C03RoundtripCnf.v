(* C03 - round trip decompile (compile e) = e on the model, for the conjunctive-normal-form family of Model/C03Family.v
   (an `and` of `or`s of literals, any number of clauses of any widths).  Dual of Proofs/C03Roundtrip.v, whose lemmas on
   the merge loop, the targets table and single machine steps are reused. *)
From Coq Require Import List Bool Arith Lia Sorted.
Import ListNotations.
Require Import PonyV.Model.C03Bexp PonyV.Model.C03Decomp PonyV.Model.C03Family PonyV.Proofs.C03Checker PonyV.Proofs.C03Roundtrip.

(* ------------------------------------------------------------------ code shape *)
Lemma elen_mk_or : forall ls, ls <> [] -> elen true (mk_or ls) = lws ls.
Proof.
  intros ls H. destruct ls as [|x [|y s]]; [congruence| |].
  - cbn [mk_or lws]. rewrite elen_lit. lia.
  - unfold mk_or. rewrite elen_Or. apply elen_list_lits.
Qed.

Lemma comp_or_fwd : forall ls p nextcl,
  comp_or true TTop (TAt nextcl) false (map lit_bexp ls) p = or_fwd ls nextcl.
Proof.
  induction ls as [|l r IH]; intros p nextcl; [reflexivity|].
  destruct r as [|y s].
  - cbn [map comp_or or_fwd]. rewrite comp_lit. reflexivity.
  - change (map lit_bexp (l :: y :: s)) with (lit_bexp l :: lit_bexp y :: map lit_bexp s).
    rewrite comp_or_cons2, comp_lit. change (lit_bexp y :: map lit_bexp s) with (map lit_bexp (y :: s)).
    rewrite IH. cbn [or_fwd]. apply app_cons_assoc.
Qed.

Lemma comp_mk_or : forall ls p, ls <> [] -> comp true (mk_or ls) p TTop false = or_fwd ls (p + lws ls).
Proof.
  intros ls p H. destruct ls as [|l [|y s]]; [congruence| |].
  - cbn [mk_or or_fwd]. rewrite comp_lit. reflexivity.
  - unfold mk_or. rewrite comp_Or. rewrite elen_Or, elen_list_lits. apply comp_or_fwd.
Qed.

Lemma elen_list_cls : forall cls, Forall (fun ls => ls <> []) cls -> elen_list true (map mk_or cls) = total_lits cls.
Proof.
  induction cls as [|ls r IH]; intro H; [reflexivity|].
  inversion H as [|? ? Hls Hr]; subst.
  destruct r as [|ls2 r2].
  - cbn [map elen_list total_lits]. rewrite elen_mk_or by assumption. lia.
  - change (map mk_or (ls :: ls2 :: r2)) with (mk_or ls :: mk_or ls2 :: map mk_or r2).
    rewrite elen_list_cons2, elen_mk_or by assumption. change (mk_or ls2 :: map mk_or r2) with (map mk_or (ls2 :: r2)).
    rewrite (IH Hr). reflexivity.
Qed.

Lemma comp_and_cls : forall cls p, Forall (fun ls => ls <> []) cls ->
  comp_and true TTop TTop false (map mk_or cls) p = cnf_code cls p.
Proof.
  induction cls as [|ls r IH]; intros p H; [reflexivity|].
  inversion H as [|? ? Hls Hr]; subst.
  destruct r as [|ls2 r2].
  - cbn [map comp_and cnf_code]. rewrite app_nil_r. apply comp_mk_or. assumption.
  - change (map mk_or (ls :: ls2 :: r2)) with (mk_or ls :: mk_or ls2 :: map mk_or r2).
    rewrite comp_and_cons2. change (mk_or ls2 :: map mk_or r2) with (map mk_or (ls2 :: r2)).
    rewrite comp_mk_or by assumption. rewrite elen_mk_or by assumption. rewrite (IH _ Hr). reflexivity.
Qed.

Lemma comp_cnf : forall cls p, wf_alts cls -> comp true (cnf cls) p TTop false = cnf_code cls p.
Proof.
  intros cls p [Hne Hall]. destruct cls as [|ls [|ls2 r]]; [congruence| |].
  - unfold cnf. cbn [map mk_and_of cnf_code]. rewrite app_nil_r. inversion Hall; subst. apply comp_mk_or. assumption.
  - unfold cnf. set (es := map mk_or (ls :: ls2 :: r)).
    assert (Hes : mk_and_of es = And es) by reflexivity. rewrite Hes. rewrite comp_And. apply comp_and_cls. assumption.
Qed.

(* a clause = a chain of true-jumps to the next clause, then the last literal jumping back when false *)
Lemma or_fwd_snoc : forall ls0 l a, or_fwd (ls0 ++ [l]) a = chain_code true (TAt a) ls0 ++ lval l ++ [ljmp l false TTop].
Proof.
  induction ls0 as [|l0 r IH]; intros l a; [reflexivity|].
  cbn [app or_fwd chain_code]. destruct (r ++ [l]) eqn:E; [destruct r; discriminate|].
  rewrite <- E, IH. rewrite <- app_assoc. reflexivity.
Qed.

Lemma or_fwd_split : forall ls a, ls <> [] -> exists ls0 l, ls = ls0 ++ [l] /\ or_fwd ls a = chain_code true (TAt a) ls0 ++ lval l ++ [ljmp l false TTop].
Proof. intros ls a H. destruct (exists_last H) as [ls0 [l ->]]. exists ls0, l. split; [reflexivity | apply or_fwd_snoc]. Qed.

Lemma no_fwd_or_fwd : forall ls a, no_fwd (or_fwd ls a).
Proof.
  intros ls a. destruct ls as [|x r]; [intros t H; exact H|].
  destruct (or_fwd_split (x :: r) a ltac:(discriminate)) as [ls0 [l [_ ->]]].
  apply no_fwd_app; [apply no_fwd_chain|]. apply no_fwd_app; [apply no_fwd_lval|].
  intros t [H|[]]. destruct (ljmp_facts l false TTop) as [_ [Hf _]]. exact (Hf t H).
Qed.

Lemma no_fwd_cnf_code : forall cls p, no_fwd (cnf_code cls p).
Proof.
  induction cls as [|ls r IH]; intro p; [intros t H; exact H|].
  cbn [cnf_code]. apply no_fwd_app; [apply no_fwd_or_fwd | apply IH].
Qed.

Lemma compile_cnf : forall cls, wf_alts cls -> compile PFilter (cnf cls) = cnf_code cls 2 ++ [ILoadElt; IYield].
Proof.
  intros cls H. unfold compile. change (pos_of 0) with 2. rewrite comp_cnf by assumption.
  apply thread_no_fwd. apply no_fwd_app; [apply no_fwd_cnf_code|].
  intros t [Hin|[Hin|[]]]; discriminate.
Qed.

(* ------------------------------------------------------------------ conditions_end *)
Lemma length_or_fwd : forall ls a, length (or_fwd ls a) = lws ls.
Proof.
  intros ls a. destruct ls as [|x r]; [reflexivity|].
  destruct (or_fwd_split (x :: r) a ltac:(discriminate)) as [ls0 [l [-> ->]]].
  rewrite !app_length, length_chain, lws_app. cbn [length lws]. unfold lw. lia.
Qed.

Lemma length_cnf_code : forall cls p, length (cnf_code cls p) = total_lits cls.
Proof.
  induction cls as [|ls r IH]; intro p; [reflexivity|].
  cbn [cnf_code total_lits]. rewrite app_length, length_or_fwd, IH. lia.
Qed.

Lemma ce_from_chain_fwd : forall c t ls i acc, ce_from (chain_code c (TAt t) ls) i acc = acc.
Proof.
  induction ls as [|l r IH]; intros i acc; [reflexivity|].
  cbn [chain_code]. rewrite ce_from_app, ce_from_lval. cbn [ce_from].
  destruct (ljmp_facts l c (TAt t)) as [_ [_ [_ [_ Hb]]]]. rewrite Hb. apply IH.
Qed.

Lemma ce_from_or_fwd : forall ls a i acc, ls <> [] -> ce_from (or_fwd ls a) i acc = pos_of (i + lws ls).
Proof.
  intros ls a i acc H. destruct (or_fwd_split ls a H) as [ls0 [l [-> ->]]].
  rewrite ce_from_app, ce_from_chain_fwd, length_chain, ce_from_app, ce_from_lval. cbn [ce_from].
  destruct (ljmp_facts l false TTop) as [_ [_ [_ [_ Hb]]]]. rewrite Hb. f_equal. rewrite lws_app. cbn [lws]. unfold lw. lia.
Qed.

Lemma ce_from_cnf_code : forall cls p i acc, wf_alts cls -> ce_from (cnf_code cls p) i acc = pos_of (i + total_lits cls).
Proof.
  induction cls as [|ls r IH]; intros p i acc [Hne Hall]; [congruence|].
  inversion Hall as [|? ? Hls Hr]; subst.
  cbn [cnf_code]. rewrite total_lits_cons. rewrite ce_from_app, length_or_fwd, ce_from_or_fwd by assumption.
  destruct r as [|ls2 r2].
  - cbn [cnf_code ce_from total_lits]. f_equal. lia.
  - rewrite IH by (split; [discriminate|assumption]). f_equal. lia.
Qed.

(* ------------------------------------------------------------------ analyze_jumps: when every forward jump becomes an or-jump *)
Lemma jumps_from_spec : forall l i p j,
  In j (jumps_from l i p) <-> exists k ins, j = pos_of (i + k) /\ nth_error l k = Some ins /\ target_of ins = Some p.
Proof.
  induction l as [|x r IH]; intros i p j; cbn [jumps_from].
  - split; [intros [] | intros [k [ins [_ [H _]]]]; destruct k; discriminate H].
  - assert (Hr : In j (jumps_from r (S i) p) <-> exists k ins, j = pos_of (i + S k) /\ nth_error r k = Some ins /\ target_of ins = Some p).
    { rewrite IH. split; intros [k [ins [H1 H2]]]; exists k, ins; (split; [|exact H2]); rewrite H1; f_equal; lia. }
    destruct (target_of x) as [t|] eqn:Et; [destruct (Nat.eqb t p) eqn:Etp|].
    + apply Nat.eqb_eq in Etp. subst t. split.
      * intros [H|H]; [exists 0, x; rewrite Nat.add_0_r; repeat split; auto | ].
        apply Hr in H. destruct H as [k [ins H]]. exists (S k), ins. exact H.
      * intros [[|k] [ins [H1 [H2 H3]]]]; [left; rewrite H1, Nat.add_0_r; reflexivity | right; apply Hr; exists k, ins; repeat split; assumption].
    + apply Nat.eqb_neq in Etp. rewrite Hr. split.
      * intros [k [ins H]]. exists (S k), ins. exact H.
      * intros [[|k] [ins [H1 [H2 H3]]]]; [cbn in H2; injection H2 as <-; congruence | exists k, ins; repeat split; assumption].
    + rewrite Hr. split.
      * intros [k [ins H]]. exists (S k), ins. exact H.
      * intros [[|k] [ins [H1 [H2 H3]]]]; [cbn in H2; injection H2 as <-; congruence | exists k, ins; repeat split; assumption].
Qed.

Lemma jumps_from_sorted : forall l i p, StronglySorted lt (jumps_from l i p) /\ (forall j, In j (jumps_from l i p) -> pos_of i <= j).
Proof.
  induction l as [|x r IH]; intros i p; cbn [jumps_from]; [split; [constructor | intros j []]|].
  destruct (IH (S i) p) as [Hs Hb].
  assert (Hb' : forall j, In j (jumps_from r (S i) p) -> pos_of i <= j) by (intros j Hj; apply Hb in Hj; unfold pos_of in *; lia).
  destruct (target_of x) as [t|]; [destruct (Nat.eqb t p)|]; try (split; assumption).
  split.
  - constructor; [assumption|]. apply Forall_forall. intros j Hj. apply Hb in Hj. unfold pos_of in *. lia.
  - intros j [<-|Hj]; [lia | apply Hb'; assumption].
Qed.

Lemma fold_add_free : forall js orj p,
  StronglySorted lt js -> (forall j, In j js -> j <= p) -> (forall o j, In o orj -> In j js -> ~ (j < o /\ o < p)) ->
  fold_left (add_or_jump p) js orj = rev js ++ orj.
Proof.
  induction js as [|j r IH]; intros orj p Hs Hle Hfree; [reflexivity|].
  inversion Hs as [|? ? Hs' Hall]; subst.
  cbn [fold_left rev]. assert (Hadd : add_or_jump p orj j = j :: orj).
  { unfold add_or_jump. assert (Hj : j <= p) by (apply Hle; left; reflexivity).
    destruct (Nat.ltb p j) eqn:E; [apply Nat.ltb_lt in E; lia|].
    destruct (existsb (fun o => Nat.ltb j o && Nat.ltb o p) orj) eqn:E2; [|reflexivity].
    apply existsb_exists in E2. destruct E2 as [o [Ho Hc]]. apply andb_true_iff in Hc. destruct Hc as [Hc1 Hc2].
    apply Nat.ltb_lt in Hc1, Hc2. exfalso. apply (Hfree o j Ho (or_introl eq_refl)). split; assumption. }
  rewrite Hadd. rewrite IH.
  - rewrite <- app_assoc. reflexivity.
  - assumption.
  - intros j' Hj'. apply Hle. right. assumption.
  - intros o j' [Ho|Ho] Hj'.
    + subst o. rewrite Forall_forall in Hall. specialize (Hall j' Hj'). lia.
    + apply Hfree; [assumption | right; assumption].
Qed.

(* every element of the analysis result is the position of a jump *)
Lemma fold_add_subset : forall js orj p x, In x (fold_left (add_or_jump p) js orj) -> In x orj \/ In x js.
Proof.
  induction js as [|j r IH]; intros orj p x H; [left; exact H|].
  cbn [fold_left] in H. apply IH in H. destruct H as [H|H]; [|right; right; exact H].
  unfold add_or_jump in H. destruct (Nat.ltb p j); [left; exact H|].
  destruct (existsb _ orj); [left; exact H|]. destruct H as [<-|H]; [right; left; reflexivity | left; exact H].
Qed.

Lemma analyze_subset : forall code k orj x, In x (analyze code k orj) -> In x orj \/ exists k', k' < k /\ In x (jumps_to code (pos_of k')).
Proof.
  induction k as [|k IH]; intros orj x H; [left; exact H|].
  cbn [analyze] in H. apply IH in H. destruct H as [H|[k' [Hk H]]]; [|right; exists k'; split; [lia|exact H]].
  apply fold_add_subset in H. destruct H as [H|H]; [left; exact H | right; exists k; split; [lia|exact H]].
Qed.

(* the streams in which or-jumps never block: all jumps go forward, and a jump to a farther target never sits between a jump
   and its target.  Then every forward jump (to a position up to conditions_end) is an or-jump. *)
Definition jump_at (code : list instr) (j t : nat) : Prop := exists k ins, j = pos_of k /\ nth_error code k = Some ins /\ target_of ins = Some t.

Lemma analyze_all : forall code k orj,
  (forall j t, jump_at code j t -> j < t) ->
  (forall j t o t2, jump_at code j t -> jump_at code o t2 -> t < t2 -> ~ (j < o /\ o < t)) ->
  (forall o, In o orj -> exists t2, jump_at code o t2 /\ pos_of k <= t2) ->
  forall x, In x (analyze code k orj) <-> In x orj \/ exists k', k' < k /\ In x (jumps_to code (pos_of k')).
Proof.
  intros code k. induction k as [|k IH]; intros orj Hfw Hnn Hinv x.
  - cbn [analyze]. split; [intro H; left; exact H | intros [H|[k' [Hk _]]]; [exact H | lia]].
  - cbn [analyze].
    assert (Hjs : forall j, In j (jumps_to code (pos_of k)) <-> jump_at code j (pos_of k)).
    { intro j. rewrite jumps_to_from, jumps_from_spec. unfold jump_at. split; intros [k0 [ins [H1 H2]]]; exists k0, ins; (split; [|exact H2]); rewrite H1; reflexivity. }
    rewrite fold_add_free.
    + rewrite IH; [| assumption | assumption |].
      * rewrite in_app_iff, <- in_rev. split.
        -- intros [[H|H]|[k' [Hk H]]]; [right; exists k; split; [lia|exact H] | left; exact H | right; exists k'; split; [lia|exact H]].
        -- intros [H|[k' [Hk H]]]; [left; right; exact H|]. destruct (Nat.eq_dec k' k) as [->|Hne]; [left; left; exact H | right; exists k'; split; [lia|exact H]].
      * intros o Ho. apply in_app_or in Ho. destruct Ho as [Ho|Ho].
        -- apply in_rev in Ho. apply Hjs in Ho. exists (pos_of k). split; [exact Ho | lia].
        -- destruct (Hinv o Ho) as [t2 [H1 H2]]. exists t2. split; [exact H1 | unfold pos_of in *; lia].
    + rewrite jumps_to_from. apply jumps_from_sorted.
    + intros j Hj. apply Hjs in Hj. apply Hfw in Hj. lia.
    + intros o j Ho Hj. apply Hjs in Hj. destruct (Hinv o Ho) as [t2 [H1 H2]].
      destruct (Nat.eq_dec t2 (pos_of k)) as [->|Hne].
      * (* cannot happen: elements of orj target positions beyond pos_of k *) unfold pos_of in H2. lia.
      * apply (Hnn j (pos_of k) o t2 Hj H1). unfold pos_of in *. lia.
Qed.

Lemma or_jumps_all : forall code kb,
  conditions_end code = pos_of kb ->
  (forall j t, jump_at code j t -> j < t) ->
  (forall j t o t2, jump_at code j t -> jump_at code o t2 -> t < t2 -> ~ (j < o /\ o < t)) ->
  forall x, In x (or_jumps code) <-> exists t, jump_at code x t /\ t <= pos_of kb.
Proof.
  intros code kb Hce Hfw Hnn x. unfold or_jumps. rewrite Hce.
  unfold pos_of at 1. replace (kb + 2 =? 0) with false by (symmetry; apply Nat.eqb_neq; lia).
  unfold pos_of at 1. replace (kb + 2 - 2) with kb by lia.
  rewrite analyze_all; [| assumption | assumption | intros o []].
  split.
  - intros [[]|[k' [Hk H]]]. exists (pos_of k'). split; [|unfold pos_of; lia].
    rewrite jumps_to_from, jumps_from_spec in H. destruct H as [k0 [ins [H1 H2]]]. exists k0, ins. split; [rewrite H1; reflexivity | exact H2].
  - intros [t [[k0 [ins [H1 [H2 H3]]]] Ht]]. right.
    assert (Ht2 : 2 <= t).
    { assert (Hj : jump_at code x t) by (exists k0, ins; repeat split; assumption). apply Hfw in Hj. rewrite H1 in Hj. unfold pos_of in Hj. lia. }
    exists (t - 2). split; [unfold pos_of in Ht; lia|].
    rewrite jumps_to_from, jumps_from_spec. exists k0, ins. split; [rewrite H1; reflexivity|]. split; [exact H2|].
    rewrite H3. f_equal. unfold pos_of. lia.
Qed.

(* ------------------------------------------------------------------ the jumps of the CNF stream *)
Lemma chain_jump : forall c a ls k ins t,
  nth_error (chain_code c (TAt a) ls) k = Some ins -> target_of ins = Some t -> t = a.
Proof.
  induction ls as [|l r IH]; intros k ins t Hn Ht; [destruct k; discriminate Hn|].
  cbn [chain_code] in Hn. destruct (Nat.lt_ge_cases k (length (lval l))) as [Hk|Hk].
  - rewrite nth_error_app1 in Hn by assumption. apply nth_error_In in Hn.
    destruct (lval_facts l ins Hn) as [H _]. congruence.
  - rewrite nth_error_app2 in Hn by assumption. destruct (k - length (lval l)) as [|k'] eqn:E; cbn [nth_error] in Hn.
    + injection Hn as <-. destruct (ljmp_facts l c (TAt a)) as [_ [_ [_ [H _]]]]. congruence.
    + exact (IH k' ins t Hn Ht).
Qed.

Lemma or_fwd_jump : forall ls a k ins t, nth_error (or_fwd ls a) k = Some ins -> target_of ins = Some t -> t = a /\ k + 1 < lws ls.
Proof.
  intros ls a k ins t Hn Ht. destruct ls as [|x r]; [destruct k; discriminate Hn|].
  destruct (or_fwd_split (x :: r) a ltac:(discriminate)) as [ls0 [l [Hls Hc]]]. rewrite Hc in Hn. rewrite Hls, lws_app. cbn [lws].
  pose proof (lw_pos l) as Hl2.
  destruct (Nat.lt_ge_cases k (lws ls0)) as [Hk|Hk].
  - rewrite nth_error_app1 in Hn by (rewrite length_chain; assumption). split; [exact (chain_jump _ _ _ _ _ _ Hn Ht) | lia].
  - exfalso. rewrite nth_error_app2 in Hn by (rewrite length_chain; assumption). rewrite length_chain in Hn.
    destruct (Nat.lt_ge_cases (k - lws ls0) (length (lval l))) as [Hk2|Hk2].
    + rewrite nth_error_app1 in Hn by assumption. apply nth_error_In in Hn. destruct (lval_facts l ins Hn) as [H _]. congruence.
    + rewrite nth_error_app2 in Hn by assumption. destruct (k - lws ls0 - length (lval l)) as [|[|m]]; cbn [nth_error] in Hn; try discriminate Hn.
      injection Hn as <-. destruct (ljmp_facts l false TTop) as [_ [_ [_ [H _]]]]. congruence.
Qed.

Lemma cnf_jumps : forall cls i, Forall (fun ls => ls <> []) cls ->
  (forall k ins t, nth_error (cnf_code cls (pos_of i)) k = Some ins -> target_of ins = Some t ->
                   pos_of (i + k) < t /\ t <= pos_of (i + total_lits cls)) /\
  (forall k ins t k2 ins2 t2,
     nth_error (cnf_code cls (pos_of i)) k = Some ins -> target_of ins = Some t ->
     nth_error (cnf_code cls (pos_of i)) k2 = Some ins2 -> target_of ins2 = Some t2 ->
     t < t2 -> ~ (k < k2 /\ pos_of (i + k2) < t)).
Proof.
  induction cls as [|ls r IH]; intros i Hall.
  - split; [intros k ins t H; destruct k; discriminate H | intros k ins t k2 ins2 t2 H; destruct k; discriminate H].
  - inversion Hall as [|? ? Hls Hr]; subst.
    assert (Hlen : length (or_fwd ls (pos_of i + lws ls)) = lws ls) by apply length_or_fwd.
    assert (Hpos : pos_of i + lws ls = pos_of (i + lws ls)) by (unfold pos_of; lia).
    destruct (IH (i + lws ls) Hr) as [IH1 IH2].
    assert (Hsplit : forall k ins t, nth_error (cnf_code (ls :: r) (pos_of i)) k = Some ins -> target_of ins = Some t ->
              (k + 1 < lws ls /\ t = pos_of (i + lws ls)) \/
              (lws ls <= k /\ nth_error (cnf_code r (pos_of (i + lws ls))) (k - lws ls) = Some ins)).
    { intros k ins t Hn Ht. cbn [cnf_code] in Hn. destruct (Nat.lt_ge_cases k (lws ls)) as [Hk|Hk].
      - rewrite nth_error_app1 in Hn by lia. apply (or_fwd_jump _ _ _ _ t) in Hn; [|exact Ht]. left. rewrite <- Hpos. destruct Hn; split; [lia|assumption].
      - rewrite nth_error_app2 in Hn by lia. rewrite Hlen, Hpos in Hn. right. split; assumption. }
    split.
    + intros k ins t Hn Ht. rewrite total_lits_cons.
      destruct (Hsplit k ins t Hn Ht) as [[Hk ->]|[Hk Hn2]].
      * unfold pos_of. lia.
      * destruct (IH1 _ _ _ Hn2 Ht) as [H1 H2]. unfold pos_of in *. lia.
    + intros k ins t k2 ins2 t2 Hn Ht Hn2 Ht2 Hlt [Hkk Hb].
      destruct (Hsplit k ins t Hn Ht) as [[Hk ->]|[Hk Hn']]; destruct (Hsplit k2 ins2 t2 Hn2 Ht2) as [[Hk2 ->]|[Hk2 Hn2']].
      * lia.
      * unfold pos_of in Hb. lia.
      * lia.
      * apply (IH2 _ _ _ _ _ _ Hn' Ht Hn2' Ht2 Hlt). split; [lia|]. unfold pos_of in *. lia.
Qed.

Definition cnf_stream (cls : list (list lit)) : list instr := cnf_code cls 2 ++ [ILoadElt; IYield].

Lemma cnf_jump_at : forall cls j t, jump_at (cnf_stream cls) j t ->
  exists k ins, j = pos_of k /\ nth_error (cnf_code cls (pos_of 0)) k = Some ins /\ target_of ins = Some t.
Proof.
  intros cls j t [k [ins [H1 [H2 H3]]]]. exists k, ins. split; [exact H1|]. split; [|exact H3].
  unfold cnf_stream in H2. destruct (Nat.lt_ge_cases k (length (cnf_code cls 2))) as [Hk|Hk].
  - rewrite nth_error_app1 in H2 by assumption. exact H2.
  - rewrite nth_error_app2 in H2 by assumption. destruct (k - length (cnf_code cls 2)) as [|[|[|m]]]; cbn in H2; try discriminate H2;
      try (injection H2 as <-; discriminate H3).
Qed.

Lemma or_jumps_cnf : forall cls, wf_alts cls ->
  forall x, In x (or_jumps (cnf_stream cls)) <-> exists t, jump_at (cnf_stream cls) x t.
Proof.
  intros cls [Hne Hall] x. destruct (cnf_jumps cls 0 Hall) as [C1 C2].
  rewrite (or_jumps_all (cnf_stream cls) (0 + total_lits cls)).
  - split; [intros [t [H _]]; exists t; exact H|]. intros [t H]. exists t. split; [exact H|].
    destruct (cnf_jump_at _ _ _ H) as [k [ins [_ [H2 H3]]]]. apply (C1 _ _ _ H2 H3).
  - unfold cnf_stream. rewrite conditions_end_from, ce_from_app, ce_from_cnf_code by (split; assumption). reflexivity.
  - intros j t H. destruct (cnf_jump_at _ _ _ H) as [k [ins [-> [H2 H3]]]]. destruct (C1 _ _ _ H2 H3) as [H4 _]. exact H4.
  - intros j t o t2 Hj Ho Hlt [Hjo Hot].
    destruct (cnf_jump_at _ _ _ Hj) as [k [ins [-> [H2 H3]]]]. destruct (cnf_jump_at _ _ _ Ho) as [k2 [ins2 [-> [H5 H6]]]].
    apply (C2 _ _ _ _ _ _ H2 H3 H5 H6 Hlt). split; [unfold pos_of in Hjo; lia | exact Hot].
Qed.


(* the node a clause decompiles to *)
Definition clause_node (id0 t : nat) (ls : list lit) : dn :=
  match ls with [l] => dlit l | _ => DBool id0 t true (map dlit ls) end.

(* one clause: its literals, the last of which jumps back to the loop top *)
Lemma run_clause : forall orj ce ls rest i s,
  ls <> [] -> 1 <= nextid s ->
  (forall k, k <= lws ls -> has_target s (pos_of (i + k)) = false) ->
  (forall k, k < lws ls -> Nat.leb ce (pos_of (i + k)) = false) ->
  (forall pre l post, ls = pre ++ l :: post -> post <> [] -> existsb (Nat.eqb (pos_of (i + lws pre + length (lval l)))) orj = true) ->
  existsb (Nat.eqb (pos_of (i + lws ls - 1))) orj = false ->
  run orj ce [] (or_fwd ls (pos_of (i + lws ls)) ++ rest) i s =
  run orj ce [] rest (i + lws ls)
      (mkState (DBool (nextid s + length ls - 1) TOP false [clause_node (nextid s) (pos_of (i + lws ls)) ls] :: stack s)
               (tsetdefault (targets s) TOP (nextid s + length ls - 1))
               (nextid s + length ls)).
Proof.
  intros orj ce ls rest i s Hne Hid Hnt Hce Hor Hand.
  destruct (exists_last Hne) as [ls0 [l Hls]]. subst ls.
  rewrite app_length, lws_app in *. cbn [length lws] in *. rewrite Nat.add_0_r in *.
  assert (Hlw : lw l = length (lval l) + 1) by reflexivity.
  set (nextcl := pos_of (i + (lws ls0 + lw l))) in *.
  rewrite or_fwd_snoc, <- app_assoc.
  rewrite run_chain.
  2:{ intros k Hk. apply Hnt. lia. }
  2:{ intros k Hk. cbn [tpos]. unfold nextcl, pos_of. lia. }
  2:{ intros k Hk. apply Hce. lia. }
  2:{ intros pre l0 post Heq. apply (Hor pre l0 (post ++ [l])); [rewrite Heq, <- app_assoc; reflexivity | destruct post; discriminate]. }
  cbn [tpos].
  set (s1 := {| stack := rev (cl true nextcl (chain_items (nextid s) ls0)) ++ stack s;
                targets := match ls0 with [] => targets s | _ :: _ => tsetdefault (targets s) nextcl (nextid s) end;
                nextid := nextid s + length ls0 |}).
  set (i1 := i + lws ls0).
  assert (Hnt1 : forall k, k < lw l -> has_target s1 (pos_of (i1 + k)) = false).
  { intros k Hk. unfold s1. destruct ls0 as [|l0 r0].
    - unfold has_target in *. cbn [targets] in *. unfold i1. rewrite <- Nat.add_assoc. apply Hnt. lia.
    - rewrite has_target_setdefault.
      + unfold has_target in *. cbn [targets] in *. unfold i1. rewrite <- Nat.add_assoc. apply Hnt. lia.
      + unfold nextcl, i1, pos_of. lia. }
  rewrite <- app_assoc. rewrite run_lval by (intros k Hk; apply Hnt1; lia).
  set (q := i1 + length (lval l)).
  assert (Hq : S q = i + (lws ls0 + lw l)) by (unfold q, i1; lia).
  assert (Hstep : step orj ce [] (ljmp l false TTop) q (push (dval l) s1) =
                  Some (mkState (DBool (nextid s + (length ls0 + 1) - 1) TOP false [clause_node (nextid s) nextcl (ls0 ++ [l])] :: stack s)
                                (tsetdefault (targets s) TOP (nextid s + (length ls0 + 1) - 1))
                                (nextid s + (length ls0 + 1)))).
  { replace (nextid s + (length ls0 + 1) - 1) with (nextid s1) by (unfold s1; cbn [nextid]; lia).
    replace (nextid s + (length ls0 + 1)) with (S (nextid s1)) by (unfold s1; cbn [nextid]; lia).
    apply (lit_jump orj ce l false TTop q s1).
    - unfold q. apply Hnt1. lia.
    - replace q with (i + (lws ls0 + length (lval l))) by (unfold q, i1; lia). apply Hce. lia.
    - replace q with (i + (lws ls0 + lw l) - 1) by (unfold q, i1; lia). exact Hand.
    - rewrite Hq. fold nextcl.
      destruct ls0 as [|l0 r0].
      + assert (Hno : has_target s1 nextcl = false).
        { unfold s1. unfold has_target in *. cbn [targets] in *. unfold nextcl. apply Hnt. cbn [lws]. lia. }
        rewrite Hno. unfold s1. cbn [push stack targets nextid chain_items length seq map combine cl rev app clause_node]. reflexivity.
      + assert (Hnone : tget (targets s) nextcl = None).
        { specialize (Hnt (lws (l0 :: r0) + lw l) (le_n _)). unfold has_target in Hnt. fold nextcl in Hnt.
          destruct (tget (targets s) nextcl); [discriminate|reflexivity]. }
        assert (Hyes : tget (targets s1) nextcl = Some (nextid s)).
        { unfold s1. cbn [targets]. apply tget_tsetdefault_same. assumption. }
        assert (Hht : has_target s1 nextcl = true) by (unfold has_target; rewrite Hyes; reflexivity).
        rewrite Hht.
        rewrite (process_target_lim nextcl (push (dlit l) s1) (dlit l) (stack s1) (nextid s) eq_refl
                   ltac:(unfold nextcl, pos_of; lia) Hyes).
        cbn [push targets nextid stack]. unfold s1 at 1 2. cbn [stack targets nextid].
        rewrite tdel_tsetdefault by assumption.
        rewrite merge_first; [| apply plain_dlit | apply same_id_dlit | | discriminate].
        * rewrite hd_chain_items by discriminate. rewrite map_snd_chain_items.
          rewrite ep_dlit, Nat.max_0_r.
          rewrite pt_stop_lim.
          -- unfold s1. cbn [nextid]. cbn [clause_node app map].
             destruct (r0 ++ [l]) eqn:E; [destruct r0; discriminate|]. rewrite <- E.
             rewrite map_app. reflexivity.
          -- cbn [map app]. destruct (map dlit r0 ++ [dlit l]) eqn:E; [destruct r0; discriminate|]. apply simplify_multi.
          -- unfold same_id. cbn [id_of]. rewrite Nat.eqb_refl. destruct (nextid s); [lia|reflexivity].
        * intros k d Hin. rewrite chain_items_cons in Hin. cbn [tl] in Hin. apply chain_items_ids in Hin. cbn [not_lim]. lia. }
  destruct (ljmp_facts l false TTop) as [_ [_ [Hfin _]]].
  cbn [app].
  rewrite (run_cons orj ce (ljmp l false TTop) _ q _ _ Hfin Hstep).
  f_equal. lia.
Qed.

(* ------------------------------------------------------------------ all clauses, then the yield *)
Definition clause_pt (ls : list lit) : ptree := match ls with [l] => lit_pt l | _ => PBool true (map lit_pt ls) end.

Lemma strip_clause_node : forall id0 t ls, strip (clause_node id0 t ls) = clause_pt ls.
Proof.
  intros id0 t [|l [|l2 r]]; cbn [clause_node clause_pt strip]; try rewrite map_strip_dlit; try reflexivity. apply strip_dlit.
Qed.

(* what a clause node looks like, as far as the final merge cares *)
Definition node_ok (d : dn) : Prop :=
  (exists l, d = dlit l) \/ (exists id t x y vs, d = DBool id t true (x :: y :: vs) /\ 2 <= t).

Lemma clause_node_ok : forall id0 i ls, ls <> [] -> node_ok (clause_node id0 (pos_of i) ls).
Proof.
  intros id0 i [|l [|l2 r]] H; [congruence| left; exists l; reflexivity |].
  right. exists id0, (pos_of i), (dlit l), (dlit l2), (map dlit r). split; [reflexivity | unfold pos_of; lia].
Qed.

Definition final_of (d : dn) : dn := if Nat.ltb (ep_of d) TOP then set_ep d TOP else d.

Lemma final_of_facts : forall d, node_ok d ->
  simplify (final_of d) = final_of d /\ is_comp (final_of d) = false /\ plain_for false (final_of d) /\
  (forall lim, lim = None -> same_id (final_of d) lim = false) /\ strip (final_of d) = strip d.
Proof.
  intros d [[l ->]|[id [t [x [y [vs [-> Ht]]]]]]].
  - destruct l as [[] n|[] ne a b|isnot a]; cbn; repeat split; intros; subst; reflexivity.
  - unfold final_of. cbn [ep_of]. replace (t <? TOP) with false by (symmetry; apply Nat.ltb_ge; unfold TOP; lia).
    repeat split; try reflexivity; try discriminate. intros lim ->. reflexivity.
Qed.

Definition all_or_one (l : list ptree) : ptree := match l with [x] => x | _ => PBool false l end.

Definition items_ok (items : list (nat * dn)) (n : nat) : Prop :=
  StronglySorted lt (map fst items) /\ (forall k, In k (map fst items) -> 1 <= k < n) /\ Forall node_ok (map snd items).


Lemma or_fwd_nth_jump : forall pre l post a, post <> [] ->
  nth_error (or_fwd (pre ++ l :: post) a) (lws pre + length (lval l)) = Some (ljmp l true (TAt a)).
Proof.
  induction pre as [|x r IH]; intros l post a Hp.
  - cbn [app lws or_fwd]. destruct post as [|y s]; [congruence|].
    rewrite nth_error_app2 by lia. replace (0 + length (lval l) - length (lval l)) with 0 by lia. reflexivity.
  - cbn [app lws or_fwd]. destruct (r ++ l :: post) eqn:E; [destruct r; discriminate|]. rewrite <- E.
    rewrite nth_error_app2 by (unfold lw; lia).
    replace (lw x + lws r + length (lval l) - length (lval x)) with (S (lws r + length (lval l))) by (unfold lw; lia).
    cbn [nth_error]. apply IH. exact Hp.
Qed.

Lemma or_fwd_nth_last : forall ls0 l a, nth_error (or_fwd (ls0 ++ [l]) a) (lws (ls0 ++ [l]) - 1) = Some (ljmp l false TTop).
Proof.
  intros ls0 l a. rewrite or_fwd_snoc, lws_app. cbn [lws].
  rewrite nth_error_app2 by (rewrite length_chain; unfold lw; lia). rewrite length_chain.
  rewrite nth_error_app2 by (unfold lw; lia).
  replace (lws ls0 + (lw l + 0) - 1 - lws ls0 - length (lval l)) with 0 by (unfold lw; lia). reflexivity.
Qed.

Lemma run_cnf_from : forall cls orj ce i s items,
  Forall (fun ls => ls <> []) cls ->
  ce = pos_of (i + total_lits cls) ->
  (forall q ins, nth_error (cnf_code cls (pos_of i)) q = Some ins ->
                 (existsb (Nat.eqb (pos_of (i + q))) orj = true <-> exists t, target_of ins = Some t)) ->
  stack s = rev (cl false TOP items) ++ [DComp 0 0] ->
  targets s = match items with [] => [] | x :: _ => [(TOP, fst x)] end ->
  1 <= nextid s -> items_ok items (nextid s) ->
  (items <> [] \/ cls <> []) ->
  exists final, run orj ce [] (cnf_code cls (pos_of i) ++ [ILoadElt; IYield]) i s = RGen (DElt 0 0) [[final]] /\
                strip final = all_or_one (map strip (map snd items) ++ map clause_pt cls).
Proof.
  induction cls as [|ls r IH]; intros orj ce i s items Hall Hce Horj Hst Hts Hid [Hsorted [Hrange Hnodes]] Hsome.
  - (* all clauses done: LOAD_FAST x ; YIELD_VALUE collects the pending `and` clauses *)
    destruct Hsome as [Hit|Hc]; [|congruence].
    cbn [cnf_code app map]. rewrite app_nil_r.
    destruct (exists_last Hit) as [items0 [[k d] Hitems]]. subst items.
    assert (Hd : node_ok d).
    { rewrite map_app in Hnodes. apply Forall_app in Hnodes. destruct Hnodes as [_ H]. inversion H; assumption. }
    destruct (final_of_facts d Hd) as [F1 [F2 [F3 [F4 F5]]]].
    assert (Hnt : forall p, 2 <= p -> has_target s p = false).
    { intros p Hp. unfold has_target. rewrite Hts. destruct (items0 ++ [(k, d)]) as [|x0 ?]; [reflexivity|].
      cbn [tget]. unfold TOP. destruct p as [|[|p]]; try lia. reflexivity. }
    assert (Hstk : stack s = DBool k TOP false [d] :: rev (cl false TOP items0) ++ [DComp 0 0]).
    { rewrite Hst. unfold cl. rewrite map_app, rev_app_distr. reflexivity. }
    assert (Hsimp : simplify (DBool k TOP false [d]) = final_of d) by reflexivity.
    destruct items0 as [|x0 r0].
    + exists (final_of d). split.
      * eapply run_elt_yield.
        -- apply Hnt. unfold pos_of. lia.
        -- apply Hnt. unfold pos_of. lia.
        -- rewrite Hstk. cbn [length app rev cl map]. lia.
        -- unfold process_target. rewrite Hstk. cbn [Nat.eqb orb]. rewrite pt_loop_simplify; rewrite Hsimp; [|exact F1].
           cbn [cl map rev app]. rewrite pt_stop_comp; [reflexivity | exact F1 | apply F4; reflexivity | exact F2].
        -- exact F2.
      * cbn [app map snd all_or_one]. exact F5.
    + exists (DBool (fst x0) (Nat.max TOP (ep_of (final_of d))) false (map snd (x0 :: r0) ++ [final_of d])). split.
      * eapply run_elt_yield.
        -- apply Hnt. unfold pos_of. lia.
        -- apply Hnt. unfold pos_of. lia.
        -- rewrite Hstk. cbn [length]. rewrite app_length. cbn [length]. lia.
        -- unfold process_target. rewrite Hstk. cbn [Nat.eqb orb]. rewrite pt_loop_simplify; rewrite Hsimp; [|exact F1].
           rewrite merge_first; [|exact F3|apply F4; reflexivity|intros; exact I|discriminate].
           cbn [hd]. rewrite pt_stop_comp; [reflexivity| | reflexivity | reflexivity].
           cbn [map snd app]. destruct (map snd r0 ++ [final_of d]) eqn:E; [destruct r0; discriminate|]. apply simplify_multi.
        -- reflexivity.
      * cbn [strip]. rewrite !map_app. cbn [map snd app]. rewrite F5.
        destruct (map strip (map snd r0)) as [|b c]; reflexivity.
  - (* one more clause *)
    inversion Hall as [|a0 b0 Hls Hr]; subst a0 b0.
    assert (Hl : 2 <= lws ls) by (apply lws_pos; assumption).
    rewrite total_lits_cons in Hce.
    cbn [cnf_code]. replace (pos_of i + lws ls) with (pos_of (i + lws ls)) by (unfold pos_of; lia).
    rewrite <- app_assoc.
    assert (Hlen : length (or_fwd ls (pos_of (i + lws ls))) = lws ls) by apply length_or_fwd.
    assert (Hcode_eq : cnf_code (ls :: r) (pos_of i) = or_fwd ls (pos_of (i + lws ls)) ++ cnf_code r (pos_of (i + lws ls))).
    { cbn [cnf_code]. replace (pos_of i + lws ls) with (pos_of (i + lws ls)) by (unfold pos_of; lia). reflexivity. }
    assert (Hfwd : forall pre l post, ls = pre ++ l :: post -> post <> [] ->
              existsb (Nat.eqb (pos_of (i + lws pre + length (lval l)))) orj = true).
    { intros pre l post Heq Hp. replace (i + lws pre + length (lval l)) with (i + (lws pre + length (lval l))) by lia.
      apply (Horj _ (ljmp l true (TAt (pos_of (i + lws ls))))).
      - rewrite Hcode_eq, nth_error_app1.
        + rewrite Heq at 1. apply or_fwd_nth_jump. exact Hp.
        + rewrite Hlen, Heq, lws_app. cbn [lws]. unfold lw. pose proof (lws_pos post Hp). lia.
      - destruct (ljmp_facts l true (TAt (pos_of (i + lws ls)))) as [_ [_ [_ [Ht _]]]]. eexists. exact Ht. }
    assert (Hback : existsb (Nat.eqb (pos_of (i + lws ls - 1))) orj = false).
    { apply existsb_false_of_not_true. intro H.
      destruct (exists_last Hls) as [ls0 [l Hlsd]].
      replace (i + lws ls - 1) with (i + (lws ls - 1)) in H by lia.
      apply (Horj (lws ls - 1) (ljmp l false TTop)) in H.
      - destruct H as [t Ht]. destruct (ljmp_facts l false TTop) as [_ [_ [_ [Hn _]]]]. congruence.
      - rewrite Hcode_eq, nth_error_app1 by lia. rewrite Hlsd at 1 2. rewrite Hlsd. apply or_fwd_nth_last. }
    rewrite run_clause; try assumption.
    + set (newid := nextid s + length ls - 1).
      set (A := clause_node (nextid s) (pos_of (i + lws ls)) ls).
      assert (Hlen1 : 1 <= length ls) by (destruct ls; [congruence | cbn [length]; lia]).
      destruct (IH orj ce (i + lws ls)
                   {| stack := DBool newid TOP false [A] :: stack s; targets := tsetdefault (targets s) TOP newid; nextid := nextid s + length ls |}
                   (items ++ [(newid, A)]) Hr) as [final [Hrun Hstrip]].
      * rewrite Hce. f_equal. lia.
      * intros q ins Hn. replace (i + lws ls + q) with (i + (lws ls + q)) by lia.
        apply Horj. rewrite Hcode_eq, nth_error_app2 by lia. rewrite Hlen. replace (lws ls + q - lws ls) with q by lia. exact Hn.
      * cbn [stack]. rewrite Hst. unfold cl. rewrite map_app, rev_app_distr. reflexivity.
      * cbn [targets]. rewrite Hts. destruct items as [|[k1 d1] orest]; cbn [app fst].
        -- reflexivity.
        -- unfold tsetdefault. cbn [tget]. rewrite Nat.eqb_refl. reflexivity.
      * cbn [nextid]. lia.
      * cbn [nextid]. split; [|split].
        -- rewrite map_app. cbn [map fst]. clear - Hsorted Hrange Hlen1. unfold newid.
           induction (map fst items) as [|a l IHl]; cbn [app]; [repeat constructor|].
           inversion Hsorted as [|a1 l1 Hs1 Hf1]; subst a1 l1. constructor.
           ++ apply IHl; [assumption|]. intros k Hk. apply Hrange. right. assumption.
           ++ apply Forall_app. split; [assumption|]. constructor; [|constructor].
              assert (1 <= a < nextid s) by (apply Hrange; left; reflexivity). lia.
        -- intros k Hk. rewrite map_app in Hk. apply in_app_or in Hk. destruct Hk as [Hk|[Hk|[]]].
           ++ apply Hrange in Hk. lia.
           ++ subst k. cbn [fst]. unfold newid. lia.
        -- rewrite map_app. apply Forall_app. split; [assumption|]. cbn [map snd]. constructor; [|constructor].
           unfold A. apply clause_node_ok. assumption.
      * left. destruct items; discriminate.
      * exists final. split; [exact Hrun|]. rewrite Hstrip.
        rewrite !map_app. cbn [map snd]. unfold A. rewrite strip_clause_node. rewrite <- app_assoc. reflexivity.
    + intros k Hk. unfold has_target. rewrite Hts. destruct items as [|[k1 d1] orest]; [reflexivity|].
      cbn [tget fst]. unfold TOP, pos_of. replace (1 =? i + k + 2) with false by (symmetry; apply Nat.eqb_neq; lia). reflexivity.
    + intros k Hk. apply Nat.leb_gt. rewrite Hce. unfold pos_of. lia.
Qed.

(* ------------------------------------------------------------------ back to source expressions; the round trip *)
Lemma to_bexp_clause : forall ls, ls <> [] -> to_bexp (clause_pt ls) = Some (mk_or ls).
Proof.
  intros [|l [|l2 r]] H; [congruence| |].
  - apply to_bexp_lit.
  - unfold clause_pt, mk_or. rewrite to_bexp_PBool, to_bexp_list_lits. reflexivity.
Qed.

Lemma to_bexp_list_clauses : forall cls, Forall (fun ls => ls <> []) cls -> to_bexp_list (map clause_pt cls) = Some (map mk_or cls).
Proof.
  induction cls as [|ls r IH]; intro H; [reflexivity|]. inversion H; subst.
  cbn [map to_bexp_list]. rewrite to_bexp_clause by assumption. rewrite IH by assumption. reflexivity.
Qed.

Lemma to_bexp_all_or_one : forall cls, wf_alts cls -> to_bexp (all_or_one (map clause_pt cls)) = Some (cnf cls).
Proof.
  intros cls [Hne Hall]. destruct cls as [|ls [|ls2 r]]; [congruence| |].
  - inversion Hall; subst. cbn [map all_or_one]. unfold cnf. cbn [map mk_and_of]. apply to_bexp_clause. assumption.
  - cbn [map all_or_one]. rewrite to_bexp_PBool.
    change (clause_pt ls :: clause_pt ls2 :: map clause_pt r) with (map clause_pt (ls :: ls2 :: r)).
    rewrite to_bexp_list_clauses by assumption. reflexivity.
Qed.

Lemma no_copy_or_fwd : forall ls a, ~ In ICopy (or_fwd ls a).
Proof.
  intros ls a H. destruct ls as [|x r]; [exact H|].
  destruct (or_fwd_split (x :: r) a ltac:(discriminate)) as [ls0 [l [_ Hc]]]. rewrite Hc in H.
  apply in_app_or in H. destruct H as [H|H]; [exact (no_copy_chain _ _ _ H)|].
  apply in_app_or in H. destruct H as [H|[H|[]]]; [exact (no_copy_lval l H)|]. destruct (ljmp_facts l false TTop) as [Hn _]. exact (Hn H).
Qed.
Lemma no_copy_cnf_code : forall cls p, ~ In ICopy (cnf_code cls p).
Proof.
  induction cls as [|ls r IH]; intros p H; [exact H|].
  cbn [cnf_code] in H. apply in_app_or in H. destruct H as [H|H]; [exact (no_copy_or_fwd _ _ H) | exact (IH _ H)].
Qed.

Theorem roundtrip_cnf : forall cls, wf_alts cls -> decompile PFilter (cnf cls) = Some (cnf cls).
Proof.
  intros cls Hwf. assert (Hall : Forall (fun ls => ls <> []) cls) by (destruct Hwf; assumption).
  assert (Hne : cls <> []) by (destruct Hwf; assumption).
  unfold decompile. rewrite compile_cnf by assumption. fold (cnf_stream cls).
  unfold decompile_code.
  assert (Hce : conditions_end (cnf_stream cls) = pos_of (0 + total_lits cls)).
  { unfold cnf_stream. rewrite conditions_end_from, ce_from_app, ce_from_cnf_code by assumption. reflexivity. }
  rewrite Hce.
  assert (Hvj : value_jumps (cnf_stream cls) = []).
  { rewrite value_jumps_from. apply vj_from_no_copy. unfold cnf_stream. intro H. apply in_app_or in H.
    destruct H as [H|[H|[H|[]]]]; try discriminate H. exact (no_copy_cnf_code _ _ H). }
  rewrite Hvj.
  destruct (run_cnf_from cls (or_jumps (cnf_stream cls)) (pos_of (0 + total_lits cls)) 0 (init_state PFilter) [] Hall eq_refl)
    as [final [Hrun Hstrip]].
  - intros q ins Hn. rewrite existsb_exists. split.
    + intros [x [Hx He]]. apply Nat.eqb_eq in He. subst x. apply (or_jumps_cnf cls Hwf) in Hx. destruct Hx as [t Hj].
      destruct (cnf_jump_at _ _ _ Hj) as [k [ins' [Hk [Hn' Ht]]]].
      assert (k = q) by (unfold pos_of in Hk; lia). subst k. rewrite Hn in Hn'. injection Hn' as <-. exists t. exact Ht.
    + intros [t Ht]. exists (pos_of (0 + q)). split; [|apply Nat.eqb_refl].
      apply (or_jumps_cnf cls Hwf). exists t. exists q, ins. split; [reflexivity|]. split; [|exact Ht].
      unfold cnf_stream. rewrite nth_error_app1; [exact Hn|]. apply nth_error_Some. change 2 with (pos_of 0). congruence.
  - reflexivity.
  - reflexivity.
  - cbn. lia.
  - split; [constructor | split; [intros k [] | constructor]].
  - right. assumption.
  - change (cnf_code cls (pos_of 0) ++ [ILoadElt; IYield]) with (cnf_stream cls) in Hrun.
    rewrite Hrun. cbn [extract map conj]. rewrite Hstrip. cbn [map snd app]. apply to_bexp_all_or_one. assumption.
Qed.

Corollary roundtrip_cnf_meaning : forall cls, wf_alts cls ->
  exists e', decompile PFilter (cnf cls) = Some e' /\ forall rho, eval rho e' = eval rho (cnf cls).
Proof. intros cls H. exists (cnf cls). split; [apply roundtrip_cnf; assumption | reflexivity]. Qed.
