(* C26 - lemmas: length bound of normalised names, registry invariant (pairwise distinct names), column registration,
   order_tables_to_create (permutation; parents first when the foreign-key graph is acyclic). *)
Require Import PonyV.Base.PyBase PonyV.Model.C26Schema.
From Coq Require Import Arith Lia Permutation.
Open Scope nat_scope.

(* ------------------------------------------------------------------ names *)
Lemma fold_case_length : forall f s, length (fold_case f s) = length s.
Proof. intros [] s; cbn; auto; unfold lower, upper; apply map_length. Qed.

Lemma normalize_len : forall d s, length (normalize d s) <= max_len d.
Proof. intros. unfold normalize. rewrite fold_case_length. apply firstn_le_length. Qed.

Lemma name_of_bounded : forall d s, bounded_src d s -> length (name_of d s) <= max_len d.
Proof.
  intros d s H. destruct s; cbn in *; try apply normalize_len; auto. contradiction.
Qed.

Lemma default_column_names_len : forall d a rp c, In c (default_column_names d a rp) -> length c <= max_len d.
Proof.
  intros d a rp c H. unfold default_column_names in H. destruct rp as [[|x [|y l]]|]; cbn in H.
  - destruct H.
  - destruct H as [<-|[]]. apply normalize_len.
  - destruct H as [<-|[<-|H]]; try apply normalize_len. apply in_map_iff in H. destruct H as [z [<- _]]. apply normalize_len.
  - destruct H as [<-|[]]. apply normalize_len.
Qed.

Lemma default_m2m_column_names_len : forall d e pk c, In c (default_m2m_column_names d e pk) -> length c <= max_len d.
Proof.
  intros d e pk c H. unfold default_m2m_column_names in H. destruct pk as [|x [|y l]]; cbn in H.
  - destruct H.
  - destruct H as [<-|[]]. apply normalize_len.
  - destruct H as [<-|[<-|H]]; try apply normalize_len. apply in_map_iff in H. destruct H as [z [<- _]]. apply normalize_len.
Qed.

(* the '_2' of the reverse columns of a self-referencing many-to-many relationship is appended after the truncation *)
Lemma m2m_reverse_columns_refuted :
  exists c, In c (m2m_reverse_columns Oracle (repeat 65%Z 30) [[97%Z]]) /\ length c > max_len Oracle.
Proof. eexists. split; [left; reflexivity | vm_compute; lia]. Qed.

Lemma str_eqb_eq : forall a b, str_eqb a b = true <-> a = b.
Proof.
  induction a as [|x a IH]; destruct b as [|y b]; cbn; split; intros H; try discriminate; auto.
  - apply andb_true_iff in H as [H1 H2]. apply Z.eqb_eq in H1. apply IH in H2. congruence.
  - inversion H; subst. rewrite Z.eqb_refl. cbn. apply IH. reflexivity.
Qed.

Lemma mem_In : forall n l, mem n l = true <-> In n l.
Proof.
  intros. unfold mem. rewrite existsb_exists. split.
  - intros [x [H1 H2]]. apply str_eqb_eq in H2. subst. auto.
  - intros H. exists n. split; auto. apply str_eqb_eq. reflexivity.
Qed.

Lemma mem_false : forall n l, mem n l = false -> ~ In n l.
Proof. intros n l H Hin. apply mem_In in Hin. congruence. Qed.

Definition reg_ok (r : registry) : Prop := NoDup (r_names r) /\ incl (r_tables r) (r_names r).

Lemma add_ok : forall r op r', reg_ok r -> add r op = Some r' ->
  reg_ok r' /\ (forall n, In n (r_names r') -> In n (r_names r) \/ op = AddTable n \/ op = AddConstraint (Some n)).
Proof.
  intros r op r' [Hnd Hincl] H. destruct op as [n|[n|]]; cbn in H.
  - destruct (mem n (r_tables r) || mem n (r_names r)) eqn:E; [discriminate|]. inversion H; subst; clear H.
    apply orb_false_iff in E as [_ E]. apply mem_false in E. split.
    + split; cbn; [constructor; auto | intros x [<-|Hx]; [left; auto | right; apply Hincl; auto]].
    + cbn. intros x [<-|Hx]; auto.
  - destruct (mem n (r_names r)) eqn:E; [discriminate|]. inversion H; subst; clear H. apply mem_false in E. split.
    + split; cbn; [constructor; auto | intros x Hx; right; apply Hincl; auto].
    + cbn. intros x [<-|Hx]; auto.
  - inversion H; subst. split; [split; auto | auto].
Qed.

Lemma build_ok : forall ops r r', reg_ok r -> build r ops = Some r' ->
  reg_ok r' /\ (forall n, In n (r_names r') -> In n (r_names r) \/ In (AddTable n) ops \/ In (AddConstraint (Some n)) ops).
Proof.
  induction ops as [|op ops IH]; intros r r' Hok H; cbn in H.
  - inversion H; subst. split; auto.
  - destruct (add r op) as [r1|] eqn:E; [|discriminate].
    destruct (add_ok _ _ _ Hok E) as [Hok1 Hn1]. destruct (IH _ _ Hok1 H) as [Hok' Hn']. split; auto.
    intros n Hn. destruct (Hn' n Hn) as [H1|[H1|H1]].
    + destruct (Hn1 n H1) as [H2|[H2|H2]]; [left; auto | right; left; left; auto | right; right; left; auto].
    + right; left; right; auto.
    + right; right; right; auto.
Qed.

(* every accepted schema: pairwise distinct object names; each name within the limit when its source is bounded *)
Lemma names_distinct_and_bounded : forall d (srcs : list (bool * option name_src)) r,
  build empty_reg (map (op_of d) srcs) = Some r ->
  NoDup (r_names r) /\
  ((forall b s, In (b, Some s) srcs -> bounded_src d s) -> forall n, In n (r_names r) -> length n <= max_len d).
Proof.
  intros d srcs r H.
  assert (Hok0 : reg_ok empty_reg) by (split; cbn; [constructor | intros x []]).
  destruct (build_ok _ _ _ Hok0 H) as [[Hnd _] Hn]. split; auto.
  intros Hb n Hin. destruct (Hn n Hin) as [[]|[H1|H1]].
  - apply in_map_iff in H1. destruct H1 as [[b [s|]] [H1 H2]]; destruct b; cbn in H1; try discriminate.
    inversion H1; subst. apply name_of_bounded. eapply Hb; eauto.
  - apply in_map_iff in H1. destruct H1 as [[b [s|]] [H1 H2]]; destruct b; cbn in H1; try discriminate.
    inversion H1; subst. apply name_of_bounded. eapply Hb; eauto.
Qed.

(* the sequence suffix of a second many-to-many table between the same entities escapes the limit *)
Definition e31 : str := repeat 65%Z 31.
Lemma m2m_seq_refuted : (length (name_of MySQL (M2MSeq e31 e31 2)) > max_len MySQL)%nat.
Proof. vm_compute. lia. Qed.

(* ------------------------------------------------------------------ columns *)
Lemma add_columns_spec : forall cols acc res,
  add_columns acc cols = Some res -> res = acc ++ cols /\ (NoDup (map fst acc) -> NoDup (map fst res)).
Proof.
  induction cols as [|[n nn] cols IH]; intros acc res H; cbn in H.
  - inversion H; subst. rewrite app_nil_r. auto.
  - destruct (mem n (map fst acc)) eqn:E; [discriminate|]. apply mem_false in E.
    destruct (IH _ _ H) as [H1 H2]. split.
    + rewrite H1, <- app_assoc. reflexivity.
    + intros Hnd. apply H2. rewrite map_app. cbn.
      clear - Hnd E. induction (map fst acc) as [|a l IHl]; cbn.
      * constructor; [intros []|constructor].
      * inversion Hnd; subst. constructor.
        -- rewrite in_app_iff. intros [H|[H|[]]]; [contradiction | subst; apply E; left; auto].
        -- apply IHl; auto. intros H; apply E; right; auto.
Qed.

Lemma columns_spec : forall attrs cols,
  build_columns attrs = Some cols ->
  cols = table_columns attrs /\ NoDup (map fst cols) /\
  length cols = fold_right (fun a n => length (a_cols a) + n) 0 attrs.
Proof.
  intros attrs cols H. unfold build_columns in H. destruct (add_columns_spec _ _ _ H) as [H1 H2]. cbn in H1.
  split; auto. split; [apply H2; constructor|]. subst. clear.
  unfold table_columns. induction attrs as [|a attrs IH]; cbn; auto.
  rewrite app_length, map_length. cbn in IH. rewrite IH. reflexivity.
Qed.

(* ------------------------------------------------------------------ order_tables_to_create *)
Lemma find_split_some : forall created l pre a t b,
  find_split created pre l = Some (a, t, b) -> pre ++ l = a ++ t :: b /\ ready created t = true.
Proof.
  induction l as [|x l IH]; intros pre a t b H; cbn in H; [discriminate|].
  destruct (ready created x) eqn:E.
  - inversion H; subst. auto.
  - apply IH in H. rewrite <- app_assoc in H. exact H.
Qed.

Lemma find_split_none : forall created l pre, find_split created pre l = None -> forall t, In t l -> ready created t = false.
Proof.
  induction l as [|x l IH]; intros pre H t Hin; [destruct Hin|]. cbn in H.
  destruct (ready created x) eqn:E; [discriminate|]. destruct Hin as [<-|Hin]; auto. eapply IH; eauto.
Qed.

Lemma order_unfold : forall f todo created, todo <> [] ->
  order (S f) todo created =
  match find_split created [] todo with
  | Some (pre, t, post) => t :: order f (pre ++ post) (tid t :: created)
  | None => last todo dummy_tbl :: order f (removelast todo) created
  end.
Proof. intros f todo created H. destruct todo; [contradiction | reflexivity]. Qed.

Lemma order_perm : forall fuel todo created, length todo <= fuel -> Permutation (order fuel todo created) todo.
Proof.
  induction fuel as [|f IH]; intros todo created Hl.
  - destruct todo; [constructor | cbn in Hl; lia].
  - destruct (list_eq_dec Nat.eq_dec (map tid todo) []) as [Hnil|Hnn].
    + destruct todo; [constructor | discriminate].
    + assert (Hne : todo <> []) by (intros ->; apply Hnn; reflexivity).
      rewrite order_unfold by auto.
      destruct (find_split created [] todo) as [[[pre t] post]|] eqn:E.
      * apply find_split_some in E. destruct E as [E _]. cbn in E. rewrite E.
        apply Permutation_cons_app. apply IH. rewrite E in Hl. rewrite app_length in *. cbn in Hl. lia.
      * pose proof (app_removelast_last dummy_tbl Hne) as Hsplit.
        apply perm_trans with (last todo dummy_tbl :: removelast todo).
        -- constructor. apply IH. rewrite Hsplit in Hl. rewrite app_length in Hl. cbn in Hl. lia.
        -- rewrite Hsplit at 3. apply Permutation_cons_append.
Qed.

Lemma nmem_In : forall n l, nmem n l = true -> In n l.
Proof. intros n l H. unfold nmem in H. apply existsb_exists in H. destruct H as [x [H1 H2]]. apply Nat.eqb_eq in H2. subst; auto. Qed.
Lemma In_nmem : forall n l, In n l -> nmem n l = true.
Proof. intros n l H. unfold nmem. apply existsb_exists. exists n. split; auto. apply Nat.eqb_refl. Qed.

Lemma exists_min : forall (f : tbl -> nat) l, l <> [] -> exists m, In m l /\ forall x, In x l -> f m <= f x.
Proof.
  induction l as [|a l IH]; intros H; [contradiction|].
  destruct l as [|b l'].
  - exists a. split; [left; auto|]. intros x [<-|[]]. lia.
  - destruct IH as [m [Hm Hmin]]; [discriminate|].
    destruct (le_lt_dec (f a) (f m)).
    + exists a. split; [left; auto|]. intros x [<-|Hx]; [lia|]. specialize (Hmin x Hx). lia.
    + exists m. split; [right; auto|]. intros x [<-|Hx]; [lia | auto].
Qed.

Section Acyclic.
  Variable rank : nat -> nat.

  Definition closed (todo : list tbl) (created : list nat) : Prop :=
    forall t, In t todo -> forall p, In p (parents t) -> In p created \/ In p (map tid todo).
  Definition ranked (todo : list tbl) : Prop :=
    forall t, In t todo -> forall p, In p (parents t) -> rank p < rank (tid t).

  Lemma some_ready : forall todo created, todo <> [] -> closed todo created -> ranked todo ->
    find_split created [] todo <> None.
  Proof.
    intros todo created Hne Hc Hr Hnone.
    destruct (exists_min (fun t => rank (tid t)) todo Hne) as [m [Hm Hmin]].
    pose proof (find_split_none _ _ _ Hnone m Hm) as Hnr.
    assert (ready created m = true); [|congruence].
    unfold ready. apply forallb_forall. intros p Hp.
    destruct (Hc m Hm p Hp) as [H|H]; [apply In_nmem; auto|].
    apply in_map_iff in H. destruct H as [t' [Ht1 Ht2]]. specialize (Hmin t' Ht2). specialize (Hr m Hm p Hp). subst p. lia.
  Qed.

  Lemma order_parents_first : forall fuel todo created,
    length todo <= fuel -> closed todo created -> ranked todo ->
    forall a t b, order fuel todo created = a ++ t :: b ->
    forall p, In p (parents t) -> In p created \/ In p (map tid a).
  Proof.
    induction fuel as [|f IH]; intros todo created Hl Hc Hr a t b Heq p Hp.
    - cbn in Heq. destruct a; discriminate.
    - destruct todo as [|x todo'] eqn:Htodo; [cbn in Heq; destruct a; discriminate|]. rewrite <- Htodo in *.
      assert (Hne : todo <> []) by (subst; discriminate).
      rewrite order_unfold in Heq by auto.
      destruct (find_split created [] todo) as [[[pre t0] post]|] eqn:E; [|exfalso; eapply some_ready; eauto].
      apply find_split_some in E. destruct E as [E Hready]. cbn in E.
      destruct a as [|a0 a'].
      + cbn in Heq. inversion Heq; subst t0. left. apply nmem_In. unfold ready in Hready. rewrite forallb_forall in Hready. auto.
      + cbn in Heq. inversion Heq as [[H0 H1]]. subst a0.
        assert (Hc' : closed (pre ++ post) (tid t0 :: created)).
        { intros t' Ht' q Hq. assert (In t' todo) by (rewrite E; apply in_app_or in Ht'; apply in_or_app; destruct Ht'; [left|right; right]; auto).
          destruct (Hc t' H q Hq) as [H2|H2]; [left; right; auto|].
          rewrite E in H2. rewrite map_app in H2. cbn in H2. apply in_app_or in H2. rewrite map_app.
          destruct H2 as [H2|[H2|H2]]; [right; apply in_or_app; left; auto | left; left; auto | right; apply in_or_app; right; auto]. }
        assert (Hr' : ranked (pre ++ post)).
        { intros t' Ht'. apply Hr. rewrite E. apply in_app_or in Ht'. apply in_or_app. destruct Ht'; [left|right; right]; auto. }
        assert (Hl' : length (pre ++ post) <= f) by (rewrite E in Hl; rewrite app_length in *; cbn in Hl; lia).
        destruct (IH _ _ Hl' Hc' Hr' _ _ _ H1 p Hp) as [[H2|H2]|H2].
        * right. left. auto.
        * left. auto.
        * right. right. auto.
  Qed.
End Acyclic.

Lemma order_tables_parents_first : forall (rank : nat -> nat) l,
  (forall t, In t l -> forall p, In p (parents t) -> In p (map tid l) /\ rank p < rank (tid t)) ->
  forall a t b, order_tables l = a ++ t :: b -> forall p, In p (parents t) -> In p (map tid a).
Proof.
  intros rank l H a t b Heq p Hp. unfold order_tables in Heq.
  destruct (order_parents_first rank (length l) l [] (le_n _)) with (a := a) (t := t) (b := b) (p := p) as [[]|H1]; auto.
  - intros t' Ht' q Hq. right. apply (H t' Ht' q Hq).
  - intros t' Ht' q Hq. apply (H t' Ht' q Hq).
Qed.

Lemma order_tables_perm : forall l, Permutation (order_tables l) l.
Proof. intros. apply order_perm. auto. Qed.
