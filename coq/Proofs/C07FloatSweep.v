(* C07: the larger exhaustive sweeps of the float timedelta model (about 2.5 minutes of vm_compute; required by Findings/C07.v only). *)
Require Import PonyV.Model.C07Float.

(* every whole-second timedelta with -30 <= days < 30 (5,184,000 values) is read back exactly *)
Lemma td_float_whole_seconds_exact_30 : exact_whole_seconds_30 = true.
Proof. vm_compute. reflexivity. Qed.

Lemma td_float_microseconds_exact_far : exact_microseconds_far = true.
Proof. vm_compute. reflexivity. Qed.
