(* C07: exactness of SQLite's float storage of timedelta on a finite, completely enumerated sub-domain, and witnesses for the
   remainder.  The statements are closed boolean computations over Coq's primitive floats / 63-bit integers, checked by
   vm_compute; `Print Assumptions` lists exactly those primitives (Coq reports primitive types and operations as axioms), which
   is why these statements are not among the property theorems of Props/C07.v. *)
From Coq Require Import ZArith List Bool PrimFloat Uint63.
Require Import PonyV.Model.C07Float.

(* every whole-second timedelta with -30 <= days < 30 (5,184,000 values) is read back exactly *)
Theorem td_float_whole_seconds_exact : whole_seconds_exact 30 = true.
Proof. vm_compute. reflexivity. Qed.

(* every microsecond value (10^6 each) in: the first second of day 0, the last second of day 0, the last second of day 29,
   the last second of day 20000 (~54 years), and of day -1 *)
Theorem td_float_microseconds_exact :
  microseconds_exact false 0 0 = true /\ microseconds_exact false 0 86399 = true /\ microseconds_exact false 29 86399 = true
  /\ microseconds_exact false 20000 86399 = true /\ microseconds_exact true 1 0 = true.
Proof. repeat split; vm_compute; reflexivity. Qed.

(* the remainder: timedelta(days=1000000, microseconds=1) loses its microsecond (known finding sqlite-timedelta-float-precision) *)
Theorem td_float_precision_refuted : td_float_exact false 1000000 0 1 = false.
Proof. vm_compute. reflexivity. Qed.

(* ... and already timedelta(days=77680, seconds=35904, microseconds=138270) does *)
Theorem td_float_precision_refuted_small : td_float_exact false 77680 35904 138270 = false.
Proof. vm_compute. reflexivity. Qed.
