(* C07: exactness of SQLite's float storage of timedelta on finite, completely enumerated sub-domains, and witnesses for the
   remainder.  Closed boolean computations over Coq's primitive floats / 63-bit integers, checked by vm_compute; Print Assumptions
   lists exactly those kernel primitives (the PrimFloat and PrimInt63 operations).  The larger sweeps are in C07FloatSweep.v. *)
Require Import PonyV.Model.C07Float.

Lemma td_float_whole_seconds_exact_3 : exact_whole_seconds_3 = true.
Proof. vm_compute. reflexivity. Qed.

Lemma td_float_microseconds_exact_day0 : exact_microseconds_day0 = true.
Proof. vm_compute. reflexivity. Qed.

Lemma td_float_precision_refuted : exact_1e6_days_1us = false.
Proof. vm_compute. reflexivity. Qed.

Lemma td_float_precision_refuted_small : exact_77680_days = false.
Proof. vm_compute. reflexivity. Qed.
