(* C19 / C17 / C35 - symbolic-execution proofs, part 2: statement execution, SessionCache.close, provider.commit. *)
From Coq Require Import List Bool Arith Lia.
Import ListNotations.
Require Import PonyV.Model.C19Txn PonyV.Proofs.C19Base.

Section S.
Variable oracle : nat -> bool.

(* the tail of Database._exec_sql: connection.cursor(); provider.execute(...); if cache.immediate: cache.in_transaction = True *)
Definition exec_tail (many : bool) (q : stmt) : M :=
  (fun s => (try_except (dbcall oracle KCursor (k_id s)) (fun _ => raise EDrv) ;; dbcall oracle (stmt_call many q) (k_id s)) s) ;;
  (fun s => when (k_imm s) (upd (set_k_intxn true)) s).

Lemma exec_tail_spec : forall many q s, WF s -> (q = SSelect \/ (q = SWrite /\ k_imm s = true)) ->
  k_has s = true -> k_reg s = true -> (k_imm s = true -> k_intxn s = true) ->
  match exec_tail many q s with
  | (Blocked, _) => other s = true
  | (r, s') => WF s' /\ Ext s s' /\ KF s s' /\ k_has s' = true /\ k_intxn s' = k_intxn s
  end.
Proof.
  intros many q. destruct_st. intros [[? ? ? ? ? ? ? ? ? ? ? ? ?] ? ?] Hq ? ? ?.
  unfold KF, exec_tail. unfold_all.
  destruct many; destruct Hq as [-> | [-> ?]]; run.
  all: try reflexivity.
  all: split; [wf_tac | split; [ext_tac | norm; auto]].
  all: finish.
Qed.

(* SessionCache.close(rollback): provider.rollback (drop on failure), provider.release (foreign-key restore for ddl sessions,
   Pool.release or drop).  Also from the state left by a failed COMMIT. *)
Lemma cache_close_spec : forall rb s, WFw s -> k_reg s = true -> (rb = true \/ k_intxn s = false) ->
  (k_has s = false -> k_forupd s = 0) ->
  match cache_close oracle rb s with
  | (Blocked, _) => other s = true
  | (r, s') => WF s' /\ Ext s s' /\ k_reg s' = false /\ k_has s' = false /\ k_intxn s' = false
  end.
Proof.
  intros rb. destruct_st. intros [? ? ? ? ? ? ? ? ? ? ? ? ?] ? Hrb ?.
  unfold_all.
  destruct Hrb as [-> | ?]; run.
  all: try reflexivity.
  all: split; [wf_tac | split; [ext_tac | norm; auto]].
  all: finish.
Qed.
End S.
