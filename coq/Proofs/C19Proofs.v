(* C19 / C17 / C35 - composition: from the symbolically executed blocks to every operation, every session body, every
   sequence of sessions and every schedule of threads. *)
From Coq Require Import List Bool Arith Lia.
Import ListNotations.
Require Import PonyV.Model.C19Txn PonyV.Proofs.C19Base PonyV.Proofs.C19Crunch PonyV.Proofs.C19Crunch2 PonyV.Proofs.C19Crunch3.

(* use a spec `L : match f s with ... end`: case on the outcome of f s everywhere *)
Ltac use L :=
  let H := fresh "H" in
  pose proof L as H;
  match type of H with
  | match ?e with _ => _ end =>
      let r := fresh "r" in let s' := fresh "s" in let E := fresh "E" in
      destruct e as [r s'] eqn:E; destruct r
  end.

Ltac dest := repeat match goal with H : _ /\ _ |- _ => destruct H | H : exists _, _ |- _ => destruct H end.
Ltac splits := repeat match goal with |- _ /\ _ => split end.
Ltac rw_fields := repeat match goal with H : ?p ?a = ?p ?b |- _ => is_var a; is_var b; rewrite H in *; clear H end.
Ltac fin := dest; splits; eauto; try congruence; try lia; try discriminate.

Lemma Ext_other : forall s s', Ext s s' -> other s' = other s.
Proof. intros s s' H. apply H. Qed.

(* WF only mentions `lock` in w_lock; states that differ in the cache fields below *)
Lemma WF_set_imm_true : forall s, WF s -> WF (set_k_imm true s).
Proof. destruct_st. intros [[? ? ? ? ? ? ? ? ? ? ? ? ?] ? ?]. wf_tac. Qed.
Lemma Ext_set_imm : forall b s, Ext s (set_k_imm b s).
Proof. intros b. destruct_st. ext_tac. constructor. Qed.

Lemma WF_set_pending : forall v s, WF s -> WF (set_k_pending v s).
Proof. intros v. destruct_st. intros [[? ? ? ? ? ? ? ? ? ? ? ? ?] ? ?]. wf_tac. Qed.
Lemma Ext_set_pending : forall v s, Ext s (set_k_pending v s).
Proof. intros v. destruct_st. ext_tac. constructor. Qed.
Lemma WF_flush_mark : forall s, WF s -> WF (flush_mark s).
Proof. destruct_st. intros [[? ? ? ? ? ? ? ? ? ? ? ? ?] ? ?]. unfold flush_mark. wf_tac. Qed.
Lemma Ext_flush_mark : forall s, Ext s (flush_mark s).
Proof. destruct_st. unfold flush_mark. ext_tac. constructor. Qed.
Lemma WF_set_saved : forall b s, WF s -> WF (set_k_saved b s).
Proof. intros b. destruct_st. intros [[? ? ? ? ? ? ? ? ? ? ? ? ?] ? ?]. wf_tac. Qed.
Lemma Ext_set_saved : forall b s, Ext s (set_k_saved b s).
Proof. intros b. destruct_st. ext_tac. constructor. Qed.
Lemma WF_set_imm_back : forall b s, WF s -> k_intxn s = false -> (k_reg s = true -> shape_imm (sess s) = true -> b = true) -> WF (set_k_imm b s).
Proof. intros b. destruct_st. intros [[? ? ? ? ? ? ? ? ? ? ? ? ?] ? ?] ? ?. norm. wf_tac. Qed.

Section S.
Variable oracle : nat -> bool.

Lemma get_cache_spec : forall s, WF s ->
  exists s', get_cache s = (Ok, s') /\ WF s' /\ Ext s s' /\ k_reg s' = true /\ (k_reg s = true -> s' = s) /\
             (k_reg s = false -> k_has s' = false /\ k_imm s' = shape_imm (sess s) /\ k_pending s' = 0 /\ k_forupd s' = 0).
Proof.
  destruct_st. intros [[? ? ? ? ? ? ? ? ? ? ? ? ?] ? ?]. unfold get_cache. norm. destruct k_reg; norm; simp_hyps.
  - eexists. split; [reflexivity|]. split; [wf_tac|]. split; [ext_tac; constructor|]. repeat split; auto; discriminate.
  - eexists. split; [reflexivity|]. split; [wf_tac; finish|]. split; [ext_tac; try constructor; finish|]. norm. repeat split; auto; discriminate.
Qed.

Lemma prepare_nf_spec : forall s, WF s -> k_reg s = true ->
  match prepare_nf oracle s with
  | (Blocked, _) => other s = true
  | (r, s') => WF s' /\ Ext s s' /\ KF s s' /\ (k_has s = true -> k_has s' = true) /\
               match r with Ok => k_has s' = true /\ (k_imm s' = true -> k_intxn s' = true) | _ => True end
  end.
Proof.
  intros s Hwf Hreg. unfold prepare_nf.
  destruct (k_has s) eqn:Hhas; cbn [negb].
  - destruct (k_imm s) eqn:Himm; cbn [andb].
    + destruct (k_intxn s) eqn:Hin; cbn [negb].
      * unfold KF. fin. apply Ext_refl.
      * use (stm_spec oracle s Hwf Hhas Himm Hin Hreg); fin.
    + unfold KF. fin. apply Ext_refl.
  - use (cache_connect_spec oracle s Hwf Hhas Hreg); fin.
Qed.

(* what _exec_sql needs from prepare_connection_for_query_execution (with or without its final flush) *)
Definition PrepSpec (P : nat -> nat -> Prop) (prep : M) : Prop := forall s, WF s -> k_reg s = true ->
  match prep s with
  | (Blocked, _) => other s = true
  | (r, s') => WF s' /\ Ext s s' /\ k_reg s' = true /\ (k_imm s = true -> k_imm s' = true) /\ k_forupd s' = k_forupd s /\
               P (k_pending s) (k_pending s') /\ (k_has s = true -> k_has s' = true) /\
               match r with Ok => k_has s' = true /\ (k_imm s' = true -> k_intxn s' = true) | _ => True end
  end.

Lemma prepare_nf_prep : PrepSpec eq (prepare_nf oracle).
Proof.
  intros s Hwf Hreg. use (prepare_nf_spec s Hwf Hreg); unfold KF in *; fin.
Qed.

Lemma exec_with_spec : forall P prep start many q, PrepSpec P prep ->
  forall s, WF s -> (q = SSelect \/ (q = SWrite /\ (start = true \/ (k_reg s = true /\ k_imm s = true)))) ->
  match exec_with oracle prep start many q s with
  | (Blocked, _) => other s = true
  | (r, s') => WF s' /\ Ext s s' /\ k_reg s' = true /\
      (k_reg s = true -> k_forupd s' = k_forupd s /\ P (k_pending s) (k_pending s') /\ (k_imm s = true -> k_imm s' = true) /\
                         (k_has s = true -> k_has s' = true)) /\
      (k_reg s = false -> k_forupd s' = 0 /\ P 0 (k_pending s')) /\
      (start = true -> k_imm s' = true) /\
      match r with Ok => k_has s' = true /\ (k_imm s' = true -> k_intxn s' = true) | _ => True end
  end.
Proof.
  intros P prep start many q Hprep s Hwf Hq.
  change (exec_with oracle prep start many q) with (get_cache ;; when start (upd (set_k_imm true)) ;; prep ;; exec_tail oracle many q).
  unfold bind.
  destruct (get_cache_spec s Hwf) as (s1 & -> & Hwf1 & Hx1 & Hreg1 & Hsame & Hfresh).
  set (s2 := if start then set_k_imm true s1 else s1).
  assert (Hs2 : when start (upd (set_k_imm true)) s1 = (Ok, s2)) by (unfold when, upd, ret, s2; destruct start; reflexivity).
  rewrite Hs2.
  assert (Hwf2 : WF s2) by (unfold s2; destruct start; auto using WF_set_imm_true).
  assert (Hx2 : Ext s1 s2) by (unfold s2; destruct start; auto using Ext_set_imm, Ext_refl).
  assert (Hreg2 : k_reg s2 = true) by (unfold s2; destruct start; auto).
  assert (Hf2 : k_forupd s2 = k_forupd s1 /\ k_pending s2 = k_pending s1 /\ k_has s2 = k_has s1 /\ (k_imm s1 = true -> k_imm s2 = true) /\ (start = true -> k_imm s2 = true))
    by (unfold s2; destruct start; repeat split; auto; discriminate).
  destruct Hf2 as (Hf2a & Hf2b & Hf2c & Hf2d & Hf2e).
  assert (Hx02 : Ext s s2) by eauto using Ext_trans.
  assert (Hcase : (k_reg s = true /\ s1 = s) \/ (k_reg s = false /\ k_pending s1 = 0 /\ k_forupd s1 = 0)).
  { destruct (k_reg s) eqn:Hr; [left; auto | right; destruct (Hfresh eq_refl) as (? & ? & ? & ?); auto]. }
  clear Hsame Hfresh.
  use (Hprep s2 Hwf2 Hreg2).
  - destruct H as (Hwf3 & Hx3 & Hreg3 & Himm3 & Hfu3 & HP3 & Hhas3 & Hhas3' & Hin3).
    assert (Hq' : q = SSelect \/ (q = SWrite /\ k_imm s0 = true)).
    { destruct Hq as [?|[? [?|[Hr Hi]]]]; auto; right; split; auto; apply Himm3.
      destruct Hcase as [[_ ->]|[Hr' _]]; [auto | congruence]. }
    use (exec_tail_spec oracle many q s0 Hwf3 Hq' Hhas3' Hreg3 Hin3).
    1-2: destruct H as (Hwf4 & Hx4 & (Hk1 & Hk2 & Hk3 & Hk4) & Hhas4 & Hin4);
         assert (Hx04 : Ext s s3) by eauto using Ext_trans;
         destruct Hcase as [[Hr ->]|(Hr & Hp0 & Hf0)]; rewrite Hr; rw_fields;
         repeat (splits; intros); try discriminate; auto; try congruence.
    rewrite (Ext_other _ _ Hx3), (Ext_other _ _ Hx02) in H. exact H.
  - destruct H as (Hwf3 & Hx3 & Hreg3 & Himm3 & Hfu3 & HP3 & Hhas3 & _).
    assert (Hx03 : Ext s s0) by eauto using Ext_trans.
    destruct Hcase as [[Hr ->]|(Hr & Hp0 & Hf0)]; rewrite Hr; rw_fields;
      repeat (splits; intros); try discriminate; auto; try congruence.
  - rewrite (Ext_other _ _ Hx02) in H. exact H.
Qed.

Lemma flush_loop_spec : forall n s, WF s -> k_reg s = true -> k_imm s = true ->
  match flush_loop oracle n s with
  | (Blocked, _) => other s = true
  | (r, s') => WF s' /\ Ext s s' /\ k_reg s' = true /\ k_imm s' = true /\ k_forupd s' = k_forupd s /\
               (k_has s = true -> k_has s' = true) /\
               match r with
               | Ok => k_pending s' = k_pending s - n /\ (k_intxn s = true -> k_intxn s' = true) /\
                       (0 < n -> k_intxn s' = true /\ k_has s' = true)
               | _ => True
               end
  end.
Proof.
  induction n as [|n IH]; intros s Hwf Hreg Himm.
  - cbn. splits; auto using Ext_refl; try lia.
  - cbn [flush_loop]. unfold bind, try_except.
    use (exec_with_spec eq (prepare_nf oracle) true false SWrite prepare_nf_prep s Hwf (or_intror (conj eq_refl (or_introl eq_refl)))).
    + destruct H as (Hwf1 & Hx1 & Hreg1 & Hfr & _ & Himm1 & Hhas1 & Hin1).
      destruct (Hfr Hreg) as (Hfu1 & Hp1 & _ & Hh1).
      unfold upd at 1.
      set (s1 := flush_mark s0).
      assert (Hs1 : k_forupd s1 = k_forupd s0 /\ k_pending s1 = pred (k_pending s0) /\ k_has s1 = k_has s0 /\ k_intxn s1 = k_intxn s0)
        by (repeat split).
      destruct Hs1 as (Hs1a & Hs1b & Hs1c & Hs1d).
      assert (Hwf2 : WF s1) by (apply WF_flush_mark; exact Hwf1).
      assert (Hx2 : Ext s0 s1) by apply Ext_flush_mark.
      assert (Hreg2 : k_reg s1 = true) by exact Hreg1.
      assert (Himm2 : k_imm s1 = true) by (apply Himm1; reflexivity).
      use (IH s1 Hwf2 Hreg2 Himm2).
      * destruct H as (Hwf3 & Hx3 & Hreg3 & Himm3 & Hfu3 & Hhas3 & Hp3 & Hin3 & _).
        assert (Hin0 : k_intxn s0 = true) by (apply Hin1; apply Himm1; reflexivity).
        clearbody s1.
        splits; eauto using Ext_trans; try congruence; try lia.
        -- intros _. split; [apply Hin3|apply Hhas3]; congruence.
      * destruct H as (Hwf3 & Hx3 & Hreg3 & Himm3 & Hfu3 & Hhas3 & _).
        clearbody s1.
        splits; eauto using Ext_trans; try congruence.
      * rewrite (Ext_other _ _ Hx2), (Ext_other _ _ Hx1) in H. exact H.
    + destruct H as (Hwf1 & Hx1 & Hreg1 & Hfr & _ & Himm1 & _).
      destruct (Hfr Hreg) as (Hfu1 & Hp1 & _ & Hh1).
      unfold raise. splits; auto.
    + exact H.
Qed.

Lemma WF_clear_flush : forall s, WF s -> WF (set_k_mrem false (set_k_madd false (set_k_saved false s))).
Proof. destruct_st. intros [[? ? ? ? ? ? ? ? ? ? ? ? ?] ? ?]. wf_tac. Qed.
Lemma Ext_clear_flush : forall s, Ext s (set_k_mrem false (set_k_madd false (set_k_saved false s))).
Proof. destruct_st. ext_tac. constructor. Qed.

(* one executemany on the link table inside flush (cache.immediate is True there) *)
Lemma exec_m2m_spec : forall s, WF s -> k_reg s = true -> k_imm s = true ->
  match exec_m2m oracle s with
  | (Blocked, _) => other s = true
  | (r, s') => WF s' /\ Ext s s' /\ k_reg s' = true /\ k_imm s' = true /\ k_forupd s' = k_forupd s /\
               k_pending s' = k_pending s /\ (k_has s = true -> k_has s' = true) /\
               match r with Ok => k_has s' = true /\ k_intxn s' = true | _ => True end
  end.
Proof.
  intros s Hwf Hreg Himm. unfold exec_m2m.
  use (exec_with_spec eq (prepare_nf oracle) false true SWrite prepare_nf_prep s Hwf
         (or_intror (conj eq_refl (or_intror (conj Hreg Himm))))).
  - destruct H as (? & ? & ? & Hfr & _ & _ & ? & Hin). destruct (Hfr Hreg) as (? & ? & Hi & ?). splits; auto.
  - destruct H as (? & ? & ? & Hfr & _ & _ & _). destruct (Hfr Hreg) as (? & ? & Hi & ?). splits; auto.
  - exact H.
Qed.

Definition FlushPost (s : st) (r : res) (s' : st) : Prop :=
  WF s' /\ Ext s s' /\ k_reg s' = true /\ k_imm s' = true /\ k_forupd s' = k_forupd s /\ (k_has s = true -> k_has s' = true) /\
  match r with
  | Ok => k_pending s' = 0 /\ (k_intxn s = true -> k_intxn s' = true) /\ (modified s = true -> k_intxn s' = true /\ k_has s' = true)
  | _ => True
  end.

Lemma flush_body_spec : forall s, WF s -> k_reg s = true -> k_imm s = true ->
  match flush_body oracle s with
  | (Blocked, _) => other s = true
  | (r, s') => FlushPost s r s'
  end.
Proof.
  intros s Hwf Hreg Himm. unfold flush_body. unfold bind at 1.
  (* step 1: removed links *)
  assert (H1 : match when (k_mrem s) (exec_m2m oracle) s with
               | (Blocked, _) => other s = true
               | (r, s1) => WF s1 /\ Ext s s1 /\ k_reg s1 = true /\ k_imm s1 = true /\ k_forupd s1 = k_forupd s /\
                            k_pending s1 = k_pending s /\ (k_has s = true -> k_has s1 = true) /\
                            match r with Ok => (k_intxn s = true -> k_intxn s1 = true) /\ (k_mrem s = true -> k_intxn s1 = true /\ k_has s1 = true) /\
                                               (k_mrem s = false -> s1 = s)
                                    | _ => True end
               end).
  { destruct (k_mrem s) eqn:Hm; cbn [when].
    - use (exec_m2m_spec s Hwf Hreg Himm); dest; splits; auto; discriminate.
    - unfold ret. splits; auto using Ext_refl; discriminate. }
  destruct (when (k_mrem s) (exec_m2m oracle) s) as [r1 s1]. destruct r1; [| unfold FlushPost; dest; splits; auto | exact H1].
  destruct H1 as (Hwf1 & Hx1 & Hreg1 & Himm1 & Hfu1 & Hp1 & Hh1 & Hi1 & Hm1 & Hsame1).
  unfold bind at 1.
  use (flush_loop_spec (k_pending s1) s1 Hwf1 Hreg1 Himm1).
  3: { rewrite (Ext_other _ _ Hx1) in H. exact H. }
  2: { unfold FlushPost. dest. splits; eauto using Ext_trans; try congruence. }
  destruct H as (Hwf2 & Hx2 & Hreg2 & Himm2 & Hfu2 & Hh2 & Hp2 & Hi2 & Hpos2).
  assert (Hx02 : Ext s s0) by eauto using Ext_trans.
  unfold bind at 1.
  assert (H3 : match when (k_madd s0) (exec_m2m oracle) s0 with
               | (Blocked, _) => other s0 = true
               | (r, s3) => WF s3 /\ Ext s0 s3 /\ k_reg s3 = true /\ k_imm s3 = true /\ k_forupd s3 = k_forupd s0 /\
                            k_pending s3 = k_pending s0 /\ (k_has s0 = true -> k_has s3 = true) /\
                            match r with Ok => (k_intxn s0 = true -> k_intxn s3 = true) /\ (k_madd s0 = true -> k_intxn s3 = true /\ k_has s3 = true)
                                    | _ => True end
               end).
  { destruct (k_madd s0) eqn:Hm; cbn [when].
    - use (exec_m2m_spec s0 Hwf2 Hreg2 Himm2); dest; splits; auto.
    - unfold ret. splits; auto using Ext_refl; discriminate. }
  destruct (when (k_madd s0) (exec_m2m oracle) s0) as [r3 s3]. destruct r3.
  - destruct H3 as (Hwf3 & Hx3 & Hreg3 & Himm3 & Hfu3 & Hp3 & Hh3 & Hi3 & Hm3).
    unfold upd. unfold FlushPost.
    set (s4 := set_k_mrem false (set_k_madd false (set_k_saved false s3))).
    assert (Hs4 : k_reg s4 = k_reg s3 /\ k_imm s4 = k_imm s3 /\ k_forupd s4 = k_forupd s3 /\ k_has s4 = k_has s3 /\
                  k_pending s4 = k_pending s3 /\ k_intxn s4 = k_intxn s3) by (repeat split).
    destruct Hs4 as (A1 & A2 & A3 & A4 & A5 & A6).
    assert (Hwf4 : WF s4) by (apply WF_clear_flush; exact Hwf3).
    assert (Hx4 : Ext s3 s4) by apply Ext_clear_flush.
    clearbody s4.
    splits; eauto using Ext_trans; try congruence.
    + rewrite A5, Hp3, Hp2. lia.
    + intros Hmod. rewrite A6, A4.
      assert (Hmid : k_intxn s0 = true /\ k_has s0 = true \/ (k_mrem s = false /\ k_pending s = 0 /\ k_madd s = true /\ s0 = s1 /\ s1 = s)).
      { unfold modified in Hmod. destruct (k_mrem s) eqn:Em.
        - destruct (Hm1 eq_refl) as (? & ?). left. split; auto.
        - specialize (Hsame1 eq_refl). destruct (k_pending s) eqn:Ep.
          + cbn in Hmod. right. subst s1. rewrite Ep in E. cbn in E. inversion E. repeat split; auto; congruence.
          + left. apply Hpos2. rewrite Hp1. lia. }
      destruct Hmid as [(Hi0 & Hh0) | (_ & _ & Hma & -> & ->)].
      * split; auto.
      * apply Hm3. exact Hma.
  - unfold FlushPost. destruct H3 as (? & ? & ? & ? & ? & ? & ? & _). splits; eauto using Ext_trans; try congruence.
  - rewrite (Ext_other _ _ Hx02) in H3. exact H3.
Qed.

Lemma cache_flush_spec : forall s, WF s -> k_reg s = true ->
  match cache_flush oracle s with
  | (Blocked, _) => other s = true
  | (r, s') => WF s' /\ Ext s s' /\ k_reg s' = true /\ k_forupd s' = k_forupd s /\
               (k_imm s = true -> k_imm s' = true) /\ (k_has s = true -> k_has s' = true) /\
               match r with
               | Ok => k_pending s' = 0 /\ (k_intxn s = true -> k_intxn s' = true) /\
                       (modified s = true -> k_intxn s' = true /\ k_has s' = true)
               | _ => True
               end
  end.
Proof.
  intros s Hwf Hreg. unfold cache_flush. destruct (k_saved s) eqn:Hsaved.
  { splits; auto using Ext_refl. }
  unfold bind, try_finally. unfold upd at 1.
  set (s1 := set_k_imm true s).
  assert (Hs1 : k_forupd s1 = k_forupd s /\ k_pending s1 = k_pending s /\ k_has s1 = k_has s /\ k_intxn s1 = k_intxn s /\
                k_reg s1 = k_reg s /\ k_imm s1 = true /\ modified s1 = modified s) by (repeat split).
  destruct Hs1 as (Ha & Hb & Hc & Hd & He & Hf & Hg).
  assert (Hwf1 : WF s1) by (apply WF_set_imm_true; exact Hwf).
  assert (Hx1 : Ext s s1) by apply Ext_set_imm.
  assert (Hsimm : k_reg s = true -> shape_imm (sess s) = true -> k_imm s = true) by (apply Hwf).
  clearbody s1.
  assert (Hreg1 : k_reg s1 = true) by congruence.
  use (flush_body_spec s1 Hwf1 Hreg1 Hf).
  3: { rewrite (Ext_other _ _ Hx1) in H. exact H. }
  all: destruct H as (Hwf2 & Hx2 & Hreg2 & Himm2 & Hfu2 & Hhas2 & Hrest);
       assert (Hsess : sess s0 = sess s) by (rewrite (x_sess _ _ Hx2), (x_sess _ _ Hx1); reflexivity);
       destruct (k_intxn s0) eqn:Hin2.
  all: try (assert (Hwf3 : WF (set_k_imm (k_imm s) s0))
              by (apply WF_set_imm_back; auto; intros; apply Hsimm; congruence);
            assert (Hx3 : Ext s0 (set_k_imm (k_imm s) s0)) by apply Ext_set_imm).
  all: dest; splits; eauto using Ext_trans; cbn [set_k_imm k_forupd k_pending k_has k_intxn k_reg k_imm sess]; try congruence; try lia.
  all: try (intros; rewrite <- ?Hg, <- ?Hd in *; intuition (try congruence; try lia)).
Qed.

Lemma prepare_prep : PrepSpec (fun _ _ => True) (prepare oracle).
Proof.
  intros s Hwf Hreg. unfold prepare, bind.
  use (prepare_nf_spec s Hwf Hreg).
  - destruct H as (Hwf1 & Hx1 & (Hk1 & Hk2 & Hk3 & Hk4) & Hhas & Hhas1 & Hin1).
    assert (Hreg1 : k_reg s0 = true) by congruence.
    destruct (modified s0) eqn:Hp; cbn [when].
    + use (cache_flush_spec s0 Hwf1 Hreg1).
      * destruct H as (Hwf2 & Hx2 & Hreg2 & Hfu2 & Himm2 & Hhas2 & Hp2 & Hin2 & Hboth).
        destruct (Hboth Hp). splits; eauto using Ext_trans; try congruence; try (intros; apply Himm2; congruence).
      * destruct H as (Hwf2 & Hx2 & Hreg2 & Hfu2 & Himm2 & Hhas2 & _).
        splits; eauto using Ext_trans; try congruence; try (intros; apply Himm2; congruence).
      * rewrite (Ext_other _ _ Hx1) in H. exact H.
    + unfold ret. splits; auto; try congruence.
  - destruct H as (Hwf1 & Hx1 & (Hk1 & Hk2 & Hk3 & Hk4) & Hhas & _).
    splits; auto; try congruence.
  - exact H.
Qed.

Definition exec_spec start q := exec_with_spec (fun _ _ => True) (prepare oracle) start false q prepare_prep.
End S.
