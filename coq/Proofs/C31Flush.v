(* C31 - to_dict reports the key of every collection member / reported object, pending ones included. *)
Require Import PonyV.Base.PyBase PonyV.Model.C31Codec PonyV.Gen.C31Reduce PonyV.Model.C31Flush.

Section FlushProofs.
Context {K : Type}.
Variable assign : nat -> K.
Variable pk : nat -> option K.

Lemma pk_after_whole scope o : pk_after_flush assign pk true scope o = Some (final_key assign pk o).
Proof. unfold pk_after_flush, final_key. now destruct (pk o). Qed.

Theorem reported_members_final scope members :
  reported_members assign pk scope members = map (fun o => Some (final_key assign pk o)) members.
Proof.
  unfold reported_members. replace to_dict_flushes_session with true by reflexivity.
  apply map_ext. intros o. apply pk_after_whole.
Qed.

Theorem reported_members_no_none scope members : ~ In None (reported_members assign pk scope members).
Proof. rewrite reported_members_final, in_map_iff. intros (o & E & _). discriminate. Qed.

Theorem reported_members_both scope members :
  reported_members assign pk scope members = map (fun o => Some (final_key assign pk o)) members /\
  ~ In None (reported_members assign pk scope members).
Proof. split; [apply reported_members_final | apply reported_members_no_none]. Qed.

Theorem bag_result_keys_final objs :
  bag_result_keys assign pk objs = map (fun o => Some (final_key assign pk o)) objs /\ ~ In None (bag_result_keys assign pk objs).
Proof.
  assert (E : bag_result_keys assign pk objs = map (fun o => Some (final_key assign pk o)) objs).
  { unfold bag_result_keys. replace bag_to_dict_flushes_session with true by reflexivity. apply map_ext. intros o. apply pk_after_whole. }
  split; [exact E|]. rewrite E, in_map_iff. intros (o & E' & _). discriminate.
Qed.

Theorem db_to_json_keys_final objs :
  db_to_json_keys assign pk objs = map (fun o => Some (final_key assign pk o)) objs /\ ~ In None (db_to_json_keys assign pk objs).
Proof.
  assert (E : db_to_json_keys assign pk objs = map (fun o => Some (final_key assign pk o)) objs).
  { unfold db_to_json_keys. replace db_to_json_flushes_session with true by reflexivity. apply map_ext. intros o. apply pk_after_whole. }
  split; [exact E|]. rewrite E, in_map_iff. intros (o & E' & _). discriminate.
Qed.

End FlushProofs.
