(* C03 - round trip on the model for expressions of nesting depth 3: an `or` of `and`s whose operands are literals or
   `or`-clauses of literals (any number of alternatives, conjuncts and literals).  Built on the lemmas of
   C03Roundtrip.v / C03RoundtripCnf.v. *)
From Coq Require Import List Bool Arith Lia Sorted.
Import ListNotations.
Require Import PonyV.Model.C03Bexp PonyV.Model.C03Decomp PonyV.Model.C03Family PonyV.Proofs.C03Checker
               PonyV.Proofs.C03Roundtrip PonyV.Proofs.C03RoundtripCnf.

(* ------------------------------------------------------------------ analyze_jumps, general classification lemma *)
(* S = the jumps that SHOULD be or-jumps.  If (H1) no S-jump to a farther target sits strictly between an S-jump and its
   target, and (H2) every other forward jump has an S-jump to a farther target strictly between itself and its target,
   then or_jumps is exactly S. *)
Lemma fold_add_classified : forall (OS : list nat) js orj p,
  StronglySorted lt js -> (forall j, In j js -> j <= p) ->
  (forall j, In j js -> In j OS -> forall o, In o orj -> ~ (j < o /\ o < p)) ->
  (forall j, In j js -> ~ In j OS -> exists o, In o orj /\ j < o /\ o < p) ->
  forall x, In x (fold_left (add_or_jump p) js orj) <-> In x orj \/ (In x js /\ In x OS).
Proof.
  intros OS js. induction js as [|j r IH]; intros orj p Hs Hle H1 H2 x.
  - cbn [fold_left]. split; [intro H; left; exact H | intros [H|[[] _]]; exact H].
  - inversion Hs as [|? ? Hs' Hall]; subst. cbn [fold_left].
    destruct (in_dec Nat.eq_dec j OS) as [HjS|HjS].
    + assert (Hadd : add_or_jump p orj j = j :: orj).
      { unfold add_or_jump. assert (Hj : j <= p) by (apply Hle; left; reflexivity).
        destruct (Nat.ltb p j) eqn:E; [apply Nat.ltb_lt in E; lia|].
        destruct (existsb (fun o => Nat.ltb j o && Nat.ltb o p) orj) eqn:E2; [|reflexivity].
        apply existsb_exists in E2. destruct E2 as [o [Ho Hc]]. apply andb_true_iff in Hc. destruct Hc as [Hc1 Hc2].
        apply Nat.ltb_lt in Hc1, Hc2. exfalso. apply (H1 j (or_introl eq_refl) HjS o Ho). split; assumption. }
      rewrite Hadd. rewrite IH.
      * split.
        -- intros [[<-|H]|[H H']]; [right; split; [left; reflexivity|exact HjS] | left; exact H | right; split; [right; exact H | exact H']].
        -- intros [H|[[<-|H] H']]; [left; right; exact H | left; left; reflexivity | right; split; assumption].
      * exact Hs'.
      * intros j' Hj'. apply Hle. right. exact Hj'.
      * intros j' Hj' Hj'S o [<-|Ho]; [|apply (H1 j' (or_intror Hj') Hj'S o Ho)].
        rewrite Forall_forall in Hall. specialize (Hall j' Hj'). lia.
      * intros j' Hj' Hn. destruct (H2 j' (or_intror Hj') Hn) as [o [Ho Hb]]. exists o. split; [right; exact Ho | exact Hb].
    + assert (Hadd : add_or_jump p orj j = orj).
      { unfold add_or_jump. destruct (Nat.ltb p j); [reflexivity|].
        destruct (H2 j (or_introl eq_refl) HjS) as [o [Ho [Hb1 Hb2]]].
        assert (E : existsb (fun o => Nat.ltb j o && Nat.ltb o p) orj = true).
        { apply existsb_exists. exists o. split; [exact Ho|]. apply andb_true_iff. split; apply Nat.ltb_lt; assumption. }
        rewrite E. reflexivity. }
      rewrite Hadd. rewrite IH.
      * split.
        -- intros [H|[H H']]; [left; exact H | right; split; [right; exact H | exact H']].
        -- intros [H|[[<-|H] H']]; [left; exact H | contradiction | right; split; assumption].
      * exact Hs'.
      * intros j' Hj'. apply Hle. right. exact Hj'.
      * intros j' Hj' Hj'S o Ho. apply (H1 j' (or_intror Hj') Hj'S o Ho).
      * intros j' Hj' Hn. apply (H2 j' (or_intror Hj') Hn).
Qed.

Lemma jump_at_fun : forall code j t t', jump_at code j t -> jump_at code j t' -> t = t'.
Proof.
  intros code j t t' [k [ins [H1 [H2 H3]]]] [k' [ins' [H1' [H2' H3']]]].
  assert (k = k') by (unfold pos_of in *; lia). subst k'. rewrite H2 in H2'. injection H2' as <-. congruence.
Qed.

Lemma jumps_to_jump_at : forall code k j, In j (jumps_to code (pos_of k)) <-> jump_at code j (pos_of k).
Proof.
  intros code k j. rewrite jumps_to_from, jumps_from_spec. unfold jump_at.
  split; intros [k0 [ins [H1 H2]]]; exists k0, ins; (split; [|exact H2]); rewrite H1; reflexivity.
Qed.

Lemma analyze_classified : forall code (OS : list nat) kb,
  (forall j t, jump_at code j t -> j < t /\ t <= pos_of kb) ->
  (forall j t o t2, jump_at code j t -> In j OS -> jump_at code o t2 -> In o OS -> t < t2 -> ~ (j < o /\ o < t)) ->
  (forall j t, jump_at code j t -> ~ In j OS -> exists o t2, jump_at code o t2 /\ In o OS /\ t < t2 /\ j < o /\ o < t) ->
  forall k orj, k <= S kb ->
  (forall o, In o orj <-> In o OS /\ exists t, jump_at code o t /\ pos_of k <= t) ->
  forall x, In x (analyze code k orj) <-> In x OS /\ exists t, jump_at code x t.
Proof.
  intros code OS kb Hfw H1 H2. induction k as [|k IH]; intros orj Hk Hinv x.
  - cbn [analyze]. rewrite Hinv. split.
    + intros [Hs [t [Hj _]]]. split; [exact Hs | exists t; exact Hj].
    + intros [Hs [t Hj]]. split; [exact Hs|]. exists t. split; [exact Hj|]. destruct (Hfw _ _ Hj) as [Hlt _]. unfold pos_of. 
      destruct Hj as [k0 [ins [-> _]]]. unfold pos_of in *. lia.
  - cbn [analyze]. apply IH; [lia|]. intro o.
    rewrite (fold_add_classified OS).
    + rewrite Hinv. split.
      * intros [[Hs [t [Hj Ht]]]|[Hjs Hs]].
        -- split; [exact Hs|]. exists t. split; [exact Hj | unfold pos_of in *; lia].
        -- split; [exact Hs|]. exists (pos_of k). split; [apply jumps_to_jump_at; exact Hjs | lia].
      * intros [Hs [t [Hj Ht]]]. destruct (Nat.eq_dec t (pos_of k)) as [->|Hne].
        -- right. split; [apply jumps_to_jump_at; exact Hj | exact Hs].
        -- left. split; [exact Hs|]. exists t. split; [exact Hj|]. destruct (Hfw _ _ Hj) as [_ Hle]. unfold pos_of in *. lia.
    + rewrite jumps_to_from. apply jumps_from_sorted.
    + intros j Hj. apply jumps_to_jump_at in Hj. destruct (Hfw _ _ Hj). lia.
    + intros j Hj HjS o' Ho'. apply jumps_to_jump_at in Hj. apply Hinv in Ho'. destruct Ho' as [HoS [t2 [Hjo Ht2]]].
      apply (H1 j (pos_of k) o' t2 Hj HjS Hjo HoS). unfold pos_of in *. lia.
    + intros j Hj Hn. apply jumps_to_jump_at in Hj. destruct (H2 j (pos_of k) Hj Hn) as [o' [t2 [Hjo [HoS [Hlt Hb]]]]].
      exists o'. split; [|exact Hb]. apply Hinv. split; [exact HoS|]. exists t2. split; [exact Hjo | unfold pos_of in *; lia].
Qed.

Lemma or_jumps_classified : forall code (OS : list nat) kb,
  conditions_end code = pos_of kb ->
  (forall j t, jump_at code j t -> j < t /\ t <= pos_of kb) ->
  (forall j t o t2, jump_at code j t -> In j OS -> jump_at code o t2 -> In o OS -> t < t2 -> ~ (j < o /\ o < t)) ->
  (forall j t, jump_at code j t -> ~ In j OS -> exists o t2, jump_at code o t2 /\ In o OS /\ t < t2 /\ j < o /\ o < t) ->
  (forall j, In j OS -> exists t, jump_at code j t) ->
  forall x, In x (or_jumps code) <-> In x OS.
Proof.
  intros code OS kb Hce Hfw H1 H2 HS x. unfold or_jumps. rewrite Hce.
  unfold pos_of at 1. replace (kb + 2 =? 0) with false by (symmetry; apply Nat.eqb_neq; lia).
  unfold pos_of at 1. replace (kb + 2 - 2) with kb by lia.
  rewrite (analyze_classified code OS kb Hfw H1 H2 (S kb) []); [| lia |].
  - split; [intros [H _]; exact H | intro H; split; [exact H | apply HS; exact H]].
  - intro o. split; [intros [] |]. intros [_ [t [Hj Ht]]]. destruct (Hfw _ _ Hj) as [_ Hle]. unfold pos_of in *. lia.
Qed.

(* ------------------------------------------------------------------ code shape *)
Lemma or_fwd_is_to : forall ls a, or_fwd ls a = or_fwd_to ls a TTop.
Proof. induction ls as [|l r IH]; intro a; [reflexivity|]. cbn [or_fwd or_fwd_to]. destruct r; [reflexivity|]. rewrite IH. reflexivity. Qed.

Lemma cnf_code_is_conj : forall cs p, cnf_code cs p = conj_code cs p TTop.
Proof. induction cs as [|c r IH]; intro p; [reflexivity|]. cbn [cnf_code conj_code]. rewrite or_fwd_is_to, IH. reflexivity. Qed.

Lemma comp_or_chain : forall ls p tg, comp_or true tg tg true (map lit_bexp ls) p = chain_code true tg ls.
Proof.
  induction ls as [|l r IH]; intros p tg; [reflexivity|].
  destruct r as [|y s].
  - cbn [map comp_or chain_code]. rewrite comp_lit. reflexivity.
  - change (map lit_bexp (l :: y :: s)) with (lit_bexp l :: lit_bexp y :: map lit_bexp s).
    rewrite comp_or_cons2, comp_lit. change (lit_bexp y :: map lit_bexp s) with (map lit_bexp (y :: s)).
    rewrite IH. cbn [chain_code]. apply app_cons_assoc.
Qed.

Lemma comp_or_fwd_to : forall ls p nextcl tg,
  comp_or true tg (TAt nextcl) false (map lit_bexp ls) p = or_fwd_to ls nextcl tg.
Proof.
  induction ls as [|l r IH]; intros p nextcl tg; [reflexivity|].
  destruct r as [|y s].
  - cbn [map comp_or or_fwd_to]. rewrite comp_lit. reflexivity.
  - change (map lit_bexp (l :: y :: s)) with (lit_bexp l :: lit_bexp y :: map lit_bexp s).
    rewrite comp_or_cons2, comp_lit. change (lit_bexp y :: map lit_bexp s) with (map lit_bexp (y :: s)).
    rewrite IH. cbn [or_fwd_to]. apply app_cons_assoc.
Qed.

Lemma comp_mk_or_to : forall ls p tg, ls <> [] -> comp true (mk_or ls) p tg false = or_fwd_to ls (p + lws ls) tg.
Proof.
  intros ls p tg H. destruct ls as [|l [|y s]]; [congruence| |].
  - cbn [mk_or or_fwd_to]. rewrite comp_lit. reflexivity.
  - unfold mk_or. rewrite comp_Or. rewrite elen_Or, elen_list_lits. apply comp_or_fwd_to.
Qed.

Lemma comp_mk_or_true : forall ls p tg, ls <> [] -> comp true (mk_or ls) p tg true = chain_code true tg ls.
Proof.
  intros ls p tg H. destruct ls as [|l [|y s]]; [congruence| |].
  - cbn [mk_or chain_code]. rewrite comp_lit. reflexivity.
  - unfold mk_or. rewrite comp_Or. apply comp_or_chain.
Qed.

Lemma comp_and_alt3 : forall cs p nextalt body, Forall (fun c => c <> []) cs ->
  comp_and true (TAt body) (TAt nextalt) true (map mk_or cs) p = alt3_fwd cs p nextalt body.
Proof.
  induction cs as [|c r IH]; intros p nextalt body H; [reflexivity|].
  inversion H as [|? ? Hc Hr]; subst.
  destruct r as [|c2 r2].
  - cbn [map comp_and alt3_fwd]. apply comp_mk_or_true. assumption.
  - change (map mk_or (c :: c2 :: r2)) with (mk_or c :: mk_or c2 :: map mk_or r2).
    rewrite comp_and_cons2. change (mk_or c2 :: map mk_or r2) with (map mk_or (c2 :: r2)).
    rewrite comp_mk_or_to by assumption. rewrite elen_mk_or by assumption. rewrite (IH _ _ _ Hr). reflexivity.
Qed.

Lemma elen_mk_alt3 : forall cs, cs <> [] -> Forall (fun c => c <> []) cs -> elen true (mk_alt3 cs) = total_lits cs.
Proof.
  intros cs Hne Hall. unfold mk_alt3. destruct cs as [|c [|c2 r]]; [congruence| |].
  - inversion Hall; subst. cbn [map mk_and_of total_lits]. rewrite elen_mk_or by assumption. lia.
  - set (es := map mk_or (c :: c2 :: r)). assert (Hes : mk_and_of es = And es) by reflexivity. rewrite Hes, elen_And.
    unfold es. apply elen_list_cls. assumption.
Qed.

Lemma comp_mk_alt3_fwd : forall cs p body, wf_alt3 cs ->
  comp true (mk_alt3 cs) p (TAt body) true = alt3_fwd cs p (p + total_lits cs) body.
Proof.
  intros cs p body [Hne [Hall H1]]. unfold mk_alt3. destruct cs as [|c [|c2 r]]; [congruence| |].
  - inversion Hall; subst. cbn [map mk_and_of alt3_fwd]. apply comp_mk_or_true. assumption.
  - set (es := map mk_or (c :: c2 :: r)). assert (Hes : mk_and_of es = And es) by reflexivity. rewrite Hes, comp_And.
    rewrite elen_And. unfold es. rewrite elen_list_cls by assumption. apply comp_and_alt3. assumption.
Qed.

Lemma comp_mk_alt3_last : forall cs p, wf_alt3 cs -> comp true (mk_alt3 cs) p TTop false = conj_code cs p TTop.
Proof.
  intros cs p [Hne [Hall _]]. rewrite <- cnf_code_is_conj. apply (comp_cnf cs p). split; assumption.
Qed.

Lemma wf_alt3_parts : forall cs, wf_alt3 cs -> cs <> [] /\ Forall (fun c => c <> []) cs.
Proof. intros cs [H1 [H2 _]]. split; assumption. Qed.

Lemma elen_list_alts3 : forall alts, Forall wf_alt3 alts -> elen_list true (map mk_alt3 alts) = tot3 alts.
Proof.
  induction alts as [|cs r IH]; intro H; [reflexivity|].
  inversion H as [|? ? Hcs Hr]; subst. destruct (wf_alt3_parts cs Hcs) as [Hne Hall].
  destruct r as [|cs2 r2].
  - cbn [map elen_list tot3]. rewrite elen_mk_alt3 by assumption. lia.
  - change (map mk_alt3 (cs :: cs2 :: r2)) with (mk_alt3 cs :: mk_alt3 cs2 :: map mk_alt3 r2).
    rewrite elen_list_cons2, elen_mk_alt3 by assumption. change (mk_alt3 cs2 :: map mk_alt3 r2) with (map mk_alt3 (cs2 :: r2)).
    rewrite (IH Hr). reflexivity.
Qed.

Lemma comp_or_alts3 : forall alts p body, Forall wf_alt3 alts ->
  comp_or true TTop (TAt body) false (map mk_alt3 alts) p = dnf3_code alts p body.
Proof.
  induction alts as [|cs r IH]; intros p body H; [reflexivity|].
  inversion H as [|? ? Hcs Hr]; subst. destruct (wf_alt3_parts cs Hcs) as [Hne Hall].
  destruct r as [|cs2 r2].
  - cbn [map comp_or dnf3_code]. apply comp_mk_alt3_last. assumption.
  - change (map mk_alt3 (cs :: cs2 :: r2)) with (mk_alt3 cs :: mk_alt3 cs2 :: map mk_alt3 r2).
    rewrite comp_or_cons2. change (mk_alt3 cs2 :: map mk_alt3 r2) with (map mk_alt3 (cs2 :: r2)).
    rewrite comp_mk_alt3_fwd by assumption. rewrite elen_mk_alt3 by assumption. rewrite (IH _ _ Hr). reflexivity.
Qed.

Lemma comp_dnf3 : forall alts p, wf3 alts -> comp true (dnf3 alts) p TTop false = dnf3_code alts p (p + tot3 alts).
Proof.
  intros alts p [Hlen Hall]. destruct alts as [|cs [|cs2 r]]; cbn [length] in Hlen; try lia.
  unfold dnf3. set (es := map mk_alt3 (cs :: cs2 :: r)).
  assert (Hes : mk_or_of es = Or es) by reflexivity. rewrite Hes. rewrite comp_Or.
  rewrite elen_Or. unfold es. rewrite elen_list_alts3 by assumption. apply comp_or_alts3. assumption.
Qed.

(* ------------------------------------------------------------------ decomposition, lengths, thread, conditions_end *)
Lemma or_fwd_to_snoc : forall ls0 l a tg, or_fwd_to (ls0 ++ [l]) a tg = chain_code true (TAt a) ls0 ++ lval l ++ [ljmp l false tg].
Proof.
  induction ls0 as [|l0 r IH]; intros l a tg; [reflexivity|].
  cbn [app or_fwd_to chain_code]. destruct (r ++ [l]) eqn:E; [destruct r; discriminate|].
  rewrite <- E, IH. rewrite <- app_assoc. reflexivity.
Qed.

Lemma length_or_fwd_to : forall ls a tg, length (or_fwd_to ls a tg) = lws ls.
Proof.
  intros ls a tg. destruct ls as [|x r]; [reflexivity|].
  destruct (exists_last (l := x :: r) ltac:(discriminate)) as [ls0 [l E]]. rewrite E, or_fwd_to_snoc.
  rewrite !app_length, length_chain, lws_app. cbn [length lws]. unfold lw. lia.
Qed.

Lemma length_conj_code : forall cs p tg, length (conj_code cs p tg) = total_lits cs.
Proof. induction cs as [|c r IH]; intros p tg; [reflexivity|]. cbn [conj_code total_lits]. rewrite app_length, length_or_fwd_to, IH. reflexivity. Qed.

Lemma length_alt3_fwd : forall cs p a b, length (alt3_fwd cs p a b) = total_lits cs.
Proof.
  induction cs as [|c r IH]; intros p a b; [reflexivity|].
  cbn [alt3_fwd total_lits]. destruct r as [|c2 r2].
  - rewrite length_chain. cbn [total_lits]. lia.
  - rewrite app_length, length_or_fwd_to, IH. reflexivity.
Qed.

Lemma length_dnf3_code : forall alts p body, length (dnf3_code alts p body) = tot3 alts.
Proof.
  induction alts as [|cs r IH]; intros p body; [reflexivity|].
  cbn [dnf3_code tot3]. destruct r as [|cs2 r2].
  - rewrite length_conj_code. cbn [tot3]. lia.
  - rewrite app_length, length_alt3_fwd, IH. reflexivity.
Qed.

Lemma no_fwd_or_fwd_to : forall ls a tg, no_fwd (or_fwd_to ls a tg).
Proof.
  intros ls a tg. destruct ls as [|x r]; [intros t H; exact H|].
  destruct (exists_last (l := x :: r) ltac:(discriminate)) as [ls0 [l E]]. rewrite E, or_fwd_to_snoc.
  apply no_fwd_app; [apply no_fwd_chain|]. apply no_fwd_app; [apply no_fwd_lval|].
  intros t [H|[]]. destruct (ljmp_facts l false tg) as [_ [Hf _]]. exact (Hf t H).
Qed.

Lemma no_fwd_conj_code : forall cs p tg, no_fwd (conj_code cs p tg).
Proof. induction cs as [|c r IH]; intros p tg; [intros t H; exact H|]. cbn [conj_code]. apply no_fwd_app; [apply no_fwd_or_fwd_to | apply IH]. Qed.

Lemma no_fwd_alt3_fwd : forall cs p a b, no_fwd (alt3_fwd cs p a b).
Proof.
  induction cs as [|c r IH]; intros p a b; [intros t H; exact H|].
  cbn [alt3_fwd]. destruct r as [|c2 r2]; [apply no_fwd_chain|]. apply no_fwd_app; [apply no_fwd_or_fwd_to | apply IH].
Qed.

Lemma no_fwd_dnf3_code : forall alts p body, no_fwd (dnf3_code alts p body).
Proof.
  induction alts as [|cs r IH]; intros p body; [intros t H; exact H|].
  cbn [dnf3_code]. destruct r as [|cs2 r2]; [apply no_fwd_conj_code|]. apply no_fwd_app; [apply no_fwd_alt3_fwd | apply IH].
Qed.

Definition stream3 (alts : list (list (list lit))) : list instr := dnf3_code alts 2 (2 + tot3 alts) ++ [ILoadElt; IYield].

Lemma compile_dnf3 : forall alts, wf3 alts -> compile PFilter (dnf3 alts) = stream3 alts.
Proof.
  intros alts H. unfold compile, stream3. change (pos_of 0) with 2. rewrite comp_dnf3 by assumption.
  apply thread_no_fwd. apply no_fwd_app; [apply no_fwd_dnf3_code|].
  intros t [Hin|[Hin|[]]]; discriminate.
Qed.

Lemma ce_from_or_fwd_to_fwd : forall ls a t i acc, ce_from (or_fwd_to ls a (TAt t)) i acc = acc.
Proof.
  intros ls a t i acc. destruct ls as [|x r]; [reflexivity|].
  destruct (exists_last (l := x :: r) ltac:(discriminate)) as [ls0 [l E]]. rewrite E, or_fwd_to_snoc.
  rewrite ce_from_app, ce_from_chain_fwd, ce_from_app, ce_from_lval. cbn [ce_from].
  destruct (ljmp_facts l false (TAt t)) as [_ [_ [_ [_ Hb]]]]. rewrite Hb. reflexivity.
Qed.

Lemma ce_from_alt3_fwd : forall cs p a b i acc, ce_from (alt3_fwd cs p a b) i acc = acc.
Proof.
  induction cs as [|c r IH]; intros p a b i acc; [reflexivity|].
  cbn [alt3_fwd]. destruct r as [|c2 r2]; [apply ce_from_chain_fwd|].
  rewrite ce_from_app, ce_from_or_fwd_to_fwd. apply IH.
Qed.

Lemma ce_from_dnf3_code : forall alts p body i acc, alts <> [] -> Forall wf_alt3 alts ->
  ce_from (dnf3_code alts p body) i acc = pos_of (i + tot3 alts).
Proof.
  induction alts as [|cs r IH]; intros p body i acc Hne Hall; [congruence|].
  inversion Hall as [|? ? Hcs Hr]; subst. destruct (wf_alt3_parts cs Hcs) as [Hcne Hcall].
  cbn [dnf3_code tot3]. destruct r as [|cs2 r2].
  - rewrite <- cnf_code_is_conj. rewrite ce_from_cnf_code by (split; assumption). cbn [tot3]. f_equal. lia.
  - rewrite ce_from_app, ce_from_alt3_fwd, length_alt3_fwd. rewrite IH by (try discriminate; assumption). f_equal. lia.
Qed.

(* ------------------------------------------------------------------ the jumps of the stream: (position, target, is-or) *)
Definition seg_jump (seg : list instr) (i j t : nat) : Prop :=
  exists k ins, j = pos_of (i + k) /\ nth_error seg k = Some ins /\ target_of ins = Some t.

Lemma seg_jump_app : forall a b i j t, seg_jump (a ++ b) i j t <-> seg_jump a i j t \/ seg_jump b (i + length a) j t.
Proof.
  intros a b i j t. unfold seg_jump. split.
  - intros [k [ins [H1 [H2 H3]]]]. destruct (Nat.lt_ge_cases k (length a)) as [Hk|Hk].
    + left. exists k, ins. rewrite nth_error_app1 in H2 by assumption. auto.
    + right. exists (k - length a), ins. rewrite nth_error_app2 in H2 by assumption. split; [rewrite H1; f_equal; lia | auto].
  - intros [[k [ins [H1 [H2 H3]]]]|[k [ins [H1 [H2 H3]]]]].
    + exists k, ins. rewrite nth_error_app1 by (apply nth_error_Some; congruence). auto.
    + exists (length a + k), ins. rewrite nth_error_app2 by lia. replace (length a + k - length a) with k by lia.
      split; [rewrite H1; f_equal; lia | auto].
Qed.

Lemma seg_jump_lval : forall l i j t, ~ seg_jump (lval l) i j t.
Proof. intros l i j t [k [ins [_ [H2 H3]]]]. apply nth_error_In in H2. destruct (lval_facts l ins H2) as [H _]. congruence. Qed.

Lemma seg_jump_one : forall ins i j t, seg_jump [ins] i j t <-> j = pos_of i /\ target_of ins = Some t.
Proof.
  intros ins i j t. unfold seg_jump. split.
  - intros [[|k] [ins' [H1 [H2 H3]]]]; [|destruct k; discriminate H2]. injection H2 as <-. rewrite Nat.add_0_r in H1. auto.
  - intros [H1 H2]. exists 0, ins. rewrite Nat.add_0_r. auto.
Qed.

Lemma seg_jump_nil : forall i j t, ~ seg_jump [] i j t.
Proof. intros i j t [k [ins [_ [H _]]]]. destruct k; discriminate H. Qed.

(* literal followed by its jump *)
Lemma seg_jump_lit : forall l c tg rest i j t,
  seg_jump (lval l ++ ljmp l c tg :: rest) i j t <->
  (j = pos_of (i + length (lval l)) /\ tg = TAt t) \/ seg_jump rest (i + lw l) j t.
Proof.
  intros l c tg rest i j t. rewrite seg_jump_app. change (ljmp l c tg :: rest) with ([ljmp l c tg] ++ rest).
  rewrite seg_jump_app, seg_jump_one. cbn [length].
  destruct (ljmp_facts l c tg) as [_ [_ [_ [Ht _]]]]. rewrite Ht.
  replace (i + length (lval l) + 1) with (i + lw l) by (unfold lw; lia).
  split.
  - intros [H|[[H1 H2]|H]]; [exfalso; exact (seg_jump_lval _ _ _ _ H) | left | right; exact H].
    split; [exact H1|]. destruct tg; [discriminate H2 | injection H2 as ->; reflexivity].
  - intros [[H1 H2]|H]; [right; left; split; [exact H1 | subst tg; reflexivity] | right; right; exact H].
Qed.

Definition jentry := (nat * nat * bool)%type.

Fixpoint chainJ (c : bool) (t : nat) (ls : list lit) (i : nat) : list jentry :=
  match ls with [] => [] | l :: r => (pos_of (i + length (lval l)), t, c) :: chainJ c t r (i + lw l) end.

Fixpoint clauseJ (ls : list lit) (a : nat) (tg : tgt) (i : nat) : list jentry :=
  match ls with
  | [] => []
  | l :: r => match r with
              | [] => match tg with TAt s => [(pos_of (i + length (lval l)), s, false)] | TTop => [] end
              | _ :: _ => (pos_of (i + length (lval l)), a, true) :: clauseJ r a tg (i + lw l)
              end
  end.

Fixpoint conjJ (cs : list (list lit)) (i : nat) (tg : tgt) : list jentry :=
  match cs with [] => [] | c :: r => clauseJ c (pos_of (i + lws c)) tg i ++ conjJ r (i + lws c) tg end.

Fixpoint alt3J (cs : list (list lit)) (i nextalt body : nat) : list jentry :=
  match cs with
  | [] => []
  | c :: r => match r with
              | [] => chainJ true body c i
              | _ :: _ => clauseJ c (pos_of (i + lws c)) (TAt nextalt) i ++ alt3J r (i + lws c) nextalt body
              end
  end.

Fixpoint dnf3J (alts : list (list (list lit))) (i body : nat) : list jentry :=
  match alts with
  | [] => []
  | cs :: r => match r with
               | [] => conjJ cs i TTop
               | _ :: _ => alt3J cs i (pos_of (i + total_lits cs)) body ++ dnf3J r (i + total_lits cs) body
               end
  end.

Definition has_entry (J : list jentry) (j t : nat) : Prop := exists b, In (j, t, b) J.

Lemma has_entry_app : forall A B j t, has_entry (A ++ B) j t <-> has_entry A j t \/ has_entry B j t.
Proof.
  intros A B j t. unfold has_entry. split.
  - intros [b H]. apply in_app_or in H. destruct H; [left|right]; exists b; assumption.
  - intros [[b H]|[b H]]; exists b; apply in_or_app; auto.
Qed.

Lemma chainJ_spec : forall c t ls i j t', seg_jump (chain_code c (TAt t) ls) i j t' <-> has_entry (chainJ c t ls i) j t'.
Proof.
  induction ls as [|l r IH]; intros i j t'; cbn [chain_code chainJ].
  - split; [intro H; exfalso; exact (seg_jump_nil _ _ _ H) | intros [b []]].
  - rewrite seg_jump_lit, IH. unfold has_entry. cbn [In]. split.
    + intros [[H1 H2]|[b H]]; [exists c; left; injection H2 as ->; rewrite H1; reflexivity | exists b; right; exact H].
    + intros [b [H|H]]; [left; injection H as <- <- _; auto | right; exists b; exact H].
Qed.

Lemma clauseJ_spec : forall ls a tg i j t, seg_jump (or_fwd_to ls a tg) i j t <-> has_entry (clauseJ ls a tg i) j t.
Proof.
  induction ls as [|l r IH]; intros a tg i j t; cbn [or_fwd_to clauseJ].
  - split; [intro H; exfalso; exact (seg_jump_nil _ _ _ H) | intros [b []]].
  - destruct r as [|y s].
    + change (lval l ++ [ljmp l false tg]) with (lval l ++ ljmp l false tg :: []). rewrite seg_jump_lit. unfold has_entry. split.
      * intros [[H1 H2]|H]; [|exfalso; exact (seg_jump_nil _ _ _ H)]. subst tg. exists false. left. rewrite H1. reflexivity.
      * intros [b H]. destruct tg as [|s]; [destruct H|]. destruct H as [H|[]]. injection H as <- <- _. left. auto.
    + rewrite seg_jump_lit, IH. unfold has_entry. cbn [In]. split.
      * intros [[H1 H2]|[b H]]; [exists true; left; injection H2 as ->; rewrite H1; reflexivity | exists b; right; exact H].
      * intros [b [H|H]]; [left; injection H as <- <- _; auto | right; exists b; exact H].
Qed.

Lemma conjJ_spec : forall cs i tg j t, seg_jump (conj_code cs (pos_of i) tg) i j t <-> has_entry (conjJ cs i tg) j t.
Proof.
  induction cs as [|c r IH]; intros i tg j t; cbn [conj_code conjJ].
  - split; [intro H; exfalso; exact (seg_jump_nil _ _ _ H) | intros [b []]].
  - rewrite seg_jump_app, has_entry_app, length_or_fwd_to.
    replace (pos_of i + lws c) with (pos_of (i + lws c)) by (unfold pos_of; lia).
    rewrite clauseJ_spec, IH. reflexivity.
Qed.

Lemma alt3J_spec : forall cs i a b j t, seg_jump (alt3_fwd cs (pos_of i) a b) i j t <-> has_entry (alt3J cs i a b) j t.
Proof.
  induction cs as [|c r IH]; intros i a b j t; cbn [alt3_fwd alt3J].
  - split; [intro H; exfalso; exact (seg_jump_nil _ _ _ H) | intros [b0 []]].
  - destruct r as [|c2 r2]; [apply chainJ_spec|].
    rewrite seg_jump_app, has_entry_app, length_or_fwd_to.
    replace (pos_of i + lws c) with (pos_of (i + lws c)) by (unfold pos_of; lia).
    rewrite clauseJ_spec, IH. reflexivity.
Qed.

Lemma dnf3J_spec : forall alts i body j t, seg_jump (dnf3_code alts (pos_of i) body) i j t <-> has_entry (dnf3J alts i body) j t.
Proof.
  induction alts as [|cs r IH]; intros i body j t; cbn [dnf3_code dnf3J].
  - split; [intro H; exfalso; exact (seg_jump_nil _ _ _ H) | intros [b0 []]].
  - destruct r as [|cs2 r2]; [apply conjJ_spec|].
    rewrite seg_jump_app, has_entry_app, length_alt3_fwd.
    replace (pos_of i + total_lits cs) with (pos_of (i + total_lits cs)) by (unfold pos_of; lia).
    rewrite alt3J_spec, IH. reflexivity.
Qed.

(* ------------------------------------------------------------------ facts about the jump lists *)
(* entries lie in [s, e), go forward up to B, positions are unique, and every or-entry whose target is not B is LOCAL:
   its target is at most e and every or-entry strictly between it and its target has the same target *)
Definition inv (J : list jentry) (s e B : nat) : Prop :=
  (forall j t b, In (j, t, b) J -> s <= j /\ j < e /\ j < t /\ t <= B) /\
  (forall j t, In (j, t, true) J -> t <> B -> t <= e /\ forall o t2, In (o, t2, true) J -> j < o -> o < t -> t2 = t) /\
  (forall j t b t' b', In (j, t, b) J -> In (j, t', b') J -> t = t' /\ b = b').

Lemma inv_nil : forall s e B, inv [] s e B.
Proof. intros. split; [|split]; intros; try contradiction. Qed.

Lemma inv_app : forall J1 J2 s m e B, inv J1 s m B -> inv J2 m e B -> s <= m -> m <= e -> inv (J1 ++ J2) s e B.
Proof.
  intros J1 J2 s m e B [R1 [L1 U1]] [R2 [L2 U2]] Hsm Hme. split; [|split].
  - intros j t b H. apply in_app_or in H. destruct H as [H|H]; [destruct (R1 _ _ _ H) | destruct (R2 _ _ _ H)]; lia.
  - intros j t H Ht. apply in_app_or in H. destruct H as [H|H].
    + destruct (L1 _ _ H Ht) as [Hle Hloc]. split; [lia|]. intros o t2 Ho Hjo Hot. apply in_app_or in Ho. destruct Ho as [Ho|Ho].
      * apply (Hloc o t2 Ho Hjo Hot).
      * destruct (R2 _ _ _ Ho). lia.
    + destruct (L2 _ _ H Ht) as [Hle Hloc]. split; [lia|]. intros o t2 Ho Hjo Hot. apply in_app_or in Ho. destruct Ho as [Ho|Ho].
      * destruct (R1 _ _ _ Ho). destruct (R2 _ _ _ H). lia.
      * apply (Hloc o t2 Ho Hjo Hot).
  - intros j t b t' b' H H'. apply in_app_or in H. apply in_app_or in H'. destruct H as [H|H]; destruct H' as [H'|H'].
    + apply (U1 _ _ _ _ _ H H').
    + destruct (R1 _ _ _ H). destruct (R2 _ _ _ H'). lia.
    + destruct (R2 _ _ _ H). destruct (R1 _ _ _ H'). lia.
    + apply (U2 _ _ _ _ _ H H').
Qed.

Lemma inv_cons : forall j0 t0 b0 J s m e B,
  s <= j0 -> j0 < m -> j0 < t0 -> t0 <= B -> m <= e ->
  (b0 = true -> t0 <> B -> t0 <= e /\ forall o t2, In (o, t2, true) J -> o < t0 -> t2 = t0) ->
  inv J m e B -> inv ((j0, t0, b0) :: J) s e B.
Proof.
  intros j0 t0 b0 J s m e B H1 H2 H3 H4 H5 Hloc [R [L U]]. split; [|split].
  - intros j t b [H|H]; [inversion H; subst; lia | destruct (R _ _ _ H); lia].
  - intros j t [H|H] Ht.
    + inversion H; subst. destruct (Hloc eq_refl Ht) as [Hle Hl]. split; [exact Hle|].
      intros o t2 [Ho|Ho] Hjo Hot; [inversion Ho; subst; lia | apply (Hl o t2 Ho Hot)].
    + destruct (L _ _ H Ht) as [Hle Hl]. split; [exact Hle|].
      intros o t2 [Ho|Ho] Hjo Hot; [inversion Ho; subst; destruct (R _ _ _ H); lia | apply (Hl o t2 Ho Hjo Hot)].
  - intros j t b t' b' [H|H] [H'|H'].
    + inversion H; subst. inversion H'; subst. split; reflexivity.
    + inversion H; subst. destruct (R _ _ _ H'). lia.
    + inversion H'; subst. destruct (R _ _ _ H). lia.
    + apply (U _ _ _ _ _ H H').
Qed.

(* ---- shape of the entries *)
Lemma chainJ_in : forall c t ls i j t' b, In (j, t', b) (chainJ c t ls i) ->
  pos_of i <= j /\ j < pos_of (i + lws ls) /\ t' = t /\ b = c.
Proof.
  induction ls as [|l r IH]; intros i j t' b H; [destruct H|].
  cbn [chainJ lws] in *. destruct H as [H|H].
  - inversion H; subst. split; [unfold pos_of; lia|]. split; [unfold pos_of, lw; lia|]. split; reflexivity.
  - apply IH in H. destruct H as [H1 [H2 [H3 H4]]].
    split; [unfold pos_of, lw in *; lia|]. split; [unfold pos_of, lw in *; lia|]. split; assumption.
Qed.

Lemma clauseJ_in : forall ls a tg i j t b, In (j, t, b) (clauseJ ls a tg i) ->
  pos_of i <= j /\ j < pos_of (i + lws ls) /\ (b = true -> t = a) /\ (b = false -> tg = TAt t).
Proof.
  induction ls as [|l r IH]; intros a tg i j t b H; [destruct H|].
  cbn [clauseJ] in H. destruct r as [|y s].
  - destruct tg as [|s0]; [destruct H|]. destruct H as [H|[]]. inversion H; subst. cbn [lws].
    split; [unfold pos_of; lia|]. split; [unfold pos_of, lw; lia|]. split; intro Hb; [discriminate Hb | reflexivity].
  - destruct H as [H|H].
    + inversion H; subst. change (lws (l :: y :: s)) with (lw l + lws (y :: s)).
      split; [unfold pos_of; lia|]. split; [unfold pos_of, lw; lia|]. split; intro Hb; [reflexivity | discriminate Hb].
    + apply IH in H. destruct H as [H1 [H2 [H3 H4]]]. change (lws (l :: y :: s)) with (lw l + lws (y :: s)).
      split; [unfold pos_of, lw in *; lia|]. split; [unfold pos_of, lw in *; lia|]. split; assumption.
Qed.

Lemma clauseJ_true_target : forall ls a tg i o t2, In (o, t2, true) (clauseJ ls a tg i) -> t2 = a.
Proof. intros ls a tg i o t2 H. apply clauseJ_in in H. destruct H as [_ [_ [H _]]]. apply H. reflexivity. Qed.

Lemma inv_chainJ : forall ls i e B, pos_of (i + lws ls) <= e -> e <= B -> inv (chainJ true B ls i) (pos_of i) e B.
Proof.
  induction ls as [|l r IH]; intros i e B He HB; [apply inv_nil|].
  cbn [chainJ]. cbn [lws] in He.
  apply (inv_cons _ _ _ _ _ (pos_of (i + lw l))); try (unfold pos_of, lw in *; lia).
  apply IH; [|exact HB]. rewrite <- Nat.add_assoc. exact He.
Qed.

Lemma inv_clauseJ : forall ls a tg i e B,
  pos_of (i + lws ls) <= a -> a <= e -> a <= B ->
  match tg with TAt s => a <= s /\ s <= B | TTop => True end ->
  inv (clauseJ ls a tg i) (pos_of i) e B.
Proof.
  induction ls as [|l r IH]; intros a tg i e B Ha Hae HaB Htg; [apply inv_nil|].
  cbn [clauseJ]. destruct r as [|y s].
  - destruct tg as [|s0]; [apply inv_nil|]. destruct Htg as [Hs1 Hs2]. cbn [lws] in Ha.
    apply (inv_cons _ _ _ _ _ (pos_of (i + lw l))); try (unfold pos_of, lw in *; lia); try (intros Hb; discriminate Hb).
    apply inv_nil.
  - change (lws (l :: y :: s)) with (lw l + lws (y :: s)) in Ha.
    apply (inv_cons _ _ _ _ _ (pos_of (i + lw l))); try (unfold pos_of, lw in *; lia).
    + intros _ _. split; [exact Hae|]. intros o t2 Ho _. apply clauseJ_true_target in Ho. exact Ho.
    + apply IH; try assumption. rewrite <- Nat.add_assoc. exact Ha.
Qed.

Lemma inv_conjJ : forall cs i tg e B,
  pos_of (i + total_lits cs) <= e -> e <= B ->
  match tg with TAt s => pos_of (i + total_lits cs) <= s /\ s <= B | TTop => True end ->
  inv (conjJ cs i tg) (pos_of i) e B.
Proof.
  induction cs as [|c r IH]; intros i tg e B He HB Htg; [apply inv_nil|].
  cbn [conjJ]. cbn [total_lits] in *.
  apply (inv_app _ _ _ (pos_of (i + lws c))).
  - apply inv_clauseJ; try (unfold pos_of in *; lia). destruct tg as [|s0]; [exact I|]. unfold pos_of in *. lia.
  - apply IH; [rewrite <- Nat.add_assoc; exact He | exact HB |]. destruct tg as [|s0]; [exact I|]. rewrite <- Nat.add_assoc. exact Htg.
  - unfold pos_of; lia.
  - unfold pos_of in *; lia.
Qed.

Lemma inv_alt3J : forall cs i na e B,
  pos_of (i + total_lits cs) <= e -> e <= B -> pos_of (i + total_lits cs) <= na -> na <= B ->
  inv (alt3J cs i na B) (pos_of i) e B.
Proof.
  induction cs as [|c r IH]; intros i na e B He HB Hna HnB; [apply inv_nil|].
  cbn [alt3J]. destruct r as [|c2 r2].
  - cbn [total_lits] in *. apply inv_chainJ; [|exact HB]. rewrite Nat.add_0_r in He. exact He.
  - change (total_lits (c :: c2 :: r2)) with (lws c + total_lits (c2 :: r2)) in *.
    apply (inv_app _ _ _ (pos_of (i + lws c))).
    + apply inv_clauseJ; [apply le_n | unfold pos_of in *; lia | unfold pos_of in *; lia | split; [unfold pos_of in *; lia | exact HnB]].
    + apply IH; try assumption; rewrite <- Nat.add_assoc; assumption.
    + unfold pos_of; lia.
    + unfold pos_of in *; lia.
Qed.

Lemma inv_dnf3J : forall alts i e B, pos_of (i + tot3 alts) <= e -> e <= B -> inv (dnf3J alts i B) (pos_of i) e B.
Proof.
  induction alts as [|cs r IH]; intros i e B He HB; [apply inv_nil|].
  cbn [dnf3J]. destruct r as [|cs2 r2].
  - cbn [tot3] in He. apply inv_conjJ; [rewrite Nat.add_0_r in He; exact He | exact HB | exact I].
  - change (tot3 (cs :: cs2 :: r2)) with (total_lits cs + tot3 (cs2 :: r2)) in He.
    apply (inv_app _ _ _ (pos_of (i + total_lits cs))).
    + apply inv_alt3J; unfold pos_of in *; lia.
    + apply IH; [rewrite <- Nat.add_assoc; exact He | exact HB].
    + unfold pos_of; lia.
    + unfold pos_of in *; lia.
Qed.

(* ---- every and-jump has an or-jump to a farther target strictly between itself and its target *)
Lemma alt3J_has_or : forall cs i na body, cs <> [] -> Forall (fun c => c <> []) cs ->
  exists o, In (o, body, true) (alt3J cs i na body) /\ pos_of i <= o /\ o < pos_of (i + total_lits cs).
Proof.
  induction cs as [|c r IH]; intros i na body Hne Hall; [congruence|].
  inversion Hall as [|x0 l0 Hc Hr]; subst x0 l0. cbn [alt3J]. destruct r as [|c2 r2].
  - destruct c as [|l ls]; [congruence|]. exists (pos_of (i + length (lval l))). split; [left; reflexivity|].
    cbn [total_lits lws]. unfold pos_of, lw. lia.
  - destruct (IH (i + lws c) na body ltac:(discriminate) Hr) as [o [Ho [H1 H2]]].
    exists o. split; [apply in_or_app; right; exact Ho|].
    change (total_lits (c :: c2 :: r2)) with (lws c + total_lits (c2 :: r2)). unfold pos_of in *. lia.
Qed.

Lemma alt3J_blocked : forall cs i na body, Forall (fun c => c <> []) cs -> na = pos_of (i + total_lits cs) ->
  forall j t, In (j, t, false) (alt3J cs i na body) ->
  t = na /\ exists o, In (o, body, true) (alt3J cs i na body) /\ j < o /\ o < na.
Proof.
  induction cs as [|c r IH]; intros i na body Hall Hna j t H; [destruct H|].
  inversion Hall as [|x0 l0 Hc Hr]; subst x0 l0.
  cbn [alt3J] in *. destruct r as [|c2 r2].
  - apply chainJ_in in H. destruct H as [_ [_ [_ Hb]]]. discriminate Hb.
  - change (total_lits (c :: c2 :: r2)) with (lws c + total_lits (c2 :: r2)) in Hna.
    apply in_app_or in H. destruct H as [H|H].
    + destruct (clauseJ_in _ _ _ _ _ _ _ H) as [H1 [H2 [_ H4]]]. specialize (H4 eq_refl). injection H4 as H4. subst t.
      split; [reflexivity|].
      destruct (alt3J_has_or (c2 :: r2) (i + lws c) na body ltac:(discriminate) Hr) as [o [Ho [Ho1 Ho2]]].
      exists o. split; [apply in_or_app; right; exact Ho|]. rewrite Hna. unfold pos_of in *. lia.
    + assert (Hna' : na = pos_of (i + lws c + total_lits (c2 :: r2))) by (rewrite Hna; f_equal; lia).
      destruct (IH (i + lws c) na body Hr Hna' j t H) as [Ht [o [Ho Hb]]].
      split; [exact Ht|]. exists o. split; [apply in_or_app; right; exact Ho | exact Hb].
Qed.

Lemma conjJ_top_true : forall cs i j t b, In (j, t, b) (conjJ cs i TTop) -> b = true.
Proof.
  induction cs as [|c r IH]; intros i j t b H; [destruct H|]. cbn [conjJ] in H. apply in_app_or in H. destruct H as [H|H].
  - apply clauseJ_in in H. destruct H as [_ [_ [_ H4]]]. destruct b; [reflexivity|]. specialize (H4 eq_refl). discriminate H4.
  - apply (IH _ _ _ _ H).
Qed.

Lemma tot3_pos : forall alts, alts <> [] -> Forall wf_alt3 alts -> 2 <= tot3 alts.
Proof.
  intros [|cs r] Hne Hall; [congruence|]. inversion Hall as [|x0 l0 Hcs Hr]; subst x0 l0.
  destruct (wf_alt3_parts cs Hcs) as [H1 H2]. cbn [tot3]. pose proof (total_lits_pos cs ltac:(split; assumption)). lia.
Qed.

Lemma dnf3J_blocked : forall alts i body, Forall wf_alt3 alts -> pos_of (i + tot3 alts) <= body ->
  forall j t, In (j, t, false) (dnf3J alts i body) ->
  exists o t2, In (o, t2, true) (dnf3J alts i body) /\ t < t2 /\ j < o /\ o < t.
Proof.
  induction alts as [|cs r IH]; intros i body Hall Hb j t H; [destruct H|].
  inversion Hall as [|x0 l0 Hcs Hr]; subst x0 l0. destruct (wf_alt3_parts cs Hcs) as [Hne Hc].
  cbn [dnf3J] in *. destruct r as [|cs2 r2].
  - apply conjJ_top_true in H. discriminate H.
  - change (tot3 (cs :: cs2 :: r2)) with (total_lits cs + tot3 (cs2 :: r2)) in Hb.
    assert (Hpos : 2 <= tot3 (cs2 :: r2)) by (apply tot3_pos; [discriminate | exact Hr]).
    apply in_app_or in H. destruct H as [H|H].
    + destruct (alt3J_blocked cs i _ body Hc eq_refl j t H) as [Ht [o [Ho [H1 H2]]]].
      exists o, body. split; [apply in_or_app; left; exact Ho|]. subst t. unfold pos_of in *. lia.
    + assert (Hb' : pos_of (i + total_lits cs + tot3 (cs2 :: r2)) <= body) by (rewrite <- Nat.add_assoc; exact Hb).
      destruct (IH (i + total_lits cs) body Hr Hb' j t H) as [o [t2 [Ho Hx]]].
      exists o, t2. split; [apply in_or_app; right; exact Ho | exact Hx].
Qed.

(* ---- or_jumps of the stream *)
Definition or_set (J : list jentry) : list nat := map (fun e => fst (fst e)) (filter (fun e => snd e) J).

Lemma in_or_set : forall J o, In o (or_set J) <-> exists t, In (o, t, true) J.
Proof.
  intros J o. unfold or_set. rewrite in_map_iff. split.
  - intros [[[j t] b] [H1 H2]]. apply filter_In in H2. destruct H2 as [H2 H3]. cbn in H1, H3. subst. exists t. exact H2.
  - intros [t H]. exists (o, t, true). split; [reflexivity|]. apply filter_In. split; [exact H | reflexivity].
Qed.

Lemma jump_at_stream3 : forall alts j t, jump_at (stream3 alts) j t <-> has_entry (dnf3J alts 0 (pos_of (tot3 alts))) j t.
Proof.
  intros alts j t. unfold stream3.
  replace (2 + tot3 alts) with (pos_of (tot3 alts)) by (unfold pos_of; lia).
  change (jump_at (dnf3_code alts 2 (pos_of (tot3 alts)) ++ [ILoadElt; IYield]) j t)
    with (seg_jump (dnf3_code alts 2 (pos_of (tot3 alts)) ++ [ILoadElt; IYield]) 0 j t).
  rewrite seg_jump_app.
  pose proof (dnf3J_spec alts 0 (pos_of (tot3 alts)) j t) as Hs. change (pos_of 0) with 2 in Hs. rewrite Hs.
  split; [|intro H; left; exact H]. intros [H|H]; [exact H|].
  destruct H as [k [ins [_ [H2 H3]]]]. destruct k as [|[|k]]; cbn in H2; [injection H2 as <-; discriminate H3 | injection H2 as <-; discriminate H3 | destruct k; discriminate H2].
Qed.

Lemma or_jumps_stream3 : forall alts, wf3 alts ->
  forall x, In x (or_jumps (stream3 alts)) <-> exists t, In (x, t, true) (dnf3J alts 0 (pos_of (tot3 alts))).
Proof.
  intros alts [Hlen Hall] x. set (B := pos_of (tot3 alts)). set (J := dnf3J alts 0 B).
  assert (Hne : alts <> []) by (intro; subst; cbn in Hlen; lia).
  assert (Hinv : inv J (pos_of 0) B B) by (apply inv_dnf3J; apply le_n).
  destruct Hinv as [R [L U]].
  rewrite <- in_or_set. apply (or_jumps_classified (stream3 alts) (or_set J) (tot3 alts)).
  - unfold stream3. rewrite conditions_end_from, ce_from_app, ce_from_dnf3_code by assumption. reflexivity.
  - intros j t Hj. apply jump_at_stream3 in Hj. destruct Hj as [b Hb]. destruct (R _ _ _ Hb) as [_ [_ [H1 H2]]]. split; assumption.
  - intros j t o t2 Hj HjS Ho HoS Hlt [Hjo Hot].
    apply in_or_set in HjS. destruct HjS as [t' Hjt]. apply jump_at_stream3 in Hj. destruct Hj as [b Hb].
    destruct (U _ _ _ _ _ Hb Hjt) as [E1 E2]. subst t' b.
    apply in_or_set in HoS. destruct HoS as [t2' Hot2]. apply jump_at_stream3 in Ho. destruct Ho as [b2 Hb2].
    destruct (U _ _ _ _ _ Hb2 Hot2) as [E1 E2]. subst t2' b2.
    destruct (Nat.eq_dec t B) as [E|E].
    + destruct (R _ _ _ Hb2) as [_ [_ [_ H]]]. lia.
    + destruct (L _ _ Hb E) as [_ Hloc]. specialize (Hloc o t2 Hb2 Hjo Hot). lia.
  - intros j t Hj Hn. apply jump_at_stream3 in Hj. destruct Hj as [b Hb]. destruct b.
    + exfalso. apply Hn. apply in_or_set. exists t. exact Hb.
    + destruct (dnf3J_blocked alts 0 B Hall (le_n _) j t Hb) as [o [t2 [Ho Hx]]].
      exists o, t2. split; [apply jump_at_stream3; exists true; exact Ho|]. split; [apply in_or_set; exists t2; exact Ho | exact Hx].
  - intros j Hj. apply in_or_set in Hj. destruct Hj as [t Ht]. exists t. apply jump_at_stream3. exists true. exact Ht.
Qed.
