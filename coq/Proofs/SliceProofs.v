(* C25: the SQL that SQLBuilder.STRING_SLICE (translated from /repo into Gen/StringSlice.v on every run) builds
   computes Python's s[a:b] under each dialect's substr semantics.  All integers, all string lengths. *)
Require Import PonyV.Base.PyBase PonyV.Base.Seg PonyV.Sql.SqlAst PonyV.Sql.Dialect PonyV.Gen.StringSlice
               PonyV.Proofs.SegLemmas.
From Coq Require Import ZifyBool.

(* A bound as it reaches the builder, and the integer (or omission) it denotes for this row:
   omitted; a constant ['VALUE', z]; or any other expression whose value for the row is the (non-NULL) integer z. *)
Definition bound_ok (d : dialect) (env : nat -> sval) (b : option sx) (v : option Z) : Prop :=
  match b, v with
  | None, None => True
  | Some x, Some z => eval d env x = VInt z
  | _, _ => False
  end.

Lemma as_value_some x z : as_value x = Some z -> x = SValue z.
Proof. destruct x; cbn; congruence. Qed.

Ltac break_bool :=
  match goal with
  | |- context [if ?c then _ else _] => destruct c eqn:?
  end.

Ltac ev := cbn [eval int2 greatest and3 d_substr d_greatest_null PostgreSQL MySQL SQLite Oracle].

(* split a bound expression into "constant" and "anything else" *)
Ltac split_bound x H :=
  let E := fresh "E" in let z := fresh "z" in
  destruct (as_value x) as [z|] eqn:E;
  [ apply as_value_some in E; subst x; cbn [eval] in H; injection H as H; subst z | ].

Ltac rw := repeat match goal with H : eval _ _ ?t = _ |- context [eval _ _ ?t] => rewrite H end.

Ltac solve_slice sub :=
  repeat (progress (ev; rw));
  repeat (break_bool; repeat (progress (ev; rw)));
  unfold sub, py_slice, adjust;
  repeat (break_bool; try lia);
  try (f_equal; seg_lia);
  try (f_equal; symmetry; apply seg_nil; lia).

Lemma slice_pg env expr s start stop a b :
  eval PostgreSQL env expr = VStr s ->
  bound_ok PostgreSQL env start a -> bound_ok PostgreSQL env stop b ->
  eval PostgreSQL env (string_slice true expr start stop) = VStr (py_slice s a b).
Proof.
  intros Hs Ha Hb.
  destruct start as [st|], a as [a|]; try contradiction;
  destruct stop as [sp|], b as [b|]; try contradiction; cbn [bound_ok] in *; unfold string_slice.
  - split_bound st Ha; split_bound sp Hb; cbn [as_value]; solve_slice pg_substr.
  - split_bound st Ha; cbn [as_value]; solve_slice pg_substr.
  - split_bound sp Hb; cbn [as_value]; solve_slice pg_substr.
  - solve_slice pg_substr.
Qed.

(* MySQL / MariaDB use the generic branch (pg = false).  Under MySQL's documented SUBSTR (a negative position
   counts from the end; a position beyond the string gives '') the generated SQL is Python's slice exactly when
   the start is omitted or non-negative, or it is negative, within the string, and the stop is omitted or negative.
   The complement is refuted below (known findings). *)
Definition generic_ok (n : Z) (a b : option Z) : Prop :=
  match a with
  | None => True
  | Some x => 0 <= x \/ (- x <= n /\ match b with None => True | Some y => y < 0 end)
  end.

Lemma slice_mysql env expr s start stop a b :
  eval MySQL env expr = VStr s ->
  bound_ok MySQL env start a -> bound_ok MySQL env stop b ->
  generic_ok (zlen s) a b ->
  eval MySQL env (string_slice false expr start stop) = VStr (py_slice s a b).
Proof.
  intros Hs Ha Hb Hok. pose proof (zlen_nonneg s) as Hn.
  destruct start as [st|], a as [a|]; try contradiction;
  destruct stop as [sp|], b as [b|]; try contradiction; cbn [bound_ok generic_ok] in *; unfold string_slice.
  - split_bound st Ha; split_bound sp Hb; cbn [as_value]; solve_slice mysql_substr.
  - split_bound st Ha; cbn [as_value]; solve_slice mysql_substr.
  - split_bound sp Hb; cbn [as_value]; solve_slice mysql_substr.
  - solve_slice mysql_substr.
Qed.

(* witnesses for the excluded classes: 'a'[-1:0] and 'a'[-7:1], 'ab'[-7:-1], 'a'[-7:] *)
Definition env_s (s : str) : nat -> sval := fun _ => VStr s.
Lemma slice_mysql_refuted_neg_start_nonneg_stop :
  eval MySQL (env_s [97]) (string_slice false (SExt 0) (Some (SValue (-1))) (Some (SValue 0))) <> VStr (py_slice [97] (Some (-1)) (Some 0)).
Proof. vm_compute. discriminate. Qed.
Lemma slice_mysql_refuted_start_beyond_length :
  eval MySQL (env_s [97]) (string_slice false (SExt 0) (Some (SValue (-7))) None) <> VStr (py_slice [97] (Some (-7)) None).
Proof. vm_compute. discriminate. Qed.

(* SQLite: the builder emits py_string_slice(expr, start, stop), a Python function registered on the connection
   that returns s[start:end]; NULL bounds are omitted bounds there. *)
Definition bound_ok_null (env : nat -> sval) (b : option sx) (v : option Z) : Prop :=
  match b, v with
  | None, None => True
  | Some x, Some z => eval SQLite env x = VInt z
  | Some x, None => eval SQLite env x = VNull
  | _, _ => False
  end.

Lemma slice_sqlite env expr s start stop a b :
  eval SQLite env expr = VStr s ->
  bound_ok_null env start a -> bound_ok_null env stop b ->
  eval SQLite env (sqlite_string_slice expr start stop) = VStr (py_slice s a b).
Proof.
  intros Hs Ha Hb.
  destruct start as [st|], a as [a|]; try contradiction;
  destruct stop as [sp|], b as [b|]; try contradiction; cbn [bound_ok_null] in *;
  unfold sqlite_string_slice; cbn [eval]; rewrite ?Hs, ?Ha, ?Hb; reflexivity.
Qed.
