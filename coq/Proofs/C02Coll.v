(* C02 - conditions over a to-many collection: the subquery semantics is the same on every dialect, so two modelled dialects
   return the same list whenever every group is in the domain of both. *)
Require Import PonyV.Base.PyBase PonyV.Model.C01Expr PonyV.Model.C01Sql PonyV.Model.C01Translate PonyV.Model.C01Safe
               PonyV.Model.C01Eqb PonyV.Model.C01Query PonyV.Model.C01Join PonyV.Model.C01Coll
               PonyV.Proofs.C01Rows PonyV.Proofs.C01Coll.

Theorem agree_coll_rows : forall d1 d2, modelled d1 = true -> modelled d2 = true ->
  forall params db distinct atoms proj vt xs1 q1 xs2 q2,
  pk_ok (tP db) = true ->
  forallb atom_typed atoms = true -> ty_of proj = Some (TV vt) ->
  tr_atoms d1 atoms = Some xs1 -> tr_project d1 proj = Some q1 ->
  tr_atoms d2 atoms = Some xs2 -> tr_project d2 proj = Some q2 ->
  Forall (fun g => group_ok d1 params db atoms proj g /\ group_ok d2 params db atoms proj g) (tG db) ->
  map (dec (TV vt)) (sql_coll_rows d1 params db distinct xs1 q1) = map (dec (TV vt)) (sql_coll_rows d2 params db distinct xs2 q2).
Proof.
  intros d1 d2 H1 H2 params db distinct atoms proj vt xs1 q1 xs2 q2 PK Ty Hp A1 P1 A2 P2 Hall.
  rewrite Forall_forall in Hall.
  destruct (coll_rows d1 H1 params db PK distinct atoms proj vt xs1 q1 Ty Hp A1 P1) as [_ R1].
  { apply Forall_forall. intros g Hg. exact (proj1 (Hall g Hg)). }
  destruct (coll_rows d2 H2 params db PK distinct atoms proj vt xs2 q2 Ty Hp A2 P2) as [_ R2].
  { apply Forall_forall. intros g Hg. exact (proj2 (Hall g Hg)). }
  rewrite R1, R2. reflexivity.
Qed.
