(* C01/C02 - len(g.members) / count(g.members) in a condition: LEFT JOIN + WHERE + GROUP BY g.id + HAVING COUNT(DISTINCT p.id)
   returns the groups the Python comprehension keeps, with len = the number of P objects whose group is g. *)
Require Import PonyV.Base.PyBase PonyV.Model.C01Expr PonyV.Model.C01Sql PonyV.Model.C01Translate PonyV.Model.C01Safe
               PonyV.Model.C01Eqb PonyV.Model.C01Query PonyV.Model.C01Join PonyV.Model.C01Coll PonyV.Model.C01Aggr PonyV.Model.C01Len
               PonyV.Proofs.C01Base PonyV.Proofs.C01Ref PonyV.Proofs.C01Ops PonyV.Proofs.C01Rows PonyV.Proofs.C01Join PonyV.Proofs.C01Coll
               PonyV.Proofs.C01Aggr.
From Coq Require Import ZifyBool.

(* ------------------------------------------------------------------------------------------- list facts *)
Lemma filter_idem : forall A (f : A -> bool) l, filter f (filter f l) = filter f l.
Proof. intros. rewrite filter_filter_and. apply filter_ext. intro x. destruct (f x); reflexivity. Qed.

Lemma dedup_same_prefix : forall k ks l, qv_eqb k k = true -> ks <> [] -> Forall (eq k) ks ->
  dedup qv_eqb (ks ++ l) = k :: filter (fun y => negb (qv_eqb k y)) (dedup qv_eqb l).
Proof.
  intros k ks l R. induction ks as [|x ks IH]; intros Hne Hall; [congruence|].
  inversion Hall as [|? ? Hx Hr]; subst x. cbn [app dedup]. destruct ks as [|y ks]; [reflexivity|].
  rewrite IH by (try discriminate; exact Hr). cbn [filter]. rewrite R. cbn [negb]. rewrite filter_idem. reflexivity.
Qed.

Lemma filter_flat_map_fst : forall A B (f : A -> list B) (W : A * B -> bool) (Wg : A -> bool) l,
  (forall a b, In a l -> In b (f a) -> W (a, b) = Wg a) ->
  filter W (flat_map (fun a => map (pair a) (f a)) l) = flat_map (fun a => map (pair a) (f a)) (filter Wg l).
Proof.
  induction l as [|a l IH]; intro H; [reflexivity|]. cbn [flat_map filter]. rewrite filter_app, IH by (intros; apply H; [right|]; assumption).
  assert (E : filter W (map (pair a) (f a)) = if Wg a then map (pair a) (f a) else []).
  { assert (forall b, In b (f a) -> W (a, b) = Wg a) by (intros; apply H; [left; reflexivity|assumption]).
    clear -H0. induction (f a) as [|b r IHr]; [destruct (Wg a); reflexivity|]. cbn [map filter]. rewrite (H0 b (or_introl eq_refl)), IHr by (intros; apply H0; right; assumption).
    destruct (Wg a); reflexivity. }
  rewrite E. destruct (Wg a); reflexivity.
Qed.

Lemma tr_filters_truth : forall d qe (P : expr -> bool) es w, tr_filters d es = Some w ->
  (forall e c, In e es -> tr_filter d e = Some c -> where_truth d qe c = P e) -> where_truth d qe w = forallb P es.
Proof.
  intros d qe P es. induction es as [|e r IH]; intros w E H.
  - inversion E; subst. rewrite where_truth_forallb. reflexivity.
  - cbn [tr_filters] in E. destruct (tr_filter d e) as [c|] eqn:Ec; [|discriminate]. destruct (tr_filters d r) as [cs|] eqn:Er; [|discriminate].
    inversion E; subst w. rewrite where_truth_app. cbn [forallb]. rewrite (H e c (or_introl eq_refl) Ec), (IH cs eq_refl); [reflexivity|].
    intros e' c' Hin. apply H. right. exact Hin.
Qed.

Lemma keys_ok_int : forall ks k, keys_ok ks = true -> In k ks -> exists z, k = PInt z.
Proof.
  induction ks as [|x r IH]; intros k H Hin; [contradiction|]. cbn [keys_ok] in H.
  apply andb_prop in H. destruct H as [H H3]. apply andb_prop in H. destruct H as [H1 _].
  destruct Hin as [<-|Hin]; [|apply IH; assumption]. destruct x; try discriminate H1. eauto.
Qed.

Section Len.
Variable d : dname.
Hypothesis Hd : modelled d = true.
Variable params : nat -> pyv.
Variable db : jdb.
Hypothesis PK : pk_ok (tP db) = true.

Notation lj_ext := (lj_ext db).
Notation gkey := (gkey d).

(* ------------------------------------------------------------------------------------------- the LEFT JOIN groups *)
Lemma lj_ext_nonempty : forall g, lj_ext g <> [].
Proof. intro g. unfold C01Len.lj_ext. destruct (joined db sub_join g); discriminate. Qed.

Lemma lj_count : forall g, count_distinct (map (pid d) (map (pair g) (lj_ext g))) = length (members db g).
Proof.
  intro g. unfold C01Len.lj_ext. rewrite joined_members. destruct (members db g) as [|m l] eqn:E; [reflexivity|].
  rewrite <- E. rewrite !map_map. cbn [pid snd].
  apply (count_pk d). unfold members. apply pk_ok_filter. exact PK.
Qed.

Lemma gkey_pair : forall g (x : option row), gkey (g, x) = enc d (g 0%nat).
Proof. reflexivity. Qed.

Lemma group_by_flat : forall L, keys_ok (map (fun g : row => g 0%nat) L) = true ->
  group_by d (flat_map (fun g => map (pair g) (lj_ext g)) L) = map (fun g => map (pair g) (lj_ext g)) L.
Proof.
  induction L as [|g L IH]; intro K; [reflexivity|].
  cbn [map keys_ok] in K. apply andb_prop in K. destruct K as [K K3]. apply andb_prop in K. destruct K as [K1 K2].
  destruct (g 0%nat) as [|z| |] eqn:Eg; try discriminate K1. rewrite negb_true_iff in K2.
  cbn [flat_map map]. set (B := map (pair g) (lj_ext g)). set (R := flat_map (fun g0 => map (pair g0) (lj_ext g0)) L).
  (* keys *)
  assert (KB : Forall (eq (IntV z)) (map gkey B)).
  { unfold B. rewrite map_map. apply Forall_forall. intros k Hk. apply in_map_iff in Hk. destruct Hk as [x [<- _]]. rewrite gkey_pair, Eg. reflexivity. }
  assert (KR : forall r, In r R -> qv_eqb (IntV z) (gkey r) = false).
  { intros r Hr. unfold R in Hr. apply in_flat_map in Hr. destruct Hr as [g' [Hg' Hr]]. apply in_map_iff in Hr. destruct Hr as [x [<- _]].
    rewrite gkey_pair. destruct (qv_eqb (IntV z) (enc d (g' 0%nat))) eqn:E; [|reflexivity].
    assert (X : existsb (pyv_eqb (PInt z)) (map (fun g0 : row => g0 0%nat) L) = true).
    { apply existsb_exists. exists (g' 0%nat). split; [apply (in_map (fun g0 : row => g0 0%nat)); exact Hg'|].
      destruct (keys_ok_int _ (g' 0%nat) K3 (in_map (fun g0 : row => g0 0%nat) L g' Hg')) as [z' Ez']. rewrite Ez' in *. exact E. }
    congruence. }
  assert (Bne : map gkey B <> []).
  { unfold B. pose proof (lj_ext_nonempty g). destruct (lj_ext g); [congruence|discriminate]. }
  unfold group_by. rewrite map_app, (dedup_same_prefix (IntV z) (map gkey B) (map gkey R) (Z.eqb_refl z) Bne KB).
  assert (NK : filter (fun y => negb (qv_eqb (IntV z) y)) (dedup qv_eqb (map gkey R)) = dedup qv_eqb (map gkey R)).
  { apply filter_all. intros y Hy. apply dedup_incl in Hy. apply in_map_iff in Hy. destruct Hy as [r [<- Hr]]. rewrite (KR r Hr). reflexivity. }
  rewrite NK. cbn [map]. f_equal.
  - (* the first group *)
    rewrite filter_app.
    assert (F1 : filter (fun r => qv_eqb (gkey r) (IntV z)) B = B).
    { apply filter_all. intros r Hr. unfold B in Hr. apply in_map_iff in Hr. destruct Hr as [x [<- _]]. rewrite gkey_pair, Eg. cbn. apply Z.eqb_refl. }
    assert (F2 : filter (fun r => qv_eqb (gkey r) (IntV z)) R = []).
    { clear -KR. induction R as [|r R IHR]; [reflexivity|]. cbn [filter].
      assert (E : qv_eqb (gkey r) (IntV z) = false).
      { specialize (KR r (or_introl eq_refl)). destruct (gkey r); cbn in *; try reflexivity. rewrite Z.eqb_sym. exact KR. }
      rewrite E. apply IHR. intros r' Hr'. apply KR. right. exact Hr'. }
    rewrite F1, F2, app_nil_r. reflexivity.
  - (* the others *)
    rewrite <- (IH K3). unfold group_by. fold R. apply map_ext_in. intros k Hk. rewrite filter_app.
    assert (F : filter (fun r => qv_eqb (gkey r) k) B = []).
    { apply dedup_incl in Hk. apply in_map_iff in Hk. destruct Hk as [r [<- Hr]]. specialize (KR r Hr).
      clear -KR Eg. unfold B. induction (lj_ext g) as [|x l IHl]; [reflexivity|]. cbn [map filter]. rewrite gkey_pair, Eg. cbn [enc].
      rewrite KR. exact IHl. }
    rewrite F. reflexivity.
Qed.

(* ------------------------------------------------------------------------------------------- whole queries *)
Hypothesis GK : keys_ok (map (fun g : row => g 0%nat) (tG db)) = true.

(* a condition over g's own columns only *)
Definition g_only (e : expr) : bool := forallb (fun i => (10 <=? i)%nat && (i <? 20)%nat) (attr_ids e).

Definition len_ok (ws hs : list expr) (proj : expr) (g : row) : Prop :=
  (forall e, In e ws -> forall om, In om (lj_ext g) -> cond_dom d (cenv params g om PNone) e) /\
  (forall e, In e hs -> cond_dom d (len_env params db g) e) /\
  val_dom d (len_env params db g) proj.

Lemma group_env_of : forall g, group_env d params (map (pair g) (lj_ext g)) = Some (len_env params db g).
Proof.
  intro g. unfold group_env. pose proof (lj_count g) as C. pose proof (lj_ext_nonempty g) as N.
  destruct (lj_ext g) as [|x l] eqn:E; [congruence|]. cbn [map fst]. cbn [map] in C. rewrite C. reflexivity.
Qed.

Lemma g_only_env : forall g om e, g_only e = true -> ref_eval (cenv params g om PNone) e = ref_eval (len_env params db g) e.
Proof.
  intros g om e H. unfold ref_eval. apply reval_ext; [|reflexivity]. intros i Hi. unfold g_only in H. rewrite forallb_forall in H.
  specialize (H i Hi). apply andb_prop in H. destruct H as [H1 H2]. unfold len_env, cenv. cbn [attr_val].
  assert (E : (i <? 10)%nat = false) by lia. rewrite E, H2. reflexivity.
Qed.

Theorem len_rows : forall ws hs proj vt w h q,
  forallb boolty (ws ++ hs) = true -> forallb g_only ws = true -> ty_of proj = Some (TV vt) ->
  tr_len d ws hs = Some (sub_join, w, h) -> tr_project d proj = Some q ->
  Forall (len_ok ws hs proj) (tG db) ->
  sql_len_rows d params db w h q = map (enc d) (py_len_rows params db ws hs proj) /\
  map (dec (TV vt)) (sql_len_rows d params db w h q) = py_len_rows params db ws hs proj.
Proof.
  intros ws hs proj vt w h q Ty Go Hp ET EQ Hall. rewrite Forall_forall in Hall.
  rewrite forallb_app in Ty. apply andb_prop in Ty. destruct Ty as [Tw Th]. rewrite forallb_forall in Tw, Th, Go.
  unfold tr_len, tr_len_raw in ET.
  destruct (tr_filters d ws) as [w'|] eqn:Ew; [|discriminate]. destruct (tr_filters d hs) as [h'|] eqn:Eh; [|discriminate].
  cbn [fst snd] in ET.
  match type of ET with (if ?c then _ else _) = _ => destruct c; [|discriminate] end. inversion ET; subst w' h'. clear ET.
  set (Wg := fun g => forallb (fun e => py_truthy e (ref_eval (len_env params db g) e)) ws).
  set (Hg := fun g => forallb (fun e => py_truthy e (ref_eval (len_env params db g) e)) hs).
  (* WHERE on a joined row depends on g only *)
  assert (SW : forall g om, In g (tG db) -> In om (lj_ext g) -> where_truth d (encenv d (cenv params g om PNone)) w = Wg g).
  { intros g om Hg' Hom. apply (tr_filters_truth d _ _ ws w Ew). intros e c He Ec. destruct (Hall g Hg') as [Dw _].
    rewrite (filter_sound d Hd _ e c (Tw e He) (Dw e He om Hom) Ec). rewrite (g_only_env g om e (Go e He)). reflexivity. }
  assert (SH : forall g, In g (tG db) -> where_truth d (encenv d (len_env params db g)) h = Hg g).
  { intros g Hg'. apply (tr_filters_truth d _ _ hs h Eh). intros e c He Ec. destruct (Hall g Hg') as [_ [Dh _]].
    apply (filter_sound d Hd _ e c (Th e He) (Dh e He) Ec). }
  (* rows, groups *)
  assert (R : filter (fun r => where_truth d (encenv d (cenv params (fst r) (snd r) PNone)) w) (lj_rows db)
              = flat_map (fun g => map (pair g) (lj_ext g)) (filter Wg (tG db))).
  { unfold lj_rows. apply (filter_flat_map_fst _ _ lj_ext _ Wg). intros g om Hg' Hom. cbn [fst snd]. apply SW; assumption. }
  unfold sql_len_rows. rewrite R, (group_by_flat _ (keys_ok_filter _ (fun g : row => g 0%nat) Wg _ GK)).
  rewrite filter_map_swap, map_map.
  assert (F : filter (fun g => match group_env d params (map (pair g) (lj_ext g)) with Some en => where_truth d (encenv d en) h | None => false end) (filter Wg (tG db))
              = filter (fun g => forallb (fun e => py_truthy e (ref_eval (len_env params db g) e)) (ws ++ hs)) (tG db)).
  { rewrite filter_filter_and. apply filter_ext_in'. intros g Hg'. rewrite group_env_of, (SH g Hg'), forallb_app. reflexivity. }
  rewrite F. set (kept := filter (fun g => forallb (fun e => py_truthy e (ref_eval (len_env params db g) e)) (ws ++ hs)) (tG db)).
  assert (KIn : forall g, In g kept -> In g (tG db)) by (intros g H; apply filter_In in H; tauto).
  assert (ME : map (fun g => match group_env d params (map (pair g) (lj_ext g)) with Some en => qeval d (encenv d en) q | None => NullV end) kept
               = map (enc d) (map (fun g => ref_eval (len_env params db g) proj) kept)).
  { rewrite map_map. apply map_ext_in. intros g Hin. rewrite group_env_of. destruct (Hall g (KIn g Hin)) as [_ [_ [A4 [A5 A6]]]].
    destruct (project_ref d Hd _ proj vt Hp A4 A5 A6) as [q' [E' [Q _]]]. rewrite EQ in E'. inversion E'; subst. exact Q. }
  assert (S : map (fun g => match group_env d params (map (pair g) (lj_ext g)) with Some en => qeval d (encenv d en) q | None => NullV end) kept
              = map (enc d) (py_len_rows params db ws hs proj)) by (rewrite ME; reflexivity).
  split; [exact S|]. rewrite S, map_map. unfold py_len_rows. fold kept. rewrite map_map.
  apply map_ext_in. intros g Hin. destruct (Hall g (KIn g Hin)) as [_ [_ [A4 [A5 A6]]]]. apply dec_enc.
  unfold ref_eval. rewrite <- (clean_same _ proj A6). exact (reval_typed true _ proj (TV vt) Hp A4).
Qed.
End Len.
