(* C18 - lemmas about the db_session model (Model/C18Session.v). *)
From Coq Require Import List Bool Arith Lia.
Import ListNotations.
Require Import PonyV.Model.C18Session PonyV.Gen.C18Web.

Definition is_run (e : event) : bool := match e with ERun _ _ _ => true | _ => false end.
Definition runs (t : list event) : list event := filter is_run t.
Definition is_txn (e : event) : bool :=
  match e with ECommit _ | ECommitFail _ | ERollback _ => true | _ => false end.

Lemma runs_app : forall a b, runs (a ++ b) = runs a ++ runs b.
Proof. intros; unfold runs; apply filter_app. Qed.

Section Proofs.
Variable exc : Type.
Variable should_retry : exc -> bool.
Variable cfail : exc.

Notation outcome := (outcome exc).
Notation sess := (sess exc).
Notation do_retry := (do_retry exc should_retry).
Notation loop := (loop exc should_retry cfail).
Notation call := (call exc should_retry cfail).
Notation call_stream := (call_stream exc should_retry cfail).
Notation stream_body := (stream_body exc).
Notation leaf := (leaf exc).
Notation run_with := (run_with exc cfail).
Notation exit_ := (exit_ exc cfail).
Notation do_commit := (do_commit exc cfail).
Notation can_commit := (can_commit exc).

Definition dflt : bool * outcome := (false, Ok).

(* ------------------------------------------------------------------ specification vocabulary for one attempt *)

(* how an attempt ends, counting the explicit commit() after a finished body *)
Definition eff (a : bool * outcome) : outcome :=
  match snd a with Raise e => Raise e | Ok => if fst a then Raise cfail else Ok end.

(* the attempt is followed by another one (if any is left) *)
Definition retried (s : sess) (a : bool * outcome) : bool :=
  match eff a with Raise e => do_retry s e | Ok => false end.

(* the attempt's writes end up committed *)
Definition commits (s : sess) (a : bool * outcome) : bool :=
  negb (fst a) && match snd a with Ok => true | Raise e => s_allowed exc s e && negb (do_retry s e) end.

(* what the caller sees when this is the last attempt *)
Definition final_out (s : sess) (a : bool * outcome) : outcome :=
  match snd a with
  | Ok => if fst a then Raise cfail else Ok
  | Raise e => if negb (do_retry s e) && s_allowed exc s e && fst a then Raise cfail else Raise e
  end.

(* index of the last attempt executed: the first one that is not retried, or the last one allowed *)
Fixpoint final_attempt (s : sess) (str : list (bool * outcome)) (i n : nat) : nat :=
  match n with
  | 0 => i
  | S n' => if retried s (nth i str dflt) then final_attempt s str (S i) n' else i
  end.

Lemma final_attempt_range : forall s str n i, i <= final_attempt s str i n <= i + n.
Proof.
  induction n as [|n IH]; intros i; simpl; [lia|].
  destruct (retried s (nth i str dflt)); [specialize (IH (S i))|]; lia.
Qed.

Lemma final_attempt_retried_before : forall s str n i k,
  i <= k < final_attempt s str i n -> retried s (nth k str dflt) = true.
Proof.
  induction n as [|n IH]; intros i k Hk; simpl in Hk; [lia|].
  destruct (retried s (nth i str dflt)) eqn:Hr; [|lia].
  destruct (Nat.eq_dec k i) as [->|Hne]; [exact Hr|].
  apply (IH (S i)); lia.
Qed.

Lemma final_attempt_stops : forall s str n i,
  retried s (nth (final_attempt s str i n) str dflt) = false \/ final_attempt s str i n = i + n.
Proof.
  induction n as [|n IH]; intros i; simpl; [right; lia|].
  destruct (retried s (nth i str dflt)) eqn:Hr; [|left; exact Hr].
  destruct (IH (S i)) as [H|H]; [left; exact H|right; lia].
Qed.

Lemma commits_true_iff : forall s p o,
  commits s (p, o) = true <->
  p = false /\ (o = Ok \/ exists e, o = Raise e /\ s_allowed exc s e = true /\ do_retry s e = false).
Proof.
  intros s p o; unfold commits; simpl; split.
  - intros H; apply andb_true_iff in H as [Hp Ho]. apply negb_true_iff in Hp. split; [exact Hp|].
    destruct o as [|e]; [left; reflexivity|right]. apply andb_true_iff in Ho as [Ha Hr].
    apply negb_true_iff in Hr. exists e; auto.
  - intros [-> [->|[e [-> [Ha Hr]]]]]; simpl; [reflexivity|]. rewrite Ha, Hr; reflexivity.
Qed.

Lemma retried_not_commits : forall s a, retried s a = true -> commits s a = false.
Proof.
  intros s [p o] H; unfold retried, eff, commits in *; simpl in *.
  destruct o as [|e]; destruct p; simpl in *; try discriminate; try reflexivity.
  rewrite H; simpl. apply andb_false_r.
Qed.

Lemma final_out_ok_iff : forall s p o, final_out s (p, o) = Ok <-> p = false /\ o = Ok.
Proof.
  intros s p o; unfold final_out; cbn [fst snd]. split.
  - destruct o as [|e]; destruct p; try discriminate; auto.
    + destruct (negb (do_retry s e) && s_allowed exc s e && true); discriminate.
    + destruct (negb (do_retry s e) && s_allowed exc s e && false); discriminate.
  - intros [-> ->]; reflexivity.
Qed.

(* an exception raised by the body is never swallowed: it (or the failure of the commit it allowed) reaches the caller *)
Lemma final_out_raise : forall s p e, final_out s (p, Raise e) = Raise e \/ (p = true /\ final_out s (p, Raise e) = Raise cfail).
Proof.
  intros s p e; unfold final_out; cbn [fst snd].
  destruct (negb (do_retry s e) && s_allowed exc s e); destruct p; cbn; auto.
Qed.

(* ------------------------------------------------------------------ the retry loop *)

Ltac unf :=
  unfold C18Session.exit_, C18Session.commit_or_rollback, C18Session.can_commit, C18Session.do_commit, C18Session.do_rollback,
         C18Session.enter, C18Session.emit, C18Session.set_depth, C18Session.poisoned, C18Session.after_exit, C18Session.leaf;
  cbn -[C18Session.do_retry].

(* one attempt that is not retried: the loop ends here *)
Lemma loop_stop : forall s str n i last c t,
  retried s (nth i str dflt) = false ->
  exists t',
    loop s (stream_body str) i (S n) last (mkst 0 [] c t)
    = (mkst 0 [] (c ++ if commits s (nth i str dflt) then [i] else []) (t ++ t'), final_out s (nth i str dflt))
    /\ runs t' = [ERun i 0 1].
Proof.
  intros s str n i last c t. unfold dflt.
  destruct (nth i str (false, Ok)) as [p o] eqn:Ha. intros Hr.
  unfold retried, eff, commits, final_out in *. cbn [fst snd] in *.
  cbn [C18Session.loop]. unfold C18Session.stream_body. rewrite Ha.
  destruct o as [|e]; destruct p; cbn -[C18Session.do_retry] in *.
  - (* finished, poisoned: commit fails with cfail, not retryable *)
    rewrite Hr. unf.
    destruct (s_allowed exc s cfail); unf; rewrite <- ?app_assoc, ?app_nil_r;
      (eexists; split; [reflexivity|reflexivity]).
  - rewrite <- ?app_assoc. eexists; split; [reflexivity|reflexivity].
  - rewrite Hr. unf.
    destruct (s_allowed exc s e); unf; rewrite <- ?app_assoc, ?app_nil_r;
      (eexists; split; [reflexivity|reflexivity]).
  - rewrite Hr. unf.
    destruct (s_allowed exc s e); unf; rewrite <- ?app_assoc, ?app_nil_r;
      (eexists; split; [reflexivity|reflexivity]).
Qed.

(* one attempt that is retried: rolled back, session closed, state as before *)
Lemma loop_retry : forall s str n i last c t,
  retried s (nth i str dflt) = true ->
  exists t',
    loop s (stream_body str) i (S n) last (mkst 0 [] c t)
    = loop s (stream_body str) (S i) n (eff (nth i str dflt)) (mkst 0 [] c (t ++ t'))
    /\ runs t' = [ERun i 0 1] /\ In (ERollback 1) t'.
Proof.
  intros s str n i last c t. unfold dflt.
  destruct (nth i str (false, Ok)) as [p o] eqn:Ha. intros Hr.
  unfold retried, eff in *. cbn [fst snd] in *.
  assert (Hk : C18Session.stream_body exc str i = C18Session.leaf exc i p o)
    by (unfold C18Session.stream_body; rewrite Ha; reflexivity).
  set (k := C18Session.stream_body exc str) in *.
  cbn [C18Session.loop]. rewrite Hk. clearbody k.
  destruct o as [|e]; destruct p; cbn -[C18Session.do_retry] in *; try discriminate.
  - rewrite Hr. unf.
    destruct (s_allowed exc s cfail); unf; rewrite <- ?app_assoc, ?app_nil_r;
      (eexists; split; [reflexivity|split; [reflexivity|cbn; tauto]]).
  - rewrite Hr. unf.
    destruct (s_allowed exc s e); unf; rewrite <- ?app_assoc, ?app_nil_r;
      (eexists; split; [reflexivity|split; [reflexivity|cbn; tauto]]).
  - rewrite Hr. unf.
    destruct (s_allowed exc s e); unf; rewrite <- ?app_assoc, ?app_nil_r;
      (eexists; split; [reflexivity|split; [reflexivity|cbn; tauto]]).
Qed.

Lemma final_out_retried : forall s a, retried s a = true -> final_out s a = eff a.
Proof.
  intros s [p o] H; unfold retried, eff, final_out in *; cbn [fst snd] in *.
  destruct o as [|e]; [reflexivity|]. rewrite H; reflexivity.
Qed.

Theorem loop_spec : forall s str n i last c t,
  let j := final_attempt s str i n in
  exists t',
    loop s (stream_body str) i (S n) last (mkst 0 [] c t)
    = (mkst 0 [] (c ++ if commits s (nth j str dflt) then [j] else []) (t ++ t'), final_out s (nth j str dflt))
    /\ runs t' = map (fun k => ERun k 0 1) (seq i (S (j - i)))
    /\ (forall k, i <= k < j -> In (ERollback 1) t').
Proof.
  intros s str n; induction n as [|n IH]; intros i last c t; cbn [final_attempt].
  - destruct (retried s (nth i str dflt)) eqn:Hr.
    + destruct (loop_retry s str 0 i last c t Hr) as [t' [E [R _]]].
      exists t'. rewrite E. cbn [C18Session.loop].
      rewrite (retried_not_commits _ _ Hr), app_nil_r, (final_out_retried _ _ Hr).
      split; [reflexivity|]. rewrite Nat.sub_diag. split; [exact R|intros; lia].
    + destruct (loop_stop s str 0 i last c t Hr) as [t' [E R]].
      exists t'. rewrite Nat.sub_diag. split; [exact E|split; [exact R|intros; lia]].
  - destruct (retried s (nth i str dflt)) eqn:Hr.
    + destruct (loop_retry s str (S n) i last c t Hr) as [t1 [E [R Hin]]].
      destruct (IH (S i) (eff (nth i str dflt)) c (t ++ t1)) as [t2 [E2 [R2 Hin2]]].
      exists (t1 ++ t2). rewrite E, E2, app_assoc. split; [reflexivity|].
      pose proof (final_attempt_range s str n (S i)) as Hrange.
      split.
      * rewrite runs_app, R, R2.
        replace (S (final_attempt s str (S i) n - i)) with (S (S (final_attempt s str (S i) n - S i))) by lia.
        reflexivity.
      * intros k Hk. apply in_or_app. left; exact Hin.
    + destruct (loop_stop s str (S n) i last c t Hr) as [t' [E R]].
      exists t'. rewrite Nat.sub_diag. split; [exact E|split; [exact R|intros; lia]].
Qed.

(* ------------------------------------------------------------------ decorated function, top level *)

Theorem call_stream_top : forall s str x,
  depth x = 0 -> pend x = [] ->
  let j := final_attempt s str 0 (s_retry exc s) in
  let a := nth j str dflt in
  exists t',
    call_stream s str x
    = (mkst 0 [] (comm x ++ if commits s a then [j] else []) (tr x ++ t'), final_out s a)
    /\ runs t' = map (fun k => ERun k 0 1) (seq 0 (S j))
    /\ (forall k, k < j -> In (ERollback 1) t').
Proof.
  intros s str [d pe c t] Hd Hp; cbn in Hd, Hp; subst d pe.
  unfold C18Session.call_stream, C18Session.call; cbn [depth Nat.eqb].
  destruct (loop_spec s str (s_retry exc s) 0 Ok c t) as [t' [E [R H]]].
  exists t'. rewrite Nat.sub_0_r in R. split; [exact E|split; [exact R|]].
  intros k Hk; apply (H k); lia.
Qed.

(* inside a live session the decorated function is just called: one execution, nothing committed or rolled back *)
Theorem call_stream_nested : forall s str x,
  depth x <> 0 ->
  call_stream s str x = stream_body str 0 x.
Proof.
  intros s str x Hd. unfold C18Session.call_stream, C18Session.call.
  destruct (depth x =? 0) eqn:E; [apply Nat.eqb_eq in E; contradiction|reflexivity].
Qed.

(* ------------------------------------------------------------------ context manager, top level, leaf body *)

Theorem with_leaf_top : forall s i p o x,
  depth x = 0 -> pend x = [] ->
  let ok := can_commit s o in
  exists t',
    run_with s (leaf i p o) x
    = (mkst 0 [] (comm x ++ if ok && negb p then [i] else []) (tr x ++ t'),
       if ok && p then Raise cfail else o)
    /\ runs t' = [ERun i 0 1].
Proof.
  intros s i p o [d pe c t] Hd Hp; cbn in Hd, Hp; subst d pe.
  unfold C18Session.run_with.
  destruct o as [|e]; destruct p; unf.
  - rewrite <- ?app_assoc, ?app_nil_r. eexists; split; [reflexivity|reflexivity].
  - rewrite <- ?app_assoc, ?app_nil_r. eexists; split; [reflexivity|reflexivity].
  - destruct (s_allowed exc s e); unf; rewrite <- ?app_assoc, ?app_nil_r;
      (eexists; split; [reflexivity|reflexivity]).
  - destruct (s_allowed exc s e); unf; rewrite <- ?app_assoc, ?app_nil_r;
      (eexists; split; [reflexivity|reflexivity]).
Qed.

(* ------------------------------------------------------------------ nesting: arbitrary programs inside a live session *)
Section Nesting.
Variable is_exception : exc -> bool.
Notation run := (run exc should_retry cfail is_exception).
Notation writes := (writes exc is_exception).

Theorem run_inside : forall p x,
  depth x <> 0 ->
  exists t',
    run p x = (mkst (depth x) (pend x ++ fst (writes p)) (comm x) (tr x ++ t'), snd (writes p))
    /\ forallb is_run t' = true.
Proof.
  induction p as [i b o|p IHp q IHq|p IHp|s p IHp|s p IHp]; intros x Hd.
  - cbn. eexists; split; [reflexivity|reflexivity].
  - cbn [C18Session.run C18Session.writes].
    destruct (IHp x Hd) as [t1 [E1 F1]]. rewrite E1.
    destruct (writes p) as [w o]; cbn [fst snd] in *.
    destruct o as [|e].
    + set (x1 := mkst (depth x) (pend x ++ w) (comm x) (tr x ++ t1)).
      destruct (IHq x1 Hd) as [t2 [E2 F2]]. rewrite E2. subst x1; cbn [depth pend comm tr].
      destruct (writes q) as [w' o']; cbn [fst snd] in *.
      exists (t1 ++ t2). rewrite !app_assoc. split; [reflexivity|].
      rewrite forallb_app, F1, F2; reflexivity.
    + exists t1. split; [reflexivity|exact F1].
  - cbn [C18Session.run C18Session.writes].
    destruct (IHp x Hd) as [t1 [E1 F1]]. rewrite E1. cbn [fst snd].
    exists t1. split; [reflexivity|exact F1].
  - cbn [C18Session.run C18Session.writes]. unfold C18Session.run_with, C18Session.enter.
    destruct (depth x =? 0) eqn:E; [apply Nat.eqb_eq in E; contradiction|].
    set (x1 := set_depth (S (depth x)) x).
    assert (Hd1 : depth x1 <> 0) by (subst x1; cbn; lia).
    destruct (IHp x1 Hd1) as [t1 [E1 F1]]. rewrite E1. subst x1; cbn.
    destruct (depth x) as [|d'] eqn:Hdx; [contradiction|]. cbn.
    destruct (snd (writes p)); exists t1; (split; [reflexivity|exact F1]).
  - cbn [C18Session.run C18Session.writes]. unfold C18Session.call.
    destruct (depth x =? 0) eqn:E; [apply Nat.eqb_eq in E; contradiction|].
    exact (IHp x Hd).
Qed.

(* the outermost `with`: it alone decides, over all writes made inside, whatever sessions were nested in the body;
   every commit/rollback event comes after the whole body *)
Theorem with_outermost : forall s p x,
  depth x = 0 -> pend x = [] ->
  let w := fst (writes p) in
  let o := snd (writes p) in
  let ok := can_commit s o in
  let bad := existsb snd w in
  exists t1 tl,
    run (PWith exc s p) x
    = (mkst 0 [] (comm x ++ if ok && negb bad then map fst w else []) (tr x ++ EBegin :: t1 ++ tl),
       if ok && bad then Raise cfail else o)
    /\ forallb is_run t1 = true /\ forallb is_txn tl = true.
Proof.
  intros s p [d pe c t] Hd Hp; cbn in Hd, Hp; subst d pe.
  cbn [C18Session.run]. unfold C18Session.run_with. cbn [C18Session.enter depth Nat.eqb].
  set (x1 := emit EBegin (set_depth 1 (mkst 0 [] c t))).
  assert (Hd1 : depth x1 <> 0) by (subst x1; cbn; lia).
  destruct (run_inside p x1 Hd1) as [t1 [E1 F1]]. rewrite E1. subst x1.
  exists t1.
  destruct (writes p) as [w o]. cbn [fst snd] in *.
  destruct o as [|e]; [|destruct (s_allowed exc s e) eqn:Hal]; destruct (existsb snd w) eqn:Hbad;
    unf; rewrite ?Hal, ?Hbad; unf; rewrite ?Hal, ?Hbad; rewrite <- ?app_assoc, ?app_nil_r; cbn [app];
    (eexists; split; [reflexivity|split; [exact F1|reflexivity]]).
Qed.

End Nesting.

(* ------------------------------------------------------------------ tie to the source skeleton of _commit_or_rollback (Gen/C18Web.v) *)

Lemma commit_or_rollback_src : forall s o x,
  commit_or_rollback exc cfail s o x
  = match action_src (can_commit_src (s_allowed exc s) (match o with Ok => None | Raise e => Some e end)) with
    | ActCommit => do_commit x
    | ActRollback => (do_rollback x, Ok)
    end.
Proof.
  intros s o x. unfold C18Session.commit_or_rollback, C18Session.can_commit, action_src, can_commit_src.
  destruct o as [|e]; [reflexivity|]. destruct (s_allowed exc s e); reflexivity.
Qed.

(* ------------------------------------------------------------------ web integrations *)

Lemma flask_typed_is_with : forall view x,
  flask_request exc cfail true view x = run_with (flask_sess exc) view x.
Proof. intros; reflexivity. Qed.

(* with the exception type handed to __exit__: a request commits iff its view finished normally *)
Theorem flask_typed : forall p o x,
  depth x = 0 -> pend x = [] ->
  exists t',
    flask_request exc cfail true (leaf 0 p o) x
    = (mkst 0 [] (comm x ++ match o with Ok => if p then [] else [0] | Raise _ => [] end) (tr x ++ t'),
       match o with Ok => if p then Raise cfail else Ok | Raise e => Raise e end).
Proof.
  intros p o x Hd Hp. rewrite flask_typed_is_with.
  destruct (with_leaf_top (flask_sess exc) 0 p o x Hd Hp) as [t' [E _]].
  exists t'. rewrite E. destruct o as [|e]; destruct p; reflexivity.
Qed.

(* without it (`session.__exit__(exc=exception)`): every request commits, whatever the view raised *)
Theorem flask_untyped : forall p o x,
  depth x = 0 -> pend x = [] ->
  exists t',
    flask_request exc cfail false (leaf 0 p o) x
    = (mkst 0 [] (comm x ++ if p then [] else [0]) (tr x ++ t'),
       if p then Raise cfail else o).
Proof.
  intros p o [d pe c t] Hd Hp; cbn in Hd, Hp; subst d pe.
  unfold C18Session.flask_request. destruct o as [|e]; destruct p; unf; rewrite <- ?app_assoc, ?app_nil_r;
    (eexists; reflexivity).
Qed.

(* the source as read on this run hands the exception type to __exit__ (Gen/C18Web.v); if that ever stops being the case this
   lemma - and with it the property theorem C18_flask - no longer checks *)
Lemma flask_source_passes_type : flask_passes_exc_type = true.
Proof. reflexivity. Qed.

Theorem flask_now : forall p o x,
  depth x = 0 -> pend x = [] ->
  exists t',
    flask_request exc cfail flask_passes_exc_type (leaf 0 p o) x
    = (mkst 0 [] (comm x ++ match o with Ok => if p then [] else [0] | Raise _ => [] end) (tr x ++ t'),
       match o with Ok => if p then Raise cfail else Ok | Raise e => Raise e end).
Proof. rewrite flask_source_passes_type. exact flask_typed. Qed.

Lemma call0_leaf : forall s p o x,
  s_retry exc s = 0 ->
  call s (fun _ => leaf 0 p o) x = call_stream s [(p, o)] x.
Proof.
  intros s p o x H. unfold C18Session.call_stream, C18Session.call. rewrite H. reflexivity.
Qed.

Theorem bottle_spec : forall (is_allowed is_te : exc -> bool) p o x,
  depth x = 0 -> pend x = [] ->
  let s := bottle_sess exc is_allowed is_te in
  exists t',
    bottle_request exc should_retry cfail is_allowed is_te p o x
    = (mkst 0 [] (comm x ++ if commits s (p, o) then [0] else []) (tr x ++ t'), final_out s (p, o))
    /\ runs t' = [ERun 0 0 1].
Proof.
  intros ia it p o x Hd Hp s. unfold C18Session.bottle_request. fold s.
  rewrite (call0_leaf s p o x eq_refl).
  destruct (call_stream_top s [(p, o)] x Hd Hp) as [t' [E [R _]]].
  exists t'. cbn in E, R. split; [exact E|exact R].
Qed.

(* ------------------------------------------------------------------ generator sessions *)

Variable must_commit : exc.
Notation gops := (gops exc cfail).
Notation g_commit := (g_commit exc cfail).
Notation ginteract := (ginteract exc cfail must_commit).
Notation grun := (grun exc cfail must_commit).

Definition wops (ws : list (nat * bool)) : list gop := map (fun w => GWrite (fst w) (snd w)) ws.
Fixpoint wtrace (n d : nat) (ws : list (nat * bool)) : list event :=
  match ws with [] => [] | (i, _) :: r => ERun i n d :: wtrace (S n) d r end.

(* markers written by a stretch of generator code *)
Fixpoint gwrites (ops : list gop) : list nat :=
  match ops with [] => [] | GWrite i _ :: r => i :: gwrites r | _ :: r => gwrites r end.

Lemma gops_wops : forall ws ops x fl,
  gops (wops ws ++ ops) x fl
  = gops ops (mkst (depth x) (pend x ++ ws) (comm x) (tr x ++ wtrace (length (pend x)) (depth x) ws)) fl.
Proof.
  induction ws as [|[i b] ws IH]; intros ops x fl.
  - cbn. rewrite !app_nil_r. destruct x; reflexivity.
  - cbn [wops map app C18Session.gops fst snd]. fold (wops ws). rewrite IH. cbn [depth pend comm tr].
    rewrite app_length, Nat.add_1_r, <- !app_assoc. reflexivity.
Qed.

(* gops keeps the counter; committed data only grows *)
Lemma gops_inv : forall ops x fl,
  depth (fst (fst (gops ops x fl))) = depth x /\ exists l, comm (fst (fst (gops ops x fl))) = comm x ++ l.
Proof.
  induction ops as [|op ops IH]; intros x fl.
  - cbn. split; [reflexivity|exists []; rewrite app_nil_r; reflexivity].
  - destruct op as [i b| |]; cbn [C18Session.gops].
    + match goal with |- context [gops ops ?y fl] => destruct (IH y fl) as [H1 [l H2]] end.
      split; [exact H1|exists l; exact H2].
    + destruct (poisoned x); cbn.
      * split; [reflexivity|exists []; rewrite app_nil_r; reflexivity].
      * match goal with |- context [gops ops ?y ?f] => destruct (IH y f) as [H1 [l H2]] end.
        split; [exact H1|exists l; exact H2].
    + unfold C18Session.g_commit. destruct (poisoned x); cbn.
      * split; [reflexivity|exists []; rewrite app_nil_r; reflexivity].
      * match goal with |- context [gops ops ?y []] => destruct (IH y []) as [H1 [l H2]] end.
        split; [exact H1|]. rewrite H2; cbn. rewrite <- !app_assoc. eexists; reflexivity.
Qed.

(* nothing is lost on the way: committed ++ flushed ++ pending grows exactly by what was written *)
Lemma gops_conserve : forall ops x fl,
  snd (gops ops x fl) = Ok ->
  comm (fst (fst (gops ops x fl))) ++ snd (fst (gops ops x fl)) ++ map fst (pend (fst (fst (gops ops x fl))))
  = comm x ++ fl ++ map fst (pend x) ++ gwrites ops.
Proof.
  induction ops as [|op ops IH]; intros x fl Hok.
  - cbn. rewrite app_nil_r. reflexivity.
  - destruct op as [i b| |]; cbn [C18Session.gops gwrites] in *.
    + rewrite IH; [|exact Hok]. cbn [depth pend comm tr]. rewrite map_app. cbn. rewrite <- !app_assoc. reflexivity.
    + destruct (poisoned x); [discriminate Hok|].
      rewrite IH; [|exact Hok]. cbn [depth pend comm tr]. cbn. rewrite <- !app_assoc. reflexivity.
    + unfold C18Session.g_commit in *. destruct (poisoned x); [discriminate Hok|].
      rewrite IH; [|exact Hok]. cbn [depth pend comm tr]. cbn. rewrite <- !app_assoc. reflexivity.
Qed.

(* after every resumption (whether the generator suspended again, ended or raised) the session is closed and nothing is
   pending: a generator session never suspends with uncommitted writes *)
Lemma ginteract_inv : forall stp x,
  let r := ginteract stp x in
  depth (fst r) = 0 /\ pend (fst r) = [] /\ exists l, comm (fst r) = comm x ++ l.
Proof.
  intros [ops e] x. unfold C18Session.ginteract. cbn [fst snd].
  match goal with |- context [gops ops ?y []] => destruct (gops_inv ops y []) as [_ [l Hl]]; destruct (gops ops y []) as [[x1 fl] o] end.
  cbn [fst comm emit set_depth] in Hl.
  destruct o as [|e1].
  - destruct e as [| |e2].
    + unfold g_dirty. destruct (pend x1) eqn:Hp; [destruct fl|]; cbn;
        (split; [reflexivity|split; [try reflexivity; try exact Hp|exists l; exact Hl]]).
    + unfold C18Session.g_commit. destruct (poisoned x1); cbn.
      * split; [reflexivity|split; [reflexivity|exists l; exact Hl]].
      * split; [reflexivity|split; [reflexivity|]]. rewrite Hl, <- !app_assoc. eexists; reflexivity.
    + cbn. split; [reflexivity|split; [reflexivity|exists l; exact Hl]].
  - cbn. split; [reflexivity|split; [reflexivity|exists l; exact Hl]].
Qed.

Theorem grun_inv : forall steps x,
  depth x = 0 -> pend x = [] ->
  let r := grun steps x in
  depth (fst r) = 0 /\ pend (fst r) = [] /\ exists l, comm (fst r) = comm x ++ l.
Proof.
  induction steps as [|stp steps IH]; intros x Hd Hp; cbn [C18Session.grun].
  - cbn. split; [exact Hd|split; [exact Hp|exists []; rewrite app_nil_r; reflexivity]].
  - destruct (ginteract_inv stp x) as [H1 [H2 [l H3]]].
    destruct (ginteract stp x) as [x1 res]; cbn [fst] in *.
    destruct res as [o|].
    + cbn. split; [exact H1|split; [exact H2|exists l; exact H3]].
    + destruct (IH x1 H1 H2) as [G1 [G2 [l' G3]]].
      split; [exact G1|split; [exact G2|]]. rewrite G3, H3, <- app_assoc. eexists; reflexivity.
Qed.

(* THE generator property: if a resumption ends without an exception - the generator suspends again, or finishes - then every
   write it made (flushed or not, before or after manual commits) is committed; "finished normally but the changes are gone"
   cannot happen.  In particular the generator is never suspended with an open transaction. *)
Theorem gstep_no_exception_all_committed : forall ops e x,
  depth x = 0 -> pend x = [] ->
  let r := ginteract (ops, e) x in
  (snd r = None \/ snd r = Some Ok) ->
  comm (fst r) = comm x ++ gwrites ops.
Proof.
  intros ops e [d pe c t] Hd Hp; cbn in Hd, Hp; subst d pe.
  unfold C18Session.ginteract. cbn [fst snd].
  set (x0 := emit EBegin (set_depth 1 (mkst 0 [] c t))).
  pose proof (gops_conserve ops x0 []) as Hc.
  destruct (gops ops x0 []) as [[x1 fl] o]. cbn [fst snd] in Hc.
  destruct o as [|e1]; [|cbn; intros [H|H]; discriminate H].
  specialize (Hc eq_refl). subst x0. cbn [comm pend emit set_depth app map] in Hc.
  destruct e as [| |e2].
  - unfold g_dirty. destruct (pend x1) eqn:Hpe; [destruct fl|]; cbn; try (intros [H|H]; discriminate H).
    intros _. cbn in Hc. rewrite app_nil_r in Hc. exact Hc.
  - unfold C18Session.g_commit. destruct (poisoned x1); cbn; [intros [H|H]; discriminate H|].
    intros _. rewrite <- Hc. reflexivity.
  - cbn. intros [H|H]; discriminate H.
Qed.

(* one resumption whose code only writes (no flush, no manual commit) *)
Theorem gstep_writes : forall ws e x,
  depth x = 0 -> pend x = [] ->
  let r := ginteract (wops ws, e) x in
  match e with
  | GStop => comm (fst r) = comm x ++ (if existsb snd ws then [] else map fst ws)
             /\ snd r = Some (if existsb snd ws then Raise cfail else Ok)
  | GRaise e' => comm (fst r) = comm x /\ snd r = Some (Raise e')
  | GYield => comm (fst r) = comm x
              /\ snd r = match ws with [] => None | _ => Some (Raise must_commit) end
  end.
Proof.
  intros ws e [d pe c t] Hd Hp; cbn in Hd, Hp; subst d pe.
  unfold C18Session.ginteract. cbn [fst snd].
  rewrite <- (app_nil_r (wops ws)), gops_wops. cbn [C18Session.gops depth pend comm tr emit set_depth app].
  destruct e as [| |e'].
  - destruct ws; cbn; split; reflexivity.
  - unfold C18Session.g_commit, poisoned. cbn [pend]. destruct (existsb snd ws); cbn; split; try reflexivity.
    rewrite app_nil_r; reflexivity.
  - cbn. split; reflexivity.
Qed.

(* writes that were flushed (explicitly or by a query) leave an open transaction: suspending is refused and they are rolled back *)
Theorem gstep_flushed_then_yield : forall ws x,
  depth x = 0 -> pend x = [] -> ws <> [] -> existsb snd ws = false ->
  let r := ginteract (wops ws ++ [GFlush], GYield) x in
  comm (fst r) = comm x /\ snd r = Some (Raise must_commit) /\ pend (fst r) = [].
Proof.
  intros ws [d pe c t] Hd Hp Hne Hb; cbn in Hd, Hp; subst d pe.
  unfold C18Session.ginteract. cbn [fst snd].
  rewrite gops_wops. cbn [C18Session.gops depth pend comm tr emit set_depth app].
  unfold poisoned. cbn [pend]. rewrite Hb. cbn.
  destruct ws as [|w ws]; [contradiction|]. cbn. repeat split; reflexivity.
Qed.

(* writes followed by a manual commit() may be followed by a suspension *)
Theorem gstep_commit_then_yield : forall ws x,
  depth x = 0 -> pend x = [] -> existsb snd ws = false ->
  let r := ginteract (wops ws ++ [GCommit], GYield) x in
  comm (fst r) = comm x ++ map fst ws /\ snd r = None /\ pend (fst r) = [].
Proof.
  intros ws [d pe c t] Hd Hp Hb; cbn in Hd, Hp; subst d pe.
  unfold C18Session.ginteract. cbn [fst snd].
  rewrite gops_wops. cbn [C18Session.gops depth pend comm tr emit set_depth app].
  unfold C18Session.g_commit, poisoned. cbn [pend]. rewrite Hb. cbn. repeat split; reflexivity.
Qed.

End Proofs.
